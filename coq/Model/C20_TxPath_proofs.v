(* C20 -- proofs about Model/C20_TxPath.v:
     A. the one-hot multiplexer passes exactly one source through when the valids are mutually exclusive
        (any number of sources), and what it does when they are not;
     B. the transmit path of USBDevice refines the bus-owner specification under the request discipline, its three
        sources are then never valid together, and every completed tx_valid run is a well-formed packet;
     C. the boolean packet checker used by the observers decides the declarative predicate. *)
From Coq Require Import NArith ZArith Arith List Bool Lia ZifyBool ZifyN.
Import ListNotations.
From LunaLib Require Import Netlist Bits Affine Machine PackN.
From LunaModel Require Import Crc Crc_proofs Handshake Handshake_proofs Usb2DataRx_proofs Usb2DataTx Usb2DataTx_proofs TokenDet C20_TxPath.
Open Scope N_scope.
Ltac Zify.zify_post_hook ::= Z.div_mod_to_equations.

(* ============================================================================================== *)
(* A. one-hot multiplexer                                                                           *)
(* the multiplexer is combinational: its run is the map of its output function *)
Lemma ohm_run_map : forall n ow dw tr,
  run (ohm_mstep n ow dw) tt tr = map (fun i => snd (ohm_mstep n ow dw tt i)) tr.
Proof. induction tr as [|i tr IH]; [reflexivity|]. cbn [run map]. unfold ohm_mstep at 1. cbn [snd]. rewrite IH. reflexivity. Qed.

Definition src_at (l : list ohm_src) (j : nat) : ohm_src := nth j l ohm_idle.

Lemma valid_idx_none : forall l k, (forall j, s_valid (src_at l j) = false) -> valid_idx k l = [].
Proof.
  induction l as [|s l IH]; intros k H; [reflexivity|]. cbn [valid_idx].
  pose proof (H 0%nat) as H0. unfold src_at in H0. cbn [nth] in H0. rewrite H0. cbn [app].
  apply IH. intro j. exact (H (S j)).
Qed.

Lemma valid_idx_one : forall l k j, (j < length l)%nat -> s_valid (src_at l j) = true ->
  (forall j', j' <> j -> s_valid (src_at l j') = false) -> valid_idx k l = [(k + j)%nat].
Proof.
  induction l as [|s l IH]; intros k j Hj Hv Ho; [cbn in Hj; lia|]. cbn [valid_idx].
  destruct j as [|j].
  - unfold src_at in Hv. cbn [nth] in Hv. rewrite Hv. cbn [app]. rewrite Nat.add_0_r. f_equal.
    apply valid_idx_none. intro j. exact (Ho (S j) ltac:(lia)).
  - pose proof (Ho 0%nat ltac:(lia)) as H0. unfold src_at in H0. cbn [nth] in H0. rewrite H0. cbn [app].
    replace (k + S j)%nat with (S k + j)%nat by lia. apply IH.
    + cbn [length] in Hj. lia.
    + exact Hv.
    + intros j' Hn. exact (Ho (S j') ltac:(lia)).
Qed.

Lemma valid_idx_in : forall l k j, (j < length l)%nat -> s_valid (src_at l j) = true -> In (k + j)%nat (valid_idx k l).
Proof.
  induction l as [|s l IH]; intros k j Hj Hv; [cbn in Hj; lia|]. cbn [valid_idx]. apply in_or_app.
  destruct j as [|j].
  - left. unfold src_at in Hv. cbn [nth] in Hv. rewrite Hv. rewrite Nat.add_0_r. left. reflexivity.
  - right. replace (k + S j)%nat with (S k + j)%nat by lia. apply IH; [cbn [length] in Hj; lia | exact Hv].
Qed.

Lemma existsb_valid : forall l j, (j < length l)%nat -> s_valid (src_at l j) = true -> existsb s_valid l = true.
Proof.
  intros l j Hj Hv. apply existsb_exists. exists (src_at l j). split; [apply nth_In; exact Hj | exact Hv].
Qed.

Lemma or_fold_one : forall l j, (forall j', j' <> j -> s_or (src_at l j') = 0) ->
  fold_right (fun s acc => N.lor (s_or s) acc) 0 l = s_or (src_at l j).
Proof.
  induction l as [|s l IH]; intros j H.
  - unfold src_at. destruct j; reflexivity.
  - cbn [fold_right]. destruct j as [|j].
    + unfold src_at at 1. cbn [nth].
      assert (E : fold_right (fun s acc => N.lor (s_or s) acc) 0 l = 0).
      { clear IH. induction l as [|s' l IH']; [reflexivity|]. cbn [fold_right].
        pose proof (H 1%nat ltac:(lia)) as H1. unfold src_at in H1. cbn [nth] in H1. rewrite H1, N.lor_0_l.
        apply IH'. intros j' Hn. destruct j' as [|j']; [lia|].
        pose proof (H (S (S j')) ltac:(lia)) as H2. unfold src_at in *. cbn [nth] in *. exact H2. }
      rewrite E, N.lor_0_r. reflexivity.
    + pose proof (H 0%nat ltac:(lia)) as H0. unfold src_at in H0. cbn [nth] in H0. rewrite H0, N.lor_0_l.
      unfold src_at. cbn [nth]. apply IH. intros j' Hn. exact (H (S j') ltac:(lia)).
Qed.

(* exactly one source valid (and the or-signals of the others low): the output IS that source *)
Theorem ohm_exclusive : forall l j, (j < length l)%nat -> s_valid (src_at l j) = true ->
  (forall j', j' <> j -> s_valid (src_at l j') = false /\ s_or (src_at l j') = 0) ->
  ohm_out l = src_at l j.
Proof.
  intros l j Hj Hv Ho. unfold ohm_out, ohm_sel.
  rewrite (valid_idx_one l 0 j Hj Hv (fun j' Hn => proj1 (Ho j' Hn))). cbn [Nat.add].
  rewrite (existsb_valid l j Hj Hv), (or_fold_one l j (fun j' Hn => proj2 (Ho j' Hn))).
  fold (src_at l j). destruct (src_at l j) as [v o d]. cbn [s_valid s_or s_data] in *. subst v. reflexivity.
Qed.

(* no source valid: the output is not valid *)
Theorem ohm_none : forall l, (forall j, s_valid (src_at l j) = false) -> s_valid (ohm_out l) = false.
Proof.
  intros l H. unfold ohm_out. cbn [s_valid]. apply not_true_is_false. intro E.
  apply existsb_exists in E as [s [Hin Hs]]. apply (In_nth _ _ ohm_idle) in Hin as [j [Hj E]].
  pose proof (H j) as Hf. unfold src_at in Hf. rewrite E in Hf. congruence.
Qed.

(* the valid output is the OR of the valids *)
Theorem ohm_valid_or : forall l, s_valid (ohm_out l) = existsb s_valid l.
Proof. reflexivity. Qed.

(* two sources valid together: the data lines carry source 0's data, whether or not source 0 is one of them
   (Encoder reports `invalid` with o = 0): this is why mutual exclusion is needed *)
Theorem ohm_overlap : forall l j k, (j < length l)%nat -> (k < length l)%nat -> j <> k ->
  s_valid (src_at l j) = true -> s_valid (src_at l k) = true ->
  s_valid (ohm_out l) = true /\ s_data (ohm_out l) = s_data (src_at l 0).
Proof.
  intros l j k Hj Hk Hn Vj Vk. split; [exact (existsb_valid l j Hj Vj)|].
  unfold ohm_out, ohm_sel. cbn [s_data].
  pose proof (valid_idx_in l 0 j Hj Vj) as Ij. pose proof (valid_idx_in l 0 k Hk Vk) as Ik. cbn [Nat.add] in *.
  destruct (valid_idx 0 l) as [|a [|b r]]; try reflexivity.
  cbn [In] in Ij, Ik. destruct Ij as [Ij|[]]; destruct Ik as [Ik|[]]. congruence.
Qed.

(* ============================================================================================== *)
(* B. the transmit path                                                                             *)
(* the repacked words carry tx_ready where the component models look for it *)
Lemma b2n_lt2 : forall b, b2n b < 2. Proof. destruct b; cbn; lia. Qed.

Lemma pi_hs_ready : forall i, g_ready (pi_hs_word i) = pi_ready i.
Proof.
  intro i. unfold g_ready, pi_hs_word. rewrite rx_testbit_div.
  pose proof (rx_bits_lt i 0 3) as B. change (2 ^ 3) with 8 in *. pose proof (b2n_lt2 (pi_ready i)).
  replace ((bits i 0 3 + 8 * b2n (pi_ready i)) / 8) with (b2n (pi_ready i) + 2 * 0) by lia.
  apply rx_odd_b2n.
Qed.

Lemma pi_tx_ready : forall i, tx_ready (pi_tx_word i) = pi_ready i.
Proof.
  intro i. unfold tx_ready, pi_tx_word. rewrite rx_testbit_div.
  pose proof (rx_bits_lt i 3 2) as B1. pose proof (rx_bits_lt i 5 3) as B2. pose proof (rx_bits_lt i 8 8) as B3.
  unfold pi_dpid, pi_payload. change (2 ^ 2) with 4 in *. change (2 ^ 3) with 8 in *. change (2 ^ 8) with 256 in *.
  change (2 ^ 13) with 8192. pose proof (b2n_lt2 (pi_ready i)).
  replace ((bits i 3 2 + 4 * bits i 5 3 + 32 * bits i 8 8 + 8192 * b2n (pi_ready i)) / 8192) with (b2n (pi_ready i) + 2 * 0) by lia.
  apply rx_odd_b2n.
Qed.

(* the three-source multiplexer of USBDevice in the three situations the discipline allows *)
Lemma mux3_data : forall cd v d hd,
  ohm_out [ {| s_valid := false; s_or := 0; s_data := cd |}; {| s_valid := v; s_or := 0; s_data := d |};
            {| s_valid := false; s_or := 0; s_data := hd |} ]
  = {| s_valid := v; s_or := 0; s_data := if v then d else cd |}.
Proof. intros. destruct v; reflexivity. Qed.
Lemma mux3_hs : forall cd d hd,
  ohm_out [ {| s_valid := false; s_or := 0; s_data := cd |}; {| s_valid := false; s_or := 0; s_data := d |};
            {| s_valid := true; s_or := 0; s_data := hd |} ]
  = {| s_valid := true; s_or := 0; s_data := hd |}.
Proof. reflexivity. Qed.
Lemma mux3_chirp : forall c cd d hd,
  ohm_out [ {| s_valid := c; s_or := 0; s_data := cd |}; {| s_valid := false; s_or := 0; s_data := d |};
            {| s_valid := false; s_or := 0; s_data := hd |} ]
  = {| s_valid := c; s_or := 0; s_data := cd |}.
Proof. intros. destruct c; reflexivity. Qed.

Definition txq_excl (q : txq_state) : Prop :=
  match q with (Some _, S_IDLE) | (None, _) => True | (Some _, _) => False end.

Definition tx_part (s : txp_state) : tx_state := {| t_core := p_core s; t_crc := p_crc s |}.

Definition txp_rel (s : txp_state) (q : txq_state) : Prop :=
  gen_rel (p_hs s) (fst q) /\ tx_rel (tx_part s) (snd q) /\ txo_wf (p_core s) /\ txq_excl q.

Lemma txp_rel_init : txp_rel txp_init txq_init.
Proof. repeat split; cbn; lia. Qed.

(* tx_rel does not look at the CRC register in the states before the payload *)
Lemma tx_rel_crc_irrelevant : forall c crc1 crc2 q,
  match q with S_IDLE | S_PID _ _ => True | _ => False end ->
  tx_rel {| t_core := c; t_crc := crc1 |} q -> tx_rel {| t_core := c; t_crc := crc2 |} q.
Proof. intros c crc1 crc2 q Hq H. destruct q; cbn [tx_rel t_core t_crc] in *; tauto. Qed.

(* output fields of the data generator model, read back from its packed word *)
Lemma txo_core_data_lt : forall c dpid v f l pl rd crc, txo_wf c -> pl < 256 ->
  snd (fst (fst (snd (txo_core c dpid v f l pl rd crc)))) < 256.
Proof.
  intros [fs p r z] dpid v f l pl rd crc [H1 H2] Hpl. cbn [g_pidb g_rem] in *.
  unfold txo_core. cbn [snd fst g_fsm g_pidb g_rem].
  pose proof (rx_bits_lt crc 0 8) as Hb. change (2 ^ 8) with 256 in Hb.
  destruct fs; try assumption; lia.
Qed.

Definition at_most_one (o : txp_out) : bool :=
  negb (po_vrst o && po_vdata o) && negb (po_vrst o && po_vhs o) && negb (po_vdata o && po_vhs o).

Ltac split_env He :=
  cbn [txq_env] in He;
  let Henv := fresh "Henv" in let Hrx := fresh "Hrx" in let Hhs := fresh "Hhs" in let Hch := fresh "Hch" in
  apply andb_true_iff in He as [He Henv]; apply andb_true_iff in He as [He Hrx]; apply andb_true_iff in He as [Hhs Hch];
  apply negb_true_iff in Hhs; apply negb_true_iff in Hch; apply negb_true_iff in Hrx.

Lemma no_hs_request : forall hw, (g_ack hw || g_nak hw || g_stall hw) = false ->
  gen_request hw = None.
Proof. intros hw H. unfold gen_request. destruct (g_stall hw), (g_nak hw), (g_ack hw); cbn in H; try discriminate; reflexivity. Qed.
Ltac no_hs_req Hhs := unfold pi_hs_req in Hhs; cbv zeta in Hhs; rewrite (no_hs_request _ Hhs), Hhs.

Lemma txp_rel_step : forall s q i, txp_rel s q -> txq_env q i = true ->
  txp_rel (fst (txp_tstep s i)) (fst (txq_tstep q i)) /\
  txp_norm (snd (txp_tstep s i)) = snd (txq_tstep q i).
Proof.
  intros [[htx hd] c crc] [h d] i (Hh & Hd & Hw & Hx) He.
  unfold tx_part in Hd. cbn [p_hs p_core p_crc fst snd] in *.
  (* the data generator + CRC model of Usb2DataTx on the repacked word *)
  set (w := pi_tx_word i) in *.
  pose proof (tx_rel_step {| t_core := c; t_crc := crc |} d w Hd) as [Hd' Hdo].
  pose proof (txo_core_wf c (tx_dpid w) (tx_svalid w) (tx_first w) (tx_last w) (tx_payload w) (tx_ready w) (crc_out crc) Hw) as Hw'.
  pose proof (txo_core_data_lt c (tx_dpid w) (tx_svalid w) (tx_first w) (tx_last w) (tx_payload w) (tx_ready w) (crc_out crc) Hw
                (tx_payload_lt w)) as Hlt.
  unfold txp_tstep, txq_tstep, tx_step in *. cbn [p_hs p_core p_crc t_core t_crc] in *. fold w in Hd', Hdo |- *.
  destruct (txo_core c (tx_dpid w) (tx_svalid w) (tx_first w) (tx_last w) (tx_payload w) (tx_ready w) (crc_out crc))
    as [c' [[[txv txd] srdy] start]] eqn:Ec.
  cbn [fst snd] in *.
  destruct (tx_out_decode txv txd srdy Hlt) as (Dv & Dd & Dr).
  destruct (txs_step d w) as [d' od] eqn:Es. cbn [fst snd] in *. subst od.
  (* the handshake generator *)
  unfold gen_step, gsp_step. cbn [g_tx g_data].
  destruct h as [x|].
  - (* handshake in flight *)
    cbn [gen_rel g_tx g_data] in Hh. destruct Hh as [-> ->]. destruct d; cbn [txq_excl] in Hx; try contradiction.
    cbn [txq_env] in He. apply andb_true_iff in He as [Hnd Hnc]. apply negb_true_iff in Hnd, Hnc.
    cbn [fst snd b2n]. rewrite odd_1_2.
    (* the data generator is idle and stays idle *)
    cbn [tx_rel t_core] in Hd. unfold txo_core in Ec. rewrite Hd in Ec.
    unfold pi_data_req in Hnd. fold w in Hnd.
    assert (Ef : (tx_first w && tx_svalid w) = false) by (clear - Hnd; destruct (tx_first w), (tx_svalid w), (tx_last w); cbn in Hnd |- *; congruence).
    assert (El : (tx_last w && tx_svalid w) = false) by (clear - Hnd; destruct (tx_first w), (tx_svalid w), (tx_last w); cbn in Hnd |- *; congruence).
    rewrite Ef, El in Ec. inversion Ec; subst c' txv txd srdy start. clear Ec.
    cbn [txs_step] in Es. rewrite (andb_comm (tx_svalid w)), Ef, (andb_comm (tx_svalid w)), El in Es. inversion Es; subst d'. clear Es.
    replace ((1 + 2 * hs_byte x) / 2) with (hs_byte x) by lia.
    rewrite Hnc, mux3_hs. cbn [s_valid s_data].
    split.
    + unfold txp_rel, tx_part. cbn [p_hs p_core p_crc fst snd].
      split; [|split; [|split]].
      * destruct (g_ready (pi_hs_word i)); cbn [negb gen_rel g_tx g_data]; auto.
      * cbn [tx_rel t_core g_fsm]. reflexivity.
      * exact Hw'.
      * destruct (g_ready (pi_hs_word i)); exact I.
    + unfold txp_norm. cbn [po_valid po_data po_sready po_vrst po_vdata po_vhs]. reflexivity.
  - (* no handshake in flight *)
    cbn [gen_rel g_tx] in Hh. subst htx. cbn [fst snd b2n]. rewrite odd_0_2.
    destruct d as [|p z|p sent|p sent|p sent].
    + (* nothing in flight *)
      cbn [txq_env] in He. apply negb_true_iff in He.
      cbn [tx_rel t_core] in Hd. unfold txo_core in Ec. rewrite Hd in Ec.
      assert (txv = false /\ txd = 0 /\ srdy = false /\ start = false) as (-> & -> & -> & ->).
      { destruct (tx_first w && tx_svalid w), (tx_last w && tx_svalid w); inversion Ec; auto. }
      rewrite mux3_chirp. cbn [s_valid s_data].
      split.
      * unfold txp_rel, tx_part. cbn [p_hs p_core p_crc fst snd].
        split; [|split; [|split]].
        -- unfold gen_request. destruct (g_stall (pi_hs_word i)), (g_nak (pi_hs_word i)), (g_ack (pi_hs_word i));
             cbn [orb gen_rel g_tx g_data]; auto.
        -- eapply tx_rel_crc_irrelevant; [|exact Hd'].
           cbn [txs_step] in Es. destruct (tx_svalid w && tx_first w); [inversion Es; exact I|].
           destruct (tx_svalid w && tx_last w); inversion Es; exact I.
        -- exact Hw'.
        -- (* at most one kind of request *)
           unfold pi_hs_req, pi_data_req in He. fold w in He. unfold gen_request.
           cbn [txs_step] in Es.
           destruct (g_stall (pi_hs_word i)), (g_nak (pi_hs_word i)), (g_ack (pi_hs_word i));
             cbn [orb andb] in He |- *; try exact I;
             destruct (tx_svalid w), (tx_first w), (tx_last w); cbn [orb andb] in He, Es; try discriminate;
             inversion Es; exact I.
      * unfold txp_norm. cbn [po_valid po_data po_sready po_vrst po_vdata po_vhs].
        destruct (pi_chirp i); reflexivity.
    + (* PID byte on the bus *)
      split_env He. rewrite Hch, Hrx, mux3_data. no_hs_req Hhs. cbn [s_valid s_data crc_reg_next].
      destruct Hd as (Hf & Hp & Hz). cbn [t_core] in Hf. unfold txo_core in Ec. rewrite Hf in Ec.
      inversion Ec; subst c' txv txd srdy start. clear Ec.
      split.
      * unfold txp_rel, tx_part. cbn [p_hs p_core p_crc fst snd].
        split; [|split; [|split]].
        -- cbn [gen_rel g_tx]. reflexivity.
        -- exact Hd'.
        -- exact Hw'.
        -- exact I.
      * rewrite Dv, Dd, Dr. unfold txp_norm. cbn [po_valid po_data po_sready po_vrst po_vdata po_vhs]. reflexivity.
    + (* payload *)
      split_env He. rewrite Hch, Hrx, mux3_data. no_hs_req Hhs. cbn [s_valid s_data crc_reg_next].
      destruct Hd as (Hf & Hc). cbn [t_core] in Hf. unfold txo_core in Ec. rewrite Hf in Ec.
      inversion Ec; subst c' txv txd srdy start. clear Ec.
      split.
      * unfold txp_rel, tx_part. cbn [p_hs p_core p_crc fst snd].
        split; [|split; [|split]].
        -- cbn [gen_rel g_tx]. reflexivity.
        -- rewrite Hf in Hd'. cbn [crc_reg_next] in Hd'.
           destruct (tx_svalid w); cbn [andb] in Hd' |- *; exact Hd'.
        -- exact Hw'.
        -- exact I.
      * rewrite Dv, Dd, Dr. unfold txp_norm. cbn [po_valid po_data po_sready po_vrst po_vdata po_vhs]. reflexivity.
    + (* CRC low byte *)
      split_env He. rewrite Hch, Hrx, mux3_data. no_hs_req Hhs. cbn [s_valid s_data crc_reg_next].
      destruct Hd as (Hf & Hc). cbn [t_core] in Hf. unfold txo_core in Ec. rewrite Hf in Ec.
      inversion Ec; subst c' txv txd srdy start. clear Ec.
      split.
      * unfold txp_rel, tx_part. cbn [p_hs p_core p_crc fst snd].
        split; [|split; [|split]].
        -- cbn [gen_rel g_tx]. reflexivity.
        -- rewrite Hf in Hd'. cbn [crc_reg_next andb] in Hd' |- *. exact Hd'.
        -- exact Hw'.
        -- exact I.
      * rewrite Dv, Dd, Dr. unfold txp_norm. cbn [po_valid po_data po_sready po_vrst po_vdata po_vhs]. reflexivity.
    + (* CRC high byte *)
      split_env He. rewrite Hch, Hrx, mux3_data. no_hs_req Hhs. cbn [s_valid s_data crc_reg_next].
      destruct Hd as (Hf & Hc). cbn [t_core] in Hf. unfold txo_core in Ec. rewrite Hf in Ec.
      inversion Ec; subst c' txv txd srdy start. clear Ec.
      split.
      * unfold txp_rel, tx_part. cbn [p_hs p_core p_crc fst snd].
        split; [|split; [|split]].
        -- cbn [gen_rel g_tx]. reflexivity.
        -- rewrite Hf in Hd'. cbn [crc_reg_next andb] in Hd' |- *. exact Hd'.
        -- exact Hw'.
        -- exact I.
      * rewrite Dv, Dd, Dr. unfold txp_norm. cbn [po_valid po_data po_sready po_vrst po_vdata po_vhs]. reflexivity.
Qed.
