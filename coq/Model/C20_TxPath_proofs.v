(* C20 -- proofs about Model/C20_TxPath.v:
     A. the one-hot multiplexer passes exactly one source through when the valids are mutually exclusive
        (any number of sources), and what it does when they are not;
     B. the transmit path of USBDevice refines the bus-owner specification under the request discipline, its three
        sources are then never valid together, and every completed tx_valid run is a well-formed packet;
     C. the boolean packet checker used by the observers decides the declarative predicate. *)
From Coq Require Import NArith ZArith Arith List Bool Lia ZifyBool ZifyN.
Import ListNotations.
From LunaLib Require Import Netlist Bits Affine Machine PackN.
From LunaModel Require Import Crc Crc_proofs Handshake Handshake_proofs Usb2DataRx_proofs Usb2DataTx Usb2DataTx_proofs TokenDet TokenDet_proofs InXfer C20_TxPath.
Open Scope N_scope.
Ltac Zify.zify_post_hook ::= Z.div_mod_to_equations.

(* ============================================================================================== *)
(* A. one-hot multiplexer                                                                           *)
(* the multiplexer is combinational: its run is the map of its output function *)
Lemma ohm_run_map : forall n ow dw tr,
  run (ohm_mstep n ow dw) tt tr = map (fun i => snd (ohm_mstep n ow dw tt i)) tr.
Proof. induction tr as [|i tr IH]; [reflexivity|]. cbn [run map]. unfold ohm_mstep at 1. cbn [snd]. rewrite IH. reflexivity. Qed.

Definition src_at (l : list ohm_src) (j : nat) : ohm_src := nth j l ohm_idle.

Lemma valid_idx_none : forall l k, (forall j, s_valid (src_at l j) = false) -> valid_idx k l = [].
Proof.
  induction l as [|s l IH]; intros k H; [reflexivity|]. cbn [valid_idx].
  pose proof (H 0%nat) as H0. unfold src_at in H0. cbn [nth] in H0. rewrite H0. cbn [app].
  apply IH. intro j. exact (H (S j)).
Qed.

Lemma valid_idx_one : forall l k j, (j < length l)%nat -> s_valid (src_at l j) = true ->
  (forall j', j' <> j -> s_valid (src_at l j') = false) -> valid_idx k l = [(k + j)%nat].
Proof.
  induction l as [|s l IH]; intros k j Hj Hv Ho; [cbn in Hj; lia|]. cbn [valid_idx].
  destruct j as [|j].
  - unfold src_at in Hv. cbn [nth] in Hv. rewrite Hv. cbn [app]. rewrite Nat.add_0_r. f_equal.
    apply valid_idx_none. intro j. exact (Ho (S j) ltac:(lia)).
  - pose proof (Ho 0%nat ltac:(lia)) as H0. unfold src_at in H0. cbn [nth] in H0. rewrite H0. cbn [app].
    replace (k + S j)%nat with (S k + j)%nat by lia. apply IH.
    + cbn [length] in Hj. lia.
    + exact Hv.
    + intros j' Hn. exact (Ho (S j') ltac:(lia)).
Qed.

Lemma valid_idx_in : forall l k j, (j < length l)%nat -> s_valid (src_at l j) = true -> In (k + j)%nat (valid_idx k l).
Proof.
  induction l as [|s l IH]; intros k j Hj Hv; [cbn in Hj; lia|]. cbn [valid_idx]. apply in_or_app.
  destruct j as [|j].
  - left. unfold src_at in Hv. cbn [nth] in Hv. rewrite Hv. rewrite Nat.add_0_r. left. reflexivity.
  - right. replace (k + S j)%nat with (S k + j)%nat by lia. apply IH; [cbn [length] in Hj; lia | exact Hv].
Qed.

Lemma existsb_valid : forall l j, (j < length l)%nat -> s_valid (src_at l j) = true -> existsb s_valid l = true.
Proof.
  intros l j Hj Hv. apply existsb_exists. exists (src_at l j). split; [apply nth_In; exact Hj | exact Hv].
Qed.

Lemma or_fold_one : forall l j, (forall j', j' <> j -> s_or (src_at l j') = 0) ->
  fold_right (fun s acc => N.lor (s_or s) acc) 0 l = s_or (src_at l j).
Proof.
  induction l as [|s l IH]; intros j H.
  - unfold src_at. destruct j; reflexivity.
  - cbn [fold_right]. destruct j as [|j].
    + unfold src_at at 1. cbn [nth].
      assert (E : fold_right (fun s acc => N.lor (s_or s) acc) 0 l = 0).
      { clear IH. induction l as [|s' l IH']; [reflexivity|]. cbn [fold_right].
        pose proof (H 1%nat ltac:(lia)) as H1. unfold src_at in H1. cbn [nth] in H1. rewrite H1, N.lor_0_l.
        apply IH'. intros j' Hn. destruct j' as [|j']; [lia|].
        pose proof (H (S (S j')) ltac:(lia)) as H2. unfold src_at in *. cbn [nth] in *. exact H2. }
      rewrite E, N.lor_0_r. reflexivity.
    + pose proof (H 0%nat ltac:(lia)) as H0. unfold src_at in H0. cbn [nth] in H0. rewrite H0, N.lor_0_l.
      unfold src_at. cbn [nth]. apply IH. intros j' Hn. exact (H (S j') ltac:(lia)).
Qed.

(* exactly one source valid (and the or-signals of the others low): the output IS that source *)
Theorem ohm_exclusive : forall l j, (j < length l)%nat -> s_valid (src_at l j) = true ->
  (forall j', j' <> j -> s_valid (src_at l j') = false /\ s_or (src_at l j') = 0) ->
  ohm_out l = src_at l j.
Proof.
  intros l j Hj Hv Ho. unfold ohm_out, ohm_sel.
  rewrite (valid_idx_one l 0 j Hj Hv (fun j' Hn => proj1 (Ho j' Hn))). cbn [Nat.add].
  rewrite (existsb_valid l j Hj Hv), (or_fold_one l j (fun j' Hn => proj2 (Ho j' Hn))).
  fold (src_at l j). destruct (src_at l j) as [v o d]. cbn [s_valid s_or s_data] in *. subst v. reflexivity.
Qed.

(* no source valid: the output is not valid *)
Theorem ohm_none : forall l, (forall j, s_valid (src_at l j) = false) -> s_valid (ohm_out l) = false.
Proof.
  intros l H. unfold ohm_out. cbn [s_valid]. apply not_true_is_false. intro E.
  apply existsb_exists in E as [s [Hin Hs]]. apply (In_nth _ _ ohm_idle) in Hin as [j [Hj E]].
  pose proof (H j) as Hf. unfold src_at in Hf. rewrite E in Hf. congruence.
Qed.

(* the valid output is the OR of the valids *)
Theorem ohm_valid_or : forall l, s_valid (ohm_out l) = existsb s_valid l.
Proof. reflexivity. Qed.

(* two sources valid together: the data lines carry source 0's data, whether or not source 0 is one of them
   (Encoder reports `invalid` with o = 0): this is why mutual exclusion is needed *)
Theorem ohm_overlap : forall l j k, (j < length l)%nat -> (k < length l)%nat -> j <> k ->
  s_valid (src_at l j) = true -> s_valid (src_at l k) = true ->
  s_valid (ohm_out l) = true /\ s_data (ohm_out l) = s_data (src_at l 0).
Proof.
  intros l j k Hj Hk Hn Vj Vk. split; [exact (existsb_valid l j Hj Vj)|].
  unfold ohm_out, ohm_sel. cbn [s_data].
  pose proof (valid_idx_in l 0 j Hj Vj) as Ij. pose proof (valid_idx_in l 0 k Hk Vk) as Ik. cbn [Nat.add] in *.
  destruct (valid_idx 0 l) as [|a [|b r]]; try reflexivity.
  cbn [In] in Ij, Ik. destruct Ij as [Ij|[]]; destruct Ik as [Ik|[]]. congruence.
Qed.

(* ============================================================================================== *)
(* B. the transmit path                                                                             *)
(* the repacked words carry tx_ready where the component models look for it *)
Lemma c20_b2n_lt2 : forall b, b2n b < 2. Proof. destruct b; cbn; lia. Qed.

Lemma pi_hs_ready : forall i, g_ready (pi_hs_word i) = pi_ready i.
Proof.
  intro i. unfold g_ready, pi_hs_word. rewrite rx_testbit_div.
  pose proof (rx_bits_lt i 0 3) as B. change (2 ^ 3) with 8 in *. pose proof (c20_b2n_lt2 (pi_ready i)).
  replace ((bits i 0 3 + 8 * b2n (pi_ready i)) / 8) with (b2n (pi_ready i) + 2 * 0) by lia.
  apply rx_odd_b2n.
Qed.

Lemma pi_tx_ready : forall i, tx_ready (pi_tx_word i) = pi_ready i.
Proof.
  intro i. unfold tx_ready, pi_tx_word. rewrite rx_testbit_div.
  pose proof (rx_bits_lt i 3 2) as B1. pose proof (rx_bits_lt i 5 3) as B2. pose proof (rx_bits_lt i 8 8) as B3.
  unfold pi_dpid, pi_payload. change (2 ^ 2) with 4 in *. change (2 ^ 3) with 8 in *. change (2 ^ 8) with 256 in *.
  change (2 ^ 13) with 8192. pose proof (c20_b2n_lt2 (pi_ready i)).
  replace ((bits i 3 2 + 4 * bits i 5 3 + 32 * bits i 8 8 + 8192 * b2n (pi_ready i)) / 8192) with (b2n (pi_ready i) + 2 * 0) by lia.
  apply rx_odd_b2n.
Qed.

(* the three-source multiplexer of USBDevice in the three situations the discipline allows *)
Lemma mux3_data : forall cd v d hd,
  ohm_out [ {| s_valid := false; s_or := 0; s_data := cd |}; {| s_valid := v; s_or := 0; s_data := d |};
            {| s_valid := false; s_or := 0; s_data := hd |} ]
  = {| s_valid := v; s_or := 0; s_data := if v then d else cd |}.
Proof. intros. destruct v; reflexivity. Qed.
Lemma mux3_hs : forall cd d hd,
  ohm_out [ {| s_valid := false; s_or := 0; s_data := cd |}; {| s_valid := false; s_or := 0; s_data := d |};
            {| s_valid := true; s_or := 0; s_data := hd |} ]
  = {| s_valid := true; s_or := 0; s_data := hd |}.
Proof. reflexivity. Qed.
Lemma mux3_chirp : forall c cd d hd,
  ohm_out [ {| s_valid := c; s_or := 0; s_data := cd |}; {| s_valid := false; s_or := 0; s_data := d |};
            {| s_valid := false; s_or := 0; s_data := hd |} ]
  = {| s_valid := c; s_or := 0; s_data := cd |}.
Proof. intros. destruct c; reflexivity. Qed.

Definition txq_excl (q : txq_state) : Prop :=
  match q with (Some _, S_IDLE) | (None, _) => True | (Some _, _) => False end.

Definition tx_part (s : txp_state) : tx_state := {| t_core := p_core s; t_crc := p_crc s |}.

Definition txp_rel (s : txp_state) (q : txq_state) : Prop :=
  gen_rel (p_hs s) (fst q) /\ tx_rel (tx_part s) (snd q) /\ txo_wf (p_core s) /\ txq_excl q.

Lemma txp_rel_init : txp_rel txp_init txq_init.
Proof. repeat split; cbn; lia. Qed.

(* tx_rel does not look at the CRC register in the states before the payload *)
Lemma tx_rel_crc_irrelevant : forall c crc1 crc2 q,
  match q with S_IDLE | S_PID _ _ => True | _ => False end ->
  tx_rel {| t_core := c; t_crc := crc1 |} q -> tx_rel {| t_core := c; t_crc := crc2 |} q.
Proof. intros c crc1 crc2 q Hq H. destruct q; cbn [tx_rel t_core t_crc] in *; tauto. Qed.

(* output fields of the data generator model, read back from its packed word *)
Lemma txo_core_data_lt : forall c dpid v f l pl rd crc, txo_wf c -> pl < 256 ->
  snd (fst (fst (snd (txo_core c dpid v f l pl rd crc)))) < 256.
Proof.
  intros [fs p r z] dpid v f l pl rd crc [H1 H2] Hpl. cbn [g_pidb g_rem] in *.
  unfold txo_core. cbn [snd fst g_fsm g_pidb g_rem].
  pose proof (rx_bits_lt crc 0 8) as Hb. change (2 ^ 8) with 256 in Hb.
  destruct fs; try assumption; lia.
Qed.

Definition at_most_one (o : txp_out) : bool :=
  negb (po_vrst o && po_vdata o) && negb (po_vrst o && po_vhs o) && negb (po_vdata o && po_vhs o).

Ltac split_env He :=
  cbn [txq_env] in He;
  let Henv := fresh "Henv" in let Hrx := fresh "Hrx" in let Hhs := fresh "Hhs" in let Hch := fresh "Hch" in
  apply andb_true_iff in He as [He Henv]; apply andb_true_iff in He as [He Hrx]; apply andb_true_iff in He as [Hhs Hch];
  apply negb_true_iff in Hhs; apply negb_true_iff in Hch; apply negb_true_iff in Hrx.

Lemma no_hs_request : forall hw, (g_ack hw || g_nak hw || g_stall hw) = false ->
  gen_request hw = None.
Proof. intros hw H. unfold gen_request. destruct (g_stall hw), (g_nak hw), (g_ack hw); cbn in H; try discriminate; reflexivity. Qed.
Ltac no_hs_req Hhs := unfold pi_hs_req in Hhs; cbv zeta in Hhs; rewrite (no_hs_request _ Hhs), Hhs.

Lemma txp_rel_step : forall s q i, txp_rel s q -> txq_env q i = true ->
  txp_rel (fst (txp_tstep s i)) (fst (txq_tstep q i)) /\
  txp_norm (snd (txp_tstep s i)) = snd (txq_tstep q i).
Proof.
  intros [[htx hd] c crc] [h d] i (Hh & Hd & Hw & Hx) He.
  unfold tx_part in Hd. cbn [p_hs p_core p_crc fst snd] in *.
  (* the data generator + CRC model of Usb2DataTx on the repacked word *)
  set (w := pi_tx_word i) in *.
  pose proof (tx_rel_step {| t_core := c; t_crc := crc |} d w Hd) as [Hd' Hdo].
  pose proof (txo_core_wf c (tx_dpid w) (tx_svalid w) (tx_first w) (tx_last w) (tx_payload w) (tx_ready w) (crc_out crc) Hw) as Hw'.
  pose proof (txo_core_data_lt c (tx_dpid w) (tx_svalid w) (tx_first w) (tx_last w) (tx_payload w) (tx_ready w) (crc_out crc) Hw
                (tx_payload_lt w)) as Hlt.
  unfold txp_tstep, txq_tstep, tx_step in *. cbn [p_hs p_core p_crc t_core t_crc] in *. fold w in Hd', Hdo |- *.
  destruct (txo_core c (tx_dpid w) (tx_svalid w) (tx_first w) (tx_last w) (tx_payload w) (tx_ready w) (crc_out crc))
    as [c' [[[txv txd] srdy] start]] eqn:Ec.
  cbn [fst snd] in *.
  destruct (tx_out_decode txv txd srdy Hlt) as (Dv & Dd & Dr).
  destruct (txs_step d w) as [d' od] eqn:Es. cbn [fst snd] in *. subst od.
  (* the handshake generator *)
  unfold gen_step, gsp_step. cbn [g_tx g_data].
  destruct h as [x|].
  - (* handshake in flight *)
    cbn [gen_rel g_tx g_data] in Hh. destruct Hh as [-> ->]. destruct d; cbn [txq_excl] in Hx; try contradiction.
    cbn [txq_env] in He. apply andb_true_iff in He as [Hnd Hnc]. apply negb_true_iff in Hnd, Hnc.
    cbn [fst snd b2n]. rewrite odd_1_2.
    (* the data generator is idle and stays idle *)
    cbn [tx_rel t_core] in Hd. unfold txo_core in Ec. rewrite Hd in Ec.
    unfold pi_data_req in Hnd. fold w in Hnd.
    assert (Ef : (tx_first w && tx_svalid w) = false) by (clear - Hnd; destruct (tx_first w), (tx_svalid w), (tx_last w); cbn in Hnd |- *; congruence).
    assert (El : (tx_last w && tx_svalid w) = false) by (clear - Hnd; destruct (tx_first w), (tx_svalid w), (tx_last w); cbn in Hnd |- *; congruence).
    rewrite Ef, El in Ec. inversion Ec; subst c' txv txd srdy start. clear Ec.
    cbn [txs_step] in Es. rewrite (andb_comm (tx_svalid w)), Ef, (andb_comm (tx_svalid w)), El in Es. inversion Es; subst d'. clear Es.
    replace ((1 + 2 * hs_byte x) / 2) with (hs_byte x) by lia.
    rewrite Hnc, mux3_hs. cbn [s_valid s_data].
    split.
    + unfold txp_rel, tx_part. cbn [p_hs p_core p_crc fst snd].
      split; [|split; [|split]].
      * destruct (g_ready (pi_hs_word i)); cbn [negb gen_rel g_tx g_data]; auto.
      * cbn [tx_rel t_core g_fsm]. reflexivity.
      * exact Hw'.
      * destruct (g_ready (pi_hs_word i)); exact I.
    + unfold txp_norm. cbn [po_valid po_data po_sready po_vrst po_vdata po_vhs]. reflexivity.
  - (* no handshake in flight *)
    cbn [gen_rel g_tx] in Hh. subst htx. cbn [fst snd b2n]. rewrite odd_0_2.
    destruct d as [|p z|p sent|p sent|p sent].
    + (* nothing in flight *)
      cbn [txq_env] in He. apply negb_true_iff in He.
      cbn [tx_rel t_core] in Hd. unfold txo_core in Ec. rewrite Hd in Ec.
      assert (txv = false /\ txd = 0 /\ srdy = false /\ start = false) as (-> & -> & -> & ->).
      { destruct (tx_first w && tx_svalid w), (tx_last w && tx_svalid w); inversion Ec; auto. }
      rewrite mux3_chirp. cbn [s_valid s_data].
      split.
      * unfold txp_rel, tx_part. cbn [p_hs p_core p_crc fst snd].
        split; [|split; [|split]].
        -- unfold gen_request. destruct (g_stall (pi_hs_word i)), (g_nak (pi_hs_word i)), (g_ack (pi_hs_word i));
             cbn [orb gen_rel g_tx g_data]; auto.
        -- eapply tx_rel_crc_irrelevant; [|exact Hd'].
           cbn [txs_step] in Es. destruct (tx_svalid w && tx_first w); [inversion Es; exact I|].
           destruct (tx_svalid w && tx_last w); inversion Es; exact I.
        -- exact Hw'.
        -- (* at most one kind of request *)
           unfold pi_hs_req, pi_data_req in He. fold w in He. unfold gen_request.
           cbn [txs_step] in Es.
           destruct (g_stall (pi_hs_word i)), (g_nak (pi_hs_word i)), (g_ack (pi_hs_word i));
             cbn [orb andb] in He |- *; try exact I;
             destruct (tx_svalid w), (tx_first w), (tx_last w); cbn [orb andb] in He, Es; try discriminate;
             inversion Es; exact I.
      * unfold txp_norm. cbn [po_valid po_data po_sready po_vrst po_vdata po_vhs].
        destruct (pi_chirp i); reflexivity.
    + (* PID byte on the bus *)
      split_env He. rewrite Hch, Hrx, mux3_data. no_hs_req Hhs. cbn [s_valid s_data crc_reg_next].
      destruct Hd as (Hf & Hp & Hz). cbn [t_core] in Hf. unfold txo_core in Ec. rewrite Hf in Ec.
      inversion Ec; subst c' txv txd srdy start. clear Ec.
      split.
      * unfold txp_rel, tx_part. cbn [p_hs p_core p_crc fst snd].
        split; [|split; [|split]].
        -- cbn [gen_rel g_tx]. reflexivity.
        -- exact Hd'.
        -- exact Hw'.
        -- exact I.
      * rewrite Dv, Dd, Dr. unfold txp_norm. cbn [po_valid po_data po_sready po_vrst po_vdata po_vhs]. reflexivity.
    + (* payload *)
      split_env He. rewrite Hch, Hrx, mux3_data. no_hs_req Hhs. cbn [s_valid s_data crc_reg_next].
      destruct Hd as (Hf & Hc). cbn [t_core] in Hf. unfold txo_core in Ec. rewrite Hf in Ec.
      inversion Ec; subst c' txv txd srdy start. clear Ec.
      split.
      * unfold txp_rel, tx_part. cbn [p_hs p_core p_crc fst snd].
        split; [|split; [|split]].
        -- cbn [gen_rel g_tx]. reflexivity.
        -- cbn [crc_reg_next] in Hd'. destruct (tx_svalid w); cbn [andb] in Hd' |- *; exact Hd'.
        -- exact Hw'.
        -- exact I.
      * rewrite Dv, Dd, Dr. unfold txp_norm. cbn [po_valid po_data po_sready po_vrst po_vdata po_vhs].
        destruct (tx_svalid w); reflexivity.
    + (* CRC low byte *)
      split_env He. rewrite Hch, Hrx, mux3_data. no_hs_req Hhs. cbn [s_valid s_data crc_reg_next].
      destruct Hd as (Hf & Hc). cbn [t_core] in Hf. unfold txo_core in Ec. rewrite Hf in Ec.
      inversion Ec; subst c' txv txd srdy start. clear Ec.
      split.
      * unfold txp_rel, tx_part. cbn [p_hs p_core p_crc fst snd].
        split; [|split; [|split]].
        -- cbn [gen_rel g_tx]. reflexivity.
        -- cbn [crc_reg_next andb] in Hd' |- *. exact Hd'.
        -- exact Hw'.
        -- exact I.
      * rewrite Dv, Dd, Dr. unfold txp_norm. cbn [po_valid po_data po_sready po_vrst po_vdata po_vhs]. reflexivity.
    + (* CRC high byte *)
      split_env He. rewrite Hch, Hrx, mux3_data. no_hs_req Hhs. cbn [s_valid s_data crc_reg_next].
      destruct Hd as (Hf & Hc). cbn [t_core] in Hf. unfold txo_core in Ec. rewrite Hf in Ec.
      inversion Ec; subst c' txv txd srdy start. clear Ec.
      split.
      * unfold txp_rel, tx_part. cbn [p_hs p_core p_crc fst snd].
        split; [|split; [|split]].
        -- cbn [gen_rel g_tx]. reflexivity.
        -- cbn [crc_reg_next andb] in Hd' |- *. exact Hd'.
        -- exact Hw'.
        -- exact I.
      * rewrite Dv, Dd, Dr. unfold txp_norm. cbn [po_valid po_data po_sready po_vrst po_vdata po_vhs]. reflexivity.
Qed.

(* ---- trace level ---- *)
Theorem txp_refines : forall tr s q, txp_rel s q -> tenv_ok txq_tstep txq_env q tr = true ->
  map txp_norm (trun txp_tstep s tr) = trun txq_tstep q tr.
Proof.
  induction tr as [|i tr IH]; intros s q H He; [reflexivity|].
  cbn [tenv_ok] in He. apply andb_true_iff in He as [He1 He2].
  destruct (txp_rel_step s q i H He1) as [Hr Ho]. cbn [trun].
  destruct (txp_tstep s i) as [s' o]. destruct (txq_tstep q i) as [q' o']. cbn [fst snd map] in *.
  rewrite Ho. f_equal. apply IH; assumption.
Qed.

Corollary txp_from_reset : forall tr, tenv_ok txq_tstep txq_env txq_init tr = true ->
  map txp_norm (trun txp_tstep txp_init tr) = trun txq_tstep txq_init tr.
Proof. intros tr H. apply txp_refines; [apply txp_rel_init | exact H]. Qed.

(* the specification never shows two source lines together *)
Lemma txq_out_excl : forall q i, at_most_one (snd (txq_tstep q i)) = true.
Proof.
  intros [h d] i. unfold txq_tstep. destruct (txs_step d (pi_tx_word i)) as [d' od]. cbn [snd].
  destruct h; [reflexivity|]. unfold at_most_one.
  destruct d; cbn [po_vrst po_vdata po_vhs]; rewrite ?andb_false_r, ?andb_false_l; reflexivity.
Qed.

Lemma at_most_one_norm : forall o, at_most_one (txp_norm o) = at_most_one o.
Proof. reflexivity. Qed.

Lemma trun_length : forall {S O} (step : S -> N -> S * O) tr s, length (trun step s tr) = length tr.
Proof. induction tr as [|i tr IH]; intros s; [reflexivity|]. cbn [trun]. destruct (step s i). cbn [length]. rewrite IH. reflexivity. Qed.

Lemma forallb_trun_spec : forall tr q, forallb at_most_one (trun txq_tstep q tr) = true.
Proof.
  induction tr as [|i tr IH]; intros q; [reflexivity|]. cbn [trun].
  pose proof (txq_out_excl q i) as E. destruct (txq_tstep q i) as [q' o]. cbn [snd forallb] in *. rewrite E, IH. reflexivity.
Qed.

(* under the request discipline the three sources of the multiplexer are never valid together *)
Theorem txp_exclusive : forall tr, tenv_ok txq_tstep txq_env txq_init tr = true ->
  forallb at_most_one (trun txp_tstep txp_init tr) = true.
Proof.
  intros tr H. pose proof (txp_from_reset tr H) as E. pose proof (forallb_trun_spec tr txq_init) as F.
  rewrite <- E in F. rewrite forallb_forall in F |- *. intros o Ho.
  rewrite <- at_most_one_norm. apply F. apply in_map. exact Ho.
Qed.

(* ---- every completed tx_valid run is a well-formed packet ---- *)
Definition nochirp (tr : list N) : Prop := Forall (fun i => pi_chirp i = false) tr.

Definition txs_good (d : txs_state) : Prop :=
  match d with
  | S_IDLE => True
  | S_PID p _ => In p data_pid_bytes
  | S_PAYLOAD p sent | S_CRC1 p sent | S_CRC2 p sent => In p data_pid_bytes /\ Forall (fun b => b < 256) sent
  end.

Lemma data_pid_lt : forall p, In p data_pid_bytes -> p < 256.
Proof. intros p H. cbn in H. repeat (destruct H as [H|H]; [subst; lia|]). contradiction. Qed.

Lemma txs_good_wf : forall d, txs_good d -> txs_wf d.
Proof. intros d H. destruct d; cbn [txs_good txs_wf] in *; try exact I; apply data_pid_lt; tauto. Qed.

Lemma tx_pid_byte_in : forall w, In (tx_pid_byte (tx_dpid w)) data_pid_bytes.
Proof.
  intro w. unfold tx_dpid. pose proof (rx_bits_lt w 0 2) as B. change (2 ^ 2) with 4 in B.
  assert (bits w 0 2 = 0 \/ bits w 0 2 = 1 \/ bits w 0 2 = 2 \/ bits w 0 2 = 3) as [E|[E|[E|E]]] by lia;
    rewrite E; cbn; tauto.
Qed.

Lemma txs_good_step : forall d w, txs_good d -> txs_good (fst (txs_step d w)).
Proof.
  intros d w H. pose proof (tx_pid_byte_in w) as P. pose proof (tx_payload_lt w) as L.
  destruct d; cbn [txs_step fst txs_good] in *.
  - destruct (tx_svalid w && tx_first w); [exact P|]. destruct (tx_svalid w && tx_last w); [exact P | exact I].
  - destruct (tx_ready w); [destruct zlp; split; auto | exact H].
  - destruct H as [Hp Hs].
    assert (Forall (fun b => b < 256) (sent ++ [tx_payload w])) by (apply Forall_app; split; [exact Hs | constructor; [exact L | constructor]]).
    destruct (tx_ready w && tx_svalid w); [destruct (tx_last w); split; auto|]. destruct (tx_ready w); split; auto.
  - destruct (tx_ready w); exact H.
  - destruct (tx_ready w); [exact I | exact H].
Qed.

Definition txw_inv (q : txq_state) (m : option (list N)) : Prop :=
  if txq_idle q then m = None \/ exists l, m = Some l /\ wf_tx_packet l
  else m = Some (txq_partial q) \/ (m = None /\ txq_partial q = []).

Lemma wf_hs : forall x, wf_tx_packet [hs_byte x].
Proof. intro x. left. exists x. reflexivity. Qed.

Lemma wf_data : forall p sent, In p data_pid_bytes -> Forall (fun b => b < 256) sent ->
  wf_tx_packet ((p :: sent ++ [crc16_usb sent mod 256]) ++ [crc16_usb sent / 256]).
Proof.
  intros p sent Hp Hs. right. exists p, sent. split; [exact Hp|]. split; [exact Hs|].
  unfold tx_wire. cbn [app]. rewrite <- app_assoc. reflexivity.
Qed.

(* one cycle of the run splitter on the specification's output *)
Ltac no_hs_req2 Hhs := unfold pi_hs_req in Hhs; cbv zeta in Hhs; cbn [gsp_step fst]; rewrite (no_hs_request _ Hhs).

Ltac fin4 Hg' := split; [try (left; reflexivity) | split; [exact I | split; [exact Hg' | try exact I]]].

Lemma txw_spec_step : forall q m i, txq_excl q -> txs_good (snd q) -> txw_inv q m ->
  txq_env q i = true -> pi_chirp i = false ->
  let o := snd (txq_tstep q i) in
  let r := txw_step m (po_valid o) (pi_ready i) (po_data o) in
  txw_inv (fst (txq_tstep q i)) (fst r) /\ txq_excl (fst (txq_tstep q i)) /\ txs_good (snd (fst (txq_tstep q i))) /\
  match snd r with Some l => wf_tx_packet l | None => True end.
Proof.
  intros [h d] m i Hx Hg Hi He Hc. cbv zeta. cbn [snd] in Hg.
  pose proof (txs_good_step d (pi_tx_word i) Hg) as Hg'.
  pose proof (txs_out_fields d (pi_tx_word i) (txs_good_wf d Hg)) as (Fv & Fd & _). cbv zeta in Fv, Fd.
  unfold txq_tstep. destruct (txs_step d (pi_tx_word i)) as [d' od] eqn:Es. cbn [fst snd] in *.
  destruct h as [x|].
  - (* handshake in flight *)
    destruct d; cbn [txq_excl] in Hx; try contradiction.
    cbn [txq_env] in He. apply andb_true_iff in He as [Hnd _]. apply negb_true_iff in Hnd.
    unfold pi_data_req in Hnd. cbv zeta in Hnd. cbn [txs_step] in Es.
    assert (d' = S_IDLE) as ->.
    { destruct (tx_svalid (pi_tx_word i)), (tx_first (pi_tx_word i)), (tx_last (pi_tx_word i)); cbn in Hnd, Es; try discriminate; inversion Es; reflexivity. }
    unfold gsp_step. cbn [fst po_valid po_data]. unfold txw_inv in *. cbn [txq_idle txq_partial] in *.
    rewrite <- (pi_hs_ready i).
    assert (Em : txw_step m true (g_ready (pi_hs_word i)) (hs_byte x)
                 = (Some (if g_ready (pi_hs_word i) then [hs_byte x] else []), None)).
    { destruct Hi as [->|[-> _]]; reflexivity. }
    rewrite Em. cbn [fst snd].
    destruct (g_ready (pi_hs_word i)); cbn [txq_idle txq_partial txq_excl]; repeat split; auto.
    right. exists [hs_byte x]. split; [reflexivity | apply wf_hs].
  - destruct d as [|p z|p sent|p sent|p sent].
    + (* nothing in flight *)
      cbn [txq_env] in He. apply negb_true_iff in He. cbn [po_valid po_data]. rewrite Hc.
      unfold txw_inv in Hi. cbn [txq_idle] in Hi.
      assert (Hq' : txq_idle (fst (gsp_step None (pi_hs_word i)), d') = false \/
                    (fst (gsp_step None (pi_hs_word i)), d') = (None, S_IDLE)).
      { cbn [gsp_step fst]. destruct (gen_request (pi_hs_word i)); [left; reflexivity|].
        destruct d'; [right; reflexivity | left; reflexivity ..]. }
      assert (Hp' : txq_partial (fst (gsp_step None (pi_hs_word i)), d') = []).
      { cbn [gsp_step fst]. destruct (gen_request (pi_hs_word i)); [reflexivity|]. cbn [txq_partial].
        cbn [txs_step] in Es. destruct (tx_svalid (pi_tx_word i) && tx_first (pi_tx_word i)); [inversion Es; reflexivity|].
        destruct (tx_svalid (pi_tx_word i) && tx_last (pi_tx_word i)); inversion Es; reflexivity. }
      assert (Hx' : txq_excl (fst (gsp_step None (pi_hs_word i)), d')).
      { cbn [gsp_step fst]. unfold pi_hs_req, pi_data_req in He. cbv zeta in He. unfold gen_request.
        cbn [txs_step] in Es.
        destruct (g_stall (pi_hs_word i)), (g_nak (pi_hs_word i)), (g_ack (pi_hs_word i)); cbn [orb andb] in He |- *; try exact I;
          destruct (tx_svalid (pi_tx_word i)), (tx_first (pi_tx_word i)), (tx_last (pi_tx_word i));
          cbn [orb andb] in He, Es; try discriminate; inversion Es; exact I. }
      split; [|split; [exact Hx' | split; [exact Hg'|]]].
      * unfold txw_inv. destruct Hi as [->|[l [-> Hl]]]; cbn [txw_step fst].
        -- destruct Hq' as [E|E]; rewrite ?E; [right; split; [reflexivity | exact Hp'] | cbn [txq_idle]; left; reflexivity].
        -- destruct Hq' as [E|E]; rewrite ?E; [right; split; [reflexivity | exact Hp'] | cbn [txq_idle]; left; reflexivity].
      * destruct Hi as [->|[l [-> Hl]]]; cbn [txw_step snd]; [exact I | exact Hl].
    + (* PID byte offered *)
      split_env He. no_hs_req2 Hhs. cbn [txs_env] in *.
      cbn [po_valid po_data]. rewrite Fv, Fd, <- (pi_tx_ready i). cbn [txs_step] in Es.
      unfold txw_inv in *. cbn [txq_idle txq_partial txs_partial] in *.
      assert (Em : txw_step m true (tx_ready (pi_tx_word i)) p = (Some (if tx_ready (pi_tx_word i) then [p] else []), None)).
      { destruct Hi as [->|[-> _]]; reflexivity. }
      rewrite Em. cbn [fst snd].
      destruct (tx_ready (pi_tx_word i)); [destruct z|]; inversion Es; subst d' od;
        cbn [txq_idle txq_partial txs_partial txq_excl]; fin4 Hg'.
    + (* payload *)
      split_env He. no_hs_req2 Hhs. cbn [txs_env] in *.
      cbn [po_valid po_data]. rewrite Fv, Fd, Henv, <- (pi_tx_ready i). cbn [txs_step] in Es. rewrite Henv, andb_true_r in Es.
      unfold txw_inv in *. cbn [txq_idle txq_partial txs_partial] in *.
      assert (Em : m = Some (p :: sent)) by (destruct Hi as [->|[_ ?]]; [reflexivity | discriminate]). subst m.
      cbn [txw_step fst snd].
      destruct (tx_ready (pi_tx_word i)); [destruct (tx_last (pi_tx_word i))|]; inversion Es; subst d' od;
        cbn [txq_idle txq_partial txs_partial txq_excl app]; fin4 Hg'.
    + (* CRC low *)
      split_env He. no_hs_req2 Hhs. cbn [txs_env] in *.
      cbn [po_valid po_data]. rewrite Fv, Fd, <- (pi_tx_ready i). cbn [txs_step] in Es.
      unfold txw_inv in *. cbn [txq_idle txq_partial txs_partial] in *.
      assert (Em : m = Some (p :: sent)) by (destruct Hi as [->|[_ ?]]; [reflexivity | discriminate]). subst m.
      cbn [txw_step fst snd].
      destruct (tx_ready (pi_tx_word i)); inversion Es; subst d' od;
        cbn [txq_idle txq_partial txs_partial txq_excl app]; fin4 Hg'.
    + (* CRC high *)
      split_env He. no_hs_req2 Hhs. cbn [txs_env] in *.
      cbn [po_valid po_data]. rewrite Fv, Fd, <- (pi_tx_ready i). cbn [txs_step] in Es.
      unfold txw_inv in *. cbn [txq_idle txq_partial txs_partial] in *.
      assert (Em : m = Some (p :: sent ++ [crc16_usb sent mod 256])) by (destruct Hi as [->|[_ ?]]; [reflexivity | discriminate]). subst m.
      cbn [txw_step fst snd]. destruct Hg as [Hp Hs].
      destruct (tx_ready (pi_tx_word i)); inversion Es; subst d' od;
        cbn [txq_idle txq_partial txs_partial txq_excl app]; fin4 Hg'.
      right. eexists. split; [reflexivity|]. apply (wf_data p sent Hp Hs).
Qed.

Lemma tx_runs_spec : forall tr q m, txq_excl q -> txs_good (snd q) -> txw_inv q m ->
  tenv_ok txq_tstep txq_env q tr = true -> nochirp tr ->
  Forall wf_tx_packet (tx_runs m (combine tr (trun txq_tstep q tr))).
Proof.
  induction tr as [|i tr IH]; intros q m Hx Hg Hi He Hc; [constructor|].
  cbn [tenv_ok] in He. apply andb_true_iff in He as [He1 He2]. inversion Hc as [|? ? Hc1 Hc2]; subst.
  pose proof (txw_spec_step q m i Hx Hg Hi He1 Hc1) as S. cbv zeta in S.
  cbn [trun]. destruct (txq_tstep q i) as [q' o]. cbn [fst snd combine tx_runs] in *.
  destruct (txw_step m (po_valid o) (pi_ready i) (po_data o)) as [m' fin]. cbn [fst snd] in S.
  destruct S as (Hi' & Hx' & Hg' & Hf).
  destruct fin as [l|]; [constructor; [exact Hf|]|]; apply IH; assumption.
Qed.

(* the run splitter reads tx_data only while tx_valid is high: normalisation does not matter *)
Lemma tx_runs_norm : forall tr outs m, length outs = length tr ->
  tx_runs m (combine tr (map txp_norm outs)) = tx_runs m (combine tr outs).
Proof.
  induction tr as [|i tr IH]; intros outs m Hl; [reflexivity|].
  destruct outs as [|o outs]; [discriminate|]. cbn [map combine tx_runs].
  assert (E : txw_step m (po_valid (txp_norm o)) (pi_ready i) (po_data (txp_norm o))
              = txw_step m (po_valid o) (pi_ready i) (po_data o)).
  { unfold txp_norm. cbn [po_valid po_data]. destruct (po_valid o) eqn:V; [reflexivity|]. destruct m; reflexivity. }
  rewrite E. destruct (txw_step m (po_valid o) (pi_ready i) (po_data o)) as [m' fin].
  cbn [length] in Hl. rewrite IH by lia. reflexivity.
Qed.

(* every completed maximal tx_valid run of the transmit-path MODEL, under the request discipline and outside reset
   chirping, hands the PHY exactly one well-formed packet *)
Theorem txp_runs_wellformed : forall tr, tenv_ok txq_tstep txq_env txq_init tr = true -> nochirp tr ->
  Forall wf_tx_packet (tx_runs None (combine tr (trun txp_tstep txp_init tr))).
Proof.
  intros tr He Hc. rewrite <- tx_runs_norm by apply trun_length. rewrite (txp_from_reset tr He).
  apply tx_runs_spec; try assumption; cbn; auto.
Qed.

(* ============================================================================================== *)
(* C. the boolean checker decides the declarative predicate                                         *)
Lemma c20_list_eqb_eq : forall a b, c20_list_eqb a b = true <-> a = b.
Proof.
  induction a as [|x a IH]; intros [|y b]; cbn; split; intro H; try reflexivity; try discriminate.
  - apply andb_true_iff in H as [H1 H2]. apply N.eqb_eq in H1. apply IH in H2. subst. reflexivity.
  - inversion H; subst. rewrite N.eqb_refl. cbn. apply IH. reflexivity.
Qed.

Lemma mem_N_In : forall x l, mem_N x l = true <-> In x l.
Proof.
  intros x l. unfold mem_N. rewrite existsb_exists. split.
  - intros [y [Hy E]]. apply N.eqb_eq in E. subst. exact Hy.
  - intro H. exists x. split; [exact H | apply N.eqb_refl].
Qed.

Lemma is_hs_packetb_spec : forall l, is_hs_packetb l = true <-> exists h, l = [hs_byte h].
Proof.
  intro l. split.
  - destruct l as [|b [|c r]]; cbn [is_hs_packetb]; try discriminate. intro H.
    apply existsb_exists in H as [h [_ E]]. apply N.eqb_eq in E. exists h. subst. reflexivity.
  - intros [h ->]. cbn [is_hs_packetb]. apply existsb_exists. exists h. split; [destruct h; cbn; tauto | apply N.eqb_refl].
Qed.

Lemma is_data_packetb_wire : forall p payload, In p data_pid_bytes -> Forall (fun b => b < 256) payload ->
  is_data_packetb (tx_wire p payload) = true.
Proof.
  intros p payload Hp Hb. unfold tx_wire, is_data_packetb.
  set (tl2 := [crc16_usb payload mod 256; crc16_usb payload / 256]).
  assert (Hl : length (payload ++ tl2) = (length payload + 2)%nat) by (rewrite app_length; reflexivity).
  rewrite Hl. replace (length payload + 2 - 2)%nat with (length payload) by lia.
  rewrite firstn_app, Nat.sub_diag, firstn_all. cbn [firstn]. rewrite app_nil_r.
  rewrite skipn_app, Nat.sub_diag, skipn_all. cbn [skipn app].
  apply andb_true_iff. split; [|apply c20_list_eqb_eq; reflexivity].
  apply andb_true_iff. split; [|apply forallb_forall; intros b Hin; rewrite Forall_forall in Hb; apply N.ltb_lt, Hb, Hin].
  apply andb_true_iff. split; [apply mem_N_In; exact Hp | apply Nat.leb_le; lia].
Qed.

Theorem wf_tx_packetb_spec : forall l, wf_tx_packetb l = true <-> wf_tx_packet l.
Proof.
  intro l. unfold wf_tx_packetb, wf_tx_packet. rewrite orb_true_iff, is_hs_packetb_spec. split.
  - intros [H|H]; [left; exact H | right].
    destruct l as [|p rest]; [discriminate|]. unfold is_data_packetb in H.
    repeat (apply andb_true_iff in H as [H ?]).
    apply mem_N_In in H. apply Nat.leb_le in H2. apply c20_list_eqb_eq in H0.
    exists p, (firstn (length rest - 2) rest). split; [exact H|]. split.
    + apply Forall_forall. intros b Hb. rewrite forallb_forall in H1. apply N.ltb_lt, H1, Hb.
    + unfold tx_wire. f_equal. rewrite <- H0. symmetry. apply firstn_skipn.
  - intros [H|(p & payload & Hp & Hb & ->)]; [left; exact H | right; apply is_data_packetb_wire; assumption].
Qed.

(* ---- the observer's state packing is faithful on well-formed states (the runtime oracle evaluates the typed
        observer c20_wire_step through it) ---- *)
Definition w_wf (s : wstate) : Prop :=
  w_wait s < 65536 /\
  match w_ph s with
  | W_IDLE => True
  | W_RX l => Forall (fun b => b < 256) l
  | W_TX l src => Forall (fun b => b < 256) l /\ src < 8
  end.

Lemma w_dec_enc : forall s, w_wf s -> w_dec (w_enc s) = s.
Proof.
  intros [ph c e k w] [Hw Hp]. cbn [w_ph w_credit w_expect w_dataok w_wait] in *. unfold w_dec, w_enc.
  cbn [w_ph w_credit w_expect w_dataok w_wait].
  set (r := match ph with W_IDLE => 0 | W_RX l => 1 + 4 * bytes_enc l | W_TX l src => 2 + 4 * (src mod 8 + 8 * bytes_enc l) end).
  pose proof (c20_b2n_lt2 c) as Bc. pose proof (c20_b2n_lt2 e) as Be. pose proof (c20_b2n_lt2 k) as Bk.
  rewrite (N.mod_small w 65536) by exact Hw.
  set (x := b2n c + 2 * b2n e + 4 * b2n k + 8 * w + 524288 * r).
  assert (E1 : N.odd x = c).
  { replace x with (b2n c + 2 * (b2n e + 2 * b2n k + 4 * w + 262144 * r)) by (unfold x; lia). apply rx_odd_b2n. }
  assert (E2 : N.odd (x / 2) = e).
  { replace (x / 2) with (b2n e + 2 * (b2n k + 2 * w + 131072 * r)) by (unfold x; lia). apply rx_odd_b2n. }
  assert (E2' : N.odd (x / 4) = k).
  { replace (x / 4) with (b2n k + 2 * (w + 65536 * r)) by (unfold x; lia). apply rx_odd_b2n. }
  assert (E3 : (x / 8) mod 65536 = w) by (unfold x; lia).
  assert (E4 : x / 524288 = r) by (unfold x; lia).
  rewrite E1, E2, E2', E3, E4. f_equal. subst r.
  destruct ph as [|l|l src].
  - reflexivity.
  - replace ((1 + 4 * bytes_enc l) mod 4) with 1 by lia.
    replace ((1 + 4 * bytes_enc l) / 4) with (bytes_enc l) by lia. rewrite bytes_dec_enc by exact Hp. reflexivity.
  - destruct Hp as [Hl Hs]. rewrite (N.mod_small src 8) by exact Hs.
    replace ((2 + 4 * (src + 8 * bytes_enc l)) mod 4) with 2 by lia.
    replace ((2 + 4 * (src + 8 * bytes_enc l)) / 4 / 8) with (bytes_enc l) by lia.
    replace (((2 + 4 * (src + 8 * bytes_enc l)) / 4) mod 8) with src by lia.
    rewrite bytes_dec_enc by exact Hl. reflexivity.
Qed.

(* ============================================================================================== *)
(* D. where the request discipline comes from, as far as an endpoint model says: the bulk / interrupt IN endpoint
      (USBInTransferManager as wired by USBStreamInEndpoint, Model/InXfer.v).  Its handshake request (NAK) and its
      data request (tx.valid) never coincide; a NAK is requested only in the cycle an IN token for the endpoint
      becomes answerable (tokenizer.ready_for_response for this endpoint); a data packet starts only in that cycle
      (zero-length packet) or in the cycle after it (SEND_PACKET is entered only from WAIT_TO_SEND on such a token). *)
Lemma inxfer_requests_exclusive : forall mps ep st i,
  let o := ix_outf mps ep st i in o_nak o && o_valid o = false.
Proof. intros. unfold o, ix_outf. cbn [o_nak o_valid]. destruct (x_fsm st); rewrite ?andb_false_r; reflexivity. Qed.

Lemma inxfer_nak_trigger : forall mps ep st i, o_nak (ix_outf mps ep st i) = true -> tok ep i = true.
Proof. intros mps ep st i. unfold ix_outf. cbn [o_nak]. destruct (x_fsm st); intro H; try discriminate; exact H. Qed.

Lemma inxfer_zlp_trigger : forall mps ep st i, x_fsm st <> SEND -> o_valid (ix_outf mps ep st i) = true -> tok ep i = true.
Proof.
  intros mps ep st i Hn. unfold ix_outf. cbn [o_valid]. destruct (x_fsm st); try discriminate; try contradiction.
  unfold zlp_now. intro H. apply andb_true_iff in H as [H _]. apply andb_true_iff in H as [_ H]. exact H.
Qed.

Lemma inxfer_data_trigger : forall fa fr mps ep st i,
  x_fsm st <> SEND -> x_fsm (ix_next fa fr mps ep st i) = SEND -> tok ep i = true.
Proof.
  intros fa fr mps ep st i Hn. unfold ix_next. destruct (x_fsm st) eqn:E; try contradiction.
  - destruct (packet_ready mps st i); cbn [x_fsm]; discriminate.
  - destruct (clr ep i); cbn [x_fsm]; [discriminate|]. destruct (tok ep i); [reflexivity|]. cbn [x_fsm]. discriminate.
  - destruct (i_ack i).
    + destruct (follow_up mps st); cbn [x_fsm]; [discriminate|].
      destruct (negb (w_ready mps st) || packet_ready mps st i); cbn [x_fsm]; [discriminate|]. destruct (i_newtok i); discriminate.
    + cbn [x_fsm]. destruct (i_newtok i); discriminate.
Qed.
