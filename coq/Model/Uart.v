(* C49 -- hand models of luna/gateware/interface/uart.py: UARTTransmitter (parametric in the divisor)
   and UARTMultibyteTransmitter (parametric in byte_width and divisor), and their specifications.

   Packed ports (first = least significant):
     UARTTransmitter           in : valid(1) payload(8)          out: tx ready idle driving
     UARTMultibyteTransmitter  in : valid(1) payload(8*bw)       out: tx ready idle                *)
From Coq Require Import NArith List Bool.
Import ListNotations.
From LunaLib Require Import Netlist Bits Machine.
Open Scope N_scope.

(* ------------------------------------------------------------------------------------------ *)
(* Specification                                                                               *)
(* ------------------------------------------------------------------------------------------ *)

(* An 8N1 frame: start bit 0, eight data bits least-significant first, stop bit 1. *)
Definition frame_bits (byte : N) : list bool := false :: N2bits 8 byte ++ [true].

(* The line samples of a frame: every bit held for `div` clock cycles. *)
Definition frame_samples (div : N) (byte : N) : list bool :=
  flat_map (fun b => repeat b (N.to_nat div)) (frame_bits byte).

(* Specification machine of the single-byte transmitter.  Its state is the list of line samples
   that still have to be put on the wire, one per clock cycle ([] = line idle).
     tx      = the sample at the head of the queue, 1 when idle
     ready   = nothing is left after the current cycle (idle, or last cycle of a stop bit)
     a byte offered while ready is accepted; its frame starts in the very next cycle.          *)
Definition us_state := list bool.
Definition us_ready (q : us_state) : bool := Nat.leb (length q) 1.
Definition us_tx (q : us_state) : bool := hd true q.
Definition us_idle (q : us_state) : bool := match q with [] => true | _ => false end.
Definition us_next (div : N) (q : us_state) (valid : bool) (byte : N) : us_state :=
  if us_ready q && valid then frame_samples div byte else tl q.

Definition in_valid (i : N) : bool := N.odd i.
Definition in_payload (w i : N) : N := bits i 1 w.

Definition uart_pack (tx ready idle driving : bool) : N :=
  b2n tx + 2 * b2n ready + 4 * b2n idle + 8 * b2n driving.

Definition us_out (q : us_state) : N :=
  uart_pack (us_tx q) (us_ready q) (us_idle q) (negb (us_idle q)).
Definition us_step (div : N) (q : us_state) (i : N) : us_state * N :=
  (us_next div q (in_valid i) (in_payload 8 i), us_out q).
Definition us_init : us_state := [].

(* ------------------------------------------------------------------------------------------ *)
(* Code-shaped model of UARTTransmitter                                                        *)
(* ------------------------------------------------------------------------------------------ *)
Inductive u_fsm := U_IDLE | U_TRANSMIT.
Record u_state := { ufsm : u_fsm; baud : N; nbits : N; shift : N }.

(* Cat(START_BIT, payload, STOP_BIT) *)
Definition framed (byte : N) : N := 2 * byte + 512.

Section Uart.
  Variable div : N.

  Definition u_init : u_state := {| ufsm := U_IDLE; baud := 0; nbits := 0; shift := 0 |}.

  Definition u_ready (st : u_state) : bool :=
    match ufsm st with
    | U_IDLE => true
    | U_TRANSMIT => (baud st =? 0) && (nbits st =? 0)
    end.
  Definition u_tx (st : u_state) : bool :=
    match ufsm st with U_IDLE => true | U_TRANSMIT => N.odd (shift st) end.
  Definition u_idle (st : u_state) : bool :=
    match ufsm st with U_IDLE => true | U_TRANSMIT => false end.

  Definition u_next (st : u_state) (valid : bool) (byte : N) : u_state :=
    match ufsm st with
    | U_IDLE =>
        if valid then {| ufsm := U_TRANSMIT; baud := div - 1; nbits := 9; shift := framed byte |}
        else st
    | U_TRANSMIT =>
        if baud st =? 0 then
          if 0 <? nbits st then
            {| ufsm := U_TRANSMIT; baud := div - 1; nbits := nbits st - 1; shift := N.div2 (shift st) |}
          else if valid then
            {| ufsm := U_TRANSMIT; baud := div - 1; nbits := 9; shift := framed byte |}
          else
            {| ufsm := U_IDLE; baud := div - 1; nbits := nbits st; shift := shift st |}
        else
          {| ufsm := U_TRANSMIT; baud := baud st - 1; nbits := nbits st; shift := shift st |}
    end.

  Definition u_out (st : u_state) : N :=
    uart_pack (u_tx st) (u_ready st) (u_idle st) (negb (u_idle st)).
  Definition u_step (st : u_state) (i : N) : u_state * N :=
    (u_next st (in_valid i) (in_payload 8 i), u_out st).
End Uart.

(* packing for lock-step obligations: fsm(1) | nbits(4) | shift(10) | baud(rest) *)
Definition u_enc (st : u_state) : N :=
  (match ufsm st with U_IDLE => 0 | U_TRANSMIT => 1 end)
  + 2 * (nbits st mod 16) + 32 * (shift st mod 1024) + 32768 * baud st.
Definition u_dec (m : N) : u_state :=
  {| ufsm := if m mod 2 =? 1 then U_TRANSMIT else U_IDLE;
     nbits := (m / 2) mod 16; shift := (m / 32) mod 1024; baud := m / 32768 |}.
Definition u_wf (st : u_state) : Prop := nbits st < 16 /\ shift st < 1024.

(* ------------------------------------------------------------------------------------------ *)
(* Multi-byte transmitter                                                                      *)
(* ------------------------------------------------------------------------------------------ *)

(* the bytes of a word, least significant byte first *)
Fixpoint bytes_le (n : nat) (x : N) : list N :=
  match n with
  | O => []
  | S n' => x mod 256 :: bytes_le n' (x / 256)
  end.

(* Specification: a queue of bytes still to be handed to the single-byte transmitter specification
   `us_*` above, which is offered the head of the queue whenever the queue is non-empty.
     ready (for a new word) = the byte queue is empty, or its last byte is being taken right now
     idle                   = the byte queue is empty (the last frame may still be on the wire)  *)
Record ms_state := { pend : list N; line : us_state }.
Definition ms_init : ms_state := {| pend := []; line := us_init |}.
Definition ms_ready (st : ms_state) : bool :=
  match pend st with
  | [] => true
  | [_] => us_ready (line st)
  | _ => false
  end.
Definition ms_idle (st : ms_state) : bool := match pend st with [] => true | _ => false end.
Definition ms_next (bw : nat) (div : N) (st : ms_state) (valid : bool) (word : N) : ms_state :=
  let offered := negb (ms_idle st) in
  let rest := if us_ready (line st) then tl (pend st) else pend st in
  {| pend := if ms_ready st && valid then bytes_le bw word else rest;
     line := us_next div (line st) offered (hd 0 (pend st)) |}.
Definition multi_pack (tx ready idle : bool) : N := b2n tx + 2 * b2n ready + 4 * b2n idle.
Definition ms_out (st : ms_state) : N := multi_pack (us_tx (line st)) (ms_ready st) (ms_idle st).
Definition ms_step (bw : nat) (div : N) (st : ms_state) (i : N) : ms_state * N :=
  (ms_next bw div st (in_valid i) (in_payload (8 * N.of_nat bw) i), ms_out st).

(* Code-shaped model of UARTMultibyteTransmitter (contains the single-byte model). *)
Record m_state := { mfsm : u_fsm; dshift : N; nbytes : N; uart : u_state }.

Section Multi.
  Variable bw : nat.
  Variable div : N.

  Definition m_init : m_state := {| mfsm := U_IDLE; dshift := 0; nbytes := 0; uart := u_init |}.

  Definition m_ready (st : m_state) : bool :=
    match mfsm st with
    | U_IDLE => true
    | U_TRANSMIT => u_ready (uart st) && negb (0 <? nbytes st)
    end.
  Definition m_idle (st : m_state) : bool :=
    match mfsm st with U_IDLE => true | U_TRANSMIT => false end.

  Definition m_next (st : m_state) (valid : bool) (word : N) : m_state :=
    let u' := u_next div (uart st) (negb (m_idle st)) (dshift st mod 256) in
    match mfsm st with
    | U_IDLE =>
        if valid then {| mfsm := U_TRANSMIT; dshift := word; nbytes := N.of_nat bw - 1; uart := u' |}
        else {| mfsm := U_IDLE; dshift := dshift st; nbytes := nbytes st; uart := u' |}
    | U_TRANSMIT =>
        if u_ready (uart st) then
          if 0 <? nbytes st then
            {| mfsm := U_TRANSMIT; dshift := dshift st / 256; nbytes := nbytes st - 1; uart := u' |}
          else if valid then
            {| mfsm := U_TRANSMIT; dshift := word; nbytes := N.of_nat bw - 1; uart := u' |}
          else
            {| mfsm := U_IDLE; dshift := dshift st; nbytes := nbytes st; uart := u' |}
        else {| mfsm := U_TRANSMIT; dshift := dshift st; nbytes := nbytes st; uart := u' |}
    end.

  Definition m_out (st : m_state) : N := multi_pack (u_tx (uart st)) (m_ready st) (m_idle st).
  Definition m_step (st : m_state) (i : N) : m_state * N :=
    (m_next st (in_valid i) (in_payload (8 * N.of_nat bw) i), m_out st).
End Multi.

(* packing: mfsm(1) | nbytes(8) | single-byte transmitter (31) | dshift(rest) *)
Definition m_enc (st : m_state) : N :=
  (match mfsm st with U_IDLE => 0 | U_TRANSMIT => 1 end)
  + 2 * nbytes st + 512 * u_enc (uart st) + 1099511627776 * dshift st.
Definition m_dec (m : N) : m_state :=
  {| mfsm := if m mod 2 =? 1 then U_TRANSMIT else U_IDLE;
     nbytes := (m / 2) mod 256; uart := u_dec ((m / 512) mod 2147483648); dshift := m / 1099511627776 |}.
Definition m_wf (st : m_state) : Prop := nbytes st < 256 /\ baud (uart st) < 65536 /\ u_wf (uart st).

(* Input alphabets of the lock-step obligations (LunaLib.ReachDep): every 9-bit input word in the cycles in
   which the transmitter samples its inputs (ready), and a few representative words in the cycles in which it
   must ignore them: nothing; valid with payload 00/FF/55; payload FF/AA without valid. *)
Definition u_probe : list N := [0; 1; 511; 171; 510; 340].
Definition u_alpha (st : u_state) : list N := if u_ready st then range_bits 9 else u_probe.
(* multi-byte: "no word" or one of the given words, with or without valid *)
Definition m_alpha (words : list N) (_ : m_state) : list N :=
  0 :: map (fun w => 1 + 2 * w) words ++ map (fun w => 2 * w) words.
