(* C14 -- proofs: the USBStreamInEndpoint model (Model/InXfer.v, both repairs applied) obeys the IN toggle rule of
   Model/DataToggle.v, for every max_packet_size, endpoint number and input history. *)
From Coq Require Import NArith List Bool Arith Lia.
Import ListNotations.
From LunaLib Require Import Netlist Machine.
From LunaModel Require Import InXfer InXfer_proofs DataToggle.

Section InToggleProof.
  Variable mps : nat.
  Variable ep : N.
  Notation nxt := (ix_next true true mps ep).

  (* the toggle as the module holds it: data_pid is stored "one ahead" while no packet is queued *)
  Definition ix_seq (st : ix_state) : bool :=
    match x_fsm st with WFD => negb (x_pid st) | _ => x_pid st end.

  Definition tg_abs (st : ix_state) : tg_state :=
    {| g_seq := ix_seq st;
       g_busy := match x_fsm st with SEND => true | _ => false end;
       g_wait := match x_fsm st with WFA => true | _ => false end |}.

  Lemma b2n_eqb : forall a, (b2n a =? b2n a) = true.
  Proof. intro a. apply N.eqb_refl. Qed.

  Lemma tg_step : forall st i, c14i_env ep (tg_abs st) i = true ->
    c14i_mon ep (tg_abs st) i (ix_outf mps ep st i) = Some (tg_abs (nxt st i), true).
  Proof.
    intros st i He. unfold c14i_mon. rewrite He. cbn [negb].
    unfold c14i_env in He. apply andb_true_iff in He as [Hx Hc].
    unfold tg_abs, ix_seq, seq_next, ix_outf, ix_next, zlp_now, last_byte in *.
    cbn [g_seq g_busy g_wait o_valid o_pid o_nak o_last] in *.
    destruct (x_fsm st) eqn:Hf; cbn [negb andb orb] in *.
    - (* WAIT_FOR_DATA *)
      destruct (clr ep i) eqn:Ec, (tok ep i) eqn:Et, (packet_ready mps st i); cbn [x_fsm x_pid andb negb orb];
        try reflexivity; destruct (x_pid st); reflexivity.
    - (* WAIT_TO_SEND *)
      destruct (clr ep i) eqn:Ec; cbn [andb negb orb].
      + destruct (tok ep i); cbn [x_fsm x_pid]; reflexivity.
      + destruct (tok ep i) eqn:Et; cbn [andb negb orb x_fsm x_pid].
        * destruct (b_fill (x_r st) =? 0)%nat; cbn [negb x_fsm x_pid]; rewrite ?b2n_eqb; reflexivity.
        * reflexivity.
    - (* SEND_PACKET *)
      rewrite orb_false_r in Hc. apply negb_true_iff in Hc. rewrite Hc. rewrite b2n_eqb.
      destruct (i_txrdy i); cbn [andb x_fsm x_pid]; [|reflexivity].
      destruct (x_pos st + 1 =? b_fill (x_r st))%nat; reflexivity.
    - (* WAIT_FOR_ACK *)
      rewrite orb_false_r in Hc. apply negb_true_iff in Hc. rewrite Hc.
      destruct (i_ack i) eqn:Ea; cbn [andb orb negb] in *.
      + apply negb_true_iff in Hx. rewrite Hx.
        destruct (follow_up mps st); [|destruct (negb (w_ready mps st) || packet_ready mps st i)];
          cbn [x_fsm x_pid]; rewrite ?andb_false_r; reflexivity.
      + destruct (i_newtok i); cbn [x_fsm x_pid negb andb]; rewrite ?andb_false_r, ?andb_true_r; reflexivity.
  Qed.

  Theorem in_toggle_refines_from : forall ins st,
    c14i_check ep (tg_abs st) (combine ins (ix_run true true mps ep st ins)) = true.
  Proof.
    induction ins as [|i t IH]; intro st; [reflexivity|].
    cbn [ix_run combine c14i_check].
    destruct (c14i_env ep (tg_abs st) i) eqn:He.
    - rewrite tg_step by exact He. cbn [andb]. apply IH.
    - unfold c14i_mon. rewrite He. reflexivity.
  Qed.

  Theorem in_toggle_refines : forall ins,
    c14i_check ep tg_init (combine ins (ix_run true true mps ep (ix_init mps) ins)) = true.
  Proof. intro ins. apply (in_toggle_refines_from ins (ix_init mps)). Qed.

  (* on packed words with normalised outputs (what the netlist ties use) *)
  Lemma c14i_norm : forall s i o, c14i_mon ep s i (out_norm o) = c14i_mon ep s i o.
  Proof. intros s i [r v f l k p pl]. reflexivity. Qed.

  Lemma c14i_check_norm : forall ios s,
    c14i_check ep s (map (fun io => (fst io, out_norm (snd io))) ios) = c14i_check ep s ios.
  Proof.
    induction ios as [|[i o] t IH]; intro s; [reflexivity|].
    cbn [map c14i_check fst snd]. rewrite c14i_norm. destruct (c14i_mon ep s i o) as [[s' ok]|]; [|reflexivity].
    rewrite IH. reflexivity.
  Qed.

  Theorem in_toggle_packed : forall ws,
    c14i_check ep tg_init
      (combine (map ix_in_of ws) (map ix_out_of (run (ix_mstep_n true true mps ep) (ix_init mps) ws))) = true.
  Proof.
    intro ws. rewrite decode_run by apply ix_wf_init. rewrite c14i_check_norm. apply in_toggle_refines.
  Qed.

  (* the same for the machine whose tx.payload is dropped altogether (C14's netlist ties) *)
  Lemma c14i_check_nopl : forall ios s,
    c14i_check ep s (map (fun io => (fst io, out_nopl (snd io))) ios) = c14i_check ep s ios.
  Proof.
    induction ios as [|[i o] t IH]; intro s; [reflexivity|].
    cbn [map c14i_check fst snd].
    replace (c14i_mon ep s i (out_nopl o)) with (c14i_mon ep s i o) by (destruct o; reflexivity).
    destruct (c14i_mon ep s i o) as [[s' ok]|]; [|reflexivity]. rewrite IH. reflexivity.
  Qed.

  Lemma decode_run_t : forall ws st, ix_wf mps st ->
    combine (map ix_in_of ws) (map ix_out_of (run (ix_mstep_t mps ep) st ws))
    = map (fun io => (fst io, out_nopl (snd io)))
          (combine (map ix_in_of ws) (ix_run true true mps ep st (map ix_in_of ws))).
  Proof.
    induction ws as [|w t IH]; intros st Hs; [reflexivity|].
    cbn [run ix_mstep_t map combine ix_run fst snd].
    rewrite ix_out_of_pack.
    - f_equal. apply IH. apply ix_wf_next; [|exact Hs]. cbn [ix_in_of i_payload]. apply (bits_lt w 19 8).
    - unfold out_nopl, ix_outf. cbn [o_pid]. destruct (x_pid st); cbn; lia.
    - cbn [out_nopl o_payload]. lia.
  Qed.

  Theorem in_toggle_packed_t : forall ws,
    c14i_check ep tg_init
      (combine (map ix_in_of ws) (map ix_out_of (run (ix_mstep_t mps ep) (ix_init mps) ws))) = true.
  Proof.
    intro ws. rewrite decode_run_t by apply ix_wf_init. rewrite c14i_check_nopl. apply in_toggle_refines.
  Qed.

  Lemma ix_wf_step_t : forall st w, ix_wf mps st -> ix_wf mps (fst (ix_mstep_t mps ep st w)).
  Proof. intros. cbn [ix_mstep_t fst]. apply ix_wf_next; [|assumption]. cbn [ix_in_of i_payload]. apply (bits_lt w 19 8). Qed.
End InToggleProof.
