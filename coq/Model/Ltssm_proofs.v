(* C41 -- proofs about the LTSSM model (Model/Ltssm.v). *)
From Coq Require Import NArith ZArith List Bool Lia ZifyBool ZifyN.
Import ListNotations.
From LunaLib Require Import Netlist Machine.
From LunaModel Require Import Ltssm.
Open Scope N_scope.
(* NB: the div_mod_to_equations zify hook is NOT installed here: it breaks lia's boolean reasoning. *)

(* ------------------------------------------------------------------------------------------ *)
(* packing facts for the lock-step tie                                                         *)
Lemma pk_div : forall m a r, a < m -> pk m a r / m = r.
Proof. intros m a r H. unfold pk. rewrite (N.mul_comm m r), N.div_add by lia. rewrite N.div_small by lia. lia. Qed.
Lemma pk_mod : forall m a r, a < m -> (pk m a r) mod m = a.
Proof. intros m a r H. unfold pk. rewrite (N.mul_comm m r), N.mod_add by lia. apply N.mod_small. exact H. Qed.
Lemma pk_bit : forall b r, ((pk 2 (b2n b) r) mod 2 =? 1) = b.
Proof. intros b r. rewrite pk_mod by (destruct b; cbn; lia). destruct b; reflexivity. Qed.
Lemma b2n_lt2 : forall b, b2n b < 2.
Proof. destruct b; cbn; lia. Qed.
Lemma fsm_code_lt : forall f, fsm_code f < 32.
Proof. destruct f; cbn; lia. Qed.
Lemma fsm_of_code_code : forall f, fsm_of_code (fsm_code f) = f.
Proof. destruct f; reflexivity. Qed.

Lemma lt_dec_enc : forall s, lt_wf s -> lt_dec (lt_enc s) = s.
Proof.
  intros s H. unfold lt_wf in H. unfold lt_dec, lt_enc. cbv zeta.
  repeat first [ rewrite pk_bit | rewrite (pk_div 2) by apply b2n_lt2
               | rewrite (pk_div 32) by apply fsm_code_lt | rewrite (pk_mod 32) by apply fsm_code_lt
               | rewrite (pk_div 65536) by exact H | rewrite (pk_mod 65536) by exact H ].
  rewrite fsm_of_code_code. destruct s; reflexivity.
Qed.

Lemma lt_wf_init : lt_wf lt_init.
Proof. unfold lt_wf. cbn. lia. Qed.

Ltac split_ifs :=
  repeat match goal with
         | |- context [if ?b then _ else _] => destruct b
         end.

Lemma lt_next_target : forall c s i,
  target (lt_next c s i) = target s \/ target (lt_next c s i) = 16 \/
  target (lt_next c s i) = (i_sent i + 4) mod 65536.
Proof.
  intros c s i. unfold lt_next, warm, timeout, idle_exit, on.
  destruct (st s); split_ifs; cbn; auto.
Qed.

Lemma lt_wf_step : forall c s w, lt_wf s -> lt_wf (fst (lt_step c s w)).
Proof.
  intros c s w H. unfold lt_wf in *. unfold lt_step. cbn [fst].
  destruct (lt_next_target c s (lt_decode_in w)) as [E | [E | E]]; rewrite E; try lia.

Qed.

Lemma lt_decode_encode_out : forall o, lt_decode_out (lt_encode_out o) = o.
Proof.
  intros o. unfold lt_decode_out, lt_encode_out. cbv zeta.
  repeat first [ rewrite pk_bit | rewrite (pk_div 2) by apply b2n_lt2 ].
  assert (E : forall b, (b2n b mod 2 =? 1) = b) by (intros [|]; reflexivity).
  rewrite E. destruct o; reflexivity.
Qed.

(* ------------------------------------------------------------------------------------------ *)
(* The model satisfies the ghost-history specification on every input history                  *)
Section SpecProof.
  Variable c : lt_cfg.
  Hypothesis H12 : T12 c < 2 ^ cw c.
  Hypothesis H2 : T2 c < 2 ^ cw c.
  Hypothesis H360 : T360 c < 2 ^ cw c.

  Definition TR4 (g : gh) : Prop := g_det g = true /\ g_pol g = true /\ g_t1x g = true /\ g_t2x g = true.
  Definition SC (s : lt_state) (g : gh) : Prop := g_gl g = req_noscr s /\ g_gp g = noscr_seen s.
  Definition TS2I (s : lt_state) (g : gh) : Prop := ts2_seen s = true -> g_ts2s g = true.
  Definition JTS1 (s : lt_state) (g : gh) : Prop :=
    if g_pts1 g then TS2I s g /\ SC s g
    else ts2_seen s = false /\ noscr_seen s = false /\ req_noscr s = g_pdis g.
  Definition JHOT (s : lt_state) (g : gh) : Prop :=
    if req_hot s && negb (g_phot g) then ts2_seen s = false else TS2I s g.

  (* what each FSM state guarantees about the history *)
  Definition J (s : lt_state) (g : gh) : Prop :=
    (g_preset g = true -> st s = RxDetReset) /\
    (req_hot s = true -> st s = HotResetActive) /\
    match st s with
    | PollLFPS => g_det g = true /\ (lfps_seen s = true -> g_pol g = true) /\ g_np g = cyc s /\ cyc s <= T360 c
    | PollRxEQ => g_det g = true /\ g_pol g = true
    | PollActive => g_det g = true /\ g_pol g = true /\ JTS1 s g /\ g_n1 g = cyc s /\ cyc s <= T12 c
    | PollConfig => g_det g = true /\ g_pol g = true /\ g_t1x g = true /\ TS2I s g /\ SC s g
    | PollConfigExit | RecConfigExit => TR4 g /\ g_c2x g = true /\ SC s g
    | PollIdle | HotResetExit | RecIdle =>
        TR4 g /\ g_c2x g = true /\ SC s g /\ g_ni g = cyc s /\ cyc s <= T2 c
    | U0 => TR4 g /\ g_c2x g = true /\ g_idl g = true /\ SC s g
    | HotResetActive => TR4 g /\ JHOT s g /\ SC s g
    | RecActive => TR4 g /\ JTS1 s g /\ g_n1 g = cyc s /\ cyc s <= T12 c
    | RecConfig => TR4 g /\ TS2I s g /\ SC s g
    | RxDetQuiet | InactQuiet => g_nq g = cyc s /\ cyc s <= T12 c
    | _ => True
    end.

  Lemma J_init : J lt_init gh_init.
  Proof. unfold J. cbn. repeat split; intro; discriminate. Qed.

  Ltac Zify.zify_post_hook ::= Z.div_mod_to_equations.
  Lemma J_ok : forall s g i, J s g -> gh_ok c g i (lt_outputs s i) = true.
  Proof.
    intros s g i (HR & HH & HS). unfold gh_ok, gh_next, lt_outputs, quiet_out, scr_on, fsm_eqb.
    destruct s as [f cy ps t2 hs ls ns bm lf tg ip rh rn]. cbn [st cyc polling_seen ts2_seen hot_seen loop_seen noscr_seen burst_met lfps_seen target inv_pol req_hot req_noscr] in *.
    destruct g as [gd gp_ g1 g2 gts gc gi pt ph pr pd gl gp n1 ni nq np].
    cbn [g_det g_pol g_t1x g_t2x g_ts2s g_c2x g_idl g_pts1 g_phot g_preset g_pdis g_gl g_gp g_n1 g_ni g_nq g_np] in *.
    unfold JTS1, JHOT in HS. unfold TR4, SC, TS2I in HS. cbn [st cyc polling_seen ts2_seen hot_seen loop_seen noscr_seen burst_met lfps_seen target inv_pol req_hot req_noscr g_det g_pol g_t1x g_t2x g_ts2s g_c2x g_idl g_pts1 g_phot g_preset g_pdis g_gl g_gp g_n1 g_ni g_nq g_np] in HS.
    destruct f; cbn [fsm_code N.eqb Pos.eqb orb andb negb o_ready o_entering o_scr o_txidle o_term o_invpol o_traineq o_rxdet o_poll o_tseq o_ts1 o_ts2 o_reqhot o_reqnoscr o_idlehs o_loop o_compl implb];
      try (destruct pr; [specialize (HR eq_refl); discriminate|]); cbn [implb negb andb];
      rewrite ?andb_true_r; cbn [implb negb andb orb];
      try lia.
    decompose [and] HS. subst. rewrite ?N.leb_le. cbn. destruct rn, ns; cbn; lia.
  Qed.
  Ltac Zify.zify_post_hook ::= idtac.

  Lemma reset_next : forall s i, i_reset i = true ->
    st (lt_next c s i) = RxDetReset /\ req_hot (lt_next c s i) = false.
  Proof.
    intros s i H. unfold lt_next, warm, on. rewrite H. destruct (st s); cbn; split; reflexivity.
  Qed.

  Lemma J_next_reset : forall s g i o, i_reset i = true -> J (lt_next c s i) (gh_next c g i o).
  Proof.
    intros s g i o H. destruct (reset_next s i H) as [E1 E2]. unfold J. rewrite E1, E2.
    repeat split; auto. intro; discriminate.
  Qed.

  Ltac split_ifs_eqn :=
    repeat match goal with
           | |- context [if ?b then _ else _] => let E := fresh "E" in destruct b eqn:E
           end.

  Ltac fin :=
    unfold J; unfold JTS1, JHOT; unfold TR4, SC, TS2I;
    cbn [st cyc polling_seen ts2_seen hot_seen loop_seen noscr_seen burst_met lfps_seen target inv_pol req_hot
         req_noscr g_det g_pol g_t1x g_t2x g_ts2s g_c2x g_idl g_pts1 g_phot g_preset g_pdis g_gl g_gp g_n1 g_ni
         g_nq g_np gh_next lt_outputs quiet_out fsm_eqb fsm_code N.eqb Pos.eqb orb andb negb
         o_ready o_entering o_scr o_txidle o_term o_invpol o_traineq o_rxdet o_poll o_tseq o_ts1 o_ts2
         o_reqhot o_reqnoscr o_idlehs o_loop o_compl goto set_inv clr_hot set_lfps].

  Ltac dest_inputs i :=
    repeat match goal with
    | |- context [i_recov i] => destruct (i_recov i) eqn:?
    | |- context [i_phy i] => destruct (i_phy i) eqn:?
    | |- context [i_disscr i] => destruct (i_disscr i) eqn:?
    | |- context [i_partner i] => destruct (i_partner i) eqn:?
    | |- context [i_nopartner i] => destruct (i_nopartner i) eqn:?
    | |- context [i_lfps i] => destruct (i_lfps i) eqn:?
    | |- context [i_ts1 i] => destruct (i_ts1 i) eqn:?
    | |- context [i_its1 i] => destruct (i_its1 i) eqn:?
    | |- context [i_ts2 i] => destruct (i_ts2 i) eqn:?
    | |- context [i_hotreq i] => destruct (i_hotreq i) eqn:?
    | |- context [i_loopreq i] => destruct (i_loopreq i) eqn:?
    | |- context [i_noscr i] => destruct (i_noscr i) eqn:?
    | |- context [i_burst i] => destruct (i_burst i) eqn:?
    | |- context [i_idle i] => destruct (i_idle i) eqn:?
    | |- context [loosen c] => destruct (loosen c) eqn:?
    end.

  Ltac bsimp :=
    cbn [andb orb negb] in *;
    rewrite ?orb_true_r, ?orb_false_r, ?andb_true_r, ?andb_false_r in *;
    cbn [andb orb negb] in *.

  Ltac arith :=
    match goal with
    | |- @eq N _ _ => lia
    | |- N.le _ _ => lia
    | |- N.lt _ _ => lia
    end.

  Ltac chain :=
    repeat match goal with
           | H : _ && _ = true |- _ => apply andb_true_iff in H; destruct H
           end;
    repeat match goal with
           | H : ?a = true -> _, H' : ?a = true |- _ => specialize (H H')
           | H : true = true -> _ |- _ => specialize (H eq_refl)
           end;
    repeat match goal with
           | H : ?x = true |- _ => is_var x; subst x
           | H : ?x = false |- _ => is_var x; subst x
           end;
    repeat match goal with
           | H : (?a && ?b) = _ |- context [?a && ?b] => rewrite H
           end.

  Ltac close1 :=
    first [ discriminate | reflexivity | assumption | congruence | arith
          | match goal with H : ?a = true -> ?b = true |- _ => apply H; bsimp; first [reflexivity | assumption | congruence] end ].

  Ltac finish :=
    chain; repeat split; intros; chain; bsimp;
    first [ close1
          | repeat match goal with x : bool |- context [?y] => is_var y; constr_eq x y; destruct x end;
            bsimp; chain; close1 ].

  Lemma J_next_live : forall s g i, J s g -> i_reset i = false ->
    J (lt_next c s i) (gh_next c g i (lt_outputs s i)).
  Proof.
    intros s g i (HR & HH & HS) ER.
    destruct s as [f cy ps t2 hs ls ns bm lf tg ip rh rn].
    destruct g as [gd gp_ g1 g2 gts gc gi pt ph pr pd gl gp n1 ni nq np].
    unfold JTS1, JHOT in HS. unfold TR4, SC, TS2I in HS.
    cbn [st cyc polling_seen ts2_seen hot_seen loop_seen noscr_seen burst_met lfps_seen target inv_pol req_hot
         req_noscr g_det g_pol g_t1x g_t2x g_ts2s g_c2x g_idl g_pts1 g_phot g_preset g_pdis g_gl g_gp g_n1 g_ni
         g_nq g_np] in *.
    unfold lt_next, warm, timeout, idle_exit, on, base.
    cbn [st cyc polling_seen ts2_seen hot_seen loop_seen noscr_seen burst_met lfps_seen target inv_pol req_hot req_noscr].
    rewrite ER.
    destruct f.
    all: try (destruct rh; [specialize (HH eq_refl); discriminate|]).
    all: clear HR HH.
    all: repeat match type of HS with context [if ?b then _ else _] => let Eb := fresh "Eb" in destruct b eqn:Eb end.
    all: cbn [andb negb] in HS; decompose [and] HS; clear HS; subst.
    all: split_ifs_eqn; fin.
    all: rewrite ?ER.
    all: dest_inputs i; bsimp; try discriminate.
    all: try rewrite (N.mod_small (cy + 1)) by lia.
    all: try solve [finish].
  Qed.

  Lemma J_step : forall s g i, J s g ->
    gh_ok c g i (lt_outputs s i) = true /\ J (lt_next c s i) (gh_next c g i (lt_outputs s i)).
  Proof.
    intros s g i H. split; [apply J_ok; exact H|].
    destruct (i_reset i) eqn:ER; [apply J_next_reset; exact ER | apply J_next_live; assumption].
  Qed.

  Theorem lt_meets_spec_gen : forall ins s g, J s g -> gh_accepts c g (lt_trace c s ins) = true.
  Proof.
    induction ins as [|i t IH]; intros s g H; cbn [lt_trace gh_accepts]; [reflexivity|].
    destruct (J_step s g i H) as [Hok Hn]. rewrite Hok. cbn [andb]. apply IH. exact Hn.
  Qed.

  Theorem lt_meets_spec : forall ins, gh_accepts c gh_init (lt_trace c lt_init ins) = true.
  Proof. intro ins. apply lt_meets_spec_gen. apply J_init. Qed.

  (* the same for the word-level machine *)
  Theorem lt_meets_spec_w_gen : forall tr s g, J s g -> gh_accepts_w c g tr (run (lt_step c) s tr) = true.
  Proof.
    induction tr as [|w t IH]; intros s g H; [reflexivity|].
    cbn [run]. unfold lt_step at 1. cbn [gh_accepts_w]. rewrite lt_decode_encode_out.
    destruct (J_step s g (lt_decode_in w) H) as [Hok Hn]. rewrite Hok. cbn [andb]. apply IH. exact Hn.
  Qed.

  Theorem lt_meets_spec_w : forall tr, gh_accepts_w c gh_init tr (run (lt_step c) lt_init tr) = true.
  Proof. intro tr. apply lt_meets_spec_w_gen. apply J_init. Qed.

  (* explicit corollary: a reset cycle is followed by a cycle in Rx.Detect.Reset (link_ready = 0) *)
  Corollary lt_reset_honoured : forall s i, i_reset i = true ->
    o_ready (lt_outputs (lt_next c s i) i) = false /\ st (lt_next c s i) = RxDetReset.
  Proof.
    intros s i H. destruct (reset_next s i H) as [E _]. split; [|exact E].
    unfold lt_outputs. rewrite E. reflexivity.
  Qed.
End SpecProof.

(* ------------------------------------------------------------------------------------------ *)
(* Time-outs, state level: a state with time-out T is occupied for at most T+1 consecutive cycles *)
Section Dwell.
  Variable c : lt_cfg.
  Hypothesis H12 : T12 c < 2 ^ cw c.
  Hypothesis H2 : T2 c < 2 ^ cw c.
  Hypothesis H360 : T360 c < 2 ^ cw c.

  Ltac split_ifs_eqn :=
    repeat match goal with
           | |- context [if ?b then _ else _] => let E := fresh "E" in destruct b eqn:E
           end.

  (* one step: either the counter was cleared (a transition was taken), or the state is unchanged, the counter
     counted, and (in a timed state) the time-out had not been reached *)
  Lemma step_shape : forall s i,
    (cyc (lt_next c s i) = 0 /\ (st (lt_next c s i) <> st s \/ st_timeout c (st s) = None)) \/
    (st (lt_next c s i) = st s /\ cyc (lt_next c s i) = (cyc s + 1) mod 2 ^ cw c /\
     forall T, st_timeout c (st s) = Some T -> cyc s <> T).
  Proof.
    intros s i. unfold lt_next, warm, timeout, idle_exit, on, base.
    destruct s as [f cy ps t2 hs ls ns bm lf tg ip rh rn].
    cbn [st cyc polling_seen ts2_seen hot_seen loop_seen noscr_seen burst_met lfps_seen target inv_pol req_hot req_noscr].
    destruct f; split_ifs_eqn; cbn [st cyc goto set_inv clr_hot set_lfps st_timeout];
      first [ left; split; [reflexivity | first [left; discriminate | right; reflexivity]]
            | right; split; [reflexivity | split; [reflexivity | intros T HT; inversion HT; subst; lia]] ].
  Qed.

  Definition K (s : lt_state) : Prop := forall T, st_timeout c (st s) = Some T -> cyc s <= T.

  Lemma K_step : forall s i, K s -> K (lt_next c s i).
  Proof.
    intros s i HK T HT. destruct (step_shape s i) as [[E _] | (E1 & E2 & E3)].
    - rewrite E. lia.
    - rewrite E1 in HT. specialize (HK T HT). specialize (E3 T HT). rewrite E2.
      assert (T < 2 ^ cw c) by (destruct (st s); cbn in HT; inversion HT; subst; assumption).
      rewrite N.mod_small by lia. lia.
  Qed.

  Lemma K_run : forall ins s, K s -> K (lt_run c s ins).
  Proof. induction ins as [|i t IH]; intros s H; cbn; [exact H | apply IH, K_step, H]. Qed.

  Lemma K_init : K lt_init.
  Proof. intros T H. cbn in H. discriminate. Qed.

  Lemma dwell_count : forall mid s f T, K s -> st_timeout c f = Some T ->
    (forall j, (j <= length mid)%nat -> st (lt_run c s (firstn j mid)) = f) ->
    cyc (lt_run c s mid) = cyc s + N.of_nat (length mid).
  Proof.
    induction mid as [|i t IH]; intros s f T HK HT Hall.
    - cbn. lia.
    - assert (Hs : st s = f) by (apply (Hall 0%nat); cbn; lia).
      assert (Hs' : st (lt_next c s i) = f) by (apply (Hall 1%nat); cbn; lia).
      cbn [lt_run length]. rewrite (IH (lt_next c s i) f T).
      + destruct (step_shape s i) as [[E [Hne | Hno]] | (E1 & E2 & E3)].
        * congruence.
        * rewrite Hs, HT in Hno. discriminate.
        * rewrite E2. rewrite <- Hs in HT. specialize (HK T HT). specialize (E3 T HT).
          assert (T < 2 ^ cw c) by (destruct (st s); cbn in HT; inversion HT; subst; assumption).
          rewrite N.mod_small by lia. lia.
      + apply K_step, HK.
      + exact HT.
      + intros j Hj. apply (Hall (S j)). cbn. lia.
  Qed.

  (* if, after any history `pre`, the LTSSM is in the timed state f and is still in f after every prefix of `mid`
     (length mid + 1 consecutive cycles), then length mid <= T *)
  Theorem lt_dwell : forall pre mid f T, st_timeout c f = Some T ->
    (forall j, (j <= length mid)%nat -> st (lt_run c (lt_run c lt_init pre) (firstn j mid)) = f) ->
    N.of_nat (length mid) <= T.
  Proof.
    intros pre mid f T HT Hall.
    assert (HK : K (lt_run c lt_init pre)) by (apply K_run, K_init).
    pose proof (dwell_count mid _ f T HK HT Hall) as E.
    assert (HK' : K (lt_run c (lt_run c lt_init pre) mid)) by (apply K_run, HK).
    assert (Hf : st (lt_run c (lt_run c lt_init pre) mid) = f).
    { rewrite <- (firstn_all mid) at 1. apply Hall. lia. }
    rewrite <- Hf in HT. specialize (HK' T HT). lia.
  Qed.
End Dwell.
