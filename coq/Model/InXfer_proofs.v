(* C11 / C14 -- proofs about the USBStreamInEndpoint / USBInTransferManager model (Model/InXfer.v):
   1. list / memory lemmas
   2. the abstraction `abs` from model states (+ three ghost bits) to states of the specification monitor and the
      step lemma: the monitor, fed the model's own outputs, never reports a violation (unbounded in trace length,
      parametric in max_packet_size and the endpoint number)
   3. consequences stated on the monitor's logs (exactly once, in order, bounded backlog)
   4. packing lemmas for the lock-step ties. *)
From Coq Require Import NArith ZArith List Bool Arith Lia ZifyBool ZifyN.
Import ListNotations.
From LunaLib Require Import Netlist Machine PackN ListMem.
From LunaModel Require Import InXfer.
Ltac Zify.zify_post_hook ::= Z.div_mod_to_equations.

(* ------------------------------------------------------------------------------------------ *)
(* 1. lists                                                                                    *)

(* a packet's bytes with their `last` markers: only the final byte can carry one *)
Fixpoint flag (l : list N) (e : bool) : list (N * bool) :=
  match l with
  | [] => []
  | x :: t => match t with [] => [(x, e)] | _ => (x, false) :: flag t e end
  end.

Lemma flag_cons2 : forall x y t e, flag (x :: y :: t) e = (x, false) :: flag (y :: t) e.
Proof. reflexivity. Qed.

Lemma flag_app1 : forall l x e, flag (l ++ [x]) e = flag l false ++ [(x, e)].
Proof.
  induction l as [|a t IH]; intros x e; [reflexivity|].
  destruct t as [|b t'].
  - reflexivity.
  - change ((a :: b :: t') ++ [x]) with (a :: (b :: t') ++ [x]).
    assert (E : exists c u, (b :: t') ++ [x] = c :: u) by (eexists; eexists; reflexivity).
    destruct E as [c [u E]]. rewrite E. rewrite flag_cons2. rewrite <- E. rewrite IH.
    rewrite flag_cons2. reflexivity.
Qed.

Lemma map_fst_flag : forall l e, map fst (flag l e) = l.
Proof.
  induction l as [|a t IH]; intro e; [reflexivity|].
  destruct t as [|b t']; [reflexivity|]. rewrite flag_cons2. cbn [map fst]. rewrite IH. reflexivity.
Qed.

Lemma length_flag : forall l e, length (flag l e) = length l.
Proof. intros. rewrite <- (map_fst_flag l e) at 2. rewrite map_length. reflexivity. Qed.

Lemma existsb_snd_flag : forall l e, existsb snd (flag l e) = e && negb (match l with [] => true | _ => false end).
Proof.
  induction l as [|a t IH]; intro e; [destruct e; reflexivity|].
  destruct t as [|b t'].
  - cbn. destruct e; reflexivity.
  - rewrite flag_cons2. cbn [existsb snd]. rewrite IH. cbn. reflexivity.
Qed.

Lemma last_only_flag : forall l e, last_only_at_end (flag l e) = true.
Proof.
  induction l as [|a t IH]; intro e; [reflexivity|].
  destruct t as [|b t']; [reflexivity|]. rewrite flag_cons2.
  specialize (IH e). destruct (flag (b :: t') e) as [|p l] eqn:F.
  - destruct t'; discriminate.
  - change (last_only_at_end ((a, false) :: p :: l)) with (negb false && last_only_at_end (p :: l)).
    rewrite IH. reflexivity.
Qed.

Lemma ends_with_last_flag : forall l e, l <> [] -> ends_with_last (flag l e) = e.
Proof.
  induction l as [|a t IH]; intros e H; [contradiction|].
  destruct t as [|b t']; [reflexivity|]. rewrite flag_cons2. unfold ends_with_last in *.
  specialize (IH e ltac:(discriminate)).
  destruct (flag (b :: t') e) as [|p l] eqn:F; [destruct t'; discriminate|].
  change (last ((a, false) :: p :: l) (0%N, false)) with (last (p :: l) (0%N, false)). exact IH.
Qed.

Lemma firstn_app_exact : forall (A : Type) (l r : list A), firstn (length l) (l ++ r) = l.
Proof. intros. rewrite firstn_app, Nat.sub_diag, firstn_all. cbn. apply app_nil_r. Qed.

Lemma skipn_app_exact : forall (A : Type) (l r : list A), skipn (length l) (l ++ r) = r.
Proof. intros. rewrite skipn_app, Nat.sub_diag, skipn_all. reflexivity. Qed.

Lemma bytes_eqb_refl : forall l, bytes_eqb l l = true.
Proof. induction l; cbn; [reflexivity|]. rewrite N.eqb_refl. exact IHl. Qed.

Lemma firstn_upd_snoc : forall (m : list N) n v, (n < length m)%nat ->
  firstn (S n) (upd n v m) = firstn n m ++ [v].
Proof.
  induction m as [|x t IH]; intros n v H; cbn in H; [lia|].
  destruct n as [|n]; [reflexivity|].
  change (x :: firstn (S n) (upd n v t) = x :: (firstn n t ++ [v])). f_equal. apply IH. lia.
Qed.

Lemma firstn_upd_same : forall (m : list N) n k v, (k <= n)%nat -> firstn k (upd n v m) = firstn k m.
Proof.
  induction m as [|x t IH]; intros n k v H; [destruct n, k; reflexivity|].
  destruct k as [|k]; [reflexivity|]. destruct n as [|n]; [lia|].
  change (x :: firstn k (upd n v t) = x :: firstn k t). f_equal. apply IH. lia.
Qed.

Lemma firstn_snoc_nth : forall (m : list N) n, (n < length m)%nat ->
  firstn n m ++ [nth n m 0%N] = firstn (S n) m.
Proof.
  induction m as [|x t IH]; intros n H; cbn in H; [lia|].
  destruct n as [|n]; [reflexivity|].
  change (x :: (firstn n t ++ [nth n t 0%N]) = x :: firstn (S n) t). f_equal. apply IH. lia.
Qed.

Lemma firstn_firstn_le : forall (A : Type) (l : list A) a b, (a <= b)%nat -> firstn a (firstn b l) = firstn a l.
Proof. intros. rewrite firstn_firstn. rewrite Nat.min_l by assumption. reflexivity. Qed.

(* ------------------------------------------------------------------------------------------ *)
(* 2. the model refines the specification monitor                                              *)
Definition content (b : ix_buf) : list N := firstn (b_fill b) (b_mem b).

Lemma sp_ext : forall a1 a2 a3 a4 a5 a6 a7 a8 a9 b1 b2 b3 b4 b5 b6 b7 b8 b9,
  a1 = b1 -> a2 = b2 -> a3 = b3 -> a4 = b4 -> a5 = b5 -> a6 = b6 -> a7 = b7 -> a8 = b8 -> a9 = b9 ->
  Build_sp_state a1 a2 a3 a4 a5 a6 a7 a8 a9 = Build_sp_state b1 b2 b3 b4 b5 b6 b7 b8 b9.
Proof. intros; subst; reflexivity. Qed.

Section Refine.
  Variable mps : nat.
  Variable ep : N.
  Hypothesis Hmps : (1 <= mps)%nat.

  Definition wfm (st : ix_state) : Prop :=
    length (b_mem (x_w st)) = mps /\ length (b_mem (x_r st)) = mps /\
    (b_fill (x_w st) <= mps)%nat /\ (b_fill (x_r st) <= mps)%nat /\
    (b_end (x_w st) = true -> (1 <= b_fill (x_w st))%nat).

  (* ghost bits: acc = the host has already taken the packet in the read buffer; rt = that packet has timed
     out and is to be sent again; got = the host received its latest transmission *)
  (* fl = flush has been asserted since the previous packet completed.  A packet that is not a retry is full, or
     empty (the owed ZLP), or ends the transfer, or was queued by a flush *)
  Definition shape_ok (b : ix_buf) (rt fl : bool) : Prop :=
    rt = false -> (b_fill b =? mps)%nat || (b_fill b =? 0)%nat || b_end b || fl = true.

  Definition ghost (st : ix_state) (acc rt got fl : bool) : Prop :=
    match x_fsm st with
    | WFD => acc = true /\ b_fill (x_r st) = 0%nat /\ w_ready mps st = true /\ x_first st = false
    | WTS => (acc = true -> rt = true) /\ x_first st = false /\ shape_ok (x_r st) rt fl
    | SEND => (acc = true -> rt = true) /\ (x_pos st < b_fill (x_r st))%nat /\
              x_first st = (x_pos st =? 0)%nat /\ b_rd (x_r st) = nth (x_pos st) (b_mem (x_r st)) 0%N /\
              shape_ok (x_r st) rt fl
    | WFA => (got = true -> acc = true) /\ x_first st = false
    end.

  Definition abs (st : ix_state) (acc rt got : bool) (lin lhost : list N) (fl : bool) : sp_state :=
    let r := x_r st in let w := x_w st in
    {| s_pend := (if acc then [] else flag (content r) (b_end r)) ++ flag (content w) (b_end w);
       s_h := xorb (x_pid st) acc;
       s_cur := match x_fsm st with SEND => Some (firstn (x_pos st) (content r)) | _ => None end;
       s_wait := match x_fsm st with WFA => Some (b2n (x_pid st), content r, got) | _ => None end;
       s_retry := match x_fsm st with
                  | WTS | SEND => if rt then Some (b2n (x_pid st), content r) else None
                  | _ => None
                  end;
       s_zlp := if acc then (b_fill r =? mps)%nat && b_end r else (b_fill r =? 0)%nat;
       s_in := lin; s_host := lhost; s_fl := fl |}.

  (* what the stream hands over in this cycle *)
  Definition bg_new (st : ix_state) (i : ix_in) : list (N * bool) :=
    if w_en mps st i then [(i_payload i, i_last i)] else [].

  Lemma bg_write : forall st i, wfm st ->
    let w1 := w_bg mps st i in
    flag (content w1) (b_end w1) = flag (content (x_w st)) (b_end (x_w st)) ++ bg_new st i /\
    length (b_mem w1) = mps /\ (b_fill w1 <= mps)%nat /\ (b_end w1 = true -> (1 <= b_fill w1)%nat) /\
    (w_en mps st i = true -> (1 <= b_fill w1)%nat) /\
    (w_en mps st i = false -> b_fill w1 = b_fill (x_w st) /\ b_end w1 = b_end (x_w st)).
  Proof.
    intros st i (Hlw & Hlr & Hfw & Hfr & Hew). cbv zeta.
    unfold w_bg, bg_new, content. cbn [b_fill b_end b_mem].
    destruct (w_en mps st i) eqn:E.
    - unfold w_en, w_ready in E.
      destruct (i_valid i); [|discriminate]. cbn [andb] in E.
      destruct (b_fill (x_w st) =? mps)%nat eqn:E1; [discriminate|].
      destruct (b_end (x_w st)) eqn:E2; [discriminate|]. apply Nat.eqb_neq in E1.
      rewrite Nat.add_1_r. rewrite firstn_upd_snoc by lia. rewrite flag_app1.
      rewrite upd_length. cbn [orb andb]. rewrite andb_true_r.
      repeat split; try lia.
    - rewrite andb_false_r, orb_false_r, app_nil_r. repeat split; try assumption; try lia.
  Qed.

  (* the host side of a completing packet *)
  Lemma complete_abs : forall (X : list (N * bool)) (pid acc rt rcv e fl : bool) (Rb : list N)
      (cur : option (list N)) (wt : option (N * list N * bool)) (lin lhost : list N),
    (length Rb <= mps)%nat -> (acc = true -> rt = true) ->
    (rt = false -> (length Rb =? mps)%nat || (length Rb =? 0)%nat || e || fl = true) ->
    let s := {| s_pend := (if acc then [] else flag Rb e) ++ X; s_h := xorb pid acc; s_cur := cur; s_wait := wt;
                s_retry := if rt then Some (b2n pid, Rb) else None;
                s_zlp := if acc then (length Rb =? mps)%nat && e else (length Rb =? 0)%nat;
                s_in := lin; s_host := lhost; s_fl := fl |} in
    let acc' := acc || rcv in
    complete mps s (if rt then Some (b2n pid, Rb) else None) (b2n pid) Rb rcv =
    ({| s_pend := (if acc' then [] else flag Rb e) ++ X; s_h := xorb pid acc'; s_cur := None;
        s_wait := Some (b2n pid, Rb, rcv); s_retry := None;
        s_zlp := if acc' then (length Rb =? mps)%nat && e else (length Rb =? 0)%nat;
        s_in := lin; s_host := if rcv && negb acc then lhost ++ Rb else lhost; s_fl := false |}, true).
  Proof.
    intros X pid acc rt rcv e fl Rb cur wt lin lhost HL Hrt Hsh. cbv zeta.
    unfold complete. cbn [s_pend s_h s_zlp s_in s_host s_fl].
    assert (Epid : forall a b : bool, (b2n a =? b2n b) = Bool.eqb a b) by (intros [] []; reflexivity).
    rewrite Epid.
    assert (HLb : (length Rb <=? mps)%nat = true) by (apply Nat.leb_le; exact HL).
    rewrite HLb.
    destruct acc.
    - (* already taken: whatever arrives now is a duplicate *)
      rewrite (Hrt eq_refl). rewrite N.eqb_refl, bytes_eqb_refl.
      replace (Bool.eqb pid (xorb pid true)) with false by (destruct pid; reflexivity).
      rewrite andb_false_r. cbn [orb andb negb xorb]. rewrite ?andb_false_r. reflexivity.
    - rewrite xorb_false_r. rewrite eqb_reflx. cbn [orb]. rewrite andb_true_r.
      assert (F1 : firstn (length Rb) (flag Rb e ++ X) = flag Rb e)
        by (rewrite <- (length_flag Rb e) at 1; apply firstn_app_exact).
      assert (S1 : skipn (length Rb) (flag Rb e ++ X) = X)
        by (rewrite <- (length_flag Rb e) at 1; apply skipn_app_exact).
      rewrite F1, S1.
      assert (Vp : (match (if rt then Some (b2n pid, Rb) else None) with
                    | Some (p0, bs0) => (b2n pid =? p0) && bytes_eqb Rb bs0
                    | None => true end) = true)
        by (destruct rt; [rewrite N.eqb_refl, bytes_eqb_refl|]; reflexivity).
      assert (Vs : (match (if rt then Some (b2n pid, Rb) else None) with
                    | Some _ => true
                    | None => (length Rb =? mps)%nat ||
                              (if (length Rb =? 0)%nat then (length Rb =? 0)%nat else ends_with_last (flag Rb e) || fl)
                    end) = true).
      { destruct rt; [reflexivity|]. specialize (Hsh eq_refl).
        destruct (length Rb =? mps)%nat; [reflexivity|]. cbn [orb] in *.
        destruct (length Rb =? 0)%nat eqn:E0; [reflexivity|].
        rewrite ends_with_last_flag; [exact Hsh|]. intros ->. discriminate. }
      rewrite Vp, Vs.
      destruct rcv.
      + cbn [negb andb orb].
        rewrite map_fst_flag, bytes_eqb_refl, last_only_flag.
        rewrite app_length, length_flag.
        assert (H1 : (length Rb <=? length Rb + length X)%nat = true) by (apply Nat.leb_le; lia).
        rewrite H1.
        assert (Hz : negb (length Rb =? 0)%nat || (length Rb =? 0)%nat = true) by (destruct (length Rb =? 0)%nat; reflexivity).
        rewrite Hz. cbn [andb]. f_equal. apply sp_ext; try reflexivity.
        destruct Rb as [|b0 t0].
        * cbn [length]. destruct mps; [lia|]. reflexivity.
        * rewrite ends_with_last_flag by discriminate. reflexivity.
      + cbn [negb andb orb]. rewrite xorb_false_r. reflexivity.
  Qed.

  Notation nxt := (ix_next true true mps ep).

  Lemma pend_new : forall (b : bool) (P : list (N * bool)) x, (if b then P ++ [x] else P) = P ++ (if b then [x] else []).
  Proof. intros [] P x; [reflexivity | rewrite app_nil_r; reflexivity]. Qed.

  Lemma env_facts : forall s i, c11_env ep s i = true ->
    clr ep i = false /\ (i_ack i = true -> i_newtok i = false) /\
    (i_ack i = true -> exists p bs, s_wait s = Some (p, bs, true)).
  Proof.
    intros s i H. unfold c11_env in H. change (s_clr ep i) with (clr ep i) in H.
    destruct (clr ep i); [discriminate|]. cbn [negb andb] in H.
    destruct (i_ack i); cbn [negb andb orb] in H.
    - destruct (i_newtok i); [discriminate|]. cbn in H.
      destruct (s_wait s) as [[[p bs] g]|]; [|discriminate]. subst g.
      repeat split; try reflexivity. intros _. eauto.
    - repeat split; intro; discriminate.
  Qed.

  Lemma ready_facts : forall st, wfm st -> w_ready mps st = true ->
    (b_fill (x_w st) < mps)%nat /\ b_end (x_w st) = false.
  Proof.
    intros st (Hlw & Hlr & Hfw & Hfr & Hew) H. unfold w_ready in H.
    destruct (b_fill (x_w st) =? mps)%nat eqn:E; [discriminate|]. apply Nat.eqb_neq in E.
    destruct (b_end (x_w st)); [discriminate|]. split; [lia | reflexivity].
  Qed.

  Lemma content_length : forall b, (b_fill b <= length (b_mem b))%nat -> length (content b) = b_fill b.
  Proof. intros b H. unfold content. rewrite firstn_length. lia. Qed.

  Lemma not_due : forall st, wfm st -> w_ready mps st = true ->
    packet_due mps (flag (content (x_w st)) (b_end (x_w st))) = false.
  Proof.
    intros st Hw H. destruct (ready_facts st Hw H) as [H1 H2]. destruct Hw as (Hlw & _).
    unfold packet_due. rewrite length_flag, content_length by lia. rewrite H2, existsb_snd_flag.
    cbn [andb orb]. rewrite orb_false_r. apply Nat.leb_gt. exact H1.
  Qed.

  Lemma content_r_bg : forall fa st i, content (r_bg fa mps st i) = content (x_r st).
  Proof. reflexivity. Qed.
  Lemma content_clr_end : forall b, content (clr_end b) = content b.
  Proof. reflexivity. Qed.
  Lemma content_set_fill0 : forall b, content (set_fill b 0) = [].
  Proof. reflexivity. Qed.
  Lemma content_fill0 : forall b, b_fill b = 0%nat -> content b = [].
  Proof. intros b H. unfold content. rewrite H. reflexivity. Qed.

  Lemma add_stream_mk : forall b i P h c w r z lin lh f,
    add_stream b i (Build_sp_state P h c w r z lin lh f) =
    Build_sp_state (P ++ if b then [(i_payload i, i_last i)] else []) h c w r z
                   (if b then lin ++ [i_payload i] else lin) lh f.
  Proof. intros [] *; unfold add_stream; cbn; rewrite ?app_nil_r; reflexivity. Qed.

  (* V6: the module is ready whenever the pending stream cannot even fill its write buffer *)
  Lemma rdy_ok : forall st acc rt got lin lhost fl i, wfm st ->
    ready_ok mps (abs st acc rt got lin lhost fl) (ix_outf mps ep st i) = true.
  Proof.
    intros st acc rt got lin lhost fl i (Hlw & Hlr & Hfw & Hfr & Hew).
    unfold ready_ok, abs, ix_outf. cbn [s_pend o_ready].
    destruct (w_ready mps st) eqn:Hr; [apply orb_true_r|]. rewrite orb_false_r.
    unfold packet_due. rewrite app_length, existsb_app, !length_flag, (content_length (x_w st)) by lia.
    unfold w_ready in Hr.
    destruct (b_fill (x_w st) =? mps)%nat eqn:E.
    - apply Nat.eqb_eq in E. apply orb_true_iff. left. apply Nat.leb_le. lia.
    - cbn [negb andb] in Hr. apply negb_false_iff in Hr. rewrite Hr, (existsb_snd_flag (content (x_w st)) true).
      pose proof (Hew Hr) as H1.
      assert (Hc : content (x_w st) <> []).
      { intro Hc. apply (f_equal (@length N)) in Hc. rewrite content_length in Hc by lia. cbn in Hc. lia. }
      destruct (content (x_w st)); [contradiction|]. cbn [andb negb]. rewrite !orb_true_r. reflexivity.
  Qed.

  Definition lin_new (st : ix_state) (i : ix_in) (lin : list N) : list N :=
    if w_en mps st i then lin ++ [i_payload i] else lin.

  Lemma shape_mono : forall b rt fl f, shape_ok b rt fl -> shape_ok b rt (fl || f).
  Proof. intros b rt fl f H Hr. specialize (H Hr). rewrite orb_assoc, H. reflexivity. Qed.

  Lemma shape_r_bg : forall st i rt fl, shape_ok (x_r st) rt fl -> shape_ok (r_bg true mps st i) rt fl.
  Proof. intros st i rt fl H. exact H. Qed.

  (* a buffer that is swapped in is full, or ended, or was queued by a flush *)
  Lemma swap_shape : forall st i rt fl, wfm st -> negb (w_ready mps st) || packet_ready mps st i = true ->
    shape_ok (w_bg mps st i) rt (fl || i_flush i).
  Proof.
    intros st i rt fl Hw H _. destruct (bg_write st i Hw) as (B1 & B2 & B3 & B4 & B5 & B6).
    pose proof Hw as (Hlw & Hlr & Hfw & Hfr & Hew).
    destruct (w_ready mps st) eqn:Hrdy.
    - cbn [negb orb] in H. unfold packet_ready, packet_completing, packet_to_flush in H.
      destruct (i_flush i); [rewrite !orb_true_r; reflexivity|]. cbn [andb] in H. rewrite orb_false_r in H.
      apply andb_true_iff in H as [Hv Hc].
      unfold w_bg, w_en. rewrite Hv, Hrdy. cbn [andb b_fill b_end].
      apply orb_true_iff in Hc as [Hl|Hn].
      + rewrite Hl. rewrite !orb_true_r. reflexivity.
      + rewrite Hn. reflexivity.
    - assert (Ew : w_en mps st i = false) by (unfold w_en; rewrite Hrdy; apply andb_false_r).
      destruct (B6 Ew) as [E1 E2]. rewrite E1, E2.
      unfold w_ready in Hrdy. destruct (b_fill (x_w st) =? mps)%nat; [reflexivity|].
      cbn [negb andb] in Hrdy. apply negb_false_iff in Hrdy. rewrite Hrdy. rewrite !orb_true_r. reflexivity.
  Qed.

  Lemma step_WFD : forall st acc rt got lin lhost fl i, x_fsm st = WFD -> wfm st -> ghost st acc rt got fl ->
    c11_env ep (abs st acc rt got lin lhost fl) i = true ->
    exists acc' rt' got' lin' lhost' fl',
      c11_mon mps ep (abs st acc rt got lin lhost fl) i (ix_outf mps ep st i)
      = Some (abs (nxt st i) acc' rt' got' lin' lhost' fl', true)
      /\ wfm (nxt st i) /\ ghost (nxt st i) acc' rt' got' fl'.
  Proof.
    intros st acc rt got lin lhost fl i Hf Hw Hg He.
    destruct (bg_write st i Hw) as (B1 & B2 & B3 & B4 & B5 & B6).
    unfold ghost in Hg. rewrite Hf in Hg. destruct Hg as (-> & Hr0 & Hrdy & Hfirst).
    destruct (env_facts _ _ He) as (Hclr & _ & _).
    pose proof (not_due st Hw Hrdy) as Hnd.
    pose proof Hw as (Hlw & Hlr & Hfw & Hfr & Hew).
    assert (Ea : abs st true rt got lin lhost fl =
      {| s_pend := flag (content (x_w st)) (b_end (x_w st)); s_h := xorb (x_pid st) true; s_cur := None;
         s_wait := None; s_retry := None; s_zlp := false; s_in := lin; s_host := lhost; s_fl := fl |}).
    { unfold abs. rewrite Hf, Hr0. apply sp_ext; try reflexivity.
      destruct mps; [lia|]. reflexivity. }
    unfold c11_mon. rewrite He. rewrite (rdy_ok st _ rt got lin lhost fl i Hw). rewrite Ea. cbn [negb].
    assert (Et : tx_phase mps ep
        {| s_pend := flag (content (x_w st)) (b_end (x_w st)); s_h := xorb (x_pid st) true; s_cur := None;
           s_wait := None; s_retry := None; s_zlp := false; s_in := lin; s_host := lhost; s_fl := fl |}
        (hs_phase {| s_pend := flag (content (x_w st)) (b_end (x_w st)); s_h := xorb (x_pid st) true; s_cur := None;
           s_wait := None; s_retry := None; s_zlp := false; s_in := lin; s_host := lhost; s_fl := fl |} i) i (ix_outf mps ep st i)
      = ({| s_pend := flag (content (x_w st)) (b_end (x_w st)); s_h := xorb (x_pid st) true; s_cur := None;
           s_wait := None; s_retry := None; s_zlp := false; s_in := lin; s_host := lhost; s_fl := fl || i_flush i |}, true)).
    { unfold tx_phase, hs_phase, ix_outf. rewrite Hf.
      cbn [s_pend s_h s_cur s_wait s_retry s_zlp s_in s_host o_ready o_valid o_first o_last o_nak o_pid o_payload].
      change (s_tok ep i) with (tok ep i). rewrite Hnd.
      destruct (tok ep i), (i_ack i || i_newtok i); reflexivity. }
    rewrite Et. clear Et.
    replace (o_ready (ix_outf mps ep st i)) with (w_ready mps st) by (unfold ix_outf; reflexivity).
    change (i_valid i && w_ready mps st) with (w_en mps st i).
    rewrite add_stream_mk.
    exists (negb (packet_ready mps st i)), false, false, (lin_new st i lin), lhost, (fl || i_flush i).
    unfold ix_next. rewrite Hf, Hclr. cbn [andb].
    destruct (packet_ready mps st i) eqn:Hpr; cbn [negb].
    - (* swap *)
      assert (Hf1 : (1 <= b_fill (w_bg mps st i))%nat).
      { destruct (w_en mps st i) eqn:Ew; [apply B5; reflexivity|].
        destruct (B6 eq_refl) as [E1 E2]. rewrite E1.
        unfold packet_ready, packet_completing, packet_to_flush in Hpr.
        unfold w_en in Ew. rewrite Hrdy, andb_true_r in Ew. rewrite Ew in Hpr. cbn [andb orb] in Hpr.
        destruct (b_fill (x_w st) =? 0)%nat eqn:E0; [rewrite andb_false_r in Hpr; discriminate|].
        apply Nat.eqb_neq in E0. lia. }
      split; [|split].
      + f_equal. f_equal. unfold abs.
        cbn [x_fsm x_pid x_w x_r x_pos].
        rewrite content_clr_end, content_r_bg, (content_fill0 _ Hr0). cbn [flag]. rewrite app_nil_r.
        apply sp_ext; try reflexivity.
        * symmetry. exact B1.
        * destruct (x_pid st); reflexivity.
        * destruct (b_fill (w_bg mps st i)); [lia | reflexivity].
      + unfold wfm. cbn [x_w x_r clr_end r_bg b_fill b_end b_mem]. repeat split; try assumption; try lia.
      + unfold ghost. cbn [x_fsm x_first x_r]. split; [discriminate | split; [exact Hfirst|]].
        apply swap_shape; [exact Hw | rewrite Hpr; apply orb_true_r].
    - split; [|split].
      + f_equal. f_equal. unfold abs.
        cbn [x_fsm x_pid x_w x_r x_pos].
        apply sp_ext; try reflexivity.
        * symmetry. exact B1.
        * change (b_fill (r_bg true mps st i)) with (b_fill (x_r st)). rewrite Hr0.
          destruct mps; [lia | reflexivity].
      + unfold wfm. cbn [x_w x_r r_bg b_fill b_end b_mem]. repeat split; assumption.
      + unfold ghost. cbn [x_fsm x_r x_w x_first r_bg b_fill]. repeat split; try assumption.
        unfold packet_ready, packet_completing, packet_to_flush in Hpr.
        unfold w_ready. cbn [x_w].
        destruct (w_en mps st i) eqn:Ew.
        * unfold w_en in Ew. apply andb_true_iff in Ew as [Ev _]. rewrite Ev in Hpr. cbn [andb] in Hpr.
          apply orb_false_iff in Hpr as [Hpr _]. apply orb_false_iff in Hpr as [Hl Hn].
          unfold w_bg. unfold w_en. rewrite Ev, Hrdy. cbn [andb b_fill b_end]. rewrite Hl.
          destruct (ready_facts st Hw Hrdy) as [_ He2].
          rewrite He2. cbn [andb orb negb]. rewrite andb_true_r. rewrite Hn. reflexivity.
        * destruct (B6 eq_refl) as [E1 E2]. rewrite E1, E2. exact Hrdy.
  Qed.

  Lemma rd_mem_0 : forall m, rd_mem mps m 0 = nth 0 m 0%N.
  Proof.
    intro m. unfold rd_mem. rewrite N.mod_0_l by (apply N.pow_nonzero; discriminate).
    cbn [N.to_nat]. destruct mps; [lia | reflexivity].
  Qed.

  Lemma step_WTS : forall st acc rt got lin lhost fl i, x_fsm st = WTS -> wfm st -> ghost st acc rt got fl ->
    c11_env ep (abs st acc rt got lin lhost fl) i = true ->
    exists acc' rt' got' lin' lhost' fl',
      c11_mon mps ep (abs st acc rt got lin lhost fl) i (ix_outf mps ep st i)
      = Some (abs (nxt st i) acc' rt' got' lin' lhost' fl', true)
      /\ wfm (nxt st i) /\ ghost (nxt st i) acc' rt' got' fl'.
  Proof.
    intros st acc rt got lin lhost fl i Hf Hw Hg He.
    destruct (bg_write st i Hw) as (B1 & B2 & B3 & B4 & B5 & B6).
    unfold ghost in Hg. rewrite Hf in Hg. destruct Hg as (Hrt & Hfirst & Hsh).
    destruct (env_facts _ _ He) as (Hclr & _ & _).
    pose proof Hw as (Hlw & Hlr & Hfw & Hfr & Hew).
    pose proof (content_length (x_r st) ltac:(lia)) as HLR.
    set (A := (if acc then [] else flag (content (x_r st)) (b_end (x_r st)))) in *.
    set (Wf := flag (content (x_w st)) (b_end (x_w st))) in *.
    set (RT := if rt then Some (b2n (x_pid st), content (x_r st)) else None) in *.
    set (Z := if acc then (length (content (x_r st)) =? mps)%nat && b_end (x_r st)
              else (length (content (x_r st)) =? 0)%nat) in *.
    assert (Ea : abs st acc rt got lin lhost fl =
      {| s_pend := A ++ Wf; s_h := xorb (x_pid st) acc; s_cur := None;
         s_wait := None; s_retry := RT; s_zlp := Z; s_in := lin; s_host := lhost; s_fl := fl |}).
    { unfold abs. rewrite Hf. subst Z. rewrite HLR. reflexivity. }
    assert (HS : rt = false -> (length (content (x_r st)) =? mps)%nat || (length (content (x_r st)) =? 0)%nat
                               || b_end (x_r st) || (fl || i_flush i) = true)
      by (intro Hr0; rewrite HLR; exact (shape_mono _ _ _ (i_flush i) Hsh Hr0)).
    unfold c11_mon. rewrite He. rewrite (rdy_ok st _ rt got lin lhost fl i Hw). rewrite Ea. cbn [negb].
    assert (Eh : hs_phase {| s_pend := A ++ Wf; s_h := xorb (x_pid st) acc; s_cur := None;
         s_wait := None; s_retry := RT; s_zlp := Z; s_in := lin; s_host := lhost; s_fl := fl |} i =
         {| s_pend := A ++ Wf; s_h := xorb (x_pid st) acc; s_cur := None;
         s_wait := None; s_retry := RT; s_zlp := Z; s_in := lin; s_host := lhost; s_fl := fl || i_flush i |}).
    { unfold hs_phase. cbn [s_pend s_h s_cur s_wait s_retry s_zlp s_in s_host].
      destruct (i_ack i || i_newtok i); reflexivity. }
    rewrite Eh. clear Eh.
    replace (o_ready (ix_outf mps ep st i)) with (w_ready mps st) by (unfold ix_outf; reflexivity).
    change (i_valid i && w_ready mps st) with (w_en mps st i).
    unfold ix_next. rewrite Hf, Hclr.
    unfold tx_phase, ix_outf, zlp_now. rewrite Hf, Hclr.
    cbn [s_pend s_h s_cur s_wait s_retry s_zlp s_in s_host o_ready o_valid o_first o_last o_nak o_pid o_payload negb andb].
    change (s_tok ep i) with (tok ep i).
    destruct (tok ep i) eqn:Etok; cbn [andb].
    - destruct (b_fill (x_r st) =? 0)%nat eqn:E0; cbn [negb].
      + (* zero-length packet *)
        apply Nat.eqb_eq in E0.
        assert (Ec : content (x_r st) = []) by (apply content_fill0; exact E0).
        pose proof (complete_abs Wf (x_pid st) acc rt (i_rcv i) (b_end (x_r st)) (fl || i_flush i) (content (x_r st)) None None lin lhost
                      ltac:(rewrite HLR; lia) Hrt HS) as HC.
        cbv zeta in HC. fold A RT Z in HC. rewrite <- Ec. rewrite HC. clear HC.
        rewrite Hfirst. cbn [andb negb]. rewrite add_stream_mk.
        exists (acc || i_rcv i), false, (i_rcv i), (lin_new st i lin),
               (if i_rcv i && negb acc then lhost ++ content (x_r st) else lhost), false.
        split; [|split].
        * f_equal. f_equal. unfold abs. cbn [x_fsm x_pid x_w x_r x_pos].
          rewrite content_clr_end, content_r_bg, Ec.
          cbn [clr_end b_fill b_end r_bg]. rewrite E0.
          apply sp_ext; try reflexivity.
          -- rewrite <- app_assoc. f_equal. destruct (acc || i_rcv i); symmetry; exact B1.
          -- cbn [length]. destruct mps; [lia|]. destruct (acc || i_rcv i); reflexivity.
        * unfold wfm. cbn [x_w x_r clr_end r_bg b_fill b_end b_mem]. repeat split; assumption.
        * unfold ghost. cbn [x_fsm x_first]. split; [|reflexivity]. intros ->. apply orb_true_r.
      + (* data packet: first byte from the next cycle on *)
        apply Nat.eqb_neq in E0. unfold set_cur.
        cbn [s_pend s_h s_cur s_wait s_retry s_zlp s_in s_host]. rewrite add_stream_mk.
        exists acc, rt, false, (lin_new st i lin), lhost, (fl || i_flush i).
        split; [|split].
        * f_equal. f_equal. unfold abs. cbn [x_fsm x_pid x_w x_r x_pos]. rewrite content_r_bg.
          cbn [firstn]. fold A. change (b_fill (r_bg true mps st i)) with (b_fill (x_r st)).
          change (b_end (r_bg true mps st i)) with (b_end (x_r st)).
          apply sp_ext; try reflexivity.
          -- rewrite <- app_assoc. f_equal. symmetry. exact B1.
          -- subst Z. rewrite HLR. reflexivity.
        * unfold wfm. cbn [x_w x_r r_bg b_fill b_end b_mem]. repeat split; assumption.
        * unfold ghost. cbn [x_fsm x_first x_pos x_r r_bg b_fill b_rd b_mem r_addr].
          unfold r_addr. rewrite Hf. repeat split; try assumption; try lia;
            try apply rd_mem_0; try (apply shape_mono; exact Hsh).
    - (* no token for us *)
      cbn [negb andb]. rewrite add_stream_mk.
      exists acc, rt, false, (lin_new st i lin), lhost, (fl || i_flush i).
      split; [|split].
      + f_equal. f_equal. unfold abs. cbn [x_fsm x_pid x_w x_r x_pos]. rewrite content_r_bg. fold A.
        change (b_fill (r_bg true mps st i)) with (b_fill (x_r st)).
        change (b_end (r_bg true mps st i)) with (b_end (x_r st)).
        apply sp_ext; try reflexivity.
        * rewrite <- app_assoc. f_equal. symmetry. exact B1.
        * subst Z. rewrite HLR. reflexivity.
      + unfold wfm. cbn [x_w x_r r_bg b_fill b_end b_mem]. repeat split; assumption.
      + unfold ghost. cbn [x_fsm x_first x_r]. split; [assumption | split; [assumption|]].
        apply shape_mono; exact Hsh.
  Qed.

  Lemma rd_mem_lt : forall m a, (a < mps)%nat -> rd_mem mps m a = nth a m 0%N.
  Proof.
    intros m a H. unfold rd_mem.
    assert (E : N.of_nat a mod 2 ^ ix_aw mps = N.of_nat a).
    { apply N.mod_small. unfold ix_aw. pose proof (N.size_gt (N.of_nat mps - 1)). lia. }
    rewrite E, Nat2N.id. apply Nat.ltb_lt in H. rewrite H. reflexivity.
  Qed.

  Lemma firstn_nil_iff : forall (l : list N) n, (n < length l)%nat ->
    match firstn n l with [] => true | _ => false end = (n =? 0)%nat.
  Proof. intros l n H. destruct n; [reflexivity|]. destruct l; [cbn in H; lia | reflexivity]. Qed.

  Lemma step_SEND : forall st acc rt got lin lhost fl i, x_fsm st = SEND -> wfm st -> ghost st acc rt got fl ->
    c11_env ep (abs st acc rt got lin lhost fl) i = true ->
    exists acc' rt' got' lin' lhost' fl',
      c11_mon mps ep (abs st acc rt got lin lhost fl) i (ix_outf mps ep st i)
      = Some (abs (nxt st i) acc' rt' got' lin' lhost' fl', true)
      /\ wfm (nxt st i) /\ ghost (nxt st i) acc' rt' got' fl'.
  Proof.
    intros st acc rt got lin lhost fl i Hf Hw Hg He.
    destruct (bg_write st i Hw) as (B1 & B2 & B3 & B4 & B5 & B6).
    unfold ghost in Hg. rewrite Hf in Hg. destruct Hg as (Hrt & Hpos & Hfirst & Hrd & Hsh).
    destruct (env_facts _ _ He) as (Hclr & _ & _).
    pose proof Hw as (Hlw & Hlr & Hfw & Hfr & Hew).
    pose proof (content_length (x_r st) ltac:(lia)) as HLR.
    set (A := (if acc then [] else flag (content (x_r st)) (b_end (x_r st)))) in *.
    set (Wf := flag (content (x_w st)) (b_end (x_w st))) in *.
    set (RT := if rt then Some (b2n (x_pid st), content (x_r st)) else None) in *.
    set (Z := if acc then (length (content (x_r st)) =? mps)%nat && b_end (x_r st)
              else (length (content (x_r st)) =? 0)%nat) in *.
    set (BS := firstn (x_pos st) (content (x_r st))) in *.
    assert (Ea : abs st acc rt got lin lhost fl =
      {| s_pend := A ++ Wf; s_h := xorb (x_pid st) acc; s_cur := Some BS;
         s_wait := None; s_retry := RT; s_zlp := Z; s_in := lin; s_host := lhost; s_fl := fl |}).
    { unfold abs. rewrite Hf. subst Z. rewrite HLR. reflexivity. }
    assert (Ebs : BS ++ [b_rd (x_r st)] = firstn (S (x_pos st)) (content (x_r st))).
    { subst BS. unfold content. rewrite !firstn_firstn_le by lia. rewrite Hrd. apply firstn_snoc_nth. lia. }
    assert (Enil : match BS with [] => true | _ => false end = (x_pos st =? 0)%nat)
      by (apply firstn_nil_iff; lia).
    assert (HS : rt = false -> (length (content (x_r st)) =? mps)%nat || (length (content (x_r st)) =? 0)%nat
                               || b_end (x_r st) || (fl || i_flush i) = true)
      by (intro Hr0; rewrite HLR; exact (shape_mono _ _ _ (i_flush i) Hsh Hr0)).
    unfold c11_mon. rewrite He. rewrite (rdy_ok st _ rt got lin lhost fl i Hw). rewrite Ea. cbn [negb].
    assert (Eh : hs_phase {| s_pend := A ++ Wf; s_h := xorb (x_pid st) acc; s_cur := Some BS;
         s_wait := None; s_retry := RT; s_zlp := Z; s_in := lin; s_host := lhost; s_fl := fl |} i =
         {| s_pend := A ++ Wf; s_h := xorb (x_pid st) acc; s_cur := Some BS;
         s_wait := None; s_retry := RT; s_zlp := Z; s_in := lin; s_host := lhost; s_fl := fl || i_flush i |}).
    { unfold hs_phase. cbn [s_pend s_h s_cur s_wait s_retry s_zlp s_in s_host].
      destruct (i_ack i || i_newtok i); reflexivity. }
    rewrite Eh. clear Eh.
    replace (o_ready (ix_outf mps ep st i)) with (w_ready mps st) by (unfold ix_outf; reflexivity).
    change (i_valid i && w_ready mps st) with (w_en mps st i).
    unfold ix_next. rewrite Hf, Hclr.
    unfold tx_phase, ix_outf. rewrite Hf.
    cbn [s_pend s_h s_cur s_wait s_retry s_zlp s_in s_host o_ready o_valid o_first o_last o_nak o_pid o_payload negb andb].
    rewrite Enil, Hfirst, eqb_reflx. rewrite Ebs.
    destruct (i_txrdy i) eqn:Erdy.
    - unfold last_byte. destruct (x_pos st + 1 =? b_fill (x_r st))%nat eqn:El.
      + (* the last byte: the packet completes *)
        apply Nat.eqb_eq in El.
        assert (Efull : firstn (S (x_pos st)) (content (x_r st)) = content (x_r st)).
        { replace (S (x_pos st)) with (length (content (x_r st))) by lia. apply firstn_all. }
        rewrite Efull.
        pose proof (complete_abs Wf (x_pid st) acc rt (i_rcv i) (b_end (x_r st)) (fl || i_flush i) (content (x_r st)) (Some BS) None lin lhost
                      ltac:(rewrite HLR; lia) Hrt HS) as HC.
        cbv zeta in HC. fold A RT Z in HC. rewrite HC. clear HC. cbn [andb]. rewrite add_stream_mk.
        exists (acc || i_rcv i), false, (i_rcv i), (lin_new st i lin),
               (if i_rcv i && negb acc then lhost ++ content (x_r st) else lhost), false.
        split; [|split].
        * f_equal. f_equal. unfold abs. cbn [x_fsm x_pid x_w x_r x_pos]. rewrite content_r_bg.
          change (b_fill (r_bg true mps st i)) with (b_fill (x_r st)).
          change (b_end (r_bg true mps st i)) with (b_end (x_r st)). rewrite HLR.
          apply sp_ext; try reflexivity.
          rewrite <- app_assoc. f_equal. symmetry. exact B1.
        * unfold wfm. cbn [x_w x_r r_bg b_fill b_end b_mem]. repeat split; assumption.
        * unfold ghost. cbn [x_fsm x_first]. split; [|reflexivity]. intros ->. apply orb_true_r.
      + apply Nat.eqb_neq in El. unfold set_cur.
        cbn [s_pend s_h s_cur s_wait s_retry s_zlp s_in s_host]. rewrite add_stream_mk.
        assert (Hlen : (length (firstn (S (x_pos st)) (content (x_r st))) <? mps)%nat = true).
        { apply Nat.ltb_lt. rewrite firstn_length. lia. }
        rewrite Hlen. cbn [andb].
        exists acc, rt, false, (lin_new st i lin), lhost, (fl || i_flush i).
        split; [|split].
        * f_equal. f_equal. unfold abs. cbn [x_fsm x_pid x_w x_r x_pos]. rewrite content_r_bg.
          change (b_fill (r_bg true mps st i)) with (b_fill (x_r st)).
          change (b_end (r_bg true mps st i)) with (b_end (x_r st)). fold A.
          rewrite Nat.add_1_r.
          apply sp_ext; try reflexivity.
          -- rewrite <- app_assoc. f_equal. symmetry. exact B1.
          -- subst Z. rewrite HLR. reflexivity.
        * unfold wfm. cbn [x_w x_r r_bg b_fill b_end b_mem]. repeat split; assumption.
        * unfold ghost. cbn [x_fsm x_first x_pos x_r r_bg b_fill b_rd b_mem].
          unfold r_addr. rewrite Hf, Erdy. repeat split; try assumption; try lia;
            try (apply rd_mem_lt; lia); try (apply shape_mono; exact Hsh).
    - (* transmitter not ready: nothing moves *)
      cbn [andb]. rewrite add_stream_mk.
      exists acc, rt, false, (lin_new st i lin), lhost, (fl || i_flush i).
      split; [|split].
      + f_equal. f_equal. unfold abs. cbn [x_fsm x_pid x_w x_r x_pos]. rewrite content_r_bg.
        change (b_fill (r_bg true mps st i)) with (b_fill (x_r st)).
        change (b_end (r_bg true mps st i)) with (b_end (x_r st)). fold A. fold BS.
        apply sp_ext; try reflexivity.
        * rewrite <- app_assoc. f_equal. symmetry. exact B1.
        * subst Z. rewrite HLR. reflexivity.
      + unfold wfm. cbn [x_w x_r r_bg b_fill b_end b_mem]. repeat split; assumption.
      + unfold ghost. cbn [x_fsm x_first x_pos x_r r_bg b_fill b_rd b_mem].
        unfold r_addr. rewrite Hf, Erdy. repeat split; try assumption;
          try (apply rd_mem_lt; lia); try (apply shape_mono; exact Hsh).
  Qed.

  Lemma ready_next : forall st i, wfm st -> w_ready mps st = true -> packet_ready mps st i = false ->
    negb (b_fill (w_bg mps st i) =? mps)%nat && negb (b_end (w_bg mps st i)) = true.
  Proof.
    intros st i Hw Hrdy Hpr. destruct (bg_write st i Hw) as (B1 & B2 & B3 & B4 & B5 & B6).
    unfold packet_ready, packet_completing, packet_to_flush in Hpr.
    destruct (w_en mps st i) eqn:Ew.
    - unfold w_en in Ew. apply andb_true_iff in Ew as [Ev _]. rewrite Ev in Hpr. cbn [andb] in Hpr.
      apply orb_false_iff in Hpr as [Hpr _]. apply orb_false_iff in Hpr as [Hl Hn].
      unfold w_bg. unfold w_en. rewrite Ev, Hrdy. cbn [andb b_fill b_end]. rewrite Hl.
      destruct (ready_facts st Hw Hrdy) as [_ He2].
      rewrite He2. cbn [andb orb negb]. rewrite andb_true_r. rewrite Hn. reflexivity.
    - destruct (B6 eq_refl) as [E1 E2]. rewrite E1, E2. exact Hrdy.
  Qed.

  Lemma fill_ge1 : forall st i, wfm st -> negb (w_ready mps st) || packet_ready mps st i = true ->
    (1 <= b_fill (w_bg mps st i))%nat.
  Proof.
    intros st i Hw H. destruct (bg_write st i Hw) as (B1 & B2 & B3 & B4 & B5 & B6).
    pose proof Hw as (Hlw & Hlr & Hfw & Hfr & Hew).
    destruct (w_en mps st i) eqn:Ew; [apply B5; reflexivity|].
    destruct (B6 eq_refl) as [E1 E2]. rewrite E1.
    destruct (w_ready mps st) eqn:Hrdy.
    - cbn [negb orb] in H. unfold packet_ready, packet_completing, packet_to_flush in H.
      unfold w_en in Ew. rewrite Hrdy, andb_true_r in Ew. rewrite Ew in H. cbn [andb orb] in H.
      destruct (b_fill (x_w st) =? 0)%nat eqn:E0; [rewrite andb_false_r in H; discriminate|].
      apply Nat.eqb_neq in E0. lia.
    - unfold w_ready in Hrdy. destruct (b_fill (x_w st) =? mps)%nat eqn:E; [apply Nat.eqb_eq in E; lia|].
      cbn [negb andb] in Hrdy. destruct (b_end (x_w st)); [apply Hew; reflexivity | discriminate].
  Qed.

  Lemma step_WFA : forall st acc rt got lin lhost fl i, x_fsm st = WFA -> wfm st -> ghost st acc rt got fl ->
    c11_env ep (abs st acc rt got lin lhost fl) i = true ->
    exists acc' rt' got' lin' lhost' fl',
      c11_mon mps ep (abs st acc rt got lin lhost fl) i (ix_outf mps ep st i)
      = Some (abs (nxt st i) acc' rt' got' lin' lhost' fl', true)
      /\ wfm (nxt st i) /\ ghost (nxt st i) acc' rt' got' fl'.
  Proof.
    intros st acc rt got lin lhost fl i Hf Hw Hg He.
    destruct (bg_write st i Hw) as (B1 & B2 & B3 & B4 & B5 & B6).
    unfold ghost in Hg. rewrite Hf in Hg. destruct Hg as (Hgot & Hfirst).
    pose proof Hw as (Hlw & Hlr & Hfw & Hfr & Hew).
    pose proof (content_length (x_r st) ltac:(lia)) as HLR.
    set (A := (if acc then [] else flag (content (x_r st)) (b_end (x_r st)))) in *.
    set (Wf := flag (content (x_w st)) (b_end (x_w st))) in *.
    set (Z := if acc then (length (content (x_r st)) =? mps)%nat && b_end (x_r st)
              else (length (content (x_r st)) =? 0)%nat) in *.
    assert (Ea : abs st acc rt got lin lhost fl =
      {| s_pend := A ++ Wf; s_h := xorb (x_pid st) acc; s_cur := None;
         s_wait := Some (b2n (x_pid st), content (x_r st), got); s_retry := None; s_zlp := Z;
         s_in := lin; s_host := lhost; s_fl := fl |}).
    { unfold abs. rewrite Hf. subst Z. rewrite HLR. reflexivity. }
    destruct (env_facts _ _ He) as (Hclr & Hnt & Hack).
    rewrite Ea in Hack. cbn [s_wait] in Hack.
    unfold c11_mon. rewrite He. rewrite (rdy_ok st _ rt got lin lhost fl i Hw). rewrite Ea. cbn [negb].
    replace (o_ready (ix_outf mps ep st i)) with (w_ready mps st) by (unfold ix_outf; reflexivity).
    change (i_valid i && w_ready mps st) with (w_en mps st i).
    unfold tx_phase, hs_phase, ix_outf. rewrite Hf.
    cbn [s_pend s_h s_cur s_wait s_retry s_zlp s_in s_host o_ready o_valid o_first o_last o_nak o_pid o_payload negb andb].
    rewrite andb_false_r. rewrite add_stream_mk.
    unfold ix_next. rewrite Hf, Hclr.
    destruct (i_ack i) eqn:Eack.
    - (* the host acknowledges: it has the packet *)
      destruct (Hack eq_refl) as (p0 & bs0 & E). injection E as _ _ Eg. subst got.
      pose proof (Hgot eq_refl) as Hacc. subst acc. rewrite (Hnt eq_refl).
      cbn [orb andb negb]. subst A. cbn [app].
      destruct (follow_up mps st) eqn:Efu.
      + (* a zero-length packet has to follow *)
        exists false, false, false, (lin_new st i lin), lhost, (fl || i_flush i).
        split; [|split].
        * f_equal. f_equal. unfold abs. cbn [x_fsm x_pid x_w x_r x_pos].
          rewrite content_set_fill0. cbn [set_fill b_fill b_end flag app].
          apply sp_ext; try reflexivity.
          -- symmetry. exact B1.
          -- destruct (x_pid st); reflexivity.
          -- subst Z. rewrite HLR. exact Efu.
        * unfold wfm. cbn [x_w x_r set_fill r_bg b_fill b_end b_mem]. repeat split; try assumption; lia.
        * unfold ghost. cbn [x_fsm x_first x_r]. split; [discriminate | split; [exact Hfirst|]].
          intros _. unfold set_fill. cbn [b_fill]. rewrite orb_true_r. reflexivity.
      + destruct (negb (w_ready mps st) || packet_ready mps st i) eqn:Esw.
        * (* the next packet is waiting: swap the buffers *)
          pose proof (fill_ge1 st i Hw Esw) as Hf1.
          exists false, false, false, (lin_new st i lin), lhost, (fl || i_flush i).
          split; [|split].
          -- f_equal. f_equal. unfold abs. cbn [x_fsm x_pid x_w x_r x_pos].
             rewrite content_clr_end, content_set_fill0. cbn [flag]. rewrite app_nil_r.
             apply sp_ext; try reflexivity.
             ++ symmetry. exact B1.
             ++ destruct (x_pid st); reflexivity.
             ++ subst Z. rewrite HLR. unfold follow_up in Efu. rewrite Efu.
                destruct (b_fill (w_bg mps st i)); [lia | reflexivity].
          -- unfold wfm. cbn [x_w x_r clr_end set_fill r_bg b_fill b_end b_mem].
             repeat split; try assumption; try lia.
          -- unfold ghost. cbn [x_fsm x_first x_r]. split; [discriminate | split; [exact Hfirst|]].
             apply swap_shape; [exact Hw | exact Esw].
        * (* nothing to send yet *)
          apply orb_false_iff in Esw as [Erdy Epr]. apply negb_false_iff in Erdy.
          exists true, false, false, (lin_new st i lin), lhost, (fl || i_flush i).
          split; [|split].
          -- f_equal. f_equal. unfold abs. cbn [x_fsm x_pid x_w x_r x_pos].
             cbn [set_fill b_fill b_end app].
             apply sp_ext; try reflexivity.
             ++ symmetry. exact B1.
             ++ subst Z. rewrite HLR. unfold follow_up in Efu. rewrite Efu.
                destruct mps; [lia | reflexivity].
          -- unfold wfm. cbn [x_w x_r set_fill r_bg b_fill b_end b_mem]. repeat split; try assumption; lia.
          -- unfold ghost. cbn [x_fsm x_first x_r set_fill b_fill]. repeat split; try assumption.
             unfold w_ready. cbn [x_w]. apply ready_next; assumption.
    - cbn [orb andb negb]. rewrite andb_true_r.
      destruct (i_newtok i) eqn:Ent.
      + (* time-out: the host moved on without ACK; the packet will be sent again *)
        exists acc, true, false, (lin_new st i lin), lhost, (fl || i_flush i).
        split; [|split].
        * f_equal. f_equal. unfold abs. cbn [x_fsm x_pid x_w x_r x_pos]. rewrite content_r_bg.
          change (b_fill (r_bg true mps st i)) with (b_fill (x_r st)).
          change (b_end (r_bg true mps st i)) with (b_end (x_r st)). fold A.
          apply sp_ext; try reflexivity.
          -- rewrite <- app_assoc. f_equal. symmetry. exact B1.
          -- subst Z. rewrite HLR. reflexivity.
        * unfold wfm. cbn [x_w x_r r_bg b_fill b_end b_mem]. repeat split; assumption.
        * unfold ghost. cbn [x_fsm x_first x_r]. split; [reflexivity | split; [exact Hfirst|]].
          intro Hc. discriminate Hc.
      + exists acc, false, got, (lin_new st i lin), lhost, (fl || i_flush i).
        split; [|split].
        * f_equal. f_equal. unfold abs. cbn [x_fsm x_pid x_w x_r x_pos]. rewrite content_r_bg.
          change (b_fill (r_bg true mps st i)) with (b_fill (x_r st)).
          change (b_end (r_bg true mps st i)) with (b_end (x_r st)). fold A.
          apply sp_ext; try reflexivity.
          -- rewrite <- app_assoc. f_equal. symmetry. exact B1.
          -- subst Z. rewrite HLR. reflexivity.
        * unfold wfm. cbn [x_w x_r r_bg b_fill b_end b_mem]. repeat split; assumption.
        * unfold ghost. cbn [x_fsm x_first]. split; assumption.
  Qed.

  Lemma step_ok : forall st acc rt got lin lhost fl i, wfm st -> ghost st acc rt got fl ->
    c11_env ep (abs st acc rt got lin lhost fl) i = true ->
    exists acc' rt' got' lin' lhost' fl',
      c11_mon mps ep (abs st acc rt got lin lhost fl) i (ix_outf mps ep st i)
      = Some (abs (nxt st i) acc' rt' got' lin' lhost' fl', true)
      /\ wfm (nxt st i) /\ ghost (nxt st i) acc' rt' got' fl'.
  Proof.
    intros st acc rt got lin lhost fl i Hw Hg He. destruct (x_fsm st) eqn:Hf.
    - apply step_WFD; assumption.
    - apply step_WTS; assumption.
    - apply step_SEND; assumption.
    - apply step_WFA; assumption.
  Qed.

  Lemma mon_env_false : forall s i o, c11_env ep s i = false -> c11_mon mps ep s i o = None.
  Proof. intros s i o H. unfold c11_mon. rewrite H. reflexivity. Qed.

  (* the monitor never reports a violation on a run of the model *)
  Theorem refines_from : forall ins st acc rt got lin lhost fl, wfm st -> ghost st acc rt got fl ->
    c11_check mps ep (abs st acc rt got lin lhost fl) (combine ins (ix_run true true mps ep st ins)) = true.
  Proof.
    induction ins as [|i t IH]; intros st acc rt got lin lhost fl Hw Hg; [reflexivity|].
    cbn [ix_run combine c11_check].
    destruct (c11_env ep (abs st acc rt got lin lhost fl) i) eqn:He.
    - destruct (step_ok st acc rt got lin lhost fl i Hw Hg He) as (a' & r' & g' & l' & h' & f' & E & Hw' & Hg').
      rewrite E. cbn [andb]. apply IH; assumption.
    - rewrite mon_env_false by exact He. reflexivity.
  Qed.

  (* ... and the monitor's state stays an abstraction of the model's state *)
  Lemma state_abs_from : forall ins st acc rt got lin lhost fl, wfm st -> ghost st acc rt got fl ->
    exists st' acc' rt' got' lin' lhost' fl',
      c11_state mps ep (abs st acc rt got lin lhost fl) (combine ins (ix_run true true mps ep st ins))
      = abs st' acc' rt' got' lin' lhost' fl' /\ wfm st'.
  Proof.
    induction ins as [|i t IH]; intros st acc rt got lin lhost fl Hw Hg.
    - exists st, acc, rt, got, lin, lhost, fl. split; [reflexivity | exact Hw].
    - cbn [ix_run combine c11_state].
      destruct (c11_env ep (abs st acc rt got lin lhost fl) i) eqn:He.
      + destruct (step_ok st acc rt got lin lhost fl i Hw Hg He) as (a' & r' & g' & l' & h' & f' & E & Hw' & Hg').
        rewrite E. apply IH; assumption.
      + rewrite mon_env_false by exact He.
        exists st, acc, rt, got, lin, lhost, fl. split; [reflexivity | exact Hw].
  Qed.

  Lemma wfm_init : wfm (ix_init mps).
  Proof. unfold wfm, ix_init, buf0. cbn [x_w x_r b_mem b_fill b_end]. rewrite repeat_length. repeat split; try lia. Qed.

  Lemma ghost_init : ghost (ix_init mps) true false false false.
  Proof. unfold ghost, ix_init, w_ready, buf0. cbn [x_fsm x_w x_r x_first b_fill b_end]. repeat split.
         destruct mps; [lia | reflexivity]. Qed.

  Lemma abs_init : abs (ix_init mps) true false false [] [] false = sp_init.
  Proof. unfold abs, ix_init, sp_init, buf0, content. cbn [x_fsm x_pid x_w x_r b_fill b_end b_mem firstn flag app xorb].
         rewrite andb_false_r. reflexivity. Qed.

  Theorem refines : forall ins,
    c11_check mps ep sp_init (combine ins (ix_run true true mps ep (ix_init mps) ins)) = true.
  Proof. intro ins. rewrite <- abs_init. apply refines_from; [apply wfm_init | apply ghost_init]. Qed.

  Lemma abs_backlog : forall st acc rt got lin lhost fl, wfm st ->
    (length (s_pend (abs st acc rt got lin lhost fl)) <= 2 * mps)%nat.
  Proof.
    intros st acc rt got lin lhost fl (Hlw & Hlr & Hfw & Hfr & Hew). unfold abs. cbn [s_pend].
    rewrite app_length, length_flag, content_length by lia.
    destruct acc; [cbn [length]; lia|]. rewrite length_flag, content_length by lia. lia.
  Qed.

  Theorem backlog_bounded : forall ins,
    (length (s_pend (c11_state mps ep sp_init (combine ins (ix_run true true mps ep (ix_init mps) ins)))) <= 2 * mps)%nat.
  Proof.
    intro ins. rewrite <- abs_init.
    destruct (state_abs_from ins (ix_init mps) true false false [] [] false wfm_init ghost_init)
      as (st' & a' & r' & g' & l' & h' & f' & E & Hw').
    rewrite E. apply abs_backlog. exact Hw'.
  Qed.
End Refine.

(* ------------------------------------------------------------------------------------------ *)
(* 3. facts about the specification monitor itself (any implementation): as long as it reports no violation,
      what the host has taken, followed by what is still pending, is what the stream handed over *)
Lemma bytes_eqb_eq : forall a b, bytes_eqb a b = true -> a = b.
Proof.
  induction a as [|x a IH]; intros [|y b] H; cbn in H; try discriminate; [reflexivity|].
  apply andb_true_iff in H as [H1 H2]. apply N.eqb_eq in H1. subst. f_equal. apply IH. exact H2.
Qed.

Definition logs_ok (s : sp_state) : Prop := s_in s = s_host s ++ map fst (s_pend s).

Lemma complete_logs : forall mps s retry pid bs rcv s' ok,
  complete mps s retry pid bs rcv = (s', ok) -> ok = true -> logs_ok s -> logs_ok s'.
Proof.
  intros mps s retry pid bs rcv s' ok H Hok L. unfold complete in H.
  injection H as <- <-. unfold logs_ok in *. cbn [s_in s_host s_pend].
  destruct (rcv && (pid =? b2n (s_h s))) eqn:Et; [|exact L].
  cbn [negb orb] in Hok. apply andb_true_iff in Hok as [_ Hok].
  apply andb_true_iff in Hok as [Hok _]. apply andb_true_iff in Hok as [Hok _].
  apply andb_true_iff in Hok as [_ Hb]. apply bytes_eqb_eq in Hb.
  rewrite L. rewrite <- app_assoc. f_equal.
  rewrite <- (firstn_skipn (length bs) (s_pend s)) at 1. rewrite map_app. f_equal. symmetry. exact Hb.
Qed.

Lemma mon_logs : forall mps ep s i o s', c11_mon mps ep s i o = Some (s', true) -> logs_ok s -> logs_ok s'.
Proof.
  intros mps ep s i o s' H L. unfold c11_mon in H.
  destruct (negb (c11_env ep s i)); [discriminate|].
  destruct (negb (ready_ok mps s o)); [discriminate|].
  destruct (tx_phase mps ep s (hs_phase s i) i o) as [s2 ok] eqn:Et.
  injection H as <- ->.
  assert (L1 : logs_ok (hs_phase s i)) by exact L.
  assert (L2 : logs_ok s2).
  { unfold tx_phase in Et.
    destruct (s_cur s) as [bs|].
    - destruct (o_valid o && i_txrdy i).
      + destruct (o_last o).
        * destruct (complete mps (hs_phase s i) (s_retry (hs_phase s i)) (o_pid o) (bs ++ [o_payload o]) (i_rcv i)) as [s3 v3] eqn:Ec.
          injection Et as <- Ev. apply andb_true_iff in Ev as [_ Ev].
          eapply complete_logs; eassumption.
        * inversion Et; subst; exact L1.
      + inversion Et; subst; exact L1.
    - destruct (s_tok ep i && match s_wait s with None => true | Some _ => false end).
      + destruct (o_nak o); [inversion Et; subst; exact L1|].
        destruct (o_valid o).
        * destruct (complete mps (hs_phase s i) (s_retry (hs_phase s i)) (o_pid o) [] (i_rcv i)) as [s3 v3] eqn:Ec.
          injection Et as <- Ev. apply andb_true_iff in Ev as [Ev _]. apply andb_true_iff in Ev as [Ev _].
          eapply complete_logs; eassumption.
        * inversion Et; subst; exact L1.
      + inversion Et; subst; exact L1. }
  unfold logs_ok in *. unfold add_stream. cbn [s_in s_host s_pend].
  destruct (i_valid i && o_ready o); [|exact L2].
  rewrite L2, map_app. cbn [map fst]. rewrite app_assoc. reflexivity.
Qed.

Lemma mon_in_log : forall mps ep s i o s' ok, c11_mon mps ep s i o = Some (s', ok) ->
  s_in s' = s_in s ++ (if i_valid i && o_ready o then [i_payload i] else []).
Proof.
  intros mps ep s i o s' ok H. unfold c11_mon in H.
  destruct (negb (c11_env ep s i)); [discriminate|].
  destruct (negb (ready_ok mps s o)) eqn:Er.
  { injection H as <- _. apply negb_true_iff in Er. unfold ready_ok in Er. apply orb_false_iff in Er as [_ Er].
    rewrite Er, andb_false_r, app_nil_r. reflexivity. }
  destruct (tx_phase mps ep s (hs_phase s i) i o) as [s2 ok2] eqn:Et.
  injection H as <- _.
  assert (E : s_in s2 = s_in s).
  { unfold tx_phase in Et. unfold complete in Et.
    destruct (s_cur s) as [bs|].
    - destruct (o_valid o && i_txrdy i); [destruct (o_last o)|]; injection Et as <- _; reflexivity.
    - destruct (s_tok ep i && match s_wait s with None => true | Some _ => false end);
        [destruct (o_nak o); [|destruct (o_valid o)]|]; injection Et as <- _; reflexivity. }
  unfold add_stream. cbn [s_in]. rewrite E. destruct (i_valid i && o_ready o); [reflexivity | rewrite app_nil_r; reflexivity].
Qed.

(* over a whole run: if the monitor reports no violation, the logs stay consistent ... *)
Lemma check_logs : forall mps ep ios s, c11_check mps ep s ios = true -> logs_ok s ->
  logs_ok (c11_state mps ep s ios).
Proof.
  induction ios as [|[i o] t IH]; intros s H L; [exact L|].
  cbn [c11_check c11_state] in *. destruct (c11_mon mps ep s i o) as [[s' ok]|] eqn:E; [|exact L].
  apply andb_true_iff in H as [-> H]. apply IH; [exact H|]. eapply mon_logs; eassumption.
Qed.

(* ... and while the environment assumption holds, s_in is exactly the list of bytes handed over *)
Lemma state_in_log : forall mps ep ios s, c11_env_all mps ep s ios = true ->
  s_in (c11_state mps ep s ios) = s_in s ++ accepted_bytes ios.
Proof.
  induction ios as [|[i o] t IH]; intros s H; [cbn; rewrite app_nil_r; reflexivity|].
  cbn [c11_env_all c11_state] in *. destruct (c11_mon mps ep s i o) as [[s' ok]|] eqn:E; [|discriminate].
  rewrite IH by exact H. rewrite (mon_in_log _ _ _ _ _ _ _ E). rewrite <- app_assoc. reflexivity.
Qed.

(* ------------------------------------------------------------------------------------------ *)
(* 4. packing lemmas for the lock-step ties, and the decoded packed run                         *)
Lemma nb_b2n : forall b, nb (b2n b) = b.
Proof. destruct b; reflexivity. Qed.
Lemma nb_if : forall b : bool, nb (if b then 1 else 0) = b.
Proof. destruct b; reflexivity. Qed.

Lemma pack_bound : forall B l, 0 < B -> Forall (fun x => x < B) l -> pack B l < B ^ N.of_nat (length l).
Proof.
  intros B l HB. induction l as [|x t IH]; intro H; [cbn; lia|].
  inversion H as [|? ? Hx Ht]; subst. specialize (IH Ht).
  cbn [pack length]. rewrite Nat2N.inj_succ, N.pow_succ_r'. unfold pk. nia.
Qed.

Definition buf_wf (mps : nat) (b : ix_buf) : Prop :=
  (b_fill b <= mps)%nat /\ b_rd b < 256 /\ length (b_mem b) = mps /\ Forall (fun x => x < 256) (b_mem b).
Definition ix_wf (mps : nat) (st : ix_state) : Prop := buf_wf mps (x_w st) /\ buf_wf mps (x_r st).

Lemma buf_dec_enc : forall mps b rest, buf_wf mps b -> buf_dec mps (buf_enc mps b rest) = (b, rest).
Proof.
  intros mps [f e r m] rest (Hf & Hr & Hl & Hm). cbn [b_fill b_end b_rd b_mem] in *.
  unfold buf_dec, buf_enc. cbv zeta. cbn [b_fill b_end b_rd b_mem].
  assert (H1 : N.of_nat f < FB mps) by (unfold FB; lia).
  assert (H2 : pack 256 m < MB mps) by (unfold MB; rewrite <- Hl; apply pack_bound; [lia | exact Hm]).
  rewrite (pk_mod _ _ _ H1), (pk_div _ _ _ H1).
  rewrite (pk_mod _ _ _ (b2n_lt2 e)), (pk_div _ _ _ (b2n_lt2 e)).
  rewrite (pk_mod _ _ _ Hr), (pk_div _ _ _ Hr).
  rewrite (pk_mod _ _ _ H2), (pk_div _ _ _ H2).
  rewrite Nat2N.id, ?nb_b2n, ?nb_if. rewrite <- Hl at 1. rewrite unpack_pack by exact Hm. reflexivity.
Qed.

Lemma fsm_of_code : forall f, fsm_of (fsm_code f) = f.
Proof. destruct f; reflexivity. Qed.
Lemma fsm_code_lt : forall f, fsm_code f < 4.
Proof. destruct f; cbn; lia. Qed.

Lemma ix_dec_enc : forall mps st, ix_wf mps st -> ix_dec mps (ix_enc mps st) = st.
Proof.
  intros mps [f p t fi w r ps] [Hw Hr]. cbn [x_w x_r] in *.
  unfold ix_dec, ix_enc. cbv zeta. cbn [x_fsm x_pid x_tog x_first x_w x_r x_pos].
  rewrite (pk_mod _ _ _ (fsm_code_lt f)), (pk_div _ _ _ (fsm_code_lt f)).
  rewrite (pk_mod _ _ _ (b2n_lt2 p)), (pk_div _ _ _ (b2n_lt2 p)).
  rewrite (pk_mod _ _ _ (b2n_lt2 t)), (pk_div _ _ _ (b2n_lt2 t)).
  rewrite (pk_mod _ _ _ (b2n_lt2 fi)), (pk_div _ _ _ (b2n_lt2 fi)).
  rewrite (buf_dec_enc _ _ _ Hw), (buf_dec_enc _ _ _ Hr).
  rewrite fsm_of_code, ?nb_b2n, ?nb_if, Nat2N.id. reflexivity.
Qed.

Lemma bits_lt : forall x lo w, bits x lo w < 2 ^ w.
Proof. intros. unfold bits. rewrite N.land_ones. apply N.mod_lt. apply N.pow_nonzero. lia. Qed.

Lemma rd_mem_lt256 : forall mps m a, Forall (fun x => x < 256) m -> rd_mem mps m a < 256.
Proof.
  intros mps m a H. unfold rd_mem. destruct (_ <? mps)%nat; [|lia]. apply Forall_nth_lt; [lia | exact H].
Qed.

Lemma ix_wf_next : forall fa fr mps ep st i, i_payload i < 256 -> ix_wf mps st -> ix_wf mps (ix_next fa fr mps ep st i).
Proof.
  intros fa fr mps ep st i Hp [(Hwf & Hwr & Hwl & Hwm) (Hrf & Hrr & Hrl & Hrm)].
  assert (W1 : buf_wf mps (w_bg mps st i)).
  { unfold buf_wf, w_bg. cbn [b_fill b_rd b_mem]. repeat split.
    - destruct (w_en mps st i) eqn:E; [|exact Hwf]. unfold w_en, w_ready in E.
      destruct (i_valid i); [|discriminate]. destruct (b_fill (x_w st) =? mps)%nat eqn:E1; [discriminate|].
      apply Nat.eqb_neq in E1. lia.
    - apply rd_mem_lt256. exact Hwm.
    - destruct (w_en mps st i); [rewrite upd_length|]; exact Hwl.
    - destruct (w_en mps st i); [apply upd_Forall|]; assumption. }
  assert (R1 : buf_wf mps (r_bg fa mps st i)).
  { unfold buf_wf, r_bg. cbn [b_fill b_rd b_mem]. repeat split; try assumption. apply rd_mem_lt256. exact Hrm. }
  assert (C : forall b, buf_wf mps b -> buf_wf mps (clr_end b)) by (intros b H; exact H).
  assert (S0 : forall b, buf_wf mps b -> buf_wf mps (set_fill b 0)).
  { intros b (H1 & H2 & H3 & H4). unfold buf_wf, set_fill. cbn [b_fill b_rd b_mem]. repeat split; try assumption. lia. }
  unfold ix_next, ix_wf.
  destruct (x_fsm st).
  - destruct (packet_ready mps st i); cbn [x_w x_r]; split; auto.
  - destruct (clr ep i); [cbn [x_w x_r]; split; auto|].
    destruct (tok ep i); [destruct (negb _)|]; cbn [x_w x_r]; split; auto.
  - destruct (i_txrdy i); cbn [x_w x_r]; split; auto.
  - destruct (i_ack i); [destruct (follow_up mps st); [|destruct (negb (w_ready mps st) || packet_ready mps st i)]|];
      cbn [x_w x_r]; split; auto.
Qed.

Lemma ix_wf_step : forall mps ep st w, ix_wf mps st -> ix_wf mps (fst (ix_mstep_n true true mps ep st w)).
Proof. intros. cbn [ix_mstep_n fst]. apply ix_wf_next; [|assumption]. cbn [ix_in_of i_payload]. apply (bits_lt w 19 8). Qed.

Lemma ix_wf_init : forall mps, ix_wf mps (ix_init mps).
Proof.
  intro mps. unfold ix_wf, ix_init, buf_wf, buf0. cbn [x_w x_r b_fill b_rd b_mem].
  rewrite repeat_length.
  assert (F : Forall (fun x => x < 256) (repeat 0 mps)) by (apply Forall_forall; intros x Hx; apply repeat_spec in Hx; subst; lia).
  repeat split; try lia; exact F.
Qed.

(* decoding the model's packed, normalised output words gives back the typed (normalised) outputs *)
Lemma ix_out_of_pack : forall o, o_pid o < 4 -> o_payload o < 256 -> ix_out_of (ix_out_pack o) = o.
Proof.
  intros [r v f l k p pl] Hp Hpl. cbn [o_pid o_payload] in *.
  unfold ix_out_of, ix_out_pack. cbv zeta. cbn [o_ready o_valid o_first o_last o_nak o_pid o_payload].
  rewrite (pk_mod _ _ _ (b2n_lt2 r)), (pk_div _ _ _ (b2n_lt2 r)).
  rewrite (pk_mod _ _ _ (b2n_lt2 v)), (pk_div _ _ _ (b2n_lt2 v)).
  rewrite (pk_mod _ _ _ (b2n_lt2 f)), (pk_div _ _ _ (b2n_lt2 f)).
  rewrite (pk_mod _ _ _ (b2n_lt2 l)), (pk_div _ _ _ (b2n_lt2 l)).
  rewrite (pk_mod _ _ _ (b2n_lt2 k)), (pk_div _ _ _ (b2n_lt2 k)).
  rewrite (pk_mod _ _ _ Hp), (pk_div _ _ _ Hp).
  rewrite ?nb_b2n, ?nb_if. rewrite N.mod_small by exact Hpl. reflexivity.
Qed.

Lemma outf_bounds : forall mps ep st i, ix_wf mps st ->
  o_pid (out_norm (ix_outf mps ep st i)) < 4 /\ o_payload (out_norm (ix_outf mps ep st i)) < 256.
Proof.
  intros mps ep st i [_ (_ & Hr & _)]. unfold out_norm, ix_outf. cbn [o_pid o_payload o_valid]. split.
  - destruct (x_pid st); cbn; lia.
  - destruct (match x_fsm st with SEND => true | WTS => zlp_now ep st i | _ => false end); [exact Hr | lia].
Qed.

(* the monitor does not look at tx.payload while tx.valid is low *)
Lemma mon_norm : forall mps ep s i o, c11_mon mps ep s i (out_norm o) = c11_mon mps ep s i o.
Proof.
  intros mps ep s i [r v f l k p pl]. unfold out_norm. cbn [o_ready o_valid o_first o_last o_nak o_pid o_payload].
  destruct v; [reflexivity|].
  unfold c11_mon, tx_phase. cbn [o_ready o_valid o_first o_last o_nak o_pid o_payload andb].
  destruct (s_cur s); reflexivity.
Qed.

Lemma check_norm : forall mps ep ios s,
  c11_check mps ep s (map (fun io => (fst io, out_norm (snd io))) ios) = c11_check mps ep s ios.
Proof.
  induction ios as [|[i o] t IH]; intro s; [reflexivity|].
  cbn [map c11_check fst snd]. rewrite mon_norm. destruct (c11_mon mps ep s i o) as [[s' ok]|]; [|reflexivity].
  rewrite IH. reflexivity.
Qed.

(* the packed, normalised machine's run, decoded, is the typed run with normalised outputs *)
Lemma decode_run : forall mps ep ws st, ix_wf mps st ->
  combine (map ix_in_of ws) (map ix_out_of (run (ix_mstep_n true true mps ep) st ws))
  = map (fun io => (fst io, out_norm (snd io)))
        (combine (map ix_in_of ws) (ix_run true true mps ep st (map ix_in_of ws))).
Proof.
  induction ws as [|w t IH]; intros st Hs; [reflexivity|].
  cbn [run ix_mstep_n map combine ix_run fst snd].
  destruct (outf_bounds mps ep st (ix_in_of w) Hs) as [H1 H2].
  rewrite ix_out_of_pack by assumption. f_equal. apply IH.
  apply ix_wf_next; [|exact Hs]. cbn [ix_in_of i_payload]. apply (bits_lt w 19 8).
Qed.

(* What the lock-step ties use: the specification monitor accepts the decoded, packed, normalised run of the
   model from reset -- for every max_packet_size >= 1, every endpoint number and every input word list. *)
Theorem packed_refines : forall mps ep, (1 <= mps)%nat -> forall ws,
  c11_check mps ep sp_init
    (combine (map ix_in_of ws) (map ix_out_of (run (ix_mstep_n true true mps ep) (ix_init mps) ws))) = true.
Proof.
  intros mps ep Hm ws. rewrite decode_run by apply ix_wf_init. rewrite check_norm. apply refines. exact Hm.
Qed.

(* The headline consequence, for runs of the model from reset: whatever the stream, token, ready, loss pattern,
   the bytes the host has taken followed by the bytes still pending are the bytes the stream handed over; at
   most two packets are pending; and while the environment assumption holds the "handed over" log is just
   the list of payloads at the valid & ready cycles. *)
Theorem exactly_once : forall mps ep, (1 <= mps)%nat -> forall ins,
  let ios := combine ins (ix_run true true mps ep (ix_init mps) ins) in
  let s := c11_state mps ep sp_init ios in
  s_in s = s_host s ++ map fst (s_pend s) /\
  (length (s_pend s) <= 2 * mps)%nat /\
  (c11_env_all mps ep sp_init ios = true -> accepted_bytes ios = s_host s ++ map fst (s_pend s)).
Proof.
  intros mps ep Hm ins. cbv zeta.
  assert (L : logs_ok (c11_state mps ep sp_init (combine ins (ix_run true true mps ep (ix_init mps) ins)))).
  { apply check_logs; [apply refines; exact Hm | reflexivity]. }
  split; [exact L|]. split; [apply backlog_bounded; exact Hm|].
  intro He. rewrite <- L. rewrite state_in_log by exact He. reflexivity.
Qed.
