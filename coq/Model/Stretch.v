(* C55 -- hand model of luna/gateware/utils/cdc.py: stretch_strobe_signal, parametric in the
   stretch length n >= 1 and the allow_delay flag.  The shift register is a list, newest first. *)
From Coq Require Import NArith List Bool.
Import ListNotations.
From LunaLib Require Import Netlist Bits Machine.

Section Stretch.
  Variable n : nat.          (* to_cycles *)
  Variable delay : bool.     (* allow_delay *)

  Definition sr_width : nat :=
    match n with 1%nat => 0%nat | _ => if delay then n else (n - 1)%nat end.

  Definition sr_init : list bool := repeat false sr_width.

  (* one clock cycle: shift register, strobe -> shift register', output *)
  Definition stretch_step (sr : list bool) (strobe : bool) : list bool * bool :=
    match n with
    | 1%nat => (sr, strobe)
    | _ => (firstn sr_width (strobe :: sr),
            if delay then existsb id sr else strobe || existsb id sr)
    end.

  Fixpoint stretch_run (sr : list bool) (ins : list bool) : list bool :=
    match ins with
    | [] => []
    | s :: t => let (sr', o) := stretch_step sr s in o :: stretch_run sr' t
    end.

  (* Specification: `past` = the strobes of all earlier cycles, most recent first. *)
  Definition spec_out (past : list bool) (s : bool) : bool :=
    match n with
    | 1%nat => s
    | _ => if delay then existsb id (firstn n past) else existsb id (firstn n (s :: past))
    end.

  Fixpoint spec_trace (past : list bool) (ins : list bool) : list bool :=
    match ins with
    | [] => []
    | s :: t => spec_out past s :: spec_trace (s :: past) t
    end.

  (* the model as a packed machine over N inputs/outputs (bit 0 = strobe / output) *)
  Definition stretch_mstep (sr : list bool) (i : N) : list bool * N :=
    let (sr', o) := stretch_step sr (N.odd i) in (sr', b2n o).
  Definition stretch_enc (sr : list bool) : N := bits2N sr.
  Definition stretch_dec (m : N) : list bool := N2bits sr_width m.
End Stretch.
