(* C43 (part 2) -- hand model of luna/gateware/usb/usb3/link/ordered_sets.py: TSEmitter, parametric in
   the ordered set (list of 32-bit words, L = its length), the ctrl flags of its first word, the
   number of sets per burst (transmit_burst_length) and include_config.

   Input word:  [0] start  [1] source.ready  [2] request_hot_reset  [3] request_loopback
                [4] request_no_scrambling          (bits 2..4 exist only with include_config)
   Output word: [0] source.valid  [1..32] source.data  [33..36] source.ctrl  [37] source.first
                [38] source.last  [39] done                                                   *)
From Coq Require Import NArith List Bool Arith.
Import ListNotations.
From LunaLib Require Import Netlist Machine.
Open Scope N_scope.

Record em_cfg := { e_set : list N; e_fctrl : N; e_total : nat; e_inc : bool }.
Definition e_len (c : em_cfg) : nat := length (e_set c).

Definition i_start (i : N) : bool := N.testbit i 0.
Definition i_ready (i : N) : bool := N.testbit i 1.
(* the requested link-configuration bits, at their place in symbol 5 (bits 8..15 of word 1):
   bit 0 = hot reset, bit 2 = loopback, bit 3 = disable scrambling *)
Definition cfg_mask (i : N) : N :=
  256 * b2n (N.testbit i 2) + 1024 * b2n (N.testbit i 3) + 2048 * b2n (N.testbit i 4).

Definition pack_out (valid : bool) (data ctrl : N) (first last done : bool) : N :=
  b2n valid + 2 * data + N.shiftl ctrl 33 + N.shiftl (b2n first) 37 + N.shiftl (b2n last) 38 +
  N.shiftl (b2n done) 39.
Definition o_valid (o : N) : bool := N.testbit o 0.
Definition o_data (o : N) : N := bits o 1 32.
Definition o_ctrl (o : N) : N := bits o 33 4.
Definition o_first (o : N) : bool := N.testbit o 37.
Definition o_last (o : N) : bool := N.testbit o 38.
Definition o_done (o : N) : bool := N.testbit o 39.

(* what is on the source stream while word k of a set is offered *)
Definition word_out (c : em_cfg) (k : nat) (i : N) (done : bool) : N :=
  pack_out true
    (if (k =? 1)%nat && e_inc c then N.lor (nth k (e_set c) 0) (cfg_mask i) else nth k (e_set c) 0)
    (match k with O => e_fctrl c | _ => 0 end)
    (k =? 0)%nat (S k =? e_len c)%nat done.

(* ---- the code-shaped machine: FSM (IDLE, WORD_k) + counter of completed sets ---- *)
Inductive em_fsm := IDLE | WORD (k : nat).
Record em_state := { efsm : em_fsm; sent : nat }.
Definition em_init : em_state := {| efsm := IDLE; sent := 0 |}.

Section Emit.
  Variable c : em_cfg.
  Let L := e_len c.

  Definition em_next (st : em_state) (i : N) : em_state :=
    match efsm st with
    | IDLE => {| efsm := if i_start i then WORD 0 else IDLE; sent := sent st |}
    | WORD k =>
        if i_ready i then
          if (S k =? L)%nat then
            if (S (sent st) =? e_total c)%nat
            then {| efsm := if i_start i then WORD 0 else IDLE; sent := 0 |}
            else {| efsm := WORD 0; sent := S (sent st) |}
          else {| efsm := WORD (S k); sent := sent st |}
        else st
    end.

  Definition em_out (st : em_state) (i : N) : N :=
    match efsm st with
    | IDLE => 0
    | WORD k => word_out c k i (i_ready i && (S k =? L)%nat && (S (sent st) =? e_total c)%nat)
    end.

  Definition em_step (st : em_state) (i : N) : em_state * N := (em_next st i, em_out st i).

  (* ---- specification: one counter.  A burst is the list of word numbers
       0, 1, ..., L-1, 0, 1, ..., L-1, ...   (e_total times);
     the state is the index p into that list of the word being offered (None = idle).  Word p is
     offered (valid) until the sink takes it (ready); the burst starts on `start` when idle, `done`
     accompanies the acceptance of its last word, and a new burst follows at once iff `start` is
     high in that cycle. *)
  Definition burst_plan : list nat := concat (repeat (seq 0 L) (e_total c)).

  Definition sp_next (p : option nat) (i : N) : option nat :=
    match p with
    | None => if i_start i then Some O else None
    | Some q =>
        if i_ready i then
          if (S q =? length burst_plan)%nat then (if i_start i then Some O else None) else Some (S q)
        else Some q
    end.
  Definition sp_out (p : option nat) (i : N) : N :=
    match p with
    | None => 0
    | Some q => word_out c (nth q burst_plan O) i (i_ready i && (S q =? length burst_plan)%nat)
    end.
  Definition sp_step (p : option nat) (i : N) : option nat * N := (sp_next p i, sp_out p i).

  (* the indices of the words taken by the sink, in order *)
  Fixpoint sp_taken (p : option nat) (ins : list N) : list nat :=
    match ins with
    | [] => []
    | i :: t =>
        match p with
        | Some q => if i_ready i then q :: sp_taken (sp_next p i) t else sp_taken (sp_next p i) t
        | None => sp_taken (sp_next p i) t
        end
    end.
End Emit.

(* ---- packing of the model state for the tie ---- *)
Definition em_enc (st : em_state) : N :=
  (match efsm st with IDLE => 0 | WORD k => N.of_nat k + 1 end) + 16 * N.of_nat (sent st).
Definition em_dec (m : N) : em_state :=
  {| efsm := if m mod 16 =? 0 then IDLE else WORD (N.to_nat (m mod 16 - 1)); sent := N.to_nat (m / 16) |}.
Definition em_wf (L : nat) (st : em_state) : Prop :=
  match efsm st with WORD k => (k < L)%nat | IDLE => True end.
