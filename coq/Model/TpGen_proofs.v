From Coq Require Import NArith ZArith List Bool Lia ZifyBool ZifyN.
Import ListNotations.
From LunaLib Require Import Netlist Machine SsWords.
From LunaModel Require Import TpGen.
Open Scope N_scope.
Ltac Zify.zify_post_hook ::= Z.div_mod_to_equations.

(* ---- 1. the code-shaped model refines the specification machine ---- *)
Definition rel (st : tp_state) (p : option request) : Prop :=
  match fsm st, p with
  | DISPATCH, None => True
  | SEND k, Some r => r = latched k st
  | _, _ => False
  end.

Lemma rel_out : forall st p i, rel st p -> tp_out st i = sp_out p i.
Proof.
  intros st p i H. unfold rel, tp_out, sp_out in *.
  destruct (fsm st), p; try contradiction; subst; reflexivity.
Qed.

Lemma rel_next : forall st p i, rel st p -> rel (tp_next st i) (sp_next p i).
Proof.
  intros st p i H. unfold rel, tp_next, sp_next in *.
  destruct (fsm st) eqn:F, p; try contradiction.
  - destruct (strobe_kind i); cbn; [reflexivity | exact I].
  - subst. destruct (i_hsready i); cbn; [exact I | reflexivity].
Qed.

Theorem tp_refines_gen : forall ins st p, rel st p -> run tp_step st ins = run sp_step p ins.
Proof.
  induction ins as [|i t IH]; intros st p H; [reflexivity|].
  cbn [run tp_step sp_step]. rewrite (rel_out _ _ i H). f_equal. apply IH. apply rel_next. exact H.
Qed.

Theorem tp_refines : forall ins, run tp_step tp_init ins = run sp_step None ins.
Proof. intros. apply tp_refines_gen. exact I. Qed.

(* ---- 2. reading the output word ---- *)
Lemma testbit_odd_div : forall x n, N.testbit x n = N.odd (x / 2 ^ n).
Proof. intros. rewrite N.testbit_odd, N.shiftr_div_pow2. reflexivity. Qed.

Lemma o_fields : forall r d v h,
  o_ready (pack_out r d v h) = r /\ o_done (pack_out r d v h) = d /\
  o_valid (pack_out r d v h) = v /\ o_header (pack_out r d v h) = h.
Proof.
  intros r d v h. unfold o_ready, o_done, o_valid, o_header, pack_out.
  pose proof (b2n_lt2 r). pose proof (b2n_lt2 d). pose proof (b2n_lt2 v).
  rewrite !testbit_odd_div, N.shiftr_div_pow2.
  change (2 ^ 0) with 1. change (2 ^ 1) with 2. change (2 ^ 2) with 4. change (2 ^ 3) with 8.
  assert (E0 : (b2n r + 2 * b2n d + 4 * b2n v + 8 * h) / 1 = b2n r + 2 * (b2n d + 2 * b2n v + 4 * h)) by lia.
  assert (E1 : (b2n r + 2 * b2n d + 4 * b2n v + 8 * h) / 2 = b2n d + 2 * (b2n v + 2 * h)) by lia.
  assert (E2 : (b2n r + 2 * b2n d + 4 * b2n v + 8 * h) / 4 = b2n v + 2 * h) by lia.
  assert (E3 : (b2n r + 2 * b2n d + 4 * b2n v + 8 * h) / 8 = h) by lia.
  rewrite E0, E1, E2, E3, !odd_b2n_add_2. repeat split.
Qed.

(* ---- 3. exactly one header per accepted request, in order, carrying the request's fields ---- *)
Definition pend (p : option request) : list request := match p with Some r => [r] | None => [] end.

Theorem sp_exactly_once : forall ins p,
  let ios := combine ins (run sp_step p ins) in
  exists rest, (length rest <= 1)%nat /\
    map encode (pend p ++ requests_of ios) = packets_of ios ++ rest.
Proof.
  induction ins as [|i t IH]; intros p.
  - destruct p; cbn; eexists; (split; [|reflexivity]); cbn; lia.
  - cbn [run sp_step combine]. cbn [requests_of packets_of].
    destruct p as [r|]; cbn [sp_out sp_next pend].
    + destruct (o_fields false (i_hsready i) true (encode r)) as (R & _ & V & Hh).
      rewrite R, V, Hh. cbn [andb].
      destruct (i_hsready i).
      * destruct (IH None) as (rest & L & E). exists rest. split; [exact L|].
        cbn [pend app] in E. cbn [app map]. rewrite E. reflexivity.
      * destruct (IH (Some r)) as (rest & L & E). exists rest. split; [exact L|]. exact E.
    + destruct (o_fields true false false 0) as (R & _ & V & _).
      rewrite R, V. cbn [andb].
      destruct (strobe_kind i) as [k|].
      * destruct (IH (Some (req_of k i))) as (rest & L & E). exists rest. split; [exact L|]. exact E.
      * destruct (IH None) as (rest & L & E). exists rest. split; [exact L|]. exact E.
Qed.

Theorem tp_exactly_once : forall ins,
  let ios := combine ins (run tp_step tp_init ins) in
  exists rest, (length rest <= 1)%nat /\ map encode (requests_of ios) = packets_of ios ++ rest.
Proof. intros ins. cbv zeta. rewrite tp_refines. exact (sp_exactly_once ins None). Qed.

(* a pending request is offered in every cycle until the queue takes it, and `done` marks that cycle *)
Theorem sp_offers : forall p i,
  o_valid (sp_out p i) = negb (o_ready (sp_out p i)) /\
  o_done (sp_out p i) = o_valid (sp_out p i) && i_hsready i /\
  (forall r, p = Some r -> o_header (sp_out p i) = encode r).
Proof.
  intros p i. destruct p as [r|]; cbn [sp_out].
  - destruct (o_fields false (i_hsready i) true (encode r)) as (R & D & V & Hh). rewrite R, D, V.
    repeat split. intros r' E. inversion E; subst. exact Hh.
  - destruct (o_fields true false false 0) as (R & D & V & Hh). rewrite R, D, V.
    repeat split. intros r' E. discriminate.
Qed.

(* ---- 4. the header really carries the request's fields ---- *)
Definition req_wf (r : request) : Prop := q_addr r < 128 /\ q_seq r < 32.

Lemma req_of_wf : forall k i, req_wf (req_of k i).
Proof.
  intros. unfold req_wf, req_of, i_addr, i_seq. cbn [q_addr q_seq].
  pose proof (bits_lt i 17 7). pose proof (bits_lt i 8 5).
  change (2 ^ 7) with 128 in *. change (2 ^ 5) with 32 in *. lia.
Qed.

Lemma encode_arith : forall r, encode r =
  4 + 33554432 * q_addr r + 4294967296 *
   (subtype_code (q_kind r) + 256 * (q_ep r mod 16) +
    match q_kind r with
    | ACK => 64 * b2n (q_retry r) + 65536 + 2097152 * q_seq r
    | STALL => 65536 | NRDY => 128 | ERDY => 128 + 65536 end).
Proof.
  intros r. unfold encode, enc_dw0, enc_dw1, TP_TYPE. rewrite bits_spec.
  rewrite !N.shiftl_mul_pow2.
  change (2 ^ 25) with 33554432. change (2 ^ 32) with 4294967296. change (2 ^ 8) with 256.
  change (2 ^ 6) with 64. change (2 ^ 16) with 65536. change (2 ^ 21) with 2097152.
  change (2 ^ 7) with 128. change (2 ^ 0) with 1. change (2 ^ 4) with 16.
  rewrite N.div_1_r. destruct (q_kind r); lia.
Qed.

Theorem header_fields : forall r, req_wf r ->
  h_type (encode r) = TP_TYPE /\ h_route (encode r) = 0 /\ h_addr (encode r) = q_addr r /\
  h_subtype (encode r) = subtype_code (q_kind r) /\ h_ep (encode r) = q_ep r mod 16 /\
  (q_kind r = ACK -> h_retry (encode r) = q_retry r /\ h_seq (encode r) = q_seq r).
Proof.
  intros r (Ha & Hs). rewrite encode_arith.
  unfold h_type, h_route, h_addr, h_subtype, h_ep, h_retry, h_seq, TP_TYPE.
  rewrite !bits_spec, testbit_odd_div.
  change (2 ^ 0) with 1. change (2 ^ 5) with 32. change (2 ^ 20) with 1048576. change (2 ^ 25) with 33554432.
  change (2 ^ 7) with 128. change (2 ^ 32) with 4294967296. change (2 ^ 4) with 16.
  change (2 ^ 40) with 1099511627776. change (2 ^ 38) with 274877906944. change (2 ^ 53) with 9007199254740992.
  pose proof (b2n_lt2 (q_retry r)) as Hr.
  assert (He : q_ep r mod 16 < 16) by (apply N.mod_lt; lia).
  set (e := q_ep r mod 16) in *. set (a := q_addr r) in *. set (s := q_seq r) in *.
  set (b := b2n (q_retry r)) in *.
  destruct (q_kind r); cbn [subtype_code]; repeat split; try lia; try (intros; discriminate).
  - assert (E : (4 + 33554432 * a + 4294967296 * (1 + 256 * e + (64 * b + 65536 + 2097152 * s))) / 274877906944
                = b + 2 * (2 * e + 512 + 16384 * s)) by lia.
    rewrite E. subst b. apply odd_b2n_add_2.
Qed.

Lemma strobe_kind_single : forall i,
  (i_ack i = true /\ i_stall i = false /\ i_nrdy i = false /\ i_erdy i = false -> strobe_kind i = Some ACK) /\
  (i_ack i = false /\ i_stall i = true /\ i_nrdy i = false /\ i_erdy i = false -> strobe_kind i = Some STALL) /\
  (i_ack i = false /\ i_stall i = false /\ i_nrdy i = true /\ i_erdy i = false -> strobe_kind i = Some NRDY) /\
  (i_ack i = false /\ i_stall i = false /\ i_nrdy i = false /\ i_erdy i = true -> strobe_kind i = Some ERDY) /\
  (i_ack i = false /\ i_stall i = false /\ i_nrdy i = false /\ i_erdy i = false -> strobe_kind i = None).
Proof.
  intros i. unfold strobe_kind. repeat split; intros (A & B & C & D); rewrite A, B, C, D; reflexivity.
Qed.

(* ---- 5. packing facts for the tie ---- *)
Lemma fsm_of_code : forall f, fsm_of (fsm_code f) = f.
Proof. intros [|[]]; reflexivity. Qed.
Lemma fsm_code_lt : forall f, fsm_code f < 8.
Proof. intros [|[]]; cbn; lia. Qed.

Lemma tp_dec_enc : forall st, tp_wf st -> tp_dec (tp_enc st) = st.
Proof.
  intros [f e r s a] (He & Hs). cbn [l_ep l_seq] in *. unfold tp_dec, tp_enc. cbn [fsm l_ep l_retry l_seq l_addr].
  pose proof (fsm_code_lt f) as Hf. pose proof (b2n_lt2 r) as Hr.
  set (c := fsm_code f) in *. set (b := b2n r) in *.
  assert (E0 : (c + 8 * (e + 128 * (b + 2 * (s + 32 * a)))) mod 8 = c) by lia.
  assert (E1 : (c + 8 * (e + 128 * (b + 2 * (s + 32 * a)))) / 8 mod 128 = e) by lia.
  assert (E2 : (c + 8 * (e + 128 * (b + 2 * (s + 32 * a)))) / 1024 = b + 2 * (s + 32 * a)) by lia.
  assert (E3 : (c + 8 * (e + 128 * (b + 2 * (s + 32 * a)))) / 2048 mod 32 = s) by lia.
  assert (E4 : (c + 8 * (e + 128 * (b + 2 * (s + 32 * a)))) / 65536 = a) by lia.
  rewrite E0, E1, E2, E3, E4. subst b c. rewrite odd_b2n_add_2, fsm_of_code. reflexivity.
Qed.

Lemma tp_wf_step : forall st i, tp_wf st -> tp_wf (fst (tp_step st i)).
Proof.
  intros st i (He & Hs). unfold tp_wf, tp_step, tp_next. cbn [fst].
  destruct (fsm st); cbn [l_ep l_seq]; [|split; assumption].
  unfold i_ep, i_seq. pose proof (bits_lt i 0 7). pose proof (bits_lt i 8 5).
  change (2 ^ 7) with 128 in *. change (2 ^ 5) with 32 in *. lia.
Qed.

Lemma tp_wf_init : tp_wf tp_init.
Proof. unfold tp_wf, tp_init. cbn. lia. Qed.
