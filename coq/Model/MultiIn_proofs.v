(* C29 -- proofs about the multibyte IN endpoint serialiser model/specification of Model/MultiIn.v. *)
From Coq Require Import NArith ZArith Arith List Bool Lia ZifyBool ZifyN.
Import ListNotations.
From LunaLib Require Import Netlist Bits Machine.
From LunaModel Require Import MultiIn.
Open Scope N_scope.

(* ---------------------------------------------------------------------------------------------- *)
(* helpers *)
Lemma mi_pow2_pos : forall w, 0 < 2 ^ w.
Proof. intros. apply N.neq_0_lt_0, N.pow_nonzero. discriminate. Qed.

Lemma mi_trunc_mod : forall w x, trunc w x = x mod 2 ^ w.
Proof. intros. unfold trunc. apply N.land_ones. Qed.

Lemma split2 : forall a y, a < 2 -> (a + 2 * y) / 2 = y /\ N.odd (a + 2 * y) = N.odd a.
Proof.
  intros a y H. split.
  - replace (a + 2 * y) with (a + y * 2) by lia. rewrite N.div_add by lia. rewrite N.div_small by lia. reflexivity.
  - rewrite N.odd_add_mul_2. reflexivity.
Qed.

Lemma b2n_lt2 : forall b, b2n b < 2.
Proof. destruct b; cbn; lia. Qed.

Lemma odd_b2n : forall b, N.odd (b2n b) = b.
Proof. destruct b; reflexivity. Qed.

Lemma bits_shiftr : forall x a lo w, bits (N.shiftr x a) lo w = bits x (lo + a) w.
Proof. intros. unfold bits. rewrite N.shiftr_shiftr. f_equal. f_equal. lia. Qed.

(* ---------------------------------------------------------------------------------------------- *)
(* packing of the model state *)
Lemma mi_dec_enc : forall bw st, mi_wf bw st -> mi_dec bw (mi_enc bw st) = st.
Proof.
  intros bw [f sh fl ll bts] H. unfold mi_wf in H. cbn [f_bts] in H.
  unfold mi_dec, mi_enc. cbn [f_fsm f_shift f_first f_last f_bts].
  set (P := 2 ^ btsw bw) in *. assert (HP : 0 < P) by apply mi_pow2_pos.
  set (fn := match f with M_IDLE => 0 | M_TRANSMIT => 1 end).
  assert (Hfn : fn < 2) by (subst fn; destruct f; lia).
  destruct (split2 fn (b2n fl + 2 * (b2n ll + 2 * (bts + P * sh))) Hfn) as [E1 O1].
  rewrite E1, O1.
  destruct (split2 (b2n fl) (b2n ll + 2 * (bts + P * sh)) (b2n_lt2 fl)) as [E2 O2].
  rewrite E2, O2.
  destruct (split2 (b2n ll) (bts + P * sh) (b2n_lt2 ll)) as [E3 O3].
  rewrite E3, O3. rewrite !odd_b2n.
  assert (M : (bts + P * sh) mod P = bts).
  { replace (bts + P * sh) with (bts + sh * P) by lia. rewrite N.mod_add by lia. apply N.mod_small. exact H. }
  assert (D : (bts + P * sh) / P = sh).
  { replace (bts + P * sh) with (bts + sh * P) by lia. rewrite N.div_add by lia. rewrite N.div_small by exact H. reflexivity. }
  rewrite M, D. subst fn. destruct f; reflexivity.
Qed.

Lemma mi_wf_step : forall bw st i, mi_wf bw st -> mi_wf bw (fst (mi_step bw st i)).
Proof.
  intros bw st i H. unfold mi_wf in *. unfold mi_step, mi_next. cbn [fst].
  assert (HL : f_bts (mi_load bw i) < 2 ^ btsw bw).
  { unfold mi_load. cbn [f_bts]. rewrite mi_trunc_mod. apply N.mod_lt. pose proof (mi_pow2_pos (btsw bw)). lia. }
  destruct (f_fsm st).
  - destruct (w_valid i); [exact HL | exact H].
  - destruct (b_ready bw i); [|exact H].
    destruct (0 <? f_bts st) eqn:E; [cbn [f_bts]; lia|].
    destruct (w_valid i); [exact HL | cbn [f_bts]; exact H].
Qed.

Lemma mi_wf_init : forall bw, mi_wf bw mi_init.
Proof. intros. unfold mi_wf, mi_init. cbn [f_bts]. apply mi_pow2_pos. Qed.

(* ---------------------------------------------------------------------------------------------- *)
(* conservation on the specification machine: every accepted word is sent as its little-endian bytes,
   in order, exactly once *)
Section Spec.
  Variable bw : nat.

  Lemma ms_cycle_conservation : forall s i,
    pending s ++ word_taken bw (s, i, ms_view bw s i) =
    byte_taken bw (s, i, ms_view bw s i) ++ pending (ms_next bw s i).
  Proof.
    intros s i. unfold word_taken, byte_taken.
    destruct s as [stale | [|b rest]]; cbn [ms_view ms_next pending m_bvalid m_wready m_bfirst m_blast m_bpayload].
    - cbn [andb]. rewrite andb_true_r. unfold ms_load. destruct (w_valid i); reflexivity.
    - cbn [andb]. rewrite andb_true_r. unfold ms_load. destruct (w_valid i); reflexivity.
    - destruct (b_ready bw i) eqn:ER; cbn [andb].
      + destruct b as [by_ bf bl]. cbn [y_byte y_first y_last].
        destruct rest as [|b2 rest'].
        * rewrite andb_true_r. unfold ms_load. destruct (w_valid i); reflexivity.
        * rewrite andb_false_r. rewrite app_nil_r. reflexivity.
      + rewrite andb_false_r. rewrite app_nil_r. reflexivity.
  Qed.

  Theorem ms_conservation : forall tr s,
    pending s ++ flat_map (word_taken bw) (ms_cycles bw s tr) =
    flat_map (byte_taken bw) (ms_cycles bw s tr) ++ pending (run_state (ms_step bw) s tr).
  Proof.
    induction tr as [|i t IH]; intros s.
    - cbn [ms_cycles flat_map run_state]. rewrite app_nil_r. reflexivity.
    - cbn [ms_cycles flat_map run_state ms_step fst].
      rewrite app_assoc, ms_cycle_conservation, <- !app_assoc. f_equal. apply IH.
  Qed.

  Lemma ser_word_length : forall w f l, length (ser_word bw w f l) = bw.
  Proof. intros. unfold ser_word. rewrite map_length, seq_length. reflexivity. Qed.

  (* at most one word is ever in flight *)
  Lemma ms_pending_bound : forall tr s, (length (pending s) <= bw)%nat ->
    (length (pending (run_state (ms_step bw) s tr)) <= bw)%nat.
  Proof.
    induction tr as [|i t IH]; intros s H; [exact H|].
    cbn [run_state ms_step fst]. apply IH.
    assert (HLd : forall o, (length (pending o) <= bw)%nat -> (length (pending (ms_load bw i o)) <= bw)%nat).
    { intros o Ho. unfold ms_load. destruct (w_valid i); [cbn [pending]; rewrite ser_word_length; lia | exact Ho]. }
    destruct s as [stale | [|b rest]]; cbn [ms_next].
    - apply HLd. cbn. lia.
    - apply HLd. cbn. lia.
    - destruct (b_ready bw i); [|exact H]. destruct rest as [|b2 rest'].
      + apply HLd. cbn. lia.
      + cbn [pending length] in *. lia.
  Qed.

  Corollary ms_from_reset : forall tr,
    flat_map (word_taken bw) (ms_cycles bw ms_init tr) =
      flat_map (byte_taken bw) (ms_cycles bw ms_init tr) ++ pending (run_state (ms_step bw) ms_init tr) /\
    (length (pending (run_state (ms_step bw) ms_init tr)) <= bw)%nat.
  Proof.
    intros tr. split.
    - apply (ms_conservation tr ms_init).
    - apply ms_pending_bound. cbn. lia.
  Qed.

  Lemma ms_run_cycles : forall tr s,
    run (ms_step bw) s tr = map (fun c => mi_pack (snd c)) (ms_cycles bw s tr).
  Proof. induction tr as [|i t IH]; intros s; [reflexivity|].
    cbn [run ms_step ms_cycles map snd]. rewrite IH. reflexivity. Qed.
End Spec.

(* the bytes of a serialised word are its little-endian digits *)
Fixpoint le_value (bs : list N) : N := match bs with [] => 0 | b :: t => b + 256 * le_value t end.

Lemma le_digits : forall k w, w < 2 ^ (8 * N.of_nat k) ->
  le_value (map (fun j => bits w (8 * N.of_nat j) 8) (seq 0 k)) = w.
Proof.
  induction k as [|k IH]; intros w Hw.
  - cbn in Hw. cbn. lia.
  - cbn [seq map le_value]. rewrite <- seq_shift, map_map.
    assert (E : map (fun j => bits w (8 * N.of_nat (S j)) 8) (seq 0 k)
              = map (fun j => bits (N.shiftr w 8) (8 * N.of_nat j) 8) (seq 0 k)).
    { apply map_ext. intros j. rewrite bits_shiftr. f_equal. lia. }
    rewrite E, IH.
    + unfold bits. change (8 * N.of_nat 0) with 0. rewrite N.shiftr_0_r, N.land_ones, N.shiftr_div_pow2.
      change (2 ^ 8) with 256. pose proof (N.div_mod w 256). lia.
    + rewrite N.shiftr_div_pow2. apply N.div_lt_upper_bound; [change (2 ^ 8) with 256; lia|].
      rewrite <- N.pow_add_r. replace (8 + 8 * N.of_nat k) with (8 * N.of_nat (S k)) by lia. exact Hw.
Qed.

Lemma ser_word_le : forall bw w f l, w < 2 ^ (8 * N.of_nat bw) ->
  le_value (map y_byte (ser_word bw w f l)) = w.
Proof. intros bw w f l H. unfold ser_word. rewrite map_map. cbn [y_byte]. apply le_digits. exact H. Qed.

Lemma ser_word_flags : forall bw w f l j, (j < bw)%nat ->
  y_first (nth j (ser_word bw w f l) {| y_byte := 0; y_first := false; y_last := false |}) = f && Nat.eqb j 0 /\
  y_last (nth j (ser_word bw w f l) {| y_byte := 0; y_first := false; y_last := false |}) = l && Nat.eqb (S j) bw.
Proof.
  intros bw w f l j Hj. unfold ser_word.
  set (g := fun j0 : nat => {| y_byte := bits w (8 * N.of_nat j0) 8; y_first := f && Nat.eqb j0 0; y_last := l && Nat.eqb (S j0) bw |}).
  rewrite (nth_indep _ _ (g 0%nat)) by (rewrite map_length, seq_length; exact Hj).
  rewrite map_nth, seq_nth by exact Hj. cbn. split; reflexivity.
Qed.

(* ---------------------------------------------------------------------------------------------- *)
(* the code-shaped model refines the specification machine *)
Section Refine.
  Variable bw : nat.
  Hypothesis Hbw : (1 <= bw)%nat.

  Definition queue_of (st : mi_state) : list ybeat :=
    let b := N.to_nat (f_bts st) in
    let k := (bw - 1 - b)%nat in
    map (fun j => {| y_byte := bits (f_shift st) (8 * N.of_nat j) 8;
                     y_first := f_first st && Nat.eqb (k + j) 0;
                     y_last := f_last st && Nat.eqb (S (k + j)) bw |}) (seq 0 (S b)).

  Definition mrel (st : mi_state) (s : mi_spec) : Prop :=
    match f_fsm st, s with
    | M_IDLE, MIdle stale => stale = bits (f_shift st) 0 8
    | M_TRANSMIT, MTx q => f_bts st < N.of_nat bw /\ q = queue_of st
    | _, _ => False
    end.

  Lemma load_rel : forall i, mrel (mi_load bw i) (MTx (ser_word bw (w_payload bw i) (w_first i) (w_last i))).
  Proof.
    intros i. unfold mrel, mi_load. cbn [f_fsm f_bts].
    assert (Ht : trunc (btsw bw) (N.of_nat bw - 1) = N.of_nat bw - 1).
    { rewrite mi_trunc_mod. apply N.mod_small. unfold btsw. pose proof (N.size_gt (N.of_nat bw)). lia. }
    rewrite Ht. split; [lia|].
    unfold queue_of, ser_word. cbn [f_bts f_shift f_first f_last].
    replace (N.to_nat (N.of_nat bw - 1)) with (bw - 1)%nat by lia.
    replace (bw - 1 - (bw - 1))%nat with 0%nat by lia.
    replace (S (bw - 1)) with bw by lia. reflexivity.
  Qed.

  Lemma mrel_step : forall st s i, mrel st s ->
    mi_view bw st i = ms_view bw s i /\ mrel (mi_next bw st i) (ms_next bw s i).
  Proof.
    intros [f sh fl ll bts] s i HR. unfold mrel in HR. cbn [f_fsm f_shift f_bts] in HR.
    destruct f, s as [stale | q]; try contradiction.
    - (* IDLE *)
      subst stale. unfold mi_view, ms_view, mi_next, ms_next, ms_load. cbn [f_fsm f_shift].
      split; [reflexivity|]. destruct (w_valid i); [apply load_rel | reflexivity].
    - (* TRANSMIT *)
      destruct HR as [Hb Hq]. unfold queue_of in Hq. cbn [f_bts f_shift f_first f_last] in Hq.
      set (b := N.to_nat bts) in *. set (k := (bw - 1 - b)%nat) in *.
      cbn [seq map] in Hq. rewrite <- seq_shift, map_map in Hq.
      subst q. unfold mi_view, ms_view, mi_next, ms_next. cbn [f_fsm f_shift f_first f_last f_bts y_byte y_first y_last].
      assert (Hnil : forall (A : Type) (x y : A),
                (match map (fun j => {| y_byte := bits sh (8 * N.of_nat (S j)) 8;
                                        y_first := fl && Nat.eqb (k + S j) 0;
                                        y_last := ll && Nat.eqb (S (k + S j)) bw |}) (seq 0 b)
                 with [] => x | _ :: _ => y end) = if 0 <? bts then y else x).
      { intros A x y. destruct (N.ltb_spec 0 bts) as [Hlt|Hle].
        - destruct b as [|b'] eqn:Eb; [lia|]. reflexivity.
        - replace b with 0%nat by lia. reflexivity. }
      split.
      + f_equal.
        * rewrite (Hnil bool true false). destruct (0 <? bts); reflexivity.
        * f_equal. f_equal. destruct (N.eqb_spec bts (N.of_nat bw - 1)), (Nat.eqb_spec (k + 0) 0); try reflexivity; lia.
        * f_equal. f_equal. destruct (N.eqb_spec bts 0), (Nat.eqb_spec (S (k + 0)) bw); try reflexivity; lia.
      + destruct (b_ready bw i); [|unfold mrel; cbn [f_fsm f_bts]; split; [exact Hb|];
                                     unfold queue_of; cbn [f_bts f_shift f_first f_last]; fold b; fold k;
                                     cbn [seq map]; rewrite <- seq_shift, map_map; reflexivity].
        rewrite (Hnil mi_spec). destruct (N.ltb_spec 0 bts) as [Hlt|Hle].
        * (* more bytes of this word *)
          unfold mrel. cbn [f_fsm f_bts]. split; [lia|].
          unfold queue_of. cbn [f_bts f_shift f_first f_last].
          replace (N.to_nat (bts - 1)) with (b - 1)%nat by lia.
          replace (S (b - 1)) with b by lia.
          apply map_ext. intros j. f_equal.
          -- rewrite bits_shiftr. f_equal. lia.
          -- f_equal. f_equal. lia.
          -- f_equal. f_equal. lia.
        * (* final byte taken *)
          unfold ms_load. destruct (w_valid i); [apply load_rel|].
          unfold mrel. cbn [f_fsm f_shift]. reflexivity.
  Qed.

  Theorem mi_refines : forall tr st s, mrel st s -> run (mi_step bw) st tr = run (ms_step bw) s tr.
  Proof.
    induction tr as [|i t IH]; intros st s HR; [reflexivity|].
    destruct (mrel_step st s i HR) as [Ho Hn].
    cbn [run mi_step ms_step]. rewrite Ho. f_equal. apply IH. exact Hn.
  Qed.

  Corollary mi_from_reset : forall tr, run (mi_step bw) mi_init tr = run (ms_step bw) ms_init tr.
  Proof. intros. apply mi_refines. reflexivity. Qed.
End Refine.
