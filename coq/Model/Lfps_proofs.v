(* C42 -- proofs about the LFPS detector / generator models (Model/Lfps.v). *)
From Coq Require Import NArith ZArith List Bool Lia ZifyBool ZifyN.
Import ListNotations.
From LunaLib Require Import Netlist Machine.
From LunaModel Require Import Lfps.
Open Scope N_scope.
Ltac Zify.zify_post_hook ::= Z.div_mod_to_equations.

(* ------------------------------------------------------------------------------------------ *)
(* packing facts for the lock-step tie                                                         *)
Definition ld_wf (st : ld_state) : Prop := True.

Lemma bit_layer : forall (b : bool) x, ((b2n b + 2 * x) mod 2 =? 1) = b /\ (b2n b + 2 * x) / 2 = x.
Proof. intros [|] x; cbn [b2n]; split; lia. Qed.

Lemma ld_dec_enc : forall st, ld_dec (ld_enc st) = st.
Proof.
  intros [a b [d f n l]]. unfold ld_dec, ld_enc. cbn [s0 s1 core dly fsm cnt lim]. cbv zeta.
  repeat match goal with |- context [(b2n ?b + 2 * ?x) / 2] =>
    rewrite (proj2 (bit_layer b x)) end.
  rewrite !(fun b x => proj1 (bit_layer b x)).
  assert (E1 : (fsm_code f + 4 * n) mod 4 = fsm_code f) by (destruct f; cbn [fsm_code]; lia).
  assert (E2 : (fsm_code f + 4 * n) / 4 = n) by (destruct f; cbn [fsm_code]; lia).
  rewrite E1, E2. destruct f; reflexivity.
Qed.

Definition lg_wf (st : lg_state) : Prop := True.
Lemma lg_dec_enc : forall st, lg_dec (lg_enc st) = st.
Proof.
  intros [f n]. unfold lg_dec, lg_enc. cbn [gfsm gcnt].
  destruct f.
  - assert (E1 : (0 + 4 * n) mod 4 = 0) by lia. assert (E2 : (0 + 4 * n) / 4 = n) by lia.
    rewrite E1, E2. reflexivity.
  - assert (E1 : (1 + 4 * n) mod 4 = 1) by lia. assert (E2 : (1 + 4 * n) / 4 = n) by lia.
    rewrite E1, E2. reflexivity.
  - assert (E1 : (2 + 4 * n) mod 4 = 2) by lia. assert (E2 : (2 + 4 * n) / 4 = n) by lia.
    rewrite E1, E2. reflexivity.
Qed.

(* ------------------------------------------------------------------------------------------ *)
(* DETECTOR: soundness -- whenever the model reports `detect`, the envelope ends in the pattern *)
Section DetSound.
  Variable c : ld_cfg.
  Hypothesis Hb1 : 1 <= bmax c.
  Hypothesis Hbw : bmax c < 2 ^ cw c.
  Hypothesis Hper : periodic c = true -> bmax c < rmax c /\ rmax c < 2 ^ cw c.

  (* the burst before the current one and the period between them were in their windows *)
  Definition good_pair (rest : list (bool * N)) : bool :=
    match rest with
    | (false, g1) :: (true, k1) :: _ =>
        in_win (bmin c) (bmax c) k1 && in_win (rmin c) (rmax c) (k1 + g1)
    | _ => false
    end.

  (* what the FSM state knows about the run-length encoded envelope *)
  Definition Inv (st : ld_core) (runs : list (bool * N)) : Prop :=
    match fsm st with
    | WAIT => dly st = false -> match runs with [] => True | (b, _) :: _ => b = false end
    | BURST => dly st = true /\ exists k rest, runs = (true, k) :: rest /\ cnt st = k /\ 1 <= k /\ k <= bmax c /\
                 (lim st = true -> good_pair rest = true)
    | REPEAT => periodic c = true /\ dly st = true /\ exists g k rest, runs = (false, g) :: (true, k) :: rest /\
                 in_win (bmin c) (bmax c) k = true /\ cnt st = k + g /\ k + g <= rmax c /\
                 (lim st = true -> good_pair rest = true)
    end.

  Lemma Inv_init : Inv ld_core_init [].
  Proof. unfold Inv, ld_core_init. cbn. auto. Qed.

  Lemma push_false_head : forall runs, match push false runs with [] => True | (b, _) :: _ => b = false end.
  Proof. intros [|[[|] m] r]; cbn; reflexivity. Qed.

  Lemma Inv_step : forall st runs p, Inv st runs ->
    Inv (fst (ld_core_step c st p)) (push p runs) /\
    (snd (ld_core_step c st p) = true -> spec_runs c (push p runs) = true).
  Proof.
    intros [d f n l] runs p H. unfold Inv in H. cbn [fsm dly cnt lim] in H.
    unfold ld_core_step. cbn [fsm dly cnt lim]. destruct f.
    - (* WAIT *)
      destruct p, d; cbn [andb negb fst snd]; unfold Inv; cbn [fsm dly cnt lim].
      + split; intro; discriminate.
      + (* edge *)
        split; [|intro; discriminate]. split; [reflexivity|].
        specialize (H eq_refl). destruct runs as [|[b m] r].
        * exists 1, []. cbn. repeat split; try lia; try (intro; discriminate).
        * subst b. exists 1, ((false, m) :: r). cbn. repeat split; try lia; try (intro; discriminate).
      + split; [intros _; apply push_false_head | intro; discriminate].
      + split; [intros _; apply push_false_head | intro; discriminate].
    - (* BURST *)
      destruct H as (Hd & k & rest & -> & <- & Hk1 & Hk2 & Hl). subst d.
      destruct p; cbn [negb].
      + destruct (n =? bmax c) eqn:E; cbn [fst snd]; unfold Inv; cbn [fsm dly cnt lim].
        * split; intro; discriminate.
        * split; [|intro; discriminate]. split; [reflexivity|].
          exists (n + 1), rest. cbn. rewrite N.mod_small by lia. repeat split; try lia. exact Hl.
      + destruct (n <? bmin c) eqn:E1; cbn [fst snd].
        * unfold Inv; cbn [fsm dly cnt lim]. split; intro; discriminate.
        * destruct (periodic c) eqn:EP; cbn [fst snd]; unfold Inv; cbn [fsm dly cnt lim].
          -- destruct (Hper eq_refl) as [Hr1 Hr2].
             split; [|intro; discriminate]. split; [exact EP|]. split; [reflexivity|].
             exists 1, n, rest. cbn. rewrite N.mod_small by lia. unfold in_win.
             repeat split; try lia. exact Hl.
          -- split; [intro; discriminate|]. intros _. unfold spec_runs. rewrite EP. cbn.
             unfold in_win. lia.
    - (* REPEAT *)
      destruct H as (EP & Hd & g & k & rest & -> & Hk & -> & Hr & Hl). subst d.
      destruct (Hper EP) as [Hr1 Hr2].
      destruct p.
      + cbn [fst snd]. unfold Inv; cbn [fsm dly cnt lim]. split.
        * split; [reflexivity|]. exists 1, ((false, g) :: (true, k) :: rest). cbn [push Bool.eqb].
          repeat split; try lia. intro Hn. cbn [good_pair]. rewrite Hk. unfold in_win. lia.
        * intro Ho. apply andb_true_iff in Ho as [Hl1 Hn]. specialize (Hl Hl1).
          unfold spec_runs. rewrite EP. cbn [push Bool.eqb].
          destruct rest as [|[[|] g1] [|[[|] k1] rest']]; cbn [good_pair] in Hl; try discriminate.
          rewrite Hk. apply andb_true_iff in Hl as [Ha Hb]. rewrite Ha, Hb. unfold in_win. cbn. lia.
      + destruct (k + g =? rmax c) eqn:E; cbn [fst snd]; unfold Inv; cbn [fsm dly cnt lim].
        * split; intro; discriminate.
        * split; [|intro; discriminate]. split; [exact EP|]. split; [reflexivity|].
          exists (g + 1), k, rest. cbn [push Bool.eqb]. rewrite N.mod_small by lia.
          repeat split; try lia; assumption.
  Qed.

  (* nothing happens to an empty envelope while the synchroniser still shifts out its reset value *)
  Lemma Inv_pad : forall st, Inv st [] ->
    Inv (fst (ld_core_step c st false)) [] /\ snd (ld_core_step c st false) = false.
  Proof.
    intros [d f n l] H. unfold Inv in H. cbn [fsm dly cnt lim] in H. destruct f.
    - unfold ld_core_step. cbn. unfold Inv. cbn. auto.
    - destruct H as (_ & k & rest & E & _). discriminate.
    - destruct H as (_ & _ & g & k & rest & E & _). discriminate.
  Qed.

  (* whole detector: H = earlier values of signaling_received, most recent first *)
  Definition FullInv (st : ld_state) (H : list bool) : Prop :=
    s0 st = nth 0 H false /\ s1 st = nth 1 H false /\ Inv (core st) (rle (skipn 2 H)).

  Definition implied (o s : N) : Prop := o = 1 -> s = 1.

  Lemma ld_sound_gen : forall tr st H, FullInv st H ->
    Forall2 implied (run (ld_step c) st tr) (spec_trace c H tr).
  Proof.
    induction tr as [|i t IH]; intros st H (E0 & E1 & HI); cbn [run spec_trace]; [constructor|].
    unfold ld_step at 1. destruct (ld_core_step c (core st) (s1 st)) as [core' d] eqn:Es.
    assert (Hnext : Inv core' (rle (skipn 2 (N.odd i :: H))) /\
                    (d = true -> spec_detect c (skipn 2 (N.odd i :: H)) = true)).
    { destruct H as [|x [|y H']].
      - cbn in E1. rewrite E1 in Es. destruct (Inv_pad _ HI) as [A B]. rewrite Es in A, B. cbn in A, B.
        subst d. split; [exact A | intro; discriminate].
      - cbn in E1. rewrite E1 in Es. destruct (Inv_pad _ HI) as [A B]. rewrite Es in A, B. cbn in A, B.
        subst d. split; [exact A | intro; discriminate].
      - cbn in E1. rewrite E1 in Es. cbn [skipn] in *. pose proof (Inv_step _ _ y HI) as [A B].
        rewrite Es in A, B. cbn [fst snd] in A, B. unfold spec_detect. cbn [rle]. split; assumption. }
    destruct Hnext as [HI' Hd].
    constructor.
    - unfold implied. destruct d; cbn [b2n]; [intros _; rewrite Hd; reflexivity | intro; discriminate].
    - apply IH. unfold FullInv. cbn [s0 s1 core]. repeat split.
      + destruct H; [exact E0 | exact E0].
      + exact HI'.
  Qed.

  Theorem ld_sound : forall tr, Forall2 implied (run (ld_step c) ld_init tr) (spec_trace c [] tr).
  Proof. intro tr. apply ld_sound_gen. unfold FullInv. cbn. repeat split; try apply Inv_init. Qed.
End DetSound.

(* ------------------------------------------------------------------------------------------ *)
(* The run-length specification, unfolded: spec_detect as a statement about the envelope itself *)
Lemma rle_nil : forall h, rle h = [] -> h = [].
Proof.
  destruct h as [|b h]; cbn; [auto|]. destruct (rle h) as [|[b' n] r]; cbn; [discriminate|].
  destruct (Bool.eqb b b'); discriminate.
Qed.

Lemma push_head : forall b runs, exists n r, push b runs = (b, n) :: r.
Proof. intros b [|[b' n] r]; cbn; [eauto|]. destruct (Bool.eqb b b'); eauto. Qed.

Definition no_head (b : bool) (h : list bool) : Prop := match h with x :: _ => x = negb b | [] => True end.

Lemma rle_inv : forall h b n r, rle h = (b, n) :: r ->
  exists h', h = repeat b (N.to_nat n) ++ h' /\ rle h' = r /\ 1 <= n /\ no_head b h'.
Proof.
  induction h as [|a h IH]; intros b n r H; [discriminate|].
  cbn [rle] in H. destruct (rle h) as [|[b' n'] r'] eqn:E.
  - cbn in H. inversion H; subst. apply rle_nil in E. subst. exists []. cbn. repeat split; lia.
  - cbn [push] in H. destruct (Bool.eqb a b') eqn:Eb.
    + apply Bool.eqb_prop in Eb. subst. inversion H; subst.
      destruct (IH _ _ _ eq_refl) as (h' & -> & Hr & Hn & Hm). exists h'.
      replace (N.to_nat (n' + 1)) with (S (N.to_nat n')) by lia. cbn. repeat split; auto; lia.
    + inversion H; subst. exists h. cbn. split; [reflexivity|]. split; [exact E|]. split; [lia|].
      destruct h as [|x t]; [exact I|]. cbn [rle] in E. destruct (push_head x (rle t)) as (m & q & Eq).
      rewrite Eq in E. inversion E; subst. cbn. destruct b, b'; cbn in Eb; try discriminate; reflexivity.
Qed.

Lemma rle_repeat : forall n b h', no_head b h' ->
  rle (repeat b (S n) ++ h') = (b, N.of_nat (S n)) :: rle h'.
Proof.
  induction n as [|n IH]; intros b h' Hh.
  - cbn [repeat app rle]. destruct h' as [|x t]; [reflexivity|]. cbn in Hh. subst x. cbn [rle].
    destruct (push_head (negb b) (rle t)) as (m & q & Eq). rewrite Eq. cbn [push].
    destruct b; reflexivity.
  - change (repeat b (S (S n)) ++ h') with (b :: (repeat b (S n) ++ h')). cbn [rle]. rewrite IH by exact Hh.
    cbn [push]. rewrite Bool.eqb_reflx. f_equal. f_equal. lia.
Qed.

Lemma rle_repeat_N : forall k b h', 1 <= k -> no_head b h' ->
  rle (repeat b (N.to_nat k) ++ h') = (b, k) :: rle h'.
Proof.
  intros k b h' Hk Hh. destruct (N.to_nat k) as [|n] eqn:E; [lia|].
  rewrite rle_repeat by exact Hh. f_equal. f_equal. lia.
Qed.

Section SpecUnfold.
  Variable c : ld_cfg.
  Definition win_b (k : N) : Prop := bmin c <= k <= bmax c.
  Definition win_r (n : N) : Prop := rmin c <= n <= rmax c.

  Lemma in_win_iff : forall lo hi x, in_win lo hi x = true <-> lo <= x <= hi.
  Proof. intros. unfold in_win. lia. Qed.

  (* periodic pattern: burst k1, gap g1, burst k2, gap g2, first cycle of the third burst (most recent first) *)
  Theorem spec_detect_periodic_iff : periodic c = true -> forall h,
    spec_detect c h = true <->
    exists k1 g1 k2 g2 rest,
      h = [true] ++ repeat false (N.to_nat g2) ++ repeat true (N.to_nat k2)
                 ++ repeat false (N.to_nat g1) ++ repeat true (N.to_nat k1) ++ rest /\
      no_head true rest /\ 1 <= k1 /\ 1 <= g1 /\ 1 <= k2 /\ 1 <= g2 /\
      win_b k1 /\ win_r (k1 + g1) /\ win_b k2 /\ win_r (k2 + g2).
  Proof.
    intros EP h. unfold spec_detect, spec_runs. rewrite EP. split.
    - destruct (rle h) as [|[[|] n] [|[[|] g2] [|[[|] k2] [|[[|] g1] [|[[|] k1] r5]]]]] eqn:E; try discriminate.
      intro H. repeat (apply andb_true_iff in H as [H ?]). apply N.eqb_eq in H. subst n.
      apply rle_inv in E as (h1 & -> & E & _ & _).
      apply rle_inv in E as (h2 & -> & E & Hg2 & N1).
      apply rle_inv in E as (h3 & -> & E & Hk2 & N2).
      apply rle_inv in E as (h4 & -> & E & Hg1 & N3).
      apply rle_inv in E as (h5 & -> & E & Hk1 & N4).
      exists k1, g1, k2, g2, h5. unfold win_b, win_r. rewrite <- !in_win_iff. repeat split; auto.
    - intros (k1 & g1 & k2 & g2 & rest & -> & Hn & Hk1 & Hg1 & Hk2 & Hg2 & B1 & R1 & B2 & R2).
      assert (P1 : no_head false (repeat true (N.to_nat k1) ++ rest)).
      { destruct (N.to_nat k1) eqn:E; [lia|]. reflexivity. }
      assert (P2 : no_head true (repeat false (N.to_nat g1) ++ repeat true (N.to_nat k1) ++ rest)).
      { destruct (N.to_nat g1) eqn:E; [lia|]. reflexivity. }
      assert (P3 : no_head false (repeat true (N.to_nat k2) ++ repeat false (N.to_nat g1) ++ repeat true (N.to_nat k1) ++ rest)).
      { destruct (N.to_nat k2) eqn:E; [lia|]. reflexivity. }
      assert (P4 : no_head true (repeat false (N.to_nat g2) ++ repeat true (N.to_nat k2) ++ repeat false (N.to_nat g1) ++ repeat true (N.to_nat k1) ++ rest)).
      { destruct (N.to_nat g2) eqn:E; [lia|]. reflexivity. }
      change [true] with (repeat true (N.to_nat 1)).
      rewrite (rle_repeat_N 1 true) by (auto; lia).
      rewrite (rle_repeat_N g2 false) by auto. rewrite (rle_repeat_N k2 true) by auto.
      rewrite (rle_repeat_N g1 false) by auto. rewrite (rle_repeat_N k1 true) by auto.
      apply in_win_iff in B1, R1, B2, R2. rewrite B1, R1, B2, R2. reflexivity.
  Qed.

  (* single-burst pattern: burst k, first idle cycle *)
  Theorem spec_detect_single_iff : periodic c = false -> forall h,
    spec_detect c h = true <->
    exists k rest, h = [false] ++ repeat true (N.to_nat k) ++ rest /\ no_head true rest /\ 1 <= k /\ win_b k.
  Proof.
    intros EP h. unfold spec_detect, spec_runs. rewrite EP. split.
    - destruct (rle h) as [|[[|] n] [|[[|] k] r2]] eqn:E; try discriminate.
      intro H. apply andb_true_iff in H as [H B]. apply N.eqb_eq in H. subst n.
      apply rle_inv in E as (h1 & -> & E & _ & _).
      apply rle_inv in E as (h2 & -> & E & Hk & N1).
      exists k, h2. unfold win_b. rewrite <- in_win_iff. repeat split; auto.
    - intros (k & rest & -> & Hn & Hk & B).
      assert (P1 : no_head false (repeat true (N.to_nat k) ++ rest)).
      { destruct (N.to_nat k) eqn:E; [lia|]. reflexivity. }
      change [false] with (repeat false (N.to_nat 1)).
      rewrite (rle_repeat_N 1 false) by (auto; lia). rewrite (rle_repeat_N k true) by auto.
      apply in_win_iff in B. rewrite B. reflexivity.
  Qed.
End SpecUnfold.

(* ------------------------------------------------------------------------------------------ *)
(* GENERATOR: the FSM model equals the phase-counter specification; shape of one period        *)
Section GenProofs.
  Variables B R w : N.
  Hypothesis HB : 1 <= B.
  Hypothesis HBR : B < R.
  Hypothesis Hw : R <= 2 ^ w.

  Definition lg_rel (st : lg_state) (p : option N) : Prop :=
    match gfsm st, p with
    | G_IDLE, None => True
    | G_BURST, Some k => gcnt st = k /\ k < B
    | G_WAIT, Some k => gcnt st = k /\ B <= k /\ k < R
    | _, _ => False
    end.

  Lemma lg_rel_step : forall st p i, lg_rel st p ->
    snd (lg_step B R w st i) = snd (lgs_step B R p i) /\
    lg_rel (fst (lg_step B R w st i)) (fst (lgs_step B R p i)).
  Proof.
    intros [f n] p i H. unfold lg_rel in H. cbn [gfsm gcnt] in H.
    unfold lg_step, lgs_step. cbn [gfsm gcnt].
    destruct f, p as [k|]; try contradiction.
    - cbn [fst snd]. split; [reflexivity|]. unfold lg_rel. destruct (N.odd i); cbn; [lia | exact I].
    - destruct H as [-> Hk]. cbn [fst snd].
      assert (E1 : (k + 1 =? R) = false) by lia. assert (E2 : (k <? B) = true) by lia.
      rewrite E1, E2. split; [reflexivity|]. unfold lg_rel. cbn [gfsm gcnt].
      rewrite N.mod_small by lia. destruct (k + 1 =? B) eqn:E; lia.
    - destruct H as (-> & Hk1 & Hk2).
      assert (E2 : (k <? B) = false) by lia. rewrite E2.
      destruct (k + 1 =? R) eqn:E; cbn [fst snd]; (split; [reflexivity|]); unfold lg_rel; cbn [gfsm gcnt].
      + exact I.
      + rewrite N.mod_small by lia. lia.
  Qed.

  Theorem lg_refines : forall tr st p, lg_rel st p ->
    run (lg_step B R w) st tr = run (lgs_step B R) p tr.
  Proof.
    induction tr as [|i t IH]; intros st p H; cbn [run]; [reflexivity|].
    destruct (lg_rel_step st p i H) as [Ho Hn].
    destruct (lg_step B R w st i) as [st' o]. destruct (lgs_step B R p i) as [p' o']. cbn [fst snd] in *.
    subst o'. f_equal. apply IH. exact Hn.
  Qed.

  Corollary lg_from_reset : forall tr, run (lg_step B R w) lg_init tr = run (lgs_step B R) None tr.
  Proof. intro tr. apply lg_refines. exact I. Qed.

  (* the specification, unrolled over one pattern *)
  Lemma lgs_burst : forall ins k rest, k + N.of_nat (length ins) <= B ->
    run (lgs_step B R) (Some k) (ins ++ rest) =
    repeat (lg_word false true true) (length ins) ++ run (lgs_step B R) (Some (k + N.of_nat (length ins))) rest.
  Proof.
    induction ins as [|i t IH]; intros k rest H.
    - cbn. rewrite N.add_0_r. reflexivity.
    - cbn [length] in H. cbn [app run lgs_step length repeat].
      assert (E1 : (k + 1 =? R) = false) by lia. assert (E2 : (k <? B) = true) by lia. rewrite E1, E2.
      f_equal. rewrite IH by lia. f_equal. f_equal. f_equal. lia.
  Qed.

  Lemma lgs_wait : forall ins k rest, B <= k -> k + N.of_nat (length ins) < R ->
    run (lgs_step B R) (Some k) (ins ++ rest) =
    repeat (lg_word false true false) (length ins) ++ run (lgs_step B R) (Some (k + N.of_nat (length ins))) rest.
  Proof.
    induction ins as [|i t IH]; intros k rest H1 H.
    - cbn. rewrite N.add_0_r. reflexivity.
    - cbn [length] in H. cbn [app run lgs_step length repeat].
      assert (E1 : (k + 1 =? R) = false) by lia. assert (E2 : (k <? B) = false) by lia. rewrite E1, E2.
      f_equal. rewrite IH by lia. f_equal. f_equal. f_equal. lia.
  Qed.

  (* from idle, a cycle with generate = 1 followed by ANY R cycles produces exactly one period and ends idle *)
  Theorem lgs_period : forall i b1 b2 x rest, N.odd i = true ->
    length b1 = N.to_nat B -> length b2 = N.to_nat (R - B - 1) ->
    run (lgs_step B R) None ((i :: b1 ++ b2 ++ [x]) ++ rest) = lg_period B R ++ run (lgs_step B R) None rest.
  Proof.
    intros i b1 b2 x rest Hi L1 L2. unfold lg_period.
    cbn [app run]. unfold lgs_step at 1. rewrite Hi. f_equal.
    rewrite <- !app_assoc. rewrite lgs_burst by lia. rewrite L1. f_equal.
    rewrite lgs_wait by lia. rewrite L2. f_equal.
    cbn [app run lgs_step].
    assert (E1 : (0 + N.of_nat (N.to_nat B) + N.of_nat (N.to_nat (R - B - 1)) + 1 =? R) = true) by lia.
    assert (E2 : (0 + N.of_nat (N.to_nat B) + N.of_nat (N.to_nat (R - B - 1)) <? B) = false) by lia.
    rewrite E1, E2. reflexivity.
  Qed.

  (* while generate is held: n periods of R+1 cycles each *)
  Theorem lgs_held : forall n, run (lgs_step B R) None (repeat 1 (n * N.to_nat (R + 1))) =
                               concat (repeat (lg_period B R) n).
  Proof.
    induction n as [|n IH]; [reflexivity|].
    cbn [Nat.mul concat repeat]. rewrite repeat_app.
    replace (N.to_nat (R + 1)) with (S (N.to_nat B + (N.to_nat (R - B - 1) + 1))) by lia.
    cbn [repeat]. rewrite !repeat_app. cbn [repeat].
    rewrite (lgs_period 1 (repeat 1 (N.to_nat B)) (repeat 1 (N.to_nat (R - B - 1))) 1); try reflexivity;
      try apply repeat_length.
    f_equal. replace (S (N.to_nat B + (N.to_nat (R - B - 1) + 1))) with (N.to_nat (R + 1)) by lia. exact IH.
  Qed.

  Lemma lg_period_length : length (lg_period B R) = N.to_nat (R + 1).
  Proof. unfold lg_period. rewrite !app_length, !repeat_length. cbn. lia. Qed.
End GenProofs.

(* the unrolled specification does not depend on the counter width *)
Lemma lgs_held_spec : forall B R, 1 <= B -> B < R ->
  forall n, run (lgs_step B R) None (repeat 1 (n * N.to_nat (R + 1))) = concat (repeat (lg_period B R) n).
Proof.
  intros B R HB HBR n. apply (lgs_held B R R HB HBR). apply N.lt_le_incl, N.pow_gt_lin_r. reflexivity.
Qed.

(* ------------------------------------------------------------------------------------------ *)
(* DETECTOR: completeness -- after reset or a quiet stretch, an in-window pattern IS reported   *)
Section DetComplete.
  Variable c : ld_cfg.
  Hypothesis Hb1 : 1 <= bmax c.
  Hypothesis Hbw : bmax c < 2 ^ cw c.
  Hypothesis Hper : periodic c = true -> bmax c < rmax c /\ rmax c < 2 ^ cw c.

  Fixpoint core_end (st : ld_core) (ps : list bool) : ld_core :=
    match ps with [] => st | p :: t => core_end (fst (ld_core_step c st p)) t end.
  Fixpoint core_outs (st : ld_core) (ps : list bool) : list bool :=
    match ps with [] => [] | p :: t => snd (ld_core_step c st p) :: core_outs (fst (ld_core_step c st p)) t end.

  Lemma core_end_app : forall a b st, core_end st (a ++ b) = core_end (core_end st a) b.
  Proof. induction a as [|p t IH]; intros; cbn; [reflexivity | apply IH]. Qed.
  Lemma core_outs_app : forall a b st, core_outs st (a ++ b) = core_outs st a ++ core_outs (core_end st a) b.
  Proof. induction a as [|p t IH]; intros; cbn; [reflexivity | rewrite IH; reflexivity]. Qed.

  (* the detector = two-cycle delay in front of the detector proper *)
  Lemma full_core : forall bits st x y,
    run (ld_step c) st (map b2n bits ++ [x; y]) = map b2n (core_outs (core st) (s1 st :: s0 st :: bits)).
  Proof.
    induction bits as [|b t IH]; intros st x y.
    - cbn [map app run]. unfold ld_step. cbn [core_outs map].
      destruct (ld_core_step c (core st) (s1 st)) as [c1 d1]. cbn [s0 s1 core fst snd].
      destruct (ld_core_step c c1 (s0 st)) as [c2 d2]. reflexivity.
    - cbn [map app run]. unfold ld_step at 1. cbn [core_outs map].
      destruct (ld_core_step c (core st) (s1 st)) as [c1 d1]. cbn [fst snd].
      f_equal. rewrite IH. cbn [s0 s1 core]. destruct b; reflexivity.
  Qed.

  Lemma trues_run : forall m st, fsm st = BURST -> cnt st + N.of_nat m <= bmax c ->
    fsm (core_end st (repeat true m)) = BURST /\ cnt (core_end st (repeat true m)) = cnt st + N.of_nat m /\
    lim (core_end st (repeat true m)) = lim st.
  Proof.
    induction m as [|m IH]; intros [d f n l] Hf Hc; cbn [fsm cnt lim] in *.
    - cbn. repeat split; auto; lia.
    - subst f. cbn [repeat core_end].
      assert (Es : fst (ld_core_step c {| dly := d; fsm := BURST; cnt := n; lim := l |} true) =
                   {| dly := d; fsm := BURST; cnt := n + 1; lim := l |}).
      { unfold ld_core_step. cbn [fsm cnt lim dly negb]. assert (E : (n =? bmax c) = false) by lia.
        rewrite E. cbn [fst]. rewrite N.mod_small by lia. reflexivity. }
      rewrite Es.
      destruct (IH {| dly := d; fsm := BURST; cnt := n + 1; lim := l |}) as (A & B & C);
        cbn [fsm cnt lim]; try reflexivity; try lia.
      rewrite A, B, C. cbn [fsm cnt lim]. repeat split; auto; lia.
  Qed.

  Lemma falses_run : forall m st, fsm st = REPEAT -> periodic c = true -> cnt st + N.of_nat m <= rmax c ->
    fsm (core_end st (repeat false m)) = REPEAT /\ cnt (core_end st (repeat false m)) = cnt st + N.of_nat m /\
    lim (core_end st (repeat false m)) = lim st.
  Proof.
    induction m as [|m IH]; intros [d f n l] Hf EP Hc; cbn [fsm cnt lim] in *.
    - cbn. repeat split; auto; lia.
    - subst f. destruct (Hper EP) as [Hr1 Hr2]. cbn [repeat core_end].
      assert (Es : fst (ld_core_step c {| dly := d; fsm := REPEAT; cnt := n; lim := l |} false) =
                   {| dly := d; fsm := REPEAT; cnt := n + 1; lim := l |}).
      { unfold ld_core_step. cbn [fsm cnt lim dly]. assert (E : (n =? rmax c) = false) by lia.
        rewrite E. cbn [fst]. rewrite N.mod_small by lia. reflexivity. }
      rewrite Es.
      destruct (IH {| dly := d; fsm := REPEAT; cnt := n + 1; lim := l |}) as (A & B & C);
        cbn [fsm cnt lim]; try reflexivity; try assumption; try lia.
      rewrite A, B, C. cbn [fsm cnt lim]. repeat split; auto; lia.
  Qed.

  (* from the first cycle of a burst (BURST, count 1): the rest of an in-window burst of k cycles and g idle
     cycles with k + g <= rmax lead to REPEAT with count k + g *)
  Lemma period_run : forall st k g, periodic c = true -> fsm st = BURST -> cnt st = 1 ->
    1 <= k -> 1 <= g -> bmin c <= k <= bmax c -> k + g <= rmax c ->
    let st' := core_end st (repeat true (N.to_nat (k - 1)) ++ repeat false (N.to_nat g)) in
    fsm st' = REPEAT /\ cnt st' = k + g /\ lim st' = lim st.
  Proof.
    intros st k g EP Hf Hc Hk Hg Hb Hr. destruct (Hper EP) as [Hr1 Hr2]. cbv zeta. rewrite core_end_app.
    destruct (trues_run (N.to_nat (k - 1)) st Hf) as (A & B & C); [lia|].
    set (s1 := core_end st (repeat true (N.to_nat (k - 1)))) in *.
    replace (N.to_nat g) with (S (N.to_nat (g - 1))) by lia. cbn [repeat core_end].
    destruct s1 as [d f n l]. cbn [fsm cnt lim] in A, B, C. subst f.
    assert (Es : fst (ld_core_step c {| dly := d; fsm := BURST; cnt := n; lim := l |} false) =
                 {| dly := d; fsm := REPEAT; cnt := n + 1; lim := l |}).
    { unfold ld_core_step. cbn [fsm cnt lim dly negb]. assert (E1 : (n <? bmin c) = false) by lia.
      rewrite E1, EP. cbn [fst]. rewrite N.mod_small by lia. reflexivity. }
    rewrite Es.
    destruct (falses_run (N.to_nat (g - 1)) {| dly := d; fsm := REPEAT; cnt := n + 1; lim := l |})
      as (A' & B' & C'); cbn [fsm cnt lim]; try reflexivity; try assumption; try lia.
    rewrite A', B', C'. cbn [fsm cnt lim]. repeat split; auto; lia.
  Qed.

  (* the detector sees the next rising edge *)
  Definition armed (st : ld_core) : Prop := fsm st = REPEAT \/ (fsm st = WAIT /\ dly st = false).

  Lemma armed_edge : forall st, armed st ->
    fsm (fst (ld_core_step c st true)) = BURST /\ cnt (fst (ld_core_step c st true)) = 1.
  Proof.
    intros [d f n l] [H | [H1 H2]]; cbn [fsm dly] in *; subst; unfold ld_core_step; cbn; auto.
  Qed.

  Lemma quiet_arms : forall m st,
    (fsm st = WAIT /\ (dly st = false \/ (1 <= m)%nat)) \/
    (fsm st = REPEAT /\ periodic c = true /\ cnt st <= rmax c /\ rmax c - cnt st + 2 <= N.of_nat m) ->
    armed (core_end st (repeat false m)).
  Proof.
    induction m as [|m IH]; intros [d f n l] H; cbn [fsm dly cnt] in H.
    - cbn. destruct H as [[-> [-> | H]] | (_ & _ & _ & H)]; try lia. right. auto.
    - cbn [repeat core_end]. apply IH. destruct H as [[-> _] | (-> & EP & H1 & H2)].
      + left. unfold ld_core_step. cbn. auto.
      + destruct (Hper EP) as [Hr1 Hr2]. unfold ld_core_step. cbn [fsm dly cnt lim].
        destruct (n =? rmax c) eqn:E; cbn [fst fsm dly cnt].
        * left. split; [reflexivity|]. right. lia.
        * right. rewrite N.mod_small by lia. repeat split; auto; lia.
  Qed.

  Lemma Inv_reach : forall ps st, (exists runs, Inv c st runs) -> exists runs, Inv c (core_end st ps) runs.
  Proof.
    induction ps as [|p t IH]; intros st [runs H]; cbn [core_end]; [eauto|].
    apply IH. exists (push p runs). apply (Inv_step c Hb1 Hbw Hper). exact H.
  Qed.

  Lemma quiet_arms_reach : forall st m, (exists runs, Inv c st runs) -> rmax c + 2 <= N.of_nat m ->
    armed (core_end st (repeat false m)).
  Proof.
    intros [d f n l] m [runs H] Hm. unfold Inv in H. cbn [fsm dly cnt lim] in *. destruct f.
    - apply quiet_arms. left. split; [reflexivity|]. right. lia.
    - destruct H as (_ & k & rest & _ & <- & Hk1 & Hk2 & _).
      destruct m as [|m]; [lia|]. cbn [repeat core_end]. apply quiet_arms.
      unfold ld_core_step. cbn [fsm dly cnt lim negb].
      destruct (n <? bmin c); cbn [fst fsm dly cnt].
      + left. split; [reflexivity|]. right. lia.
      + destruct (periodic c) eqn:EP; cbn [fst fsm dly cnt].
        * destruct (Hper eq_refl) as [Hr1 Hr2]. right. rewrite N.mod_small by lia. repeat split; auto; lia.
        * left. split; [reflexivity|]. right. lia.
    - destruct H as (EP & _ & g & k & rest & _ & _ & -> & Hr & _).
      apply quiet_arms. right. repeat split; auto; lia.
  Qed.

  (* quiet_end pre: the envelope `pre` (oldest cycle first) is empty or ends with rmax + 2 idle cycles *)
  Definition quiet_end (pre : list bool) : Prop :=
    pre = [] \/ exists pre' m, pre = pre' ++ repeat false m /\ rmax c + 2 <= N.of_nat m.

  Lemma quiet_end_armed : forall pre, quiet_end pre -> armed (core_end ld_core_init (false :: false :: pre)).
  Proof.
    intros pre [-> | (pre' & m & -> & Hm)].
    - right. cbn. auto.
    - change (false :: false :: pre' ++ repeat false m) with ((false :: false :: pre') ++ repeat false m).
      rewrite core_end_app. apply quiet_arms_reach; [|exact Hm].
      apply Inv_reach. exists []. apply Inv_init.
  Qed.

  Lemma last_snoc : forall (A : Type) (l : list A) x d, last (l ++ [x]) d = x.
  Proof. induction l as [|a l IH]; intros; [reflexivity|]. cbn [app]. destruct (l ++ [x]) eqn:E.
         - destruct l; discriminate. - rewrite <- E. cbn. rewrite E. rewrite <- E. apply IH. Qed.

  Lemma core_periodic_complete : periodic c = true -> forall st k1 g1 k2 g2, armed st ->
    1 <= k1 -> 1 <= g1 -> 1 <= k2 -> 1 <= g2 ->
    bmin c <= k1 <= bmax c -> rmin c <= k1 + g1 <= rmax c ->
    bmin c <= k2 <= bmax c -> rmin c <= k2 + g2 <= rmax c ->
    last (core_outs st (repeat true (N.to_nat k1) ++ repeat false (N.to_nat g1) ++
                        repeat true (N.to_nat k2) ++ repeat false (N.to_nat g2) ++ [true])) false = true.
  Proof.
    intros EP st k1 g1 k2 g2 Ha K1 G1 K2 G2 B1 R1 B2 R2.
    set (P1 := repeat true (N.to_nat (k1 - 1)) ++ repeat false (N.to_nat g1)).
    set (P2 := repeat true (N.to_nat (k2 - 1)) ++ repeat false (N.to_nat g2)).
    replace (repeat true (N.to_nat k1) ++ repeat false (N.to_nat g1) ++
             repeat true (N.to_nat k2) ++ repeat false (N.to_nat g2) ++ [true])
      with ((true :: P1 ++ true :: P2) ++ [true]).
    2:{ subst P1 P2. replace (N.to_nat k1) with (S (N.to_nat (k1 - 1))) by lia.
        replace (N.to_nat k2) with (S (N.to_nat (k2 - 1))) by lia. cbn [repeat app].
        rewrite <- !app_assoc. cbn [app]. rewrite <- !app_assoc. reflexivity. }
    rewrite core_outs_app. cbn [core_outs]. rewrite last_snoc.
    cbn [core_end]. rewrite core_end_app. cbn [core_end].
    destruct (armed_edge st Ha) as [F1 C1].
    set (st1 := fst (ld_core_step c st true)) in *.
    destruct (period_run st1 k1 g1 EP F1 C1 K1 G1 B1 ltac:(lia)) as (F2 & C2 & _). fold P1 in F2, C2.
    set (s2 := core_end st1 P1) in *.
    assert (Es3 : fsm (fst (ld_core_step c s2 true)) = BURST /\ cnt (fst (ld_core_step c s2 true)) = 1 /\
                  lim (fst (ld_core_step c s2 true)) = true).
    { destruct s2 as [d f n l]. cbn [fsm cnt] in F2, C2. subst f n. unfold ld_core_step. cbn. repeat split. lia. }
    destruct Es3 as (F3 & C3 & L3). set (s3 := fst (ld_core_step c s2 true)) in *.
    destruct (period_run s3 k2 g2 EP F3 C3 K2 G2 B2 ltac:(lia)) as (F4 & C4 & L4). fold P2 in F4, C4, L4.
    set (s4 := core_end s3 P2) in *. rewrite L3 in L4.
    destruct s4 as [d f n l]. cbn [fsm cnt lim] in F4, C4, L4. subst f n l. unfold ld_core_step. cbn. lia.
  Qed.

  Lemma core_single_complete : periodic c = false -> forall st k, armed st ->
    1 <= k -> bmin c <= k <= bmax c ->
    last (core_outs st (repeat true (N.to_nat k) ++ [false])) false = true.
  Proof.
    intros EP st k Ha K B.
    replace (N.to_nat k) with (S (N.to_nat (k - 1))) by lia. cbn [repeat app].
    change (true :: repeat true (N.to_nat (k - 1)) ++ [false]) with ((true :: repeat true (N.to_nat (k - 1))) ++ [false]).
    rewrite core_outs_app. cbn [core_outs]. rewrite last_snoc. cbn [core_end].
    destruct (armed_edge st Ha) as [F1 C1]. set (st1 := fst (ld_core_step c st true)) in *.
    destruct (trues_run (N.to_nat (k - 1)) st1 F1) as (F2 & C2 & _); [lia|].
    set (s2 := core_end st1 (repeat true (N.to_nat (k - 1)))) in *.
    destruct s2 as [d f n l]. cbn [fsm cnt] in F2, C2. subst f. unfold ld_core_step. cbn [fsm cnt lim dly negb].
    assert (E : (n <? bmin c) = false) by lia. rewrite E, EP. reflexivity.
  Qed.

  Lemma last_map_b2n : forall l, last (map b2n l) 0 = b2n (last l false).
  Proof. induction l as [|a [|b t] IH]; try reflexivity. exact IH. Qed.

  Lemma last_app_ne : forall (A : Type) (a b : list A) d, b <> [] -> last (a ++ b) d = last b d.
  Proof. induction a as [|x a IH]; intros b d Hb; [reflexivity|]. cbn [app].
         destruct (a ++ b) eqn:E; [destruct a, b; try discriminate; congruence|]. rewrite <- E.
         cbn. rewrite E. rewrite <- E. apply IH. exact Hb. Qed.

  (* whole detector (inputs = signaling_received words; x, y = the two cycles of synchroniser latency) *)
  Theorem ld_complete_periodic : periodic c = true -> forall pre k1 g1 k2 g2 x y, quiet_end pre ->
    1 <= k1 -> 1 <= g1 -> 1 <= k2 -> 1 <= g2 ->
    bmin c <= k1 <= bmax c -> rmin c <= k1 + g1 <= rmax c ->
    bmin c <= k2 <= bmax c -> rmin c <= k2 + g2 <= rmax c ->
    last (run (ld_step c) ld_init
           (map b2n (pre ++ repeat true (N.to_nat k1) ++ repeat false (N.to_nat g1) ++
                     repeat true (N.to_nat k2) ++ repeat false (N.to_nat g2) ++ [true]) ++ [x; y])) 0 = 1.
  Proof.
    intros EP pre k1 g1 k2 g2 x y Hq K1 G1 K2 G2 B1 R1 B2 R2.
    rewrite full_core. cbn [s0 s1 core ld_init]. rewrite last_map_b2n.
    change (false :: false :: pre ++ ?t) with ((false :: false :: pre) ++ t).
    rewrite core_outs_app. rewrite last_app_ne.
    - rewrite core_periodic_complete; auto. apply quiet_end_armed. exact Hq.
    - destruct (N.to_nat k1) eqn:E; [lia|]. discriminate.
  Qed.

  Theorem ld_complete_single : periodic c = false -> forall pre k x y, quiet_end pre ->
    1 <= k -> bmin c <= k <= bmax c ->
    last (run (ld_step c) ld_init (map b2n (pre ++ repeat true (N.to_nat k) ++ [false]) ++ [x; y])) 0 = 1.
  Proof.
    intros EP pre k x y Hq K B.
    rewrite full_core. cbn [s0 s1 core ld_init]. rewrite last_map_b2n.
    change (false :: false :: pre ++ ?t) with ((false :: false :: pre) ++ t).
    rewrite core_outs_app. rewrite last_app_ne.
    - rewrite core_single_complete; auto. apply quiet_end_armed. exact Hq.
    - destruct (N.to_nat k) eqn:E; [lia|]. discriminate.
  Qed.
End DetComplete.

(* input words of the tie theorems are 1-bit *)
Lemma b2n_words : forall l x y, x < 2 -> y < 2 -> Forall (fun i => i < 2 ^ N.of_nat 1) (map b2n l ++ [x; y]).
Proof.
  intros l x y Hx Hy. apply Forall_app. split.
  - apply Forall_forall. intros i Hi. apply in_map_iff in Hi as (b & <- & _). destruct b; cbn; lia.
  - repeat constructor; cbn; lia.
Qed.
