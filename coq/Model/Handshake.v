(* C04 -- hand models of luna/gateware/usb/usb2/packet.py: USBHandshakeGenerator and
   USBHandshakeDetector, and their specifications.

   Generator ports.  inputs: issue_ack, issue_nak, issue_stall, tx_ready (bits 0..3);
                     outputs: tx_valid (bit 0), tx_data (bits 1..8).
   Detector ports.   inputs: rx_active (bit 0), rx_valid (bit 1), rx_data (bits 2..9);
                     outputs: detected.ack, .nak, .stall, .nyet (bits 0..3).                     *)
From Coq Require Import NArith List Bool.
Import ListNotations.
From LunaLib Require Import Netlist Machine.
Open Scope N_scope.

(* ---- handshake packets (USB 2.0 8.3.1): one byte, PID in the low nibble, its complement above -- *)
Inductive hs := ACK | NAK | STALL | NYET.
Definition pid_of (h : hs) : N := match h with ACK => 2 | NAK => 10 | STALL => 14 | NYET => 6 end.
Definition pid_byte (p : N) : N := p + 16 * (15 - p).
Definition hs_byte (h : hs) : N := pid_byte (pid_of h).
Definition hs_bit (h : hs) : N := match h with ACK => 1 | NAK => 2 | STALL => 4 | NYET => 8 end.

(* ================================ generator ================================================== *)
Definition g_ack (i : N) : bool := N.testbit i 0.
Definition g_nak (i : N) : bool := N.testbit i 1.
Definition g_stall (i : N) : bool := N.testbit i 2.
Definition g_ready (i : N) : bool := N.testbit i 3.

(* the module: FSM IDLE/TRANSMIT (g_tx) + the tx.data register, which keeps its value while idle *)
Record gen_state := { g_tx : bool; g_data : N }.
Definition gen_init : gen_state := {| g_tx := false; g_data := 0 |}.
Definition gen_step (s : gen_state) (i : N) : gen_state * N :=
  let out := b2n (g_tx s) + 2 * g_data s in
  if g_tx s then
    ({| g_tx := negb (g_ready i); g_data := g_data s |}, out)
  else
    (* three independent `If`s: the last assignment wins *)
    let d1 := if g_ack i then 210 (* 0b11010010 *) else g_data s in
    let d2 := if g_nak i then 90 (* 0b01011010 *) else d1 in
    let d3 := if g_stall i then 30 (* 0b00011110 *) else d2 in
    ({| g_tx := g_ack i || g_nak i || g_stall i; g_data := d3 |}, out).

(* the specification: which handshake a request word asks for (STALL over NAK over ACK when several
   strobes coincide) ... *)
Definition gen_request (i : N) : option hs :=
  if g_stall i then Some STALL else if g_nak i then Some NAK else if g_ack i then Some ACK else None.
(* ... and the transmit side: None = idle (tx_valid low, requests are accepted);
   Some h = the one-byte packet hs_byte h is offered (tx_valid high, tx_data = hs_byte h) in every
   cycle up to and including the first one with tx_ready, in which the PHY takes the byte;
   requests made meanwhile are ignored.  tx_data is unspecified (reported as 0) while tx_valid is low. *)
Definition gsp_step (s : option hs) (i : N) : option hs * N :=
  match s with
  | None => (gen_request i, 0)
  | Some h => (if g_ready i then None else Some h, 1 + 2 * hs_byte h)
  end.
Definition gsp_init : option hs := None.
Definition gen_mask (o : N) : N := if N.odd o then o else 0.

Definition gen_enc (s : gen_state) : N := b2n (g_tx s) + 2 * g_data s.
Definition gen_dec (m : N) : gen_state := {| g_tx := N.odd m; g_data := m / 2 |}.

(* ================================ detector =================================================== *)
Definition d_act (i : N) : bool := N.testbit i 0.
Definition d_val (i : N) : bool := N.testbit i 1.
Definition d_dat (i : N) : N := bits i 2 8.

Inductive det_fsm := D_IDLE | D_READ_PID | D_AWAIT | D_IRRELEVANT.
Record det_state := { d_fsm : det_fsm; d_pid : N (* active_pid, 4 bits *); d_out : N (* 4 strobe registers *) }.
Definition det_init : det_state := {| d_fsm := D_IDLE; d_pid := 0; d_out := 0 |}.

(* rx_data[0:4] == ~rx_data[4:8] *)
Definition valid_pid (d : N) : bool := bits d 0 4 =? N.lxor (bits d 4 4) 15.
Definition pid_strobes (p : N) : N :=
  b2n (p =? 2) + 2 * b2n (p =? 10) + 4 * b2n (p =? 14) + 8 * b2n (p =? 6).

Definition det_step (s : det_state) (i : N) : det_state * N :=
  let mk f p o := {| d_fsm := f; d_pid := p; d_out := o |} in
  (match d_fsm s with
   | D_IDLE => mk (if d_act i then D_READ_PID else D_IDLE) (d_pid s) 0
   | D_READ_PID =>
       if negb (d_act i) then mk D_IDLE (d_pid s) 0
       else if d_val i then
         if valid_pid (d_dat i) then mk D_AWAIT (bits (d_dat i) 0 4) 0 else mk D_IRRELEVANT (d_pid s) 0
       else mk D_READ_PID (d_pid s) 0
   | D_AWAIT =>
       if negb (d_act i) then mk D_IDLE (d_pid s) (pid_strobes (d_pid s))
       else if d_val i then mk D_IRRELEVANT (d_pid s) 0
       else mk D_AWAIT (d_pid s) 0
   | D_IRRELEVANT => mk (if d_act i then D_IRRELEVANT else D_IDLE) (d_pid s) 0
   end, d_out s).

(* the specification.  A received packet is a maximal run of rx_active cycles; its bytes are rx_data in
   the rx_valid cycles of the run other than the run's first cycle (UTMI never presents data in the cycle
   RxActive rises).  State: the bytes of the packet in progress (None between packets) and the strobe
   word to show in the next cycle.  A strobe is raised in the cycle after the one in which rx_active
   falls, iff the completed packet is exactly one byte and that byte is a handshake. *)
Definition hs_strobe (b : N) : N :=
  if b =? hs_byte ACK then hs_bit ACK else if b =? hs_byte NAK then hs_bit NAK
  else if b =? hs_byte STALL then hs_bit STALL else if b =? hs_byte NYET then hs_bit NYET else 0.

Definition pk_next (p : option (list N)) (i : N) : option (list N) :=
  match p with
  | None => if d_act i then Some [] else None
  | Some l => if d_act i then Some (if d_val i then l ++ [d_dat i] else l) else None
  end.
(* the packet that is complete in this cycle, if any *)
Definition pk_done (p : option (list N)) (i : N) : option (list N) :=
  match p with Some l => if d_act i then None else Some l | None => None end.

Definition dsp_step (s : option (list N) * N) (i : N) : (option (list N) * N) * N :=
  let (p, o) := s in
  ((pk_next p i, match pk_done p i with Some [b] => hs_strobe b | _ => 0 end), o).
Definition dsp_init : option (list N) * N := (None, 0).

(* all packets of a receive history, in order of completion (for reading the spec; see Handshake_proofs) *)
Fixpoint packets_from (p : option (list N)) (tr : list N) : list (list N) :=
  match tr with
  | [] => []
  | i :: t => match pk_done p i with
              | Some l => l :: packets_from (pk_next p i) t
              | None => packets_from (pk_next p i) t
              end
  end.

Definition fsm_code (f : det_fsm) : N :=
  match f with D_IDLE => 0 | D_READ_PID => 1 | D_AWAIT => 2 | D_IRRELEVANT => 3 end.
Definition det_enc (s : det_state) : N := fsm_code (d_fsm s) + 4 * (d_pid s + 16 * d_out s).
Definition det_dec (m : N) : det_state :=
  {| d_fsm := match m mod 4 with 0 => D_IDLE | 1 => D_READ_PID | 2 => D_AWAIT | _ => D_IRRELEVANT end;
     d_pid := (m / 4) mod 16; d_out := m / 64 |}.
