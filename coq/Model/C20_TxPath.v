(* C20 -- everything the USB2 device transmits is a well-formed, solicited packet.

   Part A.  OneHotMultiplexer (luna/gateware/utils/bus.py) for any number of sources:
            the selector is Amaranth's Encoder (index j iff the valid word is exactly 1<<j, else 0), the
            `mux_signals` follow the selector, the `or_signals` are OR'ed without gating, `pass_signals`
            fan the output's value back to every source.  UTMIInterfaceMultiplexer is the instance
            (valid | data | ready); USBEndpointMultiplexer's tx_mux the instance (valid, first, last | payload | ready).
   Part B.  The transmit path of USBDevice (luna/gateware/usb/usb2/device.py, "Transmitter multiplexing"):
            USBHandshakeGenerator (Model/Handshake.v), USBDataPacketGenerator (Model/Usb2DataTx.v: txo_core) and the
            reset sequencer's chirp source behind the UTMIInterfaceMultiplexer [reset_sequencer; transmitter;
            handshake_generator], with the shared CRC16 unit advanced by the *multiplexer output*
            (data_crc.tx_valid = output.valid & tx_ready, data_crc.tx_data = output.data) and by utmi.rx_valid.
            Its specification: the product of the two transaction-level specification machines (gsp_step, txs_step)
            with the bus owned by whichever is in flight, under the request discipline `txq_env`.
   Part C.  Wire-level specification monitors over a complete device: well-formed packet predicate, the
            "well-formed / single source / solicited / half-duplex" observer `c20_wire_mon`, and the observer
            `c20_disc_mon` that replays the device's internal requests through the specification of part B.

   One list element = one `usb` clock cycle.                                                                  *)
From Coq Require Import NArith List Bool.
Import ListNotations.
From LunaLib Require Import Netlist Bits Affine Machine PackN.
From LunaModel Require Import Crc Handshake Usb2DataTx TokenDet.
Open Scope N_scope.

(* ============================================================================================== *)
(* Part A: the one-hot multiplexer                                                                  *)
Record ohm_src := { s_valid : bool; s_or : N (* or_signals other than valid, as a word *); s_data : N (* mux_signals *) }.
Definition ohm_idle : ohm_src := {| s_valid := false; s_or := 0; s_data := 0 |}.

(* indices of the sources whose valid is high *)
Fixpoint valid_idx (k : nat) (l : list ohm_src) : list nat :=
  match l with
  | [] => []
  | s :: t => (if s_valid s then [k] else []) ++ valid_idx (S k) t
  end.
(* amaranth.lib.coding.Encoder: o = j if exactly bit j of the input is set, otherwise 0 (and n = 1) *)
Definition ohm_sel (l : list ohm_src) : nat := match valid_idx 0 l with [j] => j | _ => 0%nat end.
Definition ohm_out (l : list ohm_src) : ohm_src :=
  {| s_valid := existsb s_valid l;
     s_or := fold_right (fun s acc => N.lor (s_or s) acc) 0 l;
     s_data := s_data (nth (ohm_sel l) l ohm_idle) |}.

(* packed machine of a multiplexer with n sources, `ow` or-signal bits and `dw` data bits per source.
   inputs : per source k (in order) valid (1), or (ow), data (dw); then output.ready (1)
   outputs: valid (1), or (ow), data (dw), then the n passed-back ready bits *)
Fixpoint ohm_srcs (n : nat) (ow dw : N) (i : N) : list ohm_src :=
  match n with
  | O => []
  | S n' => {| s_valid := N.testbit i 0; s_or := bits i 1 ow; s_data := bits i (1 + ow) dw |}
            :: ohm_srcs n' ow dw (N.shiftr i (1 + ow + dw))
  end.
Definition ohm_ready (n : nat) (ow dw : N) (i : N) : bool := N.testbit i (N.of_nat n * (1 + ow + dw)).
Definition ohm_mstep (n : nat) (ow dw : N) (st : unit) (i : N) : unit * N :=
  let o := ohm_out (ohm_srcs n ow dw i) in
  (tt, b2n (s_valid o) + 2 * s_or o + 2 ^ (1 + ow) * s_data o
       + 2 ^ (1 + ow + dw) * (if ohm_ready n ow dw i then N.ones (N.of_nat n) else 0)).
Definition ohm_enc (_ : unit) : N := 0.
Definition ohm_dec (_ : N) : unit := tt.

(* ============================================================================================== *)
(* Part B: the transmit path of USBDevice                                                           *)
(* packed inputs: issue_ack 0, issue_nak 1, issue_stall 2, data_pid 3..4, stream.valid 5, stream.first 6,
   stream.last 7, stream.payload 8..15, utmi.tx_ready 16, utmi.rx_valid 17, utmi.rx_data 18..25,
   (26..28: line_state, connect of the real device, ignored here),
   chirp source valid 40, chirp source data 41..48 (the last two are not ports of the real device: 0 there) *)
Definition pi_dpid (i : N) : N := bits i 3 2.
Definition pi_svalid (i : N) : bool := N.testbit i 5.
Definition pi_first (i : N) : bool := N.testbit i 6.
Definition pi_last (i : N) : bool := N.testbit i 7.
Definition pi_payload (i : N) : N := bits i 8 8.
Definition pi_ready (i : N) : bool := N.testbit i 16.
Definition pi_rxvalid (i : N) : bool := N.testbit i 17.
Definition pi_rxdata (i : N) : N := bits i 18 8.
Definition pi_chirp (i : N) : bool := N.testbit i 40.
Definition pi_chirpd (i : N) : N := bits i 41 8.
(* the words the component models read: Handshake.gen_step (ack nak stall ready) and Usb2DataTx
   (data_pid, valid first last, payload, ready) *)
Definition pi_hs_word (i : N) : N := bits i 0 3 + 8 * b2n (pi_ready i).
Definition pi_tx_word (i : N) : N := pi_dpid i + 4 * bits i 5 3 + 32 * pi_payload i + 8192 * b2n (pi_ready i).
(* a handshake is requested / a data packet is requested (valid with first: payload follows; valid with last only: ZLP) *)
Definition pi_hs_req (i : N) : bool :=
  let hw := pi_hs_word i in g_ack hw || g_nak hw || g_stall hw.
Definition pi_data_req (i : N) : bool :=
  let w := pi_tx_word i in tx_svalid w && (tx_first w || tx_last w).

(* typed outputs *)
Record txp_out := {
  po_valid : bool; po_data : N;          (* utmi.tx_valid, utmi.tx_data *)
  po_sready : bool;                      (* transmitter.stream.ready *)
  po_vrst : bool; po_vdata : bool; po_vhs : bool   (* the three sources' valid lines *)
}.
Definition txp_pack (o : txp_out) : N :=
  b2n (po_valid o) + 2 * po_data o + 512 * b2n (po_sready o)
  + 1024 * b2n (po_vrst o) + 2048 * b2n (po_vdata o) + 4096 * b2n (po_vhs o).
(* tx_data is unspecified while tx_valid is low *)
Definition txp_norm (o : txp_out) : txp_out :=
  {| po_valid := po_valid o; po_data := if po_valid o then po_data o else 0; po_sready := po_sready o;
     po_vrst := po_vrst o; po_vdata := po_vdata o; po_vhs := po_vhs o |}.
Definition txp_maskN (o : N) : N := if N.odd o then o else N.ldiff o 510.

Record txp_state := { p_hs : gen_state; p_core : txo_state; p_crc : list bool }.
Definition txp_init : txp_state := {| p_hs := gen_init; p_core := txo_init; p_crc := reg_init 16 |}.

Definition txp_tstep (s : txp_state) (i : N) : txp_state * txp_out :=
  let w := pi_tx_word i in
  let ready := tx_ready w in
  let '(hs', ho) := gen_step (p_hs s) (pi_hs_word i) in
  let '(c', (txv, txd, srdy, start)) :=
    txo_core (p_core s) (tx_dpid w) (tx_svalid w) (tx_first w) (tx_last w) (tx_payload w) ready (crc_out (p_crc s)) in
  let hv := N.odd ho in
  let m := ohm_out [ {| s_valid := pi_chirp i; s_or := 0; s_data := pi_chirpd i |};
                     {| s_valid := txv; s_or := 0; s_data := txd |};
                     {| s_valid := hv; s_or := 0; s_data := ho / 2 |} ] in
  ({| p_hs := hs'; p_core := c';
      (* USBDataPacketCRC: start, else rx_valid, else tx_valid (= multiplexer output valid & tx_ready) *)
      p_crc := if start then reg_init 16
               else crc_reg_next poly16 (p_crc s)
                      [(pi_rxvalid i, N2bits 8 (pi_rxdata i)); (s_valid m && ready, N2bits 8 (s_data m))] |},
   {| po_valid := s_valid m; po_data := s_data m; po_sready := srdy;
      po_vrst := pi_chirp i; po_vdata := txv; po_vhs := hv |}).
Definition txp_step (s : txp_state) (i : N) : txp_state * N :=
  let (s', o) := txp_tstep s i in (s', txp_pack o).

(* typed runs *)
Fixpoint trun {S O : Type} (step : S -> N -> S * O) (s : S) (tr : list N) : list O :=
  match tr with [] => [] | i :: t => let (s', o) := step s i in o :: trun step s' t end.

(* ---- specification: who owns the bus ---- *)
Definition txq_state := (option hs * txs_state)%type.
Definition txq_init : txq_state := (None, S_IDLE).
Definition txq_idle (q : txq_state) : bool := match q with (None, S_IDLE) => true | _ => false end.

Definition txq_tstep (q : txq_state) (i : N) : txq_state * txp_out :=
  let (h, d) := q in
  let h' := fst (gsp_step h (pi_hs_word i)) in
  let (d', od) := txs_step d (pi_tx_word i) in
  ((h', d'),
   match h, d with
   | Some x, _ =>    (* a handshake is in flight: its byte is on the bus until the PHY takes it *)
       {| po_valid := true; po_data := hs_byte x; po_sready := false; po_vrst := false; po_vdata := false; po_vhs := true |}
   | None, S_IDLE => (* nothing in flight: the bus belongs to the reset sequencer (chirp) *)
       {| po_valid := pi_chirp i; po_data := if pi_chirp i then pi_chirpd i else 0; po_sready := false;
          po_vrst := pi_chirp i; po_vdata := false; po_vhs := false |}
   | None, _ =>      (* a data packet is in flight *)
       {| po_valid := to_txvalid od; po_data := if to_txvalid od then to_txdata od else 0; po_sready := to_sready od;
          po_vrst := false; po_vdata := to_txvalid od; po_vhs := false |}
   end).

(* the request discipline (what a legal host and a single responding endpoint guarantee):
     - nothing in flight: at most one of {handshake request, data request} in a cycle;
     - handshake in flight: no data request, no chirp (further handshake requests are ignored by the generator);
     - data packet in flight: no handshake request, no chirp, the receiver is silent (utmi.rx_valid low: the CRC unit
       gives receive bytes priority), and the producer keeps stream.valid high during the payload (Usb2DataTx.txs_env). *)
Definition txq_env (q : txq_state) (i : N) : bool :=
  match q with
  | (None, S_IDLE) => negb (pi_hs_req i && pi_data_req i)
  | (Some _, S_IDLE) => negb (pi_data_req i) && negb (pi_chirp i)
  | (None, d) => negb (pi_hs_req i) && negb (pi_chirp i) && negb (pi_rxvalid i) && txs_env d (pi_tx_word i)
  | (Some _, _) => false
  end.

(* the packet (as wire bytes) whose last byte the PHY accepts in this cycle *)
Definition txq_done (q : txq_state) (i : N) : option (list N) :=
  match q with
  | (Some x, _) => if g_ready (pi_hs_word i) then Some [hs_byte x] else None
  | (None, d) => match txs_done d (pi_tx_word i) with Some p => Some (tx_wire (fst p) (snd p)) | None => None end
  end.
Fixpoint txq_log (q : txq_state) (tr : list N) : list (list N) :=
  match tr with
  | [] => []
  | i :: t => match txq_done q i with
              | Some p => p :: txq_log (fst (txq_tstep q i)) t
              | None => txq_log (fst (txq_tstep q i)) t
              end
  end.
(* bytes of the packet in flight accepted so far *)
Definition txq_partial (q : txq_state) : list N := match q with (Some _, _) => [] | (None, d) => txs_partial d end.
(* bytes the PHY accepts: tx_data in the cycles with tx_valid & tx_ready *)
Definition txp_accepted (ios : list (N * txp_out)) : list N :=
  map (fun io => po_data (snd io)) (filter (fun io => po_valid (snd io) && pi_ready (fst io)) ios).

(* ============================================================================================== *)
(* Part C: wire-level specification                                                                 *)
Definition data_pid_bytes : list N := [195; 75; 135; 15].     (* DATA0 C3, DATA1 4B, DATA2 87, MDATA 0F *)
Definition hs_list : list hs := [ACK; NAK; STALL; NYET].

(* what the device may put on the bus: a one-byte handshake, or PID ++ payload ++ CRC16(payload) low byte first *)
Definition wf_tx_packet (l : list N) : Prop :=
  (exists h, l = [hs_byte h]) \/
  (exists p payload, In p data_pid_bytes /\ Forall (fun b => b < 256) payload /\ l = tx_wire p payload).

Definition mem_N (x : N) (l : list N) : bool := existsb (N.eqb x) l.
Fixpoint c20_list_eqb (a b : list N) : bool :=
  match a, b with
  | [], [] => true
  | x :: a', y :: b' => (x =? y) && c20_list_eqb a' b'
  | _, _ => false
  end.
Definition is_hs_packetb (l : list N) : bool :=
  match l with [b] => existsb (fun h => b =? hs_byte h) hs_list | _ => false end.
Definition is_data_packetb (l : list N) : bool :=
  match l with
  | p :: rest =>
      let n := (length rest - 2)%nat in
      let payload := firstn n rest in
      mem_N p data_pid_bytes && Nat.leb 2 (length rest) && forallb (fun b => b <? 256) payload
      && c20_list_eqb (skipn n rest) [crc16_usb payload mod 256; crc16_usb payload / 256]
  | [] => false
  end.
Definition wf_tx_packetb (l : list N) : bool := is_hs_packetb l || is_data_packetb l.

(* ---- the transmit half of the wire specification on its own: the bytes the PHY accepts in each completed maximal
        tx_valid run.  State: bytes accepted in the current run (None between runs). ---- *)
Definition txw_step (m : option (list N)) (valid ready : bool) (data : N) : option (list N) * option (list N) :=
  match m with
  | None => (if valid then Some (if ready then [data] else []) else None, None)
  | Some l => if valid then (Some (if ready then l ++ [data] else l), None) else (None, Some l)
  end.
Fixpoint tx_runs (m : option (list N)) (ios : list (N * txp_out)) : list (list N) :=
  match ios with
  | [] => []
  | (i, o) :: t =>
      let (m', fin) := txw_step m (po_valid o) (pi_ready i) (po_data o) in
      match fin with Some l => l :: tx_runs m' t | None => tx_runs m' t end
  end.

(* environment predicate along a typed run *)
Fixpoint tenv_ok {S O : Type} (step : S -> N -> S * O) (env : S -> N -> bool) (s : S) (tr : list N) : bool :=
  match tr with [] => true | i :: t => env s i && tenv_ok step env (fst (step s i)) t end.

(* ---- complete-device observer --------------------------------------------------------------------
   Device ports (props/C20.py, target `usbdev`):
     inputs : rx_active 0, rx_valid 1, rx_data 2..9, tx_ready 10, (line_state, connect, stream and status inputs above)
     outputs: tx_valid 0, tx_data 1..8, v_rst 9, v_data 10, v_hs 11 (valid lines of reset sequencer / data generator /
              handshake generator), addr 12..18 (the device address register),
              rq_ack 19, rq_nak 20, rq_stall 21, rq_dpid 22..23, rq_valid 24, rq_first 25, rq_last 26, rq_payload 27..34
              (the endpoint multiplexer's shared request lines), rq_ready 35 (transmitter.stream.ready)            *)
Definition di_rxa (i : N) : bool := N.testbit i 0.
Definition di_rxv (i : N) : bool := N.testbit i 1.
Definition di_rxd (i : N) : N := bits i 2 8.
Definition di_ready (i : N) : bool := N.testbit i 10.
Definition do_txv (o : N) : bool := N.testbit o 0.
Definition do_txd (o : N) : N := bits o 1 8.
Definition do_srcs (o : N) : N := bits o 9 3.
Definition do_addr (o : N) : N := bits o 12 7.

Inductive wphase := W_IDLE | W_RX (l : list N) | W_TX (l : list N) (src : N).
Record wstate := {
  w_ph : wphase;
  w_credit : bool;     (* a response has been solicited and has not started yet *)
  w_expect : bool;     (* the last host packet was an OUT / SETUP token for this device: its data packet may follow *)
  w_dataok : bool;     (* the last host packet was a well-formed token after which a data packet may legally appear on the
                          bus (own OUT/SETUP, or any token for another device) *)
  w_wait : N           (* cycles since the last packet ended (saturates at the patience bound) *)
}.
Definition w_init : wstate := {| w_ph := W_IDLE; w_credit := false; w_expect := false; w_dataok := false; w_wait := 0 |}.

(* what a completed host packet means: Some (credit, expect, dataok), or None if a legal host cannot have sent it
   (a data packet that does not follow a token) *)
Definition solicits (addr : N) (expect dataok : bool) (pkt : list N) : option (bool * bool * bool) :=
  match classify true addr pkt with
  | EvToken p _ _ => Some (if (p =? PID_IN) || (p =? PID_PING) then (true, false, false) else (false, true, true))
  | EvForeign => Some (false, false, true)
  | _ => if mem_N (hd 0 pkt) data_pid_bytes
         then (if dataok then Some (expect && is_data_packetb pkt, false, false) else None)
         else Some (false, false, false)
  end.

Definition onehot3 (s : N) : bool := (s =? 1) || (s =? 2) || (s =? 4).

(* T = the host's patience (cycles it waits for a response to start before it may send the next packet).
   Result None = the HOST broke its obligations (rx_valid without rx_active; a packet started while the device is
   transmitting, or before the response it solicited had T cycles to start; a data packet without a token);
   ok = false = the DEVICE broke the property. *)
Definition c20_wire_step (T : N) (s : wstate) (i o : N) : option (wstate * bool) :=
  let rxa := di_rxa i in let txv := do_txv o in
  let mk ph c e k w := {| w_ph := ph; w_credit := c; w_expect := e; w_dataok := k; w_wait := w |} in
  let tick w := if w <? T then w + 1 else w in
  if di_rxv i && negb rxa then None else
  match w_ph s with
  | W_IDLE =>
      if rxa then
        if w_credit s && (w_wait s <? T) then None                (* host did not wait for the solicited response *)
        else Some (mk (W_RX []) false (w_expect s) (w_dataok s) 0, negb txv)   (* device starting in the very same cycle: unsolicited *)
      else if txv then
        (* a transmission starts: it needs a pending solicitation, exactly one source, and not the reset sequencer *)
        Some (mk (W_TX (if di_ready i then [do_txd o] else []) (do_srcs o)) false false false 0,
              w_credit s && onehot3 (do_srcs o) && negb (N.testbit (do_srcs o) 0))
      else Some (mk W_IDLE (w_credit s) (w_expect s) (w_dataok s) (tick (w_wait s)), do_srcs o =? 0)
  | W_RX l =>
      if rxa then Some (mk (W_RX (if di_rxv i then l ++ [di_rxd i] else l)) false (w_expect s) (w_dataok s) 0, negb txv)
      else match solicits (do_addr o) (w_expect s) (w_dataok s) l with
           | None => None
           | Some (c, e, k) =>
               if txv then Some (mk W_IDLE false false false 0, false)   (* transmitting in the cycle the host packet ends *)
               else Some (mk W_IDLE c e k 0, do_srcs o =? 0)
           end
  | W_TX l src =>
      if rxa then None                                            (* host talks over the device *)
      else if txv then Some (mk (W_TX (if di_ready i then l ++ [do_txd o] else l) src) false false false 0, do_srcs o =? src)
      else Some (mk W_IDLE false false false 0,
                 wf_tx_packetb l && (do_srcs o =? 0) && Bool.eqb (N.testbit src 2) (Nat.eqb (length l) 1))
  end.

(* ---- N packing of the observer state (for the runtime oracle; at most one byte list is live at a time) ---- *)
Definition w_enc (s : wstate) : N :=
  b2n (w_credit s) + 2 * b2n (w_expect s) + 4 * b2n (w_dataok s) + 8 * (w_wait s mod 65536) +
  524288 * match w_ph s with
           | W_IDLE => 0
           | W_RX l => 1 + 4 * bytes_enc l
           | W_TX l src => 2 + 4 * (src mod 8 + 8 * bytes_enc l)
           end.
Definition w_dec (m : N) : wstate :=
  let r := m / 524288 in
  {| w_credit := N.odd m; w_expect := N.odd (m / 2); w_dataok := N.odd (m / 4); w_wait := (m / 8) mod 65536;
     w_ph := match r mod 4 with
             | 0 => W_IDLE
             | 1 => W_RX (bytes_dec (r / 4))
             | _ => W_TX (bytes_dec (r / 4 / 8)) ((r / 4) mod 8)
             end |}.
Definition c20_wire_mon (T : N) (m i o : N) : option (N * bool) :=
  match c20_wire_step T (w_dec m) i o with
  | Some (s', ok) => Some (w_enc s', ok)
  | None => None
  end.

(* ---- the request-discipline observer: the device's internal request lines, replayed through the
        specification of part B, must respect txq_env and reproduce tx_valid / tx_data / stream.ready / source lines ---- *)
Definition disc_word (i o : N) : N :=
  bits o 19 16 + 65536 * b2n (di_ready i) + 131072 * b2n (di_rxv i) + 262144 * di_rxd i
  + 2 ^ 40 * b2n (N.testbit o 9) + 2 ^ 41 * (if N.testbit o 9 then do_txd o else 0).
Definition disc_obs (o : N) : txp_out :=
  {| po_valid := do_txv o; po_data := do_txd o; po_sready := N.testbit o 35;
     po_vrst := N.testbit o 9; po_vdata := N.testbit o 10; po_vhs := N.testbit o 11 |}.
Definition hs_code (h : option hs) : N :=
  match h with None => 0 | Some ACK => 1 | Some NAK => 2 | Some STALL => 3 | Some NYET => 4 end.
Definition hs_of_code (c : N) : option hs :=
  match c with 0 => None | 1 => Some ACK | 2 => Some NAK | 3 => Some STALL | _ => Some NYET end.
Definition txq_enc (q : txq_state) : N := hs_code (fst q) + 8 * txs_enc (snd q).
Definition txq_dec (m : N) : txq_state := (hs_of_code (m mod 8), txs_dec (m / 8)).
Definition txp_out_eqb (a b : txp_out) : bool :=
  Bool.eqb (po_valid a) (po_valid b) && (po_data a =? po_data b) && Bool.eqb (po_sready a) (po_sready b)
  && Bool.eqb (po_vrst a) (po_vrst b) && Bool.eqb (po_vdata a) (po_vdata b) && Bool.eqb (po_vhs a) (po_vhs b).
(* None = the HOST broke its part of the discipline (receive bytes while the device sends a data packet);
   ok = false = the device's endpoints broke theirs, or the transmit path does not follow its specification *)
Definition c20_disc_mon (m i o : N) : option (N * bool) :=
  let q := txq_dec m in
  let w := disc_word i o in
  if txq_env q w then
    let (q', so) := txq_tstep q w in Some (txq_enc q', txp_out_eqb (txp_norm (disc_obs o)) so)
  else if pi_rxvalid w && negb (txq_idle q) then None
  else Some (m, false).
