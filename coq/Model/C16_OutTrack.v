(* C16 / C13 -- definitions shared by the models of the two OUT stream endpoints
     luna/gateware/usb/usb2/endpoints/isochronous_stream_out.py : USBIsochronousStreamOutEndpoint   (C16, Model/IsoOut.v)
     luna/gateware/usb/usb2/endpoints/stream.py                 : USBStreamOutEndpoint              (C13, Model/StreamOut.v)

   Both endpoints are  USBOutStreamBoundaryDetector (Model/BoundaryDet.v, C28)  -->  a little glue logic  -->
   TransactionalizedFIFO (Model/TxFifo.v, C18).  This file contains what the two specifications have in common:

     rx_in            the raw receive side of an EndpointInterface, one record per clock cycle
     phase / trk_next the PACKET TRACKER: a readable, list-based account of where the receive side is
                      (no packet / packet open with the bytes seen so far / packet just ended / outcome reported)
     fwd, strobes     what reaches the endpoint's buffer logic in a cycle, as a function of the tracker:
                      the boundary detector holds back one byte (it must know which byte is the last one), so a
                      byte is FORWARDED one cycle after the following byte -- or the end of the packet -- was seen,
                      and the packet's complete/invalid report follows one cycle after the last byte
     entry / frame    entries of the output stream (payload byte, first, last) and the framing of a payload
     bd_rel           the relation between the registers of the boundary-detector model and the tracker
                      (proved to be an invariant, with no environment assumption, in C16_OutTrack_proofs.v)

   Receive convention (the one of C28 / DESIGN.md section 3): a packet begins with a byte (valid & next) seen while
   no packet is open, every later cycle with valid & next adds a byte, the first cycle with valid low ends it; the
   complete / invalid strobes of a packet are those seen after the cycle of its first byte up to and including the
   cycle in which valid falls.  Packets without bytes (zero-length data packets) never open the tracker. *)
From Coq Require Import NArith List Bool Arith.
Import ListNotations.
From LunaLib Require Import Netlist Machine.
From LunaLib Require Import PackN.
From LunaModel Require Import BoundaryDet TxFifo.
Open Scope nat_scope.

(* ------------------------------------------------------------------------------------------ *)
(* raw receive side                                                                            *)
Record rx_in := { r_valid : bool; r_next : bool; r_cin : bool; r_iin : bool; r_pay : N }.

Definition rx_bd (r : rx_in) : bd_in :=
  {| i_valid := r_valid r; i_next := r_next r; i_cin := r_cin r; i_iin := r_iin r; i_payload := r_pay r |}.

(* ------------------------------------------------------------------------------------------ *)
(* the packet tracker                                                                          *)
Inductive phase :=
| PIdle                                                (* no packet *)
| POpen (bs : list N) (c v : bool) (fresh : bool)      (* packet open: bytes so far, strobes seen so far;
                                                          fresh = a byte arrived in the previous cycle *)
| PEnded (bs : list N) (c v : bool)                    (* valid fell in the previous cycle *)
| PReport (bs : list N) (c v : bool).                  (* two cycles after the end: the outcome is acted upon *)

Definition trk_start (r : rx_in) : phase :=
  if r_valid r && r_next r then POpen [r_pay r] false false false else PIdle.

Definition trk_next (ph : phase) (r : rx_in) : phase :=
  match ph with
  | PIdle => trk_start r
  | POpen bs c v _ =>
      let c' := c || r_cin r in
      let v' := v || r_iin r in
      if negb (r_valid r) then PEnded bs c' v'
      else if r_next r then POpen (bs ++ [r_pay r]) c' v' true
      else POpen bs c' v' false
  | PEnded bs c v => PReport bs c v      (* a byte presented in this cycle would be lost: excluded by the environment *)
  | PReport _ _ _ => trk_start r
  end.

(* number of bytes of the current packet that were forwarded in EARLIER cycles
   (= index of the byte forwarded in this cycle, if one is) *)
Definition n_fwd (ph : phase) : nat :=
  match ph with
  | PIdle => 0
  | POpen bs _ _ fresh => length bs - (if fresh then 2 else 1)
  | PEnded bs _ _ => length bs - 1
  | PReport bs _ _ => length bs
  end.

(* the byte forwarded to the buffer logic in this cycle: (payload, first of its packet, last of its packet) *)
Definition fwd (ph : phase) : option (N * bool * bool) :=
  match ph with
  | POpen bs _ _ true => Some (nth (length bs - 2) bs 0%N, length bs =? 2, false)
  | PEnded bs _ _ => Some (last bs 0%N, length bs =? 1, true)
  | _ => None
  end.

(* the delayed complete / invalid report *)
Definition strobes (ph : phase) : bool * bool :=
  match ph with PReport _ c v => (c, v) | _ => (false, false) end.

Definition ph_bytes (ph : phase) : list N :=
  match ph with PIdle => [] | POpen bs _ _ _ => bs | PEnded bs _ _ => bs | PReport bs _ _ => bs end.

Definition ph_idle (ph : phase) : bool := match ph with PIdle => true | _ => false end.

(* ------------------------------------------------------------------------------------------ *)
(* output stream entries                                                                       *)
Record entry := { e_data : N; e_first : bool; e_last : bool }.

(* the 10-bit FIFO word of an entry: data[0:8], last = bit 8, first = bit 9 *)
Definition enc_entry (e : entry) : N := (e_data e + 256 * b2n (e_last e) + 512 * b2n (e_first e))%N.

(* a payload as it must appear on the output stream: `f` on its first byte, `l` on its final byte *)
Fixpoint frame (f l : bool) (bs : list N) : list entry :=
  match bs with
  | [] => []
  | [b] => [{| e_data := b; e_first := f; e_last := l |}]
  | b :: t => {| e_data := b; e_first := f; e_last := false |} :: frame false l t
  end.

(* bytes that are known not to be the final one *)
Definition inner (f : bool) (bs : list N) : list entry :=
  match bs with
  | [] => []
  | b :: t => {| e_data := b; e_first := f; e_last := false |}
              :: map (fun x => {| e_data := x; e_first := false; e_last := false |}) t
  end.

(* ------------------------------------------------------------------------------------------ *)
(* boundary-detector registers vs tracker                                                      *)
Definition bd_rel (s : bd_state) (ph : phase) : Prop :=
  let o := out s in
  match ph with
  | PIdle =>
      fsm s = WAIT_FOR_FIRST_BYTE /\ o_valid o = false /\ o_next o = false /\
      o_complete o = false /\ o_invalid o = false
  | PReport bs c v =>
      fsm s = WAIT_FOR_FIRST_BYTE /\ o_valid o = true /\ o_next o = false /\
      o_complete o = c /\ o_invalid o = v
  | POpen bs c v fresh =>
      fsm s = RECEIVE_AND_TRANSMIT /\ bs <> [] /\ buf s = last bs 0%N /\ is_first s = (length bs =? 1) /\
      buf_c s = c /\ buf_i s = v /\ o_complete o = false /\ o_invalid o = false /\ o_last o = false /\
      o_next o = fresh /\ (2 <= length bs -> o_valid o = true) /\
      (o_valid o = false -> fresh = false) /\
      (fresh = true -> 2 <= length bs /\ o_payload o = nth (length bs - 2) bs 0%N /\ o_first o = (length bs =? 2))
  | PEnded bs c v =>
      fsm s = OUTPUT_STROBES /\ bs <> [] /\ buf_c s = c /\ buf_i s = v /\
      o_complete o = false /\ o_invalid o = false /\ o_valid o = true /\ o_next o = true /\ o_last o = true /\
      o_payload o = last bs 0%N /\ o_first o = (length bs =? 1)
  end.

(* what the glue logic reads from the boundary detector, as seen through the tracker *)
Definition bd_fwd (s : bd_state) : option (N * bool * bool) :=
  let o := out s in
  if o_next o && o_valid o then Some (o_payload o, o_first o, o_last o) else None.

(* radix of a packed FIFO state (Model/TxFifo.v: tf_enc), to stack further components above it *)
Definition tf_radix (depth : nat) (width : N) : N :=
  let B := N.of_nat (S depth) in (B * (B * (B * (B * (2 ^ width * (2 ^ width) ^ N.of_nat (S depth))))))%N.

(* ------------------------------------------------------------------------------------------ *)
(* Fast packing for lock-step ties: every radix is a power of two, so decoding is shifting and
   masking (the certified reachability check decodes the model state twice per transition).    *)
Open Scope N_scope.

Definition ptr_bits (depth : nat) : N := N.size (N.of_nat depth).

(* FIFO state: four pointers of ptr_bits each, the 10-bit read register, depth+1 cells of 10 bits *)
Definition tf_enc2 (depth : nat) (st : tf_state) : N :=
  let B := 2 ^ ptr_bits depth in
  PackN.pk B (N.of_nat (tf_cw st)) (PackN.pk B (N.of_nat (tf_w st)) (PackN.pk B (N.of_nat (tf_cr st))
    (PackN.pk B (N.of_nat (tf_r st)) (PackN.pk (2 ^ 10) (tf_rdata st) (pack (2 ^ 10) (tf_mem st)))))).

Definition tf_bits2 (depth : nat) : N := 4 * ptr_bits depth + 10 + 10 * N.of_nat (S depth).

Fixpoint unpack2 (w : N) (k : nat) (n : N) : list N :=
  match k with
  | O => []
  | S k' => N.land n (N.ones w) :: unpack2 w k' (N.shiftr n w)
  end.

Definition tf_dec2 (depth : nat) (x : N) : tf_state :=
  let pw := ptr_bits depth in
  let x1 := N.shiftr x pw in let x2 := N.shiftr x1 pw in let x3 := N.shiftr x2 pw in let x4 := N.shiftr x3 pw in
  {| tf_cw := N.to_nat (N.land x (N.ones pw)); tf_w := N.to_nat (N.land x1 (N.ones pw));
     tf_cr := N.to_nat (N.land x2 (N.ones pw)); tf_r := N.to_nat (N.land x3 (N.ones pw));
     tf_rdata := N.land x4 (N.ones 10);
     tf_mem := unpack2 10 (S depth) (N.shiftr x4 10) |}.

(* boundary-detector state: BoundaryDet.bd_dec with shifts and masks *)
Definition bd_dec2 (m : N) : bd_state :=
  let f := N.land m (N.ones 2) in let m := N.shiftr m 2 in
  let v := N.land m (N.ones 1) in let m := N.shiftr m 1 in
  let n := N.land m (N.ones 1) in let m := N.shiftr m 1 in
  let fi := N.land m (N.ones 1) in let m := N.shiftr m 1 in
  let la := N.land m (N.ones 1) in let m := N.shiftr m 1 in
  let co := N.land m (N.ones 1) in let m := N.shiftr m 1 in
  let iv := N.land m (N.ones 1) in let m := N.shiftr m 1 in
  let isf := N.land m (N.ones 1) in let m := N.shiftr m 1 in
  let bc := N.land m (N.ones 1) in let m := N.shiftr m 1 in
  let bi := N.land m (N.ones 1) in let m := N.shiftr m 1 in
  let pl := N.land m (N.ones 8) in let m := N.shiftr m 8 in
  {| fsm := fsm_of f;
     out := {| o_valid := nb v; o_next := nb n; o_first := nb fi; o_last := nb la;
               o_complete := nb co; o_invalid := nb iv; o_payload := pl |};
     buf := m; is_first := nb isf; buf_c := nb bc; buf_i := nb bi |}.
