(* C12 -- endpoints only act on tokens for their own endpoint number: non-interference.

   Every endpoint behind USBEndpointMultiplexer (luna/gateware/usb/usb2/endpoint.py) sees ALL tokens, handshakes
   and received data of the device (the multiplexer broadcasts them).  The property says that what an endpoint
   does is a function of ITS OWN traffic only: running the endpoint on a mixed history gives, in every cycle,
   the outputs it gives on the history's PROJECTION on that endpoint, in which every cycle that belongs to another
   endpoint's transaction is replaced by a quiet cycle (no token / handshake / response strobe; the endpoint's
   local inputs -- its data source, the transmitter's ready -- unchanged).

   Part 1: a generic statement for Mealy machines (any state/input/output types): a relation between the state in
           the mixed run and the state in the projected run that is preserved by own cycles (same input) and by
           foreign cycles (input vs. its quiet version), with equal outputs, under a "legal host" predicate that may
           look at the state, the previous and the current input.
   Part 2: the instance for the status IN endpoint (luna/gateware/usb/usb2/endpoints/status.py; the FSM model is
           Model/SignalIn.v of C17), through a `view` of the input word (the five things the FSM reads).
   Part 3: packed machine "endpoint alone on the projection" for the tie against the real multiplexer netlist.

   Definitions only (proofs: C12_EpIsolation_proofs.v). *)
From Coq Require Import NArith List Bool.
Import ListNotations.
From LunaLib Require Import Netlist Machine.
From LunaModel Require Import SignalIn.
Open Scope N_scope.

(* ------------------------------------------------------------------------------------------------ *)
(* Part 1: generic                                                                                   *)
Section Generic.
  Context {S I O : Type}.
  Variable step : S -> I -> S * O.
  Variable mine : I -> bool.          (* the cycle belongs to a transaction of this endpoint *)
  Variable quiet : I -> I.            (* the same cycle with the bus strobes removed *)
  Variable legal : S -> I -> I -> bool.   (* state of the mixed run, previous input, current input *)

  Definition proj (i : I) : I := if mine i then i else quiet i.

  Fixpoint grun (s : S) (tr : list I) : list O :=
    match tr with [] => [] | i :: t => let (s', o) := step s i in o :: grun s' t end.

  Fixpoint legal_run (s : S) (prev : I) (tr : list I) : bool :=
    match tr with
    | [] => true
    | i :: t => legal s prev i && legal_run (fst (step s i)) i t
    end.
End Generic.

(* ------------------------------------------------------------------------------------------------ *)
(* Part 2: the status IN endpoint                                                                    *)

(* what the FSM of USBSignalInEndpoint reads from its inputs in one cycle *)
Record view := mkV {
  v_sig : N;        (* the signal to report (local input) *)
  v_req : bool;     (* packet_requested = tokenizer.endpoint == number & is_in & ready_for_response *)
  v_rdy : bool;     (* tx.ready (local: the transmitter's pace) *)
  v_tok : bool;     (* tokenizer.new_token *)
  v_ack : bool      (* handshakes_in.ack *) }.

Section StatusEndpoint.
  Variable W : N.
  Variable big : bool.
  Variable ep : N.

  Definition si_view (i : N) : view :=
    mkV (si_signal W i) (si_req W ep i) (si_ready W i) (si_newtok W i) (si_ack W i).

  (* SignalIn.si_next / si_out, reading the view instead of the packed word (sv_step_view: they agree) *)
  Definition sv_next (s : si_state) (v : view) : si_state :=
    match s_fsm s with
    | S_IDLE =>
        if v_req v then {| s_fsm := S_TX; s_bt := 0; s_lat := v_sig v; s_tog := s_tog s |} else s
    | S_TX =>
        if v_rdy v then
          {| s_fsm := if s_bt s + 1 =? nb W then S_WAIT else S_TX; s_bt := (s_bt s + 1) mod 2 ^ bw W;
             s_lat := s_lat s; s_tog := s_tog s |}
        else s
    | S_WAIT =>
        {| s_fsm := if v_tok v then S_RETX else if v_ack v then S_IDLE else S_WAIT;
           s_bt := s_bt s; s_lat := s_lat s; s_tog := xorb (s_tog s) (v_ack v) |}
    | S_RETX =>
        if v_req v then {| s_fsm := S_TX; s_bt := 0; s_lat := s_lat s; s_tog := s_tog s |} else s
    end.
  Definition sv_out (s : si_state) (v : view) : N :=
    si_pack (in_tx s) (in_tx s && (s_bt s =? 0)) (in_tx s && (s_bt s + 1 =? nb W)) (si_payload W big s) (s_tog s)
            (match s_fsm s with S_WAIT => v_ack v | _ => false end).
  Definition sv_step (s : si_state) (v : view) : si_state * N := (sv_next s v, sv_out s v).

  (* a cycle of the mixed history, as this endpoint sees it: (tokenizer.endpoint == my number, view) *)
  Definition cyc : Type := (bool * view)%type.
  Definition c_mine (c : cyc) : bool := fst c.
  (* the quiet version: no request, no token, no handshake; signal and tx.ready as they were.  In a history addressed to this
     endpoint only, tokenizer.endpoint keeps this endpoint's number. *)
  Definition quietv (v : view) : view := mkV (v_sig v) false (v_rdy v) false false.
  Definition c_quiet (c : cyc) : cyc := (true, quietv (snd c)).
  Definition c_step (s : si_state) (c : cyc) : si_state * N := sv_step s (snd c).

  (* Legal host / token detector guarantees, on the MIXED history:
       L0  a request needs tokenizer.endpoint == my number                      (definition of packet_requested)
       L1  tokenizer.endpoint changes only in a cycle with new_token            (TokenDetector registers both at one edge)
       L2  new_token and ack never coincide                                     (two packets cannot end in the same cycle)
       L3  no token arrives while this endpoint is transmitting                 (half-duplex bus)
       L4  ready_for_response never coincides with new_token                    (it follows an inter-packet delay) *)
  Definition c_legal (s : si_state) (prev cur : cyc) : bool :=
    (c_mine cur || negb (v_req (snd cur))) &&
    (Bool.eqb (c_mine prev) (c_mine cur) || v_tok (snd cur)) &&
    negb (v_tok (snd cur) && v_ack (snd cur)) &&
    negb (v_tok (snd cur) && in_tx s) &&
    negb (v_tok (snd cur) && v_req (snd cur)).

  (* relation between the state in the mixed run (left) and in the projected run (right):
     equal, or -- inside a foreign transaction that began while a packet awaited its ACK -- the mixed run has already
     noticed "new token, no ACK: retransmit" while the projected run will notice it at this endpoint's next token *)
  Definition c_rel (prev : cyc) (s s' : si_state) : Prop :=
    (s = s' /\ (c_mine prev = false -> s_fsm s <> S_TX /\ s_fsm s <> S_WAIT)) \/
    (c_mine prev = false /\ s_fsm s = S_RETX /\ s_fsm s' = S_WAIT /\
     s_bt s = s_bt s' /\ s_lat s = s_lat s' /\ s_tog s = s_tog s').

  (* ---- Part 3: packed machine for the tie: the endpoint ALONE on the PROJECTION of the shared-side inputs.
     Input word: as SignalIn (signal[W] endpoint[4] is_in rfr new_token ack tx_ready).  State: (endpoint state,
     previous tokenizer.endpoint).  Output word: as SignalIn (si_pack). ---- *)
  Definition cyc_of (i : N) : cyc := (si_ep W i =? ep, si_view i).
  Definition al_step (st : si_state * N) (i : N) : (si_state * N) * N :=
    let c := proj c_mine c_quiet (cyc_of i) in
    ((sv_next (fst st) (snd c), si_ep W i), sv_out (fst st) (snd c)).
  (* the legal-host predicate on packed words; L1 in the stronger form "tokenizer.endpoint changes only with new_token" *)
  Definition al_env (st : si_state * N) (i : N) : bool :=
    ((si_ep W i =? snd st) || si_newtok W i) &&
    negb (si_newtok W i && si_ack W i) &&
    negb (si_newtok W i && in_tx (fst st)) &&
    negb (si_newtok W i && si_rfr W i).
  Definition al_enc (st : si_state * N) : N := snd st + 16 * si_enc W (fst st).
  Definition al_dec (m : N) : si_state * N := (si_dec W (m / 16), m mod 16).
  Definition al_wf (st : si_state * N) : Prop := s_bt (fst st) < 2 ^ bw W /\ snd st < 16.
  Definition al_init : si_state * N := (si_init, 0).
End StatusEndpoint.

(* ------------------------------------------------------------------------------------------------ *)
(* Part 4: non-interference of a NETLIST by self-composition (used for the stream IN endpoint, for which no
   hand-proved instance of Part 1 exists).  The monitor of an R-monitor obligation carries a second copy of the
   same packed machine, feeds it the PROJECTION of every input word, and demands equal (normalised) outputs; a small
   auxiliary state (previous tokenizer.endpoint, cycles since the last new_token) evaluates the legal-host
   predicate, which may read the mixed run's output word (L3: no token while tx.valid).                          *)
Section SelfComposition.
  Variable step : N -> N -> N * N.
  Variable projw : N -> N.                 (* projection of an input word on the observed endpoint *)
  Variable normw : N -> N.                 (* output normalisation (payload is don't-care while valid = 0) *)
  Variable legalw : N -> N -> N -> bool.   (* auxiliary state, input word, output word of the mixed run *)
  Variable auxnext : N -> N -> N.          (* auxiliary state, input word *)
  Definition AUXR : N := 64.

  Definition sc_mon (m i o : N) : option (N * bool) :=
    let aux := m mod AUXR in
    let s2 := m / AUXR in
    if legalw aux i o then
      let (s2', o2) := step s2 (projw i) in
      Some (auxnext aux i mod AUXR + AUXR * s2', normw o =? normw o2)
    else None.

  Fixpoint sc_legal_run (s aux : N) (tr : list N) : bool :=
    match tr with
    | [] => true
    | i :: t => let (s', o) := step s i in legalw aux i o && sc_legal_run s' (auxnext aux i mod AUXR) t
    end.
End SelfComposition.

(* Stream IN endpoint behind the multiplexer: input word
     stream.valid[0] stream.last[1] stream.payload[2..9] tokenizer.endpoint[10..13] is_in[14] ready_for_response[15]
     new_token[16] ack[17] tx.ready[18]
   output word: stream.ready[0] tx.valid[1] tx.first[2] tx.last[3] handshakes_out.nak[4] tx_pid_toggle[5..6] tx.payload[7..14] *)
Definition sin_proj (ep i : N) : N :=
  if bits i 10 4 =? ep then i
  else bits i 0 10 + 1024 * ep + 16384 * bits i 14 1 + 262144 * bits i 18 1.
Definition sin_norm (o : N) : N := if N.testbit o 1 then o else N.land o 127.
(* aux = previous endpoint (4 bits) + 16 * min(cycles since new_token, 3) *)
Definition sin_legal (aux i o : N) : bool :=
  let pe := aux mod 16 in let age := aux / 16 in
  let tok := N.testbit i 16 in let ack := N.testbit i 17 in let rfr := N.testbit i 15 in
  ((bits i 10 4 =? pe) || tok) &&            (* L1 *)
  negb (tok && ack) &&                        (* L2 *)
  negb (tok && N.testbit o 1) &&              (* L3: no token while tx.valid *)
  negb (rfr && (tok || (age <? 2))).          (* L4/L5: ready_for_response at least two cycles after new_token *)
Definition sin_aux (aux i : N) : N :=
  let age := aux / 16 in
  bits i 10 4 + 16 * (if N.testbit i 16 then 0 else if age <? 3 then age + 1 else 3).
Definition sin_aux0 : N := 0 + 16 * 3.

(* Referee for the stream IN endpoint (word layout as above), no environment assumption: the endpoint requests a NAK only in a cycle
   whose token carries exactly its own 4-bit number, is an IN and is ready for response; a transmission (tx.valid rising) starts only
   in such a cycle (zero-length packet) or in the cycle after it.  Monitor state: tx.valid and `own token` of the previous cycle. *)
Definition sin_own_mon (ep m i o : N) : option (N * bool) :=
  let tok := (bits i 10 4 =? ep) && N.testbit i 14 && N.testbit i 15 in
  let pv := N.testbit m 0 in let pt := N.testbit m 1 in
  let v := N.testbit o 1 in let nak := N.testbit o 4 in
  Some (b2n v + 2 * b2n tok, (negb nak || tok) && (negb (v && negb pv) || tok || pt)).
