From Coq Require Import NArith Arith List Bool Lia.
Import ListNotations.
From LunaLib Require Import Netlist Bits Affine Machine.
From LunaModel Require Import Crc.

Lemma crc_update_app : forall poly reg a b,
  crc_update poly reg (a ++ b) = crc_update poly (crc_update poly reg a) b.
Proof. intros. unfold crc_update, crc_shifts. apply fold_left_app. Qed.

(* ---- USB2 CRC16 module: events of a packet ------------------------------------------------ *)
Inductive crc_ev := EvIdle | EvRx (b : N) | EvTx (b : N).

Definition crc16_in (e : crc_ev) : N :=
  match e with
  | EvIdle => 0
  | EvRx b => N.shiftl (trunc 8 b) 1 + N.shiftl 1 9
  | EvTx b => N.shiftl (trunc 8 b) 10 + N.shiftl 1 18
  end%N.
Definition crc16_start : N := 1%N.

Definition ev_bytes (evs : list crc_ev) : list N :=
  flat_map (fun e => match e with EvIdle => [] | EvRx b => [trunc 8 b] | EvTx b => [trunc 8 b] end) evs.

(* Rather than unfolding bit arithmetic by hand, the field decoding of each event word is checked
   for all byte values by computation. *)
Lemma crc16_in_rx_ok : forall b, (b < 256)%N ->
  let i := crc16_in (EvRx b) in
  (bits i 0 1 = 0 /\ bits i 1 8 = b /\ bits i 9 1 = 1)%N.
Proof.
  intros b Hb.
  assert (H : forall_bits 8 (fun b => let i := crc16_in (EvRx b) in
             N.eqb (bits i 0 1) 0 && N.eqb (bits i 1 8) b && N.eqb (bits i 9 1) 1) = true)
    by (vm_compute; reflexivity).
  pose proof (forall_bits_sound 8 _ H b Hb) as E. cbv beta zeta in E.
  apply andb_true_iff in E as [E E3]. apply andb_true_iff in E as [E1 E2].
  apply N.eqb_eq in E1, E2, E3. auto.
Qed.

Lemma crc16_in_tx_ok : forall b, (b < 256)%N ->
  let i := crc16_in (EvTx b) in
  (bits i 0 1 = 0 /\ bits i 9 1 = 0 /\ bits i 10 8 = b /\ bits i 18 1 = 1)%N.
Proof.
  intros b Hb.
  assert (H : forall_bits 8 (fun b => let i := crc16_in (EvTx b) in
             N.eqb (bits i 0 1) 0 && N.eqb (bits i 9 1) 0 && N.eqb (bits i 10 8) b && N.eqb (bits i 18 1) 1) = true)
    by (vm_compute; reflexivity).
  pose proof (forall_bits_sound 8 _ H b Hb) as E. cbv beta zeta in E.
  apply andb_true_iff in E as [E E4]. apply andb_true_iff in E as [E E3]. apply andb_true_iff in E as [E1 E2].
  apply N.eqb_eq in E1, E2, E3, E4. auto.
Qed.

Lemma trunc8_lt : forall b, (trunc 8 b < 256)%N.
Proof. intros. unfold trunc. rewrite N.land_ones. change (2 ^ 8)%N with 256%N. apply N.mod_lt. discriminate. Qed.

Lemma crc16_in_trunc : forall e,
  crc16_in e = match e with EvIdle => 0%N | EvRx b => crc16_in (EvRx (trunc 8 b)) | EvTx b => crc16_in (EvTx (trunc 8 b)) end.
Proof.
  destruct e; simpl; try reflexivity; unfold trunc; rewrite <- N.land_assoc, N.land_diag; reflexivity.
Qed.

Lemma crc16mod_event : forall reg e,
  fst (crc16mod_step reg (crc16_in e)) =
  crc_update poly16 reg (bits_of_units 8 (ev_bytes [e])).
Proof.
  intros reg e. rewrite crc16_in_trunc. destruct e as [|b|b].
  - reflexivity.
  - pose proof (crc16_in_rx_ok (trunc 8 b) (trunc8_lt b)) as [H0 [H1 H9]].
    unfold crc16mod_step. cbn [fst]. rewrite H0, H1, H9. cbn [N.odd crc_reg_next].
    cbn [ev_bytes flat_map bits_of_units app]. rewrite app_nil_r. reflexivity.
  - pose proof (crc16_in_tx_ok (trunc 8 b) (trunc8_lt b)) as [H0 [H9 [H10 H18]]].
    unfold crc16mod_step. cbn [fst]. rewrite H0, H9, H10, H18. cbn [N.odd crc_reg_next].
    cbn [ev_bytes flat_map bits_of_units app]. rewrite app_nil_r. reflexivity.
Qed.

Lemma ev_bytes_cons : forall e evs, ev_bytes (e :: evs) = ev_bytes [e] ++ ev_bytes evs.
Proof. intros. unfold ev_bytes. cbn [flat_map]. rewrite app_nil_r. reflexivity. Qed.

Lemma bits_of_units_app : forall w a b, bits_of_units w (a ++ b) = bits_of_units w a ++ bits_of_units w b.
Proof. intros. unfold bits_of_units. apply flat_map_app. Qed.

Lemma crc16mod_events : forall evs reg,
  run_state crc16mod_step reg (map crc16_in evs) =
  crc_update poly16 reg (bits_of_units 8 (ev_bytes evs)).
Proof.
  induction evs as [|e evs IH]; intros reg; [reflexivity|].
  cbn [map run_state]. rewrite IH, crc16mod_event. rewrite (ev_bytes_cons e evs), bits_of_units_app.
  rewrite crc_update_app. reflexivity.
Qed.

(* The module-level statement: a start strobe followed by any interleaving of idle cycles and
   received / transmitted bytes leaves, on the crc output, the standard CRC16 of exactly those bytes. *)
Theorem crc16mod_standard : forall evs reg0 more,
  nth (S (length evs)) (run crc16mod_step reg0 (crc16_start :: map crc16_in evs ++ [more])) 0%N
  = crc16_usb (ev_bytes evs).
Proof.
  intros evs reg0 more.
  cbn [run]. unfold crc16mod_step at 1. change (bits crc16_start 0 1) with 1%N. cbn [N.odd].
  cbn [nth]. rewrite run_app.
  rewrite app_nth2; rewrite run_length, map_length; [|lia]. rewrite Nat.sub_diag.
  rewrite crc16mod_events. cbn [run]. unfold crc16mod_step at 1. cbn [nth].
  unfold crc_out, crc16_usb, crc_bits, crc_update, reg_init. reflexivity.
Qed.
