(* C19 -- proofs about the USBResetSequencer model (Model/ResetSeq.v). *)
From Coq Require Import NArith ZArith List Bool Lia ZifyBool ZifyN.
Import ListNotations.
From LunaLib Require Import Netlist Machine PackN.
From LunaModel Require Import ResetSeq.
Open Scope N_scope.
Ltac Zify.zify_post_hook ::= Z.div_mod_to_equations.

(* ------------------------------------------------------------------------------------------ *)
(* Packing facts for the R lock-step obligations                                              *)
Lemma fsm_n_lt : forall f, fsm_n f < 16.
Proof. destruct f; reflexivity. Qed.
Lemma n_fsm_n : forall f, n_fsm (fsm_n f) = f.
Proof. destruct f; reflexivity. Qed.
Lemma speed_n_lt : forall s, speed_n s < 4.
Proof. destruct s; reflexivity. Qed.
Lemma opmode_n_lt : forall s, opmode_n s < 4.
Proof. destruct s; reflexivity. Qed.
Lemma b2n_lt : forall b, b2n b < 2.
Proof. destruct b; reflexivity. Qed.
Lemma n_bool_b2n : forall b, n_bool (b2n b) = b.
Proof. destruct b; reflexivity. Qed.

Lemma rs_dec_enc : forall K st, rs_wf K st -> rs_dec K (rs_enc K st) = st.
Proof.
  intros K [f t l v wh td sp op tm] (Ht & Hl & Hv). cbn [fsm timer lst vp was_hs tddis speed opmode term] in *.
  unfold rs_dec, rs_enc. cbn [fsm timer lst vp was_hs tddis speed opmode term]. cbv zeta.
  repeat (rewrite ?pk_mod, ?pk_div by
    (try assumption; try apply fsm_n_lt; try apply b2n_lt; try apply speed_n_lt; try apply opmode_n_lt)).
  rewrite n_fsm_n, !n_bool_b2n. destruct sp, op; reflexivity.
Qed.

Lemma inc_lt : forall K x, inc K x < 2 ^ tw K.
Proof. intros. unfold inc. pose proof (pow2_pos (tw K)). destruct (x + 1 <? 2 ^ tw K) eqn:E; lia. Qed.

Lemma rs_wf_next : forall K st i, rs_wf K st -> rs_wf K (rs_next K st i).
Proof.
  intros K [f t l v wh td sp op tm] i (Ht & Hl & Hv). cbn [fsm timer lst vp was_hs tddis speed opmode term] in *.
  pose proof (inc_lt K t) as It. pose proof (inc_lt K l) as Il.
  assert (P : 0 < 2 ^ tw K) by apply pow2_pos.
  unfold rs_wf. destruct f; cbn [rs_next fsm timer lst vp was_hs tddis speed opmode term];
    repeat match goal with
           | |- context [if ?b then _ else _] => destruct b
           end; cbn [fsm timer lst vp was_hs tddis speed opmode term]; repeat split; try assumption; try lia.
Qed.

Lemma rs_wf_step : forall K st w, rs_wf K st -> rs_wf K (fst (rs_step K st w)).
Proof. intros. unfold rs_step. cbn [fst]. apply rs_wf_next. assumption. Qed.

Lemma rs_wf_init : forall K, rs_wf K rs_init.
Proof. intro K. unfold rs_wf, rs_init. cbn. pose proof (pow2_pos (tw K)). lia. Qed.

(* the packed run is the typed run, cycle by cycle *)
Lemma rs_run_trace : forall K tr st,
  run (rs_step K) st tr = map (fun c => pack_out (c_out c)) (rs_trace K st (map decode_in tr)).
Proof.
  induction tr as [|w t IH]; intro st; [reflexivity|].
  cbn [run map rs_trace rs_step c_out]. unfold rs_step. cbn [c_out]. rewrite IH. reflexivity.
Qed.

(* an environment restriction that only looks at the input word *)
Lemma env_ok_of_Forall : forall St (mstep : St -> N -> St * N) (P : N -> bool) tr s,
  Forall (fun i => P i = true) tr -> env_ok St mstep (fun _ i => P i) s tr = true.
Proof.
  induction tr as [|i t IH]; intros s H; cbn [env_ok]; [reflexivity|].
  inversion H as [|? ? Hi Ht]; subst. rewrite Hi. cbn [andb]. apply IH. exact Ht.
Qed.

(* ------------------------------------------------------------------------------------------ *)
(* Generic facts about the history functions                                                  *)

(* ---------------- generic facts about the history functions ---------------- *)
Lemma streak_cons : forall P c h, streak P (c :: h) = if P c then N.succ (streak P h) else 0.
Proof. reflexivity. Qed.

Lemma drop_0 : forall h, drop 0 h = h.
Proof. destruct h; reflexivity. Qed.

Lemma drop_succ : forall n c h, drop (n + 1) (c :: h) = drop n h.
Proof.
  intros. cbn [drop]. destruct (n + 1 =? 0) eqn:E; [lia|].
  replace (N.pred (n + 1)) with n by lia. reflexivity.
Qed.

Section Facts.
  Variable K : rs_consts.

  Lemma inc_le : forall x, inc K x <= x + 1.
  Proof. intro x. unfold inc. destruct (x + 1 <? 2 ^ tw K); lia. Qed.

  Lemma c3_lt : c_3ms K < 2 ^ tw K.
  Proof. unfold tw. apply N.size_gt. Qed.

  Lemma inc_small : forall x, x < c_3ms K -> inc K x = x + 1.
  Proof. intros x H. unfold inc. pose proof c3_lt. destruct (x + 1 <? 2 ^ tw K) eqn:E; lia. Qed.

  Definition mkcyc (st : rs_state) (i : rs_in) : cyc := {| c_in := i; c_out := rs_outs K st i |}.

  (* register classes of a state, shaped like the observable classes of a cycle *)
  Definition r_hs (st : rs_state) : bool :=
    match speed st, opmode st, term st with HIGH, NORMAL, false => true | _, _, _ => false end.
  Definition r_fs (st : rs_state) : bool :=
    match speed st, opmode st, term st with FULL, NORMAL, true | LOW, NORMAL, true => true | _, _, _ => false end.
  Definition r_chirp (st : rs_state) : bool := match opmode st with CHIRP => true | _ => false end.

  Lemma hs_op_mk : forall st i, hs_op (mkcyc st i) = r_hs st. Proof. reflexivity. Qed.
  Lemma fs_ls_mk : forall st i, fs_ls_op (mkcyc st i) = r_fs st. Proof. reflexivity. Qed.
  Lemma chirpmode_mk : forall st i, chirpmode (mkcyc st i) = r_chirp st. Proof. reflexivity. Qed.
  Lemma txvalid_mk : forall st i, txvalid (mkcyc st i) = match fsm st with DEVICE_CHIRP => true | _ => false end.
  Proof. reflexivity. Qed.
  Lemma susp_mk : forall st i, susp_out (mkcyc st i) = match fsm st with SUSPENDED => true | _ => false end.
  Proof. reflexivity. Qed.
  Lemma reset_mk : forall st i, reset_out (mkcyc st i) = o_reset (rs_outs K st i). Proof. reflexivity. Qed.
  Lemma line_mk : forall st i, c_line (mkcyc st i) = i_line i. Proof. reflexivity. Qed.
  Lemma se0_mk : forall st i, se0 (mkcyc st i) = is_se0 (i_line i). Proof. reflexivity. Qed.
  Lemma idle_mk : forall st i, idle (mkcyc st i) = bus_idle (speed st) (i_line i). Proof. reflexivity. Qed.
  Lemma hs_idle_mk : forall st i, hs_idle (mkcyc st i) = r_hs st && is_se0 (i_line i). Proof. reflexivity. Qed.
  Lemma restr_mk : forall st i, c_restricted (mkcyc st i) = restricted i. Proof. reflexivity. Qed.

  Lemma r_fs_not_hs : forall st, r_fs st = true -> r_hs st = false.
  Proof. intros [f t l v wh td sp op tm]. unfold r_fs, r_hs. cbn. destruct sp, op, tm; congruence. Qed.
  Lemma r_fs_not_chirp : forall st, r_fs st = true -> r_chirp st = false.
  Proof. intros [f t l v wh td sp op tm]. unfold r_fs, r_chirp. cbn. destruct sp, op, tm; congruence. Qed.
  Lemma r_hs_not_chirp : forall st, r_hs st = true -> r_chirp st = false.
  Proof. intros [f t l v wh td sp op tm]. unfold r_hs, r_chirp. cbn. destruct sp, op, tm; congruence. Qed.
  Lemma r_fs_speed : forall st, r_fs st = true -> speed st <> HIGH.
  Proof. intros [f t l v wh td sp op tm]. unfold r_fs. cbn. destruct sp, op, tm; congruence. Qed.

  (* ---- streaks ---- *)
  Lemma streak_step : forall P n c h (b : bool),
    n <= streak P h -> (b = true -> P c = true) ->
    (if b then inc K n else 0) <= streak P (c :: h).
  Proof.
    intros P n c h b H Hb. rewrite streak_cons. destruct b; [|lia].
    rewrite (Hb eq_refl). pose proof (inc_le n). lia.
  Qed.

  (* ---- hs_idle_ago ---- *)
  Lemma hs_idle_ago_cons : forall n c h, hs_idle_ago K n h -> hs_idle_ago K (n + 1) (c :: h).
  Proof. intros n c h H. unfold hs_idle_ago in *. rewrite drop_succ. exact H. Qed.

  Lemma hs_idle_ago_0 : forall u rest, hs_op u = true -> c_3ms K <= streak hs_idle rest -> hs_idle_ago K 0 (u :: rest).
  Proof. intros. unfold hs_idle_ago. rewrite drop_0. split; assumption. Qed.

  (* ---- the handshake predicate ---- *)
  Lemma hsk_app_wait : forall p s rest, Forall (fun x => chirpmode x = true) s -> hsk K p rest -> hsk K p (s ++ rest).
  Proof.
    induction s as [|x s IH]; intros rest Hs H; [exact H|].
    inversion Hs; subst. cbn [app]. apply hsk_wait; [apply IH; assumption | assumption].
  Qed.

  (* n cycles of the line state awaited in phase p have just been seen, after phase p was reached *)
  Definition hsk_in (p n : N) (h : list cyc) : Prop :=
    exists s rest, h = s ++ rest /\ n <= N.of_nat (length s)
      /\ Forall (fun x => chirpmode x = true /\ c_line x = line_of p) s /\ hsk K p rest.

  Lemma hsk_in_start : forall p c h, hsk K p h -> chirpmode c = true -> c_line c = line_of p -> hsk_in p 1 (c :: h).
  Proof.
    intros p c h H Hc Hl. exists [c], h. repeat split; [cbn; lia | | exact H].
    constructor; [split; assumption | constructor].
  Qed.

  Lemma hsk_in_cons : forall p n m c h, hsk_in p n h -> chirpmode c = true -> c_line c = line_of p ->
    m <= n + 1 -> hsk_in p m (c :: h).
  Proof.
    intros p n m c h (s & rest & -> & Hn & Hs & H) Hc Hl Hm. exists (c :: s), rest.
    repeat split; [cbn [length]; lia | | exact H].
    constructor; [split; assumption | exact Hs].
  Qed.

  Lemma hsk_in_done : forall p n h, hsk_in p n h -> c_2p5us K <= n -> hsk K (p + 1) h.
  Proof. intros p n h (s & rest & -> & Hn & Hs & H) Hd. apply hsk_state; [exact H | lia | exact Hs]. Qed.

  Lemma hsk_in_abort : forall p n h, hsk_in p n h -> hsk K p h.
  Proof.
    intros p n h (s & rest & -> & Hn & Hs & H). apply hsk_app_wait; [|exact H].
    eapply Forall_impl; [|exact Hs]. intros a [Ha _]. exact Ha.
  Qed.

  (* ---- before and during the device chirp ---- *)
  Definition pre_chirp (h : list cyc) : Prop :=
    exists g s r h0, h = g ++ s :: r :: h0
      /\ Forall (fun x => chirpmode x = true /\ txvalid x = false) g
      /\ chirpmode s = false /\ txvalid s = false /\ reset_out r = true /\ c_restricted r = false.

  Definition in_chirp (h : list cyc) : Prop :=
    exists c rest, h = c ++ rest /\ Forall (fun x => chirping x = true) c /\ pre_chirp rest.

  Lemma pre_chirp_cons : forall c h, pre_chirp h -> chirpmode c = true -> txvalid c = false -> pre_chirp (c :: h).
  Proof.
    intros c h (g & s & r & h0 & -> & Hg & Hs) Hc Ht. exists (c :: g), s, r, h0.
    split; [reflexivity|]. split; [constructor; [split; assumption | exact Hg] | exact Hs].
  Qed.

  Lemma pre_chirp_listen : forall h, pre_chirp h -> listen h = None.
  Proof.
    intros h (g & s & r & h0 & -> & Hg & Hs & Ht & _).
    induction g as [|x g IH]; cbn [app listen].
    - rewrite Ht, Hs. reflexivity.
    - inversion Hg as [|? ? [Hx1 Hx2] Hg']; subst. rewrite Hx2, Hx1, (IH Hg'). reflexivity.
  Qed.

  Lemma pre_chirp_start : forall h, pre_chirp h ->
    match h with
    | p :: past' => chirpmode p = true \/
                    match past' with q :: _ => reset_out q = true /\ c_restricted q = false | [] => False end
    | [] => False
    end.
  Proof.
    intros h (g & s & r & h0 & -> & Hg & Hs & Ht & Hr & Hu). destruct g as [|x g]; cbn [app].
    - right. split; assumption.
    - inversion Hg as [|? ? [Hx _] _]; subst. left. exact Hx.
  Qed.

  Lemma in_chirp_done : forall x h, in_chirp h -> chirping x = true -> hsk K 0 (x :: h).
  Proof.
    intros x h (c & rest & -> & Hc & (g & s & r & h0 & -> & Hg & Hs & Ht & Hr & Hu)) Hx.
    change (x :: c ++ g ++ s :: r :: h0) with ((x :: c) ++ g ++ s :: r :: h0).
    apply hsk_chirp; [discriminate | constructor; assumption | | exact Hr | exact Hu].
    eapply Forall_impl; [|exact Hg]. intros a [Ha _]. exact Ha.
  Qed.

  Lemma in_chirp_cons : forall x h, in_chirp h -> chirping x = true -> in_chirp (x :: h).
  Proof.
    intros x h (c & rest & -> & Hc & Hp) Hx. exists (x :: c), rest.
    split; [reflexivity|]. split; [constructor; assumption | exact Hp].
  Qed.

  Lemma in_chirp_start : forall h, pre_chirp h -> in_chirp h.
  Proof. intros h H. exists [], h. split; [reflexivity|]. split; [constructor | exact H]. Qed.
End Facts.

(* ------------------------------------------------------------------------------------------ *)
(* The register invariant                                                                      *)

Ltac fields := cbn [fsm timer lst vp was_hs tddis speed opmode term] in *.
Ltac split_ifs := repeat match goal with |- context [if ?b then _ else _] => destruct b eqn:? end.

Section Regs.
  Variable K : rs_consts.
  Notation mkcyc := (mkcyc K).

  (* relation between the FSM state and the three transceiver-control registers *)
  Definition regs_ok (st : rs_state) : Prop :=
    match fsm st with
    | INITIALIZE | LS_FS_NON_RESET | START_HS_DETECTION | SUSPENDED | DETECT_HS_SUSPEND => r_fs st = true
    | HS_NON_RESET => r_hs st = true
    | PREPARE_FOR_CHIRP_0 | PREPARE_FOR_CHIRP_1 | DEVICE_CHIRP | AWAIT_HOST_K | IN_HOST_K
    | AWAIT_HOST_J | IN_HOST_J => r_chirp st = true
    | IS_HIGH_SPEED => r_chirp st = true \/ r_fs st = true
    | IS_LOW_OR_FULL_SPEED => r_hs st = true \/ r_chirp st = true \/ r_fs st = true
    | DISCONNECT => r_chirp st = false
    end.

  Lemma regs_ok_init : regs_ok rs_init.
  Proof. reflexivity. Qed.

  Lemma regs_ok_next : forall st i, regs_ok st -> regs_ok (rs_next K st i).
  Proof.
    intros [f t l v wh td sp op tm] i H. unfold regs_ok, r_fs, r_hs, r_chirp in *. fields.
    destruct f; cbn [rs_next fsm timer lst vp was_hs tddis speed opmode term]; split_ifs; fields;
      try (destruct sp, op, tm; cbn in *; intuition congruence).
  Qed.
End Regs.

(* ------------------------------------------------------------------------------------------ *)
(* The history invariant                                                                       *)

Section InvDefs.
  Variable K : rs_consts.
  Notation mkcyc := (mkcyc K).

  Definition head_chirp (h : list cyc) : Prop := match h with p :: _ => chirpmode p = true | [] => False end.
  Definition prev1_ok (h : list cyc) : Prop :=
    match h with q :: _ => hs_op q = true -> c_restricted q = true -> False | [] => True end.
  Definition prev_not_hs (h : list cyc) : Prop := match h with q :: _ => hs_op q = false | [] => True end.
  Definition hs_entry_ok (h : list cyc) : Prop :=
    match h with p :: past' => hs_op p = true \/ hsk K 6 past' \/ sfh K past' | [] => False end.
  Definition susp_ok (h : list cyc) : Prop :=
    match h with
    | p :: past' => susp_out p = true \/ c_3ms K <= streak idle past' \/ hs_suspend_entry K h
    | [] => False
    end.

  Definition state_inv (st : rs_state) (h : list cyc) : Prop :=
    match fsm st with
    | INITIALIZE | DISCONNECT | IS_LOW_OR_FULL_SPEED => True
    | LS_FS_NON_RESET => timer st <= streak se0 h /\ lst st <= streak idle h
    | HS_NON_RESET => timer st <= streak hs_idle h /\ prev1_ok h
    | START_HS_DETECTION =>
        match h with r :: _ => reset_out r = true /\ c_restricted r = false | [] => False end
    | PREPARE_FOR_CHIRP_0 | PREPARE_FOR_CHIRP_1 => pre_chirp h
    | DEVICE_CHIRP => in_chirp h
    | AWAIT_HOST_K => vp st <= 2 /\ hsk K (2 * vp st) h
    | IN_HOST_K => vp st <= 2 /\ hsk_in K (2 * vp st) (lst st + 1) h
    | AWAIT_HOST_J => vp st <= 2 /\ hsk K (2 * vp st + 1) h
    | IN_HOST_J => vp st <= 2 /\ hsk_in K (2 * vp st + 1) (lst st + 1) h
    | IS_HIGH_SPEED => prev_not_hs h /\ ((r_chirp st = true /\ hsk K 6 h) \/ (r_chirp st = false /\ sfh K h))
    | DETECT_HS_SUSPEND => timer st <= c_200us K /\ hs_idle_ago K (timer st) h
    | SUSPENDED => timer st <= streak se0 h /\ susp_ok h
                   /\ (was_hs st = true -> forall c, susp_out c = true -> sfh K (c :: h))
    end.

  Record Inv (st : rs_state) (h : list cyc) : Prop := {
    inv_regs : regs_ok st;
    inv_state : state_inv st h;
    inv_entry : r_hs st = true -> hs_entry_ok h;
    inv_leave : r_hs st = true -> match h with _ :: t => prev1_ok t | [] => True end;
    inv_start : r_chirp st = true -> fsm st = PREPARE_FOR_CHIRP_0 \/ head_chirp h;
    inv_exit : r_chirp st = false -> head_chirp h -> r_hs st = true \/ r_fs st = true }.

  Ltac start_state :=
    unfold state_inv, regs_ok in *; fields; cbn [rs_next fsm timer lst vp was_hs tddis speed opmode term].

  Lemma se0_streak_step : forall (st : rs_state) i n h (b : bool),
    n <= streak se0 h -> (b = false -> is_se0 (i_line i) = true) ->
    (if b then 0 else inc K n) <= streak se0 (mkcyc st i :: h).
  Proof.
    intros st i n h b H Hb. rewrite streak_cons, se0_mk. destruct b; [lia|].
    rewrite (Hb eq_refl). pose proof (inc_le K n). lia.
  Qed.

  Lemma state_LS_FS : forall t l v wh td sp op tm i h,
    let st := {| fsm := LS_FS_NON_RESET; timer := t; lst := l; vp := v; was_hs := wh; tddis := td;
                 speed := sp; opmode := op; term := tm |} in
    regs_ok st -> state_inv st h -> state_inv (rs_next K st i) (mkcyc st i :: h).
  Proof.
    intros t l v wh td sp op tm i h st HR [Ht Hl]. subst st. start_state.
    assert (T' : (if negb (is_se0 (i_line i)) || negb (i_vbus i) then 0 else inc K t)
                 <= streak se0 (mkcyc {| fsm := LS_FS_NON_RESET; timer := t; lst := l; vp := v; was_hs := wh;
                    tddis := td; speed := sp; opmode := op; term := tm |} i :: h)).
    { apply se0_streak_step; [exact Ht|]. intro E. apply orb_false_iff in E as [E _].
      apply negb_false_iff in E. exact E. }
    destruct (l =? c_3ms K) eqn:E3.
    - (* SUSPENDED *) split; [exact T'|]. split.
      + unfold susp_ok. right. left. lia.
      + discriminate.
    - destruct ((t =? c_5us K) && negb (restricted i)) eqn:E5.
      + (* START_HS_DETECTION *) apply andb_true_iff in E5 as [E5 Er]. rewrite reset_mk, restr_mk.
        cbn [rs_outs o_reset fsm timer]. rewrite E5, orb_true_r. split; [reflexivity|].
        apply negb_true_iff in Er. exact Er.
      + destruct (negb (is_se0 (i_line i)) && i_disc i); [exact I|].
        split; [exact T'|].
        rewrite streak_cons, idle_mk. fields. destruct (bus_idle sp (i_line i)); [|lia].
        pose proof (inc_le K l). lia.
  Qed.
End InvDefs.


Ltac start_state :=
  unfold state_inv, regs_ok in *; fields; cbn [rs_next fsm timer lst vp was_hs tddis speed opmode term].

Section InvStatesA.
  Variable K : rs_consts.
  Notation mkcyc := (mkcyc K).
  Notation state_inv := (state_inv K).

  Lemma state_INIT : forall st i h, fsm st = INITIALIZE ->
    state_inv (rs_next K st i) (mkcyc st i :: h).
  Proof. intros [f t l v wh td sp op tm] i h Hf. fields; subst f. start_state. split; lia. Qed.

  Lemma state_HS : forall st i h, fsm st = HS_NON_RESET -> regs_ok st -> state_inv st h ->
    state_inv (rs_next K st i) (mkcyc st i :: h).
  Proof.
    intros [f t l v wh td sp op tm] i h Hf HR HS. fields; subst f. start_state. destruct HS as [Ht Hp].
    destruct (restricted i) eqn:Er; [exact I|].
    destruct (t =? c_3ms K) eqn:E3.
    - (* DETECT_HS_SUSPEND *) cbn [orb]. split; [lia|]. apply hs_idle_ago_0; [rewrite hs_op_mk; exact HR | lia].
    - destruct (negb (i_vbus i)); [exact I|]. destruct (negb (is_se0 (i_line i)) && i_disc i); [exact I|].
      cbn [orb]. split.
      + rewrite streak_cons, hs_idle_mk, HR. cbn [orb andb].
        destruct (is_se0 (i_line i)); cbn [negb]; [|lia]. pose proof (inc_le K t). lia.
      + unfold prev1_ok. rewrite restr_mk, Er. discriminate.
  Qed.

  Lemma state_START : forall st i h, fsm st = START_HS_DETECTION -> regs_ok st -> state_inv st h ->
    state_inv (rs_next K st i) (mkcyc st i :: h).
  Proof.
    intros [f t l v wh td sp op tm] i h Hf HR HS. fields; subst f. start_state.
    destruct h as [|r h0]; [contradiction|]. destruct HS as [H1 H2].
    exists [], (mkcyc {| fsm := START_HS_DETECTION; timer := t; lst := l; vp := v; was_hs := wh; tddis := td;
                          speed := sp; opmode := op; term := tm |} i), r, h0.
    split; [reflexivity|]. split; [constructor|]. rewrite chirpmode_mk, txvalid_mk. fields.
    rewrite (r_fs_not_chirp _ HR). repeat split; assumption.
  Qed.

  Lemma state_PREP0 : forall st i h, fsm st = PREPARE_FOR_CHIRP_0 -> regs_ok st -> state_inv st h ->
    state_inv (rs_next K st i) (mkcyc st i :: h).
  Proof.
    intros [f t l v wh td sp op tm] i h Hf HR HS. fields; subst f. start_state.
    destruct (i_busy i); fields; apply pre_chirp_cons; try exact HS; try exact HR; reflexivity.
  Qed.

  Lemma state_PREP1 : forall st i h, fsm st = PREPARE_FOR_CHIRP_1 -> regs_ok st -> state_inv st h ->
    state_inv (rs_next K st i) (mkcyc st i :: h).
  Proof.
    intros [f t l v wh td sp op tm] i h Hf HR HS. fields; subst f. start_state.
    destruct (i_busy i); fields; [|apply in_chirp_start]; apply pre_chirp_cons; try exact HS; try exact HR; reflexivity.
  Qed.

  Lemma state_CHIRP : forall st i h, fsm st = DEVICE_CHIRP -> regs_ok st -> state_inv st h ->
    state_inv (rs_next K st i) (mkcyc st i :: h).
  Proof.
    intros [f t l v wh td sp op tm] i h Hf HR HS. fields; subst f. start_state.
    assert (C : chirping (mkcyc {| fsm := DEVICE_CHIRP; timer := t; lst := l; vp := v; was_hs := wh; tddis := td;
                          speed := sp; opmode := op; term := tm |} i) = true).
    { unfold chirping. rewrite chirpmode_mk, txvalid_mk, HR. reflexivity. }
    destruct (t =? c_2ms K); fields.
    - split; [lia|]. apply in_chirp_done; assumption.
    - apply in_chirp_cons; assumption.
  Qed.

  Lemma r_chirp_not_hs : forall st, r_chirp st = true -> r_hs st = false.
  Proof. intros [f t l v wh td sp op tm]. unfold r_hs, r_chirp. cbn. destruct sp, op, tm; congruence. Qed.
  Lemma r_chirp_not_fs : forall st, r_chirp st = true -> r_fs st = false.
  Proof. intros [f t l v wh td sp op tm]. unfold r_fs, r_chirp. cbn. destruct sp, op, tm; congruence. Qed.

  Lemma line_of_even : forall v, line_of (2 * v) = L_K.
  Proof. intro v. unfold line_of. rewrite N.even_mul. reflexivity. Qed.
  Lemma line_of_odd : forall v, line_of (2 * v + 1) = L_J.
  Proof. intro v. unfold line_of. rewrite N.add_comm, N.even_add_mul_2. reflexivity. Qed.
  Lemma is_k_eq : forall l, is_k l = true -> l = L_K. Proof. destruct l; discriminate || reflexivity. Qed.
  Lemma is_j_eq : forall l, is_j l = true -> l = L_J. Proof. destruct l; discriminate || reflexivity. Qed.

  Lemma state_AWK : forall st i h, fsm st = AWAIT_HOST_K -> regs_ok st -> state_inv st h ->
    state_inv (rs_next K st i) (mkcyc st i :: h).
  Proof.
    intros [f t l v wh td sp op tm] i h Hf HR HS. fields; subst f. start_state. destruct HS as [Hv Hh].
    destruct (t =? c_2p5ms K); [exact I|]. destruct (is_k (i_line i)) eqn:Ek; fields.
    - split; [exact Hv|]. apply hsk_in_start; [exact Hh | exact HR |].
      rewrite line_mk, line_of_even. apply is_k_eq. exact Ek.
    - split; [exact Hv|]. apply hsk_wait; [exact Hh | exact HR].
  Qed.

  Lemma state_AWJ : forall st i h, fsm st = AWAIT_HOST_J -> regs_ok st -> state_inv st h ->
    state_inv (rs_next K st i) (mkcyc st i :: h).
  Proof.
    intros [f t l v wh td sp op tm] i h Hf HR HS. fields; subst f. start_state. destruct HS as [Hv Hh].
    destruct (t =? c_2p5ms K); [exact I|]. destruct (is_j (i_line i)) eqn:Ek; fields.
    - split; [exact Hv|]. apply hsk_in_start; [exact Hh | exact HR |].
      rewrite line_mk, line_of_odd. apply is_j_eq. exact Ek.
    - split; [exact Hv|]. apply hsk_wait; [exact Hh | exact HR].
  Qed.

  Lemma state_INK : forall st i h, fsm st = IN_HOST_K -> regs_ok st -> state_inv st h ->
    state_inv (rs_next K st i) (mkcyc st i :: h).
  Proof.
    intros [f t l v wh td sp op tm] i h Hf HR HS. fields; subst f. start_state. destruct HS as [Hv Hh].
    destruct (t =? c_2p5ms K); [exact I|]. destruct (is_k (i_line i)) eqn:Ek; cbn [negb]; fields.
    - destruct (l =? c_2p5us K) eqn:El; fields.
      + split; [exact Hv|]. apply hsk_wait; [|exact HR]. eapply hsk_in_done; [exact Hh | lia].
      + split; [exact Hv|]. eapply hsk_in_cons; [exact Hh | exact HR | |].
        * rewrite line_mk, line_of_even. apply is_k_eq. exact Ek.
        * pose proof (inc_le K l). lia.
    - split; [exact Hv|]. apply hsk_wait; [|exact HR]. eapply hsk_in_abort. exact Hh.
  Qed.

  Lemma state_INJ : forall st i h, fsm st = IN_HOST_J -> regs_ok st -> state_inv st h ->
    state_inv (rs_next K st i) (mkcyc st i :: h).
  Proof.
    intros [f t l v wh td sp op tm] i h Hf HR HS. fields; subst f. start_state. destruct HS as [Hv Hh].
    destruct (t =? c_2p5ms K); [exact I|]. destruct (is_j (i_line i)) eqn:Ek; cbn [negb]; fields.
    - destruct (l =? c_2p5us K) eqn:El; cbn [andb]; fields.
      + assert (D : hsk K (2 * v + 1 + 1) h) by (eapply hsk_in_done; [exact Hh | lia]).
        destruct (v =? 2) eqn:E2; cbn [negb]; fields.
        * split; [unfold prev_not_hs; rewrite hs_op_mk; apply r_chirp_not_hs; exact HR|].
          left. split; [exact HR|]. apply hsk_wait; [|exact HR].
          replace 6 with (2 * v + 1 + 1) by lia. exact D.
        * assert (V : (v + 1) mod 4 = v + 1) by (apply N.mod_small; lia). rewrite V.
          split; [lia|]. apply hsk_wait; [|exact HR].
          replace (2 * (v + 1)) with (2 * v + 1 + 1) by lia. exact D.
      + split; [exact Hv|]. eapply hsk_in_cons; [exact Hh | exact HR | |].
        * rewrite line_mk, line_of_odd. apply is_j_eq. exact Ek.
        * pose proof (inc_le K l). lia.
    - rewrite andb_false_r. cbn [andb]. split; [exact Hv|]. apply hsk_wait; [|exact HR]. eapply hsk_in_abort. exact Hh.
  Qed.
End InvStatesA.



Section InvStatesB.
  Variable K : rs_consts.
  Notation mkcyc := (mkcyc K).
  Notation state_inv := (state_inv K).
  Hypothesis wf1 : c_200us K <= c_3ms K.

  Lemma state_IHS : forall st i h, fsm st = IS_HIGH_SPEED -> regs_ok st ->
    state_inv (rs_next K st i) (mkcyc st i :: h).
  Proof.
    intros [f t l v wh td sp op tm] i h Hf HR. fields; subst f. start_state.
    split; [lia|]. unfold prev1_ok. rewrite hs_op_mk.
    destruct HR as [HR|HR]; [rewrite (r_chirp_not_hs _ HR) | rewrite (r_fs_not_hs _ HR)]; discriminate.
  Qed.

  Lemma state_ILF : forall st i h, fsm st = IS_LOW_OR_FULL_SPEED ->
    state_inv (rs_next K st i) (mkcyc st i :: h).
  Proof.
    intros [f t l v wh td sp op tm] i h Hf. fields; subst f. start_state.
    destruct (negb (is_se0 (i_line i))); [split; lia | exact I].
  Qed.

  Lemma state_DISC : forall st i h, fsm st = DISCONNECT ->
    state_inv (rs_next K st i) (mkcyc st i :: h).
  Proof.
    intros [f t l v wh td sp op tm] i h Hf. fields; subst f. start_state.
    destruct (negb (i_disc i) && td); exact I.
  Qed.

  Lemma state_DET : forall st i h, fsm st = DETECT_HS_SUSPEND -> regs_ok st -> state_inv st h ->
    state_inv (rs_next K st i) (mkcyc st i :: h).
  Proof.
    intros [f t l v wh td sp op tm] i h Hf HR HS. fields; subst f. start_state. destruct HS as [Ht Ha].
    set (c := mkcyc {| fsm := DETECT_HS_SUSPEND; timer := t; lst := l; vp := v; was_hs := wh; tddis := td;
                       speed := sp; opmode := op; term := tm |} i).
    destruct (t =? c_200us K) eqn:Eh.
    - apply N.eqb_eq in Eh. subst t. destruct (is_j (i_line i)) eqn:Ej.
      + (* SUSPENDED *)
        assert (E : hs_suspend_entry K (c :: h)).
        { unfold hs_suspend_entry. split; [reflexivity|]. split; [apply is_j_eq; exact Ej | exact Ha]. }
        split; [lia|]. split.
        * unfold susp_ok. right. right. exact E.
        * intros _ c' Hc'. apply sfh_enter; assumption.
      + destruct (restricted i) eqn:Er; [exact I|].
        (* START_HS_DETECTION *) subst c. rewrite reset_mk, restr_mk. cbn [rs_outs o_reset fsm timer].
        rewrite N.eqb_refl, Ej, Er. split; reflexivity.
    - assert (t < c_200us K) by lia. rewrite inc_small by lia.
      split; [lia|]. apply hs_idle_ago_cons. exact Ha.
  Qed.

  Lemma resume_nonse0 : forall i, (i_ls i && is_j (i_line i)) || (negb (i_ls i) && is_k (i_line i)) = true ->
    negb (is_se0 (i_line i)) = true.
  Proof. intro i. destruct (i_ls i), (i_line i); cbn; congruence. Qed.

  Lemma state_SUSP : forall st i h, fsm st = SUSPENDED -> regs_ok st -> state_inv st h ->
    state_inv (rs_next K st i) (mkcyc st i :: h).
  Proof.
    intros [f t l v wh td sp op tm] i h Hf HR HS. fields; subst f. start_state.
    destruct HS as (Ht & Hs & Hw).
    set (c := mkcyc {| fsm := SUSPENDED; timer := t; lst := l; vp := v; was_hs := wh; tddis := td;
                       speed := sp; opmode := op; term := tm |} i).
    assert (Sc : susp_out c = true) by reflexivity.
    destruct (t =? c_2p5us K) eqn:Er.
    - destruct (restricted i) eqn:Ei; cbn [orb andb].
      + split; lia.
      + subst c. rewrite reset_mk, restr_mk. cbn [rs_outs o_reset fsm timer]. rewrite Er, Ei. split; reflexivity.
    - cbn [orb andb].
      destruct ((i_ls i && is_j (i_line i)) || (negb (i_ls i) && is_k (i_line i))) eqn:Eres.
      + rewrite (resume_nonse0 _ Eres). destruct wh; cbn [negb andb].
        * split; [unfold prev_not_hs; subst c; rewrite hs_op_mk; apply r_fs_not_hs; exact HR|].
          right. split; [apply r_fs_not_chirp; exact HR|]. apply Hw; [reflexivity | exact Sc].
        * split; lia.
      + cbn [andb]. split.
        * apply se0_streak_step; [exact Ht|]. intro E. apply negb_false_iff in E. exact E.
        * split; [unfold susp_ok; left; exact Sc|].
          intros W c' Hc'. apply sfh_stay; [exact Hc' | apply Hw; assumption].
  Qed.

  Lemma state_next : forall st i h, regs_ok st -> state_inv st h -> state_inv (rs_next K st i) (mkcyc st i :: h).
  Proof.
    intros st i h HR HS. destruct (fsm st) eqn:Hf.
    - apply state_INIT; assumption.
    - destruct st as [f t l v wh td sp op tm]; fields; subst f. apply state_LS_FS; assumption.
    - apply state_HS; assumption.
    - apply state_START; assumption.
    - apply state_PREP0; assumption.
    - apply state_PREP1; assumption.
    - apply state_CHIRP; assumption.
    - apply state_AWK; assumption.
    - apply state_INK; assumption.
    - apply state_AWJ; assumption.
    - apply state_INJ; assumption.
    - apply state_IHS; assumption.
    - apply state_ILF; assumption.
    - apply state_DET; assumption.
    - apply state_SUSP; assumption.
    - apply state_DISC; assumption.
  Qed.
End InvStatesB.


Ltac brute f sp op tm :=
  unfold regs_ok, r_fs, r_hs, r_chirp in *; fields;
  destruct f; cbn [rs_next fsm timer lst vp was_hs tddis speed opmode term] in *; split_ifs;
  repeat match goal with H : context [if ?b then _ else _] |- _ => destruct b eqn:? end; fields;
  try (destruct sp, op, tm; cbn in *; intuition congruence).

Section InvStep.
  Variable K : rs_consts.
  Notation mkcyc := (mkcyc K).
  Notation state_inv := (state_inv K).
  Notation Inv := (Inv K).
  Hypothesis wf1 : c_200us K <= c_3ms K.

  Lemma r_hs_next : forall st i, regs_ok st -> r_hs (rs_next K st i) = true ->
    fsm st = IS_HIGH_SPEED \/ fsm st = HS_NON_RESET.
  Proof. intros [f t l v wh td sp op tm] i H H1. brute f sp op tm. Qed.

  Lemma r_chirp_next : forall st i, r_chirp (rs_next K st i) = true ->
    (fsm st = START_HS_DETECTION /\ fsm (rs_next K st i) = PREPARE_FOR_CHIRP_0) \/ r_chirp st = true.
  Proof. intros [f t l v wh td sp op tm] i H1. brute f sp op tm. Qed.

  Lemma r_chirp_exit : forall st i, regs_ok st -> r_chirp st = true -> r_chirp (rs_next K st i) = false ->
    r_hs (rs_next K st i) = true \/ r_fs (rs_next K st i) = true.
  Proof. intros [f t l v wh td sp op tm] i H H1 H2. brute f sp op tm. Qed.

  Lemma Inv_init : Inv rs_init [].
  Proof.
    split; try exact I; try reflexivity; try discriminate.
    cbn. intros _ [].
  Qed.

  Lemma Inv_next : forall st i h, Inv st h -> Inv (rs_next K st i) (mkcyc st i :: h).
  Proof.
    intros st i h [HR HS HE HL HC HX].
    split.
    - apply regs_ok_next; exact HR.
    - apply state_next; assumption.
    - intro H. unfold hs_entry_ok. rewrite hs_op_mk.
      destruct (r_hs_next st i HR H) as [Hf|Hf].
      + unfold ResetSeq_proofs.state_inv in HS. rewrite Hf in HS. destruct HS as [_ [[_ Hk]|[_ Hs]]]; auto.
      + left. unfold regs_ok in HR. rewrite Hf in HR. exact HR.
    - intro H. destruct (r_hs_next st i HR H) as [Hf|Hf];
        unfold ResetSeq_proofs.state_inv in HS; rewrite Hf in HS.
      + destruct HS as [Hp _]. unfold prev_not_hs, prev1_ok in *. destruct h as [|q h']; [exact I|].
        rewrite Hp. discriminate.
      + destruct HS as [_ Hp]. exact Hp.
    - intro H. destruct (r_chirp_next st i H) as [[_ Hf]|Hc]; [left; exact Hf|].
      right. unfold head_chirp. rewrite chirpmode_mk. exact Hc.
    - intros H1 H2. unfold head_chirp in H2. rewrite chirpmode_mk in H2.
      apply r_chirp_exit; assumption.
  Qed.
End InvStep.


Section Rules.
  Variable K : rs_consts.
  Notation mkcyc := (mkcyc K).
  Notation state_inv := (state_inv K).
  Notation Inv := (Inv K).
  Hypothesis wf1 : c_200us K <= c_3ms K.

  Lemma Inv_reset : forall st i h, Inv st h -> rule_reset K h (mkcyc st i).
  Proof.
    intros [f t l v wh td sp op tm] i h [HR HS _ _ _ _]. unfold rule_reset, ResetSeq_proofs.state_inv in *.
    rewrite reset_mk, susp_mk, line_mk. cbn [rs_outs o_reset c_in i_vbus mkcyc ResetSeq_proofs.mkcyc]. fields.
    destruct f; try discriminate; intro H.
    - apply orb_true_iff in H as [H|H]; [left; apply negb_true_iff; exact H|].
      right. right. left. split; [reflexivity|]. destruct HS. lia.
    - left. apply negb_true_iff; exact H.
    - apply andb_true_iff in H as [H1 H2]. right. right. right. split; [reflexivity|].
      split; [intro E; rewrite E in H2; discriminate|]. destruct HS as [_ HS]. apply N.eqb_eq in H1. subst t. exact HS.
    - right. left. split; [reflexivity|]. destruct HS. lia.
  Qed.

  Lemma Inv_suspend : forall st i h, Inv st h -> rule_suspend K h (mkcyc st i).
  Proof.
    intros [f t l v wh td sp op tm] i h [HR HS _ _ _ _]. unfold rule_suspend, ResetSeq_proofs.state_inv in *.
    rewrite susp_mk. fields. destruct f; try discriminate. intros _. destruct HS as (_ & HS & _). exact HS.
  Qed.

  Lemma Inv_hs_entry : forall st i h, Inv st h -> rule_hs_entry K h (mkcyc st i).
  Proof. intros st i h [_ _ HE _ _ _]. unfold rule_hs_entry. rewrite hs_op_mk. exact HE. Qed.

  Lemma Inv_start : forall st i h, Inv st h -> rule_start h (mkcyc st i).
  Proof.
    intros st i h [_ HS _ _ HC _]. unfold rule_start. rewrite chirpmode_mk. intro H.
    destruct (HC H) as [Hf|Hh].
    - unfold ResetSeq_proofs.state_inv in HS. rewrite Hf in HS. apply pre_chirp_start. exact HS.
    - unfold head_chirp in Hh. destruct h as [|p h']; [contradiction|]. left. exact Hh.
  Qed.

  Lemma Inv_leave : forall st i h, Inv st h -> rule_leave h (mkcyc st i).
  Proof.
    intros st i h [_ _ _ HL _ _]. unfold rule_leave. destruct h as [|p [|q h']]; try exact I.
    intros H1 H2. rewrite hs_op_mk. destruct (r_hs st) eqn:E; [|reflexivity].
    exfalso. exact (HL eq_refl H1 H2).
  Qed.

  Lemma Inv_exit : forall st i h, Inv st h -> rule_exit h (mkcyc st i).
  Proof.
    intros st i h [_ _ _ _ _ HX]. unfold rule_exit. destruct h as [|p h']; [exact I|].
    rewrite chirpmode_mk, hs_op_mk, fs_ls_mk. intros H1 H2. apply HX; assumption.
  Qed.

  Lemma Inv_safe : forall st i h, Inv st h -> rule_safe K h (mkcyc st i).
  Proof.
    intros st i h H. unfold rule_safe.
    repeat split; [apply Inv_reset | apply Inv_suspend | apply Inv_hs_entry | apply Inv_start | apply Inv_leave
                   | apply Inv_exit]; exact H.
  Qed.

  Lemma always_safe : forall ins st h, Inv st h -> always (rule_safe K) h (rs_trace K st ins).
  Proof.
    induction ins as [|i t IH]; intros st h H; cbn [rs_trace always]; [exact I|].
    split; [apply Inv_safe; exact H|]. apply IH. apply Inv_next; assumption.
  Qed.

  Theorem rs_safe : forall ins, always (rule_safe K) [] (rs_trace K rs_init ins).
  Proof. intro ins. apply always_safe. apply Inv_init. Qed.
End Rules.


Section Timeout.
  Variable K : rs_consts.
  Notation mkcyc := (mkcyc K).
  Hypothesis wf2 : c_2p5ms K <= c_3ms K.

  Definition listen_le (n : N) (h : list cyc) : Prop :=
    match listen h with Some m => m <= n | None => True end.

  Definition listen_inv (st : rs_state) (h : list cyc) : Prop :=
    match fsm st with
    | PREPARE_FOR_CHIRP_0 | PREPARE_FOR_CHIRP_1 => listen h = None
    | AWAIT_HOST_K | IN_HOST_K | AWAIT_HOST_J | IN_HOST_J =>
        listen h = Some (timer st) /\ timer st <= c_2p5ms K
    | IS_HIGH_SPEED | IS_LOW_OR_FULL_SPEED => r_chirp st = true -> listen_le (c_2p5ms K + 1) h
    | _ => True
    end.

  Lemma listen_mk : forall st i h, listen (mkcyc st i :: h) =
    if match fsm st with DEVICE_CHIRP => true | _ => false end then Some 0
    else if r_chirp st then option_map N.succ (listen h) else None.
  Proof. reflexivity. Qed.

  (* the four listening states share their timer/time-out structure *)
  Lemma listen_step : forall t h (f1 f2 : rs_fsm) (P : rs_fsm -> Prop),
    listen h = Some t -> t <= c_2p5ms K ->
    (P IS_LOW_OR_FULL_SPEED) -> (t < c_2p5ms K -> P f2) ->
    (forall f, P f -> True) ->
    P (if t =? c_2p5ms K then IS_LOW_OR_FULL_SPEED else f2).
  Proof. intros. destruct (t =? c_2p5ms K) eqn:E; [assumption | apply H2; lia]. Qed.

  Lemma listen_inv_next : forall st i h, regs_ok st -> listen_inv st h ->
    listen_inv (rs_next K st i) (mkcyc st i :: h).
  Proof.
    intros [f t l v wh td sp op tm] i h HR HL. unfold listen_inv, regs_ok, listen_le in *.
    rewrite listen_mk. fields.
    destruct f; cbn [rs_next fsm timer lst vp was_hs tddis speed opmode term]; fields;
      try exact I.
    - (* LS_FS *) split_ifs; exact I.
    - (* HS *) split_ifs; fields; try exact I; unfold r_chirp, r_hs in *; fields;
        destruct sp, op, tm; try discriminate.
    - (* START *) rewrite (r_fs_not_chirp _ HR). reflexivity.
    - (* PREP0 *) rewrite HR, HL. destruct (i_busy i); reflexivity.
    - (* PREP1 *) rewrite HR, HL. destruct (i_busy i); [reflexivity | exact I].
    - (* CHIRP *) destruct (t =? c_2ms K); fields; [split; [reflexivity | lia] | exact I].
    - (* AWAIT_K *) destruct HL as [HL Ht]. rewrite HR, HL. cbn [option_map].
      destruct (t =? c_2p5ms K) eqn:E.
      + intros _. lia.
      + rewrite inc_small by lia. destruct (is_k (i_line i)); fields; try (split; [f_equal; lia | lia]).
    - (* IN_K *) destruct HL as [HL Ht]. rewrite HR, HL. cbn [option_map].
      destruct (t =? c_2p5ms K) eqn:E.
      + intros _. lia.
      + rewrite inc_small by lia. split_ifs; fields; try (split; [f_equal; lia | lia]).
    - (* AWAIT_J *) destruct HL as [HL Ht]. rewrite HR, HL. cbn [option_map].
      destruct (t =? c_2p5ms K) eqn:E.
      + intros _. lia.
      + rewrite inc_small by lia. destruct (is_j (i_line i)); fields; try (split; [f_equal; lia | lia]).
    - (* IN_J *) destruct HL as [HL Ht]. rewrite HR, HL. cbn [option_map].
      destruct (t =? c_2p5ms K) eqn:E.
      + intros _. lia.
      + rewrite inc_small by lia. split_ifs; fields; try (split; [f_equal; lia | lia]); try (intros _; lia).
    - (* IS_LOW *) destruct (negb (is_se0 (i_line i))); fields; [exact I | unfold r_chirp at 1; fields; discriminate].

    - (* DETECT *) unfold r_chirp, r_fs in *; fields; destruct sp, op, tm; try discriminate; split_ifs; fields; try exact I; try discriminate.
    - (* SUSPENDED *) unfold r_chirp, r_fs in *; fields; destruct sp, op, tm; try discriminate; split_ifs; fields; try exact I; try discriminate.
    - (* DISCONNECT *) split_ifs; exact I.
  Qed.

  Lemma listen_inv_init : listen_inv rs_init [].
  Proof. exact I. Qed.

  Lemma listen_inv_rule : forall st i h, regs_ok st -> listen_inv st h -> rule_timeout K h (mkcyc st i).
  Proof.
    intros [f t l v wh td sp op tm] i h HR HL. unfold rule_timeout, listen_inv, regs_ok, listen_le in *.
    rewrite listen_mk. fields.
    destruct f; fields; try (rewrite (r_fs_not_chirp _ HR); exact I);
      try (rewrite HR, HL; exact I); try (destruct HL as [HL Ht]; rewrite HR, HL; cbn [option_map]; lia).
    - rewrite (r_hs_not_chirp _ HR). exact I.
    - lia.
    - destruct (r_chirp _) eqn:E; [|exact I]. specialize (HL eq_refl). destruct (listen h); cbn [option_map]; [lia | exact I].
    - destruct (r_chirp _) eqn:E; [|exact I]. specialize (HL eq_refl). destruct (listen h); cbn [option_map]; [lia | exact I].
    - rewrite HR. exact I.
  Qed.

  Lemma always_timeout : forall ins st h, regs_ok st -> listen_inv st h ->
    always (rule_timeout K) h (rs_trace K st ins).
  Proof.
    induction ins as [|i t IH]; intros st h HR HL; cbn [rs_trace always]; [exact I|].
    split; [apply listen_inv_rule; assumption|]. apply IH; [apply regs_ok_next | apply listen_inv_next]; assumption.
  Qed.

  Theorem rs_timeout : forall ins, always (rule_timeout K) [] (rs_trace K rs_init ins).
  Proof. intro ins. apply always_timeout; [apply regs_ok_init | apply listen_inv_init]. Qed.
End Timeout.

Lemma always_and : forall P Q h l, always P h l -> always Q h l -> always (fun p c => P p c /\ Q p c) h l.
Proof.
  intros P Q h l. revert h. induction l as [|c t IH]; intros h HP HQ; cbn [always] in *; [exact I|].
  destruct HP, HQ. split; [split; assumption | apply IH; assumption].
Qed.

Theorem rs_all : forall K, c_200us K <= c_3ms K -> c_2p5ms K <= c_3ms K ->
  forall ins, always (rule_all K) [] (rs_trace K rs_init ins).
Proof.
  intros K H1 H2 ins. unfold rule_all. apply always_and; [apply rs_safe; exact H1 | apply rs_timeout; exact H2].
Qed.

(* ------------------------------------------------------------------------------------------ *)
(* Soundness of the runtime oracle: whenever the boolean rule accepts, the declarative rule holds *)
Section OracleSound.
  Variable K : rs_consts.

  Lemma line_eqb_eq : forall a b, line_eqb a b = true -> a = b.
  Proof. destruct a, b; cbn; congruence. Qed.

  Lemma hs_idle_ago_b_sound : forall n past, hs_idle_ago_b K n past = true -> hs_idle_ago K n past.
  Proof.
    intros n past. unfold hs_idle_ago_b, hs_idle_ago. destruct (drop n past) as [|u rest]; [discriminate|].
    intro H. apply andb_true_iff in H as [H1 H2]. apply N.leb_le in H2. split; assumption.
  Qed.

  Lemma hs_suspend_entry_b_sound : forall past, hs_suspend_entry_b K past = true -> hs_suspend_entry K past.
  Proof.
    intros [|p past']; cbn [hs_suspend_entry_b hs_suspend_entry]; [discriminate|]. intro H.
    apply andb_true_iff in H as [H H3]. apply andb_true_iff in H as [H1 H2].
    apply negb_true_iff in H1. split; [exact H1|]. split; [|apply hs_idle_ago_b_sound; exact H3].
    destruct (c_line p); cbn in H2; congruence.
  Qed.

  Lemma sfh_b_sound : forall h, sfh_b K h = true -> sfh K h.
  Proof.
    induction h as [|c past IH]; cbn [sfh_b]; [discriminate|]. intro H.
    apply andb_true_iff in H as [H1 H2]. apply orb_true_iff in H2 as [H2|H2].
    - apply sfh_enter; [exact H1 | apply hs_suspend_entry_b_sound; exact H2].
    - apply sfh_stay; [exact H1 | apply IH; exact H2].
  Qed.

  Lemma hsk0_b_sound : forall h seen pre,
    hsk0_b seen h = true -> Forall (fun x => chirpmode x = true) pre ->
    (seen = true -> Exists (fun x => chirping x = true) pre) -> hsk K 0 (pre ++ h).
  Proof.
    induction h as [|x t IH]; intros seen pre H Hp Hs; cbn [hsk0_b] in H; [discriminate|].
    destruct (chirpmode x) eqn:Ex.
    - replace (pre ++ x :: t) with ((pre ++ [x]) ++ t) by (rewrite <- app_assoc; reflexivity).
      apply (IH (seen || txvalid x)); [exact H | |].
      + apply Forall_app. split; [exact Hp | constructor; [exact Ex | constructor]].
      + intro E. apply Exists_app. apply orb_true_iff in E as [E|E]; [left; apply Hs; exact E|].
        right. constructor. unfold chirping. rewrite Ex, E. reflexivity.
    - apply andb_true_iff in H as [H1 H2]. destruct t as [|r h0]; [discriminate|].
      apply andb_true_iff in H2 as [H2 H3]. apply negb_true_iff in H3.
      specialize (Hs H1). apply Exists_exists in Hs as (c0 & Hin & Hc0).
      apply in_split in Hin as (g1 & g2 & ->).
      apply Forall_app in Hp as [Hg1 Hg2]. inversion Hg2 as [|? ? _ Hg2']; subst.
      rewrite <- app_assoc. apply hsk_app_wait; [exact Hg1|].
      change ((c0 :: g2) ++ x :: r :: h0) with ([c0] ++ g2 ++ x :: r :: h0).
      apply hsk_chirp; [discriminate | constructor; [exact Hc0 | constructor] | exact Hg2' | exact H2 | exact H3].
  Qed.

  Definition good (q : nat) (x : cyc) : Prop := chirpmode x = true /\ c_line x = line_of (N.of_nat q).

  Lemma hsk_b_sound : forall h p n pre,
    hsk_b K p n h = true ->
    match p with O => pre = [] | S q => N.of_nat (length pre) = n /\ Forall (good q) pre end ->
    hsk K (N.of_nat p) (pre ++ h).
  Proof.
    induction h as [|x t IH]; intros p n pre H HP.
    - destruct p; cbn [hsk_b hsk0_b] in H; discriminate.
    - destruct p as [|q].
      + subst pre. cbn [hsk_b] in H. apply (hsk0_b_sound (x :: t) false []); [exact H | constructor | discriminate].
      + cbn [hsk_b] in H. destruct HP as [Hn Hg]. apply andb_true_iff in H as [Hx H].
        assert (Hc : Forall (fun y => chirpmode y = true) pre).
        { eapply Forall_impl; [|exact Hg]. intros a [Ha _]. exact Ha. }
        destruct (line_eqb (c_line x) (line_of (N.of_nat q))) eqn:El.
        * apply line_eqb_eq in El.
          assert (Hg' : Forall (good q) (pre ++ [x])).
          { apply Forall_app. split; [exact Hg | constructor; [split; assumption | constructor]]. }
          replace (pre ++ x :: t) with ((pre ++ [x]) ++ t) by (rewrite <- app_assoc; reflexivity).
          destruct (c_2p5us K <=? n + 1) eqn:Et.
          -- apply N.leb_le in Et. rewrite Nat2N.inj_succ, <- N.add_1_r. apply hsk_state.
             ++ apply (IH q 0 []); [exact H|]. destruct q; [reflexivity | split; [reflexivity | constructor]].
             ++ rewrite app_length. cbn [length]. lia.
             ++ exact Hg'.
          -- apply (IH (S q) (n + 1) (pre ++ [x])); [exact H|]. split; [|exact Hg'].
             rewrite app_length. cbn [length]. lia.
        * apply hsk_app_wait; [exact Hc|]. apply hsk_wait; [|exact Hx].
          apply (IH (S q) 0 []); [exact H|]. split; [reflexivity | constructor].
  Qed.

  Lemma rule_reset_b_sound : forall past c, rule_reset_b K past c = true -> rule_reset K past c.
  Proof.
    intros past c H Hr. unfold rule_reset_b in H. rewrite Hr in H. cbn [implb] in H.
    repeat (apply orb_true_iff in H as [H|H]).
    - left. apply negb_true_iff. exact H.
    - right. left. apply andb_true_iff in H as [H1 H2]. apply N.leb_le in H2. split; assumption.
    - right. right. left. apply andb_true_iff in H as [H1 H2]. apply N.leb_le in H2.
      apply negb_true_iff in H1. split; assumption.
    - right. right. right. apply andb_true_iff in H as [H H3]. apply andb_true_iff in H as [H1 H2].
      apply negb_true_iff in H1. split; [exact H1|]. split; [|apply hs_idle_ago_b_sound; exact H3].
      intro E. rewrite E in H2. discriminate.
  Qed.

  Lemma rule_suspend_b_sound : forall past c, rule_suspend_b K past c = true -> rule_suspend K past c.
  Proof.
    intros past c H Hs. unfold rule_suspend_b in H. rewrite Hs in H. cbn [implb] in H.
    destruct past as [|p past']; [discriminate|].
    repeat (apply orb_true_iff in H as [H|H]).
    - left. exact H.
    - right. left. apply N.leb_le. exact H.
    - right. right. apply hs_suspend_entry_b_sound. exact H.
  Qed.

  Lemma rule_hs_entry_b_sound : forall past c, rule_hs_entry_b K past c = true -> rule_hs_entry K past c.
  Proof.
    intros past c H Hs. unfold rule_hs_entry_b in H. rewrite Hs in H. cbn [implb] in H.
    destruct past as [|p past']; [discriminate|].
    repeat (apply orb_true_iff in H as [H|H]).
    - left. exact H.
    - right. left. apply (hsk_b_sound past' 6%nat 0 []); [exact H | split; [reflexivity | constructor]].
    - right. right. apply sfh_b_sound. exact H.
  Qed.

  Lemma rule_start_b_sound : forall past c, rule_start_b past c = true -> rule_start past c.
  Proof.
    intros past c H Hs. unfold rule_start_b in H. rewrite Hs in H. cbn [implb] in H.
    destruct past as [|p past']; [discriminate|]. apply orb_true_iff in H as [H|H]; [left; exact H|].
    right. destruct past' as [|q ?]; [discriminate|]. apply andb_true_iff in H as [H1 H2].
    apply negb_true_iff in H2. split; assumption.
  Qed.

  Lemma rule_leave_b_sound : forall past c, rule_leave_b past c = true -> rule_leave past c.
  Proof.
    intros past c H. unfold rule_leave_b, rule_leave in *. destruct past as [|p [|q t]]; try exact I.
    intros H1 H2. rewrite H1, H2 in H. cbn in H. apply negb_true_iff in H. exact H.
  Qed.

  Lemma rule_exit_b_sound : forall past c, rule_exit_b past c = true -> rule_exit past c.
  Proof.
    intros past c H. unfold rule_exit_b, rule_exit in *. destruct past as [|p t]; [exact I|].
    intros H1 H2. rewrite H1, H2 in H. cbn in H. apply orb_true_iff in H. exact H.
  Qed.

  Lemma rule_timeout_b_sound : forall past c, rule_timeout_b K past c = true -> rule_timeout K past c.
  Proof.
    intros past c H. unfold rule_timeout_b, rule_timeout in *. destruct (listen (c :: past)); [|exact I].
    apply N.leb_le. exact H.
  Qed.

  Theorem rule_safe_b_sound : forall past c, rule_safe_b K past c = true -> rule_safe K past c.
  Proof.
    intros past c H. unfold rule_safe_b in H. repeat (apply andb_true_iff in H as [H ?]).
    unfold rule_safe. repeat split;
      [apply rule_reset_b_sound | apply rule_suspend_b_sound | apply rule_hs_entry_b_sound | apply rule_start_b_sound
       | apply rule_leave_b_sound | apply rule_exit_b_sound]; assumption.
  Qed.

  Theorem rule_all_b_sound : forall past c, rule_all_b K past c = true -> rule_all K past c.
  Proof.
    intros past c H. unfold rule_all_b in H. apply andb_true_iff in H as [H1 H2].
    split; [apply rule_safe_b_sound; exact H1 | apply rule_timeout_b_sound; exact H2].
  Qed.
End OracleSound.
