From Coq Require Import NArith List Bool Lia.
Import ListNotations.
From LunaLib Require Import Netlist Bits Affine Machine.
From LunaModel Require Import Crc Scrambler.
Open Scope N_scope.

(* bytes are 8-bit fields of a word *)
Lemma byte_of_lt : forall d i, byte_of d i < 256.
Proof. intros. unfold byte_of, bits. rewrite N.land_ones. change (2 ^ 8) with 256. apply N.mod_lt. discriminate. Qed.

Lemma lxor_lt_256 : forall a b, a < 256 -> b < 256 -> N.lxor a b < 256.
Proof.
  intros a b Ha Hb. destruct (N.eq_dec (N.lxor a b) 0) as [E|E]; [rewrite E; lia|].
  apply N.log2_lt_pow2 with (b := 8); [lia|].
  eapply N.le_lt_trans; [apply N.log2_lxor|].
  apply N.max_lub_lt.
  - destruct (N.eq_dec a 0) as [->|Na]; [simpl; lia|]. apply N.log2_lt_pow2; lia.
  - destruct (N.eq_dec b 0) as [->|Nb]; [simpl; lia|]. apply N.log2_lt_pow2; lia.
Qed.

Lemma xor_byte_lt : forall e ks d c i, xor_byte e ks d c i < 256.
Proof. intros. unfold xor_byte. destruct (e && negb (is_ctrl c i)); [apply lxor_lt_256|]; apply byte_of_lt. Qed.

(* reading byte i back out of a word assembled from four bytes *)
Lemma byte_of_assemble : forall b0 b1 b2 b3, b0 < 256 -> b1 < 256 -> b2 < 256 -> b3 < 256 ->
  let w := b0 + N.shiftl b1 8 + N.shiftl b2 16 + N.shiftl b3 24 in
  byte_of w 0 = b0 /\ byte_of w 1 = b1 /\ byte_of w 2 = b2 /\ byte_of w 3 = b3.
Proof.
  intros b0 b1 b2 b3 H0 H1 H2 H3 w. subst w. unfold byte_of, bits.
  rewrite !N.shiftl_mul_pow2, !N.land_ones, !N.shiftr_div_pow2.
  change (2 ^ 8) with 256. change (2 ^ 16) with 65536. change (2 ^ 24) with 16777216.
  change (2 ^ (8 * 0)) with 1. change (2 ^ (8 * 1)) with 256.
  change (2 ^ (8 * 2)) with 65536. change (2 ^ (8 * 3)) with 16777216.
  repeat split.
  - rewrite N.div_1_r.
    replace (b0 + b1 * 256 + b2 * 65536 + b3 * 16777216) with (b0 + (b1 + b2 * 256 + b3 * 65536) * 256) by lia.
    rewrite N.mod_add by discriminate. apply N.mod_small; lia.
  - replace (b0 + b1 * 256 + b2 * 65536 + b3 * 16777216) with (b0 + (b1 + (b2 + b3 * 256) * 256) * 256) by lia.
    rewrite N.div_add by discriminate. rewrite (N.div_small b0 256) by lia. rewrite N.add_0_l.
    rewrite N.mod_add by discriminate. apply N.mod_small; lia.
  - replace (b0 + b1 * 256 + b2 * 65536 + b3 * 16777216) with ((b0 + b1 * 256) + (b2 + b3 * 256) * 65536) by lia.
    rewrite N.div_add by discriminate. rewrite (N.div_small (b0 + b1 * 256) 65536) by lia. rewrite N.add_0_l.
    rewrite N.mod_add by discriminate. apply N.mod_small; lia.
  - replace (b0 + b1 * 256 + b2 * 65536 + b3 * 16777216) with ((b0 + b1 * 256 + b2 * 65536) + b3 * 16777216) by lia.
    rewrite N.div_add by discriminate. rewrite (N.div_small (b0 + b1 * 256 + b2 * 65536) 16777216) by lia.
    rewrite N.add_0_l. apply N.mod_small; lia.
Qed.

Lemma byte_of_xor_word : forall e ks d c,
  byte_of (xor_word e ks d c) 0 = xor_byte e ks d c 0 /\ byte_of (xor_word e ks d c) 1 = xor_byte e ks d c 1 /\
  byte_of (xor_word e ks d c) 2 = xor_byte e ks d c 2 /\ byte_of (xor_word e ks d c) 3 = xor_byte e ks d c 3.
Proof. intros. unfold xor_word. apply byte_of_assemble; apply xor_byte_lt. Qed.

(* XORing twice with the same keystream restores the byte; control symbols are untouched *)
Lemma xor_byte_involutive : forall e ks d c i d',
  byte_of d' i = xor_byte e ks d c i -> xor_byte e ks d' c i = byte_of d i.
Proof.
  intros e ks d c i d' H. unfold xor_byte in *. rewrite H.
  destruct (e && negb (is_ctrl c i)); [|reflexivity].
  rewrite N.lxor_assoc, N.lxor_nilpotent, N.lxor_0_r. reflexivity.
Qed.

(* a 32-bit word is determined by its four bytes *)
Lemma word_of_bytes : forall d, d < 2 ^ 32 ->
  d = byte_of d 0 + N.shiftl (byte_of d 1) 8 + N.shiftl (byte_of d 2) 16 + N.shiftl (byte_of d 3) 24.
Proof.
  intros d Hd. unfold byte_of, bits. rewrite !N.shiftl_mul_pow2, !N.land_ones, !N.shiftr_div_pow2.
  change (2 ^ 32) with 4294967296 in Hd.
  change (2 ^ 8) with 256. change (2 ^ 16) with 65536. change (2 ^ 24) with 16777216.
  change (2 ^ (8 * 0)) with 1. change (2 ^ (8 * 1)) with 256.
  change (2 ^ (8 * 2)) with 65536. change (2 ^ (8 * 3)) with 16777216.
  rewrite N.div_1_r.
  pose proof (N.div_mod d 256 ltac:(discriminate)).
  pose proof (N.div_mod (d / 256) 256 ltac:(discriminate)).
  pose proof (N.div_mod (d / 65536) 256 ltac:(discriminate)).
  assert (E1 : d / 65536 = d / 256 / 256) by (rewrite N.div_div by discriminate; reflexivity).
  assert (E2 : d / 16777216 = d / 65536 / 256) by (rewrite N.div_div by discriminate; reflexivity).
  assert (E3 : d / 16777216 < 256) by (apply N.div_lt_upper_bound; lia).
  rewrite (N.mod_small (d / 16777216) 256) by exact E3.
  rewrite E2 in *. rewrite E1 in *. lia.
Qed.

Lemma xor_word_involutive : forall e ks d c, d < 2 ^ 32 ->
  xor_word e ks (xor_word e ks d c) c = d.
Proof.
  intros e ks d c Hd.
  destruct (byte_of_xor_word e ks d c) as [B0 [B1 [B2 B3]]].
  unfold xor_word at 1.
  rewrite (xor_byte_involutive e ks d c 0 _ B0), (xor_byte_involutive e ks d c 1 _ B1),
          (xor_byte_involutive e ks d c 2 _ B2), (xor_byte_involutive e ks d c 3 _ B3).
  symmetry. apply word_of_bytes. exact Hd.
Qed.

(* control symbols pass unchanged, so COM detection is the same on the scrambled word *)
Lemma com_first_scrambled : forall e ks d c, com_first (xor_word e ks d c) c = com_first d c.
Proof.
  intros. unfold com_first. destruct (byte_of_xor_word e ks d c) as [B0 _]. rewrite B0.
  unfold xor_byte. destruct (is_ctrl c 0) eqn:E.
  - rewrite andb_false_r. reflexivity.
  - rewrite !andb_false_r. reflexivity.
Qed.

(* Descrambling a scrambled stream from the same starting state returns the original stream,
   for every LFSR state, restart value, enable setting and every word sequence (any data/control
   mix, any COM positions). *)
Theorem descramble_scramble : forall init enable ws reg,
  Forall (fun w => fst w < 2 ^ 32) ws ->
  scramble_words init enable reg (scramble_words init enable reg ws) = ws.
Proof.
  intros init enable. induction ws as [|[d c] t IH]; intros reg H; [reflexivity|].
  inversion H as [|? ? Hd Ht]; subst. cbn [scramble_words fst] in *.
  rewrite com_first_scrambled, xor_word_involutive by exact Hd.
  rewrite IH by exact Ht. reflexivity.
Qed.

(* ---- cycle level: the words handed over in transferring cycles are the word-level scrambling ---- *)
Definition cyc_clear (i : N) := N.odd (bits i 0 1).
Definition cyc_enable (i : N) := N.odd (bits i 1 1).
Definition cyc_hold (i : N) := N.odd (bits i 2 1).
Definition cyc_data (i : N) := bits i 3 32.
Definition cyc_ctrl (i : N) := bits i 35 4.
Definition cyc_valid (i : N) := N.odd (bits i 39 1).
Definition cyc_ready (i : N) := N.odd (bits i 40 1).
Definition transferred (i : N) : bool := cyc_valid i && cyc_ready i && negb (cyc_hold i).
Definition out_word (o : N) : N * N := (bits o 0 32, bits o 32 4).

(* environment: no explicit clear, constant enable, and a word that starts with COM is handed over
   in the cycle it is presented (it is not stalled or held) *)
Definition cyc_env (enable : bool) (i : N) : bool :=
  negb (cyc_clear i) && Bool.eqb (cyc_enable i) enable &&
  (negb (cyc_valid i && com_first (cyc_data i) (cyc_ctrl i)) || transferred i).

Fixpoint handed_over (tr : list N) (outs : list N) : list (N * N) :=
  match tr, outs with
  | i :: t, o :: ot => if transferred i then out_word o :: handed_over t ot else handed_over t ot
  | _, _ => []
  end.
Definition offered (tr : list N) : list (N * N) :=
  map (fun i => (cyc_data i, cyc_ctrl i)) (filter transferred tr).

Lemma xor_word_lt : forall e ks d c, xor_word e ks d c < 2 ^ 32.
Proof.
  intros. unfold xor_word. rewrite !N.shiftl_mul_pow2.
  pose proof (xor_byte_lt e ks d c 0). pose proof (xor_byte_lt e ks d c 1).
  pose proof (xor_byte_lt e ks d c 2). pose proof (xor_byte_lt e ks d c 3).
  change (2 ^ 8) with 256. change (2 ^ 16) with 65536. change (2 ^ 24) with 16777216.
  change (2 ^ 32) with 4294967296. lia.
Qed.

Lemma out_word_compose : forall a b c d, a < 2 ^ 32 -> b < 16 -> c < 2 -> d < 2 ->
  out_word (a + N.shiftl b 32 + N.shiftl c 36 + N.shiftl d 37) = (a, b).
Proof.
  intros a b c d Ha Hb Hc Hd. unfold out_word, bits.
  rewrite !N.shiftl_mul_pow2, !N.land_ones, !N.shiftr_div_pow2.
  change (2 ^ 32) with 4294967296 in *. change (2 ^ 36) with (16 * 4294967296).
  change (2 ^ 37) with (32 * 4294967296). change (2 ^ 0) with 1. change (2 ^ 4) with 16.
  rewrite N.div_1_r. f_equal.
  - replace (a + b * 4294967296 + c * (16 * 4294967296) + d * (32 * 4294967296))
      with (a + (b + c * 16 + d * 32) * 4294967296) by lia.
    rewrite N.mod_add by discriminate. apply N.mod_small. exact Ha.
  - replace (a + b * 4294967296 + c * (16 * 4294967296) + d * (32 * 4294967296))
      with (a + (b + (c + d * 2) * 16) * 4294967296) by lia.
    rewrite N.div_add by discriminate. rewrite (N.div_small a) by exact Ha. rewrite N.add_0_l.
    rewrite N.mod_add by discriminate. apply N.mod_small. exact Hb.
Qed.

Lemma bits4_lt : forall x lo, bits x lo 4 < 16.
Proof. intros. unfold bits. rewrite N.land_ones. change (2 ^ 4) with 16. apply N.mod_lt. discriminate. Qed.
Lemma b2n_lt : forall b, b2n b < 2.
Proof. destruct b; simpl; lia. Qed.

Theorem scrambler_cycles : forall init enable tr reg,
  forallb (cyc_env enable) tr = true ->
  handed_over tr (run (scr_step init) reg tr) = scramble_words init enable reg (offered tr).
Proof.
  intros init enable. induction tr as [|i t IH]; intros reg H; [reflexivity|].
  cbn [forallb] in H. apply andb_true_iff in H as [Hi Ht].
  unfold cyc_env in Hi. apply andb_true_iff in Hi as [Hi Hcom]. apply andb_true_iff in Hi as [Hclr Hen].
  apply negb_true_iff in Hclr. apply Bool.eqb_prop in Hen.
  cbn [run]. unfold scr_step at 1.
  fold (cyc_clear i) (cyc_enable i) (cyc_hold i) (cyc_data i) (cyc_ctrl i) (cyc_valid i) (cyc_ready i).
  rewrite Hclr, Hen. cbn [orb]. cbn [handed_over]. unfold offered. cbn [filter].
  fold (transferred i).
  destruct (transferred i) eqn:T.
  - cbn [map scramble_words].
    rewrite out_word_compose by (try apply xor_word_lt; try apply bits4_lt; apply b2n_lt).
    f_equal.
    assert (V : cyc_valid i = true).
    { unfold transferred in T. destruct (cyc_valid i); [reflexivity | discriminate]. }
    rewrite V. cbn [andb].
    fold (offered t). rewrite <- IH by exact Ht.
    destruct (com_first (cyc_data i) (cyc_ctrl i)); reflexivity.
  - rewrite orb_false_r in Hcom. apply negb_true_iff in Hcom. rewrite Hcom.
    fold (offered t). rewrite <- IH by exact Ht. reflexivity.
Qed.
