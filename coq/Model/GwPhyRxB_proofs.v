(* C25 -- the bit-level abstraction of the receive front end (GwPhy.rxb: one step per recovered line symbol) decodes
   every correctly encoded packet to exactly its bytes between a start and an end event, without error, and flags a
   bit-stuffing violation. *)
From Coq Require Import NArith List Bool Lia Arith.
Import ListNotations.
From LunaLib Require Import Netlist Machine.
From LunaModel Require Import GwPhyCodec GwPhyCodec_proofs GwPhy.
Open Scope N_scope.

Lemma rxb_run_app : forall a b s,
  rxb_run s (a ++ b) = (fst (rxb_run (fst (rxb_run s a)) b), snd (rxb_run s a) ++ snd (rxb_run (fst (rxb_run s a)) b)).
Proof.
  induction a as [|y a IH]; intros b s.
  - cbn [app rxb_run fst snd]. destruct (rxb_run s b); reflexivity.
  - cbn [app rxb_run]. destruct (rxb_step s y) as [s1 e1]. rewrite IH.
    destruct (rxb_run s1 a) as [s2 e2]. cbn [fst snd]. destruct (rxb_run s2 b) as [s3 e3]. cbn [fst snd].
    rewrite app_assoc. reflexivity.
Qed.
Lemma rxb_errs_app : forall a b s, rxb_errs s (a ++ b) = rxb_errs s a ++ rxb_errs (fst (rxb_run s a)) b.
Proof.
  induction a as [|y a IH]; intros b s; [reflexivity|].
  cbn [app rxb_errs rxb_run]. rewrite IH. destruct (rxb_step s y) as [s1 e1]. cbn [fst].
  destruct (rxb_run s1 a) as [s2 e2]. reflexivity.
Qed.

(* ---- the data phase: detector active ---- *)
Definition mkA (l : bool) (n : N) (r : N) (e : bool) : rxb := {| a_last := l; a_det := 6; a_cnt := n; a_reg := r; a_err := e |}.
Definition jk (l : bool) (x : bool) : sym := if Bool.eqb l x then SJ else SK.     (* the J/K symbol that decodes to bit x after level l *)
Definition lev (s : sym) : bool := sym_dk s.

Lemma jk_nrzi : forall p (x : bool), p = SJ \/ p = SK -> (if x then p else flip p) = jk (lev p) x.
Proof. intros p x [-> | ->]; destruct x; reflexivity. Qed.
Lemma lev_jk : forall l x, lev (jk l x) = Bool.eqb l x.
Proof. intros [|] [|]; reflexivity. Qed.
Lemma jk_is_jk : forall l x, jk l x = SJ \/ jk l x = SK.
Proof. intros [|] [|]; cbn; auto. Qed.

Definition shift_reg (r : N) (x : bool) : N := if N.testbit r 8 then b2n x + 2 else b2n x + 2 * (r mod 256).
Definition put_of (r : N) : bool := N.testbit r 7 && negb (N.testbit r 8).

Lemma step_data : forall l n r e x, n <= 6 ->
  rxb_step (mkA l n r e) (jk l x) =
  if N.eqb n 6 then (mkA (Bool.eqb l x) 0 r (if x then true else e), [])
  else (mkA (Bool.eqb l x) (if x then n + 1 else 0) (shift_reg r x) e,
        if put_of r then [EvByte (rev8 (shift_reg r x mod 256))] else []).
Proof.
  intros l n r e x Hn. unfold rxb_step, mkA, shift_reg, put_of. cbn [a_last a_det a_cnt a_reg a_err].
  assert (Hd : negb (xorb (sym_dk (jk l x)) l) = x) by (destruct l, x; reflexivity).
  assert (Hs : negb (sym_dj (jk l x)) && negb (sym_dk (jk l x)) = false) by (destruct l, x; reflexivity).
  assert (Hk : sym_dk (jk l x) = Bool.eqb l x) by (destruct l, x; reflexivity).
  rewrite Hd, Hs, Hk. unfold det_start, det_end, det_active, det_next. change (N.eqb 6 5) with false. change (N.eqb 6 6) with true.
  cbn [andb negb]. destruct (N.eqb n 6) eqn:E6; cbn [andb negb app].
  - rewrite andb_false_r. cbn [app]. destruct x; reflexivity.
  - rewrite andb_true_r. destruct (N.testbit r 7 && negb (N.testbit r 8)); cbn [app]; reflexivity.
Qed.

(* ---- the shifter as the list of bits received so far in the current byte ---- *)
Definition regof (acc : list bool) : N := fold_left (fun r x => b2n x + 2 * r) acc 1.
Definition acc_next (acc : list bool) (x : bool) : list bool := if Nat.eqb (length acc) 8 then [x] else acc ++ [x].

Ltac destr_acc acc :=
  destruct acc as [|?a0 acc]; [|destruct acc as [|?a1 acc]; [|destruct acc as [|?a2 acc]; [|destruct acc as [|?a3 acc];
  [|destruct acc as [|?a4 acc]; [|destruct acc as [|?a5 acc]; [|destruct acc as [|?a6 acc]; [|destruct acc as [|?a7 acc];
  [|destruct acc as [|?a8 acc]]]]]]]]].

Lemma regof_shift : forall acc x, (length acc <= 8)%nat ->
  shift_reg (regof acc) x = regof (acc_next acc x) /\ put_of (regof acc) = Nat.eqb (length acc) 7 /\
  (length (acc_next acc x) <= 8)%nat.
Proof.
  intros acc x H. destr_acc acc; cbn [length] in H; try lia;
    repeat match goal with b : bool |- _ => destruct b end; repeat split; cbn; lia.
Qed.

Fixpoint bytes_emit (acc : list bool) (bits : list bool) : list N :=
  match bits with
  | [] => []
  | x :: t => let acc' := acc_next acc x in
              (if Nat.eqb (length acc) 7 then [rev8 (regof acc' mod 256)] else []) ++ bytes_emit acc' t
  end.

Lemma bytes_emit_full : forall bits acc, length acc = 8%nat -> bytes_emit acc bits = bytes_emit [] bits.
Proof.
  intros [|x t] acc H; [reflexivity|]. cbn [bytes_emit]. unfold acc_next. rewrite H. reflexivity.
Qed.

Lemma byte_val : forall x0 x1 x2 x3 x4 x5 x6 x7,
  rev8 (regof [x0; x1; x2; x3; x4; x5; x6; x7] mod 256) = byte_of_bits x0 x1 x2 x3 x4 x5 x6 x7.
Proof. intros. destruct x0, x1, x2, x3, x4, x5, x6, x7; reflexivity. Qed.

Lemma bytes_emit_bytes : forall bs, Forall (fun b => b < 256) bs -> bytes_emit [] (bits_of_bytes bs) = bs.
Proof.
  induction 1 as [|b bs Hb Hbs IH]; [reflexivity|].
  rewrite bits_of_bytes_cons. unfold byte_bits. cbn [app].
  cbn [bytes_emit acc_next length Nat.eqb app].
  rewrite byte_val, (byte_of_bits_byte_bits b Hb), bytes_emit_full by reflexivity. rewrite IH. reflexivity.
Qed.

Fixpoint acc_after (acc : list bool) (bits : list bool) : list bool :=
  match bits with [] => acc | x :: t => acc_after (acc_next acc x) t end.

Lemma nrzi_app : forall a b p, nrzi p (a ++ b) = nrzi p a ++ nrzi (last (nrzi p a) p) b.
Proof.
  induction a as [|x a IH]; intros b p; [reflexivity|]. cbn [app nrzi]. rewrite IH. f_equal. f_equal.
  destruct (nrzi (if x then p else flip p) a) eqn:E; [reflexivity|]. cbn [last].
  clear. revert s. induction l as [|y l IH]; intros; [reflexivity|]. cbn [last]. apply IH.
Qed.

Lemma N_of_nat_S : forall n, N.of_nat n + 1 = N.of_nat (S n).
Proof. intro n. rewrite Nat2N.inj_succ. lia. Qed.

Lemma jk_true : forall p, p = SJ \/ p = SK -> p = jk (lev p) true.
Proof. intros p [-> | ->]; reflexivity. Qed.
Lemma jk_false : forall p, p = SJ \/ p = SK -> flip p = jk (lev p) false.
Proof. intros p [-> | ->]; reflexivity. Qed.
Lemma flip_jk : forall p, p = SJ \/ p = SK -> flip p = SJ \/ flip p = SK.
Proof. intros p [-> | ->]; cbn; auto. Qed.
Lemma lev_true : forall p, p = SJ \/ p = SK -> Bool.eqb (lev p) true = lev p.
Proof. intros p [-> | ->]; reflexivity. Qed.
Lemma lev_false : forall p, p = SJ \/ p = SK -> Bool.eqb (lev p) false = lev (flip p).
Proof. intros p [-> | ->]; reflexivity. Qed.

Lemma step_one : forall p n r e, p = SJ \/ p = SK -> n <= 6 ->
  rxb_step (mkA (lev p) n r e) p =
  if N.eqb n 6 then (mkA (lev p) 0 r true, [])
  else (mkA (lev p) (n + 1) (shift_reg r true) e, if put_of r then [EvByte (rev8 (shift_reg r true mod 256))] else []).
Proof.
  intros p n r e Hp Hn. pose proof (step_data (lev p) n r e true Hn) as H.
  rewrite <- (jk_true p Hp), (lev_true p Hp) in H. exact H.
Qed.
Lemma step_zero : forall p n r e, p = SJ \/ p = SK -> n <= 6 ->
  rxb_step (mkA (lev p) n r e) (flip p) =
  if N.eqb n 6 then (mkA (lev (flip p)) 0 r e, [])
  else (mkA (lev (flip p)) 0 (shift_reg r false) e, if put_of r then [EvByte (rev8 (shift_reg r false mod 256))] else []).
Proof.
  intros p n r e Hp Hn. pose proof (step_data (lev p) n r e false Hn) as H.
  rewrite <- (jk_false p Hp), (lev_false p Hp) in H. exact H.
Qed.

(* payload bits: the machine removes the stuffed zeros and assembles the bytes; no error *)
Lemma rx_data_phase : forall bits p acc n, p = SJ \/ p = SK -> (n <= 5)%nat -> (length acc <= 8)%nat ->
  exists l' n', (n' <= 5)%nat /\
  rxb_run (mkA (lev p) (N.of_nat n) (regof acc) false) (nrzi p (stuff n bits)) =
    (mkA l' (N.of_nat n') (regof (acc_after acc bits)) false, map EvByte (bytes_emit acc bits)) /\
  Forall (fun e => e = false) (rxb_errs (mkA (lev p) (N.of_nat n) (regof acc) false) (nrzi p (stuff n bits))) /\
  (length (acc_after acc bits) <= 8)%nat.
Proof.
  induction bits as [|x bits IH]; intros p acc n Hp Hn Hacc.
  - exists (lev p), n. cbn [stuff nrzi rxb_run rxb_errs bytes_emit map acc_after]. repeat split; auto.
  - assert (Hn6 : N.of_nat n <= 6) by lia.
    assert (E6 : N.eqb (N.of_nat n) 6 = false) by (apply N.eqb_neq; lia).
    destruct (regof_shift acc x Hacc) as (RS & RP & RL).
    pose proof (flip_jk p Hp) as Hfp.
    destruct x; cbn [stuff].
    + destruct (Nat.eqb n 5) eqn:E5.
      * (* the sixth one, followed by the stuffed zero, which is dropped *)
        apply Nat.eqb_eq in E5. subst n. cbn [nrzi].
        destruct (IH (flip p) (acc_next acc true) 0%nat Hfp ltac:(lia) RL) as (l' & n' & Hn' & R & Er & Hl).
        exists l', n'. split; [exact Hn'|].
        cbn [rxb_run rxb_errs]. rewrite (step_one p _ _ _ Hp Hn6), E6. cbn [fst].
        change (N.of_nat 5 + 1) with 6.
        rewrite (step_zero p 6 _ _ Hp ltac:(lia)). change (N.eqb 6 6) with true. cbn [fst].
        change (N.of_nat 0) with 0 in R, Er. rewrite RS. rewrite R. cbn [fst snd app].
        rewrite RP. split; [|split; [|exact Hl]].
        -- cbn [bytes_emit map acc_after]. rewrite map_app. destruct (Nat.eqb (length acc) 7); reflexivity.
        -- repeat constructor. exact Er.
      * apply Nat.eqb_neq in E5. cbn [nrzi].
        destruct (IH p (acc_next acc true) (S n) Hp ltac:(lia) RL) as (l' & n' & Hn' & R & Er & Hl).
        exists l', n'. split; [exact Hn'|].
        cbn [rxb_run rxb_errs]. rewrite (step_one p _ _ _ Hp Hn6), E6. cbn [fst].
        rewrite N_of_nat_S, RS, R, RP. cbn [fst snd]. split; [|split; [|exact Hl]].
        -- cbn [bytes_emit map acc_after]. rewrite map_app. destruct (Nat.eqb (length acc) 7); reflexivity.
        -- repeat constructor. exact Er.
    + cbn [nrzi].
      destruct (IH (flip p) (acc_next acc false) 0%nat Hfp ltac:(lia) RL) as (l' & n' & Hn' & R & Er & Hl).
      exists l', n'. split; [exact Hn'|].
      cbn [rxb_run rxb_errs]. rewrite (step_zero p _ _ _ Hp Hn6), E6. cbn [fst].
      change (N.of_nat 0) with 0 in R, Er. rewrite RS, R, RP. cbn [fst snd]. split; [|split; [|exact Hl]].
      * cbn [bytes_emit map acc_after]. rewrite map_app. destruct (Nat.eqb (length acc) 7); reflexivity.
      * repeat constructor. exact Er.
Qed.

(* ---- SYNC ---- *)
Lemma c_cases : forall c, c <= 6 -> c = 0 \/ c = 1 \/ c = 2 \/ c = 3 \/ c = 4 \/ c = 5 \/ c = 6.
Proof. intros c H. lia. Qed.

Lemma rx_sync_phase : forall c, c <= 6 ->
  rxb_run (rxb_idle_c c) (nrzi SJ sync_bits) = (mkA (lev SK) 1 (regof []) false, [EvStart]) /\
  rxb_errs (rxb_idle_c c) (nrzi SJ sync_bits) = repeat false 8.
Proof.
  intros c Hc. destruct (c_cases c Hc) as [->|[->|[->|[->|[->|[->| ->]]]]]]; split; vm_compute; reflexivity.
Qed.

Lemma last_nrzi_sync : last (nrzi SJ sync_bits) SJ = SK.
Proof. reflexivity. Qed.

(* ---- end of packet and the idle line behind it ---- *)
Lemma rx_se0_step : forall l n r e, n <= 5 ->
  rxb_step (mkA l n r e) S0 =
  ({| a_last := false; a_det := 0; a_cnt := if negb l then n + 1 else 0; a_reg := 1; a_err := e |}, [EvEnd]).
Proof.
  intros l n r e Hn. unfold rxb_step, mkA. cbn [a_last a_det a_cnt a_reg a_err sym_dj sym_dk].
  assert (E6 : N.eqb n 6 = false) by (apply N.eqb_neq; lia).
  unfold det_start, det_end, det_active, det_next. change (N.eqb 6 5) with false. change (N.eqb 6 6) with true.
  rewrite E6. cbn [andb negb xorb]. rewrite !andb_false_r. cbn [app]. destruct l; reflexivity.
Qed.

Definition mkI (d c : N) : rxb := {| a_last := true; a_det := d; a_cnt := c; a_reg := 1; a_err := false |}.

Lemma rx_idle_step : forall d c, d <= 1 -> c <= 6 ->
  rxb_step (mkI d c) SJ = (mkI 0 (if N.eqb c 6 then 0 else c + 1), []).
Proof.
  intros d c Hd Hc. assert (Hd' : d = 0 \/ d = 1) by lia.
  unfold rxb_step, mkI. cbn [a_last a_det a_cnt a_reg a_err sym_dj sym_dk].
  destruct Hd' as [-> | ->]; unfold det_start, det_end, det_active, det_next; cbn; destruct (N.eqb c 6); reflexivity.
Qed.

Lemma rx_idle_run : forall m d c, d <= 1 -> c <= 6 ->
  exists c', c' <= 6 /\
  rxb_run (mkI d c) (repeat SJ m) = (mkI (match m with O => d | _ => 0 end) c', []) /\
  rxb_errs (mkI d c) (repeat SJ m) = repeat false m.
Proof.
  induction m as [|m IH]; intros d c Hd Hc.
  - exists c. repeat split; auto.
  - cbn [repeat rxb_run rxb_errs]. rewrite (rx_idle_step d c Hd Hc). cbn [fst].
    assert (Hc' : (if N.eqb c 6 then 0 else c + 1) <= 6).
    { destruct (N.eqb c 6) eqn:E; [lia|]. apply N.eqb_neq in E. lia. }
    destruct (IH 0 _ ltac:(lia) Hc') as (c' & Hc'' & R & Er). exists c'. rewrite R, Er. cbn [app repeat].
    repeat split; auto. destruct m; reflexivity.
Qed.

Lemma rx_eop_phase : forall l n r m, (n <= 5)%nat ->
  exists d c', d <= 1 /\ c' <= 6 /\ ((1 <= m)%nat -> d = 0) /\
  rxb_run (mkA l (N.of_nat n) r false) (eop ++ repeat SJ m) = (mkI d c', [EvEnd]) /\
  rxb_errs (mkA l (N.of_nat n) r false) (eop ++ repeat SJ m) = repeat false (3 + m).
Proof.
  intros l n r m Hn. assert (Hn' : N.of_nat n <= 5) by lia.
  unfold eop. cbn [app rxb_run rxb_errs]. rewrite (rx_se0_step l _ r false Hn'). cbn [fst].
  set (c1 := if negb l then N.of_nat n + 1 else 0).
  assert (Hc1 : c1 <= 6) by (subst c1; destruct l; cbn [negb]; lia).
  (* second SE0 and the J of the EOP: concrete except for the stuffing count *)
  assert (E2 : forall c, c <= 6 ->
            rxb_step {| a_last := false; a_det := 0; a_cnt := c; a_reg := 1; a_err := false |} S0 =
            ({| a_last := false; a_det := 0; a_cnt := if N.eqb c 6 then 0 else c + 1; a_reg := 1; a_err := false |}, [])).
  { intros c Hc. unfold rxb_step. cbn [a_last a_det a_cnt a_reg a_err sym_dj sym_dk].
    unfold det_start, det_end, det_active, det_next. cbn. destruct (N.eqb c 6); reflexivity. }
  assert (E3 : forall c, c <= 6 ->
            rxb_step {| a_last := false; a_det := 0; a_cnt := c; a_reg := 1; a_err := false |} SJ = (mkI 1 0, [])).
  { intros c Hc. unfold rxb_step, mkI. cbn [a_last a_det a_cnt a_reg a_err sym_dj sym_dk].
    unfold det_start, det_end, det_active, det_next. cbn. destruct (N.eqb c 6); reflexivity. }
  rewrite (E2 c1 Hc1). cbn [fst].
  assert (Hc2 : (if N.eqb c1 6 then 0 else c1 + 1) <= 6).
  { destruct (N.eqb c1 6) eqn:E; [lia|]. apply N.eqb_neq in E. lia. }
  rewrite (E3 _ Hc2). cbn [fst].
  destruct (rx_idle_run m 1 0 ltac:(lia) ltac:(lia)) as (c' & Hc' & R & Er).
  exists (match m with O => 1 | _ => 0 end), c'. rewrite R, Er. cbn [app fst snd repeat Nat.add].
  repeat split; auto.
  - destruct m; lia.
  - intro Hm. destruct m; [lia | reflexivity].
Qed.

Lemma rxb_idle_eq : forall b, rxb_idle b -> b = rxb_idle_c (a_cnt b) /\ a_cnt b <= 6.
Proof. intros [l d c r e] (H1 & H2 & H3 & H4 & H5). cbn in *. subst. split; [reflexivity | exact H3]. Qed.

Lemma repeat_false_Forall : forall k, Forall (fun e => e = false) (repeat false k).
Proof. induction k; cbn; constructor; auto. Qed.

(* ---- the receive theorem at symbol level ---- *)
Theorem rxb_frame : forall b bs m, rxb_idle b -> Forall (fun x => x < 256) bs ->
  snd (rxb_run b (frame bs ++ repeat SJ m)) = EvStart :: map EvByte bs ++ [EvEnd]
  /\ Forall (fun e => e = false) (rxb_errs b (frame bs ++ repeat SJ m))
  /\ ((1 <= m)%nat -> rxb_idle (fst (rxb_run b (frame bs ++ repeat SJ m)))).
Proof.
  intros b bs m Hb Hbs. destruct (rxb_idle_eq b Hb) as [Eb Hc]. rewrite Eb. clear Eb Hb.
  unfold frame, frame_bits. rewrite nrzi_app, last_nrzi_sync, <- !app_assoc.
  destruct (rx_sync_phase (a_cnt b) Hc) as [S1 S2].
  destruct (rx_data_phase (bits_of_bytes bs) SK [] 1%nat (or_intror eq_refl) ltac:(lia) ltac:(cbn; lia))
    as (l' & n' & Hn' & D1 & D2 & D3).
  change (N.of_nat 1) with 1 in D1, D2.
  destruct (rx_eop_phase l' n' (regof (acc_after [] (bits_of_bytes bs))) m Hn') as (d & c' & Hd & Hc' & Hm & E1 & E2).
  remember (eop ++ repeat SJ m) as tail eqn:Etail.
  rewrite !rxb_run_app, !rxb_errs_app, S1, S2. cbn [fst snd]. rewrite D1. cbn [fst snd]. subst tail. rewrite E1, E2. cbn [fst snd].
  rewrite (bytes_emit_bytes bs Hbs). split; [|split].
  - reflexivity.
  - apply Forall_app. split; [apply repeat_false_Forall|]. apply Forall_app. split; [exact D2 | apply repeat_false_Forall].
  - intro H1. rewrite (Hm H1). unfold rxb_idle, mkI. cbn. repeat split; auto.
Qed.

(* ---- bit-stuffing violations ---- *)
Lemma nrzi_jk_rx : forall bits p, p = SJ \/ p = SK -> Forall (fun s => s = SJ \/ s = SK) (nrzi p bits).
Proof.
  induction bits as [|b bits IH]; intros p Hp; [constructor|]. cbn [nrzi].
  assert (Hp' : (if b then p else flip p) = SJ \/ (if b then p else flip p) = SK)
    by (destruct Hp as [-> | ->]; destruct b; cbn; auto).
  constructor; [exact Hp' | apply IH; exact Hp'].
Qed.
Lemma err_sticky : forall l s, a_det s = 6 -> a_err s = true -> Forall (fun y => y = SJ \/ y = SK) l ->
  a_err (fst (rxb_run s l)) = true /\ a_det (fst (rxb_run s l)) = 6.
Proof.
  induction l as [|y l IH]; intros s Hd He Hl; [split; assumption|].
  inversion Hl as [|? ? Hy Hl']; subst. cbn [rxb_run].
  destruct (rxb_step s y) as [s1 e1] eqn:E. specialize (IH s1).
  assert (H1 : a_det s1 = 6 /\ a_err s1 = true).
  { unfold rxb_step in E. injection E as <- _. cbn [a_det a_err]. rewrite Hd, He.
    unfold det_start, det_next. change (N.eqb 6 5) with false. change (N.eqb 6 6) with true. cbn [andb].
    destruct Hy as [-> | ->]; cbn [sym_dj sym_dk negb andb]; split; try reflexivity;
      match goal with |- context [if ?c then _ else _] => destruct c end; reflexivity. }
  destruct H1 as [H1 H2]. destruct (IH H1 H2 Hl') as [I1 I2]. destruct (rxb_run s1 l) as [s2 e2]. cbn [fst] in *. split; assumption.
Qed.

Lemma rx_violation_phase : forall l p n r, p = SJ \/ p = SK -> (n <= 6)%nat -> (7 <= max_ones n l)%nat ->
  a_err (fst (rxb_run (mkA (lev p) (N.of_nat n) r false) (nrzi p l))) = true /\
  a_det (fst (rxb_run (mkA (lev p) (N.of_nat n) r false) (nrzi p l))) = 6.
Proof.
  induction l as [|x l IH]; intros p n r Hp Hn Hm.
  - cbn [max_ones] in Hm. lia.
  - assert (Hn6 : N.of_nat n <= 6) by lia. pose proof (flip_jk p Hp) as Hfp.
    destruct x; cbn [nrzi max_ones] in *.
    + cbn [rxb_run]. rewrite (step_one p _ r false Hp Hn6).
      destruct (N.eqb (N.of_nat n) 6) eqn:E6.
      * (* the seventh one *)
        pose proof (err_sticky (nrzi p l) (mkA (lev p) 0 r true) eq_refl eq_refl (nrzi_jk_rx l p Hp)) as [H1 H2].
        destruct (rxb_run (mkA (lev p) 0 r true) (nrzi p l)) as [s2 e2]. cbn [fst] in *. split; assumption.
      * apply N.eqb_neq in E6. rewrite N_of_nat_S.
        destruct (IH p (S n) (shift_reg r true) Hp ltac:(lia) Hm) as [H1 H2].
        destruct (rxb_run (mkA (lev p) (N.of_nat (S n)) (shift_reg r true) false) (nrzi p l)) as [s2 e2]. cbn [fst] in *. split; assumption.
    + cbn [rxb_run]. rewrite (step_zero p _ r false Hp Hn6).
      assert (Hm0 : (7 <= max_ones 0 l)%nat) by lia.
      destruct (N.eqb (N.of_nat n) 6).
      * destruct (IH (flip p) 0%nat r Hfp ltac:(lia) Hm0) as [H1 H2]. change (N.of_nat 0) with 0 in H1, H2.
        destruct (rxb_run (mkA (lev (flip p)) 0 r false) (nrzi (flip p) l)) as [s2 e2]. cbn [fst] in *. split; assumption.
      * destruct (IH (flip p) 0%nat (shift_reg r false) Hfp ltac:(lia) Hm0) as [H1 H2]. change (N.of_nat 0) with 0 in H1, H2.
        destruct (rxb_run (mkA (lev (flip p)) 0 (shift_reg r false) false) (nrzi (flip p) l)) as [s2 e2]. cbn [fst] in *. split; assumption.
Qed.

Lemma eop_err_sticky : forall s, a_err s = true -> a_det s = 6 ->
  snd (rxb_step s S0) = [EvEnd] /\ a_err (fst (rxb_run s eop)) = true.
Proof.
  intros s V1 V2.
  assert (Hstep : snd (rxb_step s S0) = [EvEnd] /\ a_err (fst (rxb_step s S0)) = true /\ a_det (fst (rxb_step s S0)) = 0).
  { unfold rxb_step. cbn [fst snd a_err a_det sym_dj sym_dk]. rewrite V1, V2.
    unfold det_start, det_end, det_active, det_next. change (N.eqb 6 5) with false. change (N.eqb 6 6) with true.
    cbn [andb negb xorb]. rewrite !andb_false_r. cbn [app]. repeat split. }
  destruct Hstep as (H1 & H2 & H3). split; [exact H1|].
  assert (K : forall t y, a_err t = true -> a_det t <> 5 -> a_err (fst (rxb_step t y)) = true).
  { intros t y He Hd. unfold rxb_step. cbn [fst a_err]. rewrite He. unfold det_start.
    destruct (N.eqb (a_det t) 5) eqn:E; [apply N.eqb_eq in E; congruence|]. cbn [andb].
    match goal with |- context [if ?c then true else true] => destruct c end; reflexivity. }
  assert (D0 : forall t, a_det t = 0 -> a_det (fst (rxb_step t S0)) = 0).
  { intros t Ht. unfold rxb_step. cbn [fst a_det sym_dj sym_dk]. rewrite Ht. unfold det_next.
    change (N.eqb 0 6) with false. change (N.eqb 0 5) with false. cbv iota. cbn [negb andb]. rewrite orb_true_r. reflexivity. }
  unfold eop. cbn [rxb_run].
  destruct (rxb_step s S0) as [s1 e1]. cbn [fst snd] in H2, H3.
  pose proof (K s1 S0 H2 ltac:(rewrite H3; discriminate)) as K1. pose proof (D0 s1 H3) as K1d.
  destruct (rxb_step s1 S0) as [s2 e2]. cbn [fst] in K1, K1d.
  pose proof (K s2 SJ K1 ltac:(rewrite K1d; discriminate)) as K2.
  destruct (rxb_step s2 SJ) as [s3 e3]. cbn [fst] in K2 |- *. exact K2.
Qed.

(* a packet whose payload contains seven consecutive ones (SYNC's last one counted): the error flag is set when the
   end-of-packet event is produced, and still set afterwards *)
Theorem rxb_violation : forall b l, rxb_idle b -> (7 <= max_ones 1 l)%nat ->
  let body := nrzi SJ (sync_bits ++ l) in
  a_err (fst (rxb_run b body)) = true /\
  snd (rxb_step (fst (rxb_run b body)) S0) = [EvEnd] /\
  a_err (fst (rxb_run b (body ++ eop))) = true.
Proof.
  intros b l Hb Hm body. destruct (rxb_idle_eq b Hb) as [Eb Hc]. rewrite Eb. clear Eb Hb.
  subst body. rewrite nrzi_app, last_nrzi_sync.
  destruct (rx_sync_phase (a_cnt b) Hc) as [S1 _].
  destruct (rx_violation_phase l SK 1%nat (regof []) (or_intror eq_refl) ltac:(lia) Hm) as [V1 V2].
  change (N.of_nat 1) with 1 in V1, V2.
  rewrite (rxb_run_app _ eop), (rxb_run_app (nrzi SJ sync_bits) (nrzi SK l)), S1. cbn [fst].
  destruct (eop_err_sticky _ V1 V2) as [E1 E2].
  split; [exact V1|]. split; [exact E1 | exact E2].
Qed.
