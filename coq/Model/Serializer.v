(* C27 -- hand model and specification of luna/gateware/stream/generator.py: StreamSerializer
   (the variant of the constant generator whose data is a runtime Array of signals).

   Parameters:  n = data_length (number of array elements, one stream word each), dw = data_width,
                mlw = max_length_width, posw = width of position_in_stream / start_position.

   One cycle's packed input word :  start | data_0 .. data_(n-1) | start_position | max_length | stream.ready
   One cycle's packed output word:  valid | first | last | payload | done
   The middle part of the input word (data, start_position, max_length) is "the request". *)
From Coq Require Import NArith List Bool.
Import ListNotations.
From LunaLib Require Import Netlist Bits Machine.
From LunaModel Require Import ConstGen.
Open Scope N_scope.

Inductive ser_fsm := S_IDLE | S_STREAMING | S_DONE.
Record ser_state := { s_fsm : ser_fsm; s_pos : N; s_sent : N }.

Section Serializer.
  Variable n : nat.
  Variables dw mlw posw : N.

  Definition reqw : N := N.of_nat n * dw + posw + mlw.
  Definition s_start (i : N) : bool := N.testbit i 0.
  Definition s_req (i : N) : N := bits i 1 reqw.
  Definition s_ready (i : N) : bool := N.testbit i (1 + reqw).

  (* fields of a request *)
  Definition r_datum (r : N) (k : nat) : N := bits r (N.of_nat k * dw) dw.
  Definition r_data (r : N) : list N := map (r_datum r) (seq 0 n).
  Definition r_sp (r : N) : N := bits r (N.of_nat n * dw) posw.
  Definition r_ml (r : N) : N := bits r (N.of_nat n * dw + posw) mlw.

  Definition ser_pack (valid first last : bool) (payload : N) (done : bool) : N :=
    b2n valid + N.shiftl (b2n first) 1 + N.shiftl (b2n last) 2 + N.shiftl payload 3 + N.shiftl (b2n done) (3 + dw).

  (* =====================  SPECIFICATION  =====================
     Same as for the constant generator (ConstGen.beats, one byte per word), with the data taken from
     the request.  The request must be held while it is being answered (environment assumption). *)
  Inductive ss_state := SsIdle | SsSend (bs : list beat) (req : N) | SsDone.

  Definition ser_answer (r : N) : list beat := beats 1 1 (r_ml r) (skipn (N.to_nat (r_sp r)) (r_data r)) 0 true.

  Definition ss_out (s : ss_state) : N :=
    match s with
    | SsSend (b :: _) _ => ser_pack true (b_first b) (b_last b) (b_payload b) false
    | SsDone => ser_pack false false false 0 true
    | _ => ser_pack false false false 0 false
    end.

  Definition ss_next (s : ss_state) (i : N) : ss_state :=
    match s with
    | SsIdle => if s_start i && (0 <? r_ml (s_req i)) then SsSend (ser_answer (s_req i)) (s_req i) else SsIdle
    | SsSend (_ :: rest) r => if s_ready i then match rest with [] => SsDone | _ => SsSend rest r end else s
    | SsSend [] _ => SsDone
    | SsDone => SsIdle
    end.

  Definition ss_step (s : ss_state) (i : N) : ss_state * N := (ss_next s i, ss_out s).

  (* Environment: a request starts within the data; data, start_position and max_length are held until done *)
  Definition ss_env (s : ss_state) (i : N) : bool :=
    match s with
    | SsIdle => if s_start i && (0 <? r_ml (s_req i)) then r_sp (s_req i) <? N.of_nat n else true
    | SsSend _ r => s_req i =? r
    | SsDone => true
    end.

  (* =====================  MODEL (code-shaped)  ===================== *)
  Definition ser_sp_eff (r : N) : N := if N.of_nat n <=? r_sp r then N.of_nat n - 1 else r_sp r.
  Definition ser_first (st : ser_state) (r : N) : bool := s_pos st =? r_sp r.
  (* (position == data_length - 1) | (bytes_sent == max_length - 1) *)
  Definition ser_last (st : ser_state) (r : N) : bool :=
    (s_pos st =? N.of_nat n - 1) || ((0 <? r_ml r) && (s_sent st =? r_ml r - 1)).

  Definition ser_out (st : ser_state) (i : N) : N :=
    match s_fsm st with
    | S_IDLE => ser_pack false false false 0 false
    | S_STREAMING => ser_pack true (ser_first st (s_req i)) (ser_last st (s_req i))
                              (nth (N.to_nat (s_pos st)) (r_data (s_req i)) 0) false
    | S_DONE => ser_pack false false false 0 true
    end.

  Definition ser_next (st : ser_state) (i : N) : ser_state :=
    match s_fsm st with
    | S_IDLE => {| s_fsm := if s_start i && (0 <? r_ml (s_req i)) then S_STREAMING else S_IDLE;
                   s_pos := ser_sp_eff (s_req i); s_sent := 0 |}
    | S_STREAMING =>
        if s_ready i then
          if ser_last st (s_req i) then {| s_fsm := S_DONE; s_pos := s_pos st; s_sent := s_sent st |}
          else {| s_fsm := S_STREAMING; s_pos := trunc posw (s_pos st + 1); s_sent := trunc mlw (s_sent st + 1) |}
        else st
    | S_DONE => {| s_fsm := S_IDLE; s_pos := s_pos st; s_sent := s_sent st |}
    end.

  Definition ser_step (st : ser_state) (i : N) : ser_state * N := (ser_next st i, ser_out st i).
  Definition ser_init : ser_state := {| s_fsm := S_IDLE; s_pos := 0; s_sent := 0 |}.

  (* packing of the model state for lock-step obligations *)
  Definition ser_enc (st : ser_state) : N :=
    pair 2 (match s_fsm st with S_IDLE => 0 | S_STREAMING => 1 | S_DONE => 2 end) (pair posw (s_pos st) (s_sent st)).
  Definition ser_dec (m : N) : ser_state :=
    let r1 := N.shiftr m 2 in
    {| s_fsm := match trunc 2 m with 0 => S_IDLE | 1 => S_STREAMING | _ => S_DONE end;
       s_pos := trunc posw r1; s_sent := N.shiftr r1 posw |}.
  Definition ser_wf (st : ser_state) : Prop := s_pos st < 2 ^ posw.

  Definition ser_okb : bool := (1 <=? N.of_nat n) && (N.of_nat n <=? 2 ^ posw).
End Serializer.
