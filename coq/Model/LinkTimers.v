(* C44 (part 2) -- hand model of luna/gateware/usb/usb3/link/timers.py: LinkMaintenanceTimers,
   parametric in the two timeouts Tk / Tr (in ss clock cycles: int(10us * f), int(1ms * f)) and in
   the widths wk / wr of the two timer registers (Signal(range(T)): the registers wrap at 2^w).

   Input word (4 bits): [0] enable (link is in U0) [1] link_command_received [2] packet_received
                        [3] link_command_transmitted
   Output word:         [0] schedule_keepalive [1] transition_to_recovery                       *)
From Coq Require Import NArith List Bool.
Import ListNotations.
From LunaLib Require Import Netlist Machine.
Open Scope N_scope.

Definition i_enable (i : N) : bool := N.testbit i 0.
Definition i_lcr (i : N) : bool := N.testbit i 1.
Definition i_pr (i : N) : bool := N.testbit i 2.
Definition i_tx (i : N) : bool := N.testbit i 3.
Definition i_rx (i : N) : bool := i_lcr i || i_pr i.       (* a link command or a header packet arrived *)

Definition o_keepalive (o : N) : bool := N.testbit o 0.
Definition o_recovery (o : N) : bool := N.testbit o 1.

Record tm_state := { kt : N; rt : N }.
Definition tm_init : tm_state := {| kt := 0; rt := 0 |}.

Section Timers.
  Variables Tk Tr wk wr : N.

  Definition tick (w : N) (restart enable : bool) (t : N) : N :=
    if restart then 0 else if enable then (t + 1) mod 2 ^ w else 0.

  Definition tm_next (st : tm_state) (i : N) : tm_state :=
    {| kt := tick wk (i_tx i) (i_enable i) (kt st); rt := tick wr (i_rx i) (i_enable i) (rt st) |}.

  Definition tm_out (st : tm_state) : N := b2n (kt st + 1 =? Tk) + 2 * b2n (rt st + 1 =? Tr).

  Definition tm_step (st : tm_state) (i : N) : tm_state * N := (tm_next st i, tm_out st).

  (* ---- specification over the history (earlier input words, most recent first) ----
     quiet ev hist = the number of most recent consecutive cycles in which the link was in U0
     (enable) and event ev did not happen.  If the last event was in cycle s and the current cycle
     is t, quiet = t - s - 1; the strobe at quiet = T - 1 is the cycle exactly T cycles after s. *)
  Fixpoint quiet (ev : N -> bool) (hist : list N) : nat :=
    match hist with
    | j :: t => if i_enable j && negb (ev j) then S (quiet ev t) else O
    | [] => O
    end.

  Definition spec_out (hist : list N) : N :=
    b2n (N.of_nat (quiet i_tx hist) mod 2 ^ wk + 1 =? Tk) +
    2 * b2n (N.of_nat (quiet i_rx hist) mod 2 ^ wr + 1 =? Tr).

  Fixpoint spec_trace (hist : list N) (ins : list N) : list N :=
    match ins with
    | [] => []
    | i :: t => spec_out hist :: spec_trace (i :: hist) t
    end.

  (* packing for the tie *)
  Definition tm_enc (st : tm_state) : N := kt st + 2 ^ wk * rt st.
  Definition tm_dec (m : N) : tm_state := {| kt := m mod 2 ^ wk; rt := m / 2 ^ wk |}.
  Definition tm_wf (st : tm_state) : Prop := kt st < 2 ^ wk.
End Timers.

(* width Amaranth gives Signal(range(n)) *)
Definition range_width (n : N) : N := N.size (n - 1).
