(* C34 -- hand model of luna/gateware/usb/usb3/physical/alignment.py: RxWordAligner (and RxPacketAligner,
   which only overrides the alignment criteria).  Parametric in W = symbols per stream word (LUNA: 4) and in
   the criteria `crit` on a W-symbol window.  Symbols are 9-bit numbers data + 256*ctrl (LunaLib.SymWord);
   lists are lowest byte first, so  previous ++ current  is the code's Cat(previous_data, sink.data).

   Code shape:  data = Cat(previous, sink);  slice i = data[8*i:][0:32]  (W symbols from offset i);
   every `with m.If(criteria(slice i))` for i = 0..W-1 assigns shift_to_apply/new_shift, the LAST matching i
   wins; the outputs source.* and alignment_offset are registers loaded every cycle with the slice at the
   offset in force (the new one if it changes this cycle). *)
From Coq Require Import NArith List Bool Arith.
Import ListNotations.
From LunaLib Require Import Netlist Machine SymWord.
Open Scope nat_scope.

Record al_in := { av : bool; asyms : list N }.                 (* sink.valid, the W symbols of sink.data/ctrl *)
Record al_res := { rv : bool; rword : list N; roff : nat }.    (* source.valid, source word, alignment_offset *)
Record al_state := { prev : list N; shift : nat; oreg : al_res }.

Section Aligner.
  Variable W : nat.
  Variable crit : list N -> bool.

  Definition window (s : nat) (cat : list N) : list N := firstn W (skipn s cat).

  (* highest offset below n whose window meets the criteria *)
  Fixpoint last_match (cat : list N) (n : nat) : option nat :=
    match n with
    | O => None
    | S n' => if crit (window n' cat) then Some n' else last_match cat n'
    end.

  Definition al_init : al_state :=
    {| prev := repeat 0%N W; shift := 0; oreg := {| rv := false; rword := repeat 0%N W; roff := 0 |} |}.

  (* the offset in force for this cycle's word *)
  Definition al_offset (st : al_state) (i : al_in) : nat :=
    if av i then match last_match (prev st ++ asyms i) W with Some j => j | None => shift st end
    else shift st.

  (* what is registered for this cycle's input (visible on source.* in the next cycle) *)
  Definition al_result (st : al_state) (i : al_in) : al_res :=
    let s := al_offset st i in
    {| rv := av i; rword := window s (prev st ++ asyms i); roff := s |}.

  Definition al_next (st : al_state) (i : al_in) : al_state :=
    {| prev := if av i then asyms i else prev st;
       shift := al_offset st i;
       oreg := al_result st i |}.

  Definition al_step (st : al_state) (i : al_in) : al_state * al_res := (al_next st i, oreg st).

  (* the results registered along a run (= the outputs, one cycle later) *)
  Fixpoint al_results (st : al_state) (ins : list al_in) : list al_res :=
    match ins with
    | [] => []
    | i :: t => al_result st i :: al_results (al_next st i) t
    end.

  (* ---------------------------------------------------------------------------------------- *)
  (* packed machine: inputs data[8W] ctrl[W] valid; outputs data[8W] ctrl[W] valid offset;
     data/ctrl are reported as 0 while valid = 0 (not observed by the property) *)
  Definition NW : N := N.of_nat W.
  Definition al_din (i : N) : al_in :=
    {| av := N.testbit i (9 * NW); asyms := syms_of W (bits i 0 (8 * NW)) (bits i (8 * NW) NW) |}.
  Definition al_eout (r : al_res) : N :=
    ((if rv r then data_of (rword r) + N.shiftl (ctrl_of (rword r)) (8 * NW) + N.shiftl 1 (9 * NW) else 0)
     + N.shiftl (N.of_nat (roff r)) (9 * NW + 1))%N.
  Definition al_mstep (st : al_state) (i : N) : al_state * N :=
    let (st', o) := al_step st (al_din i) in (st', al_eout o).
  Definition al_norm (o : N) : N :=
    if N.testbit o (9 * NW) then o else N.shiftl (N.shiftr o (9 * NW)) (9 * NW).

  (* state packing for lock-step obligations: all fields as 9-bit digits *)
  Definition al_enc (st : al_state) : N :=
    pack9 (prev st ++ rword (oreg st) ++ [N.of_nat (shift st); N.of_nat (roff (oreg st)); b2n (rv (oreg st))]).
  Definition al_dec (m : N) : al_state :=
    let l := unpack9 (2 * W + 3) m in
    {| prev := firstn W l; shift := N.to_nat (nth (2 * W) l 0%N);
       oreg := {| rv := N.eqb (nth (2 * W + 2) l 0%N) 1; rword := firstn W (skipn W l);
                  roff := N.to_nat (nth (2 * W + 1) l 0%N) |} |}.
End Aligner.

(* the criteria of the two aligners *)
Definition word_eqb (a b : list N) : bool := list_eqb a b.
Definition crit_com (w : list N) : bool := word_eqb w [COM; COM; COM; COM].               (* RxWordAligner *)
Definition crit_pkt (w : list N) : bool :=
  word_eqb w [SHP; SHP; SHP; EPF] || word_eqb w [SLC; SLC; SLC; EPF].                     (* RxPacketAligner *)

(* symbol streams *)
Definition al_in_stream (ins : list al_in) : list N := concat (map (fun i => if av i then asyms i else []) ins).
Definition al_out_stream (rs : list al_res) : list N := concat (map (fun r => if rv r then rword r else []) rs).
Definition al_nvalid (ins : list al_in) : nat := length (filter av ins).

(* input alphabets for lock-step obligations: every word over the given symbols, valid or not *)
Fixpoint al_words_over (W : nat) (syms : list N) : list (list N) :=
  match W with
  | O => [[]]
  | S w => flat_map (fun t => map (fun s => s :: t) syms) (al_words_over w syms)
  end.
Definition al_pack_in (W : nat) (valid : bool) (w : list N) : N :=
  (data_of w + N.shiftl (ctrl_of w) (8 * N.of_nat W) + N.shiftl (b2n valid) (9 * N.of_nat W))%N.
Definition al_alphabet (W : nat) (syms : list N) : list N :=
  let ws := al_words_over W syms in map (al_pack_in W true) ws ++ map (al_pack_in W false) ws.
(* smaller: every valid word, but only the uniform words as invalid ones *)
Definition al_alphabet_small (W : nat) (syms : list N) : list N :=
  map (al_pack_in W true) (al_words_over W syms) ++ map (fun s => al_pack_in W false (repeat s W)) syms.
