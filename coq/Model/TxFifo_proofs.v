(* C18 -- proofs about the TransactionalizedFIFO model (Model/TxFifo.v):
     txfifo_refines        the pointer/memory model refines the abstract commit/rollback queue
                           (abstraction function tf_abs, invariant tf_inv, step commutes), all depths,
                           all input histories;
     aq_order              the abstract queue neither loses, duplicates nor reorders entries;
     aq_held_le            it never holds more than `depth` entries;
     packing lemmas        tf_dec_enc, tf_wf_step, tf_mrun for the lock-step tie. *)
From Coq Require Import NArith List Bool Arith Lia.
Import ListNotations.
From LunaLib Require Import Netlist Machine PackN ListMem.
From LunaModel Require Import TxFifo.
Open Scope nat_scope.

(* ------------------------------------------------------------------------------------------ *)
(* ring arithmetic: everything is if-then-else over nat, decided by case split + lia            *)
Ltac ring_cases :=
  repeat match goal with
  | |- context [?a =? ?b] => destruct (Nat.eqb_spec a b)
  | |- context [?a <=? ?b] => destruct (Nat.leb_spec a b)
  | H : context [?a =? ?b] |- _ => destruct (Nat.eqb_spec a b)
  | H : context [?a <=? ?b] |- _ => destruct (Nat.leb_spec a b)
  end.
Ltac ring_lia := unfold dist, wrap, tf_next in *; ring_cases; try lia.

Section Ring.
  Variable depth : nat.
  Notation wrap := (wrap depth).
  Notation dist := (dist depth).
  Notation ring := (ring depth).
  Notation next := (tf_next depth).

  Lemma next_wrap : forall a, a <= depth -> next a = wrap (a + 1).
  Proof. intros. ring_lia. Qed.

  Lemma next_le : forall a, a <= depth -> next a <= depth.
  Proof. intros. ring_lia. Qed.

  Lemma dist_refl : forall a, dist a a = 0.
  Proof. intros. ring_lia. Qed.

  Lemma dist_zero : forall a b, a <= depth -> b <= depth -> dist a b = 0 -> a = b.
  Proof. intros. ring_lia. Qed.

  Lemma dist_wrap : forall a b, a <= depth -> b <= depth -> wrap (a + dist a b) = b.
  Proof. intros. ring_lia. Qed.

  Lemma dist_le : forall a b, a <= depth -> b <= depth -> dist a b <= depth.
  Proof. intros. ring_lia. Qed.

  Lemma dist_trans : forall a b c, a <= depth -> b <= depth -> c <= depth ->
    dist a b + dist b c <= depth -> dist a c = dist a b + dist b c.
  Proof. intros. ring_lia. Qed.

  Lemma dist_next_r : forall a b, a <= depth -> b <= depth -> dist a b < depth ->
    dist a (next b) = S (dist a b).
  Proof. intros. ring_lia. Qed.

  Lemma dist_next_l : forall a b, a <= depth -> b <= depth -> a <> b ->
    dist a b = S (dist (next a) b).
  Proof. intros. ring_lia. Qed.

  Lemma ring_length : forall m a n, length (ring m a n) = n.
  Proof. intros. unfold TxFifo.ring. rewrite map_length, seq_length. reflexivity. Qed.

  Lemma ring_0 : forall m a, ring m a 0 = [].
  Proof. reflexivity. Qed.

  Lemma map_seq_from : forall (A : Type) (f : nat -> A) n s,
    map f (seq s n) = map (fun k => f (s + k)) (seq 0 n).
  Proof.
    induction n as [|n IH]; intros s; simpl; [reflexivity|].
    rewrite Nat.add_0_r. f_equal. rewrite IH. rewrite <- seq_shift, map_map.
    apply map_ext. intros k. f_equal. lia.
  Qed.

  Lemma ring_app : forall m a n1 n2, a <= depth -> n1 + n2 <= S depth ->
    ring m a (n1 + n2) = ring m a n1 ++ ring m (wrap (a + n1)) n2.
  Proof.
    intros m a n1 n2 Ha Hn. unfold TxFifo.ring. rewrite seq_app, map_app. f_equal.
    rewrite map_seq_from. apply map_ext_in. intros k Hk. apply in_seq in Hk.
    f_equal. simpl. ring_lia.
  Qed.

  Lemma ring_1 : forall m a, a <= depth -> ring m a 1 = [nth a m 0%N].
  Proof. intros. unfold TxFifo.ring. simpl. rewrite Nat.add_0_r. f_equal. f_equal. ring_lia. Qed.

  (* dist-level forms used by the step proofs *)
  Lemma ring_split : forall m a b c, a <= depth -> b <= depth -> c <= depth ->
    dist a b + dist b c <= depth ->
    ring m a (dist a c) = ring m a (dist a b) ++ ring m b (dist b c).
  Proof.
    intros m a b c Ha Hb Hc H. rewrite (dist_trans a b c) by assumption.
    rewrite ring_app by lia. rewrite dist_wrap by assumption. reflexivity.
  Qed.

  Lemma ring_head : forall m a b, a <= depth -> b <= depth -> a <> b ->
    ring m a (dist a b) = nth a m 0%N :: ring m (next a) (dist (next a) b).
  Proof.
    intros m a b Ha Hb Hab. rewrite (dist_next_l a b) by assumption.
    pose proof (dist_le (next a) b (next_le a Ha) Hb).
    change (S (dist (next a) b)) with (1 + dist (next a) b).
    rewrite ring_app by lia. rewrite ring_1 by assumption. rewrite <- next_wrap by assumption. reflexivity.
  Qed.

  Lemma ring_snoc : forall m a b, a <= depth -> b <= depth -> dist a b < depth ->
    ring m a (dist a (next b)) = ring m a (dist a b) ++ [nth b m 0%N].
  Proof.
    intros m a b Ha Hb H. rewrite dist_next_r by assumption.
    replace (S (dist a b)) with (dist a b + 1) by lia.
    rewrite ring_app by lia. rewrite dist_wrap by assumption. rewrite ring_1 by assumption. reflexivity.
  Qed.

  (* a write at p does not disturb a region that ends at or before p *)
  Lemma ring_upd_outside : forall m a b p v, a <= depth -> b <= depth -> p <= depth ->
    dist a b + dist b p <= depth ->
    ring (upd p v m) a (dist a b) = ring m a (dist a b).
  Proof.
    intros m a b p v Ha Hb Hp H. unfold TxFifo.ring. apply map_ext_in. intros k Hk. apply in_seq in Hk.
    apply nth_upd_other. ring_lia.
  Qed.

  Lemma ring_snoc_upd : forall m a p v, a <= depth -> p <= depth -> length m = S depth ->
    dist a p < depth ->
    ring (upd p v m) a (dist a (next p)) = ring m a (dist a p) ++ [v].
  Proof.
    intros m a p v Ha Hp Hl H. rewrite ring_snoc by assumption.
    rewrite nth_upd_same by lia. f_equal.
    replace (dist a p) with (dist a p + dist p p) at 1 2 by (rewrite dist_refl; lia).
    rewrite dist_refl, Nat.add_0_r.
    pose proof (ring_upd_outside m a p p v Ha Hp Hp) as E. rewrite dist_refl, Nat.add_0_r in E.
    apply E. lia.
  Qed.
End Ring.

(* ------------------------------------------------------------------------------------------ *)
(* Refinement: the model's step is the read port followed by the write port, and each commutes
   with the abstraction function.                                                              *)
Section Refine.
  Variable depth : nat.
  Notation wrap := (wrap depth).
  Notation dist := (dist depth).
  Notation ring := (ring depth).
  Notation next := (tf_next depth).

  Definition ptr_ok (st : tf_state) : Prop :=
    tf_cr st <= depth /\ tf_r st <= depth /\ tf_cw st <= depth /\ tf_w st <= depth /\
    length (tf_mem st) = S depth /\
    dist (tf_cr st) (tf_r st) + dist (tf_r st) (tf_cw st) + dist (tf_cw st) (tf_w st) <= depth.

  Definition held (st : tf_state) : nat :=
    dist (tf_cr st) (tf_r st) + dist (tf_r st) (tf_cw st) + dist (tf_cw st) (tf_w st).

  Definition tf_read_part (i : tf_in) (st : tf_state) : tf_state :=
    let do_read := fi_read_en i && negb (tf_empty st) in
    let r1 := if do_read then next (tf_r st) else tf_r st in
    let r' := if fi_read_discard i then tf_cr st else r1 in
    {| tf_cw := tf_cw st; tf_w := tf_w st;
       tf_cr := if fi_read_commit i && negb (fi_read_discard i) then tf_r st else tf_cr st; tf_r := r';
       tf_mem := tf_mem st; tf_rdata := nth r' (tf_mem st) 0%N |}.

  Definition tf_write_part (room : bool) (i : tf_in) (st : tf_state) : tf_state :=
    let do_write := fi_write_en i && room in
    let w1 := if do_write then next (tf_w st) else tf_w st in
    {| tf_cw := if fi_write_commit i && negb (fi_write_discard i) then tf_w st else tf_cw st;
       tf_w  := if fi_write_discard i then tf_cw st else w1;
       tf_cr := tf_cr st; tf_r := tf_r st;
       tf_mem := if do_write then upd (tf_w st) (fi_write_data i) (tf_mem st) else tf_mem st;
       tf_rdata := tf_rdata st |}.

  Lemma tf_next_split : forall st i,
    tf_next_state depth st i =
    tf_write_part (negb (tf_full depth st)) i (tf_read_part i st).
  Proof.
    intros st i. unfold tf_next_state, tf_write_part, tf_read_part. cbn [tf_cw tf_w tf_cr tf_r tf_mem tf_rdata].
    destruct (fi_read_commit i), (fi_read_discard i), (fi_read_en i && negb (tf_empty st)); reflexivity.
  Qed.

  Lemma take_ring : forall en m r cw, r <= depth -> cw <= depth ->
    aq_take en (ring m r (dist r cw)) =
    if en && negb (r =? cw) then ([nth r m 0%N], ring m (next r) (dist (next r) cw))
    else ([], ring m r (dist r cw)).
  Proof.
    intros en m r cw Hr Hc. destruct (Nat.eqb_spec r cw) as [->|Hne].
    - rewrite dist_refl, andb_false_r. reflexivity.
    - rewrite ring_head by assumption. unfold aq_take. destruct en; reflexivity.
  Qed.

  Lemma read_part_ok : forall st i, tf_inv depth st ->
    let st' := tf_read_part i st in
    ptr_ok st' /\ held st' <= held st /\ tf_rdata st' = nth (tf_r st') (tf_mem st') 0%N /\
    tf_abs depth st' = aq_read_port i (tf_abs depth st).
  Proof.
    intros st i (Hcr & Hr & Hcw & Hw & Hl & Hd & _). destruct st as [cw w cr r mem rd].
    cbn [tf_cw tf_w tf_cr tf_r tf_mem tf_rdata] in *.
    unfold tf_read_part, tf_abs, aq_read_port, ptr_ok, held, tf_empty.
    cbn [tf_cw tf_w tf_cr tf_r tf_mem tf_rdata aq_tent aq_avail aq_pend].
    rewrite take_ring by assumption.
    destruct (fi_read_en i); cbn [andb];
    destruct (Nat.eqb_spec r cw) as [E|E]; cbn [negb];
    destruct (fi_read_discard i), (fi_read_commit i); cbn [andb negb].
    all: (split; [|split; [|split; [reflexivity|]]]).
    all: try (clear - Hcr Hr Hcw Hw Hl Hd E; ring_lia; fail).
    all: f_equal; rewrite ?dist_refl, ?app_nil_r; try reflexivity.
    all: try (apply ring_split; try assumption; clear - Hd; lia).
    - rewrite (ring_snoc depth mem r r) by (try assumption; clear - Hr Hcw E; ring_lia).
      rewrite dist_refl. reflexivity.
    - apply ring_snoc; try assumption. clear - Hcr Hr Hcw Hd E. ring_lia.
  Qed.

  Lemma write_part_ok : forall st i room, ptr_ok st ->
    tf_rdata st = nth (tf_r st) (tf_mem st) 0%N -> (room = true -> held st < depth) ->
    let st' := tf_write_part room i st in
    tf_inv depth st' /\ tf_abs depth st' = aq_write_port room i (tf_abs depth st).
  Proof.
    intros st i room (Hcr & Hr & Hcw & Hw & Hl & Hd) Hrd Hroom. destruct st as [cw w cr r mem rd].
    unfold held in Hroom. cbn [tf_cw tf_w tf_cr tf_r tf_mem tf_rdata] in *.
    unfold tf_write_part, tf_abs, aq_write_port, tf_inv.
    cbn [tf_cw tf_w tf_cr tf_r tf_mem tf_rdata aq_tent aq_avail aq_pend].
    destruct (fi_write_en i), room; cbn [andb]; try specialize (Hroom eq_refl);
    destruct (fi_write_discard i), (fi_write_commit i); cbn [andb negb].
    all: split; [repeat split|].
    all: rewrite ?upd_length; try assumption.
    all: try (clear - Hcr Hr Hcw Hw Hd; ring_lia; fail).
    all: try (clear - Hcr Hr Hcw Hw Hd Hroom; ring_lia; fail).
    all: try (intros _; exact Hrd).
    all: try (intro Hne; rewrite nth_upd_other; [exact Hrd | clear - Hcr Hr Hcw Hw Hd Hne; ring_lia]).
    all: f_equal; rewrite ?dist_refl, ?app_nil_r; try reflexivity.
    all: try (apply ring_upd_outside; try assumption; clear - Hcr Hr Hcw Hw Hd; ring_lia; fail).
    all: try (apply ring_split; try assumption; clear - Hd; lia).
    - pose proof (ring_upd_outside depth mem r w w (fi_write_data i) Hr Hw Hw) as E.
      rewrite E by (clear - Hcr Hr Hcw Hw Hd; ring_lia).
      apply ring_split; try assumption. clear - Hd; lia.
    - rewrite ring_snoc_upd by (try assumption; clear - Hw Hroom; ring_lia).
      rewrite dist_refl. reflexivity.
    - apply ring_snoc_upd; try assumption. clear - Hroom; lia.
  Qed.

  Lemma held_abs : forall st, aq_held (tf_abs depth st) = held st.
  Proof. intros. unfold aq_held, tf_abs, held. cbn [aq_tent aq_avail aq_pend]. rewrite !ring_length. reflexivity. Qed.

  Lemma full_abs : forall st, tf_inv depth st -> tf_full depth st = (held st =? depth).
  Proof.
    intros st (Hcr & Hr & Hcw & Hw & Hl & Hd & _). unfold tf_full, held. clear Hl.
    destruct (Nat.eqb_spec (next (tf_w st)) (tf_cr st)), (Nat.eqb_spec
      (dist (tf_cr st) (tf_r st) + dist (tf_r st) (tf_cw st) + dist (tf_cw st) (tf_w st)) depth);
      try reflexivity; exfalso; ring_lia.
  Qed.

  (* the step commutes with the abstraction function and preserves the invariant *)
  Theorem step_commutes : forall st i, tf_inv depth st ->
    tf_inv depth (tf_next_state depth st i) /\
    tf_abs depth (tf_next_state depth st i) = aq_next depth (tf_abs depth st) i.
  Proof.
    intros st i Hinv. rewrite tf_next_split. unfold aq_next.
    destruct (read_part_ok st i Hinv) as (Hp & Hh & Hrd & Habs).
    rewrite held_abs, <- (full_abs st Hinv), <- Habs.
    apply write_part_ok; try assumption.
    intro Hroom. rewrite (full_abs st Hinv) in Hroom.
    destruct Hinv as (_ & _ & _ & _ & _ & Hd & _). fold (held st) in Hd.
    destruct (Nat.eqb_spec (held st) depth); [discriminate | lia].
  Qed.

  (* the observable outputs are those of the abstract queue *)
  Theorem observe_commutes : forall st, tf_inv depth st ->
    tf_observe (tf_outputs depth st) = aq_observe depth (tf_abs depth st).
  Proof.
    intros st Hinv. pose proof (full_abs st Hinv) as Hf. pose proof (held_abs st) as Hh.
    destruct Hinv as (Hcr & Hr & Hcw & Hw & Hl & Hd & Hrd).
    unfold tf_observe, aq_observe, tf_outputs. cbn [fo_read_data fo_empty fo_full fo_space].
    rewrite Hh, <- Hf. f_equal.
    - unfold tf_empty, tf_abs. cbn [aq_avail].
      destruct (Nat.eqb_spec (tf_r st) (tf_cw st)) as [E|E].
      + rewrite E, dist_refl. reflexivity.
      + rewrite ring_head by assumption. rewrite (Hrd E). reflexivity.
    - unfold tf_empty, tf_abs. cbn [aq_avail].
      destruct (Nat.eqb_spec (tf_r st) (tf_cw st)) as [E|E].
      + rewrite E, dist_refl. reflexivity.
      + rewrite ring_head by assumption. reflexivity.
    - unfold tf_space, tf_full, held. clear Hf Hh Hrd Hl. ring_lia.
  Qed.

  Theorem txfifo_refines : forall ins st, tf_inv depth st ->
    map tf_observe (tf_run depth st ins) = aq_run depth (tf_abs depth st) ins.
  Proof.
    induction ins as [|i t IH]; intros st Hinv; [reflexivity|].
    cbn [tf_run aq_run map]. destruct (step_commutes st i Hinv) as [Hinv' Habs].
    rewrite (observe_commutes st Hinv). f_equal. rewrite IH by exact Hinv'. rewrite Habs. reflexivity.
  Qed.

  Lemma inv_init : tf_inv depth (tf_init depth).
  Proof.
    unfold tf_inv, tf_init. cbn [tf_cw tf_w tf_cr tf_r tf_mem tf_rdata].
    rewrite repeat_length, dist_refl. repeat split; lia.
  Qed.

  Lemma abs_init : tf_abs depth (tf_init depth) = aq_init.
  Proof. unfold tf_abs, tf_init. cbn [tf_cw tf_w tf_cr tf_r tf_mem]. rewrite dist_refl. reflexivity. Qed.

  Corollary txfifo_from_reset : forall ins,
    map tf_observe (tf_run depth (tf_init depth) ins) = aq_run depth aq_init ins.
  Proof. intros. rewrite txfifo_refines by apply inv_init. rewrite abs_init. reflexivity. Qed.
End Refine.

(* ------------------------------------------------------------------------------------------ *)
(* Properties of the specification itself                                                       *)
Section Queue.
  Variable depth : nat.

  (* one cycle: what is finalised now, followed by what is still readable or tentatively read,
     is what was there before followed by what is committed now *)
  Lemma aq_order_step : forall q i,
    aq_finalised_now q i ++ aq_tent (aq_next depth q i) ++ aq_avail (aq_next depth q i) =
    aq_tent q ++ aq_avail q ++ aq_committed_now q i.
  Proof.
    intros [tent avail pend] i.
    unfold aq_next, aq_write_port, aq_read_port, aq_take, aq_finalised_now, aq_committed_now.
    cbn [aq_tent aq_avail aq_pend].
    destruct avail as [|h t], (fi_read_en i), (fi_read_commit i), (fi_read_discard i),
      (fi_write_commit i), (fi_write_discard i);
      cbn [aq_tent aq_avail aq_pend app]; rewrite ?app_nil_r, <- ?app_assoc; reflexivity.
  Qed.

  (* No entry is lost, duplicated or reordered: at any time, the entries finalised so far, then the
     tentatively read ones, then the readable ones, are exactly the entries committed so far, in
     commit order (starting from any queue state q). *)
  Theorem aq_order : forall ins q,
    aq_finalised depth q ins ++ aq_tent (aq_run_state depth q ins) ++ aq_avail (aq_run_state depth q ins) =
    aq_tent q ++ aq_avail q ++ aq_committed depth q ins.
  Proof.
    induction ins as [|i t IH]; intro q; cbn [aq_finalised aq_committed aq_run_state].
    - rewrite app_nil_r. reflexivity.
    - rewrite <- app_assoc, IH.
      rewrite (app_assoc (aq_tent q)), (app_assoc (aq_tent q ++ aq_avail q)), <- (app_assoc (aq_tent q)).
      rewrite <- aq_order_step. rewrite <- !app_assoc. reflexivity.
  Qed.

  Lemma aq_held_step : forall q i, aq_held q <= depth -> aq_held (aq_next depth q i) <= depth.
  Proof.
    intros [tent avail pend] i. unfold aq_next, aq_write_port, aq_read_port, aq_take, aq_held.
    cbn [aq_tent aq_avail aq_pend]. intro H.
    destruct (Nat.eqb_spec (length tent + length avail + length pend) depth) as [E|E]; cbn [negb];
    rewrite ?andb_false_r, ?andb_true_r;
    destruct avail as [|h t], (fi_read_en i), (fi_read_commit i), (fi_read_discard i),
      (fi_write_en i), (fi_write_commit i), (fi_write_discard i);
      cbn [aq_tent aq_avail aq_pend length] in *; rewrite ?app_length; cbn [length] in *; lia.
  Qed.

  Theorem aq_held_le : forall ins q, aq_held q <= depth -> aq_held (aq_run_state depth q ins) <= depth.
  Proof.
    induction ins as [|i t IH]; intros q H; cbn [aq_run_state]; [exact H|].
    apply IH, aq_held_step, H.
  Qed.
End Queue.

(* ------------------------------------------------------------------------------------------ *)
(* Packing facts for the lock-step tie                                                          *)
Lemma tf_dec_enc : forall depth width st, tf_wf depth width st -> tf_dec depth width (tf_enc depth width st) = st.
Proof.
  intros depth width [cw w cr r mem rd] (H1 & H2 & H3 & H4 & H5 & H6 & H7).
  cbn [tf_cw tf_w tf_cr tf_r tf_mem tf_rdata] in *. unfold tf_dec, tf_enc.
  cbn [tf_cw tf_w tf_cr tf_r tf_mem tf_rdata].
  cbv zeta.
  repeat (rewrite pk_div by (try exact H5; lia)).
  repeat (rewrite pk_mod by (try exact H5; lia)).
  rewrite !Nat2N.id. rewrite <- H6, unpack_pack by exact H7. reflexivity.
Qed.

Lemma tf_wf_step : forall depth width st i, tf_wf depth width st ->
  tf_wf depth width (fst (tf_mstep depth width st i)).
Proof.
  intros depth width st i (H1 & H2 & H3 & H4 & H5 & H6 & H7).
  unfold tf_mstep, tf_next_state, tf_wf. cbn [fst tf_cw tf_w tf_cr tf_r tf_mem tf_rdata].
  pose proof (next_le depth _ H2) as Hnw. pose proof (next_le depth _ H4) as Hnr.
  pose proof (pow2_pos width) as HB.
  assert (Hwd : (fi_write_data (tf_decode width i) < 2 ^ width)%N)
    by (cbn [tf_decode fi_write_data]; unfold bits; apply land_ones_lt).
  set (ii := tf_decode width i) in *.
  repeat split.
  - destruct (fi_write_commit ii && negb (fi_write_discard ii)); assumption.
  - destruct (fi_write_discard ii), (fi_write_en ii && negb (tf_full depth st)); assumption.
  - destruct (fi_read_commit ii && negb (fi_read_discard ii)); assumption.
  - destruct (fi_read_discard ii), (fi_read_en ii && negb (tf_empty st)); assumption.
  - apply Forall_nth_lt; assumption.
  - destruct (fi_write_en ii && negb (tf_full depth st)); rewrite ?upd_length; assumption.
  - destruct (fi_write_en ii && negb (tf_full depth st)); [|assumption].
    apply upd_Forall; assumption.
Qed.

Lemma tf_wf_init : forall depth width, tf_wf depth width (tf_init depth).
Proof.
  intros. unfold tf_wf, tf_init. cbn [tf_cw tf_w tf_cr tf_r tf_mem tf_rdata].
  pose proof (pow2_pos width). rewrite repeat_length. repeat split; try lia.
  apply Forall_forall. intros x Hx. apply repeat_spec in Hx. subst. assumption.
Qed.

Lemma tf_mrun : forall depth width tr st,
  run (tf_mstep depth width) st tr = map (tf_pack_out width) (tf_run depth st (map (tf_decode width) tr)).
Proof.
  induction tr as [|i t IH]; intro st; [reflexivity|].
  cbn [run map tf_run]. unfold tf_mstep at 1. rewrite IH. reflexivity.
Qed.
