From Coq Require Import NArith ZArith Arith List Bool Lia ZifyBool ZifyN.
Import ListNotations.
From LunaLib Require Import Netlist Machine SsWords.
From LunaModel Require Import IdleHs.
Open Scope N_scope.
Ltac Zify.zify_post_hook ::= Z.div_mod_to_equations.

Section Proofs.
  Variable n : N.

  Definition rel (st : ih_state) (hist : list N) : Prop :=
    idle_word (lv st) (lw st) (lc st) = prev_idle hist /\
    seen st = seen_spec hist /\
    cnt st = N.min n (N.of_nat (en_run hist)).

  Lemma rel_init : rel ih_init [].
  Proof. unfold rel, ih_init. cbn. repeat split. lia. Qed.

  Lemma rel_out : forall st hist i, rel st hist -> ih_out n st i = spec_out n hist i.
  Proof.
    intros st hist i (H1 & H2 & H3). unfold ih_out, spec_out, ih_detected. rewrite H1, H2.
    assert (E : (cnt st =? n) = (n <=? N.of_nat (en_run hist))).
    { rewrite H3. destruct (N.min n (N.of_nat (en_run hist)) =? n) eqn:A;
        destruct (n <=? N.of_nat (en_run hist)) eqn:B; try reflexivity; lia. }
    rewrite E. reflexivity.
  Qed.

  Lemma rel_next : forall st hist i, rel st hist -> rel (ih_next n st i) (i :: hist).
  Proof.
    intros st hist i (H1 & H2 & H3). unfold rel, ih_next, ih_detected. cbn [lv lw lc seen cnt].
    split; [reflexivity|]. split.
    - cbn [seen_spec]. rewrite H1, H2. destruct (i_enable i); cbn [andb]; [|reflexivity].
      rewrite (andb_comm (prev_idle hist)). reflexivity.
    - cbn [en_run]. destruct (i_enable i).
      + rewrite Nat2N.inj_succ. destruct (cnt st <? n) eqn:A; lia.
      + cbn. lia.
  Qed.

  Theorem ih_model_spec : forall ins st hist, rel st hist ->
    run (ih_step n) st ins = spec_trace n hist ins.
  Proof.
    induction ins as [|i t IH]; intros st hist H; [reflexivity|].
    cbn [run spec_trace ih_step]. rewrite (rel_out _ _ i H). f_equal. apply IH, rel_next, H.
  Qed.

  Corollary ih_from_reset : forall ins, run (ih_step n) ih_init ins = spec_trace n [] ins.
  Proof. intros. apply ih_model_spec, rel_init. Qed.
End Proofs.

(* ---- what the two history functions of the specification mean ---- *)
Lemma en_run_nth : forall hist k, (k < en_run hist)%nat ->
  exists j, nth_error hist k = Some j /\ i_enable j = true.
Proof.
  induction hist as [|j t IH]; intros k H; cbn [en_run] in H; [lia|].
  destruct (i_enable j) eqn:E; [|lia].
  destruct k as [|k]; [exists j; split; [reflexivity | exact E]|].
  cbn [nth_error]. apply IH. lia.
Qed.

Lemma seen_spec_iff : forall hist, seen_spec hist = true <->
  exists s j j', nth_error hist s = Some j /\ nth_error hist (S s) = Some j' /\
                 is_idle j = true /\ is_idle j' = true /\ (s < en_run hist)%nat.
Proof.
  induction hist as [|j t IH]; cbn [seen_spec en_run].
  - split; [discriminate|]. intros (s & a & b & H & _). destruct s; discriminate.
  - split.
    + intros H. apply andb_true_iff in H as [E H]. rewrite E. apply orb_true_iff in H as [H|H].
      * apply IH in H as (s & a & b & A & B & C & D & L).
        exists (S s), a, b. repeat split; try assumption. lia.
      * apply andb_true_iff in H as [I1 I2]. destruct t as [|j' t']; [discriminate|].
        exists O, j, j'. repeat split; try assumption. lia.
    + intros (s & a & b & A & B & C & D & L).
      destruct (i_enable j) eqn:E; [|lia]. cbn [andb]. apply orb_true_iff.
      destruct s as [|s].
      * right. cbn in A. inversion A; subst a. rewrite C. cbn [andb].
        destruct t as [|j' t']; [discriminate|]. cbn in B. inversion B; subst b. exact D.
      * left. apply IH. exists s, a, b. repeat split; try assumption. lia.
Qed.

Lemma o_complete_pack : forall b c, o_complete (b2n b + 2 * b2n c) = c.
Proof.
  intros. unfold o_complete. rewrite N.testbit_odd, N.shiftr_div_pow2. change (2 ^ 1) with 2.
  pose proof (b2n_lt2 b). assert (E : (b2n b + 2 * b2n c) / 2 = b2n c + 2 * 0) by lia.
  rewrite E. apply odd_b2n_add_2.
Qed.

Lemma o_detected_pack : forall b c, o_detected (b2n b + 2 * b2n c) = b.
Proof. intros. unfold o_detected. rewrite N.bit0_odd. apply odd_b2n_add_2. Qed.

(* ---- the property, in its own words.  hist = the words received in earlier cycles, most recent
   first; the handshake is reported complete in the current cycle iff
     - enable is high now and was high in (at least) the n previous cycles
       (4 symbols are sent per cycle: at least 4n = 16 symbols sent since the handshake started), and
     - in some earlier cycle s of this enable run, the word of that cycle and the word of the
       cycle before it were both VALID logical-idle words (eight consecutive valid idle symbols). *)
Theorem ih_complete_iff : forall n hist i,
  o_complete (spec_out n hist i) = true <->
  i_enable i = true /\ (N.to_nat n <= en_run hist)%nat /\
  exists s j j', nth_error hist s = Some j /\ nth_error hist (S s) = Some j' /\
                 is_idle j = true /\ is_idle j' = true /\ (s < en_run hist)%nat.
Proof.
  intros n hist i. unfold spec_out. rewrite o_complete_pack. rewrite <- seen_spec_iff.
  rewrite !andb_true_iff. rewrite N.leb_le. split.
  - intros (A & B & C). repeat split; try assumption. lia.
  - intros (A & B & C). repeat split; try assumption. lia.
Qed.

Theorem ih_detected_iff : forall n hist i,
  o_detected (spec_out n hist i) = true <-> prev_idle hist = true /\ is_idle i = true.
Proof. intros. unfold spec_out. rewrite o_detected_pack. apply andb_true_iff. Qed.

(* the behaviour of the code in /repo (a word counts as idle whatever sink.valid says) does not
   satisfy the specification: *)
Definition ih_step_novalid (n : N) (st : ih_state) (i : N) : ih_state * N :=
  ih_step n st (N.lor i 2).     (* the handler of /repo = this model with valid forced to 1 *)
Theorem ih_ignoring_valid_refuted : exists ins,
  run (ih_step_novalid 4) {| lv := true; lw := 0; lc := 0; seen := false; cnt := 0 |} ins <> spec_trace 4 [] ins.
Proof. exists [mk_in true false 0 0; mk_in true false 0 0]. vm_compute. discriminate. Qed.

(* ---- packing facts for the tie ---- *)
Lemma ih_dec_enc : forall st, ih_wf st -> ih_dec (ih_enc st) = st.
Proof.
  intros [v w c s k] (Hk & Hc). cbn [cnt lc] in *. unfold ih_dec, ih_enc. cbn [lv lw lc seen cnt].
  pose proof (b2n_lt2 s) as Hs. pose proof (b2n_lt2 v) as Hv.
  set (bs := b2n s) in *. set (bv := b2n v) in *.
  assert (E0 : (k + 8 * (bs + 2 * (bv + 2 * (c + 16 * w)))) mod 8 = k) by lia.
  assert (E1 : (k + 8 * (bs + 2 * (bv + 2 * (c + 16 * w)))) / 8 = bs + 2 * (bv + 2 * (c + 16 * w))) by lia.
  assert (E2 : (k + 8 * (bs + 2 * (bv + 2 * (c + 16 * w)))) / 16 = bv + 2 * (c + 16 * w)) by lia.
  assert (E3 : (k + 8 * (bs + 2 * (bv + 2 * (c + 16 * w)))) / 32 mod 16 = c) by lia.
  assert (E4 : (k + 8 * (bs + 2 * (bv + 2 * (c + 16 * w)))) / 512 = w) by lia.
  rewrite E0, E1, E2, E3, E4. subst bs bv. rewrite !odd_b2n_add_2. reflexivity.
Qed.

Lemma ih_wf_step : forall n, n <= 7 -> forall st i, ih_wf st -> ih_wf (fst (ih_step n st i)).
Proof.
  intros n Hn st i (Hk & Hc). unfold ih_wf, ih_step, ih_next. cbn [fst cnt lc]. split.
  - destruct (i_enable i); [|lia]. destruct (cnt st <? n) eqn:A; lia.
  - unfold i_ctrl. pose proof (bits_lt i 34 4). change (2 ^ 4) with 16 in *. lia.
Qed.

Lemma ih_wf_init : ih_wf ih_init.
Proof. unfold ih_wf, ih_init. cbn. lia. Qed.
