(* C29 -- hand model and specification of the byte serialiser of
   luna/gateware/usb/usb2/endpoints/stream.py: USBMultibyteStreamInEndpoint
   (the shift-register FSM in front of the inner, byte-wide USBStreamInEndpoint).

   Parameter bw = byte_width (bytes per word), bw >= 1.

   One cycle's packed input word :  word.valid | word.first | word.last | word.payload (8*bw bits) | byte.ready
   One cycle's packed output word:  word.ready | byte.valid | byte.first | byte.last | byte.payload (8 bits)
   (word = the multi-byte input stream; byte = the stream into the inner endpoint, whose ready is an input here) *)
From Coq Require Import NArith List Bool.
Import ListNotations.
From LunaLib Require Import Netlist Bits Machine.
Open Scope N_scope.

(* one byte on the inner stream *)
Record ybeat := { y_byte : N; y_first : bool; y_last : bool }.
(* structured outputs of one cycle *)
Record mi_out := { m_wready : bool; m_bvalid : bool; m_bfirst : bool; m_blast : bool; m_bpayload : N }.

Definition mi_pack (o : mi_out) : N :=
  b2n (m_wready o) + N.shiftl (b2n (m_bvalid o)) 1 + N.shiftl (b2n (m_bfirst o)) 2
  + N.shiftl (b2n (m_blast o)) 3 + N.shiftl (m_bpayload o) 4.

Inductive mi_fsm := M_IDLE | M_TRANSMIT.
Record mi_state := { f_fsm : mi_fsm; f_shift : N; f_first : bool; f_last : bool; f_bts : N }.

Section MultiIn.
  Variable bw : nat.

  (* ---- reading one cycle's input word ---- *)
  Definition w_valid (i : N) : bool := N.testbit i 0.
  Definition w_first (i : N) : bool := N.testbit i 1.
  Definition w_last (i : N) : bool := N.testbit i 2.
  Definition w_payload (i : N) : N := bits i 3 (8 * N.of_nat bw).
  Definition b_ready (i : N) : bool := N.testbit i (3 + 8 * N.of_nat bw).

  (* =====================  SPECIFICATION  =====================
     A word (payload w, flags f l) is serialised little-endian: byte j (j = 0 .. bw-1) is bits 8j..8j+7
     of w; `first` travels with byte 0, `last` with byte bw-1. *)
  Definition ser_word (w : N) (f l : bool) : list ybeat :=
    map (fun j => {| y_byte := bits w (8 * N.of_nat j) 8;
                     y_first := f && Nat.eqb j 0; y_last := l && Nat.eqb (S j) bw |}) (seq 0 bw).

  (* Specification machine.  State: idle (remembering the byte last shown on the payload lines, which the
     hardware keeps driving while byte.valid = 0 -- a don't-care, specified only to make outputs exact), or
     transmitting with the queue q of bytes of the current word still to be sent (head = on the wire now).
       * byte.valid <=> a word is in flight; the head byte is presented until byte.ready takes it;
       * first/last are shown on the cycle the byte is taken (byte.ready high), on byte 0 / byte bw-1 only;
       * word.ready <=> idle, or the final byte of the current word is being taken right now:
         a new word is accepted only when the inner endpoint has taken everything before it. *)
  Inductive mi_spec := MIdle (stale : N) | MTx (q : list ybeat).

  Definition ms_view (s : mi_spec) (i : N) : mi_out :=
    match s with
    | MIdle stale => {| m_wready := true; m_bvalid := false; m_bfirst := false; m_blast := false; m_bpayload := stale |}
    | MTx [] => {| m_wready := true; m_bvalid := false; m_bfirst := false; m_blast := false; m_bpayload := 0 |}
    | MTx (b :: rest) =>
        {| m_wready := b_ready i && match rest with [] => true | _ => false end;
           m_bvalid := true;
           m_bfirst := b_ready i && y_first b; m_blast := b_ready i && y_last b;
           m_bpayload := y_byte b |}
    end.

  Definition ms_load (i : N) (otherwise : mi_spec) : mi_spec :=
    if w_valid i then MTx (ser_word (w_payload i) (w_first i) (w_last i)) else otherwise.

  Definition ms_next (s : mi_spec) (i : N) : mi_spec :=
    match s with
    | MIdle stale => ms_load i (MIdle stale)
    | MTx [] => ms_load i (MIdle 0)
    | MTx (b :: rest) =>
        if b_ready i then match rest with [] => ms_load i (MIdle (y_byte b)) | _ => MTx rest end else s
    end.

  Definition ms_step (s : mi_spec) (i : N) : mi_spec * N := (ms_next s i, mi_pack (ms_view s i)).
  Definition ms_init : mi_spec := MIdle 0.

  (* structured run: (state, input, outputs) per cycle *)
  Fixpoint ms_cycles (s : mi_spec) (tr : list N) : list (mi_spec * N * mi_out) :=
    match tr with
    | [] => []
    | i :: t => (s, i, ms_view s i) :: ms_cycles (ms_next s i) t
    end.

  (* what crosses the two interfaces in one cycle *)
  Definition byte_taken (c : mi_spec * N * mi_out) : list ybeat :=
    let '(_, i, o) := c in
    if m_bvalid o && b_ready i then [{| y_byte := m_bpayload o; y_first := m_bfirst o; y_last := m_blast o |}] else [].
  Definition word_taken (c : mi_spec * N * mi_out) : list ybeat :=
    let '(_, i, o) := c in
    if w_valid i && m_wready o then ser_word (w_payload i) (w_first i) (w_last i) else [].
  Definition pending (s : mi_spec) : list ybeat := match s with MIdle _ => [] | MTx q => q end.

  (* =====================  MODEL (code-shaped)  ===================== *)
  Definition btsw : N := N.size (N.of_nat bw).        (* Signal(range(0, byte_width + 1)) *)

  Definition mi_view (st : mi_state) (i : N) : mi_out :=
    match f_fsm st with
    | M_IDLE => {| m_wready := true; m_bvalid := false; m_bfirst := false; m_blast := false;
                   m_bpayload := bits (f_shift st) 0 8 |}
    | M_TRANSMIT =>
        {| m_wready := b_ready i && negb (0 <? f_bts st);
           m_bvalid := true;
           m_bfirst := b_ready i && (f_first st && (f_bts st =? N.of_nat bw - 1));
           m_blast := b_ready i && (f_last st && (f_bts st =? 0));
           m_bpayload := bits (f_shift st) 0 8 |}
    end.

  Definition mi_load (i : N) : mi_state :=
    {| f_fsm := M_TRANSMIT; f_shift := w_payload i; f_first := w_first i; f_last := w_last i;
       f_bts := trunc btsw (N.of_nat bw - 1) |}.

  Definition mi_next (st : mi_state) (i : N) : mi_state :=
    match f_fsm st with
    | M_IDLE => if w_valid i then mi_load i else st
    | M_TRANSMIT =>
        if b_ready i then
          if 0 <? f_bts st then
            {| f_fsm := M_TRANSMIT; f_shift := N.shiftr (f_shift st) 8; f_first := f_first st; f_last := f_last st;
               f_bts := f_bts st - 1 |}
          else if w_valid i then mi_load i
          else {| f_fsm := M_IDLE; f_shift := f_shift st; f_first := f_first st; f_last := f_last st; f_bts := f_bts st |}
        else st
    end.

  Definition mi_step (st : mi_state) (i : N) : mi_state * N := (mi_next st i, mi_pack (mi_view st i)).
  Definition mi_init : mi_state := {| f_fsm := M_IDLE; f_shift := 0; f_first := false; f_last := false; f_bts := 0 |}.

  (* packing of the model state for lock-step obligations *)
  Definition mi_enc (st : mi_state) : N :=
    (match f_fsm st with M_IDLE => 0 | M_TRANSMIT => 1 end) + 2 * (b2n (f_first st) + 2 * (b2n (f_last st)
      + 2 * (f_bts st + 2 ^ btsw * f_shift st))).
  Definition mi_dec (m : N) : mi_state :=
    let r1 := m / 2 in let r2 := r1 / 2 in let r3 := r2 / 2 in
    {| f_fsm := if N.odd m then M_TRANSMIT else M_IDLE; f_first := N.odd r1; f_last := N.odd r2;
       f_bts := r3 mod 2 ^ btsw; f_shift := r3 / 2 ^ btsw |}.
  Definition mi_wf (st : mi_state) : Prop := f_bts st < 2 ^ btsw.
End MultiIn.
