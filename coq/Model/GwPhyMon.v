(* C25 -- specification-level runtime monitors for the gateware PHY (used by tie.cmon over simulator traces of the real
   code).  They evaluate the SPECIFICATION (GwPhyCodec.frame / unframe and the UTMI conventions), not the models: the
   transmit monitor collects the bytes the PHY accepted and the symbols it drove and compares the symbols with
   frame0 of the bytes when the packet ends; the receive monitor recovers the symbols of an ideally sampled line by run
   lengths, decodes every complete packet with `unframe`, and compares with what the UTMI side delivered.
   Monitor states are lists of lists of small numbers, serialised into one N.  Definitions only. *)
From Coq Require Import NArith List Bool.
Import ListNotations.
From LunaLib Require Import Netlist.
From LunaModel Require Import GwPhyCodec.
Open Scope N_scope.

(* ---- serialisation: base-1024 digit stream, every list terminated by digit 0, elements stored as x+1 (< 1023) ---- *)
Fixpoint encL (l : list N) (rest : N) : N :=
  match l with
  | [] => N.shiftl rest 10
  | x :: t => N.lor (x + 1) (N.shiftl (encL t rest) 10)
  end.
Fixpoint encLL (ll : list (list N)) : N :=
  match ll with [] => 0 | l :: t => encL l (encLL t) end.
Fixpoint decL (fuel : nat) (n : N) : list N * N :=
  match fuel with
  | O => ([], 0)
  | S f => let d := N.land n 1023 in
           if N.eqb d 0 then ([], N.shiftr n 10) else let (l, r) := decL f (N.shiftr n 10) in (d - 1 :: l, r)
  end.
Fixpoint decLL (k fuel : nat) (n : N) : list (list N) :=
  match k with
  | O => []
  | S k' => let (l, r) := decL fuel n in l :: decLL k' fuel r
  end.
Definition decode (k : nat) (n : N) : list (list N) := decLL k (S (N.size_nat n)) n.

Fixpoint nlist_eqb (a b : list N) : bool :=
  match a, b with
  | [], [] => true
  | x :: a', y :: b' => N.eqb x y && nlist_eqb a' b'
  | _, _ => false
  end.
Definition nth0 (l : list N) (k : nat) : N := nth k l 0.

Definition sym_code (s : sym) : N := match s with SJ => 0 | SK => 1 | S0 => 2 | S1 => 3 end.
Definition sym_of_code (n : N) : sym := match n with 0 => SJ | 1 => SK | 2 => S0 | _ => S1 end.
(* (d_p, d_n) -> symbol code *)
Definition line_code (dp dn : N) : N :=
  match dp, dn with 0, 0 => 2 | 0, _ => 1 | _, 0 => 0 | _, _ => 3 end.
Definition rep4N (l : list N) : list N := flat_map (fun x => [x; x; x; x]) l.

(* ================================================================================================ *)
(* transmit monitor (target phytx: in tx_data[0..7] tx_valid[8] op_mode[9..10] tick_io[11] tick_usb[12];
   out dp_o[0] dn_o[1] dp_oe[2] dn_oe[3] tx_ready[4])
   state = [ [prev_valid; prev_ready; prev_oe; prev_data; step within the bit time; last symbol; all four steps equal so far] ;
             accepted bytes ; driven symbols, one per bit time (4 usb_io steps) ]
   None (= outside the UTMI transmit contract, the monitor abstains): op_mode <> 0, tx_valid dropped or tx_data changed
   in a cycle not following tx_ready, a packet started while the line is still driven.                 *)
(* ================================================================================================ *)
(* the specification `frame`; for a first byte that begins with five 1s (never a PID) LUNA's stuffer convention frame0 *)
Definition tx_expected (bytes : list N) : list sym :=
  match bytes with
  | b :: _ => if N.eqb (N.land b 31) 31 then frame0 bytes else frame bytes
  | [] => []
  end.
Definition txm_init : N := encLL [[0; 0; 0; 0; 0; 0; 1]; []; []].
Definition tx_mon (m i o : N) : option (N * bool) :=
  match decode 3 m with
  | [fl; bytes; syms] =>
      let pv := nth0 fl 0 in let pr := nth0 fl 1 in let poe := nth0 fl 2 in let pd := nth0 fl 3 in
      let cnt := nth0 fl 4 in let last := nth0 fl 5 in let same := nth0 fl 6 in
      let data := bits i 0 8 in let valid := bits i 8 1 in let mode := bits i 9 2 in let tick := bits i 12 1 in
      let oe := bits o 2 1 in let rdy := bits o 4 1 in
      let sym := line_code (bits o 0 1) (bits o 1 1) in
      if negb (N.eqb mode 0) then None
      else
        (* line side, every usb_io step: every symbol must be driven for exactly four steps *)
        let ended := N.eqb poe 1 && N.eqb oe 0 in
        let ok := if ended
                  then N.eqb cnt 0 && N.eqb same 1 &&
                       nlist_eqb syms (map sym_code (tx_expected bytes)) && negb (nlist_eqb bytes [])
                  else true in
        let bytes1 := if ended then [] else bytes in
        let driving := N.eqb oe 1 in
        let syms1 := if ended then [] else if driving && N.eqb cnt 0 then syms ++ [sym] else syms in
        let same1 := if ended then 1 else if driving && negb (N.eqb cnt 0) && negb (N.eqb sym last) then 0 else same in
        let cnt1 := if ended then 0 else if driving then (cnt + 1) mod 4 else cnt in
        let last1 := if driving then sym else last in
        (* UTMI side, sampled by the usb clock *)
        if N.eqb tick 1 then
          let dropped_early := N.eqb pv 1 && N.eqb valid 0 && N.eqb pr 0 in
          let changed_early := N.eqb pv 1 && N.eqb valid 1 && N.eqb pr 0 && negb (N.eqb data pd) in
          let started_busy := N.eqb pv 0 && N.eqb valid 1 && (driving || negb (nlist_eqb syms1 [])) in
          if dropped_early || changed_early || started_busy then None
          else
            let bytes2 := if N.eqb valid 1 && N.eqb rdy 1 then bytes1 ++ [data] else bytes1 in
            Some (encLL [[valid; rdy; oe; data; cnt1; last1; same1]; bytes2; syms1], ok)
        else Some (encLL [[pv; pr; oe; pd; cnt1; last1; same1]; bytes1; syms1], ok)
  | _ => None
  end.

(* ================================================================================================ *)
(* receive monitor (target phyrx: in dp_i[0] dn_i[1] tx_data[2..9] tx_valid[10] op_mode[11..12] tick_io[13] tick_usb[14];
   out rx_data[0..7] rx_valid[8] rx_active[9] rx_error[10])
   state = [ [prev sample; run length; collecting; prev_active; seen_error; still in the first run; age] ;
             symbols of the packet being received on the line ;
             expectations: 600 + k followed by k bytes (a good packet), 1000 (a packet with a stuffing violation) ;
             bytes collected on the UTMI side in the current rx_active run ]
   None: the PHY is transmitting, the line is not an ideal 4x sampling (a run of equal samples whose length is not a
   multiple of 4), or it carried a packet that `unframe` calls malformed.                               *)
(* ================================================================================================ *)
Definition rxm_init : N := encLL [[0; 0; 0; 0; 0; 1; 0]; []; []; []].

(* feed one recovered symbol to the packetiser: (collecting, cur, new expectation or malformed flag) *)
Definition ends_eop (cur : list N) : bool :=
  match rev cur with 0 :: 2 :: 2 :: _ => true | _ => false end.
Definition rx_feed (coll : N) (cur : list N) (s : N) : N * list N * option (option (list N)) :=
  if N.eqb coll 0 then
    if N.eqb s 0 then (0, [], None) else (1, [s], None)
  else
    let cur' := cur ++ [s] in
    if ends_eop cur' then
      match unframe (map sym_of_code cur') with
      | RxBytes bs => (0, [], Some (Some (600 + N.of_nat (length bs) :: bs)))
      | RxStuffError => (0, [], Some (Some [1000]))
      | RxMalformed => (0, [], Some None)
      end
    else (1, cur', None).

(* compare a finished rx_active run with the oldest expectation: (remaining expectations, verdict) *)
Definition rx_match (exp got : list N) (err : bool) : list N * bool :=
  match exp with
  | [] => ([], false)                                   (* something was delivered that the line did not carry *)
  | t :: rest =>
      if N.eqb t 1000 then (rest, err)
      else let k := N.to_nat (t - 600) in
           (skipn k rest, nlist_eqb (firstn k rest) got && negb err)
  end.

Definition rx_mon (m i o : N) : option (N * bool) :=
  match decode 4 m with
  | [fl; cur; exp; got] =>
      let ps := nth0 fl 0 in let run := nth0 fl 1 in let coll := nth0 fl 2 in let pa := nth0 fl 3 in
      let se := nth0 fl 4 in let first := nth0 fl 5 in let age := nth0 fl 6 in
      let s := line_code (bits i 0 1) (bits i 1 1) in
      let txv := bits i 10 1 in let tick := bits i 14 1 in
      let data := bits o 0 8 in let valid := bits o 8 1 in let active := bits o 9 1 in let err := bits o 10 1 in
      if N.eqb txv 1 then None
      else if negb (N.eqb s ps) && negb (N.eqb (run mod 4) 0) && N.eqb first 0 then None
      else
        let run' := if N.eqb s ps then run + 1 else 1 in
        let first1 := if N.eqb s ps then first else 0 in     (* the idle run at the start of a trace may have any length *)
        (* a symbol is complete with every 4th sample of a run *)
        let '(coll1, cur1, ev) := if N.eqb (run' mod 4) 0 then rx_feed coll cur s else (coll, cur, None) in
        match ev with
        | Some None => None
        | _ =>
          let exp1 := match ev with Some (Some e) => exp ++ e | _ => exp end in
          (* UTMI side *)
          if N.eqb tick 1 then
            let rising := N.eqb active 1 && N.eqb pa 0 in
            let falling := N.eqb active 0 && N.eqb pa 1 in
            let got1 := if rising then [] else if N.eqb active 1 && N.eqb valid 1 then got ++ [data] else got in
            let se1 := if rising then err else if N.eqb active 1 then N.lor se err else se in
            let '(exp2, ok) := if falling then rx_match exp1 got (N.eqb se 1) else (exp1, true) in
            let age1 := match exp2 with [] => 0 | _ => if falling then 0 else age + 1 end in
            Some (encLL [[s; run' mod 1000; coll1; active; se1; first1; age1]; cur1; exp2; if falling then [] else got1],
                  ok && N.ltb age1 200)
          else Some (encLL [[s; run' mod 1000; coll1; pa; se; first1; age]; cur1; exp1; got], true)
        end
  | _ => None
  end.
