(* C39 -- hand model of luna/gateware/usb/usb3/link/transmitter.py: PacketTransmitter (credit / sequence / retry
   bookkeeping around a RawPacketTransmitter and a LinkCommandDetector) and the specification it is proved against.
   One list element = one "ss" clock cycle.

   Reading guide
     1. interface records
     2. tp_state / tp_mon      the SPECIFICATION: an abstract machine (credits, next sequence number, the LIST of
                               unacknowledged headers, how many of them have been sent in the current pass, retry
                               mode) that observes the inputs and outputs of every cycle
     3. ptx / ptx_step         the code-shaped MODEL, parametric in the buffer count n (pointer width pw, counter
                               width cw), sequence width sw, credit timeout T (timer width tw) and the positions of
                               the sequence-number and delayed fields inside a header
     4. lcdet / rawtx          models of LinkCommandDetector and of the header path of RawPacketTransmitter, and the
                               composition = the complete PacketTransmitter for header packets without payload
     5. packed forms for the ties

   RawPacketTransmitter is abstracted to what the bookkeeping relies on: it latches `header` in the first cycle in
   which it is idle and `generate` is high, is busy from the next cycle on, and raises `done` in one later cycle
   (the wire format is C36's subject).

   The model describes the PROPERTY-SATISFYING behaviour.  It differs from the gateware as found in the tree when it
   was written in four corner cases (findings/C39-*.json, findings/C39-*.diff):
     P1  an LGOOD that matches the expected number while NO header is outstanding is a mismatch (recovery_required),
         not a retirement (the gateware advanced its acknowledge pointer, so that a later LBAD retransmitted a stale buffer);
     P2  a transmission that was handed to the raw transmitter before an LBAD (or completes in the LBAD's cycle) does
         not count as one of the retransmissions answering that LBAD, also when it is itself a retransmission
         (the gateware skipped the first unacknowledged header when a second LBAD arrived during a retransmission);
     P3  a header accepted in the very cycle of an LBAD is scheduled like any other (the gateware left it unsent);
     P4  no new (DL-less) transmission is started once an LBAD has arrived (the gateware re-sent the first
         unacknowledged header without the DL bit when the LBAD arrived in the cycle a send was dispatched). *)
From Coq Require Import NArith List Bool.
Import ListNotations.
From LunaLib Require Import Netlist Bits Machine ListMem.
From LunaModel Require Import Crc HdrRx.
Open Scope N_scope.

Definition LGO_U : N := 4.

(* ------------------------------------------------------------------------------------------ *)
(* 1. Interface of the bookkeeping: partner link commands arrive decoded (p_new, p_cmd, p_sub);
      p_finish = the raw transmitter finishes the packet it is busy with *)
Record pin := {
  p_en : bool; p_qvalid : bool; p_qhdr : N; p_lrty : bool;
  p_new : bool; p_cmd : N; p_sub : N; p_finish : bool }.

Record pout := {
  q_ready : bool;                      (* queue.ready *)
  q_gen : bool; q_hdr : N;             (* packet_tx.generate, packet_tx.header *)
  q_start : bool; q_done : bool;       (* the raw transmitter latches a header / finishes in this cycle *)
  q_retry_req : bool; q_retry_rx : bool; q_recov : bool; q_up : bool;
  q_lgo : bool; q_lgo_target : N;
  q_cred : N; q_tosend : N }.          (* debug outputs credits_available, packets_to_send *)

Section Fields.
  Variables sp dp : N.     (* bit positions of sequence_number (3 bits) and delayed (1 bit) inside a header *)
  Definition stamp (h seq : N) : N := setbits h sp 3 seq.
  Definition mark (h : N) : N := setbits h dp 1 1.
  Definition seq_of (h : N) : N := bits h sp 3.
End Fields.

(* ------------------------------------------------------------------------------------------ *)
(* 2. SPECIFICATION                                                                             *)
Record tp_state := {
  t_up : bool;            (* the partner's sequence-number advertisement has been received *)
  t_cred : N;             (* credits advertised by the partner and not yet used *)
  t_nextcred : N;         (* index the next LCRD must carry *)
  t_seq : N;              (* sequence number the next accepted header gets *)
  t_unacked : list N;     (* accepted headers (with their sequence numbers) not yet retired, oldest first *)
  t_sent : N;             (* how many of them have been (re)transmitted since the last LBAD *)
  t_dl : bool;            (* an LBAD arrived and its backlog is not drained: transmissions carry DL *)
  t_fly : bool;           (* the raw transmitter is busy *)
  t_stale : bool }.       (* ... with a packet handed over before the most recent LBAD *)

Definition tp_init : tp_state :=
  {| t_up := false; t_cred := 0; t_nextcred := 0; t_seq := 0; t_unacked := []; t_sent := 0; t_dl := false;
     t_fly := false; t_stale := false |}.

Section TxSpec.
  Variables n sw : N.          (* partner buffer count; width of sequence numbers *)
  Variables sp dp : N.

  Definition is_cmd39 (i : pin) (c : N) : bool := p_new i && (p_cmd i =? c).
  Definition tp_take (g : tp_state) (i : pin) (o : pout) : bool := p_qvalid i && q_ready o.
  Definition tp_lcrd_ok (g : tp_state) (i : pin) : bool := is_cmd39 i LCRD && (p_sub i =? t_nextcred g).
  (* an LGOOD retires the OLDEST unacknowledged header, and only if it carries that header's sequence number *)
  Definition tp_retire (g : tp_state) (i : pin) : bool :=
    is_cmd39 i LGOOD && t_up g &&
    match t_unacked g with [] => false | h :: _ => p_sub i =? seq_of sp h end.
  Definition tp_mismatch (g : tp_state) (i : pin) : bool :=
    (is_cmd39 i LCRD && negb (p_sub i =? t_nextcred g)) ||
    (is_cmd39 i LGOOD && t_up g && negb (tp_retire g i)).
  Definition tp_lbad (i : pin) : bool := is_cmd39 i LBAD.
  (* a transmission starts: the raw transmitter is idle and is asked to generate (it latches the header now) *)
  Definition tp_start (g : tp_state) (o : pout) : bool := q_gen o && negb (t_fly g).

  (* scope and the partner's side of the contract: the link goes down (enable low) only while the transmitter is
     quiescent -- raw transmitter idle, every accepted header transmitted, no LBAD backlog --; never more credits
     than the partner has buffers; it acknowledges only headers that were transmitted since its last LBAD *)
  Definition tp_quiet (g : tp_state) : bool :=
    negb (t_fly g) && (t_sent g =? N.of_nat (length (t_unacked g))) && negb (t_dl g).
  Definition tp_env (g : tp_state) (i : pin) : bool :=
    (p_en i || tp_quiet g) &&
    (negb (tp_lcrd_ok g i) || (t_cred g + N.of_nat (length (t_unacked g)) <? n)) &&
    (negb (tp_retire g i) || (0 <? t_sent g)).

  Definition tp_check (g : tp_state) (i : pin) (o : pout) : bool :=
    (* a new header is taken only while the partner has advertised an unused credit (and after bring-up) *)
    Bool.eqb (q_ready o) (t_up g && (0 <? t_cred g)) &&
    (* a transmission starts only for the next unsent unacknowledged header, in order; it carries DL iff an LBAD's
       backlog is being drained *)
    (if tp_start g o then
       (t_sent g <? N.of_nat (length (t_unacked g))) &&
       (q_hdr o =? (if t_dl g then mark dp else (fun h => h)) (nth (N.to_nat (t_sent g)) (t_unacked g) 0))
     else true) &&
    (* partner commands are reported *)
    Bool.eqb (q_retry_req o) (tp_lbad i) && Bool.eqb (q_retry_rx o) (is_cmd39 i LRTY) &&
    (negb (tp_mismatch g i) || q_recov o) &&
    Bool.eqb (q_up o) (t_up g) && (q_cred o =? t_cred g) &&
    (q_tosend o =? N.of_nat (length (t_unacked g)) - t_sent g).

  Definition tp_next (g : tp_state) (i : pin) (o : pout) : tp_state :=
    let take := tp_take g i o in
    let ret := tp_retire g i in
    let lbad := tp_lbad i in
    let dn := q_done o in
    let counted := dn && negb (t_stale g) && negb lbad in          (* a transmission that counts completes *)
    let unacked' := (if ret then tl (t_unacked g) else t_unacked g) ++
                    (if take then [stamp sp (p_qhdr i) (t_seq g)] else []) in
    let sent' := if lbad then 0 else t_sent g + b2n counted - b2n ret in
    let seq' := if is_cmd39 i LGOOD && negb (t_up g) then (p_sub i + 1) mod 2 ^ sw
                else if take then (t_seq g + 1) mod 2 ^ sw else t_seq g in
    let fly' := if dn then false else t_fly g || tp_start g o in
    let stale' := if dn then false else t_stale g || (lbad && (t_fly g || tp_start g o)) in
    (* a cycle with the link down forgets the session: bring-up, credits, unacknowledged headers, retry mode *)
    if negb (p_en i) then
      {| t_up := false; t_cred := 0; t_nextcred := 0; t_seq := seq'; t_unacked := []; t_sent := 0; t_dl := false;
         t_fly := fly'; t_stale := stale' |}
    else
    {| t_up := t_up g || is_cmd39 i LGOOD;
       t_cred := t_cred g + b2n (tp_lcrd_ok g i) - b2n take;
       t_nextcred := if tp_lcrd_ok g i then (t_nextcred g + 1) mod n else t_nextcred g;
       t_seq := seq';
       t_unacked := unacked';
       t_sent := sent';
       t_dl := if lbad then true
               else if counted && t_dl g && (t_sent g + 1 =? N.of_nat (length (t_unacked g))) then false
               else t_dl g;
       t_fly := fly';
       t_stale := stale' |}.

  Definition tp_mon (g : tp_state) (i : pin) (o : pout) : option (tp_state * bool) :=
    if tp_env g i then Some (tp_next g i o, tp_check g i o) else None.

  Fixpoint tp_accepts (g : tp_state) (ios : list (pin * pout)) : bool :=
    match ios with
    | [] => true
    | (i, o) :: t => match tp_mon g i o with
                     | None => true
                     | Some (g', ok) => ok && tp_accepts g' t
                     end
    end.
End TxSpec.

(* ------------------------------------------------------------------------------------------ *)
(* 3. MODEL of the bookkeeping                                                                  *)
Inductive pfsm := P_DISPATCH | P_SEND | P_RETRY.

Record ptx := {
  x_cred : N; x_tosend : N; x_await : N; x_rd : N; x_wr : N; x_ak : N; x_bufs : list N;
  x_tseq : N; x_retry : bool; x_up : bool; x_ncred : N; x_nack : N; x_timer : N;
  x_fsm : pfsm; x_busy : bool; x_stale : bool }.

Section PtxModel.
  Variables n pw cw sw : N.
  Variables T tw : N.          (* credit timeout in cycles, width of its timer *)
  Variables sp dp : N.

  Definition ptx_init : ptx :=
    {| x_cred := 0; x_tosend := 0; x_await := 0; x_rd := 0; x_wr := 0; x_ak := 0; x_bufs := repeat 0 (N.to_nat n);
       x_tseq := 0; x_retry := false; x_up := false; x_ncred := 0; x_nack := dec sw 0; x_timer := 0;
       x_fsm := P_DISPATCH; x_busy := false; x_stale := false |}.

  Definition pidx (x : N) : nat := N.to_nat (N.min x (n - 1)).
  Definition cmd_is (i : pin) (c : N) : bool := p_new i && (p_cmd i =? c).

  Definition m_ready (s : ptx) : bool := x_up s && negb (x_cred s =? 0).
  Definition m_take (s : ptx) (i : pin) : bool := p_qvalid i && m_ready s.
  Definition m_lcrd_ok (s : ptx) (i : pin) : bool := cmd_is i LCRD && (x_ncred s =? p_sub i).
  Definition m_bringup (s : ptx) (i : pin) : bool := cmd_is i LGOOD && negb (x_up s).
  Definition m_retire (s : ptx) (i : pin) : bool :=
    cmd_is i LGOOD && x_up s && (x_nack s =? p_sub i) && negb (x_await s =? 0).
  Definition m_recov_cmd (s : ptx) (i : pin) : bool :=
    (cmd_is i LCRD && negb (x_ncred s =? p_sub i)) ||
    (cmd_is i LGOOD && x_up s && negb ((x_nack s =? p_sub i) && negb (x_await s =? 0))).
  Definition m_lbad (i : pin) : bool := cmd_is i LBAD.
  Definition m_gen (s : ptx) (i : pin) : bool :=
    match x_fsm s with P_DISPATCH => false | P_SEND => negb (x_retry s) | P_RETRY => negb (p_lrty i) end.
  Definition m_done (s : ptx) (i : pin) : bool := x_busy s && p_finish i.
  Definition m_start (s : ptx) (i : pin) : bool := m_gen s i && negb (x_busy s).
  Definition m_deq (s : ptx) (i : pin) : bool :=
    match x_fsm s with
    | P_DISPATCH => false
    | P_SEND => m_done s i && negb (x_retry s)
    | P_RETRY => m_done s i && negb (x_stale s) && negb (m_lbad i)
    end.
  Definition m_hdr (s : ptx) : N :=
    let h := nth (pidx (x_rd s)) (x_bufs s) 0 in
    match x_fsm s with P_RETRY => mark dp h | _ => h end.

  Definition ptx_out (s : ptx) (i : pin) : pout :=
    {| q_ready := m_ready s; q_gen := m_gen s i; q_hdr := m_hdr s; q_start := m_start s i; q_done := m_done s i;
       q_retry_req := m_lbad i; q_retry_rx := cmd_is i LRTY;
       q_recov := m_recov_cmd s i || (x_timer s =? T);
       q_up := x_up s; q_lgo := cmd_is i LGO_U; q_lgo_target := if cmd_is i LGO_U then p_sub i mod 4 else 0;
       q_cred := x_cred s; q_tosend := x_tosend s |}.

  Definition ptx_step (s : ptx) (i : pin) : ptx :=
    let take := m_take s i in
    let ret := m_retire s i in
    let lbad := m_lbad i in
    let deq := m_deq s i in
    let dn := m_done s i in
    let en := p_en i in
    {| x_cred := if en then updown cw (x_cred s) (m_lcrd_ok s i) take else 0;
       x_tosend := if en then (if lbad then (x_await s + b2n take) mod 2 ^ cw else updown cw (x_tosend s) take deq) else 0;
       x_await := if en then updown cw (x_await s) take ret else 0;
       x_rd := if en then (if lbad then x_ak s else if deq then inc pw (x_rd s) else x_rd s) else 0;
       x_wr := if en then (if take then inc pw (x_wr s) else x_wr s) else 0;
       x_ak := if en then (if ret then inc pw (x_ak s) else x_ak s) else 0;
       x_bufs := if take then upd (pidx (x_wr s)) (stamp sp (p_qhdr i) (x_tseq s)) (x_bufs s) else x_bufs s;
       x_tseq := if m_bringup s i then (p_sub i + 1) mod 2 ^ sw
                 else if take then inc sw (x_tseq s) else x_tseq s;
       x_retry := if en then
                    (match x_fsm s with
                     | P_RETRY => if deq && (x_tosend s =? 1) then false else if lbad then true else x_retry s
                     | _ => if lbad then true else x_retry s
                     end) else false;
       x_up := if en then x_up s || m_bringup s i else false;
       x_ncred := if en then (if m_lcrd_ok s i then inc pw (x_ncred s) else x_ncred s) else 0;
       x_nack := if m_bringup s i then (p_sub i + 1) mod 2 ^ sw
                 else if ret then inc sw (x_nack s) else x_nack s;
       x_timer := if ret then 0 else if (x_await s =? 0) || negb en then 0 else inc tw (x_timer s);
       x_fsm := match x_fsm s with
                | P_DISPATCH => if x_up s && negb (x_tosend s =? 0) then (if x_retry s then P_RETRY else P_SEND)
                                else P_DISPATCH
                | P_SEND => if dn then P_DISPATCH else if x_retry s && negb (x_busy s) then P_DISPATCH else P_SEND
                | P_RETRY => if deq && (x_tosend s =? 1) then P_DISPATCH else P_RETRY
                end;
       x_busy := if dn then false else x_busy s || m_gen s i;
       x_stale := if dn then false else x_stale s || (lbad && (x_busy s || m_gen s i)) |}.

  Fixpoint ptx_ios (s : ptx) (ins : list pin) : list (pin * pout) :=
    match ins with
    | [] => []
    | i :: t => (i, ptx_out s i) :: ptx_ios (ptx_step s i) t
    end.
End PtxModel.

(* ------------------------------------------------------------------------------------------ *)
(* 4. LinkCommandDetector, the header path of RawPacketTransmitter, and the complete PacketTransmitter            *)
Record lcdet := { d_parse : bool; d_cmd : N; d_sub : N; d_new : bool }.
Definition lcdet_init : lcdet := {| d_parse := false; d_cmd := 0; d_sub := 0; d_new := false |}.
Definition is_lcstart (w : word) : bool := w_valid w && (w_data w =? LC_START) && (w_ctrl w =? 15).
(* a command word is accepted iff it is all data, both halves agree and the CRC-5 matches *)
Definition lc_accept (w : word) : bool :=
  let lo := bits (w_data w) 0 16 in
  (w_ctrl w =? 0) && (lo =? bits (w_data w) 16 16) && (bits lo 11 5 =? crc5_usb (bits lo 0 11)).
Definition lcdet_step (d : lcdet) (w : word) : lcdet :=
  let take := d_parse d && w_valid w && lc_accept w in
  {| d_parse := if d_parse d then negb (w_valid w) else is_lcstart w;
     d_cmd := if take then bits (w_data w) 7 4 else d_cmd d;
     d_sub := if take then bits (w_data w) 0 4 else d_sub d;
     d_new := take |}.

(* RawPacketTransmitter for headers without payload: HPSTART, DW0, DW1, DW2, DW3, each word waiting for source.ready *)
Definition rawtx_step (k : N) (gen srdy : bool) : N :=      (* 0 = idle, 1 = HPSTART, 2..5 = DW0..DW3 *)
  match k with
  | 0 => if gen then 1 else 0
  | 5 => if srdy then 0 else 5
  | _ => if srdy then k + 1 else k
  end.

Record fin := {
  f_en : bool; f_qvalid : bool; f_qhdr : N; f_lrty : bool; f_sink : word; f_srdy : bool }.

Section FullTx.
  Variables n pw cw sw T tw sp dp : N.
  Definition ftx_state : Type := (lcdet * N * ptx)%type.
  Definition ftx_init : ftx_state := (lcdet_init, 0, ptx_init n sw).
  Definition ftx_pin (st : ftx_state) (i : fin) : pin :=
    let '(d, k, _) := st in
    {| p_en := f_en i; p_qvalid := f_qvalid i; p_qhdr := f_qhdr i; p_lrty := f_lrty i;
       p_new := d_new d; p_cmd := d_cmd d; p_sub := d_sub d; p_finish := (k =? 5) && f_srdy i |}.
  Definition ftx_step (st : ftx_state) (i : fin) : ftx_state * pout :=
    let '(d, k, x) := st in
    let pi := ftx_pin st i in
    ((lcdet_step d (f_sink i), rawtx_step k (m_gen x pi) (f_srdy i), ptx_step n pw cw sw tw sp x pi), ptx_out n T dp x pi).
End FullTx.

(* ------------------------------------------------------------------------------------------ *)
(* 5. Packed forms                                                                              *)
(* stub targets: input word  enable, queue.valid, queue.header (hh bits), lrty_pending, new_command, command (4),
   subtype (4), finish;   output word  queue.ready, generate, header (hh), start, done, retry_required,
   retry_received, recovery_required, bringup_complete, lgo_received, lgo_target (2), credits_available (cw),
   packets_to_send (cw) *)
Definition pin_of (hh : N) (x : N) : pin :=
  {| p_en := N.testbit x 0; p_qvalid := N.testbit x 1; p_qhdr := bits x 2 hh; p_lrty := N.testbit x (2 + hh);
     p_new := N.testbit x (3 + hh); p_cmd := bits x (4 + hh) 4; p_sub := bits x (8 + hh) 4;
     p_finish := N.testbit x (12 + hh) |}.
Fixpoint packf (l : list (N * N)) : N :=      (* fields (value, width), first field in the low bits *)
  match l with [] => 0 | (v, w) :: t => v + 2 ^ w * packf t end.
Definition pack_pout (hh cw : N) (o : pout) : N :=
  packf [(b2n (q_ready o), 1); (b2n (q_gen o), 1); (q_hdr o, hh); (b2n (q_start o), 1); (b2n (q_done o), 1);
         (b2n (q_retry_req o), 1); (b2n (q_retry_rx o), 1); (b2n (q_recov o), 1); (b2n (q_up o), 1);
         (b2n (q_lgo o), 1); (q_lgo_target o, 2); (q_cred o, cw); (q_tosend o, cw)].
Definition unpack_pout (hh cw : N) (x : N) : pout :=
  {| q_ready := N.testbit x 0; q_gen := N.testbit x 1; q_hdr := bits x 2 hh; q_start := N.testbit x (2 + hh);
     q_done := N.testbit x (3 + hh); q_retry_req := N.testbit x (4 + hh); q_retry_rx := N.testbit x (5 + hh);
     q_recov := N.testbit x (6 + hh); q_up := N.testbit x (7 + hh); q_lgo := N.testbit x (8 + hh);
     q_lgo_target := bits x (9 + hh) 2; q_cred := bits x (11 + hh) cw; q_tosend := bits x (11 + hh + cw) cw |}.

Definition ptx_mstep (n pw cw sw T tw sp dp hh : N) (s : ptx) (x : N) : ptx * N :=
  let i := pin_of hh x in (ptx_step n pw cw sw tw sp s i, pack_pout hh cw (ptx_out n T dp s i)).

(* complete PacketTransmitter (real detector and raw transmitter, 128-bit headers, no payloads): input word
   enable, queue.valid, queue.header (128), lrty_pending, sink.valid, sink.data (32), sink.ctrl (4), source.ready;
   output word  queue.ready, packet_tx.generate, packet_tx.header (128), packet_tx.done, retry_required, retry_received,
   recovery_required, bringup_complete, lgo_received, lgo_target (2), credits_available, packets_to_send,
   link_command_received, lc_detector.command (4), lc_detector.subtype (4) *)
Definition fin_of (x : N) : fin :=
  {| f_en := N.testbit x 0; f_qvalid := N.testbit x 1; f_qhdr := bits x 2 128; f_lrty := N.testbit x 130;
     f_sink := {| w_valid := N.testbit x 131; w_data := bits x 132 32; w_ctrl := bits x 164 4 |};
     f_srdy := N.testbit x 168 |}.
Definition ftx_mstep (n pw cw sw T tw : N) (st : ftx_state) (x : N) : ftx_state * N :=
  let i := fin_of x in
  let (st', o) := ftx_step n pw cw sw T tw 112 121 st i in
  (st', packf [(b2n (q_ready o), 1); (b2n (q_gen o), 1); (q_hdr o, 128); (b2n (q_done o), 1);
               (b2n (q_retry_req o), 1); (b2n (q_retry_rx o), 1); (b2n (q_recov o), 1); (b2n (q_up o), 1);
               (b2n (q_lgo o), 1); (q_lgo_target o, 2); (q_cred o, cw); (q_tosend o, cw);
               (b2n (d_new (fst (fst st))), 1); (d_cmd (fst (fst st)), 4); (d_sub (fst (fst st)), 4)]).

(* the specification monitor on packed words *)
Definition tp_nums (g : tp_state) : list N :=
  [b2n (t_up g); t_cred g; t_nextcred g; t_seq g; t_sent g; b2n (t_dl g); b2n (t_fly g); b2n (t_stale g);
   N.of_nat (length (t_unacked g))] ++ t_unacked g.
Definition tp_enc (W : N) (g : tp_state) : N := packb W (tp_nums g).
Definition tp_dec (W : N) (m : N) : tp_state :=
  let h := unpackb W 9 m in
  let f k := nth k h 0 in
  let l := unpackb W (9 + N.to_nat (f 8%nat)) m in
  {| t_up := n2b (f 0%nat); t_cred := f 1%nat; t_nextcred := f 2%nat; t_seq := f 3%nat; t_unacked := skipn 9 l;
     t_sent := f 4%nat; t_dl := n2b (f 5%nat); t_fly := n2b (f 6%nat); t_stale := n2b (f 7%nat) |}.
Definition tp_monN (n sw sp dp W : N) (pi : N -> pin) (po : N -> pout) (m i o : N) : option (N * bool) :=
  match tp_mon n sw sp dp (tp_dec W m) (pi i) (po o) with
  | None => None
  | Some (g, ok) => Some (tp_enc W g, ok)
  end.

(* full target: the monitor reads the decoded partner command from three extra (spied) outputs placed above the
   output word of ftx_mstep: lc_detector.command (4), lc_detector.subtype (4); new_command = link_command_received *)
Definition fpin_of (cw : N) (i o : N) : pin :=
  let base := 138 + 2 * cw in
  {| p_en := N.testbit i 0; p_qvalid := N.testbit i 1; p_qhdr := bits i 2 128; p_lrty := N.testbit i 130;
     p_new := N.testbit o (base); p_cmd := bits o (base + 1) 4; p_sub := bits o (base + 5) 4;
     p_finish := N.testbit o 130 |}.
Definition fpout_of (cw : N) (o : N) : pout :=
  {| q_ready := N.testbit o 0; q_gen := N.testbit o 1; q_hdr := bits o 2 128; q_start := false;
     q_done := N.testbit o 130; q_retry_req := N.testbit o 131; q_retry_rx := N.testbit o 132;
     q_recov := N.testbit o 133; q_up := N.testbit o 134; q_lgo := N.testbit o 135; q_lgo_target := bits o 136 2;
     q_cred := bits o 138 cw; q_tosend := bits o (138 + cw) cw |}.
Definition ftp_monN (n sw W cw : N) (m i o : N) : option (N * bool) :=
  match tp_mon n sw 112 121 (tp_dec W m) (fpin_of cw i o) (fpout_of cw o) with
  | None => None
  | Some (g, ok) => Some (tp_enc W g, ok)
  end.

(* packed model state (W-bit slots) for lock-step monitors *)
Definition pfsm_code (f : pfsm) : N := match f with P_DISPATCH => 0 | P_SEND => 1 | P_RETRY => 2 end.
Definition pfsm_of (c : N) : pfsm := match c with 0 => P_DISPATCH | 1 => P_SEND | _ => P_RETRY end.
Definition ptx_nums (s : ptx) : list N :=
  [x_cred s; x_tosend s; x_await s; x_rd s; x_wr s; x_ak s; x_tseq s; b2n (x_retry s); b2n (x_up s); x_ncred s;
   x_nack s; x_timer s; pfsm_code (x_fsm s); b2n (x_busy s); b2n (x_stale s)] ++ x_bufs s.
Definition ptx_enc (W : N) (s : ptx) : N := packb W (ptx_nums s).
Definition ptx_dec (W : N) (nb : nat) (m : N) : ptx :=
  let l := unpackb W (15 + nb) m in
  let f k := nth k l 0 in
  {| x_cred := f 0%nat; x_tosend := f 1%nat; x_await := f 2%nat; x_rd := f 3%nat; x_wr := f 4%nat; x_ak := f 5%nat;
     x_bufs := skipn 15 l; x_tseq := f 6%nat; x_retry := n2b (f 7%nat); x_up := n2b (f 8%nat); x_ncred := f 9%nat;
     x_nack := f 10%nat; x_timer := f 11%nat; x_fsm := pfsm_of (f 12%nat); x_busy := n2b (f 13%nat);
     x_stale := n2b (f 14%nat) |}.
