From Coq Require Import NArith ZArith Arith List Bool Lia ZifyBool ZifyN.
Import ListNotations.
From LunaLib Require Import Netlist Machine SsWords.
From LunaModel Require Import TsEmit.
Open Scope N_scope.
Ltac Zify.zify_post_hook ::= Z.div_mod_to_equations.

Section Proofs.
  Variable c : em_cfg.
  Let L := e_len c.
  Let T := e_total c.

  Lemma plan_length : length (burst_plan c) = (T * L)%nat.
  Proof.
    unfold burst_plan. fold L T. induction T as [|n IH]; [reflexivity|].
    cbn [repeat concat]. rewrite app_length, seq_length, IH. reflexivity.
  Qed.

  Lemma plan_nth : forall s k, (k < L)%nat -> (s < T)%nat -> nth (s * L + k) (burst_plan c) O = k.
  Proof.
    unfold burst_plan. fold L T. induction T as [|n IH]; intros s k Hk Hs; [lia|].
    cbn [repeat concat]. destruct s as [|s].
    - cbn [Nat.mul Nat.add]. rewrite app_nth1 by (rewrite seq_length; exact Hk).
      rewrite seq_nth by exact Hk. reflexivity.
    - replace (S s * L + k)%nat with (length (seq 0 L) + (s * L + k))%nat by (rewrite seq_length; lia).
      rewrite app_nth2_plus. apply IH; lia.
  Qed.

  Hypothesis HL : (1 <= L)%nat.
  Hypothesis HT : (1 <= T)%nat.

  (* ---- the FSM + set counter refines the single position counter ---- *)
  Definition rel (st : em_state) (p : option nat) : Prop :=
    match efsm st, p with
    | IDLE, None => sent st = O
    | WORD k, Some q => (k < L)%nat /\ (sent st < T)%nat /\ q = (sent st * L + k)%nat
    | _, _ => False
    end.

  Lemma last_iff : forall s k, (k < L)%nat -> (s < T)%nat ->
    ((S k =? L)%nat && (S s =? T)%nat) = (S (s * L + k) =? T * L)%nat.
  Proof.
    intros s k Hk Hs.
    destruct (S k =? L)%nat eqn:A; destruct (S s =? T)%nat eqn:B; cbn [andb]; symmetry.
    - apply Nat.eqb_eq in A, B. apply Nat.eqb_eq. subst L T. rewrite <- B, <- A. lia.
    - apply Nat.eqb_eq in A. apply Nat.eqb_neq in B. apply Nat.eqb_neq. nia.
    - apply Nat.eqb_neq in A. apply Nat.eqb_neq. nia.
    - apply Nat.eqb_neq in A. apply Nat.eqb_neq. nia.
  Qed.

  Lemma rel_out : forall st p i, rel st p -> em_out c st i = sp_out c p i.
  Proof.
    intros st p i H. unfold rel, em_out, sp_out in *. fold L T.
    destruct (efsm st) as [|k], p as [q|]; try contradiction; [reflexivity|].
    destruct H as (Hk & Hs & ->). rewrite plan_nth by assumption. rewrite plan_length.
    rewrite <- andb_assoc. rewrite (last_iff _ _ Hk Hs). reflexivity.
  Qed.

  Lemma rel_next : forall st p i, rel st p -> rel (em_next c st i) (sp_next c p i).
  Proof.
    intros st p i H. unfold rel, em_next, sp_next in *. fold L T.
    destruct (efsm st) as [|k] eqn:F, p as [q|]; try contradiction.
    - destruct (i_start i); cbn [efsm sent]; [|exact H]. rewrite H. repeat split; lia.
    - destruct H as (Hk & Hs & ->). rewrite plan_length.
      destruct (i_ready i); [|rewrite F; repeat split; assumption].
      rewrite <- (last_iff _ _ Hk Hs).
      destruct (S k =? L)%nat eqn:A; cbn [andb].
      + apply Nat.eqb_eq in A. destruct (S (sent st) =? T)%nat eqn:B.
        * destruct (i_start i); cbn [efsm sent]; [repeat split; lia | reflexivity].
        * apply Nat.eqb_neq in B. cbn [efsm sent]. repeat split; lia.
      + apply Nat.eqb_neq in A. cbn [efsm sent]. repeat split; lia.
  Qed.

  Theorem em_refines_gen : forall ins st p, rel st p -> run (em_step c) st ins = run (sp_step c) p ins.
  Proof.
    induction ins as [|i t IH]; intros st p H; [reflexivity|].
    cbn [run em_step sp_step]. rewrite (rel_out _ _ i H). f_equal. apply IH, rel_next, H.
  Qed.

  Theorem em_refines : forall ins, run (em_step c) em_init ins = run (sp_step c) None ins.
  Proof. intros. apply em_refines_gen. reflexivity. Qed.

  (* ---- the words taken by the sink are word 0, 1, 2, ... of the burst, over and over: a burst is
     never cut short, never extended, and nothing is skipped or repeated ---- *)
  Definition pos_of (p : option nat) : nat := match p with Some q => q | None => O end.
  Definition pos_ok (p : option nat) : Prop := match p with Some q => (q < T * L)%nat | None => True end.

  Lemma HTL : (0 < T * L)%nat.
  Proof. nia. Qed.

  Theorem sp_taken_seq : forall ins p, pos_ok p ->
    sp_taken c p ins =
    map (fun k => ((pos_of p + k) mod (T * L))%nat) (seq 0 (length (sp_taken c p ins))).
  Proof.
    induction ins as [|i t IH]; intros p Hp; [reflexivity|].
    cbn [sp_taken]. destruct p as [q|].
    - cbn [pos_ok pos_of] in *. destruct (i_ready i) eqn:R.
      + cbn [length]. rewrite <- cons_seq, <- seq_shift. cbn [map]. rewrite map_map. f_equal.
        * rewrite Nat.add_0_r. symmetry. apply Nat.mod_small. exact Hp.
        * unfold sp_next. rewrite R, plan_length. fold L T.
          destruct (S q =? T * L)%nat eqn:E.
          -- apply Nat.eqb_eq in E.
             assert (IH0 : forall p', pos_of p' = O -> pos_ok p' ->
                       sp_taken c p' t = map (fun k => ((q + S k) mod (T * L))%nat) (seq 0 (length (sp_taken c p' t)))).
             { intros p' Z Ok. rewrite (IH p' Ok) at 1. rewrite Z. apply map_ext. intros k.
               replace (q + S k)%nat with (k + 1 * (T * L))%nat by lia. rewrite Nat.mod_add by lia. reflexivity. }
             destruct (i_start i); apply IH0; try reflexivity; cbn; try exact I; lia.
          -- apply Nat.eqb_neq in E. rewrite (IH (Some (S q))) at 1 by (cbn; lia).
             apply map_ext. intros k. cbn [pos_of]. f_equal. lia.
      + unfold sp_next. rewrite R. apply (IH (Some q)). exact Hp.
    - cbn [pos_of]. unfold sp_next. destruct (i_start i).
      + apply (IH (Some O)). cbn. exact HTL.
      + apply (IH None). exact I.
  Qed.

  (* from idle: the k-th word taken is word number k mod (T*L) of the burst plan, i.e. word
     (k mod (T*L)) mod L = k mod L of a set *)
  Corollary sp_taken_from_idle : forall ins,
    sp_taken c None ins = map (fun k => (k mod (T * L))%nat) (seq 0 (length (sp_taken c None ins))).
  Proof. intros. apply (sp_taken_seq ins None I). Qed.
End Proofs.

(* ---- reading the output word ---- *)
Lemma pack_out_fields : forall v d ct f l dn, d < 4294967296 -> ct < 16 ->
  let o := pack_out v d ct f l dn in
  o_valid o = v /\ o_data o = d /\ o_ctrl o = ct /\ o_first o = f /\ o_last o = l /\ o_done o = dn.
Proof.
  intros v d ct f l dn Hd Hc. cbv zeta. unfold o_valid, o_data, o_ctrl, o_first, o_last, o_done, pack_out.
  rewrite !N.shiftl_mul_pow2, !bits_spec, N.bit0_odd, !N.testbit_odd, !N.shiftr_div_pow2.
  change (2 ^ 33) with 8589934592. change (2 ^ 37) with 137438953472. change (2 ^ 38) with 274877906944.
  change (2 ^ 39) with 549755813888. change (2 ^ 1) with 2. change (2 ^ 32) with 4294967296. change (2 ^ 4) with 16.
  pose proof (b2n_lt2 v). pose proof (b2n_lt2 f). pose proof (b2n_lt2 l). pose proof (b2n_lt2 dn).
  set (bv := b2n v) in *. set (bf := b2n f) in *. set (bl := b2n l) in *. set (bd := b2n dn) in *.
  set (x := bv + 2 * d + ct * 8589934592 + bf * 137438953472 + bl * 274877906944 + bd * 549755813888).
  assert (E0 : x = bv + 2 * (d + ct * 4294967296 + bf * 68719476736 + bl * 137438953472 + bd * 274877906944)) by lia.
  assert (E1 : (x / 2) mod 4294967296 = d) by lia.
  assert (E2 : (x / 8589934592) mod 16 = ct) by lia.
  assert (E3 : x / 137438953472 = bf + 2 * (bl + 2 * bd)) by lia.
  assert (E4 : x / 274877906944 = bl + 2 * bd) by lia.
  assert (E5 : x / 549755813888 = bd + 2 * 0) by lia.
  rewrite E1, E2, E3, E4, E5. rewrite E0. subst bv bf bl bd. rewrite !odd_b2n_add_2. repeat split.
Qed.

(* ---- packing facts for the tie ---- *)
Lemma em_dec_enc : forall L, (L <= 15)%nat -> forall st, em_wf L st -> em_dec (em_enc st) = st.
Proof.
  intros L HL [f s] W. unfold em_wf in W. cbn [efsm] in W. unfold em_dec, em_enc. cbn [efsm sent].
  destruct f as [|k].
  - assert (E1 : (0 + 16 * N.of_nat s) mod 16 = 0) by lia.
    assert (E2 : (0 + 16 * N.of_nat s) / 16 = N.of_nat s) by lia.
    rewrite E1, E2, Nat2N.id. reflexivity.
  - assert (E1 : (N.of_nat k + 1 + 16 * N.of_nat s) mod 16 = N.of_nat k + 1) by lia.
    assert (E2 : (N.of_nat k + 1 + 16 * N.of_nat s) / 16 = N.of_nat s) by lia.
    rewrite E1, E2, Nat2N.id. destruct (N.of_nat k + 1 =? 0) eqn:Z; [lia|].
    f_equal. f_equal. lia.
Qed.

Lemma em_wf_step : forall c, (1 <= e_len c)%nat -> forall st i,
  em_wf (e_len c) st -> em_wf (e_len c) (fst (em_step c st i)).
Proof.
  intros c HL st i W. unfold em_wf, em_step, em_next in *. cbn [fst].
  destruct (efsm st) as [|k] eqn:F.
  - destruct (i_start i); cbn [efsm]; [lia | exact I].
  - destruct (i_ready i); [|rewrite F; exact W].
    destruct (S k =? e_len c)%nat eqn:A.
    + destruct (S (sent st) =? e_total c)%nat; [destruct (i_start i)|]; cbn [efsm]; try exact I; lia.
    + apply Nat.eqb_neq in A. cbn [efsm]. lia.
Qed.
