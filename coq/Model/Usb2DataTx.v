(* C03 -- hand model of luna/gateware/usb/usb2/packet.py: USBDataPacketGenerator with the CRC generator
   wired as USBDevice does (luna/gateware/usb/usb2/device.py):
       data_crc.tx_valid = tx.valid & tx_ready,  data_crc.tx_data = tx.data,  no receive traffic,
   and its transaction-level specification.

   Packed ports.  inputs : data_pid (bits 0..1), stream.valid (2), stream.first (3), stream.last (4),
                           stream.payload (5..12), tx.ready (13).
                  outputs: tx.valid (bit 0), tx.data (bits 1..8), stream.ready (bit 9).
   One list element = one `usb` clock cycle.                                                      *)
From Coq Require Import NArith List Bool.
Import ListNotations.
From LunaLib Require Import Netlist Bits Affine Machine PackN.
From LunaModel Require Import Crc.
Open Scope N_scope.

Definition tx_dpid (i : N) : N := bits i 0 2.
Definition tx_svalid (i : N) : bool := N.testbit i 2.
Definition tx_first (i : N) : bool := N.testbit i 3.
Definition tx_last (i : N) : bool := N.testbit i 4.
Definition tx_payload (i : N) : N := bits i 5 8.
Definition tx_ready (i : N) : bool := N.testbit i 13.

(* data_pids: DATA0, DATA1, DATA2, MDATA with their check nibbles *)
Definition tx_pid_byte (dpid : N) : N := nth (N.to_nat dpid) [195; 75; 135; 15] 0.   (* C3 4B 87 0F *)

Definition tx_out_word (txv : bool) (txd : N) (srdy : bool) : N := b2n txv + 2 * txd + 512 * b2n srdy.

(* ============================== the generator FSM on its own ================================= *)
Inductive tx_fsm := TX_IDLE | TX_PID | TX_PAYLOAD | TX_CRC1 | TX_CRC2.

Record txo_state := {
  g_fsm : tx_fsm;
  g_pidb : N;        (* current_data_pid (8 bits) *)
  g_rem : N;         (* remaining_crc (8 bits) *)
  g_zlp : bool       (* is_zlp *)
}.
Definition txo_init : txo_state := {| g_fsm := TX_IDLE; g_pidb := 0; g_rem := 0; g_zlp := false |}.

(* crc_o = the crc.crc input.  Result: next state, tx.valid, tx.data, stream.ready, crc.start *)
Definition txo_core (c : txo_state) (dpid : N) (valid first last : bool) (payload : N) (ready : bool) (crc_o : N)
  : txo_state * (bool * N * bool * bool) :=
  let txv := match g_fsm c with TX_IDLE => false | TX_PAYLOAD => valid | _ => true end in
  let txd := match g_fsm c with
             | TX_IDLE => 0 | TX_PID => g_pidb c | TX_PAYLOAD => payload
             | TX_CRC1 => bits crc_o 0 8 | TX_CRC2 => g_rem c
             end in
  let srdy := match g_fsm c with TX_PAYLOAD => ready | _ => false end in
  let fsm' :=
    match g_fsm c with
    | TX_IDLE => if first && valid then TX_PID else if last && valid then TX_PID else TX_IDLE
    | TX_PID => if ready then (if g_zlp c then TX_CRC1 else TX_PAYLOAD) else TX_PID
    | TX_PAYLOAD => if ready && (last || negb valid) then TX_CRC1 else TX_PAYLOAD
    | TX_CRC1 => if ready then TX_CRC2 else TX_CRC1
    | TX_CRC2 => if ready then TX_IDLE else TX_CRC2
    end in
  ({| g_fsm := fsm';
      g_pidb := match g_fsm c with TX_IDLE => tx_pid_byte dpid | _ => g_pidb c end;
      g_rem := match g_fsm c with TX_CRC1 => bits crc_o 8 8 | _ => g_rem c end;
      g_zlp := match g_fsm c with
               | TX_IDLE => if first && valid then false else if last && valid then true else g_zlp c
               | _ => g_zlp c
               end |},
   (txv, txd, srdy, match g_fsm c with TX_PID => true | _ => false end)).

(* packed core (USBDataPacketGenerator(standalone=False)): inputs as above plus crc.crc (bits 14..29);
   outputs as above plus crc.start (bit 10) *)
Definition txo_step (c : txo_state) (i : N) : txo_state * N :=
  let '(c', (txv, txd, srdy, start)) :=
    txo_core c (tx_dpid i) (tx_svalid i) (tx_first i) (tx_last i) (tx_payload i) (tx_ready i) (bits i 14 16) in
  (c', tx_out_word txv txd srdy + 1024 * b2n start).

(* ============================== generator + CRC16 unit, USBDevice wiring ===================== *)
Record tx_state := { t_core : txo_state; t_crc : list bool (* running register of USBDataPacketCRC *) }.
Definition tx_init : tx_state := {| t_core := txo_init; t_crc := reg_init 16 |}.

Definition tx_step (s : tx_state) (i : N) : tx_state * N :=
  let '(c', (txv, txd, srdy, start)) :=
    txo_core (t_core s) (tx_dpid i) (tx_svalid i) (tx_first i) (tx_last i) (tx_payload i) (tx_ready i)
             (crc_out (t_crc s)) in
  ({| t_core := c';
      (* USBDataPacketCRC (crc16mod_step of Model/Crc.v): start, else rx_valid (= 0), else tx_valid = tx.valid & tx_ready *)
      t_crc := if start then reg_init 16
               else crc_reg_next poly16 (t_crc s) [(false, []); (txv && tx_ready i, N2bits 8 txd)] |},
   tx_out_word txv txd srdy).

(* ============================== the specification =========================================== *)
(* what a data packet looks like on the wire: PID byte, payload, CRC16 of the payload low byte first *)
Definition tx_wire (pidb : N) (payload : list N) : list N :=
  pidb :: payload ++ [crc16_usb payload mod 256; crc16_usb payload / 256].

(* transaction-level machine: which packet is being sent and how far it has got *)
Inductive txs_state :=
| S_IDLE
| S_PID (pidb : N) (zlp : bool)             (* offering the PID byte *)
| S_PAYLOAD (pidb : N) (sent : list N)      (* passing payload bytes through; `sent` were accepted so far *)
| S_CRC1 (pidb : N) (sent : list N)         (* offering the low CRC byte *)
| S_CRC2 (pidb : N) (sent : list N).        (* offering the high CRC byte *)

Definition txs_step (q : txs_state) (i : N) : txs_state * N :=
  let ready := tx_ready i in
  match q with
  | S_IDLE =>
      (* a request: valid with first starts a packet with payload; valid with last but without first asks for
         a zero-length packet; the PID is selected by data_pid in the cycle of the request *)
      (if tx_svalid i && tx_first i then S_PID (tx_pid_byte (tx_dpid i)) false
       else if tx_svalid i && tx_last i then S_PID (tx_pid_byte (tx_dpid i)) true
       else S_IDLE,
       tx_out_word false 0 false)
  | S_PID pidb zlp =>
      (if ready then (if zlp then S_CRC1 pidb [] else S_PAYLOAD pidb []) else q,
       tx_out_word true pidb false)
  | S_PAYLOAD pidb sent =>
      (* the stream is connected straight through: a byte is consumed exactly when the PHY accepts it *)
      (if ready && tx_svalid i then
         (if tx_last i then S_CRC1 pidb (sent ++ [tx_payload i]) else S_PAYLOAD pidb (sent ++ [tx_payload i]))
       else if ready then S_CRC1 pidb sent      (* producer under-run: outside the environment assumption *)
       else q,
       tx_out_word (tx_svalid i) (tx_payload i) ready)
  | S_CRC1 pidb sent =>
      (if ready then S_CRC2 pidb sent else q, tx_out_word true (crc16_usb sent mod 256) false)
  | S_CRC2 pidb sent =>
      (if ready then S_IDLE else q, tx_out_word true (crc16_usb sent / 256) false)
  end.
Definition txs_init : txs_state := S_IDLE.

(* environment: the producer keeps stream.valid high from the first to the last byte of a packet
   (USBInStreamInterface contract).  No assumption on tx_ready, data_pid, first/last or payload values. *)
Definition txs_env (q : txs_state) (i : N) : bool :=
  match q with S_PAYLOAD _ _ => tx_svalid i | _ => true end.

(* the packet completed in this cycle, if any: (PID byte, payload) *)
Definition txs_done (q : txs_state) (i : N) : option (N * list N) :=
  match q with S_CRC2 pidb sent => if tx_ready i then Some (pidb, sent) else None | _ => None end.
(* all packets completed along a history *)
Fixpoint txs_log (q : txs_state) (tr : list N) : list (N * list N) :=
  match tr with
  | [] => []
  | i :: t => match txs_done q i with
              | Some p => p :: txs_log (fst (txs_step q i)) t
              | None => txs_log (fst (txs_step q i)) t
              end
  end.
(* bytes of the packet in progress that the PHY has accepted so far / payload bytes consumed so far *)
Definition txs_partial (q : txs_state) : list N :=
  match q with
  | S_IDLE | S_PID _ _ => []
  | S_PAYLOAD pidb sent | S_CRC1 pidb sent => pidb :: sent
  | S_CRC2 pidb sent => pidb :: sent ++ [crc16_usb sent mod 256]
  end.
Definition txs_sent (q : txs_state) : list N :=
  match q with S_IDLE | S_PID _ _ => [] | S_PAYLOAD _ sent | S_CRC1 _ sent | S_CRC2 _ sent => sent end.
Definition txs_busy (q : txs_state) : bool := match q with S_IDLE => false | _ => true end.

(* observations on (input, output) pairs *)
Definition to_txvalid (o : N) : bool := N.testbit o 0.
Definition to_txdata (o : N) : N := bits o 1 8.
Definition to_sready (o : N) : bool := N.testbit o 9.
(* bytes accepted by the PHY: tx.data in the cycles with tx.valid & tx_ready *)
Definition tx_accepted (ios : list (N * N)) : list N :=
  map (fun io => to_txdata (snd io)) (filter (fun io => to_txvalid (snd io) && tx_ready (fst io)) ios).
(* payload bytes taken from the producer: stream.payload in the cycles with stream.valid & stream.ready *)
Definition tx_consumed (ios : list (N * N)) : list N :=
  map (fun io => tx_payload (fst io)) (filter (fun io => tx_svalid (fst io) && to_sready (snd io)) ios).

(* ============================== packing ===================================================== *)
Definition tx_fsm_code (f : tx_fsm) : N :=
  match f with TX_IDLE => 0 | TX_PID => 1 | TX_PAYLOAD => 2 | TX_CRC1 => 3 | TX_CRC2 => 4 end.
Definition tx_fsm_of (n : N) : tx_fsm :=
  match n with 0 => TX_IDLE | 1 => TX_PID | 2 => TX_PAYLOAD | 3 => TX_CRC1 | _ => TX_CRC2 end.
Definition txo_enc (c : txo_state) : N :=
  pk 8 (tx_fsm_code (g_fsm c)) (pk 256 (g_pidb c) (pk 256 (g_rem c) (b2n (g_zlp c)))).
Definition txo_dec (m : N) : txo_state :=
  {| g_fsm := tx_fsm_of (m mod 8); g_pidb := (m / 8) mod 256; g_rem := (m / 8 / 256) mod 256;
     g_zlp := N.odd (m / 8 / 256 / 256) |}.
Definition txo_wf (c : txo_state) : Prop := g_pidb c < 256 /\ g_rem c < 256.

Definition tx_enc (s : tx_state) : N := pk 65536 (bits2N (t_crc s)) (txo_enc (t_core s)).
Definition tx_dec (m : N) : tx_state := {| t_core := txo_dec (m / 65536); t_crc := N2bits 16 (m mod 65536) |}.
Definition tx_wf (s : tx_state) : Prop := txo_wf (t_core s) /\ length (t_crc s) = 16%nat.

(* ---- the specification state as a number (for the runtime oracle over simulator traces) ---- *)
Definition tx_lenc (l : list N) : N := fold_left (fun acc b => acc * 256 + b mod 256) l 1.
Fixpoint tx_ldec_fuel (f : nat) (n : N) : list N :=
  match f with
  | O => []
  | S f' => if n <=? 1 then [] else tx_ldec_fuel f' (n / 256) ++ [n mod 256]
  end.
Definition tx_ldec (n : N) : list N := tx_ldec_fuel (N.to_nat (N.size n)) n.

Definition txs_enc (q : txs_state) : N :=
  match q with
  | S_IDLE => 0
  | S_PID p z => 1 + 8 * (p mod 256 + 256 * b2n z)
  | S_PAYLOAD p l => 2 + 8 * (p mod 256 + 256 * tx_lenc l)
  | S_CRC1 p l => 3 + 8 * (p mod 256 + 256 * tx_lenc l)
  | S_CRC2 p l => 4 + 8 * (p mod 256 + 256 * tx_lenc l)
  end.
Definition txs_dec (m : N) : txs_state :=
  let p := (m / 8) mod 256 in let r := m / 8 / 256 in
  match m mod 8 with
  | 0 => S_IDLE
  | 1 => S_PID p (N.odd r)
  | 2 => S_PAYLOAD p (tx_ldec r)
  | 3 => S_CRC1 p (tx_ldec r)
  | _ => S_CRC2 p (tx_ldec r)
  end.
(* the specification as a monitor: tx.data is compared only while tx.valid is high *)
Definition tx_mask (o : N) : N := if N.odd o then o else N.land o 512.
Definition txs_mon (m i o : N) : option (N * bool) :=
  let q := txs_dec m in
  if txs_env q i then let (q', o') := txs_step q i in Some (txs_enc q', tx_mask o =? tx_mask o') else None.
