(* C17 -- hand model of luna/gateware/usb/usb2/endpoints/status.py: USBSignalInEndpoint, parametric in the
   signal width W (>= 1), the endianness and the endpoint number, and its specification.

   Packed ports.
     inputs : signal (W bits), tokenizer.endpoint (4), tokenizer.is_in, tokenizer.ready_for_response,
              tokenizer.new_token, handshakes_in.ack, tx.ready                        (in this order)
     outputs: tx.valid, tx.first, tx.last (bits 0..2), tx.payload (3..10), tx_pid_toggle (11..12),
              status_read_complete (13)                                                              *)
From Coq Require Import NArith List Bool.
Import ListNotations.
From LunaLib Require Import Netlist Machine.
Open Scope N_scope.

(* ---- serialisation of a value into n bytes ---- *)
Fixpoint bytes_le (n : nat) (v : N) : list N :=
  match n with O => [] | S k => v mod 256 :: bytes_le k (v / 256) end.
Definition to_bytes (big : bool) (n : nat) (v : N) : list N :=
  if big then rev (bytes_le n v) else bytes_le n v.
(* the value denoted by a little-endian byte string (to read the specification: from_le_bytes_le) *)
Fixpoint from_le (l : list N) : N :=
  match l with [] => 0 | b :: t => b + 256 * from_le t end.

Section SignalIn.
  Variable W : N.
  Variable big : bool.
  Variable ep : N.

  Definition nb : N := (W + 7) / 8.             (* bytes_in_signal *)
  Definition bw : N := N.size nb.               (* width of bytes_transmitted = Signal(range(0, nb + 1)) *)
  Definition nbn : nat := N.to_nat nb.

  Definition si_signal (i : N) : N := bits i 0 W.
  Definition si_ep (i : N) : N := bits i W 4.
  Definition si_is_in (i : N) : bool := N.testbit i (W + 4).
  Definition si_rfr (i : N) : bool := N.testbit i (W + 5).
  Definition si_newtok (i : N) : bool := N.testbit i (W + 6).
  Definition si_ack (i : N) : bool := N.testbit i (W + 7).
  Definition si_ready (i : N) : bool := N.testbit i (W + 8).
  (* packet_requested: an IN token for this endpoint, and the inter-packet delay has elapsed *)
  Definition si_req (i : N) : bool := (si_ep i =? ep) && si_is_in i && si_rfr i.

  Definition si_pack (valid first last : bool) (payload : N) (toggle complete : bool) : N :=
    b2n valid + 2 * b2n first + 4 * b2n last + 8 * payload + 2048 * b2n toggle + 8192 * b2n complete.

  (* ---- the module ---- *)
  Inductive si_fsm := S_IDLE | S_TX | S_WAIT | S_RETX.
  Record si_state := { s_fsm : si_fsm; s_bt : N (* bytes_transmitted *); s_lat : N (* latched_signal *);
                       s_tog : bool (* tx_pid_toggle[0] *) }.
  Definition si_init : si_state := {| s_fsm := S_IDLE; s_bt := 0; s_lat := 0; s_tog := false |}.

  (* signal_bytes[index_to_transmit]: an Array read; an index that selects no element reads 0 *)
  Definition si_payload (s : si_state) : N :=
    if s_bt s <? nb then bits (s_lat s) (8 * (if big then nb - 1 - s_bt s else s_bt s)) 8 else 0.
  Definition in_tx (s : si_state) : bool := match s_fsm s with S_TX => true | _ => false end.
  Definition si_out (s : si_state) (i : N) : N :=
    si_pack (in_tx s) (in_tx s && (s_bt s =? 0)) (in_tx s && (s_bt s + 1 =? nb)) (si_payload s) (s_tog s)
            (match s_fsm s with S_WAIT => si_ack i | _ => false end).
  Definition si_next (s : si_state) (i : N) : si_state :=
    match s_fsm s with
    | S_IDLE =>
        if si_req i then {| s_fsm := S_TX; s_bt := 0; s_lat := si_signal i; s_tog := s_tog s |} else s
    | S_TX =>
        if si_ready i then
          {| s_fsm := if s_bt s + 1 =? nb then S_WAIT else S_TX; s_bt := (s_bt s + 1) mod 2 ^ bw;
             s_lat := s_lat s; s_tog := s_tog s |}
        else s
    | S_WAIT =>   (* two independent Ifs; the later (new_token) wins the next-state assignment *)
        {| s_fsm := if si_newtok i then S_RETX else if si_ack i then S_IDLE else S_WAIT;
           s_bt := s_bt s; s_lat := s_lat s; s_tog := xorb (s_tog s) (si_ack i) |}
    | S_RETX =>
        if si_req i then {| s_fsm := S_TX; s_bt := 0; s_lat := s_lat s; s_tog := s_tog s |} else s
    end.
  Definition si_step (s : si_state) (i : N) : si_state * N := (si_next s i, si_out s i).

  (* ---- the specification: a poll is answered by sending the byte list to_bytes(v) of the value v sampled
          in the request cycle, one byte per tx.ready; then the endpoint waits for the host's verdict:
          ACK  -> the DATA toggle advances, status_read_complete strobes, the next poll samples afresh;
          a new token without ACK -> the next poll re-sends the SAME v with the SAME toggle.
          Environment: ACK and new_token strobes never coincide (si_env; they are raised by different
          detectors for different received packets).  tx.payload is 0 whenever tx.valid is 0. ---- *)
  Inductive sp_phase :=
  | P_IDLE
  | P_SEND (v : N) (rest : list N)     (* rest: bytes still to be handed over, next one first *)
  | P_WAIT (v : N)
  | P_RETRY (v : N).
  Definition ssp_state : Type := sp_phase * bool.   (* phase, DATA toggle *)
  Definition ssp_init : ssp_state := (P_IDLE, false).

  Definition ssp_step (s : ssp_state) (i : N) : ssp_state * N :=
    let (ph, tog) := s in
    match ph with
    | P_IDLE =>
        ((if si_req i then P_SEND (si_signal i) (to_bytes big nbn (si_signal i)) else P_IDLE, tog),
         si_pack false false false 0 tog false)
    | P_SEND v rest =>
        ((if si_ready i then match tl rest with [] => P_WAIT v | r => P_SEND v r end else P_SEND v rest, tog),
         si_pack true (Nat.eqb (length rest) nbn) (Nat.eqb (length rest) 1) (hd 0 rest) tog false)
    | P_WAIT v =>
        ((if si_ack i then P_IDLE else if si_newtok i then P_RETRY v else P_WAIT v, xorb tog (si_ack i)),
         si_pack false false false 0 tog (si_ack i))
    | P_RETRY v =>
        ((if si_req i then P_SEND v (to_bytes big nbn v) else P_RETRY v, tog),
         si_pack false false false 0 tog false)
    end.

  Definition si_env (i : N) : bool := negb (si_ack i && si_newtok i).

  (* packing for lock-step obligations *)
  Definition si_fsm_code (f : si_fsm) : N := match f with S_IDLE => 0 | S_TX => 1 | S_WAIT => 2 | S_RETX => 3 end.
  Definition si_enc (s : si_state) : N :=
    si_fsm_code (s_fsm s) + 4 * (b2n (s_tog s) + 2 * (s_bt s + 2 ^ bw * s_lat s)).
  Definition si_dec (m : N) : si_state :=
    {| s_fsm := match m mod 4 with 0 => S_IDLE | 1 => S_TX | 2 => S_WAIT | _ => S_RETX end;
       s_tog := N.odd (m / 4); s_bt := (m / 8) mod 2 ^ bw; s_lat := (m / 8) / 2 ^ bw |}.
End SignalIn.
