(* C09 -- hand model of luna/gateware/usb/usb2/descriptor.py: GetDescriptorHandlerBlock.elaborate (code-shaped:
   the six FSM states, every register with its real width, the synchronous ROM read port as a register).

   Configuration (what the constructor / generate_rom_content derive from the descriptor collection):
     k_rom      ROM image (32-bit words)            k_aw   width of the ROM address (ceil_log2(depth))
     k_pw       width of position_in_stream = bits_for(longest descriptor)
     k_mps      max_packet_length                   k_maxtype  largest type number in the ROM
     k_imap     index map (empty: the descriptor index addresses the index table directly)

   Ports as in Model/DescSpec.v:  inputs  value[16] | length[16] | start | start_position[11] | tx.ready
                                  outputs tx.valid | tx.first | tx.last | tx.payload[8] | stall *)
From Coq Require Import NArith List Bool.
Import ListNotations.
From LunaLib Require Import Netlist Bits Machine.
From LunaModel Require Import DescSpec DescRom.
Open Scope N_scope.

Record bk_cfg := { k_rom : list N; k_aw : N; k_pw : N; k_mps : N; k_maxtype : N; k_imap : list (N * N) }.

Inductive bk_fsm := B_IDLE | B_START | B_LOOKUP_TYPE | B_LOOKUP_DESCRIPTOR | B_SEND_DESCRIPTOR | B_SEND_ZLP.

Record bk_state := { b_fsm : bk_fsm;
                     b_len : N;      (* length[16]: min(max packet, wLength - start_position), registered every cycle *)
                     b_pos : N;      (* position_in_stream[k_pw] *)
                     b_sent : N;     (* bytes_sent[16] *)
                     b_dlen : N;     (* descriptor_length[16] *)
                     b_base : N;     (* descriptor_data_base_address[k_aw] (word address) *)
                     b_didx : N;     (* descr_idx[8] (only present when the index map is non-empty) *)
                     b_rd : N }.     (* rom_read_port.data[32] *)

Section Block.
  Variable c : bk_cfg.

  Definition k_indirect : bool := match k_imap c with [] => false | _ => true end.

  (* words_remaining = length - start_position is signed(17) in Amaranth; "words_remaining <= max packet" is a signed
     comparison, so a negative remainder (start_position beyond wLength) is taken as is and truncated to 16 bits *)
  Definition len_next (i : N) : N :=
    if i_wlen i <? i_sp i then trunc 16 (i_wlen i + 65536 - i_sp i)
    else if i_wlen i - i_sp i <=? k_mps c then i_wlen i - i_sp i else trunc 16 (k_mps c).

  Definition didx_of (st : bk_state) (i : N) : N := if k_indirect then b_didx st else v_index (i_value i).
  Definition imap_lookup (value : N) : N := match assoc value (k_imap c) with Some r => trunc 8 r | None => 255 end.

  Definition on_first (st : bk_state) (i : N) : bool := b_pos st =? i_sp i.
  Definition on_last (st : bk_state) : bool := (b_dlen st =? b_pos st + 1) || (b_len st <=? b_sent st + 1).

  (* the ROM address driven in this cycle *)
  Definition bk_addr (st : bk_state) (i : N) : N :=
    match b_fsm st with
    | B_IDLE | B_START => trunc (k_aw c) (v_type (i_value i))
    | B_LOOKUP_TYPE =>
        if e_hi (b_rd st) <=? didx_of st i then 0
        else trunc (k_aw c) (bits (b_rd st) 2 (k_aw c) + didx_of st i)
    | B_LOOKUP_DESCRIPTOR => trunc (k_aw c) (N.shiftr (b_rd st + b_pos st) 2)
    | B_SEND_DESCRIPTOR =>
        if i_ready i && negb (on_last st)
        then trunc (k_aw c) (b_base st + bits (b_pos st + 1) 2 (k_pw c - 2))
        else trunc (k_aw c) (b_base st + N.shiftr (b_pos st) 2)
    | B_SEND_ZLP => 0
    end.

  Definition bk_out (st : bk_state) (i : N) : N :=
    match b_fsm st with
    | B_IDLE | B_LOOKUP_DESCRIPTOR => o_quiet
    | B_START => if v_type (i_value i) <=? k_maxtype c then o_quiet else o_stall
    | B_LOOKUP_TYPE => if e_hi (b_rd st) <=? didx_of st i then o_stall else o_quiet
    | B_SEND_DESCRIPTOR => o_beat (byte_lane (b_rd st) (bits (b_pos st) 0 2)) (on_first st i) (on_last st)
    | B_SEND_ZLP => o_zlp
    end.

  Definition bk_next (st : bk_state) (i : N) : bk_state :=
    let rd' := rom_read (k_rom c) (bk_addr st i) in
    let len' := len_next i in
    match b_fsm st with
    | B_IDLE =>
        {| b_fsm := if i_start i then B_START else B_IDLE; b_len := len'; b_pos := b_pos st; b_sent := 0;
           b_dlen := b_dlen st; b_base := b_base st; b_didx := b_didx st; b_rd := rd' |}
    | B_START =>
        {| b_fsm := if v_type (i_value i) <=? k_maxtype c then B_LOOKUP_TYPE else B_IDLE;
           b_len := len'; b_pos := trunc (k_pw c) (i_sp i); b_sent := b_sent st;
           b_dlen := b_dlen st; b_base := b_base st;
           b_didx := if k_indirect then imap_lookup (i_value i) else b_didx st; b_rd := rd' |}
    | B_LOOKUP_TYPE =>
        {| b_fsm := if e_hi (b_rd st) <=? didx_of st i then B_IDLE
                    else if b_len st =? 0 then B_SEND_ZLP else B_LOOKUP_DESCRIPTOR;
           b_len := len'; b_pos := b_pos st; b_sent := b_sent st;
           b_dlen := b_dlen st; b_base := b_base st; b_didx := b_didx st; b_rd := rd' |}
    | B_LOOKUP_DESCRIPTOR =>
        {| b_fsm := if e_hi (b_rd st) <=? b_pos st then B_SEND_ZLP else B_SEND_DESCRIPTOR;
           b_len := len'; b_pos := b_pos st; b_sent := b_sent st;
           b_dlen := e_hi (b_rd st); b_base := bits (b_rd st) 2 (k_aw c); b_didx := b_didx st; b_rd := rd' |}
    | B_SEND_DESCRIPTOR =>
        if i_ready i then
          if on_last st then
            {| b_fsm := B_IDLE; b_len := len'; b_pos := b_pos st; b_sent := b_sent st;
               b_dlen := 0; b_base := 0; b_didx := b_didx st; b_rd := rd' |}
          else
            {| b_fsm := B_SEND_DESCRIPTOR; b_len := len'; b_pos := trunc (k_pw c) (b_pos st + 1);
               b_sent := trunc 16 (b_sent st + 1);
               b_dlen := b_dlen st; b_base := b_base st; b_didx := b_didx st; b_rd := rd' |}
        else
          {| b_fsm := B_SEND_DESCRIPTOR; b_len := len'; b_pos := b_pos st; b_sent := b_sent st;
             b_dlen := b_dlen st; b_base := b_base st; b_didx := b_didx st; b_rd := rd' |}
    | B_SEND_ZLP =>
        {| b_fsm := B_IDLE; b_len := len'; b_pos := b_pos st; b_sent := b_sent st;
           b_dlen := b_dlen st; b_base := b_base st; b_didx := b_didx st; b_rd := rd' |}
    end.

  Definition bk_step (st : bk_state) (i : N) : bk_state * N := (bk_next st i, bk_out st i).
  Definition bk_init : bk_state :=
    {| b_fsm := B_IDLE; b_len := 0; b_pos := 0; b_sent := 0; b_dlen := 0; b_base := 0; b_didx := 0; b_rd := 0 |}.

  (* ---- packing of the model state for lock-step obligations ---- *)
  Definition pair (w a b : N) : N := a + N.shiftl b w.
  Definition fsm_code (f : bk_fsm) : N :=
    match f with B_IDLE => 0 | B_START => 1 | B_LOOKUP_TYPE => 2 | B_LOOKUP_DESCRIPTOR => 3
               | B_SEND_DESCRIPTOR => 4 | B_SEND_ZLP => 5 end.
  Definition fsm_of (n : N) : bk_fsm :=
    match n with 0 => B_IDLE | 1 => B_START | 2 => B_LOOKUP_TYPE | 3 => B_LOOKUP_DESCRIPTOR
               | 4 => B_SEND_DESCRIPTOR | _ => B_SEND_ZLP end.
  Definition bk_enc (st : bk_state) : N :=
    pair 3 (fsm_code (b_fsm st)) (pair 16 (b_len st) (pair (k_pw c) (b_pos st) (pair 16 (b_sent st)
      (pair 16 (b_dlen st) (pair (k_aw c) (b_base st) (pair 8 (b_didx st) (b_rd st))))))).
  Definition bk_dec (m : N) : bk_state :=
    let r1 := N.shiftr m 3 in let r2 := N.shiftr r1 16 in let r3 := N.shiftr r2 (k_pw c) in
    let r4 := N.shiftr r3 16 in let r5 := N.shiftr r4 16 in let r6 := N.shiftr r5 (k_aw c) in
    {| b_fsm := fsm_of (trunc 3 m); b_len := trunc 16 r1; b_pos := trunc (k_pw c) r2; b_sent := trunc 16 r3;
       b_dlen := trunc 16 r4; b_base := trunc (k_aw c) r5; b_didx := trunc 8 r6; b_rd := N.shiftr r6 8 |}.
  Definition bk_wf (st : bk_state) : Prop :=
    b_len st < 2 ^ 16 /\ b_pos st < 2 ^ k_pw c /\ b_sent st < 2 ^ 16 /\ b_dlen st < 2 ^ 16 /\
    b_base st < 2 ^ k_aw c /\ b_didx st < 2 ^ 8.
End Block.

(* ---- how the constructor derives the configuration from the collection ---- *)
Definition block_cfg (c : dcoll) (mps : N) : bk_cfg :=
  let rom := rom_of c in
  {| k_rom := rom; k_aw := N.size (nlen rom - 1); k_pw := N.size (max_desc_len c); k_mps := mps;
     k_maxtype := max_type c; k_imap := index_map c |}.

(* implementation-defined latency of the block handler (cycles from `start` to the answer) *)
Definition bk_lat (c : dcoll) (q : dreq) : N :=
  if max_type c <? v_type (q_value q) then 1
  else match find_desc c (v_type (q_value q)) (v_index (q_value q)) with None => 2 | Some _ => 4 end.
