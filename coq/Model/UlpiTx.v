(* C23 -- hand model of luna/gateware/interface/ulpi.py: ULPITransmitTranslator, and the specification
   of "ULPI transmit translation delivers the UTMI packet unchanged".

   Module ports (packing of the stand-alone target, see props/C23.py):
     inputs : tx_data[8] (bits 0..7), tx_valid (8), op_mode[2] (9..10), bus_idle (11), ulpi_nxt (12)
     outputs: tx_ready (0), ulpi_out_req (1), ulpi_data_out[8] (2..9), ulpi_stp (10), busy (11)

   The specification is written over abstract cycle records (`txc`), so that the same text is evaluated
   on the stand-alone module and on the signals of the transmit path inside UTMITranslator.          *)
From Coq Require Import NArith List Bool.
Import ListNotations.
From LunaLib Require Import Netlist Machine.
Open Scope N_scope.

(* ============================== the module (code-shaped) ===================================== *)
Definition ti_data (i : N) : N := bits i 0 8.
Definition ti_valid (i : N) : bool := N.testbit i 8.
Definition ti_mode (i : N) : N := bits i 9 2.
Definition ti_idle (i : N) : bool := N.testbit i 11.
Definition ti_nxt (i : N) : bool := N.testbit i 12.

Definition tx_pack (ready req : bool) (data : N) (stp busy : bool) : N :=
  b2n ready + 2 * b2n req + 4 * data + 1024 * b2n stp + 2048 * b2n busy.

(* FSM state IDLE/TRANSMIT (t_tx) and the registered ulpi_out_req (t_req) *)
Record tx_state := { t_tx : bool; t_req : bool }.
Definition tx_init : tx_state := {| t_tx := false; t_req := false |}.

Definition TXCMD : N := 64.          (* TRANSMIT_COMMAND = 0b01000000 *)
Definition NO_BIT_STUFF : N := 2.    (* OP_MODE_NO_BIT_STUFFING = 0b10 *)

Definition tx_step (s : tx_state) (i : N) : tx_state * N :=
  let nostuff := ti_mode i =? NO_BIT_STUFF in
  if t_tx s then
    (* TRANSMIT: pass-through; when tx_valid falls: STP for one cycle (0xFF without bit stuffing) *)
    if ti_valid i then (s, tx_pack (ti_nxt i) (t_req s) (ti_data i) false true)
    else ({| t_tx := false; t_req := false |},
          tx_pack (ti_nxt i) (t_req s) (if nostuff then 255 else 0) true true)
  else
    (* IDLE: on tx_valid & bus_idle present the transmit command; out_req is registered *)
    if ti_valid i && ti_idle i then
      ({| t_tx := ti_nxt i; t_req := true |},
       tx_pack (negb nostuff && ti_nxt i) (t_req s)
               (TXCMD + (if nostuff then 0 else ti_data i mod 16)) false false)
    else (s, tx_pack false (t_req s) 0 false false).

(* packing for the lock-step obligation *)
Definition tx_enc (s : tx_state) : N := b2n (t_tx s) + 2 * b2n (t_req s).
Definition tx_dec (m : N) : tx_state := {| t_tx := N.testbit m 0; t_req := N.testbit m 1 |}.

(* ============================== the specification ============================================= *)
(* One clock cycle as seen at the two interfaces of the translator. *)
Record txc := {
  (* UTMI side *)
  c_data : N; c_valid : bool; c_mode : N; c_ready : bool;
  (* ULPI side: bus available to the transmitter (DIR low, no register operation), NXT, what the
     transmitter drives, whether it claims the bus, STP *)
  c_idle : bool; c_nxt : bool; c_req : bool; c_dout : N; c_stp : bool;
  c_busy : bool }.

(* view of the stand-alone module's packed input/output words *)
Definition tx_view (io : N * N) : txc :=
  let (i, o) := io in
  {| c_data := ti_data i; c_valid := ti_valid i; c_mode := ti_mode i; c_ready := N.testbit o 0;
     c_idle := ti_idle i; c_nxt := ti_nxt i; c_req := N.testbit o 1; c_dout := bits o 2 8;
     c_stp := N.testbit o 10; c_busy := N.testbit o 11 |}.

(* ---- (1) cycle-level contract --------------------------------------------------------------- *)
(* Ghost state, a function of the input history only:
     g_tx    the PHY has accepted a transmit command whose packet has not been stopped yet;
     g_rp    (while not g_tx) the transmission was already requested in the previous cycle
             (tx_valid & bus available), so the command must be on the bus now;
     g_armed (while not g_tx) some request has been made since the last stop / reset.           *)
Record txg := { g_tx : bool; g_rp : bool; g_armed : bool }.
Definition txg0 : txg := {| g_tx := false; g_rp := false; g_armed := false |}.

Definition c_rq (c : txc) : bool := c_valid c && c_idle c.
Definition c_nostuff (c : txc) : bool := c_mode c =? NO_BIT_STUFF.
Definition txcmd_of (c : txc) : N := TXCMD + (if c_nostuff c then 0 else c_data c mod 16).

Definition tx_gnext (g : txg) (c : txc) : txg :=
  if g_tx g then
    if c_valid c then {| g_tx := true; g_rp := false; g_armed := true |} else txg0
  else {| g_tx := c_rq c && c_nxt c; g_rp := c_rq c; g_armed := g_armed g || c_rq c |}.

(* Environment (PHY contract): NXT is not asserted for a transmit command that is not on the bus,
   i.e. while the transmitter offers a command (tx_valid, bus available, no packet in progress) NXT may be
   high only if the transmitter is driving the bus (out_req).  A real PHY raises NXT one cycle after it
   has seen the command, which implies this. *)
Definition tx_env (g : txg) (c : txc) : bool :=
  if g_tx g then true else implb (c_rq c && c_nxt c) (c_req c).

(* What every cycle must look like. *)
Definition tx_ok (g : txg) (c : txc) : bool :=
  if g_tx g then
    c_req c && c_busy c &&
    (if c_valid c then
       (* body of the packet: UTMI byte on the bus, accepted by UTMI exactly when the PHY takes it *)
       (c_dout c =? c_data c) && eqb (c_ready c) (c_nxt c) && negb (c_stp c)
     else
       (* first cycle with tx_valid low: STP, with 0xFF iff bit stuffing is disabled *)
       c_stp c && (c_dout c =? (if c_nostuff c then 255 else 0)))
  else
    negb (c_stp c) && negb (c_busy c) &&
    (* the command is offered exactly while the transmission is requested and the bus is available *)
    (c_dout c =? (if c_rq c then txcmd_of c else 0)) &&
    (* the first UTMI byte is accepted together with the command (its PID travels in the command),
       except without bit stuffing (NOPID command, no byte consumed) *)
    implb (c_valid c) (eqb (c_ready c) (c_rq c && c_nxt c && negb (c_nostuff c))) &&
    (* bus ownership: claimed from the cycle after the request; not claimed if nothing was requested
       since the last packet (in between -- request withdrawn -- the contract does not say) *)
    implb (g_rp g) (c_req c) && implb (negb (g_armed g)) (negb (c_req c)).

(* a trace is accepted if every cycle is ok as long as the environment keeps its side *)
Fixpoint tx_accepts (g : txg) (cs : list txc) : bool :=
  match cs with
  | [] => true
  | c :: t => if tx_env g c then tx_ok g c && tx_accepts (tx_gnext g c) t else true
  end.
(* the environment keeps its side on the whole trace, and every cycle is ok *)
Fixpoint tx_strict (g : txg) (cs : list txc) : bool :=
  match cs with
  | [] => true
  | c :: t => tx_env g c && tx_ok g c && tx_strict (tx_gnext g c) t
  end.
Fixpoint tx_env_all (g : txg) (cs : list txc) : bool :=
  match cs with
  | [] => true
  | c :: t => tx_env g c && tx_env_all (tx_gnext g c) t
  end.

(* the (input, output) cycles of a run *)
Definition ios {S : Type} (step : S -> N -> S * N) (s0 : S) (tr : list N) : list (N * N) :=
  combine tr (run step s0 tr).

(* ---- (2) packet-level reading ---------------------------------------------------------------- *)
(* What the UTMI transmitter handed over: a transmission is a maximal run of tx_valid; its bytes are
   tx_data in the cycles with tx_ready; it is reported (with the op_mode of its first cycle) when
   tx_valid falls. *)
Fixpoint utmi_tx (cur : option (N * list N)) (cs : list txc) : list (N * list N) :=
  match cs with
  | [] => []
  | c :: t =>
      if c_valid c then
        let (m, l) := match cur with Some ml => ml | None => (c_mode c, []) end in
        utmi_tx (Some (m, if c_ready c then l ++ [c_data c] else l)) t
      else match cur with
           | Some ml => ml :: utmi_tx None t
           | None => utmi_tx None t
           end
  end.

(* What a ULPI PHY receives: it takes a transmit command (0b01xxxxxx) when the link drives it on an
   available bus with NXT; then one byte per NXT cycle until STP; the byte on the bus with STP is
   recorded separately (0xFF there forces a bit-stuff error). *)
Definition is_txcmd (d : N) : bool := (64 <=? d) && (d <? 128).
Fixpoint phy_tx (cur : option (list N)) (cs : list txc) : list (list N * N) :=
  match cs with
  | [] => []
  | c :: t =>
      match cur with
      | None => if c_req c && c_idle c && c_nxt c && is_txcmd (c_dout c)
                then phy_tx (Some [c_dout c]) t else phy_tx None t
      | Some l => if c_stp c then (l, c_dout c) :: phy_tx None t
                  else if c_nxt c then phy_tx (Some (l ++ [c_dout c])) t else phy_tx (Some l) t
      end
  end.

(* The translation: a transmission that handed over b0 :: rest becomes
     normal mode:       command TXCMD|PID(b0), then rest,  STP with 0x00
     no bit stuffing:   command TXCMD (NOPID), then b0 :: rest, STP with 0xFF
   a transmission that handed over nothing leaves no trace at the PHY. *)
Definition wire (p : N * list N) : list (list N * N) :=
  match snd p with
  | [] => []
  | b0 :: rest => if fst p =? NO_BIT_STUFF then [(TXCMD :: b0 :: rest, 255)]
                  else [((TXCMD + b0 mod 16) :: rest, 0)]
  end.

(* UTMI discipline assumed by the packet-level reading only: op_mode does not change during a
   transmission (including the cycle in which tx_valid falls), and a transmission without bit stuffing
   is not abandoned before its first byte has been accepted. *)
Fixpoint utmi_ok (cur : option (N * list N)) (cs : list txc) : bool :=
  match cs with
  | [] => true
  | c :: t =>
      if c_valid c then
        match cur with
        | Some (m, l) => (c_mode c =? m) && utmi_ok (Some (m, if c_ready c then l ++ [c_data c] else l)) t
        | None => utmi_ok (Some (c_mode c, if c_ready c then [c_data c] else [])) t
        end
      else match cur with
           | Some (m, l) => (c_mode c =? m) && implb (m =? NO_BIT_STUFF) (negb (match l with [] => true | _ => false end))
                            && utmi_ok None t
           | None => utmi_ok None t
           end
  end.

(* ---- N-packed monitor for the tie obligations (ghost state in 3 bits) ------------------------ *)
Definition txg_enc (g : txg) : N := b2n (g_tx g) + 2 * b2n (g_rp g) + 4 * b2n (g_armed g).
Definition txg_dec (m : N) : txg :=
  {| g_tx := N.testbit m 0; g_rp := N.testbit m 1; g_armed := N.testbit m 2 |}.
Definition tx_mon_view (view : N * N -> txc) (m i o : N) : option (N * bool) :=
  let g := txg_dec m in let c := view (i, o) in
  if tx_env g c then Some (txg_enc (tx_gnext g c), tx_ok g c) else None.
Definition tx_mon := tx_mon_view tx_view.

(* ============================== the transmit path inside UTMITranslator ======================= *)
(* Port layout of the translator target of props/C23.py (internal signals exported as outputs):
     inputs : data_i[8] 0..7, nxt 8, dir 9, tx_data[8] 10..17, tx_valid 18, op_mode[2] 19..20, control inputs 21..
     outputs: data_o[8] 0..7, oe 8, stp 9, tx_ready 10, | transmit translator: bus_idle 11, out_req 12,
              data_out[8] 13..20, stp 21, busy 22 | register window: data_out[8] 23..30, stop 31, busy 32 |
              control translator busy 33 | translator busy 34                                       *)
Definition txp_view (io : N * N) : txc :=
  let (i, o) := io in
  {| c_data := bits i 10 8; c_valid := N.testbit i 18; c_mode := bits i 19 2; c_ready := N.testbit o 10;
     c_idle := N.testbit o 11; c_nxt := N.testbit i 8; c_req := N.testbit o 12; c_dout := bits o 13 8;
     c_stp := N.testbit o 21; c_busy := N.testbit o 22 |}.

(* the output multiplexer: the transmitter's data/STP reach the pins while it claims the bus, the
   register window's otherwise; the bus is driven exactly while DIR is low *)
Definition txp_mux_ok (io : N * N) : bool :=
  let (i, o) := io in
  (bits o 0 8 =? (if N.testbit o 12 then bits o 13 8 else bits o 23 8)) &&
  eqb (N.testbit o 9) (if N.testbit o 12 then N.testbit o 21 else N.testbit o 31) &&
  eqb (N.testbit o 8) (negb (N.testbit i 9)).

Definition txp_mon (m i o : N) : option (N * bool) :=
  match tx_mon_view txp_view m i o with
  | Some (m', ok) => Some (m', ok && txp_mux_ok (i, o))
  | None => if txp_mux_ok (i, o) then None else Some (m, false)
  end.

(* ---- the property at the pins: a ULPI PHY watching DIR/NXT/DATA/STP vs the UTMI transmit port ---- *)
Record busc := { b_dir : bool; b_nxt : bool; b_do : N; b_oe : bool; b_stp : bool;
                 b_txd : N; b_txv : bool; b_mode : N; b_rdy : bool }.
Definition bus_view (io : N * N) : busc :=
  let (i, o) := io in
  {| b_dir := N.testbit i 9; b_nxt := N.testbit i 8; b_do := bits o 0 8; b_oe := N.testbit o 8;
     b_stp := N.testbit o 9; b_txd := bits i 10 8; b_txv := N.testbit i 18; b_mode := bits i 19 2;
     b_rdy := N.testbit o 10 |}.

(* what the PHY is doing, as far as the link side of the bus shows:
   idle / transmitting a packet / register write: command taken / register write: data taken, awaiting STP *)
Inductive phy_st := PIdle | PTx | PRegW1 | PRegW2.
Definition is_regw (d : N) : bool := (128 <=? d) && (d <? 192).
Definition b_nostuff (c : busc) : bool := b_mode c =? NO_BIT_STUFF.

(* class of the byte the link drives: 1 transmit command, 2 register write command, 0 anything else *)
Definition cmd_class (pd : bool) (c : busc) : N :=
  (* pd: DIR was high in the previous cycle -- this is a turn-around cycle, the PHY does not look at the bus *)
  if b_dir c || pd then 0 else if is_txcmd (b_do c) then 1 else if is_regw (b_do c) then 2 else 0.

(* PHY contract (pc = class of the byte the link drove in the previous cycle): outside a transaction the PHY
   raises NXT (with DIR low) only in answer to a command it has seen, i.e. one that was on the bus in the
   previous cycle (in particular not in the turn-around cycle after DIR falls);
   DIR is not raised while a transmit command is acknowledged and not yet stopped *)
Definition bus_env (p : phy_st) (pc : N) (c : busc) : bool :=
  match p with
  | PIdle => implb (negb (b_dir c) && b_nxt c) (negb (pc =? 0)) &&
             (* UTMI: a transmission whose command is on the bus is not abandoned (tx_valid is held until tx_ready) *)
             implb (pc =? 1) (b_txv c)
  | PTx => negb (b_dir c)
  | _ => true
  end.
(* None: a register-write command was withdrawn in the cycle the PHY acknowledges it (not a transmit matter) *)
Definition bus_next (p : phy_st) (pc : N) (c : busc) : option phy_st :=
  if b_dir c then Some PIdle else
  match p with
  | PIdle => if b_nxt c then
               (match cmd_class false c with 1 => Some PTx | 2 => Some PRegW1 | _ => if pc =? 1 then Some PIdle else None end)
             else Some PIdle
  | PTx => Some (if b_stp c then PIdle else PTx)
  | PRegW1 => Some (if b_nxt c then PRegW2 else PRegW1)
  | PRegW2 => Some (if b_stp c then PIdle else PRegW2)
  end.
Definition bus_ok (p : phy_st) (pc : N) (c : busc) : bool :=
  (* the link never drives the data bus while DIR is high (and drives it otherwise) *)
  eqb (b_oe c) (negb (b_dir c)) &&
  (* a UTMI byte is reported accepted only in a cycle in which the PHY takes it from the bus *)
  implb (b_txv c && b_rdy c)
        (negb (b_dir c) && b_nxt c &&
         match p with
         | PIdle => negb (b_nostuff c) && (b_do c =? TXCMD + b_txd c mod 16)
         | PTx => b_do c =? b_txd c
         | _ => false
         end) &&
  match p with
  | PIdle =>
      (* a transmit command, once on the bus, is still there when the PHY acknowledges it *)
      implb (negb (b_dir c) && b_nxt c && (pc =? 1)) (is_txcmd (b_do c)) &&
      (* the acknowledgement belongs to this transmit command: it was already on the bus in the previous cycle
         (not a register-write command that the transmitter has just overdriven) *)
      implb (negb (b_dir c) && b_nxt c && is_txcmd (b_do c)) (pc =? 1) &&
      (* every transmit command the PHY takes is the translation of a pending UTMI transmission *)
      implb (negb (b_dir c) && b_nxt c && is_txcmd (b_do c))
            (b_txv c && if b_nostuff c then (b_do c =? TXCMD) && negb (b_rdy c)
                        else (b_do c =? TXCMD + b_txd c mod 16) && b_rdy c)
  | PTx =>
      (* packet body: the UTMI byte is on the bus and is accepted iff the PHY takes it; STP (with 0xFF
         iff bit stuffing is off) in the first cycle in which tx_valid is low *)
      if b_txv c then negb (b_stp c) && (b_do c =? b_txd c) && eqb (b_rdy c) (b_nxt c)
      else b_stp c && (b_do c =? (if b_nostuff c then 255 else 0))
  | _ => true
  end.

Definition phy_enc (p : phy_st) : N := match p with PIdle => 0 | PTx => 1 | PRegW1 => 2 | PRegW2 => 3 end.
Definition phy_dec (m : N) : phy_st := match m with 0 => PIdle | 1 => PTx | 2 => PRegW1 | _ => PRegW2 end.
(* monitor state: phy_enc p + 4 * pc + 16 * (DIR of the previous cycle) *)
Definition bus_mon (m i o : N) : option (N * bool) :=
  let p := phy_dec (m mod 4) in let pc := (m / 4) mod 4 in let pd := N.testbit m 4 in let c := bus_view (i, o) in
  if bus_env p pc c then
    match bus_next p pc c with
    | Some p' => Some (phy_enc p' + 4 * cmd_class pd c + 16 * b2n (b_dir c), bus_ok p pc c)
    | None => if bus_ok p pc c then None else Some (m, false)
    end
  else None.
