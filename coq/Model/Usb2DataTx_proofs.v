(* C03 -- proofs about Model/Usb2DataTx.v: the generator + CRC16 model equals the transaction-level
   specification machine on every input history; reading theorems of the specification (bytes accepted by the
   PHY = framed packets, bytes consumed = payloads, tx.valid = busy); packing lemmas for the lock-step tie. *)
From Coq Require Import NArith ZArith Arith List Bool Lia ZifyBool ZifyN.
Import ListNotations.
From LunaLib Require Import Netlist Bits Affine Machine PackN.
From LunaModel Require Import Crc Crc_proofs Usb2DataRx_proofs Usb2DataTx.
Open Scope N_scope.
Ltac Zify.zify_post_hook ::= Z.div_mod_to_equations.

Lemma tx_payload_lt : forall i, tx_payload i < 256.
Proof. intros. unfold tx_payload. apply (rx_bits_lt i 5 8). Qed.

Lemma tx_pid_byte_lt : forall d, tx_pid_byte d < 256.
Proof.
  intros d. unfold tx_pid_byte. destruct (N.to_nat d) as [|[|[|[|[|n]]]]]; cbn; lia.
Qed.

Lemma rx_R_length : forall bs, length (rx_R bs) = 16%nat.
Proof. intros. unfold rx_R. apply rx_crc_update_length. reflexivity. Qed.

Lemma tx_crc16_lt : forall bs, crc16_usb bs < 65536.
Proof. intros. rewrite rx_crc16_R. apply rx_crc_out_lt. apply rx_R_length. Qed.

Lemma tx_bits_lo : forall x, bits x 0 8 = x mod 256.
Proof. intros. unfold bits. rewrite N.land_ones, N.shiftr_0_r. reflexivity. Qed.
Lemma tx_bits_hi : forall x, x < 65536 -> bits x 8 8 = x / 256.
Proof.
  intros x H. unfold bits. rewrite N.land_ones, N.shiftr_div_pow2. change (2 ^ 8) with 256.
  apply N.mod_small. lia.
Qed.

(* ---------------------------------------------------------------------------------------------- *)
(* refinement: no environment assumption                                                            *)
Definition tx_rel (s : tx_state) (q : txs_state) : Prop :=
  match q with
  | S_IDLE => g_fsm (t_core s) = TX_IDLE
  | S_PID p z => g_fsm (t_core s) = TX_PID /\ g_pidb (t_core s) = p /\ g_zlp (t_core s) = z
  | S_PAYLOAD p sent => g_fsm (t_core s) = TX_PAYLOAD /\ t_crc s = rx_R sent
  | S_CRC1 p sent => g_fsm (t_core s) = TX_CRC1 /\ t_crc s = rx_R sent
  | S_CRC2 p sent => g_fsm (t_core s) = TX_CRC2 /\ g_rem (t_core s) = crc16_usb sent / 256
  end.

Lemma tx_rel_init : tx_rel tx_init txs_init.
Proof. reflexivity. Qed.

Ltac tx_crunch :=
  cbn [t_core t_crc g_fsm g_pidb g_rem g_zlp fst snd negb andb orb crc_reg_next tx_rel] in *.

Lemma tx_rel_step : forall s q i, tx_rel s q ->
  tx_rel (fst (tx_step s i)) (fst (txs_step q i)) /\ snd (tx_step s i) = snd (txs_step q i).
Proof.
  intros [[f pidb rem zlp] crc] q i H.
  unfold tx_step, txo_core, txs_step. tx_crunch.
  destruct q as [|p z|p sent|p sent|p sent]; tx_crunch.
  - (* IDLE *)
    subst f. rewrite (andb_comm (tx_first i)), (andb_comm (tx_last i)).
    destruct (tx_svalid i && tx_first i); tx_crunch; [auto|].
    destruct (tx_svalid i && tx_last i); tx_crunch; auto.
  - (* PID *)
    destruct H as (-> & -> & ->). tx_crunch.
    destruct (tx_ready i); tx_crunch; [|auto].
    destruct z; tx_crunch; auto.
  - (* PAYLOAD *)
    destruct H as (-> & ->). tx_crunch.
    destruct (tx_ready i) eqn:Rd; tx_crunch.
    + destruct (tx_svalid i) eqn:V; tx_crunch.
      * rewrite orb_false_r. destruct (tx_last i); tx_crunch; (split; [split; [reflexivity | symmetry; apply rx_R_snoc] | reflexivity]).
      * rewrite orb_true_r. auto.
    + rewrite andb_false_r. tx_crunch. auto.
  - (* CRC1 *)
    destruct H as (-> & ->). tx_crunch. rewrite <- rx_crc16_R, tx_bits_lo.
    destruct (tx_ready i); tx_crunch; [|auto].
    split; [split; [reflexivity | apply tx_bits_hi, tx_crc16_lt] | reflexivity].
  - (* CRC2 *)
    destruct H as (-> & ->). tx_crunch.
    destruct (tx_ready i); tx_crunch; auto.
Qed.

Theorem tx_refines : forall tr s q, tx_rel s q -> run tx_step s tr = run txs_step q tr.
Proof.
  induction tr as [|i tr IH]; intros s q H; [reflexivity|].
  destruct (tx_rel_step s q i H) as [Hr Ho]. cbn [run].
  destruct (tx_step s i) as [s' o]. destruct (txs_step q i) as [q' o']. cbn [fst snd] in *. subst o'.
  f_equal. apply IH. exact Hr.
Qed.

Corollary tx_from_reset : forall tr, run tx_step tx_init tr = run txs_step txs_init tr.
Proof. intros. apply tx_refines. apply tx_rel_init. Qed.

(* ---------------------------------------------------------------------------------------------- *)
(* reading the specification machine                                                                *)
Lemma tx_out_decode : forall v d r, d < 256 ->
  to_txvalid (tx_out_word v d r) = v /\ to_txdata (tx_out_word v d r) = d /\ to_sready (tx_out_word v d r) = r.
Proof.
  intros v d r Hd. unfold to_txvalid, to_txdata, to_sready, tx_out_word, bits.
  rewrite !rx_testbit_div, !N.land_ones, !N.shiftr_div_pow2.
  pose proof (rx_b2n_lt v); pose proof (rx_b2n_lt r).
  change (2 ^ 0) with 1; change (2 ^ 1) with 2; change (2 ^ 8) with 256; change (2 ^ 9) with 512.
  set (x := b2n v + 2 * d + 512 * b2n r).
  assert (E0 : x / 1 = b2n v + 2 * (d + 256 * b2n r)) by lia.
  assert (E1 : (x / 2) mod 256 = d) by lia.
  assert (E9 : x / 512 = b2n r + 2 * 0) by lia.
  rewrite E0, E1, E9, !rx_odd_b2n. auto.
Qed.

Definition txs_wf (q : txs_state) : Prop :=
  match q with S_IDLE => True | S_PID p _ | S_PAYLOAD p _ | S_CRC1 p _ | S_CRC2 p _ => p < 256 end.

Lemma txs_wf_step : forall q i, txs_wf q -> txs_wf (fst (txs_step q i)).
Proof.
  intros q i H. pose proof (tx_pid_byte_lt (tx_dpid i)).
  destruct q; cbn [txs_step fst txs_wf] in *.
  - destruct (tx_svalid i && tx_first i); [exact H0|]. destruct (tx_svalid i && tx_last i); [exact H0 | exact I].
  - destruct (tx_ready i); [destruct zlp|]; exact H.
  - destruct (tx_ready i && tx_svalid i); [destruct (tx_last i); exact H|]. destruct (tx_ready i); exact H.
  - destruct (tx_ready i); exact H.
  - destruct (tx_ready i); [exact I | exact H].
Qed.

(* what one cycle shows: tx.valid, tx.data, stream.ready *)
Lemma txs_out_fields : forall q i, txs_wf q ->
  let o := snd (txs_step q i) in
  to_txvalid o = (match q with S_IDLE => false | S_PAYLOAD _ _ => tx_svalid i | _ => true end) /\
  to_txdata o = (match q with
                 | S_IDLE => 0 | S_PID p _ => p | S_PAYLOAD _ _ => tx_payload i
                 | S_CRC1 _ sent => crc16_usb sent mod 256 | S_CRC2 _ sent => crc16_usb sent / 256 end) /\
  to_sready o = (match q with S_PAYLOAD _ _ => tx_ready i | _ => false end).
Proof.
  intros q i H. pose proof (tx_payload_lt i).
  destruct q as [|p z|p sent|p sent|p sent]; cbn [txs_step snd txs_wf] in *; apply tx_out_decode; try lia.
  pose proof (tx_crc16_lt sent). lia.
Qed.

(* tx.valid is high exactly while a packet is in progress (given the producer contract) *)
Theorem txs_valid_iff_busy : forall q i, txs_wf q -> txs_env q i = true ->
  to_txvalid (snd (txs_step q i)) = txs_busy q.
Proof.
  intros q i H He. destruct (txs_out_fields q i H) as [Hv _]. rewrite Hv.
  destruct q; cbn [txs_env txs_busy] in *; auto.
Qed.

(* a packet ends in the idle state: its tx.valid run is followed by at least one cycle with tx.valid low *)
Theorem txs_idle_after_packet : forall q i p, txs_done q i = Some p -> fst (txs_step q i) = S_IDLE.
Proof.
  intros q i p H. destruct q; cbn [txs_done] in H; try discriminate.
  cbn [txs_step fst]. destruct (tx_ready i); [reflexivity | discriminate].
Qed.

Definition tx_wire_of (p : N * list N) : list N := tx_wire (fst p) (snd p).

(* the bytes accepted by the PHY along any history are the framed packets, in order, followed by the accepted
   part of the packet in progress *)
Theorem txs_accepted : forall tr q, txs_wf q ->
  txs_partial q ++ tx_accepted (combine tr (run txs_step q tr))
  = flat_map tx_wire_of (txs_log q tr) ++ txs_partial (run_state txs_step q tr).
Proof.
  induction tr as [|i tr IH]; intros q H.
  - cbn. rewrite app_nil_r. reflexivity.
  - pose proof (txs_out_fields q i H) as (Hv & Hd & _). pose proof (txs_wf_step q i H) as H'.
    specialize (IH (fst (txs_step q i)) H').
    cbn [run combine run_state txs_log]. unfold tx_accepted in *.
    destruct (txs_step q i) as [q' o] eqn:E. cbn [fst snd filter map] in *. rewrite Hv.
    destruct q as [|p z|p sent|p sent|p sent]; cbn [txs_step txs_done txs_partial] in *;
      inversion E; subst q' o; clear E; cbn [andb txs_partial app].
    + rewrite <- IH. destruct (tx_svalid i && tx_first i); [reflexivity|].
      destruct (tx_svalid i && tx_last i); reflexivity.
    + destruct (tx_ready i); cbn [map app fst snd]; [|exact IH].
      rewrite Hd. rewrite <- IH. destruct z; reflexivity.
    + destruct (tx_ready i) eqn:Rd; cbn [andb] in *.
      * destruct (tx_svalid i) eqn:V; cbn [map app andb fst snd] in *.
        -- rewrite Hd, <- IH. destruct (tx_last i); cbn [txs_partial app]; rewrite <- ?app_assoc; cbn [app]; reflexivity.
        -- exact IH.
      * rewrite andb_false_r. exact IH.
    + destruct (tx_ready i); cbn [map app fst snd]; [|exact IH].
      rewrite Hd, <- IH. cbn [txs_partial app]. rewrite <- ?app_assoc. cbn [app]. reflexivity.
    + destruct (tx_ready i); cbn [map app flat_map fst snd]; [|exact IH].
      rewrite Hd. unfold tx_wire_of at 1, tx_wire. cbn [fst snd]. rewrite <- (app_assoc (_ :: _)), <- IH.
      cbn [txs_partial app]. rewrite <- ?app_assoc. cbn [app]. reflexivity.
Qed.

(* the payload bytes taken from the producer are exactly the payloads of the packets sent: every byte
   consumed is sent exactly once, in order *)
Theorem txs_consumed : forall tr q, txs_wf q ->
  txs_sent q ++ tx_consumed (combine tr (run txs_step q tr))
  = flat_map snd (txs_log q tr) ++ txs_sent (run_state txs_step q tr).
Proof.
  induction tr as [|i tr IH]; intros q H.
  - cbn. rewrite app_nil_r. reflexivity.
  - pose proof (txs_out_fields q i H) as (_ & _ & Hr). pose proof (txs_wf_step q i H) as H'.
    specialize (IH (fst (txs_step q i)) H').
    cbn [run combine run_state txs_log]. unfold tx_consumed in *.
    destruct (txs_step q i) as [q' o] eqn:E. cbn [fst snd filter map] in *. rewrite Hr.
    destruct q as [|p z|p sent|p sent|p sent]; cbn [txs_step txs_done txs_sent] in *;
      inversion E; subst q' o; clear E; rewrite ?andb_false_r; cbn [txs_sent app].
    + rewrite <- IH. destruct (tx_svalid i && tx_first i); [reflexivity|].
      destruct (tx_svalid i && tx_last i); reflexivity.
    + rewrite <- IH. destruct (tx_ready i); [destruct z|]; reflexivity.
    + rewrite (andb_comm (tx_svalid i)). destruct (tx_ready i && tx_svalid i); cbn [map app fst snd].
      * rewrite <- IH. destruct (tx_last i); cbn [txs_sent app]; rewrite <- ?app_assoc; cbn [app]; reflexivity.
      * rewrite <- IH. destruct (tx_ready i); reflexivity.
    + rewrite <- IH. destruct (tx_ready i); reflexivity.
    + destruct (tx_ready i); cbn [flat_map snd]; [|exact IH].
      rewrite <- app_assoc, <- IH. reflexivity.
Qed.

Lemma tx_wire_zlp : forall p, tx_wire p [] = [p; 0; 0].
Proof. intros. unfold tx_wire. cbn [app]. reflexivity. Qed.

(* the PID bytes are the USB data PIDs DATA0 = 0011, DATA1 = 1011, DATA2 = 0111, MDATA = 1111 with check nibble *)
Lemma tx_pid_bytes : map tx_pid_byte [0; 1; 2; 3] = map (fun n => n + 16 * (15 - n)) [3; 11; 7; 15].
Proof. reflexivity. Qed.

(* ---------------------------------------------------------------------------------------------- *)
(* packing                                                                                          *)
Lemma tx_fsm_code_of : forall f, tx_fsm_of (tx_fsm_code f) = f.
Proof. destruct f; reflexivity. Qed.
Lemma tx_fsm_code_lt : forall f, tx_fsm_code f < 8.
Proof. destruct f; cbn; lia. Qed.

Lemma txo_dec_enc : forall c, txo_wf c -> txo_dec (txo_enc c) = c.
Proof.
  intros [f p r z] [H1 H2]. cbn [g_pidb g_rem] in *. unfold txo_dec, txo_enc. cbn [g_fsm g_pidb g_rem g_zlp].
  pose proof (tx_fsm_code_lt f).
  rewrite !(pk_mod 8), !(pk_div 8) by assumption.
  rewrite !(pk_mod 256 p), !(pk_div 256 p) by assumption.
  rewrite (pk_mod 256 r), (pk_div 256 r) by assumption.
  rewrite tx_fsm_code_of. destruct z; reflexivity.
Qed.

Lemma txo_wf_init : txo_wf txo_init.
Proof. split; cbn; lia. Qed.

Lemma txo_core_wf : forall c dpid v f l pl rd crc, txo_wf c -> txo_wf (fst (txo_core c dpid v f l pl rd crc)).
Proof.
  intros [fs p r z] dpid v f l pl rd crc [H1 H2]. cbn [g_pidb g_rem] in *.
  unfold txo_wf, txo_core. cbn [fst g_fsm g_pidb g_rem g_zlp].
  pose proof (tx_pid_byte_lt dpid). pose proof (rx_bits_lt crc 8 8) as Hb. change (2 ^ 8) with 256 in Hb.
  split; destruct fs; assumption.
Qed.

Lemma txo_wf_step : forall c i, txo_wf c -> txo_wf (fst (txo_step c i)).
Proof.
  intros c i H. unfold txo_step.
  pose proof (txo_core_wf c (tx_dpid i) (tx_svalid i) (tx_first i) (tx_last i) (tx_payload i) (tx_ready i) (bits i 14 16) H) as W.
  destruct (txo_core c _ _ _ _ _ _ _) as [c' [[[a b] d] e]]. exact W.
Qed.

Lemma tx_dec_enc : forall s, tx_wf s -> tx_dec (tx_enc s) = s.
Proof.
  intros [c crc] [Hc Hl]. cbn [t_core t_crc] in *. unfold tx_dec, tx_enc. cbn [t_core t_crc].
  assert (Hb : bits2N crc < 65536) by (pose proof (bits2N_bound crc) as B; rewrite Hl in B; exact B).
  rewrite pk_mod, pk_div by exact Hb. rewrite txo_dec_enc by exact Hc.
  rewrite <- Hl at 1. rewrite N2bits_bits2N. reflexivity.
Qed.

Lemma tx_wf_init : tx_wf tx_init.
Proof. split; [apply txo_wf_init | reflexivity]. Qed.

Lemma tx_wf_step : forall s i, tx_wf s -> tx_wf (fst (tx_step s i)).
Proof.
  intros [c crc] i [Hc Hl]. cbn [t_core t_crc] in *. unfold tx_step. cbn [t_core t_crc].
  pose proof (txo_core_wf c (tx_dpid i) (tx_svalid i) (tx_first i) (tx_last i) (tx_payload i) (tx_ready i) (crc_out crc) Hc) as W.
  destruct (txo_core c _ _ _ _ _ _ _) as [c' [[[txv txd] srdy] start]]. cbn [fst] in *.
  split; [exact W|]. cbn [t_crc crc_reg_next].
  destruct start; [reflexivity|]. destruct (txv && tx_ready i); [apply rx_crc_update_length; exact Hl | exact Hl].
Qed.
