(* C05 -- hand model of luna/gateware/usb/usb2/packet.py: USBInterpacketTimer, parametric in
     nif   the number of InterpacketTimerInterfaces attached with add_interface (>= 1),
     cmax  the module's _counter_max, w the width of its counter  (Signal(range(0, cmax + 2))),
     tbl   the delay table: speed code -> Some (rx_to_tx_min, rx_to_tx_max, tx_to_rx_timeout),
           or None where the module instantiates no comparators for that speed (FS-only builds),
   and the specification: strobes as a function of the time elapsed since the most recent start (or
   reset), against the delay figures of USB 2.0 7.1.18 / ULPI 1.1 fig. 18.

   Packed ports.  inputs: start_0 .. start_{nif-1} (1 bit each), speed (2 bits).
                  outputs, per interface k: tx_allowed_k, tx_timeout_k, rx_timeout_k (bits 3k, 3k+1, 3k+2). *)
From Coq Require Import NArith List Bool.
Import ListNotations.
From LunaLib Require Import Netlist Machine.
Open Scope N_scope.

Definition ip_table := N -> option (N * N * N).

(* the same three strobes are fanned out to every interface *)
Fixpoint rep (n : nat) (x : N) : N :=
  match n with O => 0 | S k => x + 8 * rep k x end.

(* strobe word for a counter / elapsed-time value c: bit 0 = tx_allowed, 1 = tx_timeout, 2 = rx_timeout *)
Definition ip_strobes (tbl : ip_table) (c speed : N) : N :=
  match tbl speed with
  | None => 0
  | Some (a, b, t) => b2n (c =? a) + 2 * b2n (c =? b) + 4 * b2n (c =? t)
  end.

Section IpTimer.
  Variable nif : nat.
  Variables cmax w : N.
  Variable tbl : ip_table.

  Definition ip_starts (i : N) : bool := negb (bits i 0 (N.of_nat nif) =? 0).   (* any_reset *)
  Definition ip_speed (i : N) : N := bits i (N.of_nat nif) 2.

  (* ---- the module: a saturating counter of width w ---- *)
  Definition ip_next (c : N) (start : bool) : N :=
    if start then 0
    else if c <? cmax + 1 then (c + 1) mod 2 ^ w
    else c.

  Definition ip_step (c : N) (i : N) : N * N :=
    (ip_next c (ip_starts i), rep nif (ip_strobes tbl c (ip_speed i))).

  Definition ip_init : N := 0.

  (* ---- the specification: e = number of whole cycles elapsed since the cycle after the most recent
          start request (since reset, if there was none); unbounded, no saturation, no width ---- *)
  Definition sp_next (e : N) (start : bool) : N := if start then 0 else e + 1.
  Definition sp_step (e : N) (i : N) : N * N :=
    (sp_next e (ip_starts i), rep nif (ip_strobes tbl e (ip_speed i))).
  Definition sp_init : N := 0.
End IpTimer.

(* closed form of the specification's state: the number of start-free cycles at the end of the
   history (the whole history if no start was ever requested) *)
Fixpoint quiet_suffix (nif : nat) (rev_hist : list N) : N :=
  match rev_hist with
  | [] => 0
  | i :: t => if ip_starts nif i then 0 else 1 + quiet_suffix nif t
  end.
Definition elapsed (nif : nat) (hist : list N) : N := quiet_suffix nif (rev hist).

(* ---- delay figures ------------------------------------------------------------------------ *)
(* speed codes (USBSpeed) *)
Definition HIGH : N := 0.
Definition FULL : N := 1.
Definition LOW  : N := 2.

(* Specification table, in cycles of the domain clock; cpb = domain-clock cycles per full-speed bit
   time (5 at 60 MHz, 1 at 12 MHz).  A low-speed bit is 8 full-speed bits; 8 high-speed bits are one
   60 MHz cycle.
     minimum gap    : 2 bit times (FS, LS); one 60 MHz cycle (HS)
     response limit : 6.5 bit times (FS, LS) -- 32.5 cycles at 60 MHz FS, which ULPI 1.1 fig. 18
                      documents as 32; 6.5 cycles at 12 MHz, documented by LUNA as 7; HS: 24 cycles
     receive timeout: 16 bit times (FS, LS); 736 bit times = 92 cycles (HS)                       *)
Definition usb_delays (cpb : N) (hs_capable : bool) (speed : N) : option (N * N * N) :=
  match speed with
  | 0 => if hs_capable then Some (1, 24, 736 / 8) else None
  | 1 => Some (2 * cpb, (if cpb =? 1 then 7 else 13 * cpb / 2), 16 * cpb)
  | 2 => if hs_capable then Some (2 * (8 * cpb), 13 * (8 * cpb) / 2, 16 * (8 * cpb)) else None
  | _ => None
  end.

(* The module's tables as written in the source (class constants _HS/_FS/_LS_RX_TO_TX_DELAY and
   _TX_TO_RX_TIMEOUT, selected by `speed`; the final `Else` also catches the unused code 3).
   This is the property-satisfying table: the low-speed branch uses the low-speed constants. *)
Definition tbl_60 (fs_only : bool) : ip_table := fun s =>
  match s with
  | 0 => if fs_only then None else Some (1, 24, 92)
  | 1 => Some (10, 32, 80)
  | _ => if fs_only then None else Some (80, 260, 640)
  end.
Definition tbl_12 : ip_table := fun s =>
  match s with 1 => Some (2, 7, 16) | _ => None end.

Definition cmax_of (fs_only : bool) (mhz12 : bool) : N :=
  if mhz12 then 16 else if fs_only then 80 else 640.
(* width Amaranth gives Signal(range(0, cmax + 2)) *)
Definition ctr_width (cmax : N) : N := N.size (cmax + 1).
