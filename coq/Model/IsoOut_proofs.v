(* C16 -- proofs about the isochronous OUT endpoint (Model/IsoOut.v):
     iso_refines            the code-shaped model (boundary detector + admission latch + pointer FIFO) shows in every
                            cycle the outputs of the packet-level specification machine, for all sizes and all
                            histories that keep the environment assumption (simulation relation R, through the
                            abstract transactional queue of C18)
     iso_whole_packets      specification: delivered ++ queued = framed payloads of the accepted packets
     iso_accepted_good      accepted packets = the good packets that found room, in order
     iso_drains             with the consumer ready the queue drains
     packing lemmas         io_dec_enc, io_wf_step, io_menv_ok, io_packed_refines for the lock-step tie *)
From Coq Require Import NArith List Bool Arith Lia.
Import ListNotations.
From LunaLib Require Import Netlist Machine PackN.
From LunaModel Require Import BoundaryDet BoundaryDet_proofs TxFifo TxFifo_proofs C16_OutTrack C16_OutTrack_proofs IsoOut.
Open Scope nat_scope.

Section Refine.
  Variable mps depth : nat.
  Hypothesis Hmps : 1 <= mps.

  (* entries of the open packet that are in the buffer (uncommitted) *)
  Definition stored (ph : phase) : list entry :=
    match ph with
    | PReport bs _ _ => frame true true bs
    | _ => inner true (firstn (n_fwd ph) (ph_bytes ph))
    end.

  Definition R (m : io_state) (s : is_state) : Prop :=
    let A := tf_abs depth (m_ff m) in
    let ph := s_ph s in
    bd_rel (m_bd m) ph /\ tf_inv depth (m_ff m) /\
    aq_avail A = map enc_entry (s_q s) /\
    length (aq_tent A) = (if s_tent s then 1 else 0) /\
    g_tgt m = s_tgt s /\ m_adm m = s_adm s /\
    match ph with POpen bs _ _ _ => g_cnt m = Nat.min (length bs) (S mps) | _ => True end /\
    Forall (fun b => (b < 256)%N) (ph_bytes ph) /\ Forall (fun e => (e_data e < 256)%N) (s_q s) /\
    (s_tgt s = true -> length (ph_bytes ph) <= mps) /\
    match ph with PEnded _ c v | PReport _ c v => s_tgt s = true -> xorb c v = true | _ => True end /\
    aq_pend A = (if s_tgt s && s_adm s && (0 <? n_fwd ph) then map enc_entry (stored ph) else []) /\
    (s_tgt s = true -> s_adm s = true -> 0 < n_fwd ph ->
       match ph with PReport _ _ _ => True | _ => aq_held A + mps <= depth + n_fwd ph end).

  Lemma R_init : R (io_init depth) is_init.
  Proof.
    unfold R, io_init, is_init. cbn [m_bd m_ff m_adm g_tgt g_cnt s_ph s_tgt s_adm s_q s_tent].
    rewrite abs_init. cbn [aq_avail aq_tent aq_pend map length ph_bytes n_fwd].
    split; [apply bd_rel_init|]. split; [apply inv_init|].
    repeat split; try constructor; try discriminate; try lia.
  Qed.

  (* outputs *)
  Lemma R_out : forall m s, R m s -> io_norm (io_outf depth m) = is_outf s.
  Proof.
    intros m s (Hbd & Hinv & Hav & Hte & Hgt & Had & Hcnt & Hby & Hq & Hlen & Hx & Hpe & Hcap).
    destruct (obs_facts depth _ Hinv) as (Hsp & Hem & Hrd).
    unfold io_outf, is_outf, io_norm. cbn [y_valid]. rewrite Hem, Hav.
    destruct (s_q s) as [|e q]; [reflexivity|]. cbn [map is_nil negb].
    rewrite (Hrd (enc_entry e) (map enc_entry q)) by (rewrite Hav; reflexivity).
    inversion Hq as [|? ? He _]; subst.
    destruct (enc_entry_dec e He) as (E1 & E2 & E3). rewrite E1, E2, E3. reflexivity.
  Qed.

  (* the environment predicate on model registers is the one on the specification state *)
  Lemma min_ltb : forall a, (Nat.min a (S mps) <? mps) = (a <? mps).
  Proof. intro a. destruct (Nat.ltb_spec a mps), (Nat.ltb_spec (Nat.min a (S mps)) mps); try reflexivity; lia. Qed.

  Lemma R_env : forall m s i, R m s -> io_env mps m i = is_env mps s i.
  Proof.
    intros m s i (Hbd & Hinv & Hav & Hte & Hgt & Had & Hcnt & _).
    unfold io_env, is_env, rx_env. rewrite Hgt. f_equal.
    destruct (s_ph s) as [|bs c v fresh|bs c v|bs c v].
    - destruct Hbd as (Hf & _ & _ & Hc & Hv). rewrite Hf, Hc, Hv. reflexivity.
    - destruct Hbd as (Hf & _ & _ & _ & Hc & Hv & _). rewrite Hf, Hc, Hv, Hcnt, min_ltb. reflexivity.
    - destruct Hbd as (Hf & _). rewrite Hf. reflexivity.
    - destruct Hbd as (Hf & _ & _ & Hc & Hv). rewrite Hf, Hc, Hv. reflexivity.
  Qed.

  Lemma take_map : forall (q : list entry) rdy,
    (if rdy && negb (is_nil (map enc_entry q)) then tl (map enc_entry q) else map enc_entry q)
    = map enc_entry (if rdy && negb (match q with [] => true | _ => false end) then tl q else q).
  Proof. intros [|e q] rdy; destruct rdy; reflexivity. Qed.

  Lemma pop_len : forall (q : list entry) rdy,
    length (if rdy && negb (is_nil (map enc_entry q)) then [hd 0%N (map enc_entry q)] else [])
    = (if rdy && negb (match q with [] => true | _ => false end) then 1 else 0).
  Proof. intros [|e q] rdy; destruct rdy; reflexivity. Qed.

  Lemma q1_lt : forall (q : list entry) (b : bool), Forall (fun e => (e_data e < 256)%N) q ->
    Forall (fun e => (e_data e < 256)%N) (if b then tl q else q).
  Proof. intros q b H. destruct b; [|exact H]. destruct q; [exact H|]. inversion H; assumption. Qed.

  (* what the tracker's next phase means for the stored entries *)
  Lemma open_next : forall bs c v fresh r, bs <> [] -> (fresh = true -> 2 <= length bs) ->
    let ph' := trk_next (POpen bs c v fresh) r in
    n_fwd ph' = n_fwd (POpen bs c v fresh) + (if fresh then 1 else 0) /\
    stored ph' = inner true (firstn (n_fwd ph') bs) /\
    match ph' with PReport _ _ _ => False | _ => True end.
  Proof.
    intros bs c v fresh r Hne Hfr. assert (L : 1 <= length bs) by (destruct bs; [congruence | cbn [length]; lia]).
    unfold trk_next. destruct (negb (r_valid r)); [|destruct (r_next r)]; cbn [n_fwd stored ph_bytes].
    - destruct fresh; [specialize (Hfr eq_refl)|]; repeat split; lia.
    - rewrite app_length. cbn [length]. destruct fresh; [specialize (Hfr eq_refl)|]; repeat split; try lia.
      all: rewrite firstn_snoc_le by lia; reflexivity.
    - destruct fresh; [specialize (Hfr eq_refl)|]; repeat split; lia.
  Qed.

  Lemma R_step : forall m s i, R m s -> is_env mps s i = true ->
    R (io_next mps depth m i) (is_next mps depth s i).
  Proof.
    intros [bd ff madm gtgt gcnt] [ph tgt adm q tent] i HR Henv.
    unfold R in HR. cbn [m_bd m_ff m_adm g_tgt g_cnt s_ph s_tgt s_adm s_q s_tent] in HR.
    destruct HR as (Hbd & Hinv & Hav & Hte & Hgt & Had & Hcnt & Hby & Hq & Hlen & Hx & Hpe & Hcap).
    subst gtgt madm.
    destruct (obs_facts depth _ Hinv) as (Hsp & _ & _).
    pose proof (bd_fwd_rel _ _ Hbd) as Hfw. pose proof (bd_strobes_rel _ _ Hbd) as Hst.
    pose proof (bd_rel_step _ _ (x_rx i) Hbd) as Hbd'.
    unfold is_env, rx_env in Henv. cbn [s_ph s_tgt] in Henv.
    apply andb_true_iff in Henv as [Hpay Henv]. apply N.ltb_lt in Hpay.
    destruct (step_commutes depth ff (io_fifo_in mps depth
       {| m_bd := bd; m_ff := ff; m_adm := adm; g_tgt := tgt; g_cnt := gcnt |} i) Hinv) as [Hinv' Habs].
    unfold R, io_next, is_next. cbn [m_bd m_ff m_adm g_tgt g_cnt s_ph s_tgt s_adm s_q s_tent].
    rewrite Habs. clear Habs.
    split; [exact Hbd'|]. split; [exact Hinv'|]. clear Hinv' Hbd'.
    unfold io_fifo_in. cbn [m_bd m_ff m_adm]. rewrite Hfw, Hsp. clear Hsp.
    remember (tf_abs depth ff) as A eqn:EA. destruct A as [T Av P]. clear EA.
    cbn [aq_avail aq_tent aq_pend] in Hav, Hte, Hpe. unfold aq_held in Hcap |- *.
    cbn [aq_avail aq_tent aq_pend] in Hcap |- *. subst Av. rewrite map_length in *.
    destruct ph as [|bs c v fresh|bs c v|bs c v]; cbn [strobes] in Hst; injection Hst as Hc Hv.
    - (* no packet *)
      cbn [fwd] in *. rewrite Hc, Hv, !andb_false_r.
      rewrite aq_ep_step. cbn [aq_avail aq_tent aq_pend aq_held andb].
      destruct Hbd as (Hf & _). rewrite Hf.
      split; [apply take_map|]. split; [apply pop_len|]. split; [reflexivity|]. split; [reflexivity|].
      assert (HP : P = []) by (rewrite Hpe; cbn [n_fwd Nat.ltb Nat.leb]; rewrite andb_false_r; reflexivity).
      subst P. cbn [app].
      unfold trk_next, trk_start. destruct (r_valid (x_rx i) && r_next (x_rx i)); cbn [ph_bytes n_fwd length Nat.sub Nat.ltb Nat.leb].
      + rewrite !andb_false_r.
        repeat split; try reflexivity; try (apply q1_lt; assumption); try (repeat constructor; assumption); try lia.
      + rewrite !andb_false_r.
        repeat split; try reflexivity; try (apply q1_lt; assumption); try (repeat constructor; assumption); try lia.
    - (* a packet is open *)
      destruct Hbd as (Hf & Hne & Hbuf & Hisf & Hbc & Hbi & Hoc & Hoi & Hol & Hon & Hval & Hnv & Hfr).
      assert (L : 1 <= length bs) by (destruct bs; [congruence | cbn [length]; lia]).
      apply andb_true_iff in Henv as [Hxt He]. apply eqb_prop in Hxt.
      destruct (open_next bs c v fresh (x_rx i) Hne (fun E => proj1 (Hfr E))) as (Hn' & Hst' & Hnr).
      cbn [ph_bytes] in Hby, Hlen.
      assert (HB : match trk_next (POpen bs c v fresh) (x_rx i) with
                   | POpen bs' _ _ _ => (if r_valid (x_rx i) && r_next (x_rx i) then Nat.min (S gcnt) (S mps) else gcnt)
                                        = Nat.min (length bs') (S mps)
                   | _ => True end /\
                   Forall (fun b => (b < 256)%N) (ph_bytes (trk_next (POpen bs c v fresh) (x_rx i))) /\
                   (tgt = true -> length (ph_bytes (trk_next (POpen bs c v fresh) (x_rx i))) <= mps) /\
                   match trk_next (POpen bs c v fresh) (x_rx i) with
                   | PEnded _ c' v' | PReport _ c' v' => tgt = true -> xorb c' v' = true
                   | _ => True end).
      { unfold trk_next. destruct (r_valid (x_rx i)) eqn:Erv; cbn [negb andb]; [destruct (r_next (x_rx i)) eqn:Ern|];
          cbn [ph_bytes].
        - split; [rewrite Hcnt, app_length; cbn [length]; lia|].
          split; [apply Forall_app; split; [assumption | repeat constructor; assumption]|].
          split; [|exact I]. intro Et. rewrite Et in He. cbn [negb] in He. apply Nat.ltb_lt in He.
          rewrite app_length. cbn [length]. lia.
        - split; [exact Hcnt|]. split; [exact Hby|]. split; [exact Hlen | exact I].
        - split; [exact I|]. split; [exact Hby|]. split; [exact Hlen|].
          intro Et. rewrite Et in He. exact He. }
      destruct HB as (HB1 & HB2 & HB3 & HB4).
      assert (HQ1 := q1_lt q (x_rdy i && negb match q with [] => true | _ => false end) Hq).
      assert (HQL : (if x_rdy i && negb match q with [] => true | _ => false end then 1 else 0)
                    + length (if x_rdy i && negb match q with [] => true | _ => false end then tl q else q) <= length q).
      { destruct q, (x_rdy i); cbn [andb negb tl length]; lia. }
      assert (HFREE : depth - (length T + length q + 0) = is_free depth {| s_ph := POpen bs c v fresh; s_tgt := tgt; s_adm := adm; s_q := q; s_tent := tent |}).
      { unfold is_free. cbn [s_q s_tent]. rewrite Hte. destruct tent; lia. }
      set (ph' := trk_next (POpen bs c v fresh) (x_rx i)) in *.
      destruct fresh.
      + (* a byte is forwarded *)
        destruct (Hfr eq_refl) as (H2 & _). clear Hfr Hnv Hval.
        cbn [fwd n_fwd] in *. rewrite Hoc, Hoi, !andb_false_r. rewrite aq_ep_step. unfold aq_held.
        cbn [aq_avail aq_tent aq_pend andb]. rewrite take_map, pop_len, Hf, Hxt. rewrite !map_length.
        set (q1 := if x_rdy i && negb match q with [] => true | _ => false end then tl q else q) in *.
        split; [reflexivity|]. split; [reflexivity|]. split; [reflexivity|].
        destruct (Nat.eqb_spec (length bs) 2) as [E2|E2].
        * (* it is the packet's first byte: the admission decision is taken now *)
          assert (HP : P = []) by (rewrite Hpe, E2; cbn; rewrite andb_false_r; reflexivity).
          clear Hpe. subst P. cbn [length app]. rewrite HFREE.
          set (rm := mps <=? is_free depth _).
          split; [reflexivity|]. split; [exact HB1|]. split; [exact HB2|]. split; [exact HQ1|].
          split; [exact HB3|]. split; [exact HB4|].
          assert (HN1 : n_fwd ph' = 1) by (rewrite Hn', E2; reflexivity).
          rewrite Hst', HN1. cbn [Nat.ltb Nat.leb]. rewrite andb_true_r.
          destruct (tgt && rm) eqn:EW.
          -- apply andb_true_iff in EW as [Et Er]. unfold rm in Er. rewrite <- HFREE in Er. apply Nat.leb_le in Er.
             assert (HNF : (length T + length q + 0 =? depth) = false) by (apply Nat.eqb_neq; lia).
             rewrite HNF. cbn [negb].
             split.
             ++ destruct bs as [|a [|b [|]]]; cbn [length] in E2; try lia. reflexivity.
             ++ intros _ _ _. destruct ph'; try contradiction; cbn [andb length]; rewrite ?map_length; unfold q1 in *; lia.
          -- split; [reflexivity|]. intros Et Er. rewrite Et, Er in EW. discriminate.
        * (* a later byte: the decision was latched *)
          assert (K : 0 < length bs - 2) by lia.
          assert (HK : (0 <? length bs - 2) = true) by (apply Nat.ltb_lt; exact K).
          rewrite HK in Hpe. rewrite andb_true_r in Hpe.
          split; [reflexivity|]. split; [exact HB1|]. split; [exact HB2|]. split; [exact HQ1|].
          split; [exact HB3|]. split; [exact HB4|].
          assert (HN1 : n_fwd ph' = S (length bs - 2)) by (rewrite Hn'; lia).
          rewrite Hst', HN1. cbn [Nat.ltb Nat.leb]. rewrite andb_true_r.
          destruct (tgt && adm) eqn:EW.
          -- apply andb_true_iff in EW as [Et Ea]. specialize (Hcap Et Ea K). specialize (Hlen Et).
             assert (HNF : (length T + length q + length P =? depth) = false) by (apply Nat.eqb_neq; lia).
             rewrite HNF. cbn [negb].
             split.
             ++ subst P. rewrite inner_snoc by lia. rewrite map_app.
                assert (E0 : (length bs - 2 =? 0) = false) by (apply Nat.eqb_neq; lia). rewrite E0. reflexivity.
             ++ intros _ _ _. destruct ph'; try contradiction; rewrite app_length; cbn [andb length]; rewrite ?map_length; unfold q1 in *; lia.
          -- split; [subst P; reflexivity|]. intros Et Er. rewrite Et, Er in EW. discriminate.
      + (* nothing is forwarded *)
        cbn [fwd n_fwd] in *. rewrite Hoc, Hoi, !andb_false_r. rewrite aq_ep_step. unfold aq_held.
        cbn [aq_avail aq_tent aq_pend andb]. rewrite take_map, pop_len, Hf, ?Hxt. rewrite ?map_length, app_nil_r.
        set (q1 := if x_rdy i && negb match q with [] => true | _ => false end then tl q else q) in *.
        split; [reflexivity|]. split; [reflexivity|]. split; [reflexivity|].
        split; [reflexivity|]. split; [exact HB1|]. split; [exact HB2|]. split; [exact HQ1|].
        split; [exact HB3|]. split; [exact HB4|].
        rewrite Nat.add_0_r in Hn'. rewrite Hst', Hn'.
        split; [exact Hpe|].
        intros Et Ea K. specialize (Hcap Et Ea K).
        destruct ph'; try contradiction; unfold q1 in *; lia.
    - (* the packet ended in the previous cycle: its last byte is forwarded now *)
      destruct Hbd as (Hf & Hne & _).
      assert (L : 1 <= length bs) by (destruct bs; [congruence | cbn [length]; lia]).
      apply andb_true_iff in Henv as [Hxt _]. apply eqb_prop in Hxt.
      cbn [fwd] in *. rewrite Hc, Hv, !andb_false_r. rewrite aq_ep_step. unfold aq_held.
      cbn [aq_avail aq_tent aq_pend andb]. rewrite take_map, pop_len, Hf, Hxt. rewrite !map_length.
      cbn [trk_next n_fwd stored ph_bytes] in *.
      assert (HQ1 := q1_lt q (x_rdy i && negb match q with [] => true | _ => false end) Hq).
      set (q1 := if x_rdy i && negb match q with [] => true | _ => false end then tl q else q) in *.
      split; [reflexivity|]. split; [reflexivity|]. split; [reflexivity|].
      assert (HFREE : depth - (length T + length q + 0) = is_free depth {| s_ph := PEnded bs c v; s_tgt := tgt; s_adm := adm; s_q := q; s_tent := tent |}).
      { unfold is_free. cbn [s_q s_tent]. rewrite Hte. destruct tent; lia. }
      destruct (Nat.eqb_spec (length bs) 1) as [E1|E1].
      + (* single-byte packet: the admission decision is taken now *)
        assert (HP : P = []) by (rewrite Hpe, E1; cbn; rewrite andb_false_r; reflexivity).
        clear Hpe. subst P. cbn [length app]. rewrite HFREE.
        set (rm := mps <=? is_free depth _).
        split; [reflexivity|]. split; [exact I|]. split; [exact Hby|]. split; [exact HQ1|].
        split; [exact Hlen|]. split; [exact Hx|].
        split; [|intros; exact I].
        rewrite E1. cbn [Nat.ltb Nat.leb]. rewrite andb_true_r.
        destruct (tgt && rm) eqn:EW; [|reflexivity].
        apply andb_true_iff in EW as [Et Er]. unfold rm in Er. rewrite <- HFREE in Er. apply Nat.leb_le in Er.
        assert (HNF : (length T + length q + 0 =? depth) = false) by (apply Nat.eqb_neq; lia).
        rewrite HNF. cbn [negb]. rewrite (frame_split true true bs Hne), E1. cbn [Nat.sub firstn inner app map Nat.eqb andb].
        reflexivity.
      + (* longer packet: decided earlier *)
        assert (K : 0 < length bs - 1) by lia.
        assert (HK : (0 <? length bs - 1) = true) by (apply Nat.ltb_lt; exact K).
        assert (HK' : (0 <? length bs) = true) by (apply Nat.ltb_lt; lia).
        rewrite HK in Hpe. rewrite HK'. rewrite !andb_true_r in *.
        split; [reflexivity|]. split; [exact I|]. split; [exact Hby|]. split; [exact HQ1|].
        split; [exact Hlen|]. split; [exact Hx|].
        split; [|intros; exact I].
        destruct (tgt && adm) eqn:EW; [|subst P; reflexivity].
        apply andb_true_iff in EW as [Et Ea]. specialize (Hcap Et Ea K). specialize (Hlen Et).
        assert (HNF : (length T + length q + length P =? depth) = false) by (apply Nat.eqb_neq; lia).
        rewrite HNF. cbn [negb]. subst P. rewrite (frame_split true true bs Hne).
        assert (E1' : (length bs =? 1) = false) by (apply Nat.eqb_neq; exact E1).
        rewrite map_app, E1'. reflexivity.
    - (* report: the outcome of the packet is acted upon *)
      cbn [fwd] in *. rewrite Hc, Hv. rewrite aq_ep_step. cbn [aq_avail aq_tent aq_pend aq_held andb].
      rewrite take_map, pop_len. destruct Hbd as (Hf & _). rewrite Hf.
      cbn [n_fwd stored] in Hpe.
      assert (HN : n_fwd (trk_next (PReport bs c v) (x_rx i)) = 0)
        by (unfold trk_next, trk_start; destruct (r_valid (x_rx i) && r_next (x_rx i)); reflexivity).
      rewrite HN. cbn [Nat.ltb Nat.leb]. rewrite !andb_false_r.
      assert (HQ1 := q1_lt q (x_rdy i && negb match q with [] => true | _ => false end) Hq).
      set (q1 := if x_rdy i && negb match q with [] => true | _ => false end then tl q else q) in *.
      assert (HB : Forall (fun b => (b < 256)%N) (ph_bytes (trk_next (PReport bs c v) (x_rx i))) /\
                   (x_tgt i = true -> length (ph_bytes (trk_next (PReport bs c v) (x_rx i))) <= mps) /\
                   match trk_next (PReport bs c v) (x_rx i) with
                   | POpen bs' _ _ _ => 1 = Nat.min (length bs') (S mps)
                   | PEnded _ _ _ | PReport _ _ _ => False
                   | PIdle => True end).
      { unfold trk_next, trk_start. destruct (r_valid (x_rx i) && r_next (x_rx i)); cbn [ph_bytes length].
        - split; [repeat constructor; assumption | split; [intros _; lia | lia]].
        - split; [constructor | split; [intros _; lia | exact I]]. }
      destruct HB as (HB1 & HB2 & HB3).
      assert (HF := frame_data_lt true true bs Hby).
      destruct tgt.
      + specialize (Hx eq_refl). destruct c, v; try discriminate; cbn [orb] in Henv; apply eqb_prop in Henv; rewrite Henv;
          cbn [andb negb].
        * (* complete: commit *)
          split.
          { subst P. destruct adm; cbn [andb]; [|rewrite app_nil_r; reflexivity].
            destruct bs as [|b0 bs0]; [cbn; rewrite !app_nil_r; reflexivity|].
            cbn [length Nat.ltb Nat.leb]. rewrite map_app. reflexivity. }
          split; [reflexivity|]. split; [reflexivity|]. split; [reflexivity|].
          split; [destruct (trk_next (PReport bs true false) (x_rx i)); try exact I; try contradiction; exact HB3|].
          split; [exact HB1|].
          split; [destruct adm; [apply Forall_app; split; assumption | assumption]|].
          split; [intros _; apply HB2; exact Henv|].
          split; [destruct (trk_next (PReport bs true false) (x_rx i)); try exact I; contradiction|].
          split; [reflexivity|]. intros _ _ H0; lia.
        * (* invalid: discard *)
          split; [reflexivity|].
          split; [reflexivity|]. split; [reflexivity|]. split; [reflexivity|].
          split; [destruct (trk_next (PReport bs false true) (x_rx i)); try exact I; try contradiction; exact HB3|].
          split; [exact HB1|]. split; [exact HQ1|].
          split; [intros _; apply HB2; exact Henv|].
          split; [destruct (trk_next (PReport bs false true) (x_rx i)); try exact I; contradiction|].
          split; [reflexivity|]. intros _ _ H0; lia.
      + (* not addressed: nothing was stored, nothing is committed *)
        cbn [andb] in Hpe. subst P. cbn [andb].
        assert (HW : x_tgt i && v = false /\ x_tgt i && c = false).
        { destruct c, v; cbn [orb] in Henv; try (apply eqb_prop in Henv; rewrite Henv); rewrite ?andb_false_r; split; reflexivity. }
        destruct HW as [HW1 HW2]. rewrite HW1, HW2. cbn [app].
        split; [reflexivity|].
        split; [reflexivity|]. split; [reflexivity|]. split; [reflexivity|].
        split; [destruct (trk_next (PReport bs c v) (x_rx i)); try exact I; try contradiction; exact HB3|].
        split; [exact HB1|]. split; [exact HQ1|].
        split; [exact HB2|].
        split; [destruct (trk_next (PReport bs c v) (x_rx i)); try exact I; contradiction|].
        split; [reflexivity|]. intros _ _ H0; lia.
  Qed.

  (* the model shows the specification's outputs, and keeps the model-level environment predicate *)
  Theorem iso_refines_from : forall ins m s, R m s -> is_env_ok mps depth s ins = true ->
    map io_norm (io_run mps depth m ins) = is_run mps depth s ins.
  Proof.
    induction ins as [|i t IH]; intros m s HR HE; [reflexivity|].
    cbn [is_env_ok] in HE. apply andb_true_iff in HE as [He Ht].
    cbn [io_run is_run map]. rewrite (R_out m s HR). f_equal.
    apply IH; [apply R_step; assumption | exact Ht].
  Qed.

  Lemma io_env_from : forall ins m s, R m s -> is_env_ok mps depth s ins = true ->
    (fix ok (m : io_state) (ins : list io_in) : bool :=
       match ins with [] => true | i :: t => io_env mps m i && ok (io_next mps depth m i) t end) m ins = true.
  Proof.
    induction ins as [|i t IH]; intros m s HR HE; [reflexivity|].
    cbn [is_env_ok] in HE. apply andb_true_iff in HE as [He Ht].
    rewrite (R_env m s i HR), He. cbn [andb]. apply (IH _ (is_next mps depth s i)); [apply R_step; assumption | exact Ht].
  Qed.
End Refine.

Theorem iso_refines : forall mps depth, 1 <= mps -> forall ins,
  is_env_ok mps depth is_init ins = true ->
  map io_norm (io_run mps depth (io_init depth) ins) = is_run mps depth is_init ins.
Proof. intros mps depth H ins HE. apply (iso_refines_from mps depth H ins _ _ (R_init mps depth) HE). Qed.

(* ------------------------------------------------------------------------------------------ *)
(* Properties of the specification itself (no environment assumption needed)                   *)
Section Spec.
  Variable mps depth : nat.
  Notation next := (is_next mps depth).

  Definition popped (s : is_state) (i : io_in) : list entry :=
    match s_q s with e :: _ => if x_rdy i then [e] else [] | [] => [] end.

  Lemma is_q_step : forall s i,
    popped s i ++ s_q (next s i) = s_q s ++ flat_map (frame true true) (is_accept_now s).
  Proof.
    intros [ph tgt adm q tent] i. unfold popped, is_next, is_accept_now.
    cbn [s_ph s_tgt s_adm s_q s_tent].
    set (q1 := if x_rdy i && negb match q with [] => true | _ => false end then tl q else q).
    assert (E : (match q with e :: _ => if x_rdy i then [e] else [] | [] => [] end) ++ q1 = q).
    { unfold q1. destruct q as [|e q], (x_rdy i); reflexivity. }
    destruct ph as [|bs c v fresh|bs c v|bs c v]; cbn [fwd flat_map]; rewrite ?app_nil_r; try exact E.
    destruct (tgt && c && negb v && adm); cbn [flat_map]; rewrite ?app_nil_r; try exact E.
    rewrite app_assoc, E. reflexivity.
  Qed.

  (* delivered ++ still queued = what was queued ++ the framed payloads of the packets accepted since *)
  Theorem iso_whole_packets_from : forall ins s,
    is_delivered mps depth s ins ++ s_q (is_run_state mps depth s ins)
    = s_q s ++ flat_map (frame true true) (is_accepted mps depth s ins).
  Proof.
    induction ins as [|i t IH]; intro s; cbn [is_delivered is_run_state is_accepted flat_map].
    - rewrite app_nil_r. reflexivity.
    - fold (popped s i). rewrite <- app_assoc, IH, app_assoc, is_q_step, flat_map_app, app_assoc. reflexivity.
  Qed.

  (* good packets with their admission flag; the accepted ones are those with the flag set *)
  Definition is_goodf_now (s : is_state) : list (list N * bool) :=
    match s_ph s with
    | PReport bs c v => if s_tgt s && c && negb v then [(bs, s_adm s)] else []
    | _ => []
    end.
  Fixpoint is_goodf (s : is_state) (ins : list io_in) : list (list N * bool) :=
    match ins with
    | [] => []
    | i :: t => is_goodf_now s ++ is_goodf (next s i) t
    end.

  Theorem iso_accepted_good : forall ins s,
    is_accepted mps depth s ins = map fst (filter snd (is_goodf s ins)) /\
    is_good mps depth s ins = map fst (is_goodf s ins).
  Proof.
    induction ins as [|i t IH]; intro s; [split; reflexivity|].
    cbn [is_accepted is_good is_goodf]. rewrite filter_app, !map_app.
    destruct (IH (next s i)) as [IH1 IH2]. rewrite IH1, IH2. split; f_equal.
    - unfold is_accept_now, is_goodf_now. destruct (s_ph s); try reflexivity.
      destruct (s_tgt s && c && negb v); [|reflexivity]. cbn [andb filter snd]. destruct (s_adm s); reflexivity.
    - unfold is_good_now, is_goodf_now. destruct (s_ph s); try reflexivity.
      destruct (s_tgt s && c && negb v); reflexivity.
  Qed.

  (* with no traffic and a ready consumer, the queue is handed over entry by entry *)
  Definition idle_ready : io_in :=
    {| x_tgt := false; x_rdy := true;
       x_rx := {| r_valid := false; r_next := false; r_cin := false; r_iin := false; r_pay := 0%N |} |}.

  Theorem iso_drains : forall n s, s_ph s = PIdle ->
    is_delivered mps depth s (repeat idle_ready n) = firstn n (s_q s) /\
    s_q (is_run_state mps depth s (repeat idle_ready n)) = skipn n (s_q s).
  Proof.
    induction n as [|n IH]; intros s Hph; [split; reflexivity|].
    cbn [repeat is_delivered is_run_state].
    assert (Hn : s_ph (next s idle_ready) = PIdle /\ s_q (next s idle_ready) = tl (s_q s)).
    { unfold is_next. rewrite Hph. cbn [s_ph s_q trk_next trk_start idle_ready x_rx x_rdy r_valid andb fwd].
      split; [reflexivity|]. destruct (s_q s); reflexivity. }
    destruct Hn as [Hp Hq]. destruct (IH _ Hp) as [I1 I2]. rewrite I1, I2, Hq.
    destruct (s_q s) as [|e q]; cbn [idle_ready x_rdy tl firstn skipn app]; split; try reflexivity.
    - destruct n; reflexivity.
    - destruct n; reflexivity.
  Qed.

  (* entries handed over, read off an output trace: cycles with valid & ready *)
  Fixpoint transfers (ins : list io_in) (outs : list io_out) : list entry :=
    match ins, outs with
    | i :: ti, o :: to =>
        (if y_valid o && x_rdy i then [{| e_data := y_data o; e_first := y_first o; e_last := y_last o |}] else [])
        ++ transfers ti to
    | _, _ => []
    end.

  Lemma transfers_spec : forall ins s, transfers ins (is_run mps depth s ins) = is_delivered mps depth s ins.
  Proof.
    induction ins as [|i t IH]; intro s; [reflexivity|].
    cbn [is_run transfers is_delivered]. rewrite IH. f_equal.
    unfold is_outf. destruct (s_q s) as [|[d f l] q]; [reflexivity|]. cbn [y_valid y_data y_first y_last andb e_data e_first e_last].
    reflexivity.
  Qed.

  Lemma transfers_norm : forall ins outs, transfers ins (map io_norm outs) = transfers ins outs.
  Proof.
    induction ins as [|i t IH]; intros [|o outs]; try reflexivity.
    cbn [map transfers]. rewrite IH. f_equal. unfold io_norm. destruct (y_valid o) eqn:E; [rewrite E; reflexivity|].
    reflexivity.
  Qed.
End Spec.

(* the stream-level statement about the MODEL: what it hands to the consumer is a prefix of the concatenated
   framed payloads of the accepted packets; the rest is still queued *)
Theorem iso_model_stream : forall mps depth, 1 <= mps -> forall ins,
  is_env_ok mps depth is_init ins = true ->
  transfers ins (io_run mps depth (io_init depth) ins) ++ s_q (is_run_state mps depth is_init ins)
  = flat_map (frame true true) (is_accepted mps depth is_init ins).
Proof.
  intros mps depth H ins HE.
  rewrite <- transfers_norm, (iso_refines mps depth H ins HE), transfers_spec.
  apply (iso_whole_packets_from mps depth ins is_init).
Qed.

(* ------------------------------------------------------------------------------------------ *)
(* Packing facts for the lock-step tie                                                          *)
Definition io_wf (mps depth : nat) (m : io_state) : Prop :=
  bd_wf (m_bd m) /\ tf_wf depth 10 (m_ff m) /\ g_cnt m <= S mps.

Lemma io_wf_init : forall mps depth, io_wf mps depth (io_init depth).
Proof. intros. split; [exact bd_wf_init|]. split; [apply tf_wf_init|]. cbn. lia. Qed.

Lemma io_dec_enc : forall mps depth m, io_wf mps depth m -> io_dec mps depth (io_enc mps depth m) = m.
Proof.
  intros mps depth [bd ff a g c] (Hb & Hf & Hc). cbn [m_bd m_ff m_adm g_tgt g_cnt] in *.
  unfold io_dec, io_enc. cbn [m_bd m_ff m_adm g_tgt g_cnt]. cbv zeta.
  rewrite !land_mod, !shr_div.
  pose proof (tf_enc2_lt depth ff Hf) as Hlt.
  assert (Hc' : (N.of_nat c < 2 ^ cnt_bits mps)%N).
  { unfold cnt_bits. apply N.le_lt_trans with (N.of_nat (S mps)); [lia | apply N.size_gt]. }
  assert (Ha : forall b : bool, (b2n b < 2 ^ 1)%N) by (intros [|]; cbn; lia).
  repeat first [rewrite PackN.pk_div by first [apply Ha | assumption]
               | rewrite PackN.pk_mod by first [apply Ha | assumption]].
  rewrite !nb_b2n, Nat2N.id, tf_dec_enc2 by assumption. rewrite bd_dec2_eq, bd_dec_enc by assumption. reflexivity.
Qed.

Lemma io_in_pay : forall ep w, (r_pay (x_rx (io_in_of ep w)) < 256)%N.
Proof. intros. cbn [io_in_of x_rx r_pay]. apply (bits_lt w 10 8). Qed.

Lemma io_wf_step : forall mps depth ep m w, io_wf mps depth m -> io_wf mps depth (fst (io_mstep mps depth ep m w)).
Proof.
  intros mps depth ep m w (Hb & Hf & Hc). cbn [io_mstep fst]. unfold io_next, io_wf.
  cbn [m_bd m_ff m_adm g_tgt g_cnt]. split; [|split].
  - apply bd_wf_next; [exact Hb | apply io_in_pay].
  - apply tf_wf_next; [exact Hf|]. unfold io_fifo_in, bd_fwd.
    destruct (o_next (out (m_bd m)) && o_valid (out (m_bd m))); cbn [fi_write_data]; [|cbn; lia].
    apply enc_entry_lt. cbn [e_data]. exact (proj1 Hb).
  - destruct (fsm (m_bd m)); [lia | | exact Hc].
    destruct (r_valid (x_rx (io_in_of ep w)) && r_next (x_rx (io_in_of ep w))); lia.
Qed.

Lemma io_mrun : forall mps depth ep tr m,
  run (io_mstep mps depth ep) m tr = map (fun o => io_out_pack (io_norm o)) (io_run mps depth m (map (io_in_of ep) tr)).
Proof.
  induction tr as [|w t IH]; intro m; [reflexivity|].
  cbn [run map io_run]. unfold io_mstep at 1. rewrite IH. reflexivity.
Qed.

Lemma io_norm_idem : forall o, io_norm (io_norm o) = io_norm o.
Proof. intro o. unfold io_norm. destruct (y_valid o) eqn:E; [rewrite E; reflexivity | reflexivity]. Qed.

Lemma io_norm_data : forall o, (y_data o < 256)%N -> (y_data (io_norm o) < 256)%N.
Proof. intros o H. unfold io_norm. destruct (y_valid o); [exact H | cbn; lia]. Qed.

Lemma io_out_of_pack : forall o, (y_data o < 256)%N -> io_out_of (io_out_pack o) = o.
Proof.
  intros [v f l d] H. cbn [y_data] in H. unfold io_out_of, io_out_pack. cbn [y_valid y_first y_last y_data].
  assert (T : forall x n, N.testbit x n = N.odd (x / 2 ^ n)).
  { intros. rewrite <- N.shiftr_div_pow2. unfold N.testbit. rewrite <- N.bit0_odd, N.shiftr_spec by lia.
    rewrite N.add_0_l. reflexivity. }
  unfold bits. rewrite N.shiftr_div_pow2, N.land_ones, !T.
  change (2 ^ 0)%N with 1%N. change (2 ^ 1)%N with 2%N. change (2 ^ 2)%N with 4%N. change (2 ^ 3)%N with 8%N.
  change (2 ^ 8)%N with 256%N. rewrite N.div_1_r.
  set (x := (b2n v + 2 * b2n f + 4 * b2n l + 8 * d)%N).
  assert (E8 : (x / 8 = d)%N) by (symmetry; apply (N.div_unique x 8 d (b2n v + 2 * b2n f + 4 * b2n l));
    [destruct v, f, l; cbn [b2n]; lia | unfold x; lia]).
  assert (E4 : (x / 4 = b2n l + 2 * d)%N) by (symmetry; apply (N.div_unique x 4 _ (b2n v + 2 * b2n f));
    [destruct v, f; cbn [b2n]; lia | unfold x; lia]).
  assert (E2 : (x / 2 = b2n f + 2 * b2n l + 4 * d)%N) by (symmetry; apply (N.div_unique x 2 _ (b2n v));
    [destruct v; cbn [b2n]; lia | unfold x; lia]).
  rewrite E8, E4, E2, N.mod_small by exact H.
  assert (O : forall (b : bool) k, N.odd (b2n b + 2 * k) = b).
  { intros b k. rewrite N.odd_add_mul_2. destruct b; reflexivity. }
  unfold x. replace (b2n v + 2 * b2n f + 4 * b2n l + 8 * d)%N with (b2n v + 2 * (b2n f + 2 * b2n l + 4 * d))%N by lia.
  replace (b2n f + 2 * b2n l + 4 * d)%N with (b2n f + 2 * (b2n l + 2 * d))%N by lia.
  rewrite !O. reflexivity.
Qed.

Lemma io_menv_ok : forall mps depth ep, 1 <= mps -> forall tr,
  is_env_ok mps depth is_init (map (io_in_of ep) tr) = true ->
  env_ok io_state (io_mstep mps depth ep) (io_menv mps ep) (io_init depth) tr = true.
Proof.
  intros mps depth ep H tr. generalize (R_init mps depth). generalize (io_init depth), is_init.
  induction tr as [|w t IH]; intros m s HR HE; [reflexivity|].
  cbn [map is_env_ok] in HE. apply andb_true_iff in HE as [He Ht].
  cbn [env_ok]. unfold io_menv at 1. rewrite (R_env mps depth H m s _ HR), He. cbn [andb io_mstep fst].
  apply (IH _ (is_next mps depth s (io_in_of ep w))); [apply R_step; assumption | exact Ht].
Qed.

Lemma io_run_data : forall mps depth ins m o, In o (io_run mps depth m ins) -> (y_data o < 256)%N.
Proof.
  induction ins as [|i t IH]; intros m o H; [contradiction|].
  cbn [io_run] in H. destruct H as [<-|H]; [|exact (IH _ _ H)].
  cbn [io_outf y_data]. apply N.mod_lt. discriminate.
Qed.

(* netlist = model (the tie) composes with model = specification *)
Theorem io_packed_refines : forall mps depth ep, 1 <= mps -> forall tr,
  is_env_ok mps depth is_init (map (io_in_of ep) tr) = true ->
  map (fun w => io_norm (io_out_of w)) (run (io_mstep mps depth ep) (io_init depth) tr)
  = is_run mps depth is_init (map (io_in_of ep) tr).
Proof.
  intros mps depth ep H tr HE. rewrite io_mrun, map_map.
  rewrite <- (iso_refines mps depth H _ HE).
  apply map_ext_in. intros o Ho. rewrite io_out_of_pack; [apply io_norm_idem | apply io_norm_data; exact (io_run_data _ _ _ _ _ Ho)].
Qed.

(* ------------------------------------------------------------------------------------------ *)
(* The specification as a runtime oracle (tie.cmon): the state of is_next packed into one N.
   Bounded encodings: the open packet's bytes in mps + 2 slots (the oracle stops -- returns None --
   at a packet longer than that, addressed or not), the queue in depth + 1 slots.  No theorem
   depends on these encodings; they only serve to run is_next / is_outf over simulator traces.  *)
Open Scope N_scope.

(* a list of w-bit values in `cap` slots behind a 16-bit length; returns (value, number of bits) *)
Definition enc_list (w : N) (cap : nat) (l : list N) : N * N :=
  (PackN.pk (2 ^ 16) (N.of_nat (length l)) (pack (2 ^ w) (l ++ repeat 0 (cap - length l))), 16 + w * N.of_nat cap).
Definition dec_list (w : N) (cap : nat) (x : N) : list N :=
  firstn (N.to_nat (N.land x (N.ones 16))) (unpack2 w cap (N.shiftr x 16)).

Definition dec_entry (x : N) : entry :=
  {| e_data := N.land x (N.ones 8); e_first := N.testbit x 9; e_last := N.testbit x 8 |}.

Definition is_enc (mps depth : nat) (s : is_state) : N :=
  let '(tag, bs, c, v, fresh) :=
    match s_ph s with
    | PIdle => (0, [], false, false, false)
    | POpen bs c v fresh => (1, bs, c, v, fresh)
    | PEnded bs c v => (2, bs, c, v, false)
    | PReport bs c v => (3, bs, c, v, false)
    end in
  let '(eb, nb_) := enc_list 8 (mps + 2) bs in
  let '(eq, _) := enc_list 10 (S depth) (map enc_entry (s_q s)) in
  PackN.pk 2 (b2n (s_tent s)) (PackN.pk 2 (b2n (s_adm s)) (PackN.pk 2 (b2n (s_tgt s)) (PackN.pk 4 tag
    (PackN.pk 2 (b2n c) (PackN.pk 2 (b2n v) (PackN.pk 2 (b2n fresh) (PackN.pk (2 ^ nb_) eb eq))))))).

Definition is_dec (mps depth : nat) (x : N) : is_state :=
  let te := N.testbit x 0 in let ad := N.testbit x 1 in let tg := N.testbit x 2 in
  let tag := N.land (N.shiftr x 3) 3 in
  let c := N.testbit x 5 in let v := N.testbit x 6 in let fr := N.testbit x 7 in
  let x := N.shiftr x 8 in
  let nbits := 16 + 8 * N.of_nat (mps + 2) in
  let bs := dec_list 8 (mps + 2) (N.land x (N.ones nbits)) in let x := N.shiftr x nbits in
  let q := map dec_entry (dec_list 10 (S depth) x) in
  {| s_ph := match tag with 0 => PIdle | 1 => POpen bs c v fr | 2 => PEnded bs c v | _ => PReport bs c v end;
     s_tgt := tg; s_adm := ad; s_q := q; s_tent := te |}.

Definition is_mon0 : N := 0.

Definition is_mon (mps depth : nat) (ep : N) (m i o : N) : option (N * bool) :=
  let s := is_dec mps depth m in
  let ii := io_in_of ep i in
  let short := match s_ph s with POpen bs _ _ _ => (length bs <=? mps)%nat | _ => true end in
  if is_env mps s ii && short then
    Some (is_enc mps depth (is_next mps depth s ii),
          io_out_pack (io_norm (io_out_of o)) =? io_out_pack (is_outf s))
  else None.
