(* C28 -- hand model of luna/gateware/usb/stream.py: USBOutStreamBoundaryDetector, and the
   packet-level specification of what it must do.

   The module turns the raw receive stream (valid = a packet is active, next = a byte is presented
   this cycle, payload) into a processed stream that additionally carries first/last flags, by
   holding back one byte; completion / invalid strobes that arrive while a packet is being
   processed are held back until the packet's last byte has been output.

   The payload width is fixed to 8 bits by the code; the model keeps payloads as N and is
   parametric in everything a trace can vary: packet lengths, gaps, strobe positions. *)
From Coq Require Import NArith List Bool.
Import ListNotations.
From LunaLib Require Import Netlist Machine.
Open Scope N_scope.

(* ------------------------------------------------------------------------------------------ *)
(* Interface records (one value per clock cycle)                                               *)
Record bd_in := { i_valid : bool; i_next : bool; i_cin : bool; i_iin : bool; i_payload : N }.

Record bd_out := { o_valid : bool; o_next : bool; o_first : bool; o_last : bool;
                   o_complete : bool; o_invalid : bool; o_payload : N }.

(* ------------------------------------------------------------------------------------------ *)
(* The code-shaped model: the three FSM states and every register of the module.               *)
Inductive bd_fsm := WAIT_FOR_FIRST_BYTE | RECEIVE_AND_TRANSMIT | OUTPUT_STROBES.

Record bd_state := {
  fsm : bd_fsm;
  out : bd_out;            (* all seven outputs are registers *)
  buf : N;                 (* buffered_byte *)
  is_first : bool;         (* is_first_byte *)
  buf_c : bool;            (* buffered_complete *)
  buf_i : bool             (* buffered_invalid *)
}.

Definition out0 : bd_out :=
  {| o_valid := false; o_next := false; o_first := false; o_last := false;
     o_complete := false; o_invalid := false; o_payload := 0 |}.

Definition bd_init : bd_state :=
  {| fsm := WAIT_FOR_FIRST_BYTE; out := out0; buf := 0; is_first := false; buf_c := false; buf_i := false |}.

Definition bd_next (s : bd_state) (i : bd_in) : bd_state :=
  let o := out s in
  match fsm s with
  | WAIT_FOR_FIRST_BYTE =>
      let o' := {| o_valid := false; o_next := false; o_first := false; o_last := false;
                   o_complete := false; o_invalid := false; o_payload := o_payload o |} in
      if i_valid i && i_next i
      then {| fsm := RECEIVE_AND_TRANSMIT; out := o'; buf := i_payload i; is_first := true;
              buf_c := false; buf_i := false |}
      else {| fsm := WAIT_FOR_FIRST_BYTE; out := o'; buf := buf s; is_first := is_first s;
              buf_c := false; buf_i := false |}
  | RECEIVE_AND_TRANSMIT =>
      let c' := buf_c s || i_cin i in
      let i' := buf_i s || i_iin i in
      if negb (i_valid i) then
        (* the packet is over: emit the held-back byte as the last one *)
        {| fsm := OUTPUT_STROBES;
           out := {| o_valid := true; o_next := true; o_first := is_first s; o_last := true;
                     o_complete := o_complete o; o_invalid := o_invalid o; o_payload := buf s |};
           buf := buf s; is_first := is_first s; buf_c := c'; buf_i := i' |}
      else if i_next i then
        (* a further byte: emit the held-back byte, hold back the new one *)
        {| fsm := RECEIVE_AND_TRANSMIT;
           out := {| o_valid := true; o_next := true; o_first := is_first s; o_last := o_last o;
                     o_complete := o_complete o; o_invalid := o_invalid o; o_payload := buf s |};
           buf := i_payload i; is_first := false; buf_c := c'; buf_i := i' |}
      else
        {| fsm := RECEIVE_AND_TRANSMIT;
           out := {| o_valid := true; o_next := false; o_first := o_first o; o_last := o_last o;
                     o_complete := o_complete o; o_invalid := o_invalid o; o_payload := o_payload o |};
           buf := buf s; is_first := is_first s; buf_c := c'; buf_i := i' |}
  | OUTPUT_STROBES =>
      {| fsm := WAIT_FOR_FIRST_BYTE;
         out := {| o_valid := o_valid o; o_next := false; o_first := false; o_last := false;
                   o_complete := buf_c s; o_invalid := buf_i s; o_payload := o_payload o |};
         buf := buf s; is_first := is_first s; buf_c := buf_c s; buf_i := buf_i s |}
  end.

(* outputs of the model, cycle by cycle (index t = registers after t clock edges) *)
Fixpoint bd_run (s : bd_state) (ins : list bd_in) : list bd_out :=
  match ins with
  | [] => []
  | i :: t => out s :: bd_run (bd_next s i) t
  end.

(* ------------------------------------------------------------------------------------------ *)
(* Specification.                                                                              *)

(* What the raw receive stream means.  A packet starts with a byte (valid & next) seen while no
   packet is open, continues while valid stays high -- every cycle with next contributes a byte --
   and ends in the first cycle with valid low.  Its strobes are the complete_in / invalid_in pulses
   seen after the cycle of its first byte, up to and including the cycle in which valid falls
   (this is when USBDataPacketReceiver reports packet_complete / crc_mismatch).  A history that
   stops while a packet is open is read as if valid fell right after it. *)
Record packet := { bytes : list N; complete : bool; invalid : bool }.

Fixpoint packets_of (cur : option packet) (ins : list bd_in) : list packet :=
  match ins with
  | [] => match cur with Some p => [p] | None => [] end
  | i :: t =>
      match cur with
      | None =>
          if i_valid i && i_next i
          then packets_of (Some {| bytes := [i_payload i]; complete := false; invalid := false |}) t
          else packets_of None t
      | Some p =>
          let c := complete p || i_cin i in
          let v := invalid p || i_iin i in
          if negb (i_valid i) then {| bytes := bytes p; complete := c; invalid := v |} :: packets_of None t
          else if i_next i then packets_of (Some {| bytes := bytes p ++ [i_payload i]; complete := c; invalid := v |}) t
          else packets_of (Some {| bytes := bytes p; complete := c; invalid := v |}) t
      end
  end.

(* What is observable on the processed side: a byte (with its flags) in every cycle with
   valid & next, a strobe report in every cycle with complete_out or invalid_out.  Within one
   cycle the strobe report is listed BEFORE the byte, so "strobes only after the last byte" cannot
   be satisfied by a strobe in the same cycle as that byte. *)
Inductive event :=
| Byte (payload : N) (first last : bool)
| Strobes (complete invalid : bool).

Definition strobe_events (c v : bool) : list event := if c || v then [Strobes c v] else [].

Definition events_of (o : bd_out) : list event :=
  strobe_events (o_complete o) (o_invalid o) ++
  (if o_valid o && o_next o then [Byte (o_payload o) (o_first o) (o_last o)] else []).

Definition events (outs : list bd_out) : list event := flat_map events_of outs.

(* What a packet must look like on the processed side: its bytes in order, `first` exactly on the
   first one, `last` exactly on the final one, and then -- only then -- its strobes. *)
Fixpoint byte_events (first : bool) (l : list N) : list event :=
  match l with
  | [] => []
  | [b] => [Byte b first true]
  | b :: t => Byte b first false :: byte_events false t
  end.

Definition packet_events (p : packet) : list event :=
  byte_events true (bytes p) ++ strobe_events (complete p) (invalid p).

Definition expected (ins : list bd_in) : list event := flat_map packet_events (packets_of None ins).

(* Environment assumption: in the cycle right after the one in which a packet ended (valid low
   while a packet was open) no byte is presented.  The module spends that cycle reporting the
   strobes.  Implied by the UTMI rule that RxValid is not asserted in the cycle RxActive rises, and
   by USBDataPacketReceiver (>= 4 cycles from rx_active to the first stream byte). *)
Inductive phase := Idle | InPacket | JustEnded.

Fixpoint env_from (ph : phase) (ins : list bd_in) : bool :=
  match ins with
  | [] => true
  | i :: t =>
      match ph with
      | Idle => env_from (if i_valid i && i_next i then InPacket else Idle) t
      | InPacket => env_from (if negb (i_valid i) then JustEnded else InPacket) t
      | JustEnded => negb (i_valid i && i_next i) && env_from Idle t
      end
  end.
Definition bd_env (ins : list bd_in) : bool := env_from Idle ins.

Definition idle_in : bd_in :=
  {| i_valid := false; i_next := false; i_cin := false; i_iin := false; i_payload := 0 |}.
Definition flush : list bd_in := [idle_in; idle_in; idle_in].

(* ------------------------------------------------------------------------------------------ *)
(* Packed view (for the lock-step tie).  Port order, least significant first:
     inputs : valid, next, complete_in, invalid_in, payload[8]
     outputs: valid, next, first, last, complete_out, invalid_out, payload[8]                  *)
Definition nb (x : N) : bool := negb (N.eqb x 0).

Definition bd_in_of (w : N) : bd_in :=
  {| i_valid := nb (bits w 0 1); i_next := nb (bits w 1 1); i_cin := nb (bits w 2 1);
     i_iin := nb (bits w 3 1); i_payload := bits w 4 8 |}.

(* mixed-radix packing, least significant digit first: digit x (< B) in front of rest *)
Definition pk (B x rest : N) : N := x + B * rest.

Definition bd_out_pack (o : bd_out) : N :=
  pk 2 (b2n (o_valid o)) (pk 2 (b2n (o_next o)) (pk 2 (b2n (o_first o)) (pk 2 (b2n (o_last o))
  (pk 2 (b2n (o_complete o)) (pk 2 (b2n (o_invalid o)) (o_payload o)))))).

Definition bd_out_of (w : N) : bd_out :=
  let v := w mod 2 in let w := w / 2 in
  let n := w mod 2 in let w := w / 2 in
  let fi := w mod 2 in let w := w / 2 in
  let la := w mod 2 in let w := w / 2 in
  let co := w mod 2 in let w := w / 2 in
  let iv := w mod 2 in let w := w / 2 in
  {| o_valid := nb v; o_next := nb n; o_first := nb fi; o_last := nb la;
     o_complete := nb co; o_invalid := nb iv; o_payload := w mod 256 |}.

Definition bd_mstep (s : bd_state) (w : N) : bd_state * N := (bd_next s (bd_in_of w), bd_out_pack (out s)).

(* state packing *)
Definition fsm_code (f : bd_fsm) : N :=
  match f with WAIT_FOR_FIRST_BYTE => 0 | RECEIVE_AND_TRANSMIT => 1 | OUTPUT_STROBES => 2 end.
Definition fsm_of (n : N) : bd_fsm :=
  match n with 0 => WAIT_FOR_FIRST_BYTE | 1 => RECEIVE_AND_TRANSMIT | _ => OUTPUT_STROBES end.

Definition bd_enc (s : bd_state) : N :=
  let o := out s in
  pk 4 (fsm_code (fsm s)) (pk 2 (b2n (o_valid o)) (pk 2 (b2n (o_next o)) (pk 2 (b2n (o_first o))
  (pk 2 (b2n (o_last o)) (pk 2 (b2n (o_complete o)) (pk 2 (b2n (o_invalid o)) (pk 2 (b2n (is_first s))
  (pk 2 (b2n (buf_c s)) (pk 2 (b2n (buf_i s)) (pk 256 (o_payload o) (buf s))))))))))).

Definition bd_dec (m : N) : bd_state :=
  let f := m mod 4 in let m := m / 4 in
  let v := m mod 2 in let m := m / 2 in
  let n := m mod 2 in let m := m / 2 in
  let fi := m mod 2 in let m := m / 2 in
  let la := m mod 2 in let m := m / 2 in
  let co := m mod 2 in let m := m / 2 in
  let iv := m mod 2 in let m := m / 2 in
  let isf := m mod 2 in let m := m / 2 in
  let bc := m mod 2 in let m := m / 2 in
  let bi := m mod 2 in let m := m / 2 in
  let pl := m mod 256 in let m := m / 256 in
  {| fsm := fsm_of f;
     out := {| o_valid := nb v; o_next := nb n; o_first := nb fi; o_last := nb la;
               o_complete := nb co; o_invalid := nb iv; o_payload := pl |};
     buf := m; is_first := nb isf; buf_c := nb bc; buf_i := nb bi |}.

(* the environment assumption as a predicate on (model state, input word), for the lock-step tie:
   in the cycle the model spends reporting strobes (right after a packet ended) no byte is presented *)
Definition bd_menv (s : bd_state) (w : N) : bool :=
  match fsm s with
  | OUTPUT_STROBES => negb (i_valid (bd_in_of w) && i_next (bd_in_of w))
  | _ => true
  end.
