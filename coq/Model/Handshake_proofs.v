From Coq Require Import NArith ZArith List Bool Lia ZifyBool ZifyN.
Import ListNotations.
From LunaLib Require Import Netlist Machine.
From LunaModel Require Import Handshake.
Open Scope N_scope.
Ltac Zify.zify_post_hook ::= Z.div_mod_to_equations.

(* ================================ generator ================================================== *)
Definition gen_rel (s : gen_state) (p : option hs) : Prop :=
  match p with
  | None => g_tx s = false
  | Some h => g_tx s = true /\ g_data s = hs_byte h
  end.

Lemma gen_rel_init : gen_rel gen_init gsp_init.
Proof. reflexivity. Qed.

Lemma odd_1_2 : forall d, N.odd (1 + 2 * d) = true.
Proof. intro d. rewrite N.odd_add_mul_2. reflexivity. Qed.
Lemma odd_0_2 : forall d, N.odd (0 + 2 * d) = false.
Proof. intro d. rewrite N.odd_add_mul_2. reflexivity. Qed.

Lemma gen_rel_step : forall s p i, gen_rel s p ->
  gen_rel (fst (gen_step s i)) (fst (gsp_step p i)) /\
  gen_mask (snd (gen_step s i)) = snd (gsp_step p i).
Proof.
  intros [tx d] p i H. unfold gen_rel, gen_step, gsp_step, gen_mask in *. cbn [g_tx g_data] in *.
  destruct p as [h|].
  - destruct H as [-> ->]. cbn [fst snd b2n]. rewrite odd_1_2. split; [|reflexivity].
    destruct (g_ready i); cbn [negb g_tx g_data]; auto.
  - subst tx. cbn [fst snd b2n]. rewrite odd_0_2. split; [|reflexivity].
    unfold gen_request. destruct (g_stall i), (g_nak i), (g_ack i); cbn [orb g_tx g_data]; auto.
Qed.

Theorem gen_refines : forall tr s p, gen_rel s p ->
  map gen_mask (run gen_step s tr) = run gsp_step p tr.
Proof.
  induction tr as [|i tr IH]; intros s p H; [reflexivity|].
  destruct (gen_rel_step s p i H) as [Hn Ho].
  cbn [run]. destruct (gen_step s i) as [s' o]. destruct (gsp_step p i) as [p' o'].
  cbn [fst snd map] in *. rewrite Ho. f_equal. apply IH. exact Hn.
Qed.

Corollary gen_from_reset : forall tr, map gen_mask (run gen_step gen_init tr) = run gsp_step gsp_init tr.
Proof. intro tr. apply gen_refines. apply gen_rel_init. Qed.

(* the bytes the specification can offer are exactly the three handshake bytes of the source *)
Lemma hs_bytes : hs_byte ACK = 210 /\ hs_byte NAK = 90 /\ hs_byte STALL = 30 /\ hs_byte NYET = 150.
Proof. repeat split. Qed.

Lemma gen_dec_enc : forall s, gen_dec (gen_enc s) = s.
Proof.
  intros [tx d]. unfold gen_dec, gen_enc. cbn [g_tx g_data]. f_equal.
  - rewrite N.odd_add_mul_2. destruct tx; reflexivity.
  - destruct tx; cbn [b2n]; lia.
Qed.

(* ================================ detector =================================================== *)
Lemma d_dat_bound : forall i, d_dat i < 256.
Proof.
  intro i. unfold d_dat, bits. rewrite N.land_ones. change 256 with (2 ^ 8). apply N.mod_lt. discriminate.
Qed.

(* byte-level facts, by exhaustive evaluation over the 256 byte values *)
Definition byte_fact (b : N) : bool :=
  if valid_pid b then hs_strobe b =? pid_strobes (bits b 0 4) else hs_strobe b =? 0.
Lemma byte_facts_all : forall_bits 8 byte_fact = true.
Proof. vm_compute. reflexivity. Qed.
Lemma byte_facts : forall b, b < 256 ->
  (valid_pid b = true -> hs_strobe b = pid_strobes (bits b 0 4)) /\ (valid_pid b = false -> hs_strobe b = 0).
Proof.
  intros b Hb. pose proof (forall_bits_sound 8 byte_fact byte_facts_all b Hb) as H.
  unfold byte_fact in H. destruct (valid_pid b); split; intro E; try discriminate; apply N.eqb_eq; exact H.
Qed.

Definition irrelevant_bytes (l : list N) : Prop :=
  match l with
  | [] => False
  | [b] => b < 256 /\ valid_pid b = false
  | _ => True
  end.

Definition det_rel (s : det_state) (sp : option (list N) * N) : Prop :=
  d_out s = snd sp /\
  match d_fsm s with
  | D_IDLE => fst sp = None
  | D_READ_PID => fst sp = Some []
  | D_AWAIT => exists b, fst sp = Some [b] /\ b < 256 /\ valid_pid b = true /\ d_pid s = bits b 0 4
  | D_IRRELEVANT => exists l, fst sp = Some l /\ irrelevant_bytes l
  end.

Lemma det_rel_init : det_rel det_init dsp_init.
Proof. split; reflexivity. Qed.

Lemma irrelevant_snoc : forall l d, l <> [] -> irrelevant_bytes (l ++ [d]).
Proof. intros [|b [|c l]] d H; [congruence | exact I | exact I]. Qed.

Lemma det_rel_step : forall s sp i, det_rel s sp ->
  det_rel (fst (det_step s i)) (fst (dsp_step sp i)) /\ snd (det_step s i) = snd (dsp_step sp i).
Proof.
  intros [f pid o] [p o'] i [Ho Hf]. cbn [d_out d_fsm d_pid fst snd] in *. subst o'.
  unfold det_step, dsp_step, det_rel. cbn [d_out d_fsm d_pid fst snd].
  split; [|reflexivity].
  destruct f.
  - (* IDLE *) subst p. unfold pk_next, pk_done.
    destruct (d_act i); cbn [d_out d_fsm d_pid fst snd]; split; reflexivity.
  - (* READ_PID *) subst p. unfold pk_next, pk_done.
    destruct (d_act i); cbn [negb d_out d_fsm d_pid fst snd]; [|split; reflexivity].
    destruct (d_val i); cbn [app d_out d_fsm d_pid fst snd]; [|split; reflexivity].
    destruct (valid_pid (d_dat i)) eqn:V; cbn [d_out d_fsm d_pid fst snd]; (split; [reflexivity|]).
    + exists (d_dat i). repeat split; auto using d_dat_bound.
    + exists [d_dat i]. split; [reflexivity|]. split; auto using d_dat_bound.
  - (* AWAIT *) destruct Hf as (b & -> & Hb & V & Hp). unfold pk_next, pk_done.
    destruct (d_act i); cbn [negb d_out d_fsm d_pid fst snd].
    + destruct (d_val i); cbn [app d_out d_fsm d_pid fst snd]; (split; [reflexivity|]).
      * exists [b; d_dat i]. split; [reflexivity | exact I].
      * exists b. repeat split; auto.
    + split; [|reflexivity]. rewrite Hp. symmetry. apply byte_facts; assumption.
  - (* IRRELEVANT *) destruct Hf as (l & -> & Hl). unfold pk_next, pk_done.
    destruct (d_act i); cbn [d_out d_fsm d_pid fst snd].
    + split; [reflexivity|]. destruct (d_val i).
      * exists (l ++ [d_dat i]). split; [reflexivity|]. apply irrelevant_snoc.
        destruct l; [contradiction | discriminate].
      * exists l. split; [reflexivity | exact Hl].
    + split; [|reflexivity].
      destruct l as [|b [|c l]]; [contradiction | | reflexivity].
      destruct Hl as [Hb V]. symmetry. apply byte_facts; assumption.
Qed.

Theorem det_refines : forall tr s sp, det_rel s sp -> run det_step s tr = run dsp_step sp tr.
Proof.
  induction tr as [|i tr IH]; intros s sp H; [reflexivity|].
  destruct (det_rel_step s sp i H) as [Hn Ho].
  cbn [run]. destruct (det_step s i) as [s' o]. destruct (dsp_step sp i) as [sp' o'].
  cbn [fst snd] in *. subst o'. f_equal. apply IH. exact Hn.
Qed.

Corollary det_from_reset : forall tr, run det_step det_init tr = run dsp_step dsp_init tr.
Proof. intro tr. apply det_refines. apply det_rel_init. Qed.

(* packet-level reading of the detector specification: the non-zero strobe words, in order, are the
   handshake packets among the received packets, in order (x = any one further cycle, needed to see the
   registered strobe of a packet that completes in the last cycle of tr) *)
Definition pkt_strobe (l : list N) : N := match l with [b] => hs_strobe b | _ => 0 end.
Definition nonzero (o : N) : bool := negb (o =? 0).

Lemma dsp_events : forall tr x p o,
  filter nonzero (run dsp_step (p, o) (tr ++ [x])) = filter nonzero (o :: map pkt_strobe (packets_from p tr)).
Proof.
  induction tr as [|i tr IH]; intros x p o; [reflexivity|].
  change ((i :: tr) ++ [x]) with (i :: (tr ++ [x])). cbn [run dsp_step packets_from].
  change (filter nonzero (o :: ?a)) with (if nonzero o then o :: filter nonzero a else filter nonzero a).
  assert (E : forall a b : list N, a = b ->
            (if nonzero o then o :: a else a) = (if nonzero o then o :: b else b)) by (intros; subst; reflexivity).
  cbn [filter]. apply E. rewrite IH.
  unfold pk_done. destruct p as [l|]; [|reflexivity].
  destruct (d_act i); [reflexivity|]. cbn [map]. destruct l as [|b [|c l]]; reflexivity.
Qed.

Theorem det_events : forall tr x,
  filter nonzero (run det_step det_init (tr ++ [x]))
  = filter nonzero (map pkt_strobe (packets_from None tr)).
Proof. intros tr x. rewrite det_from_reset. unfold dsp_init. rewrite dsp_events. reflexivity. Qed.

(* a strobe word is non-zero exactly for the four well-formed handshake bytes, and is that handshake's bit *)
Lemma hs_strobe_spec : forall b, b < 256 ->
  forall h, hs_strobe b = hs_bit h <-> b = hs_byte h.
Proof.
  intros b Hb h.
  assert (F : forall_bits 8 (fun b => Bool.eqb (hs_strobe b =? 1) (b =? 210)) &&
              forall_bits 8 (fun b => Bool.eqb (hs_strobe b =? 2) (b =? 90)) &&
              forall_bits 8 (fun b => Bool.eqb (hs_strobe b =? 4) (b =? 30)) &&
              forall_bits 8 (fun b => Bool.eqb (hs_strobe b =? 8) (b =? 150)) = true)
    by (vm_compute; reflexivity).
  apply andb_true_iff in F as [F F4]. apply andb_true_iff in F as [F F3]. apply andb_true_iff in F as [F1 F2].
  pose proof (forall_bits_sound 8 _ F1 b Hb) as G1. pose proof (forall_bits_sound 8 _ F2 b Hb) as G2.
  pose proof (forall_bits_sound 8 _ F3 b Hb) as G3. pose proof (forall_bits_sound 8 _ F4 b Hb) as G4.
  cbv beta in *. apply Bool.eqb_prop in G1, G2, G3, G4.
  destruct h; cbn [hs_bit]; [change (hs_byte ACK) with 210 | change (hs_byte NAK) with 90
                             | change (hs_byte STALL) with 30 | change (hs_byte NYET) with 150]; lia.
Qed.
Lemma hs_strobe_zero : forall b, b < 256 ->
  hs_strobe b = 0 <-> (forall h, b <> hs_byte h).
Proof.
  intros b Hb. unfold hs_strobe. split.
  - intros H h E. subst b. destruct h; vm_compute in H; discriminate.
  - intro H. pose proof (H ACK). pose proof (H NAK). pose proof (H STALL). pose proof (H NYET).
    destruct (b =? hs_byte ACK) eqn:E1; [lia|]. destruct (b =? hs_byte NAK) eqn:E2; [lia|].
    destruct (b =? hs_byte STALL) eqn:E3; [lia|]. destruct (b =? hs_byte NYET) eqn:E4; [lia|]. reflexivity.
Qed.

(* packing *)
Definition det_wf (s : det_state) : Prop := d_pid s < 16.
Lemma det_dec_enc : forall s, det_wf s -> det_dec (det_enc s) = s.
Proof.
  intros [f p o] H. unfold det_wf, det_dec, det_enc in *. cbn [d_fsm d_pid d_out] in *.
  assert (E1 : (fsm_code f + 4 * (p + 16 * o)) mod 4 = fsm_code f) by (destruct f; cbn [fsm_code]; lia).
  assert (E2 : ((fsm_code f + 4 * (p + 16 * o)) / 4) mod 16 = p) by (destruct f; cbn [fsm_code]; lia).
  assert (E3 : (fsm_code f + 4 * (p + 16 * o)) / 64 = o) by (destruct f; cbn [fsm_code]; lia).
  rewrite E1, E2, E3. destruct f; reflexivity.
Qed.
Lemma bits_lt : forall x lo w, bits x lo w < 2 ^ w.
Proof. intros. unfold bits. rewrite N.land_ones. apply N.mod_lt. apply N.pow_nonzero. discriminate. Qed.
Lemma det_wf_step : forall s i, det_wf s -> det_wf (fst (det_step s i)).
Proof.
  intros [f p o] i H. unfold det_wf, det_step in *. cbn [d_fsm d_pid d_out fst] in *.
  destruct f; repeat match goal with |- context [if ?c then _ else _] => destruct c end;
    cbn [d_pid]; try exact H. change 16 with (2 ^ 4). apply bits_lt.
Qed.
Lemma det_wf_init : det_wf det_init.
Proof. unfold det_wf, det_init. cbn [d_pid]. lia. Qed.
