(* C30 / C31 -- bit-serial reference definitions of LUNA's CRCs and of the USB3 scrambler LFSR,
   and hand models of the CRC modules (register + control muxes around the kernel). *)
From Coq Require Import NArith List Bool.
Import ListNotations.
From LunaLib Require Import Netlist Bits Affine Machine.

(* polynomials, index 0 = x^0 coefficient; the x^width term is implicit *)
Definition poly_of (w : nat) (p : N) : list bool := N2bits w p.
Definition poly5  : list bool := poly_of 5  5%N.             (* x^5 + x^2 + 1            (0x05)       *)
Definition poly16 : list bool := poly_of 16 32773%N.         (* x^16 + x^15 + x^2 + 1    (0x8005)     *)
Definition poly16h : list bool := poly_of 16 4107%N.         (* x^16 + x^12 + x^3 + x + 1 (0x100B)    *)
Definition poly32 : list bool := poly_of 32 79764919%N.      (* CRC-32 (0x04C11DB7)                   *)
Definition lfsr_taps : list bool := poly_of 16 57%N.         (* x^16 + x^5 + x^4 + x^3 + 1 (0x0039)   *)

(* The standard definition: shift the message bits (transmission order) through the MSB-first
   register initialised to all ones; the transmitted CRC is the complemented, bit-reversed register. *)
Definition crc_bits (poly : list bool) (msg : list bool) : list bool :=
  crc_finish bool negb (crc_shifts bool xorb false poly (repeat true (length poly)) msg).

(* running-register update by a group of message bits (what the parallel equations implement) *)
Definition crc_update (poly : list bool) (reg msg : list bool) : list bool :=
  crc_shifts bool xorb false poly reg msg.

(* message bits of a byte / word list: least significant bit of each unit first *)
Definition bits_of_units (w : nat) (us : list N) : list bool := flat_map (N2bits w) us.

Definition crc5_usb (v11 : N) : N := bits2N (crc_bits poly5 (N2bits 11 v11)).
Definition crc16_usb (bytes : list N) : N := bits2N (crc_bits poly16 (bits_of_units 8 bytes)).
Definition crc16_hdr (words : list N) : N := bits2N (crc_bits poly16h (bits_of_units 32 words)).
Definition crc32_usb (bytes : list N) : N := bits2N (crc_bits poly32 (bits_of_units 8 bytes)).

(* LFSR: 8 shifts per scrambling byte, output bit = register MSB, LSB of each byte first *)
Definition lfsr_bits (k : nat) (reg : list bool) : list bool * list bool :=
  lfsr_run bool xorb false lfsr_taps k (reg, []).

(* ---- module models: state = running register as a bit list -------------------------------- *)
(* generic "CRC register" step: clear has priority, then the first asserted advance source *)
Section CrcModule.
  Variable w : nat.
  Variable poly : list bool.
  Definition reg_init : list bool := repeat true w.
  Definition crc_out (reg : list bool) : N := bits2N (crc_finish bool negb reg).
  (* advance sources: list of (enable, message bits) in priority order *)
  Fixpoint crc_reg_next (reg : list bool) (srcs : list (bool * list bool)) : list bool :=
    match srcs with
    | [] => reg
    | (en, msg) :: t => if en then crc_update poly reg msg else crc_reg_next reg t
    end.
End CrcModule.

(* USB2 USBDataPacketCRC: inputs start(1) rx_data(8) rx_valid(1) tx_data(8) tx_valid(1); output crc(16) *)
Definition crc16mod_step (reg : list bool) (i : N) : list bool * N :=
  let start := N.odd (bits i 0 1) in
  let rx_data := bits i 1 8 in let rx_valid := N.odd (bits i 9 1) in
  let tx_data := bits i 10 8 in let tx_valid := N.odd (bits i 18 1) in
  (if start then reg_init 16
   else crc_reg_next poly16 reg [(rx_valid, N2bits 8 rx_data); (tx_valid, N2bits 8 tx_data)],
   crc_out reg).

(* USB3 HeaderPacketCRC: inputs clear(1) data_input(32) advance_crc(1); output crc(16) *)
Definition crc16hmod_step (reg : list bool) (i : N) : list bool * N :=
  let clear := N.odd (bits i 0 1) in
  let data := bits i 1 32 in let adv := N.odd (bits i 33 1) in
  (if clear then reg_init 16 else crc_reg_next poly16h reg [(adv, N2bits 32 data)], crc_out reg).

(* USB3 DataPacketPayloadCRC: inputs clear(1) data_input(32) advance_word/3B/2B/1B(1 each);
   outputs crc, next_crc_3B, next_crc_2B, next_crc_1B (32 each) *)
Definition crc32mod_step (reg : list bool) (i : N) : list bool * N :=
  let clear := N.odd (bits i 0 1) in
  let data := bits i 1 32 in
  let aw := N.odd (bits i 33 1) in let a3 := N.odd (bits i 34 1) in
  let a2 := N.odd (bits i 35 1) in let a1 := N.odd (bits i 36 1) in
  let n3 := crc_update poly32 reg (N2bits 24 data) in
  let n2 := crc_update poly32 reg (N2bits 16 data) in
  let n1 := crc_update poly32 reg (N2bits 8 data) in
  (if clear then reg_init 32
   else crc_reg_next poly32 reg [(aw, N2bits 32 data); (a3, N2bits 24 data); (a2, N2bits 16 data); (a1, N2bits 8 data)],
   (crc_out reg + N.shiftl (crc_out n3) 32 + N.shiftl (crc_out n2) 64 + N.shiftl (crc_out n1) 96)%N).
