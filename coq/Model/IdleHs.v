(* C44 (part 1) -- hand model of luna/gateware/usb/usb3/link/idle.py: IdleHandshakeHandler, parametric
   in n = RX_CYCLES_REQUIRED (4 in LUNA: 4 cycles x 4 symbols = the 16 symbols that must be sent).

   Input word (38 bits): [0] enable  [1] sink.valid  [2..33] sink.data  [34..37] sink.ctrl
   Output word:          [0] idle_detected  [1] idle_handshake_complete

   The model is the PROPERTY-SATISFYING behaviour: a word counts as logical idle only when it is
   VALID (data = 0, ctrl = 0 and sink.valid).  The code in /repo ignores sink.valid (and treats
   the all-zero reset value of its capture register as a received idle word); see
   findings/C44-idle-valid.*                                                                   *)
From Coq Require Import NArith List Bool.
Import ListNotations.
From LunaLib Require Import Netlist Machine.
Open Scope N_scope.

Definition i_enable (i : N) : bool := N.testbit i 0.
Definition i_valid (i : N) : bool := N.testbit i 1.
Definition i_data (i : N) : N := bits i 2 32.
Definition i_ctrl (i : N) : N := bits i 34 4.

(* four valid logical-idle symbols: a valid word of data symbols (ctrl = 0) that are all 0x00 *)
Definition idle_word (valid : bool) (data ctrl : N) : bool := valid && (data =? 0) && (ctrl =? 0).
Definition is_idle (i : N) : bool := idle_word (i_valid i) (i_data i) (i_ctrl i).

Definition o_detected (o : N) : bool := N.testbit o 0.
Definition o_complete (o : N) : bool := N.testbit o 1.

(* ---- code-shaped machine: capture of the previous word, seen_idle, saturating enable counter ---- *)
Record ih_state := { lv : bool; lw : N; lc : N; seen : bool; cnt : N }.
Definition ih_init : ih_state := {| lv := false; lw := 0; lc := 0; seen := false; cnt := 0 |}.

Section IdleHs.
  Variable n : N.

  Definition ih_detected (st : ih_state) (i : N) : bool :=
    idle_word (lv st) (lw st) (lc st) && is_idle i.

  Definition ih_next (st : ih_state) (i : N) : ih_state :=
    {| lv := i_valid i; lw := i_data i; lc := i_ctrl i;
       seen := if i_enable i then seen st || ih_detected st i else false;
       cnt := if i_enable i then (if cnt st <? n then cnt st + 1 else cnt st) else 0 |}.

  Definition ih_out (st : ih_state) (i : N) : N :=
    b2n (ih_detected st i) + 2 * b2n (i_enable i && (seen st && (cnt st =? n))).

  Definition ih_step (st : ih_state) (i : N) : ih_state * N := (ih_next st i, ih_out st i).

  (* ---- specification over the history (hist = earlier input words, most recent first) ---- *)
  (* number of most recent consecutive cycles with enable = 1 *)
  Fixpoint en_run (hist : list N) : nat :=
    match hist with
    | j :: t => if i_enable j then S (en_run t) else O
    | [] => O
    end.
  Definition prev_idle (hist : list N) : bool :=
    match hist with j :: _ => is_idle j | [] => false end.
  (* some cycle of the current enable run ended two consecutive valid idle words
     (lemma seen_spec_iff gives the same with an explicit "exists") *)
  Fixpoint seen_spec (hist : list N) : bool :=
    match hist with
    | j :: t => i_enable j && (seen_spec t || (is_idle j && prev_idle t))
    | [] => false
    end.

  Definition spec_out (hist : list N) (i : N) : N :=
    b2n (prev_idle hist && is_idle i) +
    2 * b2n (i_enable i && (seen_spec hist && (n <=? N.of_nat (en_run hist)))).

  Fixpoint spec_trace (hist : list N) (ins : list N) : list N :=
    match ins with
    | [] => []
    | i :: t => spec_out hist i :: spec_trace (i :: hist) t
    end.
End IdleHs.

(* ---- packing of the model state for the tie: cnt (3 bits), seen, lv, lc (4), lw ---- *)
Definition ih_enc (st : ih_state) : N :=
  cnt st + 8 * (b2n (seen st) + 2 * (b2n (lv st) + 2 * (lc st + 16 * lw st))).
Definition ih_dec (m : N) : ih_state :=
  {| cnt := m mod 8; seen := N.odd (m / 8); lv := N.odd (m / 16); lc := (m / 32) mod 16; lw := m / 512 |}.
Definition ih_wf (st : ih_state) : Prop := cnt st < 8 /\ lc st < 16.

(* ---- representative input words for the tie: enable x valid x (data, ctrl) drawn from: the idle
   word, all-ones, each single data bit set, each single ctrl bit set ---- *)
Definition mk_in (enable valid : bool) (data ctrl : N) : N :=
  b2n enable + 2 * b2n valid + 4 * data + N.shiftl ctrl 34.
Definition ih_words : list (N * N) :=
  [(0, 0); (4294967295, 15); (4294967295, 0); (0, 15)]
  ++ map (fun k => (N.shiftl 1 (N.of_nat k), 0)) (seq 0 32)
  ++ map (fun k => (0, N.shiftl 1 (N.of_nat k))) (seq 0 4).
Definition ih_alpha : list N :=
  flat_map (fun w => [mk_in false false (fst w) (snd w); mk_in false true (fst w) (snd w);
                      mk_in true false (fst w) (snd w); mk_in true true (fst w) (snd w)]) ih_words.
