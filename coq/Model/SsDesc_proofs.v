(* C48 (part 2) -- proofs about Model/SsDesc.v: the words handed over on tx during a GET_DESCRIPTOR request are
   exactly the beats of C27's `answer`, with tx_length = min(wLength, len); unknown keys stall. *)
From Coq Require Import NArith ZArith List Bool Lia Arith.
Import ListNotations.
From LunaLib Require Import Netlist Machine PackN SsWords.
From LunaModel Require Import ConstGen ConstGen_proofs SsDesc.
Open Scope N_scope.

(* ---------------------------------------------------------------------------------------------- *)
(* facts about the answer of a SuperSpeed generator configuration *)
Definition beat_ok (b : beat) : Prop := 1 <= b_bytes b /\ b_bytes b <= 4 /\ b_payload b < 2 ^ 32.

Lemma hd_cfg_ok_facts : forall c, hd_cfg_ok c = true ->
  cfg_okb c = true /\ c_hasml c = true /\ c_bpw c = 4 /\ c_vw c = 4 /\ c_mlw c = 16 /\ c_dw c = 32 /\
  Forall (fun w => w < 2 ^ 32) (c_words c).
Proof.
  intros c H. unfold hd_cfg_ok in H.
  apply andb_true_iff in H as [H H6]. apply andb_true_iff in H as [H H5]. apply andb_true_iff in H as [H H4].
  apply andb_true_iff in H as [H H3]. apply andb_true_iff in H as [H H2]. apply andb_true_iff in H as [H H1].
  repeat split; try assumption; try (apply N.eqb_eq; assumption).
  apply Forall_forall. intros w Hw. rewrite forallb_forall in H6. apply N.ltb_lt. exact (H6 w Hw).
Qed.

Lemma Forall_firstn : forall (A : Type) (P : A -> Prop) n l, Forall P l -> Forall P (firstn n l).
Proof. intros A P n. induction n; intros [|a l] H; cbn; try constructor; inversion H; subst; auto. Qed.
Lemma Forall_skipn : forall (A : Type) (P : A -> Prop) n l, Forall P l -> Forall P (skipn n l).
Proof. intros A P n. induction n; intros [|a l] H; cbn; try constructor; try assumption; inversion H; subst; auto. Qed.

Lemma answer_ok : forall c, hd_cfg_ok c = true -> forall ml, 0 < ml -> Forall beat_ok (answer c 0 ml) /\ answer c 0 ml <> [].
Proof.
  intros c Hc ml Hml. destruct (hd_cfg_ok_facts c Hc) as (Hk & _ & Hb & _ & _ & _ & Hw).
  destruct (cfg_facts c Hk) as (HL1 & _).
  destruct (answer_spec c Hk 0 ml ltac:(lia) Hml) as (Hp & _ & (init & fin & E & Hi & _ & H1 & H2) & _).
  split.
  - assert (Hpay : Forall (fun x => x < 2 ^ 32) (map b_payload (answer c 0 ml))).
    { rewrite Hp. apply Forall_firstn. apply Forall_skipn. exact Hw. }
    rewrite Forall_map in Hpay.
    assert (Hby : Forall (fun b => 1 <= b_bytes b /\ b_bytes b <= 4) (answer c 0 ml)).
    { rewrite E. apply Forall_app. split.
      - eapply Forall_impl; [|exact Hi]. intros b [_ Hb4]. rewrite Hb4, Hb. lia.
      - constructor; [|constructor]. rewrite Hb in H2. lia. }
    rewrite Forall_forall in *. intros b Hin. destruct (Hby b Hin). repeat split; auto.
  - rewrite E. destruct init; discriminate.
Qed.

Lemma ones_pos : forall k, 1 <= k -> k <= 4 -> 1 <= N.ones k /\ N.ones k < 16.
Proof.
  intros k H1 H4. assert (K : k = 1 \/ k = 2 \/ k = 3 \/ k = 4) by lia.
  destruct K as [-> | [-> | [-> | ->]]]; cbn; lia.
Qed.

Lemma wire_of_ok : forall c b, c_vw c = 4 -> beat_ok b ->
  let '(v, f, l, p) := wire_of c b in 1 <= v /\ v < 16 /\ p < 2 ^ 32.
Proof.
  intros c b Hv (H1 & H4 & Hp). unfold wire_of, vmask. rewrite Hv. change (4 =? 1) with false. cbv iota.
  destruct (ones_pos _ H1 H4). repeat split; assumption.
Qed.

(* ---------------------------------------------------------------------------------------------- *)
(* field extraction from the packed output word *)
Ltac Zify.zify_post_hook ::= Z.div_mod_to_equations.
Lemma hd_unpack : forall v (f l : bool) p len (stall : bool), v < 16 -> p < 2 ^ 32 -> len < 2 ^ 16 ->
  let o := hd_pack_out (v, f, l, p) len stall in
  hd_ovalid o = v /\ hd_owire o = (v, f, l, p) /\ hd_olen o = len /\ hd_ostall o = stall.
Proof.
  intros v f l p len stall Hv Hp Hl o. subst o.
  unfold hd_ovalid, hd_owire, hd_olen, hd_ostall, hd_pack_out, bits.
  rewrite !N.shiftl_mul_pow2, !N.land_ones, !N.shiftr_div_pow2.
  change (2 ^ 32) with 4294967296 in *. change (2 ^ 16) with 65536 in *. change (2 ^ 38) with 274877906944.
  change (2 ^ 54) with 18014398509481984. change (2 ^ 0) with 1. change (2 ^ 4) with 16. change (2 ^ 5) with 32.
  change (2 ^ 6) with 64. change (2 ^ 1) with 2.
  assert (Hodd : forall x (b : bool), x = b2n b -> N.odd x = b) by (intros x b ->; destruct b; reflexivity).
  split; [|split; [|split]].
  - destruct f, l, stall; cbn [b2n]; lia.
  - f_equal; [f_equal; [f_equal|]|].
    + destruct f, l, stall; cbn [b2n]; lia.
    + apply Hodd. destruct f, l, stall; cbn [b2n]; lia.
    + apply Hodd. destruct f, l, stall; cbn [b2n]; lia.
    + destruct f, l, stall; cbn [b2n]; lia.
  - destruct f, l, stall; cbn [b2n]; lia.
  - apply Hodd. destruct f, l, stall; cbn [b2n]; lia.
Qed.

Lemma hd_in_fields : forall v len (s r : bool), v < 2 ^ 16 -> len < 2 ^ 16 ->
  let i := hd_in v len s r in hd_value i = v /\ hd_length i = len /\ hd_start i = s /\ hd_ready i = r.
Proof.
  intros v len s r Hv Hl i. subst i. unfold hd_value, hd_length, hd_start, hd_ready, hd_in, bits.
  rewrite !N.shiftl_mul_pow2, !N.land_ones, !N.shiftr_div_pow2.
  change (2 ^ 16) with 65536 in *. change (2 ^ 32) with 4294967296. change (2 ^ 33) with 8589934592.
  change (2 ^ 0) with 1. change (2 ^ 1) with 2.
  assert (Hodd : forall x (b : bool), x = b2n b -> N.odd x = b) by (intros x b ->; destruct b; reflexivity).
  repeat split; try (destruct s, r; cbn [b2n]; lia); apply Hodd; destruct s, r; cbn [b2n]; lia.
Qed.

(* ---------------------------------------------------------------------------------------------- *)
(* with `value` fixed, the handler's behaviour is that of the selected generator and the register *)
Fixpoint sel_gen (ds : list (N * cg_cfg)) (gs : list q_st) (v : N) : option (cg_cfg * q_st) :=
  match ds, gs with
  | (k, c) :: ds', g :: gs' => if v =? k then Some (c, g) else sel_gen ds' gs' v
  | _, _ => None
  end.

Lemma hd_gens_sel : forall ds gs v len start le,
  snd (hd_gens ds gs v len start le) =
  match sel_gen ds gs v with Some (c, g) => Some (q_wire c g, q_olen c g) | None => None end /\
  sel_gen ds (fst (hd_gens ds gs v len start le)) v =
  match sel_gen ds gs v with Some (c, g) => Some (c, q_next c g start len le) | None => None end.
Proof.
  induction ds as [|[k c] ds IH]; intros gs v len start le; [split; reflexivity|].
  destruct gs as [|g gs]; [split; reflexivity|].
  cbn [hd_gens sel_gen]. specialize (IH gs v len start le).
  destruct (hd_gens ds gs v len start le) as [gs'' sel]. cbn [fst snd] in *.
  cbn [sel_gen]. destruct (v =? k); [split; reflexivity | exact IH].
Qed.

Lemma nth_error_skipn : forall (A : Type) (l : list A) n b, nth_error l n = Some b -> skipn n l = b :: skipn (S n) l.
Proof. induction l as [|a l IH]; intros [|n] b H; cbn in *; try discriminate; [inversion H; reflexivity | apply IH; exact H]. Qed.
Lemma skipn_all_ge : forall (A : Type) (l : list A) n, (length l <= n)%nat -> skipn n l = [].
Proof. induction l as [|a l IH]; intros [|n] H; cbn in *; try reflexivity; try lia. apply IH. lia. Qed.

Definition gen_part (c : cg_cfg) (g : q_st) : list (wire * N) :=
  match q_k g with
  | QSend => map (fun b => (wire_of c b, olen_of c (q_ml g))) (skipn (q_pos g) (answer c 0 (q_ml g)))
  | _ => []
  end.
Definition reg_part (w : wire) (len : N) : list (wire * N) := if wire_valid w =? 0 then [] else [(w, len)].
Definition reg_ok (w : wire) (len : N) : Prop := let '(v, f, l, p) := w in v < 16 /\ p < 2 ^ 32 /\ len < 2 ^ 16.
Definition gen_ok (c : cg_cfg) (g : q_st) : Prop :=
  match q_k g with QSend => 0 < q_ml g /\ (q_pos g < length (answer c 0 (q_ml g)))%nat | _ => True end.

Lemma olen_lt : forall c ml, c_hasml c = true -> c_mlw c = 16 -> olen_of c ml < 2 ^ 16.
Proof. intros c ml H1 H2. unfold olen_of. rewrite H1, H2. apply trunc_lt. Qed.

(* one cycle without `start`: what is handed over plus what remains is what remained before *)
Lemma hd_cycle : forall c g w lr len (ready : bool), hd_cfg_ok c = true -> gen_ok c g -> reg_ok w lr ->
  let le := (wire_valid w =? 0) || ready in
  let g' := q_next c g false len le in
  let w' := if le then q_wire c g else w in
  let lr' := if le then q_olen c g else lr in
  (if negb (wire_valid w =? 0) && ready then [(w, lr)] else []) ++ (reg_part w' lr' ++ gen_part c g')
    = reg_part w lr ++ gen_part c g /\ gen_ok c g' /\ reg_ok w' lr'.
Proof.
  intros c g w lr len ready Hc Hg Hr le g' w' lr'.
  destruct (hd_cfg_ok_facts c Hc) as (Hk & Hml & Hb & Hv & Hmw & _ & _).
  destruct g as [k ml pos]. unfold gen_ok in Hg. cbn [q_k q_ml q_pos] in Hg.
  subst le g' w' lr'. unfold reg_part at 2.
  destruct (wire_valid w =? 0) eqn:Ev; cbn [negb andb orb app].
  - (* register empty: load *)
    destruct k; unfold q_next, q_wire, q_olen, gen_part, gen_ok, reg_part; cbn [q_k q_ml q_pos andb].
    + cbn. split; [reflexivity|]. split; [exact I|]. repeat split; try lia. apply olen_lt; assumption.
    + destruct Hg as [Hm Hp]. unfold q_answer. cbn [q_ml].
      destruct (nth_error (answer c 0 ml) pos) as [b|] eqn:En; [|apply nth_error_None in En; lia].
      destruct (answer_ok c Hc ml Hm) as [Hall _]. rewrite Forall_forall in Hall.
      pose proof (wire_of_ok c b Hv (Hall b (nth_error_In _ _ En))) as Hw.
      destruct (wire_of c b) as [[[v f] l] p] eqn:Ew. destruct Hw as (Hv1 & Hv2 & Hp2).
      unfold wire_valid. cbn [fst]. assert (Ev0 : (v =? 0) = false) by lia. rewrite Ev0.
      rewrite (nth_error_skipn _ _ _ _ En). cbn [map]. rewrite Ew.
      destruct (Nat.ltb (S pos) (length (answer c 0 ml))) eqn:El; cbn [q_k q_ml q_pos].
      * split; [reflexivity|]. apply Nat.ltb_lt in El. split; [split; assumption|].
        repeat split; try assumption. apply olen_lt; assumption.
      * apply Nat.ltb_ge in El. rewrite (skipn_all_ge _ _ _ El). cbn [map].
        split; [reflexivity|]. split; [exact I|]. repeat split; try assumption. apply olen_lt; assumption.
    + cbn. split; [reflexivity|]. split; [exact I|]. repeat split; try lia. apply olen_lt; assumption.
  - destruct ready; cbn [negb andb orb app].
    + (* handed over and reloaded *)
      destruct k; unfold q_next, q_wire, q_olen, gen_part, gen_ok, reg_part; cbn [q_k q_ml q_pos andb].
      * cbn. split; [reflexivity|]. split; [exact I|]. repeat split; try lia. apply olen_lt; assumption.
      * destruct Hg as [Hm Hp]. unfold q_answer. cbn [q_ml].
        destruct (nth_error (answer c 0 ml) pos) as [b|] eqn:En; [|apply nth_error_None in En; lia].
        destruct (answer_ok c Hc ml Hm) as [Hall _]. rewrite Forall_forall in Hall.
        pose proof (wire_of_ok c b Hv (Hall b (nth_error_In _ _ En))) as Hw.
        destruct (wire_of c b) as [[[v f] l] p] eqn:Ew. destruct Hw as (Hv1 & Hv2 & Hp2).
        unfold wire_valid at 1. cbn [fst]. assert (Ev0 : (v =? 0) = false) by lia. rewrite Ev0.
        rewrite (nth_error_skipn _ _ _ _ En). cbn [map]. rewrite Ew.
        destruct (Nat.ltb (S pos) (length (answer c 0 ml))) eqn:El; cbn [q_k q_ml q_pos].
        -- split; [reflexivity|]. apply Nat.ltb_lt in El. split; [split; assumption|].
           repeat split; try assumption. apply olen_lt; assumption.
        -- apply Nat.ltb_ge in El. rewrite (skipn_all_ge _ _ _ El). cbn [map].
           split; [reflexivity|]. split; [exact I|]. repeat split; try assumption. apply olen_lt; assumption.
      * cbn. split; [reflexivity|]. split; [exact I|]. repeat split; try lia. apply olen_lt; assumption.
    + (* stalled: nothing moves *)
      unfold reg_part. rewrite Ev.
      destruct k; unfold q_next, gen_part, gen_ok; cbn [q_k q_ml q_pos andb]; (split; [reflexivity|]; split; [assumption || exact I | exact Hr]).
Qed.

(* ---------------------------------------------------------------------------------------------- *)
Fixpoint sel_cfg (ds : list (N * cg_cfg)) (v : N) : option cg_cfg :=
  match ds with (k, c) :: t => if v =? k then Some c else sel_cfg t v | [] => None end.

Lemma sel_gen_init : forall ds v,
  sel_gen ds (map (fun _ => q_init) ds) v = match sel_cfg ds v with Some c => Some (c, q_init) | None => None end.
Proof. induction ds as [|[k c] ds IH]; intro v; [reflexivity|]. cbn [map sel_gen sel_cfg]. destruct (v =? k); [reflexivity | apply IH]. Qed.

Lemma sel_gen_none : forall ds gs v, sel_cfg ds v = None -> sel_gen ds gs v = None.
Proof.
  induction ds as [|[k c] ds IH]; intros gs v H; [reflexivity|]. destruct gs as [|g gs]; [reflexivity|].
  cbn [sel_gen sel_cfg] in *. destruct (v =? k); [discriminate | apply IH; exact H].
Qed.

Lemma hd_known_none : forall ds v, sel_cfg ds v = None -> hd_known ds v = false.
Proof.
  induction ds as [|[k c] ds IH]; intros v H; [reflexivity|]. unfold hd_known in *. cbn [existsb fst sel_cfg] in *.
  destruct (v =? k); [discriminate | apply IH; exact H].
Qed.

Section HandlerThm.
  Variable descs : list (N * cg_cfg).
  Notation step := (hd_step descs).

  Definition remaining (v : N) (st : hd_st) : list (wire * N) :=
    match sel_gen descs (h_gens st) v with
    | Some (c, g) => reg_part (h_w st) (h_len st) ++ gen_part c g
    | None => []
    end.

  Definition hd_inv (v : N) (c : cg_cfg) (st : hd_st) : Prop :=
    exists g, sel_gen descs (h_gens st) v = Some (c, g) /\ gen_ok c g /\ reg_ok (h_w st) (h_len st).

  Lemma hd_step_out : forall st i,
    snd (step st i) = hd_pack_out (h_w st) (h_len st) (negb (hd_known descs (hd_value i)) && hd_start i).
  Proof. intros. unfold hd_step. destruct (hd_gens _ _ _ _ _ _). reflexivity. Qed.

  Lemma hd_step_view : forall st i,
    let le := (wire_valid (h_w st) =? 0) || hd_ready i in
    let st' := fst (step st i) in
    match sel_gen descs (h_gens st) (hd_value i) with
    | Some (c, g) =>
        sel_gen descs (h_gens st') (hd_value i) = Some (c, q_next c g (hd_start i) (hd_length i) le) /\
        h_w st' = (if le then q_wire c g else h_w st) /\ h_len st' = (if le then q_olen c g else h_len st)
    | None => sel_gen descs (h_gens st') (hd_value i) = None /\ h_w st' = h_w st /\ h_len st' = h_len st
    end.
  Proof.
    intros st i le st'. subst st'. unfold hd_step. fold le.
    destruct (hd_gens_sel descs (h_gens st) (hd_value i) (hd_length i) (hd_start i) le) as [H1 H2].
    destruct (hd_gens descs (h_gens st) (hd_value i) (hd_length i) (hd_start i) le) as [gs' sel].
    cbn [fst snd h_gens h_w h_len] in *.
    destruct (sel_gen descs (h_gens st) (hd_value i)) as [[c g]|]; subst sel; repeat split; assumption.
  Qed.

  Lemma run_cons : forall st i t, run step st (i :: t) = snd (step st i) :: run step (fst (step st i)) t.
  Proof. intros. cbn [run]. destruct (step st i). reflexivity. Qed.

  Lemma out_fields : forall st i, reg_ok (h_w st) (h_len st) ->
    let o := snd (step st i) in
    hd_ovalid o = wire_valid (h_w st) /\ hd_owire o = h_w st /\ hd_olen o = h_len st /\
    hd_ostall o = negb (hd_known descs (hd_value i)) && hd_start i.
  Proof.
    intros st i Hr. rewrite hd_step_out. destruct (h_w st) as [[[v f] l] p]. destruct Hr as (Hv & Hp & Hl).
    destruct (hd_unpack v f l p (h_len st) (negb (hd_known descs (hd_value i)) && hd_start i) Hv Hp Hl) as (A & B & C & D).
    cbv zeta. rewrite A, B, C, D. repeat split; reflexivity.
  Qed.

  (* the phase after the start cycle: value and length held, no further start *)
  Lemma hd_nostart : forall v ml c, v < 2 ^ 16 -> ml < 2 ^ 16 -> hd_cfg_ok c = true -> forall readys st,
    hd_inv v c st ->
    let tr := map (hd_in v ml false) readys in
    hd_xfers tr (run step st tr) ++ remaining v (run_state step st tr) = remaining v st /\
    hd_inv v c (run_state step st tr).
  Proof.
    intros v ml c Hv Hm Hc. induction readys as [|r t IH]; intros st (g & Hs & Hg & Hr).
    - cbn. split; [reflexivity | exists g; repeat split; assumption].
    - cbn [map]. rewrite run_cons. cbn [run_state hd_xfers].
      destruct (hd_in_fields v ml false r Hv Hm) as (F1 & F2 & F3 & F4).
      set (i := hd_in v ml false r) in *.
      destruct (out_fields st i Hr) as (O1 & O2 & O3 & _). rewrite O1, O2, O3, F4.
      pose proof (hd_step_view st i) as V. cbv zeta in V. rewrite F1, F2, F3, F4 in V. rewrite Hs in V.
      destruct V as (V1 & V2 & V3).
      destruct (hd_cycle c g (h_w st) (h_len st) ml r Hc Hg Hr) as (C1 & C2 & C3). cbv zeta in C1, C2, C3.
      assert (Hinv' : hd_inv v c (fst (step st i))).
      { eexists. split; [exact V1|]. rewrite V2, V3. split; assumption. }
      destruct (IH (fst (step st i)) Hinv') as [I1 I2]. cbv zeta in I1, I2.
      split; [|exact I2].
      rewrite <- app_assoc. rewrite I1. unfold remaining at 1. rewrite V1, V2, V3.
      unfold remaining. rewrite Hs. exact C1.
  Qed.

  (* GET_DESCRIPTOR for a known (type, index) with 0 < wLength: the words handed over on tx, followed by what
     is still queued (tx register + rest of the generator's answer), are exactly the expected answer *)
  Theorem hd_request_stream : forall v ml c g0 st r0 readys, v < 2 ^ 16 -> 0 < ml -> ml < 2 ^ 16 ->
    hd_cfg_ok c = true -> sel_gen descs (h_gens st) v = Some (c, g0) -> q_k g0 = QIdle ->
    wire_valid (h_w st) = 0 -> reg_ok (h_w st) (h_len st) ->
    let tr := hd_request v ml r0 readys in
    hd_xfers tr (run step st tr) ++ remaining v (run_state step st tr) = hd_expected c ml.
  Proof.
    intros v ml c g0 st r0 readys Hv Hm0 Hm Hc Hs Hk Hw Hr tr. subst tr. unfold hd_request.
    rewrite run_cons. cbn [run_state hd_xfers].
    destruct (hd_in_fields v ml true r0 Hv Hm) as (F1 & F2 & F3 & F4).
    set (i := hd_in v ml true r0) in *.
    destruct (out_fields st i Hr) as (O1 & _). rewrite O1, Hw. cbn [N.eqb negb andb app].
    pose proof (hd_step_view st i) as V. cbv zeta in V. rewrite F1, F2, F3, F4, Hs, Hw in V.
    cbn [N.eqb orb] in V. destruct V as (V1 & V2 & V3).
    destruct (hd_cfg_ok_facts c Hc) as (_ & Hml & _ & _ & Hmw & _ & _).
    destruct (answer_ok c Hc ml Hm0) as [_ Hne].
    assert (Hg1 : q_next c g0 true ml true = {| q_k := QSend; q_ml := ml; q_pos := 0 |}).
    { unfold q_next. rewrite Hk. assert (E : (0 <? ml) = true) by lia. rewrite E. reflexivity. }
    rewrite Hg1 in V1.
    assert (Hw1 : q_wire c g0 = wire_none) by (unfold q_wire; rewrite Hk; reflexivity).
    assert (Hinv' : hd_inv v c (fst (step st i))).
    { eexists. split; [exact V1|]. split.
      - unfold gen_ok. cbn [q_k q_ml q_pos]. split; [exact Hm0|]. destruct (answer c 0 ml); [congruence | cbn; lia].
      - rewrite V2, V3, Hw1. cbn. repeat split; try lia. apply olen_lt; assumption. }
    destruct (hd_nostart v ml c Hv Hm Hc readys (fst (step st i)) Hinv') as [I1 _]. cbv zeta in I1.
    rewrite I1. unfold remaining. rewrite V1, V2, Hw1. unfold reg_part, gen_part, hd_expected.
    cbn [wire_valid wire_none fst N.eqb app q_k q_ml q_pos skipn]. reflexivity.
  Qed.

  (* from reset *)
  Corollary hd_request_from_reset : forall v ml c r0 readys, v < 2 ^ 16 -> 0 < ml -> ml < 2 ^ 16 ->
    sel_cfg descs v = Some c -> hd_cfg_ok c = true ->
    let tr := hd_request v ml r0 readys in
    hd_xfers tr (run step (hd_init descs) tr) ++ remaining v (run_state step (hd_init descs) tr) = hd_expected c ml.
  Proof.
    intros v ml c r0 readys Hv Hm0 Hm Hs Hc. apply (hd_request_stream v ml c q_init); try assumption; try reflexivity.
    - unfold hd_init. cbn [h_gens]. rewrite sel_gen_init, Hs. reflexivity.
    - cbn. repeat split; lia.
  Qed.

  (* wLength = 0: nothing is sent *)
  Theorem hd_zero_length : forall v c g0 st r0 readys, v < 2 ^ 16 -> hd_cfg_ok c = true ->
    sel_gen descs (h_gens st) v = Some (c, g0) -> q_k g0 = QIdle ->
    wire_valid (h_w st) = 0 -> reg_ok (h_w st) (h_len st) ->
    let tr := hd_request v 0 r0 readys in hd_xfers tr (run step st tr) = [].
  Proof.
    intros v c g0 st r0 readys Hv Hc Hs Hk Hw Hr tr. subst tr. unfold hd_request.
    rewrite run_cons. cbn [hd_xfers].
    destruct (hd_in_fields v 0 true r0 Hv ltac:(reflexivity)) as (F1 & F2 & F3 & F4).
    set (i := hd_in v 0 true r0) in *.
    destruct (out_fields st i Hr) as (O1 & _). rewrite O1, Hw. cbn [N.eqb negb andb app].
    pose proof (hd_step_view st i) as V. cbv zeta in V. rewrite F1, F2, F3, F4, Hs, Hw in V.
    cbn [N.eqb orb] in V. destruct V as (V1 & V2 & V3).
    destruct (hd_cfg_ok_facts c Hc) as (_ & Hml & _ & _ & Hmw & _ & _).
    assert (Hg1 : q_next c g0 true 0 true = {| q_k := QIdle; q_ml := 0; q_pos := 0 |}).
    { unfold q_next. rewrite Hk. reflexivity. }
    rewrite Hg1 in V1.
    assert (Hw1 : q_wire c g0 = wire_none) by (unfold q_wire; rewrite Hk; reflexivity).
    assert (Hinv' : hd_inv v c (fst (step st i))).
    { eexists. split; [exact V1|]. split; [exact I|].
      rewrite V2, V3, Hw1. cbn. repeat split; try lia. apply olen_lt; assumption. }
    destruct (hd_nostart v 0 c Hv ltac:(reflexivity) Hc readys (fst (step st i)) Hinv') as [I1 _]. cbv zeta in I1.
    unfold remaining at 2 in I1. rewrite V1, V2, Hw1 in I1. unfold reg_part, gen_part in I1.
    cbn [wire_valid wire_none fst N.eqb app q_k] in I1.
    apply app_eq_nil in I1. exact (proj1 I1).
  Qed.

  (* unknown (type, index): stall follows start, and tx stays silent *)
  Theorem hd_unknown : forall v, sel_cfg descs v = None -> forall tr st,
    wire_valid (h_w st) = 0 -> reg_ok (h_w st) (h_len st) -> Forall (fun i => hd_value i = v) tr ->
    Forall2 (fun i o => hd_ovalid o = 0 /\ hd_ostall o = hd_start i) tr (run step st tr).
  Proof.
    intros v Hn. induction tr as [|i t IH]; intros st Hw Hr Hall; [constructor|].
    inversion Hall as [|? ? Hi Ht]; subst. rewrite run_cons.
    destruct (out_fields st i Hr) as (O1 & _ & _ & O4).
    pose proof (hd_step_view st i) as V. cbv zeta in V. rewrite (sel_gen_none descs (h_gens st) _ Hn) in V.
    destruct V as (_ & V2 & V3).
    constructor.
    - rewrite O1, O4, Hw, (hd_known_none descs _ Hn). split; reflexivity.
    - apply IH; [rewrite V2; exact Hw | rewrite V2, V3; exact Hr | exact Ht].
  Qed.
End HandlerThm.

(* tx_length is min(wLength, descriptor length) *)
Lemma olen_min : forall c ml, c_hasml c = true -> c_mlw c = 16 -> ml < 2 ^ 16 -> olen_of c ml = N.min ml (c_dlen c).
Proof.
  intros c ml H1 H2 Hm. unfold olen_of. rewrite H1, H2.
  destruct (N.ltb_spec ml (c_dlen c)); rewrite trunc_small; lia.
Qed.

(* ---------------------------------------------------------------------------------------------- *)
(* packing lemmas for the lock-step obligation *)
Lemma q_dec_enc : forall g, q_ml g < 2 ^ 16 -> q_dec (q_enc g) = g.
Proof.
  intros [k ml pos] H. cbn [q_ml] in H. unfold q_dec, q_enc. cbn [q_k q_ml q_pos].
  change 18 with (2 + 16). rewrite <- N.shiftr_shiftr. change 3 with (N.ones 2).
  rewrite !N.shiftr_div_pow2, !N.land_ones. change (2 ^ 2) with 4.
  set (rest := ml + 2 ^ 16 * N.of_nat pos).
  assert (Hf : forall x, x < 4 -> (x + 4 * rest) mod 4 = x /\ (x + 4 * rest) / 4 = rest).
  { intros x Hx. split; [apply (pk_mod 4 x rest Hx) | apply (pk_div 4 x rest Hx)]. }
  assert (Hr : rest mod 2 ^ 16 = ml /\ rest / 2 ^ 16 = N.of_nat pos).
  { unfold rest. split; [apply (pk_mod (2 ^ 16) ml _ H) | apply (pk_div (2 ^ 16) ml _ H)]. }
  destruct Hr as [R1 R2].
  destruct k; [destruct (Hf 0 ltac:(lia)) as [-> ->] | destruct (Hf 1 ltac:(lia)) as [-> ->] | destruct (Hf 2 ltac:(lia)) as [-> ->]];
    rewrite R1, R2, Nat2N.id; reflexivity.
Qed.

Lemma q_enc_lt : forall c g, q_wfd c g -> N.of_nat (length (c_words c)) < 2 ^ 32 -> q_enc g < 2 ^ 64.
Proof.
  intros c [k ml pos] (H1 & H2 & _) Hn. cbn [q_ml q_pos] in *. unfold q_enc. cbn [q_k q_ml q_pos].
  assert (N.of_nat pos < 2 ^ 32) by lia.
  change (2 ^ 16) with 65536 in *. change (2 ^ 32) with 4294967296 in *. change (2 ^ 64) with 18446744073709551616.
  destruct k; lia.
Qed.

Lemma qs_dec_enc : forall gs, Forall (fun g => q_ml g < 2 ^ 16 /\ q_enc g < 2 ^ 64) gs ->
  qs_dec (length gs) (qs_enc gs) = gs.
Proof.
  induction gs as [|g gs IH]; intro H; [reflexivity|]. inversion H as [|? ? [H1 H2] Ht]; subst.
  cbn [length qs_dec qs_enc]. rewrite N.land_ones, N.shiftr_div_pow2.
  fold (pk (2 ^ 64) (q_enc g) (qs_enc gs)). rewrite pk_mod, pk_div by exact H2.
  rewrite q_dec_enc by exact H1. rewrite IH by exact Ht. reflexivity.
Qed.

Lemma w_enc_lt : forall v f l p, v < 16 -> p < 2 ^ 32 -> w_enc (v, f, l, p) < 2 ^ 38.
Proof.
  intros v f l p Hv Hp. unfold w_enc. change (2 ^ 32) with 4294967296 in *. change (2 ^ 38) with 274877906944.
  destruct f, l; cbn [b2n]; lia.
Qed.

Lemma w_dec_enc : forall v f l p, v < 16 -> w_dec (w_enc (v, f, l, p)) = (v, f, l, p).
Proof.
  intros v f l p Hv. unfold w_dec, w_enc. change 15 with (N.ones 4).
  rewrite N.land_ones, !N.shiftr_div_pow2. change (2 ^ 4) with 16. change (2 ^ 5) with (16 * 2). change (2 ^ 6) with (16 * 2 * 2).
  fold (pk 2 (b2n l) p). fold (pk 2 (b2n f) (pk 2 (b2n l) p)). fold (pk 16 v (pk 2 (b2n f) (pk 2 (b2n l) p))).
  rewrite pk_mod by exact Hv. rewrite <- !N.div_div by discriminate. rewrite pk_div by exact Hv.
  rewrite (pk_div 2) by apply b2n_lt2. rewrite (pk_div 2) by apply b2n_lt2.
  unfold pk. rewrite !odd_b2n_add_2. reflexivity.
Qed.

Lemma Forall2_length' : forall (A B : Type) (R : A -> B -> Prop) l1 l2, Forall2 R l1 l2 -> length l2 = length l1.
Proof. intros A B R l1 l2 H. induction H; cbn; congruence. Qed.

Lemma hd_descs_ok_facts : forall descs, hd_descs_ok descs = true ->
  Forall (fun d => hd_cfg_ok (snd d) = true /\ N.of_nat (length (c_words (snd d))) < 2 ^ 32) descs.
Proof.
  intros descs H. unfold hd_descs_ok in H. rewrite forallb_forall in H. apply Forall_forall. intros d Hd.
  specialize (H d Hd). apply andb_true_iff in H as [H1 H2]. apply N.ltb_lt in H2. split; assumption.
Qed.

Lemma hd_dec_enc : forall descs, hd_descs_ok descs = true -> forall st, hd_wf descs st ->
  hd_dec (length descs) (hd_enc st) = st.
Proof.
  intros descs Hd [gs w len] [Hg Hw]. cbn [h_gens h_w h_len] in *. unfold hd_dec, hd_enc. cbn [h_gens h_w h_len].
  destruct w as [[[v f] l] p]. destruct Hw as (Hv & Hp & Hl).
  change 54 with (16 + 38). rewrite <- N.shiftr_shiftr. rewrite !N.land_ones, !N.shiftr_div_pow2.
  fold (pk (2 ^ 38) (w_enc (v, f, l, p)) (qs_enc gs)).
  fold (pk (2 ^ 16) len (pk (2 ^ 38) (w_enc (v, f, l, p)) (qs_enc gs))).
  rewrite (pk_mod (2 ^ 16)), (pk_div (2 ^ 16)) by exact Hl.
  rewrite (pk_mod (2 ^ 38)), (pk_div (2 ^ 38)) by (apply w_enc_lt; assumption).
  rewrite w_dec_enc by exact Hv.
  rewrite <- (Forall2_length' _ _ _ _ _ Hg). rewrite qs_dec_enc; [reflexivity|].
  pose proof (hd_descs_ok_facts descs Hd) as Hf. clear Hd.
  induction Hg as [|d g ds gs' Hdg Hrest IH]; [constructor|].
  inversion Hf as [|? ? [_ Hn] Hf']; subst. constructor; [|apply IH; exact Hf'].
  split; [exact (proj1 Hdg) | exact (q_enc_lt _ _ Hdg Hn)].
Qed.

Lemma answer_len : forall c ml, cfg_okb c = true -> 0 < ml -> (length (answer c 0 ml) <= length (c_words c))%nat.
Proof.
  intros c ml Hk Hm. destruct (cfg_facts c Hk) as (HL1 & _).
  destruct (answer_spec c Hk 0 ml ltac:(lia) Hm) as (Hp & _).
  apply (f_equal (@length N)) in Hp. rewrite map_length, firstn_length in Hp. cbn [N.to_nat skipn] in Hp. lia.
Qed.

Lemma q_next_wfd : forall c g start len ready, hd_cfg_ok c = true -> q_wfd c g -> len < 2 ^ 16 ->
  q_wfd c (q_next c g start len ready).
Proof.
  intros c [k ml pos] start len ready Hc (H1 & H2 & H3) Hl. cbn [q_k q_ml q_pos] in *.
  destruct (hd_cfg_ok_facts c Hc) as (Hk & _).
  unfold q_next, q_wfd. cbn [q_k q_ml q_pos]. destruct k.
  - destruct (start && (0 <? len)) eqn:E; cbn [q_k q_ml q_pos]; repeat split; try lia; try discriminate;
      try (intros _; apply andb_true_iff in E as [_ E]; lia).
  - specialize (H3 eq_refl). destruct ready; [|repeat split; auto].
    unfold q_answer. cbn [q_ml].
    destruct (Nat.ltb (S pos) (length (answer c 0 ml))) eqn:E; cbn [q_k q_ml q_pos]; repeat split; try lia; try discriminate; auto.
    apply Nat.ltb_lt in E. pose proof (answer_len c ml Hk H3). lia.
  - cbn [q_k q_ml q_pos]. split; [exact H1|]. split; [lia | intro; discriminate].
Qed.

Lemma q_wire_ok : forall c g, hd_cfg_ok c = true -> q_wfd c g -> w_ok (q_wire c g) (q_olen c g).
Proof.
  intros c [k ml pos] Hc (H1 & H2 & H3). cbn [q_k q_ml q_pos] in *.
  destruct (hd_cfg_ok_facts c Hc) as (Hk & Hml & _ & Hv & Hmw & _ & _).
  pose proof (olen_lt c ml Hml Hmw) as Ho.
  unfold q_wire, q_olen, w_ok. cbn [q_k q_ml q_pos].
  destruct k; try (cbn; repeat split; try lia; exact Ho).
  specialize (H3 eq_refl). unfold q_answer. cbn [q_ml].
  destruct (nth_error (answer c 0 ml) pos) as [b|] eqn:En; [|cbn; repeat split; try lia; exact Ho].
  destruct (answer_ok c Hc ml H3) as [Hall _]. rewrite Forall_forall in Hall.
  pose proof (wire_of_ok c b Hv (Hall b (nth_error_In _ _ En))) as Hw.
  destruct (wire_of c b) as [[[v f] l] p]. destruct Hw as (_ & Hv2 & Hp2). repeat split; assumption.
Qed.

Lemma hd_gens_wf : forall ds gs value len start le,
  Forall (fun d => hd_cfg_ok (snd d) = true) ds -> Forall2 (fun d g => q_wfd (snd d) g) ds gs -> len < 2 ^ 16 ->
  Forall2 (fun d g => q_wfd (snd d) g) ds (fst (hd_gens ds gs value len start le)) /\
  match snd (hd_gens ds gs value len start le) with Some (w, ol) => w_ok w ol | None => True end.
Proof.
  induction ds as [|[k c] ds IH]; intros gs value len start le Hc Hg Hl.
  - inversion Hg; subst. cbn. split; [constructor | exact I].
  - inversion Hg as [|? g ? gs' Hdg Hrest]; subst. inversion Hc as [|? ? Hc1 Hc2]; subst. cbn [snd] in *.
    cbn [hd_gens]. specialize (IH gs' value len start le Hc2 Hrest Hl).
    destruct (hd_gens ds gs' value len start le) as [gs'' sel]. cbn [fst snd] in *. destruct IH as [I1 I2].
    split.
    + constructor; [|exact I1]. cbn [snd]. apply q_next_wfd; try assumption.
      destruct (value =? k); [exact Hl | reflexivity].
    + destruct (value =? k); [apply q_wire_ok; assumption | exact I2].
Qed.

Lemma hd_length_lt : forall i, hd_length i < 2 ^ 16.
Proof. intro i. unfold hd_length. apply bits_lt. Qed.

Lemma hd_wf_step : forall descs, hd_descs_ok descs = true -> forall st i, hd_wf descs st ->
  hd_wf descs (fst (hd_step descs st i)).
Proof.
  intros descs Hd st i [Hg Hw].
  assert (Hc : Forall (fun d => hd_cfg_ok (snd d) = true) descs).
  { eapply Forall_impl; [|apply (hd_descs_ok_facts descs Hd)]. intros d [H _]. exact H. }
  unfold hd_step.
  set (le := (wire_valid (h_w st) =? 0) || hd_ready i).
  destruct (hd_gens_wf descs (h_gens st) (hd_value i) (hd_length i) (hd_start i) le Hc Hg (hd_length_lt i)) as [G1 G2].
  destruct (hd_gens descs (h_gens st) (hd_value i) (hd_length i) (hd_start i) le) as [gs' sel]. cbn [fst snd] in *.
  split; cbn [h_gens h_w h_len]; [exact G1|].
  destruct sel as [[w ol]|]; [|exact Hw]. destruct le; [exact G2 | exact Hw].
Qed.

Lemma hd_wf_init : forall descs, hd_wf descs (hd_init descs).
Proof.
  intro descs. split; [|cbn; repeat split; lia]. unfold hd_init. cbn [h_gens].
  induction descs as [|d ds IH]; [constructor|]. cbn [map]. constructor; [|exact IH].
  repeat split; cbn; try lia. discriminate.
Qed.

(* ---------------------------------------------------------------------------------------------- *)
(* byte level: the valid bytes of the answer of a generator built from bytes are a prefix of those bytes *)
Lemma le_bytes_zero : forall n, le_bytes n 0 = repeat 0 n.
Proof. induction n; cbn [le_bytes repeat]; [reflexivity|]. rewrite N.mod_0_l, N.div_0_l by discriminate. rewrite IHn. reflexivity. Qed.

Lemma le_bytes_word_le : forall ch n, Forall (fun b => b < 256) ch -> (length ch <= n)%nat ->
  le_bytes n (word_le ch) = ch ++ repeat 0 (n - length ch).
Proof.
  induction ch as [|b t IH]; intros n Hb Hn.
  - cbn [word_le app length]. rewrite Nat.sub_0_r. apply le_bytes_zero.
  - inversion Hb as [|? ? Hb1 Hb2]; subst. destruct n as [|n]; [cbn in Hn; lia|].
    cbn [word_le le_bytes length app]. fold (pk 256 b (word_le t)). rewrite pk_mod, pk_div by exact Hb1.
    rewrite IH by (try assumption; cbn in Hn; lia). reflexivity.
Qed.

Definition beat_bytes (b : beat) : list N := firstn (N.to_nat (b_bytes b)) (le_bytes 4 (b_payload b)).

(* all chunks have four bytes, except the last, which has lwb *)
Fixpoint good_chunks (lwb : nat) (cs : list (list N)) : Prop :=
  match cs with
  | [] => False
  | c :: rest => match rest with [] => length c = lwb | _ => length c = 4%nat /\ good_chunks lwb rest end
  end.

Lemma firstn_firstn_app : forall (A : Type) (a b : list A) k, (k <= length a)%nat -> firstn k (a ++ b) = firstn k a.
Proof. intros. rewrite firstn_app. replace (k - length a)%nat with 0%nat by lia. cbn. apply app_nil_r. Qed.

Lemma beats_bytes : forall cs lwb ml sent first, good_chunks lwb cs -> (1 <= lwb <= 4)%nat ->
  Forall (Forall (fun b => b < 256)) cs -> sent < ml ->
  flat_map beat_bytes (beats 4 (N.of_nat lwb) ml (map word_le cs) sent first)
  = firstn (N.to_nat (ml - sent)) (concat cs).
Proof.
  induction cs as [|c rest IH]; intros lwb ml sent first Hg Hl Hb Hs; [contradiction|].
  inversion Hb as [|? ? Hc Hrest]; subst. cbn [map]. rewrite beats_cons. cbv zeta.
  destruct rest as [|c2 rest'].
  - (* the last chunk *)
    cbn [map orb flat_map app concat good_chunks] in *. rewrite !app_nil_r.
    unfold beat_bytes. cbn [b_bytes b_payload].
    rewrite le_bytes_word_le by (try assumption; lia).
    rewrite firstn_firstn_app by lia.
    destruct (N.leb_spec (N.of_nat lwb) (ml - sent)).
    + rewrite N.min_l by lia. rewrite Nat2N.id. rewrite <- Hg. rewrite firstn_all.
      symmetry. apply firstn_all2. lia.
    + rewrite N.min_r by lia. reflexivity.
  - cbn [good_chunks] in Hg. destruct Hg as [Hc4 Hg].
    change (map word_le (c2 :: rest')) with (word_le c2 :: map word_le rest'). cbn [orb].
    destruct (N.leb_spec ml (sent + 4)) as [Hf|Hf].
    + (* budget ends here *)
      cbn [flat_map app]. rewrite app_nil_r. unfold beat_bytes. cbn [b_bytes b_payload].
      rewrite N.min_r by lia.
      rewrite le_bytes_word_le by (try assumption; lia). rewrite Hc4. cbn [Nat.sub repeat]. rewrite app_nil_r.
      cbn [concat]. symmetry. apply firstn_firstn_app. lia.
    + cbn [flat_map]. unfold beat_bytes at 1. cbn [b_bytes b_payload].
      rewrite le_bytes_word_le by (try assumption; lia). rewrite Hc4. cbn [Nat.sub repeat]. rewrite app_nil_r.
      change (N.to_nat 4) with 4%nat. rewrite <- Hc4 at 1. rewrite firstn_all.
      change (word_le c2 :: map word_le rest') with (map word_le (c2 :: rest')).
      rewrite (IH lwb ml (sent + 4) false Hg Hl Hrest ltac:(lia)).
      change (concat (c :: c2 :: rest')) with (c ++ concat (c2 :: rest')).
      rewrite (firstn_app (N.to_nat (ml - sent)) c). rewrite Hc4.
      rewrite (firstn_all2 c) by lia. f_equal. f_equal. lia.
Qed.

Lemma chunks_nil : forall f k, chunks f k (@nil N) = [].
Proof. destruct f; reflexivity. Qed.

Lemma chunks_concat : forall fuel bs, (length bs <= fuel)%nat -> concat (chunks fuel 4 bs) = bs.
Proof.
  induction fuel as [|f IH]; intros bs H.
  - destruct bs; [reflexivity | cbn in H; lia].
  - destruct bs as [|b t]; [reflexivity|]. cbn [chunks concat]. rewrite IH.
    + apply firstn_skipn.
    + rewrite skipn_length. cbn [length] in *. lia.
Qed.

Definition lwb_of (n : nat) : nat := if Nat.eqb (n mod 4) 0 then 4%nat else (n mod 4)%nat.

Lemma chunks_good : forall fuel bs, bs <> [] -> (length bs <= fuel)%nat ->
  good_chunks (lwb_of (length bs)) (chunks fuel 4 bs) /\ Forall (fun c => (length c <= 4)%nat) (chunks fuel 4 bs).
Proof.
  induction fuel as [|f IH]; intros bs Hne H.
  - destruct bs; [congruence | cbn in H; lia].
  - destruct bs as [|b t]; [congruence|]. cbn [chunks].
    assert (L1 : (1 <= length (b :: t))%nat) by (cbn; lia).
    remember (b :: t) as bs eqn:Ebs. clear Ebs b t.
    destruct (skipn 4 bs) as [|x r] eqn:Es.
    + rewrite chunks_nil. cbn [good_chunks].
      assert (Hlen : (length bs <= 4)%nat).
      { pose proof (skipn_length 4 bs) as L. rewrite Es in L. cbn in L. lia. }
      split.
      * rewrite firstn_length. unfold lwb_of.
        destruct (Nat.eq_dec (length bs) 4) as [E|E].
        -- rewrite E. reflexivity.
        -- rewrite Nat.mod_small by lia. destruct (Nat.eqb_spec (length bs) 0); lia.
      * constructor; [rewrite firstn_length; lia | constructor].
    + assert (Hlen : (length (skipn 4 bs) = length bs - 4)%nat) by apply skipn_length.
      assert (Hgt : (4 < length bs)%nat) by (rewrite Es in Hlen; cbn in Hlen; lia).
      destruct (IH (x :: r)) as [G1 G2]; [discriminate | rewrite <- Es, Hlen; lia |].
      split.
      * cbn [good_chunks]. destruct (chunks f 4 (x :: r)) as [|c2 rest'] eqn:Ec; [contradiction|].
        split; [rewrite firstn_length; lia|].
        replace (lwb_of (length bs)) with (lwb_of (length (x :: r))); [exact G1|].
        assert (Hmod : forall n, (4 < n)%nat -> ((n - 4) mod 4 = n mod 4)%nat).
        { intros n Hn. rewrite <- (Nat.mod_add (n - 4) 1 4) by discriminate. f_equal. lia. }
        rewrite <- Es, Hlen. unfold lwb_of. rewrite (Hmod _ Hgt). reflexivity.
      * constructor; [rewrite firstn_length; lia | exact G2].
Qed.

Lemma chunks_bytes : forall fuel bs, Forall (fun b => b < 256) bs -> Forall (Forall (fun b => b < 256)) (chunks fuel 4 bs).
Proof.
  induction fuel as [|f IH]; intros bs H; [constructor|]. destruct bs as [|b t]; [constructor|]. cbn [chunks].
  constructor; [apply Forall_firstn; exact H | apply IH; apply Forall_skipn; exact H].
Qed.

(* For every non-empty byte string (bytes < 256) and every 0 < wLength: the valid bytes of the specified answer of the
   32-bit generator built from it are its first min(wLength, len) bytes. *)
Theorem answer_bytes_prefix : forall data ml, data <> [] -> Forall (fun b => b < 256) data -> 0 < ml ->
  answer_bytes (cfg_of_bytes data 4 false (Some 16)) ml
  = firstn (N.to_nat (N.min ml (N.of_nat (length data)))) data.
Proof.
  intros data ml Hne Hb Hm. unfold answer_bytes, answer. cbn [N.to_nat skipn].
  unfold cfg_of_bytes. cbn [c_bpw c_lwb c_words]. change (N.of_nat 4) with 4.
  destruct (chunks_good (length data) data Hne (le_n _)) as [Hg Hl4].
  rewrite (map_ext _ word_le) by reflexivity.
  fold (lwb_of (length data)).
  assert (Hl : (1 <= lwb_of (length data) <= 4)%nat).
  { unfold lwb_of. pose proof (Nat.mod_upper_bound (length data) 4 ltac:(discriminate)).
    destruct (Nat.eqb_spec (length data mod 4) 0); lia. }
  change (fun b : beat => firstn (N.to_nat (b_bytes b)) (le_bytes 4 (b_payload b))) with beat_bytes.
  rewrite (beats_bytes _ _ ml 0 true Hg Hl (chunks_bytes _ _ Hb) Hm).
  rewrite chunks_concat by lia. rewrite N.sub_0_r.
  destruct (N.leb_spec ml (N.of_nat (length data))).
  - rewrite N.min_l by lia. reflexivity.
  - rewrite N.min_r by lia. rewrite Nat2N.id. rewrite firstn_all. apply firstn_all2. lia.
Qed.
