(* C22 -- proofs about the ULPI receive models (Model/UlpiRx.v):
     rx_packets        UTMI packets of the receive path = packets the PHY presented (every history, no assumption)
     rx_status         status outputs = fields of the most recent RxCmd; rx_active = "PHY receive in progress"
     rx_valid_active   under the bus turn-around rule the outputs satisfy the UTMI rule rx_valid -> rx_active
     dec_last          decoder: last_rx_command = most recent RxCmd (not sampled during register operations)
     + packing lemmas for the lock-step obligations.                                               *)
From Coq Require Import NArith ZArith List Bool Lia ZifyBool ZifyN.
Import ListNotations.
From LunaLib Require Import Netlist Machine.
From LunaModel Require Import Handshake UlpiRx.
Open Scope N_scope.
Ltac Zify.zify_post_hook ::= Z.div_mod_to_equations.

(* ------------------------------ bit-field bookkeeping ------------------------------------------ *)
Lemma rx_odd_mod2 : forall x, N.odd x = (x mod 2 =? 1).
Proof.
  intro x. rewrite (N.div_mod' x 2) at 1. rewrite N.add_comm, N.odd_add_mul_2.
  assert (x mod 2 < 2) by (apply N.mod_lt; discriminate).
  assert (x mod 2 = 0 \/ x mod 2 = 1) as [E|E] by lia; rewrite E; reflexivity.
Qed.
Lemma rx_testbit_div : forall x k, N.testbit x k = ((x / 2 ^ k) mod 2 =? 1).
Proof. intros. rewrite N.testbit_odd, N.shiftr_div_pow2. apply rx_odd_mod2. Qed.
Lemma rx_bits_div : forall x lo w, bits x lo w = (x / 2 ^ lo) mod 2 ^ w.
Proof. intros. unfold bits. rewrite N.land_ones, N.shiftr_div_pow2. reflexivity. Qed.
Lemma bits_lt : forall x lo w, bits x lo w < 2 ^ w.
Proof. intros. rewrite rx_bits_div. apply N.mod_lt. apply N.pow_nonzero. discriminate. Qed.

Lemma rxcmd_status_lt : forall c, rxcmd_status c < 256.
Proof.
  intro c. unfold rxcmd_status. pose proof (bits_lt c 0 2) as H. change (2 ^ 2) with 4 in H.
  destruct (bits c 2 2 =? 3), (bits c 2 2 =? 2), (bits c 2 2 =? 0), (bits c 4 2 =? 3), (bits c 4 2 =? 2),
    (N.testbit c 6); cbn [b2n]; lia.
Qed.

Lemma rx_out_fields : forall s, r_dat s < 256 -> r_last s < 256 ->
  d_act (rx_out s) = r_act s /\ d_val (rx_out s) = r_val s /\ d_dat (rx_out s) = r_dat s /\
  o_status (rx_out s) = rxcmd_status (r_last s) /\ o_lastcmd (rx_out s) = r_last s.
Proof.
  intros [pd act val dat last] Hd Hl. cbn [r_dat r_last] in *.
  pose proof (rxcmd_status_lt last) as Hs.
  unfold d_act, d_val, d_dat, o_status, o_lastcmd, rx_out. cbn [r_act r_val r_dat r_last].
  rewrite !rx_testbit_div, !rx_bits_div.
  change (2 ^ 0) with 1. change (2 ^ 1) with 2. change (2 ^ 2) with 4. change (2 ^ 8) with 256.
  change (2 ^ 10) with 1024. change (2 ^ 18) with 262144.
  set (st := rxcmd_status last) in *. clearbody st.
  destruct act, val; cbn [b2n]; repeat split; lia.
Qed.

(* ------------------------------ well-formedness / packing -------------------------------------- *)
Lemma rx_wf_init : rx_wf rx_init.
Proof. split; reflexivity. Qed.

Lemma ri_data_lt : forall i, ri_data i < 256.
Proof. intro i. unfold ri_data. apply (bits_lt i 0 8). Qed.

Lemma rx_wf_step : forall s i, rx_wf s -> rx_wf (fst (rx_step s i)).
Proof.
  intros s i [Hd Hl]. unfold rx_step, rx_wf. cbn [fst r_dat r_last]. split; [apply ri_data_lt|].
  destruct (rxcmd_now _ _ _ _); [apply ri_data_lt | exact Hl].
Qed.

Lemma rx_dec_enc : forall s, rx_wf s -> rx_dec (rx_enc s) = s.
Proof.
  intros [pd act val dat last] [Hd Hl]. cbn [r_dat r_last] in *.
  unfold rx_dec, rx_enc. cbn [r_pd r_act r_val r_dat r_last].
  rewrite !rx_testbit_div, rx_bits_div.
  change (2 ^ 0) with 1. change (2 ^ 1) with 2. change (2 ^ 2) with 4. change (2 ^ 3) with 8. change (2 ^ 8) with 256.
  f_equal; destruct pd, act, val; cbn [b2n]; lia.
Qed.

Lemma run_state_wf : forall h s, rx_wf s -> rx_wf (run_state rx_step s h).
Proof. induction h as [|i t IH]; intros s H; [exact H|]. cbn [run_state]. apply IH. apply rx_wf_step. exact H. Qed.

(* ------------------------------ packets --------------------------------------------------------- *)
Definition opt_list {A} (o : option A) : list A := match o with Some x => [x] | None => [] end.

Definition isSome {A} (o : option A) : bool := match o with Some _ => true | None => false end.

(* p: the UTMI packetiser before it has read the current output word rx_out s *)
Definition rx_rel (s : rx_state) (st : bool * option (list N)) (p : option (list N)) (pend : option (list N)) : Prop :=
  rx_wf s /\ r_pd s = fst st /\ pk_next p (rx_out s) = snd st /\ pk_done p (rx_out s) = pend /\
  r_act s = isSome (snd st).

Lemma rx_rel_init : rx_rel rx_init phy0 None None.
Proof. repeat split. Qed.

Lemma rx_rel_step : forall s st p pend i, rx_rel s st p pend ->
  rx_rel (fst (rx_step s i)) (phy_next st i) (pk_next p (rx_out s)) (phy_done st i).
Proof.
  intros s [pd cur] p pend i (Hwf & Hpd & Hn & _ & Hact). cbn [fst snd] in *.
  pose proof (rx_wf_step s i Hwf) as Hwf'.
  destruct (rx_out_fields _ (proj1 Hwf') (proj2 Hwf')) as (Ea & Ev & Ed & _ & _).
  split; [exact Hwf'|]. rewrite Hn.
  unfold pk_next, pk_done, phy_done, phy_next. cbn [fst snd].
  rewrite Ea, Ev, Ed. unfold rx_step. cbn [fst r_pd r_act r_val r_dat]. rewrite Hpd, Hact.
  unfold rxcmd_now.
  destruct cur as [l|], pd, (ri_dir i), (ri_nxt i), (rxcmd_active (ri_data i));
    cbn [isSome negb andb orb fst snd]; repeat split.
Qed.

Theorem rx_packets_from : forall h x s st p pend, rx_rel s st p pend ->
  packets_from p (run rx_step s (h ++ [x])) = opt_list pend ++ phy_packets st h.
Proof.
  induction h as [|i t IH]; intros x s st p pend H.
  - destruct H as (_ & _ & _ & Hd & _). cbn [app run rx_step packets_from phy_packets].
    rewrite Hd. destruct pend; reflexivity.
  - pose proof (rx_rel_step s st p pend i H) as H'.
    destruct H as (_ & _ & _ & Hd & _).
    cbn [app run]. unfold rx_step at 1. cbn [packets_from phy_packets]. fold (rx_step s i).
    rewrite Hd.
    change (fst (rx_step s i)) with (fst (rx_step s i)) in H'.
    assert (E : run rx_step (fst (rx_step s i)) (t ++ [x]) =
                run rx_step {| r_pd := ri_dir i;
                               r_act := if negb (ri_dir i) || rxcmd_now (r_pd s) (ri_dir i) (ri_nxt i) false && negb (rxcmd_active (ri_data i)) then false
                                        else if negb (r_pd s) && ri_dir i && ri_nxt i || rxcmd_now (r_pd s) (ri_dir i) (ri_nxt i) false && rxcmd_active (ri_data i) then true
                                        else r_act s;
                               r_val := ri_nxt i && r_act s; r_dat := ri_data i;
                               r_last := if rxcmd_now (r_pd s) (ri_dir i) (ri_nxt i) false then ri_data i else r_last s |} (t ++ [x]))
      by reflexivity.
    rewrite <- E. rewrite (IH x _ _ _ _ H').
    destruct pend, (phy_done st i); reflexivity.
Qed.

Theorem rx_packets : forall h x,
  utmi_packets (run rx_step rx_init (h ++ [x])) = phy_packets phy0 h.
Proof. intros h x. unfold utmi_packets. rewrite (rx_packets_from h x _ _ _ _ rx_rel_init). reflexivity. Qed.

(* ------------------------------ status and rx_active -------------------------------------------- *)
Lemma run_last : forall (S : Type) (step : S -> N -> S * N) h x s d,
  last (run step s (h ++ [x])) d = snd (step (run_state step s h) x).
Proof.
  induction h as [|i t IH]; intros x s d.
  - cbn. destruct (step s x); reflexivity.
  - cbn [app run run_state]. destruct (step s i) as [s' o] eqn:E. cbn [fst].
    specialize (IH x s' d). destruct (run step s' (t ++ [x])) eqn:R.
    + destruct t; cbn in R; destruct (step s' _); discriminate.
    + cbn [last]. cbn [last] in IH. exact IH.
Qed.

Lemma rx_step_out : forall s i, snd (rx_step s i) = rx_out s.
Proof. reflexivity. Qed.

Lemma rx_state_spec : forall h s st, r_pd s = fst st -> r_act s = isSome (snd st) ->
  let s' := run_state rx_step s h in
  r_last s' = phy_last_rxcmd (fst st) (r_last s) h /\
  r_act s' = isSome (snd (fold_left phy_next h st)) /\ r_pd s' = fst (fold_left phy_next h st).
Proof.
  induction h as [|i t IH]; intros s [pd cur] Hpd Hact; cbn [fst snd] in *.
  - cbn. auto.
  - cbn [run_state fold_left phy_last_rxcmd].
    specialize (IH (fst (rx_step s i)) (phy_next (pd, cur) i)).
    assert (H1 : r_pd (fst (rx_step s i)) = fst (phy_next (pd, cur) i)) by reflexivity.
    assert (H2 : r_act (fst (rx_step s i)) = isSome (snd (phy_next (pd, cur) i))).
    { unfold rx_step, phy_next, rxcmd_now. cbn [fst snd r_act]. rewrite Hpd, Hact.
      destruct cur as [l|], pd, (ri_dir i), (ri_nxt i), (rxcmd_active (ri_data i));
        cbn [isSome negb andb orb fst snd]; reflexivity. }
    specialize (IH H1 H2). cbn zeta in IH. destruct IH as (L & A & P).
    split; [|split; assumption].
    rewrite L. unfold rx_step, phy_next. cbn [fst r_last r_pd]. rewrite Hpd. reflexivity.
Qed.

(* after any history h (x: the inputs of the current cycle, irrelevant -- all outputs are registered):
   status flags and last_rx_command are those of the most recent RxCmd, rx_active says whether a PHY receive is
   in progress *)
Theorem rx_status : forall h x,
  let o := last (run rx_step rx_init (h ++ [x])) 0 in
  o_lastcmd o = phy_last_rxcmd false 0 h /\
  o_status o = rxcmd_status (phy_last_rxcmd false 0 h) /\
  o_active o = isSome (snd (fold_left phy_next h phy0)).
Proof.
  intros h x o. subst o. rewrite run_last. rewrite rx_step_out.
  pose proof (run_state_wf h rx_init rx_wf_init) as [Wd Wl].
  destruct (rx_out_fields _ Wd Wl) as (Ea & _ & _ & Es & El).
  destruct (rx_state_spec h rx_init phy0 eq_refl eq_refl) as (L & A & _). cbn [fst r_last rx_init] in L.
  rewrite El, Es, L. repeat split. unfold o_active. unfold d_act in Ea. rewrite Ea. exact A.
Qed.

(* UTMI rule rx_valid -> rx_active, given the bus turn-around rule *)
Definition utmi_rx_ok (o : N) : bool := implb (d_val o) (d_act o).

Lemma rx_valid_active_from : forall h s, rx_wf s -> (r_val s = true -> r_act s = true) ->
  (r_act s = true -> r_pd s = true) ->
  turnaround_ok (r_pd s) h = true -> forallb utmi_rx_ok (run rx_step s h) = true.
Proof.
  induction h as [|i t IH]; intros s Hwf Hva Hap HT; [reflexivity|].
  cbn [run]. unfold rx_step at 1. cbn [forallb]. fold (rx_step s i).
  cbn [turnaround_ok] in HT. apply andb_true_iff in HT as [H0 HT].
  destruct (rx_out_fields _ (proj1 Hwf) (proj2 Hwf)) as (Ea & Ev & _).
  apply andb_true_iff. split.
  - unfold utmi_rx_ok. rewrite Ea, Ev. destruct (r_val s); [rewrite Hva; reflexivity | reflexivity].
  - apply (IH (fst (rx_step s i))).
    + apply rx_wf_step; exact Hwf.
    + unfold rx_step, rxcmd_now. cbn [fst r_val r_act].
      destruct (r_pd s), (r_act s), (ri_dir i), (ri_nxt i), (rxcmd_active (ri_data i));
        cbn [negb andb orb] in *; intro V; try reflexivity; try discriminate;
        try (specialize (Hap eq_refl); discriminate).
    + unfold rx_step. cbn [fst r_act r_pd].
      destruct (ri_dir i); cbn [negb orb]; [reflexivity | discriminate].
    + exact HT.
Qed.

Theorem rx_valid_active : forall h, turnaround_ok false h = true ->
  forallb utmi_rx_ok (run rx_step rx_init h) = true.
Proof.
  intros h H. apply rx_valid_active_from; [apply rx_wf_init | discriminate | discriminate | exact H].
Qed.

(* ------------------------------ decoder ----------------------------------------------------------- *)
Lemma dec_last_from : forall h s,
  e_last (run_state dec_step s h) = last_rxcmd (e_dd s) (e_last s) h /\
  e_dd (run_state dec_step s h) = fold_left (fun _ i => di_dir i) h (e_dd s).
Proof.
  induction h as [|i t IH]; intros s; [split; reflexivity|].
  cbn [run_state last_rxcmd fold_left]. destruct (IH (fst (dec_step s i))) as [L D].
  rewrite L, D. split; reflexivity.
Qed.

Theorem dec_last : forall h, e_last (run_state dec_step dec_init h) = last_rxcmd false 0 h.
Proof. intro h. apply (proj1 (dec_last_from h dec_init)). Qed.

(* the strobes: rx_start / rx_stop are seen one cycle after an RxCmd that changes the RxActive bit *)
Lemma dec_strobes : forall s i,
  let s' := fst (dec_step s i) in
  let sample := rxcmd_now (e_dd s) (di_dir i) (di_nxt i) (di_regop i) in
  e_start s' = sample && negb (rxcmd_active (e_last s)) && rxcmd_active (di_data i) /\
  e_stop s' = sample && rxcmd_active (e_last s) && negb (rxcmd_active (di_data i)).
Proof. intros. split; reflexivity. Qed.

Lemma di_data_lt : forall i, di_data i < 256.
Proof. intro i. unfold di_data. apply (bits_lt i 0 8). Qed.

Lemma dec_wf_step : forall s i, dec_wf s -> dec_wf (fst (dec_step s i)).
Proof.
  intros s i H. unfold dec_step, dec_wf. cbn [fst e_last].
  destruct (rxcmd_now _ _ _ _); [apply di_data_lt | exact H].
Qed.

Lemma dec_dec_enc : forall s, dec_wf s -> dec_dec (dec_enc s) = s.
Proof.
  intros [dd last st sp] H. unfold dec_wf in H. cbn [e_last] in H.
  unfold dec_dec, dec_enc. cbn [e_dd e_last e_start e_stop]. rewrite !rx_testbit_div.
  change (2 ^ 0) with 1. change (2 ^ 1) with 2. change (2 ^ 2) with 4.
  f_equal; destruct dd, st, sp; cbn [b2n]; lia.
Qed.
