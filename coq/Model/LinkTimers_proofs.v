From Coq Require Import NArith ZArith Arith List Bool Lia ZifyBool ZifyN.
Import ListNotations.
From LunaLib Require Import Netlist Machine SsWords.
From LunaModel Require Import LinkTimers.
Open Scope N_scope.

Section Proofs.
  Variables Tk Tr wk wr : N.

  Definition rel (st : tm_state) (hist : list N) : Prop :=
    kt st = N.of_nat (quiet i_tx hist) mod 2 ^ wk /\ rt st = N.of_nat (quiet i_rx hist) mod 2 ^ wr.

  Lemma rel_init : rel tm_init [].
  Proof.
    unfold rel, tm_init. cbn [kt rt quiet]. change (N.of_nat 0) with 0.
    pose proof (pow2_pos wk). pose proof (pow2_pos wr).
    rewrite !N.mod_0_l by lia. split; reflexivity.
  Qed.

  Lemma tick_quiet : forall w ev i hist t, t = N.of_nat (quiet ev hist) mod 2 ^ w ->
    tick w (ev i) (i_enable i) t = N.of_nat (quiet ev (i :: hist)) mod 2 ^ w.
  Proof.
    intros w ev i hist t ->. unfold tick. cbn [quiet]. pose proof (pow2_pos w) as P.
    destruct (ev i); cbn [negb andb].
    - rewrite andb_false_r. change (N.of_nat 0) with 0. rewrite N.mod_0_l by lia. reflexivity.
    - rewrite andb_true_r. destruct (i_enable i).
      + rewrite Nat2N.inj_succ, <- N.add_1_r. rewrite N.add_mod_idemp_l by lia. reflexivity.
      + change (N.of_nat 0) with 0. rewrite N.mod_0_l by lia. reflexivity.
  Qed.

  Lemma rel_next : forall st hist i, rel st hist -> rel (tm_next wk wr st i) (i :: hist).
  Proof.
    intros st hist i (H1 & H2). unfold rel, tm_next. cbn [kt rt]. split.
    - apply tick_quiet. exact H1.
    - apply tick_quiet. exact H2.
  Qed.

  Lemma rel_out : forall st hist, rel st hist -> tm_out Tk Tr st = spec_out Tk Tr wk wr hist.
  Proof. intros st hist (H1 & H2). unfold tm_out, spec_out. rewrite H1, H2. reflexivity. Qed.

  Theorem tm_model_spec : forall ins st hist, rel st hist ->
    run (tm_step Tk Tr wk wr) st ins = spec_trace Tk Tr wk wr hist ins.
  Proof.
    induction ins as [|i t IH]; intros st hist H; [reflexivity|].
    cbn [run spec_trace tm_step]. rewrite (rel_out _ _ H). f_equal. apply IH, rel_next, H.
  Qed.

  Corollary tm_from_reset : forall ins,
    run (tm_step Tk Tr wk wr) tm_init ins = spec_trace Tk Tr wk wr [] ins.
  Proof. intros. apply tm_model_spec, rel_init. Qed.

  (* ---- the property in its own words (the registers can hold their timeouts) ---- *)
  Lemma o_bits : forall a b, o_keepalive (b2n a + 2 * b2n b) = a /\ o_recovery (b2n a + 2 * b2n b) = b.
  Proof.
    intros. unfold o_keepalive, o_recovery. rewrite N.bit0_odd, N.testbit_odd, N.shiftr_div_pow2.
    change (2 ^ 1) with 2. pose proof (b2n_lt2 a).
    assert (E : (b2n a + 2 * b2n b) / 2 = b2n b + 2 * 0) by lia.
    rewrite E, !odd_b2n_add_2. split; reflexivity.
  Qed.

  (* during the first 2^w quiet cycles the strobe is raised in exactly one cycle: the one in which
     T - 1 quiet cycles lie behind, i.e. exactly T cycles after the cycle of the last event.
     Never earlier; and when that cycle comes, always. *)
  Theorem recovery_exact : forall hist, N.of_nat (quiet i_rx hist) < 2 ^ wr ->
    (o_recovery (spec_out Tk Tr wk wr hist) = true <-> N.of_nat (quiet i_rx hist) + 1 = Tr).
  Proof.
    intros hist H. unfold spec_out. destruct (o_bits (N.of_nat (quiet i_tx hist) mod 2 ^ wk + 1 =? Tk)
      (N.of_nat (quiet i_rx hist) mod 2 ^ wr + 1 =? Tr)) as (_ & E). rewrite E.
    rewrite N.mod_small by exact H. apply N.eqb_eq.
  Qed.

  Theorem keepalive_exact : forall hist, N.of_nat (quiet i_tx hist) < 2 ^ wk ->
    (o_keepalive (spec_out Tk Tr wk wr hist) = true <-> N.of_nat (quiet i_tx hist) + 1 = Tk).
  Proof.
    intros hist H. unfold spec_out. destruct (o_bits (N.of_nat (quiet i_tx hist) mod 2 ^ wk + 1 =? Tk)
      (N.of_nat (quiet i_rx hist) mod 2 ^ wr + 1 =? Tr)) as (E & _). rewrite E.
    rewrite N.mod_small by exact H. apply N.eqb_eq.
  Qed.

  Hypothesis Hk : Tk <= 2 ^ wk.
  Hypothesis Hr : Tr <= 2 ^ wr.

  Corollary recovery_never_early : forall hist, N.of_nat (quiet i_rx hist) + 1 < Tr ->
    o_recovery (spec_out Tk Tr wk wr hist) = false.
  Proof.
    intros hist H. destruct (o_recovery (spec_out Tk Tr wk wr hist)) eqn:E; [|reflexivity].
    apply recovery_exact in E; lia.
  Qed.

  Corollary recovery_on_time : forall hist, N.of_nat (quiet i_rx hist) + 1 = Tr ->
    o_recovery (spec_out Tk Tr wk wr hist) = true.
  Proof. intros hist H. apply recovery_exact; lia. Qed.

  Corollary keepalive_never_early : forall hist, N.of_nat (quiet i_tx hist) + 1 < Tk ->
    o_keepalive (spec_out Tk Tr wk wr hist) = false.
  Proof.
    intros hist H. destruct (o_keepalive (spec_out Tk Tr wk wr hist)) eqn:E; [|reflexivity].
    apply keepalive_exact in E; lia.
  Qed.

  Corollary keepalive_on_time : forall hist, N.of_nat (quiet i_tx hist) + 1 = Tk ->
    o_keepalive (spec_out Tk Tr wk wr hist) = true.
  Proof. intros hist H. apply keepalive_exact; lia. Qed.
End Proofs.

(* what `quiet` means: the q most recent cycles were all in U0 without the event, and the cycle
   before them (if any) was not *)
Lemma quiet_nth : forall ev hist k, (k < quiet ev hist)%nat ->
  exists j, nth_error hist k = Some j /\ i_enable j = true /\ ev j = false.
Proof.
  induction hist as [|j t IH]; intros k H; cbn [quiet] in H; [lia|].
  destruct (i_enable j && negb (ev j)) eqn:E; [|lia].
  apply andb_true_iff in E as [E1 E2]. apply negb_true_iff in E2.
  destruct k as [|k]; [exists j; repeat split; assumption|].
  cbn [nth_error]. apply IH. lia.
Qed.

Lemma quiet_stop : forall ev hist j, nth_error hist (quiet ev hist) = Some j ->
  i_enable j = false \/ ev j = true.
Proof.
  induction hist as [|a t IH]; intros j H; cbn [quiet] in H; [discriminate|].
  destruct (i_enable a && negb (ev a)) eqn:E.
  - cbn [nth_error] in H. apply IH. exact H.
  - cbn in H. inversion H; subst. apply andb_false_iff in E as [E|E]; [left; exact E|].
    right. apply negb_false_iff in E. exact E.
Qed.

(* ---- packing facts for the tie ---- *)
Lemma tm_dec_enc : forall wk st, tm_wf wk st -> tm_dec wk (tm_enc wk st) = st.
Proof.
  intros wk [k r] H. unfold tm_wf in H. cbn [kt] in H. unfold tm_dec, tm_enc. cbn [kt rt].
  pose proof (pow2_pos wk) as P.
  rewrite (N.mul_comm (2 ^ wk) r). rewrite N.mod_add by lia. rewrite N.div_add by lia.
  rewrite N.mod_small by exact H. rewrite N.div_small by exact H. reflexivity.
Qed.

Lemma tm_wf_step : forall Tk Tr wk wr st i, tm_wf wk st -> tm_wf wk (fst (tm_step Tk Tr wk wr st i)).
Proof.
  intros. unfold tm_wf, tm_step, tm_next, tick. cbn [fst kt]. pose proof (pow2_pos wk) as P.
  destruct (i_tx i); [exact P|]. destruct (i_enable i); [|exact P].
  apply N.mod_lt. lia.
Qed.

Lemma tm_wf_init : forall wk, tm_wf wk tm_init.
Proof. intros. unfold tm_wf, tm_init. cbn [kt]. apply pow2_pos. Qed.
