(* C57 -- the ready-made USB serial (CDC-ACM) device: luna/gateware/usb/devices/acm.py
        (ACMRequestHandlers, USBSerialDevice), luna/full_devices.py.

   Part A.  Hand model of ACMRequestHandlers (combinational) and its reading.
   Part B.  The SPECIFICATION of the whole device as a host-side observer of the UTMI wire traffic and of the two
            byte streams: what a conforming USB serial device must answer to a host that performs complete, well-formed
            transfers.  It is an executable reference of the property text:
              - enumeration is answered: GET_DESCRIPTOR returns exactly the requested prefix of the descriptor the
                device advertises (table `sp_desc`, produced from USBSerialDevice.create_descriptors()), unknown
                descriptors are STALLed; SET_ADDRESS / SET_CONFIGURATION complete with a zero-length status packet and
                take effect afterwards; GET_CONFIGURATION / GET_STATUS return the configuration / two zero bytes;
              - SET_LINE_CODING (class request 0x20, host-to-device) is accepted: its data stage is ACKed and its
                status stage answered with a zero-length DATA1 packet;
              - every other class request and every vendor / reserved request is STALLed at the first opportunity
                (data stage IN, data stage OUT, or status stage);
              - bytes the host writes to the data OUT endpoint (packets ACKed with the expected data toggle) appear
                on the rx stream in order, nothing else does, and nothing of a NAKed packet does;
              - data packets on the data IN endpoint carry, in order, exactly the bytes taken from the tx stream
                (a packet is consumed when the host ACKs it; otherwise it is repeated with the same PID);
              - the status/notification endpoint always NAKs;
              - every solicited answer starts within the host's patience.
            Nothing in part B refers to the implementation's state.
   One list element = one `usb` clock cycle.                                                                     *)
From Coq Require Import NArith List Bool.
Import ListNotations.
From LunaLib Require Import Netlist Bits Machine PackN.
From LunaModel Require Import Crc Handshake Usb2DataTx TokenDet C20_TxPath C57_Pack.
Open Scope N_scope.

(* ============================================================================================== *)
(* Part A: ACMRequestHandlers                                                                       *)
(* inputs : setup.type 0..1, setup.request 2..9, rx_ready_for_response 10, status_requested 11
   outputs: claim 0, handshakes_out.ack 1, tx.valid 2, tx.last 3                                    *)
Definition acm_claim (i : N) : bool := (bits i 0 2 =? 1) && (bits i 2 8 =? 32).
Definition acm_step (st : unit) (i : N) : unit * N :=
  let claim := acm_claim i in
  let ack := claim && N.testbit i 10 in
  let zlp := claim && N.testbit i 11 in
  (tt, b2n claim + 2 * b2n ack + 4 * b2n zlp + 8 * b2n zlp).
Definition acm_enc (_ : unit) : N := 0.
Definition acm_dec (_ : N) : unit := tt.

(* the class / vendor part of the request-handler composition USBSerialDevice builds: a USBRequestHandlerMultiplexer over
   the ACMRequestHandlers and the StallOnlyRequestHandler(vendor | reserved) objects of the elaborated device, with the
   multiplexer's own stall-only fallback (the StandardRequestHandler is left out: standard requests are not judged).
   inputs : setup.type 0..1, setup.request 2..9, data_requested 10, status_requested 11, rx_ready_for_response 12
   outputs: handshakes_out.ack 0, .nak 1, .stall 2, tx.valid 3, tx.last 4
   Specification, per cycle: SET_LINE_CODING -> its data packets are ACKed, its status stage gets a zero-length packet, never a
   STALL; every other class request and every vendor / reserved request -> STALL at every opportunity to answer (IN token of
   the data or status stage, data packet of an OUT data stage) and nothing else; with strict = false the answer to an OUT data
   packet may also be nothing. *)
Definition hmux_spec (strict : bool) (i o : N) : bool :=
  let typ := bits i 0 2 in let req := bits i 2 8 in
  let dreq := N.testbit i 10 in let sreq := N.testbit i 11 in let rfr := N.testbit i 12 in
  if typ =? 0 then true
  else if (typ =? 1) && (req =? 32) then o =? b2n rfr + 8 * b2n sreq + 16 * b2n sreq
  else (o =? 4 * b2n (dreq || sreq || rfr)) || (negb strict && (o =? 4 * b2n (dreq || sreq))).
Definition hmux_mon (strict : bool) (m i o : N) : option (N * bool) := Some (0, hmux_spec strict i o).

(* ============================================================================================== *)
(* Part B: the device specification as an observer                                                  *)
(* device ports (props/C57.py):
   inputs : rx_active 0, rx_valid 1, rx_data 2..9, tx_ready 10, line_state 11..12, connect 13,
            tx stream valid 14, first 15, last 16, payload 17..24, rx stream ready 25
   outputs: tx_valid 0, tx_data 1..8, tx stream ready 9, rx stream valid 10, first 11, last 12, payload 13..20 *)
Definition si_rxa (i : N) : bool := N.testbit i 0.
Definition si_rxv (i : N) : bool := N.testbit i 1.
Definition si_rxd (i : N) : N := bits i 2 8.
Definition si_ready (i : N) : bool := N.testbit i 10.
Definition si_tvalid (i : N) : bool := N.testbit i 14.
Definition si_tpayload (i : N) : N := bits i 17 8.
Definition si_rready (i : N) : bool := N.testbit i 25.
Definition so_txv (o : N) : bool := N.testbit o 0.
Definition so_txd (o : N) : N := bits o 1 8.
Definition so_tready (o : N) : bool := N.testbit o 9.
Definition so_rvalid (o : N) : bool := N.testbit o 10.
Definition so_rpayload (o : N) : N := bits o 13 8.

Record sparams := {
  sp_mps : N;                       (* max packet size of the data endpoints *)
  sp_desc : list (N * list N);      (* wValue (type * 256 + index) -> descriptor bytes *)
  sp_T : N;                         (* host patience, cycles *)
  sp_naks : N;                      (* how many consecutive NAKs a control stage may take *)
  sp_strict : bool                  (* true: a request that must be STALLed is STALLed at its FIRST answering opportunity, also when that
                                       is a data packet of an OUT data stage [USB 2.0 8.5.3.4].  false (the weaker reading of C10): such
                                       data packets may also be left unanswered; the STALL must then come at the status stage *)
}.

Fixpoint lookup (k : N) (t : list (N * list N)) : option (list N) :=
  match t with [] => None | (k', v) :: r => if k =? k' then Some v else lookup k r end.

Definition EP_CTL : N := 0.
Definition EP_STATUS : N := 3.
Definition EP_DATA : N := 4.
Definition DATA0B : N := 195.   (* C3 *)
Definition DATA1B : N := 75.    (* 4B *)
Definition togb (t : N) : N := if t =? 0 then DATA0B else DATA1B.
Definition flip (t : N) : N := if t =? 0 then 1 else 0.
Definition flipb (p : N) : N := if p =? DATA0B then DATA1B else DATA0B.

(* control transfer progress *)
Inductive cphase :=
| C_IDLE
| C_IN (key off wlen pid : N)      (* data stage IN: what is returned (key), how much of it has been ACKed, wLength, next PID byte *)
| C_IN_STATUS                      (* data stage complete: the OUT status packet must be ACKed *)
| C_OUT_DATA (rem pid : N)         (* SET_LINE_CODING data stage: bytes still to come, next host PID byte *)
| C_OUT_STATUS (eff : N)           (* status stage IN must be a zero-length DATA1; eff: 0 nothing, 1+a new address, 256+c new configuration,
                                      512 / 513: the data OUT / IN endpoint's toggle restarts at DATA0, 514: no effect *)
| C_STALL                          (* must be STALLed at the first data / status opportunity *)
| C_ANY.                           (* a request the statement says nothing about: not judged until the next SETUP *)

(* what the next packet on the bus is expected to be *)
Inductive pend :=
| P_NONE                           (* nothing to judge *)
| P_SETUP (req : N)                (* a well-formed SETUP data packet was sent: ACK expected; req = its 8 bytes, little endian *)
| P_CTL_IN | P_CTL_OUT (len : N)   (* IN token / OUT data packet on endpoint 0 *)
| P_BULK_IN | P_BULK_OUT | P_STATUS_IN
| P_ACK_CTL (len : N) | P_ACK_BULK (len : N) | P_ACK_ZLP.   (* the device sent data: the host's handshake is awaited *)

Definition awaits_device (p : pend) : bool :=
  match p with P_SETUP _ | P_CTL_IN | P_CTL_OUT _ | P_BULK_IN | P_BULK_OUT | P_STATUS_IN => true | _ => false end.

Record sstate := {
  z_rx : option (list N); z_tx : option (list N);   (* host / device packet in progress *)
  z_addr : N; z_cfg : N;
  z_tok : N;               (* last own OUT / SETUP token, still waiting for its data packet: 0 none, else 1 + pid + 16 * ep *)
  z_ctl : cphase; z_pend : pend;
  z_wait : N;              (* cycles since the last host packet ended (saturating) *)
  z_naks : N;              (* consecutive NAKs seen on the control endpoint *)
  z_otog : N; z_itog : N;  (* data toggle the data OUT endpoint expects / the data IN endpoint must use *)
  z_outq : list N; z_tent : N;   (* bytes written by the host that the rx stream has not shown yet; if z_tent = 1 + n, the last n
                                    of them belong to a packet (with the expected toggle) whose handshake is still outstanding;
                                    z_tent = 0: no such packet *)
  z_inq : list N           (* bytes taken from the tx stream that the host has not received (ACKed) yet *)
}.
Definition s_init : sstate :=
  {| z_rx := None; z_tx := None; z_addr := 0; z_cfg := 0; z_tok := 0; z_ctl := C_IDLE; z_pend := P_NONE;
     z_wait := 0; z_naks := 0; z_otog := 0; z_itog := 0; z_outq := []; z_tent := 0; z_inq := [] |}.

(* little-endian value of a byte list *)
Fixpoint le_val (l : list N) : N := match l with [] => 0 | b :: t => b + 256 * le_val t end.
Definition rq_byte (req k : N) : N := (req / 256 ^ k) mod 256.
Definition rq_word (req k : N) : N := rq_byte req k + 256 * rq_byte req (k + 1).

Definition KEY_CONFIG : N := 65536.     (* GET_CONFIGURATION *)
Definition KEY_STATUS : N := 65537.     (* GET_STATUS *)
(* the bytes a control IN transfer must return *)
Definition ctl_data (P : sparams) (cfg key wlen : N) : list N :=
  let full := if key =? KEY_CONFIG then [cfg] else if key =? KEY_STATUS then [0; 0]
              else match lookup key (sp_desc P) with Some d => d | None => [] end in
  firstn (N.to_nat wlen) full.

Definition EFF_CLEAR_OUT : N := 512.
Definition EFF_CLEAR_IN : N := 513.
Definition EFF_CLEAR_OTHER : N := 514.
(* which obligations a SETUP packet creates *)
Definition classify_request (P : sparams) (req : N) : cphase :=
  let bm := rq_byte req 0 in let br := rq_byte req 1 in
  let wvalue := rq_word req 2 in let wlength := rq_word req 6 in
  let typ := (bm / 32) mod 4 in
  if typ =? 0 then
    if (bm =? 128) && (br =? 6) then
      match lookup wvalue (sp_desc P) with
      | Some _ => if wlength =? 0 then C_ANY else C_IN wvalue 0 wlength DATA1B
      | None => if wlength =? 0 then C_ANY else C_STALL
      end
    else if (bm =? 0) && (br =? 5) && (wlength =? 0) then C_OUT_STATUS (1 + wvalue mod 128)
    else if (bm =? 0) && (br =? 9) && (wlength =? 0) then C_OUT_STATUS (256 + wvalue mod 256)
    else if (bm =? 128) && (br =? 8) && (wlength =? 1) then C_IN KEY_CONFIG 0 wlength DATA1B
    else if ((bm =? 128) || (bm =? 129) || (bm =? 130)) && (br =? 0) && (wlength =? 2) then C_IN KEY_STATUS 0 wlength DATA1B
    else if (bm =? 2) && (br =? 1) && (wvalue =? 0) && (wlength =? 0) then
      (* CLEAR_FEATURE(ENDPOINT_HALT), recipient endpoint wIndex: accepted; it restarts the data toggle of exactly that endpoint
         and direction, and nothing else *)
      let windex := rq_word req 4 in
      C_OUT_STATUS (if windex mod 16 =? EP_DATA then (if (windex / 128) mod 2 =? 0 then EFF_CLEAR_OUT else EFF_CLEAR_IN) else EFF_CLEAR_OTHER)
    else C_ANY
  else if typ =? 1 then
    if br =? 32 then
      (if bm =? 33 then (if wlength =? 0 then C_OUT_STATUS 0 else C_OUT_DATA wlength DATA1B) else C_ANY)
    else C_STALL
  else C_STALL.

Definition HS_ACK : N := 210.  Definition HS_NAK : N := 90.  Definition HS_STALL : N := 30.

Definition starts_with (p l : list N) : bool := c20_list_eqb p (firstn (length p) l).

(* the payload of a well-formed device data packet PID :: payload ++ CRC16 *)
Definition data_payload (l : list N) : list N := firstn (length l - 3) (tl l).

(* ---- a complete host packet ---- *)
Definition on_host_packet (P : sparams) (s : sstate) (pkt : list N) : option sstate :=
  let upd tok ctl pend otog itog outq tent inq addr cfg :=
    {| z_rx := None; z_tx := z_tx s; z_addr := addr; z_cfg := cfg; z_tok := tok; z_ctl := ctl; z_pend := pend;
       z_wait := 0; z_naks := z_naks s; z_otog := otog; z_itog := itog; z_outq := outq; z_tent := tent; z_inq := inq |} in
  let keep tok ctl pend := upd tok ctl pend (z_otog s) (z_itog s) (z_outq s) (z_tent s) (z_inq s) (z_addr s) (z_cfg s) in
  match classify true (z_addr s) pkt with
  | EvToken p _ e =>
      if p =? PID_IN then
        Some (keep 0 (z_ctl s)
                (if e =? EP_CTL then P_CTL_IN else if e =? EP_DATA then P_BULK_IN else if e =? EP_STATUS then P_STATUS_IN else P_NONE))
      else if (p =? PID_OUT) || (p =? PID_SETUP) then Some (keep (1 + p + 16 * e) (z_ctl s) P_NONE)
      else Some (keep 0 (z_ctl s) P_NONE)
  | EvForeign => Some (keep 0 (z_ctl s) P_NONE)
  | _ =>
      if mem_N (hd 0 pkt) data_pid_bytes then
        (* a data packet: only legal after an OUT / SETUP token; judged only if it is intact *)
        if z_tok s =? 0 then None
        else
          let tp := (z_tok s - 1) mod 16 in let te := (z_tok s - 1) / 16 in
          let good := is_data_packetb pkt in
          let payload := data_payload pkt in
          let len := N.of_nat (length payload) in
          if negb good then Some (keep 0 (z_ctl s) P_NONE)
          else if (tp =? PID_SETUP) && (te =? EP_CTL) then
            (if (hd 0 pkt =? DATA0B) && (len =? 8) then Some (keep 0 C_IDLE (P_SETUP (le_val payload)))
             else Some (keep 0 C_ANY P_NONE))
          else if (tp =? PID_OUT) && (te =? EP_CTL) then Some (keep 0 (z_ctl s) (P_CTL_OUT len))
          else if (tp =? PID_OUT) && (te =? EP_DATA) then
            (if hd 0 pkt =? togb (z_otog s)
             then Some (upd 0 (z_ctl s) P_BULK_OUT (z_otog s) (z_itog s) (z_outq s ++ payload) (1 + len) (z_inq s) (z_addr s) (z_cfg s))
             else Some (upd 0 (z_ctl s) P_BULK_OUT (z_otog s) (z_itog s) (z_outq s) 0 (z_inq s) (z_addr s) (z_cfg s)))
          else Some (keep 0 (z_ctl s) P_NONE)
      else if c20_list_eqb pkt [HS_ACK] then
        (* the host acknowledges the data packet it has just received *)
        match z_pend s with
        | P_ACK_CTL len =>
            match z_ctl s with
            | C_IN key off wlen pid =>
                let off' := off + len in
                Some (keep 0 (if (len <? 64) || (wlen <=? off') then C_IN_STATUS else C_IN key off' wlen (flipb pid)) P_NONE)
            | c => Some (keep 0 c P_NONE)
            end
        | P_ACK_BULK len =>
            Some (upd 0 (z_ctl s) P_NONE (z_otog s) (flip (z_itog s)) (z_outq s) (z_tent s) (skipn (N.to_nat len) (z_inq s))
                      (z_addr s) (z_cfg s))
        | P_ACK_ZLP =>
            match z_ctl s with
            | C_OUT_STATUS eff =>
                let addr := if (1 <=? eff) && (eff <? 256) then eff - 1 else z_addr s in
                let cfg := if (256 <=? eff) && (eff <? 512) then eff - 256 else z_cfg s in
                (* CLEAR_FEATURE(ENDPOINT_HALT): only the addressed direction of the data endpoint restarts at DATA0 *)
                let otog := if eff =? EFF_CLEAR_OUT then 0 else z_otog s in
                let itog := if eff =? EFF_CLEAR_IN then 0 else z_itog s in
                Some (upd 0 C_IDLE P_NONE otog itog (z_outq s) (z_tent s) (z_inq s) addr cfg)
            | c => Some (keep 0 c P_NONE)
            end
        | _ => Some (keep 0 (z_ctl s) P_NONE)
        end
      else Some (keep 0 (z_ctl s) P_NONE)      (* SOF, other handshakes, damaged packets *)
  end.

(* ---- a complete device packet: (new state, verdict) ---- *)
Definition on_device_packet (P : sparams) (s : sstate) (pkt : list N) : sstate * bool :=
  let set ctl pend naks otog outq tent :=
    {| z_rx := z_rx s; z_tx := None; z_addr := z_addr s; z_cfg := z_cfg s; z_tok := z_tok s; z_ctl := ctl; z_pend := pend;
       z_wait := 0; z_naks := naks; z_otog := otog; z_itog := z_itog s; z_outq := outq; z_tent := tent; z_inq := z_inq s |} in
  let stay ctl pend naks := set ctl pend naks (z_otog s) (z_outq s) (z_tent s) in
  let is b := c20_list_eqb pkt [b] in
  let nak_ok := (is HS_NAK, z_naks s <? sp_naks P) in
  let isdata := is_data_packetb pkt in
  let payload := data_payload pkt in
  let len := N.of_nat (length payload) in
  match z_pend s with
  | P_SETUP req => (stay (classify_request P req) P_NONE 0, is HS_ACK)
  | P_CTL_IN =>
      match z_ctl s with
      | C_IN key off wlen pid =>
          if is HS_NAK then (stay (z_ctl s) P_NONE (z_naks s + 1), z_naks s <? sp_naks P)
          else
            let chunk := firstn 64 (skipn (N.to_nat off) (ctl_data P (z_cfg s) key wlen)) in
            (stay (z_ctl s) (P_ACK_CTL len) 0, isdata && (hd 0 pkt =? pid) && c20_list_eqb payload chunk)
      | C_OUT_STATUS eff =>
          if is HS_NAK then (stay (z_ctl s) P_NONE (z_naks s + 1), z_naks s <? sp_naks P)
          else (stay (z_ctl s) P_ACK_ZLP 0, isdata && (hd 0 pkt =? DATA1B) && (len =? 0))
      | C_STALL => (stay C_ANY P_NONE 0, is HS_STALL)
      | c => (stay C_ANY P_NONE 0, true)
      end
  | P_CTL_OUT plen =>
      match z_ctl s with
      | C_IN_STATUS =>
          if is HS_NAK then (stay (z_ctl s) P_NONE (z_naks s + 1), z_naks s <? sp_naks P)
          else (stay C_IDLE P_NONE 0, is HS_ACK)
      | C_OUT_DATA rem pid =>
          (stay (if (rem <=? plen) || (plen <? 64) then C_OUT_STATUS 0 else C_OUT_DATA (rem - plen) (flipb pid)) P_NONE 0,
           is HS_ACK)
      | C_STALL => (stay C_ANY P_NONE 0, is HS_STALL)
      | c => (stay C_ANY P_NONE 0, true)
      end
  | P_BULK_IN =>
      if is HS_NAK then (stay (z_ctl s) P_NONE (z_naks s), true)
      else (stay (z_ctl s) (P_ACK_BULK len) (z_naks s),
            isdata && (hd 0 pkt =? togb (z_itog s)) && (len <=? sp_mps P) && starts_with payload (z_inq s))
  | P_BULK_OUT =>
      if is HS_ACK then
        (set (z_ctl s) P_NONE (z_naks s) (if z_tent s =? 0 then z_otog s else flip (z_otog s)) (z_outq s) 0, true)
      else if is HS_NAK then
        (* nothing of the refused packet may have reached the stream *)
        let n := N.of_nat (length (z_outq s)) in
        let t := z_tent s - 1 in
        (set (z_ctl s) P_NONE (z_naks s) (z_otog s) (firstn (N.to_nat (n - t)) (z_outq s)) 0, t <=? n)
      else (stay (z_ctl s) P_NONE (z_naks s), false)
  | P_STATUS_IN => (stay (z_ctl s) P_NONE (z_naks s), is HS_NAK)
  | _ => (stay (z_ctl s) P_NONE (z_naks s), true)
  end.

(* ---- one cycle ----  None = the host (or a stream partner) broke its obligations; ok = false = the device is wrong *)
Definition c57_step (P : sparams) (s : sstate) (i o : N) : option (sstate * bool) :=
  let rxa := si_rxa i in let txv := so_txv o in
  if si_rxv i && negb rxa then None else
  (* 1. the byte streams *)
  let inq1 := if si_tvalid i && so_tready o then z_inq s ++ [si_tpayload i] else z_inq s in
  let deliver := so_rvalid o && si_rready i in
  let ok_stream := if deliver then match z_outq s with b :: _ => b =? so_rpayload o | [] => false end else true in
  let outq1 := if deliver then tl (z_outq s) else z_outq s in
  let s1 := {| z_rx := z_rx s; z_tx := z_tx s; z_addr := z_addr s; z_cfg := z_cfg s; z_tok := z_tok s; z_ctl := z_ctl s;
               z_pend := z_pend s; z_wait := if z_wait s <? sp_T P then z_wait s + 1 else z_wait s; z_naks := z_naks s;
               z_otog := z_otog s; z_itog := z_itog s; z_outq := outq1; z_tent := z_tent s; z_inq := inq1 |} in
  let with_rx s r := {| z_rx := r; z_tx := z_tx s; z_addr := z_addr s; z_cfg := z_cfg s; z_tok := z_tok s; z_ctl := z_ctl s;
               z_pend := z_pend s; z_wait := z_wait s; z_naks := z_naks s; z_otog := z_otog s; z_itog := z_itog s;
               z_outq := z_outq s; z_tent := z_tent s; z_inq := z_inq s |} in
  let with_pend s p := {| z_rx := z_rx s; z_tx := z_tx s; z_addr := z_addr s; z_cfg := z_cfg s; z_tok := z_tok s; z_ctl := z_ctl s;
               z_pend := p; z_wait := z_wait s; z_naks := z_naks s; z_otog := z_otog s; z_itog := z_itog s;
               z_outq := z_outq s; z_tent := z_tent s; z_inq := z_inq s |} in
  let with_tx s t w := {| z_rx := z_rx s; z_tx := t; z_addr := z_addr s; z_cfg := z_cfg s; z_tok := z_tok s; z_ctl := z_ctl s;
               z_pend := z_pend s; z_wait := w; z_naks := z_naks s; z_otog := z_otog s; z_itog := z_itog s;
               z_outq := z_outq s; z_tent := z_tent s; z_inq := z_inq s |} in
  (* 2. the host's packet *)
  let after_rx : option (sstate * bool) :=
    match z_rx s1 with
    | None =>
        if rxa then
          (* a host packet starts *)
          if (match z_tx s1 with Some _ => true | None => false end) || txv then None
          else if awaits_device (z_pend s1) then
            (if z_wait s1 <? sp_T P then None            (* the host did not wait for the answer *)
             else Some (with_rx s1 (Some []), false))    (* the device did not answer in time *)
          else Some (with_rx s1 (Some []), true)
        else Some (s1, true)
    | Some l =>
        if rxa then Some (with_rx s1 (Some (if si_rxv i then l ++ [si_rxd i] else l)), true)
        else match on_host_packet P s1 l with Some s2 => Some (s2, true) | None => None end
    end in
  match after_rx with
  | None => None
  | Some (s2, ok2) =>
      (* 3. the device's packet *)
      match z_tx s2 with
      | None =>
          if txv then Some (with_tx s2 (Some (if si_ready i then [so_txd o] else [])) 0, ok_stream && ok2)
          else if awaits_device (z_pend s2) && (sp_T P <=? z_wait s2) && negb rxa
               then (* no answer within the host's patience: a failure, except (weak reading) for a data packet of an OUT data
                       stage of a request that must be STALLed -- the STALL is then still owed at the status stage *)
                    (if negb (sp_strict P) && (match z_pend s2, z_ctl s2 with P_CTL_OUT _, C_STALL => true | _, _ => false end)
                     then Some (with_pend s2 P_NONE, ok_stream && ok2) else Some (s2, false))
               else Some (s2, ok_stream && ok2)
      | Some l =>
          if txv then Some (with_tx s2 (Some (if si_ready i then l ++ [so_txd o] else l)) 0, ok_stream && ok2)
          else let (s3, ok3) := on_device_packet P s2 l in Some (s3, ok_stream && ok2 && ok3)
      end
  end.

(* ---- packing into N (run-time oracle) ---- *)
Definition olist_enc (o : option (list N)) : N := match o with None => 0 | Some l => bytes_enc l end.
Definition olist_dec (n : N) : option (list N) := match n with 0 => None | _ => Some (bytes_dec n) end.
Definition cphase_enc (c : cphase) : list N :=
  match c with
  | C_IDLE => [0; 0; 0; 0; 0] | C_IN k o w p => [1; k; o; w; p] | C_IN_STATUS => [2; 0; 0; 0; 0]
  | C_OUT_DATA r p => [3; r; p; 0; 0] | C_OUT_STATUS e => [4; e; 0; 0; 0] | C_STALL => [5; 0; 0; 0; 0] | C_ANY => [6; 0; 0; 0; 0]
  end.
Definition cphase_dec (t a b c d : N) : cphase :=
  match t with 0 => C_IDLE | 1 => C_IN a b c d | 2 => C_IN_STATUS | 3 => C_OUT_DATA a b | 4 => C_OUT_STATUS a | 5 => C_STALL | _ => C_ANY end.
Definition pend_enc (p : pend) : list N :=
  match p with
  | P_NONE => [0; 0] | P_SETUP r => [1; r] | P_CTL_IN => [2; 0] | P_CTL_OUT l => [3; l] | P_BULK_IN => [4; 0]
  | P_BULK_OUT => [5; 0] | P_STATUS_IN => [6; 0] | P_ACK_CTL l => [7; l] | P_ACK_BULK l => [8; l] | P_ACK_ZLP => [9; 0]
  end.
Definition pend_dec (t a : N) : pend :=
  match t with
  | 0 => P_NONE | 1 => P_SETUP a | 2 => P_CTL_IN | 3 => P_CTL_OUT a | 4 => P_BULK_IN | 5 => P_BULK_OUT | 6 => P_STATUS_IN
  | 7 => P_ACK_CTL a | 8 => P_ACK_BULK a | _ => P_ACK_ZLP
  end.
Definition s_fields (s : sstate) : list N :=
  [olist_enc (z_rx s); olist_enc (z_tx s); z_addr s; z_cfg s; z_tok s] ++ cphase_enc (z_ctl s) ++ pend_enc (z_pend s) ++
  [z_wait s; z_naks s; z_otog s; z_itog s; bytes_enc (z_outq s); z_tent s; bytes_enc (z_inq s)].
Definition s_of_fields (l : list N) : sstate :=
  match l with
  | [rx; tx; addr; cfg; tok; ct; ca; cb; cc; cd; pt; pa; wait; naks; otog; itog; outq; tent; inq] =>
      {| z_rx := olist_dec rx; z_tx := olist_dec tx; z_addr := addr; z_cfg := cfg; z_tok := tok;
         z_ctl := cphase_dec ct ca cb cc cd; z_pend := pend_dec pt pa; z_wait := wait; z_naks := naks;
         z_otog := otog; z_itog := itog; z_outq := bytes_dec outq; z_tent := tent; z_inq := bytes_dec inq |}
  | _ => s_init
  end.
Definition s_enc (s : sstate) : N := lenc (s_fields s).
Definition s_dec (m : N) : sstate := s_of_fields (ldec 19 m).

Definition c57_mon (P : sparams) (m i o : N) : option (N * bool) :=
  match c57_step P (s_dec m) i o with
  | Some (s', ok) => Some (s_enc s', ok)
  | None => None
  end.
