(* C01 -- proofs about Model/TokenDet.v: the FSM model of USBTokenDetector refines the packet-level
   specification (simulation relation with a "doomed prefix" predicate for the IRRELEVANT state),
   reading lemmas for the specification, and packing lemmas for the lock-step obligations. *)
From Coq Require Import NArith ZArith List Bool Lia ZifyBool ZifyN.
Import ListNotations.
From LunaLib Require Import Netlist Bits Machine PackN.
From LunaModel Require Import Crc Handshake Handshake_proofs TokenDet.
Open Scope N_scope.
Ltac Zify.zify_post_hook ::= Z.div_mod_to_equations.

(* ---- byte-level facts, by exhaustive evaluation ------------------------------------------------ *)
Definition find_tok (p : N) : option N := find (fun q => p =? pid_byte q) token_pids.

Definition pid_fact (p : N) : bool :=
  if accept_pid p then
    if p =? pid_byte PID_SOF then bits p 0 4 =? 5
    else negb (bits p 0 4 =? 5) && match find_tok p with Some q => q =? bits p 0 4 | None => false end
  else negb (p =? pid_byte PID_SOF) && match find_tok p with None => true | Some _ => false end.
Lemma pid_fact_all : forall_bits 8 pid_fact = true.
Proof. vm_compute. reflexivity. Qed.

Lemma pid_accepted : forall p, p < 256 -> accept_pid p = true ->
  ((p =? pid_byte PID_SOF) = true /\ (bits p 0 4 =? 5) = true) \/
  ((p =? pid_byte PID_SOF) = false /\ (bits p 0 4 =? 5) = false /\ find_tok p = Some (bits p 0 4)).
Proof.
  intros p Hp A. pose proof (forall_bits_sound 8 pid_fact pid_fact_all p Hp) as H.
  unfold pid_fact in H. rewrite A in H. destruct (p =? pid_byte PID_SOF).
  - left. auto.
  - right. apply andb_true_iff in H as [H1 H2]. apply negb_true_iff in H1.
    destruct (find_tok p) as [q|]; [|discriminate]. apply N.eqb_eq in H2. subst q. auto.
Qed.

Lemma pid_rejected : forall p, p < 256 -> accept_pid p = false ->
  (p =? pid_byte PID_SOF) = false /\ find_tok p = None.
Proof.
  intros p Hp A. pose proof (forall_bits_sound 8 pid_fact pid_fact_all p Hp) as H.
  unfold pid_fact in H. rewrite A in H. apply andb_true_iff in H as [H1 H2]. apply negb_true_iff in H1.
  destruct (find_tok p); [discriminate|]. auto.
Qed.

Lemma byte_bits : forall b, b < 256 -> bits b 0 8 = b /\ bits b 0 3 = b mod 8 /\ bits b 3 5 = b / 8.
Proof.
  intros b Hb.
  assert (H : forall_bits 8 (fun b => (bits b 0 8 =? b) && (bits b 0 3 =? b mod 8) && (bits b 3 5 =? b / 8)) = true)
    by (vm_compute; reflexivity).
  pose proof (forall_bits_sound 8 _ H b Hb) as E. cbv beta in E.
  apply andb_true_iff in E as [E E3]. apply andb_true_iff in E as [E1 E2].
  apply N.eqb_eq in E1, E2, E3. auto.
Qed.

Lemma payload_bits : forall v, v < 2048 -> bits v 0 7 = v mod 128 /\ bits v 7 4 = v / 128.
Proof.
  intros v Hv.
  assert (H : forall_bits 11 (fun v => (bits v 0 7 =? v mod 128) && (bits v 7 4 =? v / 128)) = true)
    by (vm_compute; reflexivity).
  pose proof (forall_bits_sound 11 _ H v Hv) as E. cbv beta in E.
  apply andb_true_iff in E as [E1 E2]. apply N.eqb_eq in E1, E2. auto.
Qed.

Lemma bits_spec : forall x lo w, bits x lo w = (x / 2 ^ lo) mod 2 ^ w.
Proof. intros. unfold bits. rewrite N.land_ones, N.shiftr_div_pow2. reflexivity. Qed.

Lemma tok_payload_lt : forall b0 b1, b0 < 256 -> tok_payload b0 b1 < 2048.
Proof. intros. unfold tok_payload. lia. Qed.

(* ---- packets that can no longer become a token ------------------------------------------------- *)
Definition doomed (filt : bool) (l : list N) : Prop := forall ext a, classify filt a (l ++ ext) = EvNone.

Lemma doomed_snoc : forall filt l b, doomed filt l -> doomed filt (l ++ [b]).
Proof. intros filt l b H ext a. rewrite <- app_assoc. apply H. Qed.

Lemma doomed_bad_pid : forall filt p, p < 256 -> accept_pid p = false -> doomed filt [p].
Proof.
  intros filt p Hp A ext a. destruct (pid_rejected p Hp A) as [E1 E2].
  destruct ext as [|b0 [|b1 [|b2 ext]]]; try reflexivity.
  cbn [app classify]. fold (find_tok p). rewrite E1, E2.
  destruct (negb (crc5_usb (tok_payload b0 b1) =? tok_crc b1)); reflexivity.
Qed.

Lemma doomed_bad_crc : forall filt p b0 b1, (crc5_usb (tok_payload b0 b1) =? tok_crc b1) = false ->
  doomed filt [p; b0; b1].
Proof.
  intros filt p b0 b1 E ext a. destruct ext as [|b2 ext]; [|reflexivity].
  cbn [app classify]. rewrite E. reflexivity.
Qed.

Lemma doomed_long : forall filt p b0 b1 b2, doomed filt [p; b0; b1; b2].
Proof. intros filt p b0 b1 b2 ext a. reflexivity. Qed.

(* ---- the simulation relation ------------------------------------------------------------------- *)
Definition td_rel (filt : bool) (s : td_state) (sp : tsp_state) : Prop :=
  td_regs s = snd sp /\
  match td_f s with
  | T_IDLE => fst sp = None
  | T_READ_PID => fst sp = Some []
  | T_READ_TOKEN_0 => exists p, fst sp = Some [p] /\ p < 256 /\ accept_pid p = true /\ td_cpid s = bits p 0 4
  | T_READ_TOKEN_1 => exists p b0, fst sp = Some [p; b0] /\ p < 256 /\ accept_pid p = true /\
                                   td_cpid s = bits p 0 4 /\ b0 < 256 /\ td_data s = b0
  | T_TOKEN_COMPLETE => exists p b0 b1, fst sp = Some [p; b0; b1] /\ p < 256 /\ accept_pid p = true /\
                                   td_cpid s = bits p 0 4 /\ b0 < 256 /\
                                   (crc5_usb (tok_payload b0 b1) =? tok_crc b1) = true /\
                                   td_data s = tok_payload b0 b1
  | T_IRRELEVANT => exists l, fst sp = Some l /\ doomed filt l
  end.

Lemma td_rel_init : forall filt, td_rel filt td_init tsp_init.
Proof. intro. split; reflexivity. Qed.

Ltac td_simp := cbn [td_f td_cpid td_data td_regs fst snd negb app] in *.

Lemma td_rel_step : forall filt s sp i, td_rel filt s sp ->
  td_rel filt (fst (td_step filt s i)) (fst (tsp_step filt sp i)) /\
  snd (td_step filt s i) = snd (tsp_step filt sp i).
Proof.
  intros filt [f cp td r] [p r'] i [Hr Hf]. td_simp. subst r'.
  unfold td_step, tsp_step, td_rel, tok_event_of. td_simp.
  split; [|reflexivity].
  pose proof (d_dat_bound i) as Hd.
  destruct f.
  - (* IDLE *) subst p. unfold pk_next, pk_done.
    destruct (d_act i); td_simp; split; reflexivity.
  - (* READ_PID *) subst p. unfold pk_next, pk_done.
    destruct (d_act i); td_simp; [|split; reflexivity].
    destruct (d_val i); td_simp; [|split; reflexivity].
    destruct (accept_pid (d_dat i)) eqn:A; td_simp; (split; [reflexivity|]).
    + exists (d_dat i). auto.
    + exists [d_dat i]. split; [reflexivity|]. apply doomed_bad_pid; assumption.
  - (* READ_TOKEN_0 *) destruct Hf as (q & -> & Hq & A & Hc). unfold pk_next, pk_done.
    destruct (d_act i); td_simp; [|split; reflexivity].
    destruct (d_val i); td_simp; (split; [reflexivity|]).
    + exists q, (d_dat i). auto 10.
    + exists q. auto.
  - (* IRRELEVANT *) destruct Hf as (l & -> & Hl). unfold pk_next, pk_done.
    destruct (d_act i); td_simp.
    + split; [reflexivity|]. destruct (d_val i).
      * exists (l ++ [d_dat i]). split; [reflexivity|]. apply doomed_snoc. exact Hl.
      * exists l. auto.
    + split; [|reflexivity]. specialize (Hl [] (t_address i)). rewrite app_nil_r in Hl. rewrite Hl. reflexivity.
  - (* READ_TOKEN_1 *) destruct Hf as (q & b0 & -> & Hq & A & Hc & Hb0 & Ht). subst td. unfold pk_next, pk_done.
    destruct (d_act i); td_simp; [|split; reflexivity].
    destruct (d_val i); td_simp; [|split; [reflexivity|]; exists q, b0; auto 10].
    destruct (byte_bits b0 Hb0) as [B0 _]. destruct (byte_bits (d_dat i) Hd) as (_ & B1 & B2).
    rewrite B0, B1, B2. fold (tok_payload b0 (d_dat i)). fold (tok_crc (d_dat i)). rewrite N.eqb_sym.
    destruct (crc5_usb (tok_payload b0 (d_dat i)) =? tok_crc (d_dat i)) eqn:C; td_simp; (split; [reflexivity|]).
    + exists q, b0, (d_dat i). auto 10.
    + exists [q; b0; d_dat i]. split; [reflexivity|]. apply doomed_bad_crc. exact C.
  - (* TOKEN_COMPLETE *) destruct Hf as (q & b0 & b1 & -> & Hq & A & Hc & Hb0 & C & Ht). subst td cp.
    unfold pk_next, pk_done.
    destruct (d_act i); td_simp.
    + destruct (d_val i); td_simp; (split; [reflexivity|]).
      * exists [q; b0; b1; d_dat i]. split; [reflexivity|]. apply doomed_long.
      * exists q, b0, b1. auto 10.
    + cbn [classify]. rewrite C. cbn [negb]. fold (find_tok q).
      destruct (payload_bits _ (tok_payload_lt b0 b1 Hb0)) as [P1 P2]. rewrite P1, P2.
      destruct (pid_accepted q Hq A) as [[E1 E2]|(E1 & E2 & E3)]; rewrite E1, E2; [split; reflexivity|].
      rewrite E3.
      destruct (negb filt || (tok_payload b0 b1 mod 128 =? t_address i)); split; reflexivity.
Qed.

Theorem td_refines : forall filt tr s sp, td_rel filt s sp ->
  run (td_step filt) s tr = run (tsp_step filt) sp tr.
Proof.
  induction tr as [|i tr IH]; intros s sp H; [reflexivity|].
  destruct (td_rel_step filt s sp i H) as [Hn Ho].
  cbn [run]. destruct (td_step filt s i) as [s' o]. destruct (tsp_step filt sp i) as [sp' o'].
  cbn [fst snd] in *. subst o'. f_equal. apply IH. exact Hn.
Qed.

Corollary td_from_reset : forall filt tr, run (td_step filt) td_init tr = run (tsp_step filt) tsp_init tr.
Proof. intros. apply td_refines. apply td_rel_init. Qed.

(* ================================================================================================ *)
(* Reading the specification.                                                                      *)

(* (a) the packet in progress is the byte list of the maximal all-active suffix of the history *)
Lemma tl_snoc : forall (A : Type) (c : list A) x, c <> [] -> tl (c ++ [x]) = tl c ++ [x].
Proof. intros A [|a c] x H; [congruence | reflexivity]. Qed.

Lemma cur_pkt_closed_form : forall h, cur_pkt h = pkt_in_progress h.
Proof.
  induction h as [|x h IH] using rev_ind; [reflexivity|].
  unfold cur_pkt in *. rewrite fold_left_app. cbn [fold_left]. rewrite IH.
  unfold pkt_in_progress, run_cycles. rewrite rev_app_distr. cbn [rev app active_prefix].
  destruct (d_act x) eqn:A.
  - cbn [rev]. destruct (rev (active_prefix (rev h))) as [|c0 c] eqn:E.
    + cbn [app]. unfold pk_next. rewrite A. reflexivity.
    + unfold pk_next. rewrite A. change ((c0 :: c) ++ [x]) with (c0 :: (c ++ [x])).
      f_equal. unfold run_bytes. cbn [tl]. rewrite filter_app, map_app. cbn [filter].
      destruct (d_val x); cbn [map]; [reflexivity | rewrite app_nil_r; reflexivity].
  - cbn [rev]. unfold pk_next. rewrite A. destruct (rev (active_prefix (rev h))); reflexivity.
Qed.

Lemma tsp_state_after : forall filt h,
  run_state (tsp_step filt) tsp_init h = (cur_pkt h, regs_after filt h).
Proof.
  intros filt h. unfold regs_after. induction h as [|x h IH] using rev_ind; [reflexivity|].
  rewrite run_state_app. cbn [run_state]. rewrite IH. cbn [tsp_step fst snd].
  unfold cur_pkt. rewrite fold_left_app. reflexivity.
Qed.

(* (b) one cycle of the specification, in closed form *)
Lemma regs_after_snoc : forall filt h x,
  regs_after filt (h ++ [x]) = apply_event (tok_event_of filt (pkt_in_progress h) x) (regs_after filt h).
Proof.
  intros filt h x. unfold regs_after at 1. rewrite run_state_app. cbn [run_state].
  rewrite tsp_state_after. cbn [tsp_step fst snd]. rewrite cur_pkt_closed_form. reflexivity.
Qed.

Lemma run_nth : forall (S : Type) (step : S -> N -> S * N) h x rest s,
  nth (length h) (run step s (h ++ x :: rest)) 0 = snd (step (run_state step s h) x).
Proof.
  intros S step h x rest s. rewrite run_app. rewrite app_nth2; rewrite run_length; [|lia].
  rewrite Nat.sub_diag. cbn [run]. destruct (step (run_state step s h) x). reflexivity.
Qed.

(* (c) the model's output word in cycle |h| shows the specification's registers after h *)
Theorem td_output_at : forall filt h x rest,
  nth (length h) (run (td_step filt) td_init (h ++ x :: rest)) 0 = regs_out (regs_after filt h).
Proof.
  intros. rewrite td_from_reset, run_nth, tsp_state_after. reflexivity.
Qed.

Theorem td_output_next : forall filt h x y rest,
  nth (S (length h)) (run (td_step filt) td_init (h ++ x :: y :: rest)) 0
  = regs_out (apply_event (tok_event_of filt (pkt_in_progress h) x) (regs_after filt h)).
Proof.
  intros. replace (h ++ x :: y :: rest) with ((h ++ [x]) ++ y :: rest) by (rewrite <- app_assoc; reflexivity).
  replace (S (length h)) with (length (h ++ [x])) by (rewrite app_length; cbn [length]; lia).
  rewrite td_output_at, regs_after_snoc. reflexivity.
Qed.

(* (d) what the classification means *)
Lemma tok_event_of_some : forall filt p x e, e <> EvNone ->
  (tok_event_of filt p x = e <-> exists pkt, p = Some pkt /\ d_act x = false /\ classify filt (t_address x) pkt = e).
Proof.
  intros filt p x e Hne. unfold tok_event_of, pk_done. split.
  - destruct p as [l|]; [|intro H; congruence]. destruct (d_act x); [intro H; congruence|].
    intro H. exists l. auto.
  - intros (pkt & -> & A & C). rewrite A. exact C.
Qed.

Lemma find_tok_spec : forall p q, find_tok p = Some q <-> In q token_pids /\ p = pid_byte q.
Proof.
  intros p q. unfold find_tok, token_pids. cbn [find In]. split.
  - destruct (p =? pid_byte PID_OUT) eqn:E1; [apply N.eqb_eq in E1; intro H; inversion H; subst; auto|].
    destruct (p =? pid_byte PID_IN) eqn:E2; [apply N.eqb_eq in E2; intro H; inversion H; subst; auto|].
    destruct (p =? pid_byte PID_SETUP) eqn:E3; [apply N.eqb_eq in E3; intro H; inversion H; subst; auto|].
    destruct (p =? pid_byte PID_PING) eqn:E4; [apply N.eqb_eq in E4; intro H; inversion H; subst; auto 6|].
    discriminate.
  - intros [[H|[H|[H|[H|[]]]]] ->]; subst q; reflexivity.
Qed.

Theorem classify_token_iff : forall filt addr pkt q a e,
  classify filt addr pkt = EvToken q a e <->
  exists b0 b1, pkt = [pid_byte q; b0; b1] /\ In q token_pids /\
                crc5_usb (tok_payload b0 b1) = tok_crc b1 /\
                a = tok_payload b0 b1 mod 128 /\ e = tok_payload b0 b1 / 128 /\
                (filt = true -> a = addr).
Proof.
  intros filt addr pkt q a e. split.
  - destruct pkt as [|p [|b0 [|b1 [|b2 pkt]]]]; try discriminate. cbn [classify]. fold (find_tok p).
    destruct (crc5_usb (tok_payload b0 b1) =? tok_crc b1) eqn:C; [|discriminate]. cbn [negb].
    destruct (p =? pid_byte PID_SOF); [discriminate|].
    destruct (find_tok p) as [q'|] eqn:F; [|discriminate].
    destruct (negb filt || (tok_payload b0 b1 mod 128 =? addr)) eqn:M; [|discriminate].
    intro H. inversion H; subst. apply find_tok_spec in F as [Hin ->]. apply N.eqb_eq in C.
    exists b0, b1. repeat split; auto. intros ->. cbn [negb orb] in M. apply N.eqb_eq in M. exact M.
  - intros (b0 & b1 & -> & Hin & C & -> & -> & Hf). cbn [classify]. fold (find_tok (pid_byte q)).
    apply N.eqb_eq in C. rewrite C. cbn [negb].
    assert (F : find_tok (pid_byte q) = Some q) by (apply find_tok_spec; auto). rewrite F.
    assert (S : (pid_byte q =? pid_byte PID_SOF) = false).
    { destruct Hin as [H|[H|[H|[H|[]]]]]; subst q; reflexivity. }
    rewrite S. destruct filt; cbn [negb orb]; [|reflexivity].
    rewrite <- (Hf eq_refl), N.eqb_refl. reflexivity.
Qed.

Theorem classify_sof_iff : forall filt addr pkt f,
  classify filt addr pkt = EvSof f <->
  exists b0 b1, pkt = [pid_byte PID_SOF; b0; b1] /\ crc5_usb (tok_payload b0 b1) = tok_crc b1 /\ f = tok_payload b0 b1.
Proof.
  intros filt addr pkt f. split.
  - destruct pkt as [|p [|b0 [|b1 [|b2 pkt]]]]; try discriminate. cbn [classify]. fold (find_tok p).
    destruct (crc5_usb (tok_payload b0 b1) =? tok_crc b1) eqn:C; [|discriminate]. cbn [negb].
    destruct (p =? pid_byte PID_SOF) eqn:S.
    + intro H. inversion H; subst. apply N.eqb_eq in S, C. subst p. exists b0, b1. auto.
    + destruct (find_tok p); [|discriminate].
      destruct (negb filt || (tok_payload b0 b1 mod 128 =? addr)); discriminate.
  - intros (b0 & b1 & -> & C & ->). cbn [classify]. apply N.eqb_eq in C. rewrite C. reflexivity.
Qed.

Theorem classify_foreign_iff : forall filt addr pkt,
  classify filt addr pkt = EvForeign <->
  exists q b0 b1, pkt = [pid_byte q; b0; b1] /\ In q token_pids /\
                  crc5_usb (tok_payload b0 b1) = tok_crc b1 /\ filt = true /\ tok_payload b0 b1 mod 128 <> addr.
Proof.
  intros filt addr pkt. split.
  - destruct pkt as [|p [|b0 [|b1 [|b2 pkt]]]]; try discriminate. cbn [classify]. fold (find_tok p).
    destruct (crc5_usb (tok_payload b0 b1) =? tok_crc b1) eqn:C; [|discriminate]. cbn [negb].
    destruct (p =? pid_byte PID_SOF); [discriminate|].
    destruct (find_tok p) as [q|] eqn:F; [|discriminate].
    destruct filt; cbn [negb orb]; [|discriminate].
    destruct (tok_payload b0 b1 mod 128 =? addr) eqn:M; [discriminate|]. intros _.
    apply find_tok_spec in F as [Hin ->]. apply N.eqb_eq in C. apply N.eqb_neq in M.
    exists q, b0, b1. auto 10.
  - intros (q & b0 & b1 & -> & Hin & C & -> & M). cbn [classify]. fold (find_tok (pid_byte q)).
    apply N.eqb_eq in C. rewrite C. cbn [negb].
    assert (F : find_tok (pid_byte q) = Some q) by (apply find_tok_spec; auto). rewrite F.
    assert (S : (pid_byte q =? pid_byte PID_SOF) = false).
    { destruct Hin as [H|[H|[H|[H|[]]]]]; subst q; reflexivity. }
    rewrite S. apply N.eqb_neq in M. rewrite M. reflexivity.
Qed.

(* (e) the fields of the output word *)
Definition o_new_token (o : N) : bool := N.odd o.
Definition o_pid (o : N) : N := bits o 1 4.
Definition o_addr (o : N) : N := bits o 5 7.
Definition o_ep (o : N) : N := bits o 12 4.
Definition o_new_frame (o : N) : bool := N.odd (o / 65536).
Definition o_frame (o : N) : N := bits o 17 11.

Lemma odd_b2n : forall b x, N.odd (b2n b + 2 * x) = b.
Proof. intros b x. rewrite N.odd_add_mul_2. destruct b; reflexivity. Qed.

Lemma regs_out_fields : forall r, regs_ok r ->
  o_new_token (regs_out r) = t_new_token r /\ o_pid (regs_out r) = t_pid r /\ o_addr (regs_out r) = t_addr r /\
  o_ep (regs_out r) = t_ep r /\ o_new_frame (regs_out r) = t_new_frame r /\ o_frame (regs_out r) = t_frame r.
Proof.
  intros [nt p a e nf fr] (Hp & Ha & He & Hf). cbn [t_pid t_addr t_ep t_frame] in *.
  unfold o_new_token, o_pid, o_addr, o_ep, o_new_frame, o_frame, regs_out.
  cbn [t_new_token t_pid t_addr t_ep t_new_frame t_frame]. rewrite !bits_spec.
  change (2 ^ 1) with 2. change (2 ^ 4) with 16. change (2 ^ 5) with 32. change (2 ^ 7) with 128.
  change (2 ^ 12) with 4096. change (2 ^ 17) with 131072. change (2 ^ 11) with 2048.
  split; [apply odd_b2n|].
  assert (E : (b2n nt + 2 * (p + 16 * (a + 128 * (e + 16 * (b2n nf + 2 * fr))))) / 65536 = b2n nf + 2 * fr)
    by (destruct nt, nf; cbn [b2n]; lia).
  rewrite E, odd_b2n.
  destruct nt, nf; cbn [b2n]; repeat split; lia.
Qed.

Lemma cur_pkt_bytes : forall h l, cur_pkt h = Some l -> Forall (fun b => b < 256) l.
Proof.
  induction h as [|x h IH] using rev_ind; intros l; [discriminate|].
  unfold cur_pkt in *. rewrite fold_left_app. cbn [fold_left].
  destruct (fold_left pk_next h None) as [l0|]; unfold pk_next.
  - destruct (d_act x); [|discriminate]. intro H. inversion H; subst. specialize (IH l0 eq_refl).
    destruct (d_val x); [|exact IH]. apply Forall_app. split; [exact IH|]. constructor; [apply d_dat_bound | constructor].
  - destruct (d_act x); [|discriminate]. intro H. inversion H. constructor.
Qed.

Lemma classify_ok : forall filt addr pkt r, Forall (fun b => b < 256) pkt -> regs_ok r ->
  regs_ok (apply_event (classify filt addr pkt) r).
Proof.
  intros filt addr pkt r Hb (Hp & Ha & He & Hf).
  destruct (classify filt addr pkt) as [|f|q a e|] eqn:C; unfold regs_ok; cbn [apply_event t_pid t_addr t_ep t_frame].
  - auto.
  - apply classify_sof_iff in C as (b0 & b1 & -> & _ & ->).
    inversion Hb as [|? ? _ Hb1]; subst. inversion Hb1 as [|? ? Hb0 _]; subst.
    pose proof (tok_payload_lt b0 b1 Hb0). auto.
  - apply classify_token_iff in C as (b0 & b1 & -> & Hin & _ & -> & -> & _).
    inversion Hb as [|? ? _ Hb1]; subst. inversion Hb1 as [|? ? Hb0 _]; subst.
    pose proof (tok_payload_lt b0 b1 Hb0).
    assert (q < 16) by (destruct Hin as [H1|[H1|[H1|[H1|[]]]]]; subst q; reflexivity).
    repeat split; auto; lia.
  - repeat split; auto; lia.
Qed.

Lemma regs_after_ok : forall filt h, regs_ok (regs_after filt h).
Proof.
  intros filt h. induction h as [|x h IH] using rev_ind.
  - unfold regs_after, regs_ok. cbn. lia.
  - rewrite regs_after_snoc. unfold tok_event_of, pk_done. rewrite <- cur_pkt_closed_form.
    destruct (cur_pkt h) as [l|] eqn:E.
    + destruct (d_act x).
      * destruct IH as (?&?&?&?). unfold regs_ok. cbn [apply_event t_pid t_addr t_ep t_frame]. auto.
      * apply classify_ok; [eapply cur_pkt_bytes; eassumption | exact IH].
    + destruct IH as (?&?&?&?). unfold regs_ok. cbn [apply_event t_pid t_addr t_ep t_frame]. auto.
Qed.

Lemma apply_event_ok : forall filt h x,
  regs_ok (apply_event (tok_event_of filt (pkt_in_progress h) x) (regs_after filt h)).
Proof. intros. rewrite <- regs_after_snoc. apply regs_after_ok. Qed.

(* ---- the property, cycle by cycle, on the FSM model from reset --------------------------------- *)
(* h = the history up to (excluding) cycle t, x = the inputs of cycle t; the registered outputs are
   observed in cycle t+1.                                                                        *)
Theorem td_new_token_iff : forall filt h x y rest,
  let o := nth (S (length h)) (run (td_step filt) td_init (h ++ x :: y :: rest)) 0 in
  o_new_token o = true <->
  exists pkt q a e, pkt_in_progress h = Some pkt /\ d_act x = false /\
                    classify filt (t_address x) pkt = EvToken q a e.
Proof.
  intros filt h x y rest o. subst o. rewrite td_output_next.
  destruct (regs_out_fields _ (apply_event_ok filt h x)) as (F & _). rewrite F.
  destruct (tok_event_of filt (pkt_in_progress h) x) as [|f|q a e|] eqn:E; cbn [apply_event t_new_token].
  - split; [discriminate|]. intros (pkt & q & a & e & Hp & A & C).
    assert (X : tok_event_of filt (pkt_in_progress h) x = EvToken q a e)
      by (apply tok_event_of_some; [discriminate | eauto]). congruence.
  - split; [discriminate|]. intros (pkt & q & a & e & Hp & A & C).
    assert (X : tok_event_of filt (pkt_in_progress h) x = EvToken q a e)
      by (apply tok_event_of_some; [discriminate | eauto]). congruence.
  - split; [|reflexivity]. intros _. apply tok_event_of_some in E; [|discriminate].
    destruct E as (pkt & Hp & A & C). eauto 10.
  - split; [discriminate|]. intros (pkt & q & a & e & Hp & A & C).
    assert (X : tok_event_of filt (pkt_in_progress h) x = EvToken q a e)
      by (apply tok_event_of_some; [discriminate | eauto]). congruence.
Qed.

Theorem td_token_fields : forall filt h x y rest pkt q a e,
  pkt_in_progress h = Some pkt -> d_act x = false -> classify filt (t_address x) pkt = EvToken q a e ->
  let o := nth (S (length h)) (run (td_step filt) td_init (h ++ x :: y :: rest)) 0 in
  o_pid o = q /\ o_addr o = a /\ o_ep o = e /\ o_new_frame o = false /\
  o_frame o = o_frame (nth (length h) (run (td_step filt) td_init (h ++ x :: y :: rest)) 0).
Proof.
  intros filt h x y rest pkt q a e Hp A C o. subst o. rewrite td_output_next, td_output_at.
  assert (X : tok_event_of filt (pkt_in_progress h) x = EvToken q a e)
    by (apply tok_event_of_some; [discriminate | eauto]).
  pose proof (apply_event_ok filt h x) as OK. rewrite X in *.
  destruct (regs_out_fields _ OK) as (_ & F1 & F2 & F3 & F4 & F5).
  destruct (regs_out_fields _ (regs_after_ok filt h)) as (_ & _ & _ & _ & _ & G5).
  rewrite F1, F2, F3, F4, F5, G5. cbn [apply_event t_pid t_addr t_ep t_new_frame t_frame]. auto.
Qed.

Theorem td_new_frame_iff : forall filt h x y rest,
  let o := nth (S (length h)) (run (td_step filt) td_init (h ++ x :: y :: rest)) 0 in
  o_new_frame o = true <->
  exists pkt f, pkt_in_progress h = Some pkt /\ d_act x = false /\ classify filt (t_address x) pkt = EvSof f.
Proof.
  intros filt h x y rest o. subst o. rewrite td_output_next.
  destruct (regs_out_fields _ (apply_event_ok filt h x)) as (_ & _ & _ & _ & F & _). rewrite F.
  destruct (tok_event_of filt (pkt_in_progress h) x) as [|f|q a e|] eqn:E; cbn [apply_event t_new_frame].
  - split; [discriminate|]. intros (pkt & f & Hp & A & C).
    assert (X : tok_event_of filt (pkt_in_progress h) x = EvSof f)
      by (apply tok_event_of_some; [discriminate | eauto]). congruence.
  - split; [|reflexivity]. intros _. apply tok_event_of_some in E; [|discriminate].
    destruct E as (pkt & Hp & A & C). eauto 10.
  - split; [discriminate|]. intros (pkt & f & Hp & A & C).
    assert (X : tok_event_of filt (pkt_in_progress h) x = EvSof f)
      by (apply tok_event_of_some; [discriminate | eauto]). congruence.
  - split; [discriminate|]. intros (pkt & f & Hp & A & C).
    assert (X : tok_event_of filt (pkt_in_progress h) x = EvSof f)
      by (apply tok_event_of_some; [discriminate | eauto]). congruence.
Qed.

(* the frame number shown in cycle t+1: the SOF's number if cycle t completed a well-formed SOF,
   otherwise unchanged *)
Theorem td_frame_next : forall filt h x y rest,
  let tr := h ++ x :: y :: rest in
  let o := nth (S (length h)) (run (td_step filt) td_init tr) 0 in
  (forall pkt f, pkt_in_progress h = Some pkt -> d_act x = false -> classify filt (t_address x) pkt = EvSof f ->
                 o_frame o = f) /\
  (o_new_frame o = false -> o_frame o = o_frame (nth (length h) (run (td_step filt) td_init tr) 0)).
Proof.
  intros filt h x y rest tr o. subst o tr. rewrite td_output_next, td_output_at.
  pose proof (apply_event_ok filt h x) as OK.
  destruct (regs_out_fields _ OK) as (_ & _ & _ & _ & F4 & F5).
  destruct (regs_out_fields _ (regs_after_ok filt h)) as (_ & _ & _ & _ & _ & G5).
  rewrite F4, F5, G5. split.
  - intros pkt f Hp A C.
    assert (X : tok_event_of filt (pkt_in_progress h) x = EvSof f)
      by (apply tok_event_of_some; [discriminate | eauto]).
    rewrite X. reflexivity.
  - destruct (tok_event_of filt (pkt_in_progress h) x); cbn [apply_event t_new_frame t_frame]; congruence.
Qed.

(* ================================================================================================ *)
(* Packing (for the lock-step obligations).                                                        *)
Lemma td_fsm_of_code : forall f, td_fsm_of (td_fsm_code f) = f.
Proof. destruct f; reflexivity. Qed.

Lemma unpack11_eq : forall k n, unpack11 k n = unpack 2048 k n.
Proof.
  induction k as [|k IH]; intro n; [reflexivity|]. cbn [unpack11 unpack].
  change 2047 with (N.ones 11). rewrite N.land_ones, N.shiftr_div_pow2, IH. reflexivity.
Qed.

Lemma td_dec_enc : forall s, td_wf s -> td_dec (td_enc s) = s.
Proof.
  intros [f cp td [nt p a e nf fr]] (H1 & H2 & H3 & H4 & H5 & H6). cbn [td_cpid td_data td_regs t_pid t_addr t_ep t_frame] in *.
  unfold td_dec, td_enc.
  change 9%nat with (length (td_fields {| td_f := f; td_cpid := cp; td_data := td;
     td_regs := {| t_new_token := nt; t_pid := p; t_addr := a; t_ep := e; t_new_frame := nf; t_frame := fr |} |})).
  rewrite unpack11_eq, unpack_pack.
  - cbn [td_fields td_of_fields td_f td_cpid td_data td_regs t_new_token t_pid t_addr t_ep t_new_frame t_frame].
    rewrite td_fsm_of_code. destruct nt, nf; reflexivity.
  - unfold td_fields. cbn [td_f td_cpid td_data td_regs t_new_token t_pid t_addr t_ep t_new_frame t_frame].
    repeat constructor; try lia; try (destruct f; cbn [td_fsm_code]; lia); try (destruct nt; cbn [b2n]; lia);
      try (destruct nf; cbn [b2n]; lia).
Qed.

Lemma td_wf_init : td_wf td_init.
Proof. unfold td_wf, regs_ok, td_init. cbn. lia. Qed.

Lemma td_wf_step : forall filt s i, td_wf s -> td_wf (fst (td_step filt s i)).
Proof.
  intros filt [f cp td [nt p a e nf fr]] i (H1 & H2 & H3 & H4 & H5 & H6).
  cbn [td_cpid td_data td_regs t_pid t_addr t_ep t_frame] in *.
  pose proof (d_dat_bound i) as Hd.
  assert (B1 : bits (d_dat i) 0 4 < 16) by (apply (bits_lt _ 0 4)).
  assert (B2 : bits td 0 7 < 128) by (apply (bits_lt _ 0 7)).
  assert (B3 : bits td 7 4 < 16) by (apply (bits_lt _ 7 4)).
  assert (B4 : bits td 0 8 + 256 * bits (d_dat i) 0 3 < 2048).
  { pose proof (bits_lt td 0 8). pose proof (bits_lt (d_dat i) 0 3).
    change (2 ^ 8) with 256 in *. change (2 ^ 3) with 8 in *. lia. }
  unfold td_step, td_wf, regs_ok. cbn [td_f td_cpid td_data td_regs fst].
  destruct f; repeat match goal with |- context [if ?c then _ else _] => destruct c end;
    cbn [td_cpid td_data td_regs apply_event t_pid t_addr t_ep t_frame]; repeat split; auto; lia.
Qed.

(* the specification machine's packing (used only to run it as a monitor over recorded traces) *)
Lemma bytes_enc_snoc : forall l b, bytes_enc (l ++ [b]) = bytes_enc l * 256 + b.
Proof. intros. unfold bytes_enc. rewrite fold_left_app. reflexivity. Qed.

Lemma bytes_enc_pos : forall l, 1 <= bytes_enc l.
Proof. induction l as [|b l IH] using rev_ind; [cbn; lia | rewrite bytes_enc_snoc; lia]. Qed.

Lemma bytes_dec_aux_enc : forall l fuel acc, Forall (fun b => b < 256) l -> (length l <= fuel)%nat ->
  bytes_dec_aux fuel (bytes_enc l) acc = l ++ acc.
Proof.
  induction l as [|b l IH] using rev_ind; intros fuel acc Hb Hf.
  - destruct fuel; reflexivity.
  - apply Forall_app in Hb as [Hl Hb]. inversion Hb as [|? ? Hb' _]; subst.
    rewrite app_length in Hf. cbn [length] in Hf. destruct fuel as [|fuel]; [lia|].
    cbn [bytes_dec_aux]. change 255 with (N.ones 8). rewrite N.land_ones, N.shiftr_div_pow2. change (2 ^ 8) with 256.
    rewrite bytes_enc_snoc. pose proof (bytes_enc_pos l) as P.
    destruct (bytes_enc l * 256 + b <=? 1) eqn:E; [lia|].
    replace ((bytes_enc l * 256 + b) / 256) with (bytes_enc l) by lia.
    replace ((bytes_enc l * 256 + b) mod 256) with b by lia.
    rewrite IH by (auto; lia). rewrite <- app_assoc. reflexivity.
Qed.

Lemma bytes_enc_ge : forall l, 2 ^ (8 * N.of_nat (length l)) <= bytes_enc l.
Proof.
  induction l as [|b l IH] using rev_ind; [cbn; lia|].
  rewrite bytes_enc_snoc, app_length. cbn [length].
  replace (8 * N.of_nat (length l + 1)) with (8 * N.of_nat (length l) + 8) by lia.
  rewrite N.pow_add_r. change (2 ^ 8) with 256. lia.
Qed.

Lemma bytes_dec_enc : forall l, Forall (fun b => b < 256) l -> bytes_dec (bytes_enc l) = l.
Proof.
  intros l Hb. unfold bytes_dec. rewrite bytes_dec_aux_enc; [apply app_nil_r | exact Hb |].
  pose proof (bytes_enc_ge l) as G. pose proof (bytes_enc_pos l) as P.
  assert (L : bytes_enc l < 2 ^ N.size (bytes_enc l)) by (apply N.size_gt).
  assert (8 * N.of_nat (length l) < N.size (bytes_enc l)).
  { apply (N.pow_lt_mono_r_iff 2); lia. }
  lia.
Qed.

(* exhaustive sweeps of a netlist from reset: agreement with the model, hence with the specification *)
Theorem sweep_sound : forall gstep ginit filt w mk, sweep_eq gstep ginit filt w mk = true ->
  forall x, x < 2 ^ N.of_nat w -> run gstep ginit (mk x) = run (tsp_step filt) tsp_init (mk x).
Proof.
  intros gstep ginit filt w mk H x Hx. unfold sweep_eq in H.
  pose proof (forall_bits_sound w _ H x Hx) as E. cbv beta in E. apply list_eqb_eq in E.
  rewrite E. apply td_from_reset.
Qed.

(* every pair of bytes is reached by sweep_pairs; every payload with every listed CRC error by sweep_payloads *)
Lemma sweep_pairs_covers : forall pid off b0 b1, b0 < 256 -> b1 < 256 ->
  sweep_pairs pid off (b0 + 256 * b1) = tok_trace pid b0 b1 ((b0 + off) mod 128) /\ b0 + 256 * b1 < 2 ^ N.of_nat 16.
Proof.
  intros pid off b0 b1 H0 H1. unfold sweep_pairs.
  change 255 with (N.ones 8). change 127 with (N.ones 7). rewrite !N.land_ones, N.shiftr_div_pow2.
  change (2 ^ 8) with 256. change (2 ^ 7) with 128. change (2 ^ N.of_nat 16) with 65536.
  replace ((b0 + 256 * b1) mod 256) with b0 by lia. replace ((b0 + 256 * b1) / 256) with b1 by lia.
  split; [reflexivity | lia].
Qed.

(* the packed specification machine (runtime monitor) decodes what it encodes *)
Lemma pack_lt : forall B l, 0 < B -> Forall (fun x => x < B) l -> pack B l < B ^ N.of_nat (length l).
Proof.
  intros B l HB. induction l as [|x l IH]; intro H; [cbn; lia|].
  inversion H; subst. specialize (IH H3). cbn [pack length]. unfold pk.
  rewrite Nat2N.inj_succ, N.pow_succ_r'. nia.
Qed.

Lemma regs_dec_enc : forall r, regs_ok r -> regs_dec (regs_enc r) = r /\ regs_enc r < 2 ^ 66.
Proof.
  intros [nt p a e nf fr] (Hp & Ha & He & Hf). cbn [t_pid t_addr t_ep t_frame] in *.
  unfold regs_dec, regs_enc. cbn [t_new_token t_pid t_addr t_ep t_new_frame t_frame].
  assert (F : Forall (fun x => x < 2048) [b2n nt; p; a; e; b2n nf; fr]).
  { repeat constructor; try lia; [destruct nt | destruct nf]; cbn [b2n]; lia. }
  split.
  - change 6%nat with (length [b2n nt; p; a; e; b2n nf; fr]). rewrite unpack11_eq, unpack_pack by exact F.
    destruct nt, nf; reflexivity.
  - pose proof (pack_lt 2048 _ ltac:(lia) F) as B. cbn [length] in B. exact B.
Qed.

Lemma tsp_dec_enc : forall p r, regs_ok r -> (forall l, p = Some l -> Forall (fun b => b < 256) l) ->
  tsp_dec (tsp_enc (p, r)) = (p, r).
Proof.
  intros p r Hr Hp. destruct (regs_dec_enc r Hr) as [E B]. unfold tsp_dec, tsp_enc. cbn [fst snd].
  set (x := match p with None => 0 | Some l => bytes_enc l end).
  rewrite N.shiftr_div_pow2, N.land_ones.
  replace ((regs_enc r + 2 ^ 66 * x) / 2 ^ 66) with x by (apply N.div_unique with (regs_enc r); [exact B | lia]).
  replace ((regs_enc r + 2 ^ 66 * x) mod 2 ^ 66) with (regs_enc r) by (apply N.mod_unique with x; [exact B | lia]).
  rewrite E. subst x. destruct p as [l|]; [|reflexivity].
  pose proof (bytes_enc_pos l) as P. destruct (bytes_enc l) eqn:EB; [lia|]. rewrite <- EB.
  rewrite bytes_dec_enc by (apply Hp; reflexivity). reflexivity.
Qed.
