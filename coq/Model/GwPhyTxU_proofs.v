(* C25 -- the usb-domain half of the transmit pipeline (GwPhy.txu) in closed loop with a UTMI driver emits
   SYNC and the bit-stuffed bytes, raises tx_ready once per byte, and is quiet again afterwards. *)
From Coq Require Import NArith List Bool Lia Arith.
Import ListNotations.
From LunaLib Require Import Netlist Machine Bits.
From LunaModel Require Import GwPhyCodec GwPhyCodec_proofs GwPhy.
Open Scope N_scope.

(* ---- closed-loop plumbing ---- *)
Lemma tx_loop_app : forall g1 g2 s q,
  tx_loop 8 s q (g1 ++ g2) =
  tx_loop 8 s q g1 ++ tx_loop 8 (fst (tx_loop_end 8 s q g1)) (snd (tx_loop_end 8 s q g1)) g2.
Proof.
  induction g1 as [|gd g1 IH]; intros g2 s q; [reflexivity|].
  cbn [app tx_loop tx_loop_end]. rewrite IH. reflexivity.
Qed.
Lemma tx_loop_end_app : forall g1 g2 s q,
  tx_loop_end 8 s q (g1 ++ g2) =
  tx_loop_end 8 (fst (tx_loop_end 8 s q g1)) (snd (tx_loop_end 8 s q g1)) g2.
Proof.
  induction g1 as [|gd g1 IH]; intros g2 s q; [reflexivity|].
  cbn [app tx_loop_end]. rewrite IH. reflexivity.
Qed.
Lemma tx_loop_length : forall g s q, length (tx_loop 8 s q g) = length g.
Proof. induction g as [|gd g IH]; intros; cbn [tx_loop length]; [reflexivity | rewrite IH; reflexivity]. Qed.

Definition mkU (f : txfsm) (sp gr r p : N) (gt : bool) (c : N) : txu :=
  {| u_fsm := f; u_sp := sp; u_gray := gr; u_sh := {| sh_reg := r; sh_pos := p; sh_get := gt |}; u_bs := c |}.
Definition mkD (r p : N) (gt : bool) (c : N) : txu := mkU TxData 0 3 r p gt c.

Lemma eqb6_false : forall c, c <= 5 -> N.eqb c 6 = false.
Proof. intros c H. apply N.eqb_neq. lia. Qed.

(* ---- single cycles of the data phase ---- *)
Lemma out_D : forall r p gt c, c <= 5 ->
  u_fit_dat (mkD r p gt c) = bit0 r /\ u_fit_oe (mkD r p gt c) = true /\
  forall oe, u_ready (mkD r p gt c) oe = gt && oe.
Proof.
  intros r p gt c Hc. unfold u_fit_dat, u_fit_oe, u_ready, u_state_data, u_state_sync, u_stall, txbs_stall, txsh_data, mkD, mkU.
  cbn [u_gray u_sh u_bs u_sp sh_reg sh_get]. rewrite (eqb6_false c Hc). cbn.
  repeat split; try (destruct (bit0 r); reflexivity). intro oe. destruct gt; reflexivity.
Qed.

Lemma out_stall : forall f gr r p gt, gr = 3 ->
  u_fit_dat (mkU f 0 gr r p gt 6) = false /\ u_fit_oe (mkU f 0 gr r p gt 6) = true /\
  forall oe, u_ready (mkU f 0 gr r p gt 6) oe = false.
Proof.
  intros f gr r p gt ->. unfold u_fit_dat, u_fit_oe, u_ready, u_state_data, u_state_sync, u_stall, txbs_stall, txsh_data, mkU.
  cbn [u_gray u_sh u_bs u_sp sh_reg sh_get]. cbn. repeat split.
  - destruct (bit0 r); reflexivity.
  - intro oe. destruct gt; reflexivity.
Qed.

Definition cnt_next (c : N) (x : bool) : N := if x then c + 1 else 0.

Lemma next_mid : forall r p gt c data oe, c <= 5 -> bit0 p = false ->
  txu_next 8 (mkD r p gt c) data oe = mkD (r / 2) (p / 2) false (cnt_next c (bit0 r)).
Proof.
  intros r p gt c data oe Hc Hp. unfold txu_next, mkD, mkU, u_stall, txbs_stall, txsh_next, txsh_empty, txsh_data, txbs_next, cnt_next.
  cbn [u_fsm u_sp u_gray u_sh u_bs sh_reg sh_pos sh_get]. rewrite (eqb6_false c Hc), Hp.
  change (N.testbit 0 1) with false. cbn [negb andb]. rewrite andb_false_r. cbn [andb]. reflexivity.
Qed.

Lemma next_stall : forall r p gt data oe,
  txu_next 8 (mkD r p gt 6) data oe = mkD r p gt 0.
Proof.
  intros. unfold txu_next, mkD, mkU, u_stall, txbs_stall, txsh_next, txsh_empty, txsh_data, txbs_next.
  cbn [u_fsm u_sp u_gray u_sh u_bs sh_reg sh_pos sh_get]. change (N.eqb 6 6) with true.
  change (N.testbit 0 1) with false. cbn [negb andb]. rewrite andb_false_r. reflexivity.
Qed.

Lemma next_load : forall r p gt c data, c <= 5 -> bit0 p = true ->
  txu_next 8 (mkD r p gt c) data true = mkD (data mod 256) 128 true (cnt_next c (bit0 r)).
Proof.
  intros r p gt c data Hc Hp. unfold txu_next, mkD, mkU, u_stall, txbs_stall, txsh_next, txsh_empty, txsh_data, txbs_next, cnt_next.
  cbn [u_fsm u_sp u_gray u_sh u_bs sh_reg sh_pos sh_get]. rewrite (eqb6_false c Hc), Hp.
  change (N.testbit 0 1) with false. cbn [negb andb]. reflexivity.
Qed.

Lemma next_end : forall r p gt c data, c <= 5 -> bit0 p = true ->
  txu_next 8 (mkD r p gt c) data false =
  if N.eqb c 5 && bit0 r then mkU TxLast 0 3 (data mod 256) 128 true 6
  else mkU TxIdle 0 2 (data mod 256) 128 true (cnt_next c (bit0 r)).
Proof.
  intros r p gt c data Hc Hp. unfold txu_next, mkD, mkU, u_stall, txbs_stall, txbs_will_stall, txsh_next, txsh_empty, txsh_data, txbs_next, cnt_next.
  cbn [u_fsm u_sp u_gray u_sh u_bs sh_reg sh_pos sh_get]. rewrite (eqb6_false c Hc), Hp.
  change (N.testbit 0 1) with false. cbn [negb andb].
  destruct (N.eqb c 5) eqn:E5; cbn [andb]; [|reflexivity].
  apply N.eqb_eq in E5. subst c. destruct (bit0 r); reflexivity.
Qed.

Lemma next_last : forall r p gt data oe,
  txu_next 8 (mkU TxLast 0 3 r p gt 6) data oe = mkU TxIdle 0 2 r p gt 0.
Proof.
  intros. unfold txu_next, mkU, u_stall, txbs_stall, txsh_next, txsh_empty, txsh_data, txbs_next.
  cbn [u_fsm u_sp u_gray u_sh u_bs sh_reg sh_pos sh_get]. change (N.eqb 6 6) with true.
  change (N.testbit 0 1) with false. cbn [negb]. reflexivity.
Qed.

(* ---- the shifter as a list of remaining bits ---- *)
Definition posN (k : nat) : N := 2 ^ N.of_nat (k - 1).

Lemma odd_bits2N : forall x t, bit0 (bits2N (x :: t)) = x.
Proof.
  intros x t. unfold bit0. cbn [bits2N]. destruct x.
  - rewrite N.odd_add_mul_2. reflexivity.
  - rewrite N.add_0_l, N.odd_mul. reflexivity.
Qed.
Lemma div2_bits2N : forall x t, bits2N (x :: t) / 2 = bits2N t.
Proof.
  intros x t. cbn [bits2N]. destruct x.
  - replace (1 + 2 * bits2N t) with (1 + bits2N t * 2) by lia. rewrite N.div_add by discriminate. reflexivity.
  - rewrite N.add_0_l, N.mul_comm, N.div_mul by discriminate. reflexivity.
Qed.
Lemma posN_1 : bit0 (posN 1) = true.
Proof. reflexivity. Qed.
Lemma posN_SS : forall k, bit0 (posN (S (S k))) = false /\ posN (S (S k)) / 2 = posN (S k).
Proof.
  intro k. unfold posN, bit0. replace (S (S k) - 1)%nat with (S k) by lia. replace (S k - 1)%nat with k by lia.
  rewrite Nat2N.inj_succ, N.pow_succ_r'. split.
  - rewrite N.odd_mul. reflexivity.
  - rewrite N.mul_comm, N.div_mul by discriminate. reflexivity.
Qed.
Lemma bits2N_byte_bits : forall b, b < 256 -> bits2N (byte_bits b) = b.
Proof.
  intros b H. rewrite <- (byte_of_bits_byte_bits b H) at 2. unfold byte_bits, byte_of_bits, b2N. cbn [bits2N].
  destruct (N.testbit b 0), (N.testbit b 1), (N.testbit b 2), (N.testbit b 3),
           (N.testbit b 4), (N.testbit b 5), (N.testbit b 6), (N.testbit b 7); reflexivity.
Qed.

Lemma cnt_next_true : forall n, cnt_next (N.of_nat n) true = N.of_nat (S n).
Proof. intro n. unfold cnt_next. rewrite Nat2N.inj_succ. lia. Qed.

Lemma quiet_after : forall r c gt, r < 256 -> c <= 6 -> txu_quiet (mkU TxIdle 0 2 r 128 gt c).
Proof. intros. unfold txu_quiet, mkU. cbn. repeat split; try assumption; auto. Qed.

Ltac split4 := split; [|split; [|split]].

Definition qof (gt : bool) (l : list bool) (rest : list N) : list N := if gt then bits2N l :: rest else rest.

(* ---- one closed-loop cycle in each situation of the data phase ---- *)
Lemma loop_mid : forall x y l gt n rest gd g, (n <= 5)%nat ->
  let s := mkD (bits2N (x :: y :: l)) (posN (S (S (length l)))) gt (N.of_nat n) in
  let s' := mkD (bits2N (y :: l)) (posN (S (length l))) false (cnt_next (N.of_nat n) x) in
  tx_loop 8 s (qof gt (x :: y :: l) rest) (gd :: g) = (x, true, gt) :: tx_loop 8 s' (qof false (y :: l) rest) g /\
  tx_loop_end 8 s (qof gt (x :: y :: l) rest) (gd :: g) = tx_loop_end 8 s' (qof false (y :: l) rest) g.
Proof.
  intros x y l gt n rest gd g Hn s s'. assert (Hc : N.of_nat n <= 5) by lia.
  destruct (posN_SS (length l)) as [Hp0 Hp2].
  destruct (out_D (bits2N (x :: y :: l)) (posN (S (S (length l)))) gt (N.of_nat n) Hc) as (Od & Oe & Or).
  rewrite odd_bits2N in Od.
  assert (Hr : gt && drv_oe (qof gt (x :: y :: l) rest) = gt) by (unfold qof; destruct gt; reflexivity).
  assert (Hq : (if gt then tl (qof gt (x :: y :: l) rest) else qof gt (x :: y :: l) rest) = qof false (y :: l) rest)
    by (unfold qof; destruct gt; reflexivity).
  subst s s'. cbn [tx_loop tx_loop_end].
  rewrite (next_mid _ _ _ _ _ _ Hc Hp0), odd_bits2N, div2_bits2N, Hp2, Od, Oe, Or, Hr, Hq. split; reflexivity.
Qed.

Lemma loop_stall : forall r p gt q gd g,
  tx_loop 8 (mkD r p gt 6) q (gd :: g) = (false, true, false) :: tx_loop 8 (mkD r p gt 0) q g /\
  tx_loop_end 8 (mkD r p gt 6) q (gd :: g) = tx_loop_end 8 (mkD r p gt 0) q g.
Proof.
  intros. destruct (out_stall TxData 3 r p gt eq_refl) as (Sd & Se & Sr). fold (mkD r p gt 6) in Sd, Se, Sr.
  cbn [tx_loop tx_loop_end]. rewrite next_stall, Sd, Se, Sr. split; reflexivity.
Qed.

Lemma loop_load : forall x n nb rest gd g, (n <= 5)%nat -> nb < 256 ->
  let s := mkD (bits2N [x]) (posN 1) false (N.of_nat n) in
  let s' := mkD nb 128 true (cnt_next (N.of_nat n) x) in
  tx_loop 8 s (nb :: rest) (gd :: g) = (x, true, false) :: tx_loop 8 s' (nb :: rest) g /\
  tx_loop_end 8 s (nb :: rest) (gd :: g) = tx_loop_end 8 s' (nb :: rest) g.
Proof.
  intros x n nb rest gd g Hn Hnb s s'. assert (Hc : N.of_nat n <= 5) by lia.
  destruct (out_D (bits2N [x]) (posN 1) false (N.of_nat n) Hc) as (Od & Oe & Or). rewrite odd_bits2N in Od.
  subst s s'. cbn [tx_loop tx_loop_end drv_oe drv_data].
  rewrite (next_load _ _ _ _ nb Hc posN_1), odd_bits2N, Od, Oe, Or, (N.mod_small nb 256 Hnb). cbn [andb]. split; reflexivity.
Qed.

Lemma loop_end : forall x n gd g, (n <= 5)%nat ->
  let s := mkD (bits2N [x]) (posN 1) false (N.of_nat n) in
  let s' := if N.eqb (N.of_nat n) 5 && x then mkU TxLast 0 3 (gd mod 256) 128 true 6
            else mkU TxIdle 0 2 (gd mod 256) 128 true (cnt_next (N.of_nat n) x) in
  tx_loop 8 s [] (gd :: g) = (x, true, false) :: tx_loop 8 s' [] g /\
  tx_loop_end 8 s [] (gd :: g) = tx_loop_end 8 s' [] g.
Proof.
  intros x n gd g Hn s s'. assert (Hc : N.of_nat n <= 5) by lia.
  destruct (out_D (bits2N [x]) (posN 1) false (N.of_nat n) Hc) as (Od & Oe & Or). rewrite odd_bits2N in Od.
  subst s s'. cbn [tx_loop tx_loop_end drv_oe drv_data].
  rewrite (next_end _ _ _ _ gd Hc posN_1), odd_bits2N, Od, Oe, Or. cbn [andb]. split; reflexivity.
Qed.

Lemma loop_last : forall r p gt gd g,
  tx_loop 8 (mkU TxLast 0 3 r p gt 6) [] (gd :: g) = (false, true, false) :: tx_loop 8 (mkU TxIdle 0 2 r p gt 0) [] g /\
  tx_loop_end 8 (mkU TxLast 0 3 r p gt 6) [] (gd :: g) = tx_loop_end 8 (mkU TxIdle 0 2 r p gt 0) [] g.
Proof.
  intros. destruct (out_stall TxLast 3 r p gt eq_refl) as (Sd & Se & Sr).
  cbn [tx_loop tx_loop_end]. rewrite next_last, Sd, Se, Sr. split; reflexivity.
Qed.

Lemma eqb5 : forall n, N.eqb (N.of_nat n) 5 = Nat.eqb n 5.
Proof.
  intro n. destruct (Nat.eqb n 5) eqn:E.
  - apply Nat.eqb_eq in E. subst. reflexivity.
  - apply Nat.eqb_neq in E. apply N.eqb_neq. lia.
Qed.

Definition run_ok (s : txu) (q g : list N) (bits : list bool) (nr : nat) : Prop :=
  map fit_of (tx_loop 8 s q g) = map (fun b => (b, true)) bits /\
  length (filter rdy_of (tx_loop 8 s q g)) = nr /\
  snd (tx_loop_end 8 s q g) = [] /\
  txu_quiet (fst (tx_loop_end 8 s q g)).

Lemma run_ok_cons : forall s q gd g s' q' x r bits nr,
  tx_loop 8 s q (gd :: g) = (x, true, r) :: tx_loop 8 s' q' g /\
  tx_loop_end 8 s q (gd :: g) = tx_loop_end 8 s' q' g ->
  run_ok s' q' g bits nr -> run_ok s q (gd :: g) (x :: bits) ((if r then 1 else 0) + nr).
Proof.
  intros s q gd g s' q' x r bits nr [E1 E2] (H1 & H2 & H3 & H4). unfold run_ok. rewrite E1, E2.
  cbn [map filter]. unfold fit_of at 1, rdy_of at 1. cbn [fst snd]. rewrite H1.
  split4; try assumption; [reflexivity|]. destruct r; cbn [length]; rewrite H2; reflexivity.
Qed.

Lemma run_ok_nil : forall r c gt, r < 256 -> c <= 6 -> run_ok (mkU TxIdle 0 2 r 128 gt c) [] [] [] 0.
Proof. intros. unfold run_ok. cbn [tx_loop tx_loop_end map filter length fst snd]. split4; try reflexivity. apply quiet_after; assumption. Qed.

(* the data phase, from any bit position of the current byte, with at most five ones pending *)
Lemma data_phase : forall rest, Forall (fun b => b < 256) rest ->
  forall l gt n g, l <> [] -> (gt = true -> (2 <= length l)%nat) -> (n <= 5)%nat ->
  length g = length (stuff n (l ++ bits_of_bytes rest)) ->
  run_ok (mkD (bits2N l) (posN (length l)) gt (N.of_nat n)) (qof gt l rest) g
         (stuff n (l ++ bits_of_bytes rest)) ((if gt then 1 else 0) + length rest).
Proof.
  intros rest Hrest. induction Hrest as [|nb rest' Hnb Hrest' IHrest].
  - (* last byte *)
    induction l as [|x l' IHl]; intros gt n g Hne Hgt Hn Hlen; [congruence|].
    destruct l' as [|y l''].
    + (* last bit of the packet: tx_valid is low *)
      assert (gt = false) by (destruct gt; [specialize (Hgt eq_refl); cbn in Hgt; lia | reflexivity]). subst gt.
      cbn [app bits_of_bytes flat_map length] in *. unfold qof.
      pose proof (loop_end x n) as LE. rewrite eqb5 in LE.
      destruct x; cbn [stuff] in *.
      * destruct (Nat.eqb n 5) eqn:E5.
        -- cbn [length] in Hlen. destruct g as [|g1 [|g2 [|? ?]]]; try discriminate Hlen.
           apply (run_ok_cons _ _ _ _ _ _ true false [false] 0%nat (LE g1 [g2] Hn)). cbn [andb].
           apply (run_ok_cons _ _ _ _ _ _ false false [] 0%nat (loop_last _ _ _ g2 [])).
           apply run_ok_nil; [apply N.mod_lt; discriminate | lia].
        -- cbn [length] in Hlen. destruct g as [|g1 [|? ?]]; try discriminate Hlen.
           apply (run_ok_cons _ _ _ _ _ _ true false [] 0%nat (LE g1 [] Hn)). cbn [andb].
           apply run_ok_nil; [apply N.mod_lt; discriminate |]. rewrite cnt_next_true. apply Nat.eqb_neq in E5. lia.
      * cbn [length] in Hlen. destruct g as [|g1 [|? ?]]; try discriminate Hlen.
        apply (run_ok_cons _ _ _ _ _ _ false false [] 0%nat (LE g1 [] Hn)). rewrite andb_false_r.
        apply run_ok_nil; [apply N.mod_lt; discriminate | unfold cnt_next; lia].
    + (* a bit in the middle of the last byte *)
      cbn [app] in Hlen |- *. cbn [length].
      pose proof (fun gd g => loop_mid x y l'' gt n [] gd g Hn) as LM. cbn zeta in LM.
      destruct x; cbn [stuff] in Hlen |- *.
      * destruct (Nat.eqb n 5) eqn:E5.
        -- apply Nat.eqb_eq in E5. subst n. cbn [length] in Hlen.
           destruct g as [|g1 [|g2 g']]; try discriminate Hlen. injection Hlen as Hlen.
           replace ((if gt then 1 else 0) + length (@nil N))%nat with ((if gt then 1 else 0) + ((if false then 1 else 0) + (0 + 0)))%nat by (cbn; lia).
           apply (run_ok_cons _ _ _ _ _ _ _ _ _ _ (LM g1 (g2 :: g'))). rewrite cnt_next_true. change (N.of_nat 6) with 6.
           apply (run_ok_cons _ _ _ _ _ _ _ _ _ _ (loop_stall _ _ _ _ g2 g')).
           apply (IHl false 0%nat g'); [discriminate | discriminate | lia | exact Hlen].
        -- cbn [length] in Hlen. destruct g as [|g1 g']; try discriminate Hlen. injection Hlen as Hlen.
           replace ((if gt then 1 else 0) + length (@nil N))%nat with ((if gt then 1 else 0) + (0 + 0))%nat by (cbn; lia).
           apply (run_ok_cons _ _ _ _ _ _ _ _ _ _ (LM g1 g')). rewrite cnt_next_true. apply Nat.eqb_neq in E5.
           apply (IHl false (S n) g'); [discriminate | discriminate | lia | exact Hlen].
      * cbn [length] in Hlen. destruct g as [|g1 g']; try discriminate Hlen. injection Hlen as Hlen.
        replace ((if gt then 1 else 0) + length (@nil N))%nat with ((if gt then 1 else 0) + (0 + 0))%nat by (cbn; lia).
        apply (run_ok_cons _ _ _ _ _ _ _ _ _ _ (LM g1 g')). unfold cnt_next.
        apply (IHl false 0%nat g'); [discriminate | discriminate | lia | exact Hlen].
  - (* more bytes follow *)
    assert (Hbyte : forall n g, (n <= 5)%nat -> length g = length (stuff n (bits_of_bytes (nb :: rest'))) ->
              run_ok (mkD nb 128 true (N.of_nat n)) (nb :: rest') g (stuff n (bits_of_bytes (nb :: rest'))) (1 + length rest')).
    { intros n g Hn Hlen. rewrite bits_of_bytes_cons in *.
      pose proof (IHrest (byte_bits nb) true n g ltac:(discriminate) ltac:(intros _; cbn; lia) Hn Hlen) as H.
      unfold qof in H. rewrite (bits2N_byte_bits nb Hnb) in H. exact H. }
    induction l as [|x l' IHl]; intros gt n g Hne Hgt Hn Hlen; [congruence|].
    destruct l' as [|y l''].
    + assert (gt = false) by (destruct gt; [specialize (Hgt eq_refl); cbn in Hgt; lia | reflexivity]). subst gt.
      cbn [app length] in *. unfold qof.
      pose proof (fun gd g => loop_load x n nb rest' gd g Hn Hnb) as LL. cbn zeta in LL.
      destruct x; cbn [stuff] in Hlen |- *.
      * destruct (Nat.eqb n 5) eqn:E5.
        -- apply Nat.eqb_eq in E5. subst n. cbn [length] in Hlen.
           destruct g as [|g1 [|g2 g']]; try discriminate Hlen. injection Hlen as Hlen.
           replace (0 + S (length rest'))%nat with ((if false then 1 else 0) + ((if false then 1 else 0) + (1 + length rest')))%nat by (cbn; lia).
           apply (run_ok_cons _ _ _ _ _ _ _ _ _ _ (LL g1 (g2 :: g'))). rewrite cnt_next_true. change (N.of_nat 6) with 6.
           apply (run_ok_cons _ _ _ _ _ _ _ _ _ _ (loop_stall _ _ _ _ g2 g')).
           apply (Hbyte 0%nat g'); [lia | exact Hlen].
        -- cbn [length] in Hlen. destruct g as [|g1 g']; try discriminate Hlen. injection Hlen as Hlen.
           replace (0 + S (length rest'))%nat with ((if false then 1 else 0) + (1 + length rest'))%nat by (cbn; lia).
           apply (run_ok_cons _ _ _ _ _ _ _ _ _ _ (LL g1 g')). rewrite cnt_next_true. apply Nat.eqb_neq in E5.
           apply (Hbyte (S n) g'); [lia | exact Hlen].
      * cbn [length] in Hlen. destruct g as [|g1 g']; try discriminate Hlen. injection Hlen as Hlen.
        replace (0 + S (length rest'))%nat with ((if false then 1 else 0) + (1 + length rest'))%nat by (cbn; lia).
        apply (run_ok_cons _ _ _ _ _ _ _ _ _ _ (LL g1 g')). unfold cnt_next.
        apply (Hbyte 0%nat g'); [lia | exact Hlen].
    + cbn [app] in Hlen |- *. cbn [length].
      pose proof (fun gd g => loop_mid x y l'' gt n (nb :: rest') gd g Hn) as LM. cbn zeta in LM.
      destruct x; cbn [stuff] in Hlen |- *.
      * destruct (Nat.eqb n 5) eqn:E5.
        -- apply Nat.eqb_eq in E5. subst n. cbn [length] in Hlen.
           destruct g as [|g1 [|g2 g']]; try discriminate Hlen. injection Hlen as Hlen.
           replace ((if gt then 1 else 0) + S (length rest'))%nat with ((if gt then 1 else 0) + ((if false then 1 else 0) + (0 + S (length rest'))))%nat by (cbn; lia).
           apply (run_ok_cons _ _ _ _ _ _ _ _ _ _ (LM g1 (g2 :: g'))). rewrite cnt_next_true. change (N.of_nat 6) with 6.
           apply (run_ok_cons _ _ _ _ _ _ _ _ _ _ (loop_stall _ _ _ _ g2 g')).
           apply (IHl false 0%nat g'); [discriminate | discriminate | lia | exact Hlen].
        -- cbn [length] in Hlen. destruct g as [|g1 g']; try discriminate Hlen. injection Hlen as Hlen.
           replace ((if gt then 1 else 0) + S (length rest'))%nat with ((if gt then 1 else 0) + (0 + S (length rest')))%nat by (cbn; lia).
           apply (run_ok_cons _ _ _ _ _ _ _ _ _ _ (LM g1 g')). rewrite cnt_next_true. apply Nat.eqb_neq in E5.
           apply (IHl false (S n) g'); [discriminate | discriminate | lia | exact Hlen].
      * cbn [length] in Hlen. destruct g as [|g1 g']; try discriminate Hlen. injection Hlen as Hlen.
        replace ((if gt then 1 else 0) + S (length rest'))%nat with ((if gt then 1 else 0) + (0 + S (length rest')))%nat by (cbn; lia).
        apply (run_ok_cons _ _ _ _ _ _ _ _ _ _ (LM g1 g')). unfold cnt_next.
        apply (IHl false 0%nat g'); [discriminate | discriminate | lia | exact Hlen].
Qed.

(* ---- the SYNC phase ---- *)
Definition mkS (sp : N) (sh : txsh) (bs : N) : txu := {| u_fsm := TxSync; u_sp := sp; u_gray := 1; u_sh := sh; u_bs := bs |}.

Lemma step_sync : forall sp sh bs d oe,
  txu_next 8 (mkS sp sh bs) d oe =
  let sh' := txsh_next 8 sh d (negb (txbs_stall bs)) (N.testbit sp 1) in
  let bs' := if N.testbit sp 1 then 0 else txbs_next bs (txsh_data sh) in
  if bit0 sp then {| u_fsm := TxData; u_sp := sp / 2; u_gray := 3; u_sh := sh'; u_bs := bs' |}
  else mkS (sp / 2) sh' bs'.
Proof. reflexivity. Qed.

Lemma out_sync : forall sp sh bs oe,
  u_fit_dat (mkS sp sh bs) = bit0 sp /\ u_fit_oe (mkS sp sh bs) = true /\ u_ready (mkS sp sh bs) oe = false.
Proof. intros. unfold u_fit_dat, u_fit_oe, u_ready, u_state_data, u_state_sync, mkS. cbn. repeat split. Qed.

Lemma loop_sync : forall sp sh bs q gd g, q <> [] -> bit0 sp = false ->
  tx_loop 8 (mkS sp sh bs) q (gd :: g) =
    (false, true, false) :: tx_loop 8 (txu_next 8 (mkS sp sh bs) (drv_data q gd) true) q g /\
  tx_loop_end 8 (mkS sp sh bs) q (gd :: g) = tx_loop_end 8 (txu_next 8 (mkS sp sh bs) (drv_data q gd) true) q g.
Proof.
  intros sp sh bs q gd g Hq Hsp. destruct q as [|b q']; [congruence|].
  destruct (out_sync sp sh bs true) as (Od & Oe & Or). cbn [tx_loop tx_loop_end drv_oe]. rewrite Od, Oe, Or, Hsp. split; reflexivity.
Qed.

Lemma txsh_next_clear : forall s d en,
  txsh_next 8 s d en true = {| sh_reg := 0; sh_pos := 1; sh_get := if en then txsh_empty s else sh_get s |}.
Proof. reflexivity. Qed.

Lemma loop_sync_last : forall gt b rest gd g, b < 256 ->
  tx_loop 8 (mkS 1 {| sh_reg := 0; sh_pos := 1; sh_get := gt |} 0) (b :: rest) (gd :: g) =
    (true, true, false) :: tx_loop 8 (mkD b 128 true 0) (b :: rest) g /\
  tx_loop_end 8 (mkS 1 {| sh_reg := 0; sh_pos := 1; sh_get := gt |} 0) (b :: rest) (gd :: g) =
    tx_loop_end 8 (mkD b 128 true 0) (b :: rest) g.
Proof.
  intros gt b rest gd g Hb.
  assert (E : txu_next 8 (mkS 1 {| sh_reg := 0; sh_pos := 1; sh_get := gt |} 0) b true = mkD b 128 true 0).
  { rewrite step_sync. cbn zeta. change (bit0 1) with true. change (N.testbit 1 1) with false. change (1 / 2) with 0. cbv iota.
    unfold txsh_next, txsh_empty, txsh_data, txbs_stall, txbs_next. cbn [sh_reg sh_pos sh_get].
    change (N.eqb 0 6) with false. change (bit0 1) with true. change (bit0 0) with false. cbn [negb]. cbv iota.
    change (2 ^ 8) with 256. rewrite (N.mod_small b 256 Hb). reflexivity. }
  destruct (out_sync 1 {| sh_reg := 0; sh_pos := 1; sh_get := gt |} 0 true) as (Od & Oe & Or).
  cbn [tx_loop tx_loop_end drv_oe drv_data]. rewrite Od, Oe, Or, E. split; reflexivity.
Qed.

(* seven SYNC zeros, the SYNC one, and the state in which bit 0 of the first byte is about to leave *)
Lemma sync_phase : forall sh bs b rest g0 g1 g2 g3 g4 g5 g6 g7 g, b < 256 ->
  tx_loop 8 (mkS 128 sh bs) (b :: rest) (g0 :: g1 :: g2 :: g3 :: g4 :: g5 :: g6 :: g7 :: g) =
    [(false, true, false); (false, true, false); (false, true, false); (false, true, false);
     (false, true, false); (false, true, false); (false, true, false); (true, true, false)] ++
    tx_loop 8 (mkD b 128 true 0) (b :: rest) g /\
  tx_loop_end 8 (mkS 128 sh bs) (b :: rest) (g0 :: g1 :: g2 :: g3 :: g4 :: g5 :: g6 :: g7 :: g) =
    tx_loop_end 8 (mkD b 128 true 0) (b :: rest) g.
Proof.
  intros sh bs b rest g0 g1 g2 g3 g4 g5 g6 g7 g Hb.
  assert (Hq : b :: rest <> []) by discriminate.
  (* cycles 1..6: the garbage in the shifter and the stuffer is irrelevant *)
  destruct (loop_sync 128 sh bs _ g0 (g1 :: g2 :: g3 :: g4 :: g5 :: g6 :: g7 :: g) Hq eq_refl) as [A1 B1]. rewrite A1, B1. clear A1 B1.
  rewrite step_sync. cbn zeta. change (bit0 128) with false. change (N.testbit 128 1) with false. change (128 / 2) with 64. cbv iota.
  set (sh1 := txsh_next 8 sh _ _ false). set (bs1 := txbs_next bs _).
  destruct (loop_sync 64 sh1 bs1 _ g1 (g2 :: g3 :: g4 :: g5 :: g6 :: g7 :: g) Hq eq_refl) as [A1 B1]. rewrite A1, B1. clear A1 B1.
  rewrite step_sync. cbn zeta. change (bit0 64) with false. change (N.testbit 64 1) with false. change (64 / 2) with 32. cbv iota.
  set (sh2 := txsh_next 8 sh1 _ _ false). set (bs2 := txbs_next bs1 _).
  destruct (loop_sync 32 sh2 bs2 _ g2 (g3 :: g4 :: g5 :: g6 :: g7 :: g) Hq eq_refl) as [A1 B1]. rewrite A1, B1. clear A1 B1.
  rewrite step_sync. cbn zeta. change (bit0 32) with false. change (N.testbit 32 1) with false. change (32 / 2) with 16. cbv iota.
  set (sh3 := txsh_next 8 sh2 _ _ false). set (bs3 := txbs_next bs2 _).
  destruct (loop_sync 16 sh3 bs3 _ g3 (g4 :: g5 :: g6 :: g7 :: g) Hq eq_refl) as [A1 B1]. rewrite A1, B1. clear A1 B1.
  rewrite step_sync. cbn zeta. change (bit0 16) with false. change (N.testbit 16 1) with false. change (16 / 2) with 8. cbv iota.
  set (sh4 := txsh_next 8 sh3 _ _ false). set (bs4 := txbs_next bs3 _).
  destruct (loop_sync 8 sh4 bs4 _ g4 (g5 :: g6 :: g7 :: g) Hq eq_refl) as [A1 B1]. rewrite A1, B1. clear A1 B1.
  rewrite step_sync. cbn zeta. change (bit0 8) with false. change (N.testbit 8 1) with false. change (8 / 2) with 4. cbv iota.
  set (sh5 := txsh_next 8 sh4 _ _ false). set (bs5 := txbs_next bs4 _).
  destruct (loop_sync 4 sh5 bs5 _ g5 (g6 :: g7 :: g) Hq eq_refl) as [A1 B1]. rewrite A1, B1. clear A1 B1.
  rewrite step_sync. cbn zeta. change (bit0 4) with false. change (N.testbit 4 1) with false. change (4 / 2) with 2. cbv iota.
  set (sh6 := txsh_next 8 sh5 _ _ false). set (bs6 := txbs_next bs5 _).
  (* cycle 7 (sync_pulse = 2): shifter and stuffer are cleared *)
  destruct (loop_sync 2 sh6 bs6 _ g6 (g7 :: g) Hq eq_refl) as [A1 B1]. rewrite A1, B1. clear A1 B1.
  rewrite step_sync. cbn zeta. change (bit0 2) with false. change (N.testbit 2 1) with true. change (2 / 2) with 1. cbv iota.
  rewrite !txsh_next_clear. set (gt7 := if negb (txbs_stall bs6) then txsh_empty sh6 else sh_get sh6).
  (* cycle 8 (sync_pulse = 1): the SYNC one goes out and the cleared, enabled shifter loads the first byte *)
  destruct (loop_sync_last gt7 b rest g7 g Hb) as [A1 B1]. rewrite A1, B1. split; reflexivity.
Qed.

(* ---- between packets ---- *)
Lemma quiet_out : forall s, txu_quiet s ->
  u_fit_dat s = false /\ u_fit_oe s = false /\ forall oe, u_ready s oe = false.
Proof.
  intros s (Hf & Hsp & Hg & _). unfold u_fit_dat, u_fit_oe, u_ready, u_state_data, u_state_sync. rewrite Hsp.
  destruct Hg as [-> | ->]; cbn; repeat split; intros; reflexivity.
Qed.

Lemma onehot8_cases : forall p, onehot8 p = true ->
  p = 1 \/ p = 2 \/ p = 4 \/ p = 8 \/ p = 16 \/ p = 32 \/ p = 64 \/ p = 128.
Proof.
  intros p H. unfold onehot8 in H. repeat (apply orb_true_iff in H; destruct H as [H|H]);
    apply N.eqb_eq in H; subst; tauto.
Qed.

Lemma txsh_next_quiet : forall sh d en, onehot8 (sh_pos sh) = true -> sh_reg sh < 256 ->
  onehot8 (sh_pos (txsh_next 8 sh d en false)) = true /\ sh_reg (txsh_next 8 sh d en false) < 256.
Proof.
  intros [r p gt] d en Hp Hr. cbn [sh_pos sh_reg] in *. unfold txsh_next, txsh_empty. cbn [sh_pos sh_reg sh_get].
  assert (d mod 2 ^ 8 < 256) by (apply N.mod_lt; discriminate).
  assert (r / 2 < 256) by (apply N.div_lt_upper_bound; lia).
  destruct en; [|split; assumption].
  apply onehot8_cases in Hp. destruct Hp as [->|[->|[->|[->|[->|[->|[->| ->]]]]]]]; cbn; split; try reflexivity; assumption.
Qed.

Lemma txu_quiet_idle : forall s gd, txu_quiet s ->
  txu_quiet (txu_next 8 s gd false) /\ u_fit_dat s = false /\ u_fit_oe s = false /\ u_ready s false = false.
Proof.
  intros s gd Hq. destruct (quiet_out s Hq) as (Od & Oe & Or). split; [|auto].
  destruct Hq as (Hf & Hsp & Hg & Hp & Hr & Hb). unfold txu_next. rewrite Hf, Hsp. change (N.testbit 0 1) with false.
  destruct (txsh_next_quiet (u_sh s) gd (negb (u_stall s)) Hp Hr) as [Hp' Hr'].
  unfold txu_quiet. cbn [u_fsm u_sp u_gray u_sh u_bs]. repeat split; auto.
  unfold txbs_next. destruct (N.eqb (u_bs s) 6) eqn:E; [lia|]. apply N.eqb_neq in E. destruct (txsh_data (u_sh s)); lia.
Qed.

Lemma txu_init_quiet : txu_quiet txu_init.
Proof. unfold txu_quiet, txu_init. cbn. repeat split; auto; lia. Qed.

Theorem tx_idle_usb : forall s g, txu_quiet s ->
  map fit_of (tx_loop 8 s [] g) = repeat (false, false) (length g)
  /\ filter rdy_of (tx_loop 8 s [] g) = [] /\ snd (tx_loop_end 8 s [] g) = [] /\ txu_quiet (fst (tx_loop_end 8 s [] g)).
Proof.
  intros s g. revert s. induction g as [|gd g IH]; intros s Hq.
  - cbn. split4; auto.
  - destruct (txu_quiet_idle s gd Hq) as (Hn & Od & Oe & Or).
    cbn [tx_loop tx_loop_end drv_oe drv_data map filter length repeat]. rewrite Od, Oe, Or.
    unfold fit_of at 1, rdy_of at 1. cbn [fst snd].
    destruct (IH _ Hn) as (I1 & I2 & I3 & I4). rewrite I1, I2. split4; [reflexivity | reflexivity | assumption | assumption].
Qed.

(* first cycle of a packet: the FSM leaves IDLE *)
Lemma loop_start : forall s b rest gd g, txu_quiet s ->
  exists sh bs,
  tx_loop 8 s (b :: rest) (gd :: g) = (false, false, false) :: tx_loop 8 (mkS 128 sh bs) (b :: rest) g /\
  tx_loop_end 8 s (b :: rest) (gd :: g) = tx_loop_end 8 (mkS 128 sh bs) (b :: rest) g.
Proof.
  intros s b rest gd g Hq. destruct (quiet_out s Hq) as (Od & Oe & Or).
  destruct Hq as (Hf & Hsp & _).
  exists (txsh_next 8 (u_sh s) b (negb (u_stall s)) false), (txbs_next (u_bs s) (txsh_data (u_sh s))).
  cbn [tx_loop tx_loop_end drv_oe drv_data]. rewrite Od, Oe, Or.
  assert (E : txu_next 8 s b true = mkS 128 (txsh_next 8 (u_sh s) b (negb (u_stall s)) false) (txbs_next (u_bs s) (txsh_data (u_sh s)))).
  { unfold txu_next. rewrite Hf, Hsp. change (N.testbit 0 1) with false. reflexivity. }
  rewrite E. split; reflexivity.
Qed.

Theorem tx_packet_usb : forall s bs g,
  txu_quiet s -> bs <> [] -> Forall (fun b => b < 256) bs ->
  let body := (false, false) :: map (fun b => (b, true)) (sync_bits ++ stuff 0 (bits_of_bytes bs)) in
  (length body <= length g)%nat ->
  map fit_of (tx_loop 8 s bs g) = body ++ repeat (false, false) (length g - length body)
  /\ length (filter rdy_of (tx_loop 8 s bs g)) = length bs
  /\ snd (tx_loop_end 8 s bs g) = []
  /\ txu_quiet (fst (tx_loop_end 8 s bs g)).
Proof.
  intros s bs g Hq Hne Hall body Hlen. destruct bs as [|b rest]; [congruence|]. clear Hne.
  inversion Hall as [|? ? Hb Hrest]; subst.
  set (L := stuff 0 (bits_of_bytes (b :: rest))) in *.
  assert (Hlen' : (9 + length L <= length g)%nat).
  { subst body. cbn [length] in Hlen. rewrite map_length, app_length in Hlen. change (length sync_bits) with 8%nat in Hlen. lia. }
  clear Hlen. rename Hlen' into Hlen. subst body.
  destruct g as [|g0 [|g1 [|g2 [|g3 [|g4 [|g5 [|g6 [|g7 [|g8 g']]]]]]]]]; cbn [length] in Hlen; try lia.
  (* split the rest of g into the data phase and the tail *)
  rewrite <- (firstn_skipn (length L) g').
  set (gd := firstn (length L) g'). set (gt := skipn (length L) g').
  assert (Hgd : length gd = length L) by (subst gd; apply firstn_length_le; lia).
  destruct (loop_start s b rest g0 (g1 :: g2 :: g3 :: g4 :: g5 :: g6 :: g7 :: g8 :: gd ++ gt) Hq) as (sh & bs0 & A0 & B0).
  destruct (sync_phase sh bs0 b rest g1 g2 g3 g4 g5 g6 g7 g8 (gd ++ gt) Hb) as [A1 B1].
  pose proof (data_phase rest Hrest (byte_bits b) true 0%nat gd ltac:(discriminate) ltac:(intros _; cbn; lia) ltac:(lia)) as DP.
  rewrite <- bits_of_bytes_cons in DP. fold L in DP. specialize (DP Hgd).
  unfold qof in DP. rewrite (bits2N_byte_bits b Hb) in DP. change (posN (length (byte_bits b))) with 128 in DP.
  change (N.of_nat 0) with 0 in DP. destruct DP as (D1 & D2 & D3 & D4).
  destruct (tx_idle_usb _ gt D4) as (T1 & T2 & T3 & T4).
  rewrite A0, B0, A1, B1, tx_loop_app, tx_loop_end_app, D3.
  split4.
  - cbn [map app]. unfold fit_of at 1 2 3 4 5 6 7 8 9. cbn [fst snd]. rewrite map_app, D1, T1.
    rewrite map_app. cbn [map sync_bits app]. repeat f_equal.
    cbn [length]. repeat rewrite ?app_length, ?map_length. cbn [length]. repeat rewrite ?app_length, ?map_length. fold L. lia.
  - cbn [filter app]. change (rdy_of (false, false, false)) with false. change (rdy_of (false, true, false)) with false.
    change (rdy_of (true, true, false)) with false. cbv iota. rewrite filter_app, app_length, D2, T2. cbn [length]. lia.
  - exact T3.
  - exact T4.
Qed.

(* ---- a concrete run (non-vacuity): garbage in shifter and stuffer, two bytes, long runs of ones ---- *)
Example tx_packet_usb_ex :
  let s := mkU TxIdle 0 2 127 4 true 4 in
  map fit_of (tx_loop 8 s [195; 255] (repeat 255 40)) =
  (false, false) :: map (fun b => (b, true)) (sync_bits ++ stuff 0 (bits_of_bytes [195; 255])) ++ repeat (false, false) 14.
Proof. vm_compute. reflexivity. Qed.
