(* C02 -- hand model of luna/gateware/usb/usb2/packet.py: USBDataPacketReceiver(standalone=True)
   (the receiver FSM together with the USBDataPacketCRC and USBInterpacketTimer submodules that the
   standalone build instantiates), and its packet-level specification.

   The model is parametric in the interpacket timer: cmax (its _counter_max), w (width of its
   counter), tbl (its delay table, see Model/IpTimer.v) and the constant `speed` code.

   Packed ports.  inputs : rx_active (bit 0), rx_valid (bit 1), rx_data (bits 2..9).
                  outputs: stream.valid (bit 0), stream.next (bit 1), stream.payload (bits 2..9),
                           packet_complete (bit 10), crc_mismatch (bit 11), ready_for_response (bit 12),
                           packet_id (bits 13..16).
   One list element = one `usb` clock cycle.                                                      *)
From Coq Require Import NArith List Bool.
Import ListNotations.
From LunaLib Require Import Netlist Bits Affine Machine PackN.
From LunaModel Require Import Crc IpTimer.
Open Scope N_scope.

Definition rx_act (i : N) : bool := N.testbit i 0.
Definition rx_val (i : N) : bool := N.testbit i 1.
Definition rx_dat (i : N) : N := bits i 2 8.

(* ============================== the module ================================================== *)
Inductive rx_fsm := RX_IDLE | RX_READ_PID | RX_FIRST | RX_SECOND | RX_EMIT | RX_DELAY | RX_IRRELEVANT.

Record rx_state := {
  x_fsm : rx_fsm;
  x_apid : N;                  (* active_pid (4 bits) *)
  x_lo : N; x_hi : N;          (* data_pipeline[0:8], data_pipeline[8:16] *)
  x_lbc : N; x_lwc : N;        (* last_byte_crc, last_word_crc (16 bits each) *)
  x_crc : list bool;           (* running register of the USBDataPacketCRC submodule (16 bits) *)
  x_done : bool; x_bad : bool; (* the packet_complete / crc_mismatch strobe registers *)
  x_pid : N;                   (* packet_id (4 bits) *)
  x_cnt : N                    (* counter of the USBInterpacketTimer submodule *)
}.

(* is_valid_pid & is_data of READ_PID:  rx_data[0:4] == ~rx_data[4:8]  and  rx_data[0:2] == 0b11 *)
Definition rx_data_pid (d : N) : bool :=
  (bits d 0 2 =? 3) && (bits d 0 4 =? N.lxor (bits d 4 4) 15).

Definition rx_out_word (valid next : bool) (payload : N) (done bad ready : bool) (pid : N) : N :=
  b2n valid + 2 * b2n next + 4 * payload + 1024 * b2n done + 2048 * b2n bad + 4096 * b2n ready + 8192 * pid.

Section DataRx.
  Variables cmax w : N.
  Variable tbl : ip_table.
  Variable speed : N.

  Definition rx_init : rx_state :=
    {| x_fsm := RX_IDLE; x_apid := 0; x_lo := 0; x_hi := 0; x_lbc := 0; x_lwc := 0;
       x_crc := reg_init 16; x_done := false; x_bad := false; x_pid := 0; x_cnt := 0 |}.

  Definition rx_step (s : rx_state) (i : N) : rx_state * N :=
    let act := rx_act i in let val := rx_val i in let d := rx_dat i in
    let crc_o := crc_out (x_crc s) in                              (* data_crc.crc = ~crc[::-1] *)
    let matches := x_lwc s =? x_lo s + 256 * x_hi s in               (* last_word_crc == data_pipeline *)
    let emit := match x_fsm s with RX_EMIT => true | _ => false end in
    let capture := match x_fsm s with RX_FIRST | RX_SECOND | RX_EMIT => val | _ => false end in
    let shift := match x_fsm s with RX_SECOND | RX_EMIT => val | _ => false end in
    let ending := emit && negb act in
    let good := ending && matches in                                 (* also timer.start *)
    let allowed := N.odd (ip_strobes tbl (x_cnt s) speed) in         (* timer.tx_allowed *)
    let pid_ok := match x_fsm s with RX_READ_PID => act && val && rx_data_pid d | _ => false end in
    let fsm' :=
      match x_fsm s with
      | RX_IDLE => if act then RX_READ_PID else RX_IDLE
      | RX_READ_PID => if negb act then RX_IDLE
                       else if val then (if rx_data_pid d then RX_FIRST else RX_IRRELEVANT) else RX_READ_PID
      | RX_FIRST => if negb act then RX_IDLE else if val then RX_SECOND else RX_FIRST
      | RX_SECOND => if val then RX_EMIT else if negb act then RX_IDLE else RX_SECOND
      | RX_EMIT => if negb act then (if matches then RX_DELAY else RX_IDLE) else RX_EMIT
      | RX_DELAY => if allowed then RX_IDLE else RX_DELAY
      | RX_IRRELEVANT => if act then RX_IRRELEVANT else RX_IDLE
      end in
    let ready := match x_fsm s with RX_DELAY => allowed | _ => false end in
    ({| x_fsm := fsm';
        x_apid := if pid_ok then bits d 0 4 else x_apid s;
        x_lo := if shift then x_hi s else x_lo s;
        x_hi := if capture then d else x_hi s;
        x_lbc := if capture then crc_o else x_lbc s;
        x_lwc := if shift then x_lbc s else x_lwc s;
        (* USBDataPacketCRC: `start` (asserted throughout READ_PID) has priority over rx_valid; tx_valid = 0 *)
        x_crc := match x_fsm s with
                 | RX_READ_PID => reg_init 16
                 | _ => if val then crc_update poly16 (x_crc s) (N2bits 8 d) else x_crc s
                 end;
        x_done := good;
        x_bad := ending && negb matches;
        x_pid := if good then x_apid s else x_pid s;
        x_cnt := ip_next cmax w (x_cnt s) good |},
     rx_out_word emit (emit && val) (if emit && val then x_lo s else 0) (x_done s) (x_bad s) ready (x_pid s)).
End DataRx.

(* ============================== the specification =========================================== *)
(* A received packet is a maximal run of rx_active cycles; its bytes are rx_data in the rx_valid cycles
   of the run other than the run's first cycle (UTMI never presents data in the cycle RxActive rises).
   The first byte is the PID.                                                                     *)

(* the four data PIDs with their check nibbles: DATA0, DATA1, DATA2, MDATA *)
Definition data_pid_byte (p : N) : bool := existsb (N.eqb p) [195; 75; 135; 15].   (* C3 4B 87 0F *)

(* of the bytes bs that follow the PID: everything but the last two is payload, the last two are the
   CRC16, low byte first *)
Definition payload_of (bs : list N) : list N := firstn (length bs - 2) bs.
Definition trailer_of (bs : list N) : N := nth (length bs - 2) bs 0 + 256 * nth (length bs - 1) bs 0.

Inductive rx_verdict := V_NONE | V_GOOD | V_BAD.

(* the verdict on a complete packet (PID first) *)
Definition pkt_verdict (l : list N) : rx_verdict :=
  match l with
  | p :: bs =>
      if data_pid_byte p && Nat.leb 2 (length bs) then
        if crc16_usb (payload_of bs) =? trailer_of bs then V_GOOD else V_BAD
      else V_NONE
  | [] => V_NONE
  end.

(* the bytes streamed for a (complete or partial) packet *)
Definition pkt_stream (l : list N) : list N :=
  match l with
  | p :: bs => if data_pid_byte p then payload_of bs else []
  | [] => []
  end.

(* packet in progress: None between packets, Some l = bytes so far *)
Definition rxp_next (p : option (list N)) (i : N) : option (list N) :=
  match p with
  | None => if rx_act i then Some [] else None
  | Some l => if rx_act i then Some (if rx_val i then l ++ [rx_dat i] else l) else None
  end.
(* the packet that is complete in this cycle, if any *)
Definition rxp_done (p : option (list N)) (i : N) : option (list N) :=
  match p with Some l => if rx_act i then None else Some l | None => None end.

(* while a data packet has at least two bytes after its PID, stream.valid is high and every new byte pushes
   out the byte received two bytes earlier *)
Definition pkt_streaming (p : option (list N)) : bool :=
  match p with Some (p :: bs) => data_pid_byte p && Nat.leb 2 (length bs) | _ => false end.
Definition pkt_oldest (p : option (list N)) : N :=
  match p with Some (p :: bs) => nth (length bs - 2) bs 0 | _ => 0 end.

Record rxs_state := {
  q_pkt : option (list N);      (* the packet being received *)
  q_v : rx_verdict;             (* verdict on the packet that ended in the previous cycle *)
  q_pid : N;                    (* PID nibble of the most recent good packet *)
  q_wait : option N             (* Some k: k cycles into the inter-packet delay after a good packet *)
}.
Definition rxs_init : rxs_state := {| q_pkt := None; q_v := V_NONE; q_pid := 0; q_wait := None |}.

Section RxSpec.
  Variable D : N.   (* rx-to-tx inter-packet delay of the configured speed, in cycles *)

  Definition rxs_step (q : rxs_state) (i : N) : rxs_state * N :=
    let done := rxp_done (q_pkt q) i in
    let v := match done with Some l => pkt_verdict l | None => V_NONE end in
    let nx := pkt_streaming (q_pkt q) && rx_val i in
    ({| q_pkt := rxp_next (q_pkt q) i;
        q_v := v;
        q_pid := match v, done with V_GOOD, Some (p :: _) => p mod 16 | _, _ => q_pid q end;
        q_wait := match v with
                  | V_GOOD => Some 0
                  | _ => match q_wait q with
                         | Some k => if k =? D then None else Some (k + 1)
                         | None => None
                         end
                  end |},
     rx_out_word (pkt_streaming (q_pkt q)) nx (if nx then pkt_oldest (q_pkt q) else 0)
                 (match q_v q with V_GOOD => true | _ => false end)
                 (match q_v q with V_BAD => true | _ => false end)
                 (match q_wait q with Some k => k =? D | None => false end)
                 (q_pid q)).

  (* environment: RxValid only while RxActive (UTMI), and no packet begins while the receiver waits out the
     inter-packet delay after a good packet (the D+1 cycles from the packet_complete strobe up to and
     including the ready_for_response strobe) *)
  Definition rxs_env (q : rxs_state) (i : N) : bool :=
    (negb (rx_val i) || rx_act i) &&
    (match q_wait q with Some _ => negb (rx_act i) | None => true end).
End RxSpec.

(* all packets of a receive history in order of completion *)
Fixpoint rx_packets (p : option (list N)) (tr : list N) : list (list N) :=
  match tr with
  | [] => []
  | i :: t => match rxp_done p i with
              | Some l => l :: rx_packets (rxp_next p i) t
              | None => rx_packets (rxp_next p i) t
              end
  end.
(* the packet in progress at the end of a history *)
Fixpoint rx_pending (p : option (list N)) (tr : list N) : option (list N) :=
  match tr with [] => p | i :: t => rx_pending (rxp_next p i) t end.

(* observations on an output word *)
Definition o_valid (o : N) : bool := N.testbit o 0.
Definition o_next (o : N) : bool := N.testbit o 1.
Definition o_payload (o : N) : N := bits o 2 8.
Definition o_complete (o : N) : bool := N.testbit o 10.
Definition o_mismatch (o : N) : bool := N.testbit o 11.
Definition o_ready (o : N) : bool := N.testbit o 12.
Definition o_pid (o : N) : N := bits o 13 4.

(* the bytes handed to the stream consumer: payload in the cycles with stream.next *)
Definition streamed (outs : list N) : list N := map o_payload (filter o_next outs).
(* the strobes as verdicts *)
Definition o_verdict (o : N) : rx_verdict :=
  if o_complete o then V_GOOD else if o_mismatch o then V_BAD else V_NONE.
Definition is_verdict (v : rx_verdict) : bool := match v with V_NONE => false | _ => true end.

(* ============================== packing ===================================================== *)
Definition rx_fsm_code (f : rx_fsm) : N :=
  match f with RX_IDLE => 0 | RX_READ_PID => 1 | RX_FIRST => 2 | RX_SECOND => 3 | RX_EMIT => 4
             | RX_DELAY => 5 | RX_IRRELEVANT => 6 end.
Definition rx_fsm_of (n : N) : rx_fsm :=
  match n with 0 => RX_IDLE | 1 => RX_READ_PID | 2 => RX_FIRST | 3 => RX_SECOND | 4 => RX_EMIT
             | 5 => RX_DELAY | _ => RX_IRRELEVANT end.

Definition rx_enc (s : rx_state) : N :=
  pk 8 (rx_fsm_code (x_fsm s)) (pk 16 (x_apid s) (pk 256 (x_lo s) (pk 256 (x_hi s) (pk 65536 (x_lbc s)
  (pk 65536 (x_lwc s) (pk 65536 (bits2N (x_crc s)) (pk 2 (b2n (x_done s)) (pk 2 (b2n (x_bad s))
  (pk 16 (x_pid s) (x_cnt s)))))))))).
Definition rx_dec (m : N) : rx_state :=
  let f := m mod 8 in let m := m / 8 in
  let apid := m mod 16 in let m := m / 16 in
  let lo := m mod 256 in let m := m / 256 in
  let hi := m mod 256 in let m := m / 256 in
  let lbc := m mod 65536 in let m := m / 65536 in
  let lwc := m mod 65536 in let m := m / 65536 in
  let crc := m mod 65536 in let m := m / 65536 in
  let done := m mod 2 in let m := m / 2 in
  let bad := m mod 2 in let m := m / 2 in
  {| x_fsm := rx_fsm_of f; x_apid := apid; x_lo := lo; x_hi := hi; x_lbc := lbc; x_lwc := lwc;
     x_crc := N2bits 16 crc; x_done := N.odd done; x_bad := N.odd bad; x_pid := m mod 16; x_cnt := m / 16 |}.
Definition rx_wf (s : rx_state) : Prop :=
  x_apid s < 16 /\ x_lo s < 256 /\ x_hi s < 256 /\ x_lbc s < 65536 /\ x_lwc s < 65536 /\
  length (x_crc s) = 16%nat /\ x_pid s < 16.

(* ---- the specification state as a number (for the runtime oracle over simulator traces) ---- *)
(* byte lists: base-256 digits below a leading 1 (most recent byte = least significant digit) *)
Definition rx_lenc (l : list N) : N := fold_left (fun acc b => acc * 256 + b mod 256) l 1.
Fixpoint rx_ldec_fuel (f : nat) (n : N) : list N :=
  match f with
  | O => []
  | S f' => if n <=? 1 then [] else rx_ldec_fuel f' (n / 256) ++ [n mod 256]
  end.
Definition rx_ldec (n : N) : list N := rx_ldec_fuel (N.to_nat (N.size n)) n.

Definition rx_verdict_code (v : rx_verdict) : N := match v with V_NONE => 0 | V_GOOD => 1 | V_BAD => 2 end.
Definition rx_verdict_of (n : N) : rx_verdict := match n with 0 => V_NONE | 1 => V_GOOD | _ => V_BAD end.
Definition rxs_enc (q : rxs_state) : N :=
  rx_verdict_code (q_v q) + 4 * (q_pid q mod 16 + 16 * ((match q_wait q with None => 0 | Some k => (k + 1) mod 65536 end)
  + 65536 * (match q_pkt q with None => 0 | Some l => rx_lenc l end))).
Definition rxs_dec (m : N) : rxs_state :=
  let v := m mod 4 in let m := m / 4 in
  let pid := m mod 16 in let m := m / 16 in
  let wt := m mod 65536 in let m := m / 65536 in
  {| q_pkt := if m =? 0 then None else Some (rx_ldec m); q_v := rx_verdict_of v; q_pid := pid;
     q_wait := if wt =? 0 then None else Some (wt - 1) |}.

(* the specification as a monitor over (input, output) pairs of the implementation: None when the
   environment assumption is broken, otherwise the output word must equal the specification's *)
Definition rxs_mon (D : N) (m i o : N) : option (N * bool) :=
  let q := rxs_dec m in
  if rxs_env q i then let (q', o') := rxs_step D q i in Some (rxs_enc q', o =? o') else None.

(* ============================== the receiver FSM on its own ================================== *)
(* USBDataPacketReceiver(standalone=False): the CRC unit and the interpacket timer are outside; their outputs
   (data_crc.crc, timer.tx_allowed) are inputs and data_crc.start / timer.start are outputs.  rx_step above is
   this core composed with the CRC16 unit and the timer (rx_step_compose in Usb2DataRx_proofs.v); the core is
   what the netlist tie enumerates (the composite cannot be: stale CRC registers multiply the state space). *)
Record rxo_state := {
  c_fsm : rx_fsm; c_apid : N; c_lo : N; c_hi : N; c_lbc : N; c_lwc : N; c_done : bool; c_bad : bool; c_pid : N }.

Definition rxo_init : rxo_state :=
  {| c_fsm := RX_IDLE; c_apid := 0; c_lo := 0; c_hi := 0; c_lbc := 0; c_lwc := 0; c_done := false; c_bad := false; c_pid := 0 |}.

(* result: next state, output word of the full module, data_crc.start, timer.start *)
Definition rxo_core (c : rxo_state) (act val : bool) (d crc_o : N) (allowed : bool) : rxo_state * (N * bool * bool) :=
  let matches := c_lwc c =? c_lo c + 256 * c_hi c in
  let emit := match c_fsm c with RX_EMIT => true | _ => false end in
  let capture := match c_fsm c with RX_FIRST | RX_SECOND | RX_EMIT => val | _ => false end in
  let shift := match c_fsm c with RX_SECOND | RX_EMIT => val | _ => false end in
  let ending := emit && negb act in
  let good := ending && matches in
  let pid_ok := match c_fsm c with RX_READ_PID => act && val && rx_data_pid d | _ => false end in
  let fsm' :=
    match c_fsm c with
    | RX_IDLE => if act then RX_READ_PID else RX_IDLE
    | RX_READ_PID => if negb act then RX_IDLE
                     else if val then (if rx_data_pid d then RX_FIRST else RX_IRRELEVANT) else RX_READ_PID
    | RX_FIRST => if negb act then RX_IDLE else if val then RX_SECOND else RX_FIRST
    | RX_SECOND => if val then RX_EMIT else if negb act then RX_IDLE else RX_SECOND
    | RX_EMIT => if negb act then (if matches then RX_DELAY else RX_IDLE) else RX_EMIT
    | RX_DELAY => if allowed then RX_IDLE else RX_DELAY
    | RX_IRRELEVANT => if act then RX_IRRELEVANT else RX_IDLE
    end in
  let ready := match c_fsm c with RX_DELAY => allowed | _ => false end in
  ({| c_fsm := fsm';
      c_apid := if pid_ok then bits d 0 4 else c_apid c;
      c_lo := if shift then c_hi c else c_lo c;
      c_hi := if capture then d else c_hi c;
      c_lbc := if capture then crc_o else c_lbc c;
      c_lwc := if shift then c_lbc c else c_lwc c;
      c_done := good;
      c_bad := ending && negb matches;
      c_pid := if good then c_apid c else c_pid c |},
   (rx_out_word emit (emit && val) (if emit && val then c_lo c else 0) (c_done c) (c_bad c) ready (c_pid c),
    match c_fsm c with RX_READ_PID => true | _ => false end,
    good)).

(* packed: inputs rx_active (bit 0), rx_valid (1), rx_data (2..9), data_crc.crc (10..25), timer.tx_allowed (26);
           outputs: the 17 bits of rx_out_word, data_crc.start (bit 17), timer.start (bit 18) *)
Definition rxo_step (c : rxo_state) (i : N) : rxo_state * N :=
  let '(c', (o, st_crc, st_tm)) := rxo_core c (rx_act i) (rx_val i) (rx_dat i) (bits i 10 16) (N.testbit i 26) in
  (c', o + 131072 * b2n st_crc + 262144 * b2n st_tm).

Definition rxo_of (s : rx_state) : rxo_state :=
  {| c_fsm := x_fsm s; c_apid := x_apid s; c_lo := x_lo s; c_hi := x_hi s; c_lbc := x_lbc s; c_lwc := x_lwc s;
     c_done := x_done s; c_bad := x_bad s; c_pid := x_pid s |}.

Definition rxo_enc (c : rxo_state) : N :=
  pk 8 (rx_fsm_code (c_fsm c)) (pk 16 (c_apid c) (pk 256 (c_lo c) (pk 256 (c_hi c) (pk 65536 (c_lbc c)
  (pk 65536 (c_lwc c) (pk 2 (b2n (c_done c)) (pk 2 (b2n (c_bad c)) (c_pid c)))))))).
Definition rxo_dec (m : N) : rxo_state :=
  let f := m mod 8 in let m := m / 8 in
  let apid := m mod 16 in let m := m / 16 in
  let lo := m mod 256 in let m := m / 256 in
  let hi := m mod 256 in let m := m / 256 in
  let lbc := m mod 65536 in let m := m / 65536 in
  let lwc := m mod 65536 in let m := m / 65536 in
  let done := m mod 2 in let m := m / 2 in
  let bad := m mod 2 in let m := m / 2 in
  {| c_fsm := rx_fsm_of f; c_apid := apid; c_lo := lo; c_hi := hi; c_lbc := lbc; c_lwc := lwc;
     c_done := N.odd done; c_bad := N.odd bad; c_pid := m |}.
Definition rxo_wf (c : rxo_state) : Prop :=
  c_apid c < 16 /\ c_lo c < 256 /\ c_hi c < 256 /\ c_lbc c < 65536 /\ c_lwc c < 65536.
