(* C40 -- proofs about the DataPacketReceiver model (Model/DataRx.v):
   1. byte/bit-list facts and the correctness of the real CRC units w.r.t. the reference CRCs of Model/Crc.v;
   2. the simulation theorem: for every input history the observable events of the model equal the events of
      the specification parser run over the VALID words only (so invalid words never matter);
   3. per-packet corollaries of the specification (exactly one report, after the payload, good iff CRCs valid);
   4. packing lemmas for the lock-step obligations. *)
From Coq Require Import NArith ZArith Arith List Bool Lia ZifyBool ZifyN.
Import ListNotations.
From LunaLib Require Import Netlist Bits Affine Machine PackN SsWords.
From LunaModel Require Import Crc Crc_proofs DataRx.
Ltac Zify.zify_post_hook ::= Z.div_mod_to_equations.
Open Scope N_scope.

(* ------------------------------------------------------------------------------------------------------ *)
(* 1a. bit lists                                                                                           *)
Lemma drx_N2bits_app : forall a b x, N2bits (a + b) x = N2bits a x ++ N2bits b (N.shiftr x (N.of_nat a)).
Proof.
  induction a as [|a IH]; intros b x.
  - reflexivity.
  - cbn [plus N2bits app]. rewrite IH. f_equal. f_equal.
    rewrite Nat2N.inj_succ, <- N.add_1_l, <- N.shiftr_shiftr. f_equal.
Qed.

Lemma drx_N2bits_ext : forall n x y, (forall i, i < N.of_nat n -> N.testbit x i = N.testbit y i) ->
  N2bits n x = N2bits n y.
Proof.
  induction n as [|n IH]; intros x y H; [reflexivity|]. cbn [N2bits]. f_equal.
  - rewrite <- !N.bit0_odd. apply H. lia.
  - apply IH. intros i Hi. rewrite !N.div2_spec, !N.shiftr_spec' . apply H. lia.
Qed.

Lemma drx_N2bits_byte : forall w lo, N2bits 8 (bits w lo 8) = N2bits 8 (N.shiftr w lo).
Proof.
  intros. apply drx_N2bits_ext. intros i Hi. unfold bits. rewrite N.land_spec, N.ones_spec_low by (simpl in Hi; lia).
  apply andb_true_r.
Qed.

Lemma drx_bits_of_bytes4 : forall w k, (k <= 4)%nat ->
  bits_of_units 8 (firstn k (drx_bytes4 w)) = N2bits (8 * k) w.
Proof.
  intros w k Hk. unfold bits_of_units, drx_bytes4.
  assert (E1 : N2bits 8 (bits w 0 8) = N2bits 8 w) by (rewrite drx_N2bits_byte, N.shiftr_0_r; reflexivity).
  destruct k as [|[|[|[|[|k]]]]]; try lia; cbn [firstn flat_map Nat.mul Nat.add]; rewrite ?app_nil_r, ?drx_N2bits_byte, ?E1.
  - reflexivity.
  - reflexivity.
  - change 16%nat with (8 + 8)%nat. rewrite drx_N2bits_app. reflexivity.
  - change 24%nat with (8 + (8 + 8))%nat. rewrite !drx_N2bits_app, N.shiftr_shiftr. reflexivity.
  - change 32%nat with (8 + (8 + (8 + 8)))%nat. rewrite !drx_N2bits_app, !N.shiftr_shiftr. reflexivity.
Qed.

(* 1b. the CRC shift register keeps its length *)
Lemma drx_zipp_length : forall (p : list bool) (c : list bool) fb, length p = length c ->
  length (zipp bool xorb p c fb) = length c.
Proof.
  induction p as [|pb p IH]; intros [|x c] fb H; simpl in *; try reflexivity; try discriminate.
  rewrite IH by lia. reflexivity.
Qed.

Lemma drx_removelast_length : forall (l : list bool), l <> [] -> S (length (removelast l)) = length l.
Proof.
  induction l as [|a l IH]; intro H; [contradiction|]. destruct l as [|b l]; [reflexivity|].
  cbn [removelast length] in *. rewrite IH by discriminate. reflexivity.
Qed.

Lemma drx_crc_shift_length : forall poly reg b, length poly = length reg -> reg <> [] ->
  length (crc_shift bool xorb false poly reg b) = length reg.
Proof.
  intros poly reg b H Hne. unfold crc_shift. rewrite drx_zipp_length.
  - cbn [length]. apply drx_removelast_length. exact Hne.
  - cbn [length]. rewrite drx_removelast_length by exact Hne. exact H.
Qed.

Lemma drx_crc_update_length : forall poly msg reg, length poly = length reg -> reg <> [] ->
  length (crc_update poly reg msg) = length reg.
Proof.
  unfold crc_update, crc_shifts. induction msg as [|b msg IH]; intros reg H Hne; [reflexivity|].
  cbn [fold_left]. rewrite IH.
  - apply drx_crc_shift_length; assumption.
  - rewrite drx_crc_shift_length; assumption.
  - intro E. pose proof (drx_crc_shift_length poly reg b H Hne) as L. rewrite E in L.
    destruct reg; [contradiction | discriminate].
Qed.

(* ------------------------------------------------------------------------------------------------------ *)
(* 1c. the real units compute the reference CRCs                                                           *)
Definition drx_reg16_of (ws : list N) : N := bits2N (crc_update poly16h (repeat true 16) (bits_of_units 32 ws)).
Definition drx_reg32_of (bs : list N) : N := bits2N (crc_update poly32 (repeat true 32) (bits_of_units 8 bs)).

Lemma drx_reg16_len : forall ws, length (crc_update poly16h (repeat true 16) (bits_of_units 32 ws)) = 16%nat.
Proof. intros. rewrite drx_crc_update_length; [reflexivity | reflexivity | discriminate]. Qed.
Lemma drx_reg32_len : forall bs, length (crc_update poly32 (repeat true 32) (bits_of_units 8 bs)) = 32%nat.
Proof. intros. rewrite drx_crc_update_length; [reflexivity | reflexivity | discriminate]. Qed.

Lemma drx_real16_init : drx_reg16_of [] = u16_init drx_real_units.
Proof. vm_compute. reflexivity. Qed.
Lemma drx_real32_init : drx_reg32_of [] = u32_init drx_real_units.
Proof. vm_compute. reflexivity. Qed.

Lemma drx_real16_adv : forall ws w, u16_adv drx_real_units (drx_reg16_of ws) w = drx_reg16_of (ws ++ [w]).
Proof.
  intros. cbn [u16_adv drx_real_units]. unfold drx_reg16_of.
  rewrite <- (drx_reg16_len ws) at 1. rewrite N2bits_bits2N.
  rewrite bits_of_units_app, crc_update_app. cbn [bits_of_units flat_map]. rewrite app_nil_r. reflexivity.
Qed.

Lemma drx_real16_out : forall ws, u16_out drx_real_units (drx_reg16_of ws) = crc16_hdr ws.
Proof.
  intros. cbn [u16_out drx_real_units]. unfold drx_reg16_of.
  rewrite <- (drx_reg16_len ws) at 1. rewrite N2bits_bits2N. reflexivity.
Qed.

Lemma drx_real32_adv : forall bs k w, 1 <= k <= 4 ->
  u32_adv drx_real_units (drx_reg32_of bs) k w = drx_reg32_of (bs ++ firstn (N.to_nat k) (drx_bytes4 w)).
Proof.
  intros bs k w Hk. cbn [u32_adv drx_real_units]. unfold drx_reg32_of.
  rewrite <- (drx_reg32_len bs) at 1. rewrite N2bits_bits2N.
  rewrite bits_of_units_app, crc_update_app, drx_bits_of_bytes4 by lia.
  replace (N.to_nat (8 * k)) with (8 * N.to_nat k)%nat by lia. reflexivity.
Qed.

Lemma drx_real32_out : forall bs, u32_out drx_real_units (drx_reg32_of bs) = crc32_usb bs.
Proof.
  intros. cbn [u32_out drx_real_units]. unfold drx_reg32_of.
  rewrite <- (drx_reg32_len bs) at 1. rewrite N2bits_bits2N. reflexivity.
Qed.

(* ------------------------------------------------------------------------------------------------------ *)
(* 2. simulation: model events = specification events over the valid words                                  *)
Lemma drx_mask_ones : forall r, drx_mask r true = N.ones (N.min r 4).
Proof.
  intro r. unfold drx_mask. destruct (3 <? r) eqn:E.
  - replace (N.min r 4) with 4 by lia. reflexivity.
  - replace (N.min r 4) with r by lia. reflexivity.
Qed.

Lemma drx_nb_cases : forall nb, nb <= 4 -> nb = 0 \/ nb = 1 \/ nb = 2 \/ nb = 3 \/ nb = 4.
Proof. intros. lia. Qed.

Lemma drx_ones_eq0 : forall nb, nb <= 4 -> (N.ones nb =? 0) = (nb =? 0).
Proof. intros nb H. destruct (drx_nb_cases nb H) as [E|[E|[E|[E|E]]]]; subst; reflexivity. Qed.

Lemma drx_sel_ones : forall nb data, nb <= 4 ->
  drx_sel_bytes (N.ones nb) data = firstn (N.to_nat nb) (drx_bytes4 data).
Proof. intros nb data H. destruct (drx_nb_cases nb H) as [E|[E|[E|[E|E]]]]; subst; reflexivity. Qed.

Lemma drx_le_word : forall w, w < 4294967296 -> drx_le (drx_bytes4 w) = w.
Proof.
  intros w H. unfold drx_bytes4, drx_le. rewrite !bits_spec.
  change (2 ^ 0) with 1; change (2 ^ 8) with 256; change (2 ^ 16) with 65536; change (2 ^ 24) with 16777216.
  lia.
Qed.

Lemma drx_to_check_ok : forall nb pw data, nb <= 4 -> pw < 4294967296 -> data < 4294967296 ->
  drx_to_check (N.ones nb) pw data
  = drx_le (firstn 4 (skipn (N.to_nat nb) (drx_bytes4 pw ++ drx_bytes4 data))).
Proof.
  intros nb pw data H Hp Hd.
  destruct (drx_nb_cases nb H) as [E|[E|[E|[E|E]]]]; subst.
  - change (drx_to_check (N.ones 0) pw data) with pw. symmetry. apply (drx_le_word pw Hp).
  - change (drx_to_check (N.ones 1) pw data) with (bits pw 8 24 + 16777216 * bits data 0 8).
    change (N.to_nat 1) with 1%nat; change (N.to_nat 2) with 2%nat; change (N.to_nat 3) with 3%nat.
    cbn [skipn drx_bytes4 app firstn drx_le]. rewrite !bits_spec.
    change (2 ^ 0) with 1; change (2 ^ 8) with 256; change (2 ^ 16) with 65536; change (2 ^ 24) with 16777216.
    lia.
  - change (drx_to_check (N.ones 2) pw data) with (bits pw 16 16 + 65536 * bits data 0 16).
    change (N.to_nat 1) with 1%nat; change (N.to_nat 2) with 2%nat; change (N.to_nat 3) with 3%nat.
    cbn [skipn drx_bytes4 app firstn drx_le]. rewrite !bits_spec.
    change (2 ^ 0) with 1; change (2 ^ 8) with 256; change (2 ^ 16) with 65536; change (2 ^ 24) with 16777216.
    lia.
  - change (drx_to_check (N.ones 3) pw data) with (bits pw 24 8 + 256 * bits data 0 24).
    change (N.to_nat 1) with 1%nat; change (N.to_nat 2) with 2%nat; change (N.to_nat 3) with 3%nat.
    cbn [skipn drx_bytes4 app firstn drx_le]. rewrite !bits_spec.
    change (2 ^ 0) with 1; change (2 ^ 8) with 256; change (2 ^ 16) with 65536; change (2 ^ 24) with 16777216.
    lia.
  - change (drx_to_check (N.ones 4) pw data) with data. symmetry.
    change (firstn 4 (skipn (N.to_nat 4) (drx_bytes4 pw ++ drx_bytes4 data))) with (drx_bytes4 data).
    apply (drx_le_word data Hd).
Qed.

Definition drx_wbytes (acc : list (N * N)) : list N := flat_map drx_bytes4 (map fst acc).

Lemma drx_wbytes_app : forall a b, drx_wbytes (a ++ b) = drx_wbytes a ++ drx_wbytes b.
Proof. intros. unfold drx_wbytes. rewrite map_app, flat_map_app. reflexivity. Qed.

Lemma drx_wbytes_length : forall a, length (drx_wbytes a) = (4 * length a)%nat.
Proof. induction a as [|x a IH]; [reflexivity|]. unfold drx_wbytes in *. cbn [map flat_map length app]. rewrite app_length, IH.
       cbn [drx_bytes4 length]. lia. Qed.

Lemma drx_split_first : forall (A P D : list N) nb, (nb <= length P)%nat ->
  firstn (length A + nb) (A ++ P ++ D) = A ++ firstn nb P.
Proof.
  intros. rewrite firstn_app. rewrite firstn_all2 by lia. f_equal.
  replace (length A + nb - length A)%nat with nb by lia.
  rewrite firstn_app. replace (nb - length P)%nat with 0%nat by lia. rewrite firstn_O, app_nil_r. reflexivity.
Qed.

Lemma drx_split_skip : forall (A P D : list N) nb,
  skipn (length A + nb) (A ++ P ++ D) = skipn nb (P ++ D).
Proof.
  intros. rewrite skipn_app. rewrite skipn_all2 by lia.
  replace (length A + nb - length A)%nat with nb by lia. reflexivity.
Qed.

Section Sim.
  Variable U : crc_units.
  Variable lw : N.
  Variables h16 c32f r16 r32 : list N -> N.
  Hypothesis H16i : r16 [] = u16_init U.
  Hypothesis H16a : forall ws w, u16_adv U (r16 ws) w = r16 (ws ++ [w]).
  Hypothesis H16o : forall ws, u16_out U (r16 ws) = h16 ws.
  Hypothesis H32i : r32 [] = u32_init U.
  Hypothesis H32a : forall bs k w, 1 <= k <= 4 ->
    u32_adv U (r32 bs) k w = r32 (bs ++ firstn (N.to_nat k) (drx_bytes4 w)).
  Hypothesis H32o : forall bs, u32_out U (r32 bs) = c32f bs.

  Definition drx_rel (s : drx_state) (sp : drx_sp) : Prop :=
    match sp with
    | SIdle => fsm s = DWAIT
    | SHdr [] => fsm s = DDW0 /\ c16 s = r16 [] /\ c32 s = u32_init U
    | SHdr [a] => fsm s = DDW1 /\ c16 s = r16 [a] /\ c32 s = u32_init U /\ hdw0 s = a
    | SHdr [a; b] => fsm s = DDW2 /\ c16 s = r16 [a; b] /\ c32 s = u32_init U /\ hdw0 s = a /\ hdw1 s = b /\
                     plen s = bits b 16 lw
    | SHdr [a; b; c] => fsm s = DDW3 /\ c16 s = r16 [a; b; c] /\ c32 s = u32_init U /\ hdw0 s = a /\ hdw1 s = b /\
                        hdw2 s = c /\ plen s = bits b 16 lw
    | SHdr _ => False
    | SChk [a; b; c; d] => fsm s = DCHK /\ c16 s = r16 [a; b; c] /\ c32 s = u32_init U /\ hdw0 s = a /\ hdw1 s = b /\
                           hdw2 s = c /\ hdw3 s = d /\ plen s = bits b 16 lw /\
                           f16 s = bits d 0 16 /\ f5 s = bits d 27 5 /\ xcrc5 s = crc5_usb (bits d 16 11)
    | SChk _ => False
    | SPay ws acc =>
        ohdr s = sp_hdr ws /\
        ((sp_more (sp_len lw ws) (N.of_nat (length acc)) = true /\ fsm s = DPAY /\
          rem s = sp_len lw ws - 4 * N.of_nat (length acc) /\ first s = (N.of_nat (length acc) =? 0) /\
          c32 s = r32 (drx_wbytes acc))
         \/
         (sp_more (sp_len lw ws) (N.of_nat (length acc)) = false /\ fsm s = DCRC /\
          exists pre pw pc nb, acc = pre ++ [(pw, pc)] /\ sp_len lw ws = 4 * N.of_nat (length pre) + nb /\ nb <= 4 /\
            pw < 4294967296 /\ pword s = pw /\ pvalid s = N.ones nb /\
            c32 s = r32 (drx_wbytes pre ++ firstn (N.to_nat nb) (drx_bytes4 pw))))
    end.

  Lemma drx_rel_init : drx_rel (drx_init U) SIdle.
  Proof. reflexivity. Qed.

  (* an invalid word changes nothing observable *)
  Lemma drx_step_invalid : forall s sp data ctrl, drx_rel s sp ->
    drx_rel (fst (drx_next U lw true s false data ctrl)) sp /\
    drx_events (snd (drx_next U lw true s false data ctrl)) = [].
  Proof.
    intros s sp data ctrl R. destruct s as [f p f16_ f5_ x r fi pw pv a b h0 h1 h2 h3 oh].
    destruct sp as [|ws|ws|ws acc]; cbn [drx_rel fsm] in R.
    - subst f. split; reflexivity.
    - destruct ws as [|w0 [|w1 [|w2 [|w3 ws]]]]; try contradiction;
        destruct R as [Hf R]; subst f; (split; [cbn [drx_next fst fsm]; cbn [drx_rel fsm]; tauto | reflexivity]).
    - destruct ws as [|w0 [|w1 [|w2 [|w3 [|w4 ws]]]]]; try contradiction.
      destruct R as [Hf R]; subst f. split; [cbn [drx_next fst fsm]; cbn [drx_rel fsm]; tauto | reflexivity].
    - destruct R as [Ho [R|R]].
      + destruct R as [Hm [Hf R]]. subst f. split.
        * cbn [drx_next fst fsm]. cbn [drx_rel]. split; [exact Ho|]. left. tauto.
        * reflexivity.
      + destruct R as [Hm [Hf R]]. subst f. split.
        * cbn [drx_next fst fsm]. cbn [drx_rel]. split; [exact Ho|]. right. tauto.
        * reflexivity.
  Qed.

  Lemma drx_step_valid : forall s sp data ctrl, data < 4294967296 -> drx_rel s sp ->
    drx_rel (fst (drx_next U lw true s true data ctrl)) (fst (sp_step h16 c32f lw sp (data, ctrl))) /\
    drx_events (snd (drx_next U lw true s true data ctrl)) = snd (sp_step h16 c32f lw sp (data, ctrl)).
  Proof.
    intros s sp data ctrl Hd R. destruct s as [f p f16_ f5_ x r fi pw pv a b h0 h1 h2 h3 oh].
    destruct sp as [|ws|ws|ws acc]; cbn [drx_rel fsm c16 c32 hdw0 hdw1 hdw2 hdw3 plen f16 f5 xcrc5 ohdr rem first pword pvalid] in R.
    - (* idle *)
      subst f. cbn [drx_next sp_step fst snd fsm andb]. split; [|reflexivity].
      destruct ((data =? DRX_HPSTART) && (ctrl =? 15)); cbn [drx_rel fsm c16 c32]; [|reflexivity].
      rewrite H16i. tauto.
    - (* header words *)
      destruct ws as [|w0 [|w1 [|w2 [|w3 ws]]]]; try contradiction.
      + destruct R as [Hf [Ha Hb]]; subst f a b. cbn [drx_next sp_step fst snd fsm gate]. split; [|reflexivity].
        destruct (bits data 0 5 =? DRX_TYPE_DATA); cbn [drx_rel fsm c16 c32 hdw0]; [|reflexivity].
        rewrite H16a. cbn [app]. tauto.
      + destruct R as [Hf [Ha [Hb Hh]]]; subst f a b h0. cbn [drx_next sp_step fst snd fsm gate app]. split; [|reflexivity].
        cbn [drx_rel fsm c16 c32 hdw0 hdw1 plen]. rewrite H16a. cbn [app]. tauto.
      + destruct R as [Hf [Ha [Hb [Hh0 [Hh1 Hp]]]]]; subst f a b h0 h1 p.
        cbn [drx_next sp_step fst snd fsm gate app]. split; [|reflexivity].
        cbn [drx_rel fsm c16 c32 hdw0 hdw1 hdw2 plen]. rewrite H16a. cbn [app]. tauto.
      + destruct R as [Hf [Ha [Hb [Hh0 [Hh1 [Hh2 Hp]]]]]]; subst f a b h0 h1 h2 p.
        cbn [drx_next sp_step fst snd fsm gate app]. split; [|reflexivity].
        cbn [drx_rel fsm c16 c32 hdw0 hdw1 hdw2 hdw3 plen f16 f5 xcrc5]. tauto.
    - (* header check *)
      destruct ws as [|w0 [|w1 [|w2 [|w3 [|w4 ws]]]]]; try contradiction.
      destruct R as [Hf [Ha [Hb [Hh0 [Hh1 [Hh2 [Hh3 [Hp [H16 [H5 Hx]]]]]]]]]]; subst f a b h0 h1 h2 h3 p f16_ f5_ x.
      cbn [drx_next sp_step fst snd fsm gate f5 f16 xcrc5 c16]. rewrite H16o.
      unfold sp_hdr_ok. cbn [firstn nth].
      destruct (crc5_usb (bits w3 16 11) =? bits w3 27 5) eqn:E5;
        destruct (h16 [w0; w1; w2] =? bits w3 0 16) eqn:E16; cbn [negb orb andb fst snd];
        try (split; reflexivity).
      destruct ((data =? DRX_DPPSTART) && (ctrl =? 15)); cbn [fst snd]; [|split; reflexivity].
      split; [|reflexivity].
      cbn [drx_rel ohdr length N.of_nat fsm rem first c32 plen hdw0 hdw1 hdw2 hdw3]. split; [reflexivity|]. left.
      unfold sp_len. cbn [nth]. unfold sp_more, drx_wbytes. cbn [map flat_map]. rewrite H32i.
      repeat split; try reflexivity; lia.
    - (* payload / CRC *)
      destruct R as [Ho [[Hm [Hf [Hr [Hfi Hc]]]] | [Hm [Hf [pre [pw0 [pc [nb [Hacc [HL [Hnb [Hpw [Hpw' [Hpv Hc]]]]]]]]]]]]]].
      + subst f oh r fi b. cbn [sp_step]. rewrite Hm.
        set (L := sp_len lw ws) in *. set (k := N.of_nat (length acc)) in *.
        cbn [drx_next fst snd fsm rem first ohdr c32]. rewrite drx_mask_ones.
        set (nb := N.min (L - 4 * k) 4). assert (Hnb : nb <= 4) by (unfold nb; lia).
        assert (Hev : drx_events
                   {| o_data := data; o_valid := N.ones nb; o_first := k =? 0; o_last := L - 4 * k <=? 4;
                      o_good := false; o_bad := true && negb (N.land ctrl (N.ones nb) =? 0); o_hdr := sp_hdr ws |}
                 = (if nb =? 0 then [] else [Beat (sp_hdr ws) (firstn (N.to_nat nb) (drx_bytes4 data)) (k =? 0) (L - 4 * k <=? 4)])
                   ++ (if N.land ctrl (N.ones nb) =? 0 then [] else [Report (sp_hdr ws) false])).
        { unfold drx_events. cbn [o_data o_valid o_first o_last o_good o_bad o_hdr].
          rewrite drx_ones_eq0, drx_sel_ones by exact Hnb.
          destruct (N.land ctrl (N.ones nb) =? 0); reflexivity. }
        rewrite Hev. destruct (N.land ctrl (N.ones nb) =? 0) eqn:Eerr; cbn [negb fst snd].
        2:{ split; [reflexivity | reflexivity]. }
        split; [|rewrite app_nil_r; reflexivity].
        cbn [drx_rel ohdr]. split; [reflexivity|].
        rewrite app_length. cbn [length]. replace (N.of_nat (length acc + 1)) with (k + 1) by (unfold k; lia).
        fold L. unfold sp_more in *. destruct (4 <? L - 4 * k) eqn:E4.
        * left. cbn [fsm rem first c32]. repeat split; try lia.
          replace (L - 4 * k =? 0) with false by lia.
          unfold drx_nbytes. rewrite H32a by lia. rewrite drx_wbytes_app. f_equal. f_equal.
          replace (N.min (L - 4 * k) 4) with 4 by lia. unfold drx_wbytes. cbn [map flat_map fst]. rewrite app_nil_r. reflexivity.
        * right. cbn [fsm pword pvalid c32]. split; [lia|]. split; [reflexivity|].
          exists acc, data, ctrl, (L - 4 * k). fold k. repeat split; try lia.
          -- f_equal. unfold nb. lia.
          -- destruct (L - 4 * k =? 0) eqn:E0.
             ++ replace (L - 4 * k) with 0 by lia. cbn [N.to_nat firstn]. rewrite app_nil_r. reflexivity.
             ++ unfold drx_nbytes. rewrite H32a by lia. f_equal. f_equal. f_equal. lia.
      + subst f oh pw pv b acc. cbn [sp_step]. rewrite Hm.
        cbn [drx_next fst snd fsm pvalid pword c32 ohdr first]. split; [reflexivity|].
        rewrite H32o. rewrite HL.
        replace (N.to_nat (4 * N.of_nat (length pre) + nb)) with (length (drx_wbytes pre) + N.to_nat nb)%nat
          by (rewrite drx_wbytes_length; lia).
        rewrite <- app_assoc.
        change (flat_map drx_bytes4 (map fst (pre ++ [(pw0, pc)] ++ [(data, ctrl)])))
          with (drx_wbytes (pre ++ [(pw0, pc)] ++ [(data, ctrl)])).
        rewrite !drx_wbytes_app.
        change (drx_wbytes [(pw0, pc)]) with (drx_bytes4 pw0 ++ []). change (drx_wbytes [(data, ctrl)]) with (drx_bytes4 data ++ []).
        rewrite !app_nil_r.
        rewrite drx_split_first by (cbn [drx_bytes4 length]; lia). rewrite drx_split_skip.
        rewrite <- drx_to_check_ok by assumption.
        unfold drx_events. cbn [o_valid o_good o_bad o_hdr N.eqb app andb].
        rewrite (N.eqb_sym (drx_to_check (N.ones nb) pw0 data)).
        destruct (c32f (drx_wbytes pre ++ firstn (N.to_nat nb) (drx_bytes4 pw0)) =? drx_to_check (N.ones nb) pw0 data); reflexivity.
  Qed.

  Theorem drx_sim : forall ins s sp, drx_rel s sp ->
    flat_map drx_events (drx_runR U lw true s ins) = sp_run h16 c32f lw sp (drx_vwords ins).
  Proof.
    induction ins as [|i t IH]; intros s sp R; [reflexivity|].
    cbn [drx_runR]. unfold drx_stepR at 1. unfold drx_vwords. cbn [flat_map]. fold (drx_vwords t).
    destruct (N.odd (bits i 36 1)) eqn:V.
    - pose proof (drx_step_valid s sp (bits i 0 32) (bits i 32 4) (bits_lt _ _ _) R) as [R' E].
      destruct (drx_next U lw true s true (bits i 0 32) (bits i 32 4)) as [s' o].
      cbn [app sp_run]. destruct (sp_step h16 c32f lw sp (bits i 0 32, bits i 32 4)) as [sp' e].
      cbn [fst snd flat_map] in *. rewrite E. f_equal. apply IH. exact R'.
    - pose proof (drx_step_invalid s sp (bits i 0 32) (bits i 32 4) R) as [R' E].
      destruct (drx_next U lw true s false (bits i 0 32) (bits i 32 4)) as [s' o].
      cbn [fst snd flat_map app] in *. rewrite E. cbn [app]. apply IH. exact R'.
  Qed.
End Sim.

(* ------------------------------------------------------------------------------------------------------ *)
(* 3. what the specification says about one packet                                                         *)
Section SpecFacts.
  Variables h16 c32f : list N -> N.
  Variable lw : N.
  Notation run := (sp_run h16 c32f lw).
  Notation stp := (sp_step h16 c32f lw).

  Lemma sp_run_app : forall a b s, run s (a ++ b) = run s a ++ run (sp_state_after h16 c32f lw s a) b.
  Proof.
    induction a as [|w a IH]; intros b s; [reflexivity|].
    cbn [app sp_run sp_state_after]. destruct (stp s w) as [s' e]. cbn [fst]. rewrite IH, app_assoc. reflexivity.
  Qed.

  Lemma sp_run_cons : forall s w t, run s (w :: t) = snd (stp s w) ++ run (fst (stp s w)) t.
  Proof. intros. cbn [sp_run]. destruct (stp s w); reflexivity. Qed.

  (* payload words, then the word completing the CRC *)
  Lemma sp_pay_run : forall ws cw rest pay acc,
    sp_clean lw ws (N.of_nat (length acc)) pay = true ->
    (forall j, (j < length pay)%nat -> sp_more (sp_len lw ws) (N.of_nat (length acc + j)) = true) ->
    sp_more (sp_len lw ws) (N.of_nat (length acc + length pay)) = false ->
    run (SPay ws acc) (pay ++ cw :: rest)
    = sp_beats lw ws (N.of_nat (length acc)) pay
      ++ Report (sp_hdr ws) (sp_verdict c32f lw ws (acc ++ pay ++ [cw])) :: run SIdle rest.
  Proof.
    intros ws cw rest. induction pay as [|w t IH]; intros acc Hc Hm Hl.
    - cbn [app sp_run sp_step sp_beats]. rewrite Nat.add_0_r in Hl. rewrite Hl. reflexivity.
    - cbn [app sp_run sp_step sp_beats sp_clean] in *. apply andb_true_iff in Hc as [Hc0 Hc].
      pose proof (Hm 0%nat ltac:(cbn [length]; lia)) as H0. rewrite Nat.add_0_r in H0. rewrite H0.
      apply N.eqb_eq in Hc0. rewrite Hc0. cbn [N.eqb].
      rewrite (IH (acc ++ [w])).
      + rewrite app_length. cbn [length]. replace (N.of_nat (length acc + 1)) with (N.of_nat (length acc) + 1) by lia.
        rewrite <- !app_assoc. cbn [app]. reflexivity.
      + rewrite app_length. cbn [length]. replace (N.of_nat (length acc + 1)) with (N.of_nat (length acc) + 1) by lia.
        exact Hc.
      + intros j Hj. rewrite app_length. cbn [length]. replace (length acc + 1 + j)%nat with (length acc + S j)%nat by lia.
        apply Hm. cbn [length]. lia.
      + rewrite app_length. cbn [length] in *. replace (length acc + 1 + length t)%nat with (length acc + S (length t))%nat by lia.
        exact Hl.
  Qed.

  Lemma sp_nwords_more : forall L n j, N.of_nat n = sp_nwords L -> (j < n)%nat -> sp_more L (N.of_nat j) = true.
  Proof. intros L n j Hn Hj. unfold sp_nwords, sp_more in *. destruct (L =? 0) eqn:E; lia. Qed.
  Lemma sp_nwords_done : forall L n, N.of_nat n = sp_nwords L -> sp_more L (N.of_nat n) = false.
  Proof. intros L n Hn. unfold sp_nwords, sp_more in *. destruct (L =? 0) eqn:E; lia. Qed.

  (* a well-formed data packet, wherever the parser is idle: payload beats, then exactly one report *)
  Theorem sp_good_packet : forall d0 c0 d1 c1 d2 c2 d3 c3 pay cw rest,
    let ws := [d0; d1; d2; d3] in
    bits d0 0 5 = DRX_TYPE_DATA -> sp_hdr_ok h16 ws = true ->
    N.of_nat (length pay) = sp_nwords (sp_len lw ws) -> sp_clean lw ws 0 pay = true ->
    run SIdle ((DRX_HPSTART, 15) :: (d0, c0) :: (d1, c1) :: (d2, c2) :: (d3, c3) :: (DRX_DPPSTART, 15) :: pay ++ cw :: rest)
    = sp_beats lw ws 0 pay ++ Report (sp_hdr ws) (sp_verdict c32f lw ws (pay ++ [cw])) :: run SIdle rest.
  Proof.
    intros d0 c0 d1 c1 d2 c2 d3 c3 pay cw rest ws Ht Hok Hn Hc.
    rewrite sp_run_cons. cbn [sp_step fst snd]. rewrite !N.eqb_refl. cbn [andb app].
    rewrite sp_run_cons. cbn [sp_step fst snd]. rewrite Ht, N.eqb_refl. cbn [app].
    rewrite sp_run_cons. cbn [sp_step fst snd app].
    rewrite sp_run_cons. cbn [sp_step fst snd app].
    rewrite sp_run_cons. cbn [sp_step fst snd app].
    rewrite sp_run_cons. cbn [sp_step fst snd app]. fold ws. rewrite Hok, !N.eqb_refl. cbn [andb app].
    rewrite (sp_pay_run ws cw rest pay []); cbn [length Nat.add N.of_nat app].
    - reflexivity.
    - exact Hc.
    - intros j Hj. apply (sp_nwords_more _ (length pay)); assumption.
    - apply sp_nwords_done. exact Hn.
  Qed.

  (* the beats carry exactly the first L bytes of the words after DPPSTART, and contain no report *)
  Lemma sp_beats_bytes : forall ws pay k,
    flat_map drx_beat_bytes (sp_beats lw ws k pay) = firstn (N.to_nat (sp_len lw ws - 4 * k)) (sp_pbytes pay).
  Proof.
    intros ws. induction pay as [|w t IH]; intro k.
    - cbn [sp_beats flat_map sp_pbytes map]. rewrite firstn_nil. reflexivity.
    - cbn [sp_beats]. rewrite flat_map_app, IH. unfold sp_pbytes. cbn [map flat_map].
      rewrite firstn_app. change (length (drx_bytes4 (fst w))) with 4%nat.
      set (r := sp_len lw ws - 4 * k). replace (sp_len lw ws - 4 * (k + 1)) with (r - 4) by lia.
      replace (N.to_nat r - 4)%nat with (N.to_nat (r - 4)) by lia. f_equal.
      destruct (N.min r 4 =? 0) eqn:E.
      + replace r with 0 by lia. reflexivity.
      + cbn [flat_map drx_beat_bytes]. rewrite app_nil_r.
        destruct (r <=? 4) eqn:E4.
        * replace (N.min r 4) with r by lia. reflexivity.
        * replace (N.min r 4) with 4 by lia. change (N.to_nat 4) with 4%nat.
          rewrite !firstn_all2; [reflexivity | cbn [drx_bytes4 length]; lia | cbn [drx_bytes4 length]; lia].
  Qed.

  Lemma sp_beats_no_report : forall ws pay k, existsb drx_is_report (sp_beats lw ws k pay) = false.
  Proof.
    intros ws. induction pay as [|w t IH]; intro k; [reflexivity|]. cbn [sp_beats]. rewrite existsb_app, IH.
    destruct (N.min (sp_len lw ws - 4 * k) 4 =? 0); reflexivity.
  Qed.

  (* a ctrl symbol on a payload byte: the beats up to that word, one `bad`, and the parser is idle again *)
  Theorem sp_ctrl_error : forall ws pay w rest acc,
    sp_clean lw ws (N.of_nat (length acc)) pay = true ->
    (forall j, (j <= length pay)%nat -> sp_more (sp_len lw ws) (N.of_nat (length acc + j)) = true) ->
    N.land (snd w) (N.ones (N.min (sp_len lw ws - 4 * N.of_nat (length acc + length pay)) 4)) <> 0 ->
    run (SPay ws acc) (pay ++ w :: rest)
    = sp_beats lw ws (N.of_nat (length acc)) (pay ++ [w]) ++ Report (sp_hdr ws) false :: run SIdle rest.
  Proof.
    intros ws. induction pay as [|p t IH]; intros w rest acc Hc Hm He.
    - cbn [app sp_run sp_step sp_beats]. pose proof (Hm 0%nat ltac:(cbn [length]; lia)) as H0.
      cbn [length] in He. rewrite Nat.add_0_r in *. rewrite H0. apply N.eqb_neq in He. rewrite He.
      cbn [fst snd]. rewrite app_nil_r, <- app_assoc. reflexivity.
    - cbn [app sp_run sp_step sp_beats sp_clean] in *. apply andb_true_iff in Hc as [Hc0 Hc].
      pose proof (Hm 0%nat ltac:(lia)) as H0. rewrite Nat.add_0_r in H0. rewrite H0.
      apply N.eqb_eq in Hc0. rewrite Hc0. cbn [N.eqb].
      rewrite (IH w rest (acc ++ [p])).
      + rewrite app_length. cbn [length]. replace (N.of_nat (length acc + 1)) with (N.of_nat (length acc) + 1) by lia.
        rewrite <- !app_assoc. reflexivity.
      + rewrite app_length. cbn [length]. replace (N.of_nat (length acc + 1)) with (N.of_nat (length acc) + 1) by lia.
        exact Hc.
      + intros j Hj. rewrite app_length. cbn [length]. replace (length acc + 1 + j)%nat with (length acc + S j)%nat by lia.
        apply Hm. cbn [length]. lia.
      + rewrite app_length. cbn [length] in *. replace (length acc + 1 + length t)%nat with (length acc + S (length t))%nat by lia.
        exact He.
  Qed.

  (* a data header whose CRC-16 or CRC-5 is wrong is never followed by a report for that packet:
     the word after it is consumed and the parser is idle again, whatever that word is *)
  Theorem sp_bad_header : forall d0 c0 d1 c1 d2 c2 d3 c3 x rest,
    bits d0 0 5 = DRX_TYPE_DATA -> sp_hdr_ok h16 [d0; d1; d2; d3] = false ->
    run SIdle ((DRX_HPSTART, 15) :: (d0, c0) :: (d1, c1) :: (d2, c2) :: (d3, c3) :: x :: rest) = run SIdle rest.
  Proof.
    intros d0 c0 d1 c1 d2 c2 d3 c3 x rest Ht Hbad.
    rewrite sp_run_cons. cbn [sp_step fst snd]. rewrite !N.eqb_refl. cbn [andb app].
    rewrite sp_run_cons. cbn [sp_step fst snd]. rewrite Ht, N.eqb_refl. cbn [app].
    rewrite sp_run_cons. cbn [sp_step fst snd app].
    rewrite sp_run_cons. cbn [sp_step fst snd app].
    rewrite sp_run_cons. cbn [sp_step fst snd app].
    rewrite sp_run_cons. cbn [sp_step fst snd app]. rewrite Hbad. cbn [andb app]. reflexivity.
  Qed.
End SpecFacts.

(* ------------------------------------------------------------------------------------------------------ *)
(* 3b. the two instances                                                                                    *)
Theorem drx_real_events : forall lw ins,
  flat_map drx_events (drx_runR drx_real_units lw true (drx_init drx_real_units) ins)
  = sp_run crc16_hdr crc32_usb lw SIdle (drx_vwords ins).
Proof.
  intros. apply (drx_sim drx_real_units lw crc16_hdr crc32_usb drx_reg16_of drx_reg32_of).
  - exact drx_real16_init.
  - exact drx_real16_adv.
  - exact drx_real16_out.
  - exact drx_real32_init.
  - exact drx_real32_adv.
  - exact drx_real32_out.
  - apply drx_rel_init.
Qed.

(* stand-in units: 2-bit xor checksums over the words / bytes *)
Definition drx_stub_h16 (ws : list N) : N := fold_left (fun r w => N.lxor r (drx_x2 4 w)) ws 3.
Definition drx_stub_c32 (bs : list N) : N := fold_left (fun r b => N.lxor r (bits b 0 2)) bs 3.

Lemma drx_bits_bits2 : forall w lo, bits (bits w lo 8) 0 2 = bits w lo 2.
Proof. intros. unfold bits. rewrite N.shiftr_0_r, <- N.land_assoc. reflexivity. Qed.

Lemma drx_stub32_adv : forall bs k w, 1 <= k <= 4 ->
  N.lxor (drx_stub_c32 bs) (drx_x2 k w) = drx_stub_c32 (bs ++ firstn (N.to_nat k) (drx_bytes4 w)).
Proof.
  intros bs k w Hk. unfold drx_stub_c32. rewrite fold_left_app. set (r := fold_left _ bs 3).
  assert (E : k = 1 \/ k = 2 \/ k = 3 \/ k = 4) by lia.
  destruct E as [E|[E|[E|E]]]; subst k; unfold drx_x2; cbn [N.ltb N.compare Pos.compare Pos.compare_cont];
    [change (N.to_nat 1) with 1%nat | change (N.to_nat 2) with 2%nat | change (N.to_nat 3) with 3%nat | change (N.to_nat 4) with 4%nat];
    cbn [firstn drx_bytes4 fold_left]; rewrite !drx_bits_bits2, ?N.lxor_0_r, ?N.lxor_assoc; reflexivity.
Qed.

Theorem drx_stub_events : forall lw ins,
  flat_map drx_events (drx_runR drx_stub_units lw true (drx_init drx_stub_units) ins)
  = sp_run drx_stub_h16 drx_stub_c32 lw SIdle (drx_vwords ins).
Proof.
  intros. apply (drx_sim drx_stub_units lw drx_stub_h16 drx_stub_c32 drx_stub_h16 drx_stub_c32).
  - reflexivity.
  - intros. unfold drx_stub_h16. rewrite fold_left_app. reflexivity.
  - reflexivity.
  - reflexivity.
  - intros. cbn [u32_adv drx_stub_units]. apply drx_stub32_adv. assumption.
  - reflexivity.
  - apply drx_rel_init.
Qed.

(* invalid words never matter *)
Corollary drx_idle_independent : forall lw ins ins',
  drx_vwords ins = drx_vwords ins' ->
  flat_map drx_events (drx_runR drx_real_units lw true (drx_init drx_real_units) ins)
  = flat_map drx_events (drx_runR drx_real_units lw true (drx_init drx_real_units) ins').
Proof. intros lw ins ins' H. rewrite !drx_real_events, H. reflexivity. Qed.

(* ------------------------------------------------------------------------------------------------------ *)
(* 4. packing                                                                                               *)
Lemma drx_mask_lt : forall r v, drx_mask r v < 16.
Proof.
  intros r v. unfold drx_mask. destruct v; [|lia]. destruct (3 <? r) eqn:E; [lia|].
  assert (H : r = 0 \/ r = 1 \/ r = 2 \/ r = 3) by lia. destruct H as [H|[H|[H|H]]]; subst; cbn; lia.
Qed.

Lemma drx_out_bounded : forall U lw hd s i,
  o_data (snd (drx_stepR U lw hd s i)) < 4294967296 /\ o_valid (snd (drx_stepR U lw hd s i)) < 16.
Proof.
  intros. unfold drx_stepR, drx_next. pose proof (bits_lt i 0 32) as Hb. change (2 ^ 32) with 4294967296 in Hb.
  destruct (fsm s); cbn [snd drx_quiet o_data o_valid]; try (split; lia).
  split; [exact Hb | apply drx_mask_lt].
Qed.

Definition drx_clear_hdr (o : drx_out) : drx_out :=
  {| o_data := o_data o; o_valid := o_valid o; o_first := o_first o; o_last := o_last o; o_good := o_good o;
     o_bad := o_bad o; o_hdr := 0 |}.

Lemma drx_odd_pk2 : forall b r, N.odd (pk 2 (b2n b) r) = b.
Proof. intros. unfold pk. apply odd_b2n_add_2. Qed.

Lemma drx_unpack_pack : forall hd o, o_data o < 4294967296 -> o_valid o < 16 ->
  drx_unpack (drx_pack hd o) = if hd then o else drx_clear_hdr o.
Proof.
  intros hd o Hd Hv. unfold drx_unpack, drx_pack.
  set (t5 := if hd then o_hdr o else 0).
  set (t4 := pk 2 (b2n (o_bad o)) t5). set (t3 := pk 2 (b2n (o_good o)) t4).
  set (t2 := pk 2 (b2n (o_last o)) t3). set (t1 := pk 2 (b2n (o_first o)) t2). set (t0 := pk 16 (o_valid o) t1).
  assert (E0 : pk 4294967296 (o_data o) t0 / 4294967296 = t0) by (apply pk_div; exact Hd).
  assert (E1 : t0 / 16 = t1) by (apply pk_div; exact Hv).
  assert (E2 : t1 / 2 = t2) by (apply pk_div; apply b2n_lt2).
  assert (E3 : t2 / 2 = t3) by (apply pk_div; apply b2n_lt2).
  assert (E4 : t3 / 2 = t4) by (apply pk_div; apply b2n_lt2).
  assert (E5 : t4 / 2 = t5) by (apply pk_div; apply b2n_lt2).
  replace (pk 4294967296 (o_data o) t0 / 68719476736) with t1
    by (change 68719476736 with (4294967296 * 16); rewrite <- N.div_div, E0, E1 by lia; reflexivity).
  replace (pk 4294967296 (o_data o) t0 / 137438953472) with t2
    by (change 137438953472 with (4294967296 * (16 * 2)); rewrite <- !N.div_div, E0, E1, E2 by lia; reflexivity).
  replace (pk 4294967296 (o_data o) t0 / 274877906944) with t3
    by (change 274877906944 with (4294967296 * (16 * (2 * 2))); rewrite <- !N.div_div, E0, E1, E2, E3 by lia; reflexivity).
  replace (pk 4294967296 (o_data o) t0 / 549755813888) with t4
    by (change 549755813888 with (4294967296 * (16 * (2 * (2 * 2)))); rewrite <- !N.div_div, E0, E1, E2, E3, E4 by lia; reflexivity).
  replace (pk 4294967296 (o_data o) t0 / 1099511627776) with t5
    by (change 1099511627776 with (4294967296 * (16 * (2 * (2 * (2 * 2))))); rewrite <- !N.div_div, E0, E1, E2, E3, E4, E5 by lia; reflexivity).
  rewrite E0. rewrite (pk_mod 4294967296) by exact Hd. unfold t0 at 1. rewrite (pk_mod 16) by exact Hv.
  unfold t1, t2, t3, t4. rewrite !drx_odd_pk2. unfold t5. destruct hd; destruct o; reflexivity.
Qed.

Lemma drx_events_clear : forall o,
  drx_events (drx_clear_hdr o)
  = map drx_ev_nohdr (drx_events o).
Proof.
  intros [d v f l g b h]. unfold drx_events, drx_clear_hdr. cbn [o_data o_valid o_first o_last o_good o_bad o_hdr].
  destruct (v =? 0), g, b; reflexivity.
Qed.

(* state packing *)
Lemma drx_fsm_code_lt : forall f, drx_fsm_code f < 8.
Proof. destruct f; cbn; lia. Qed.
Lemma drx_fsm_of_code : forall f, drx_fsm_of (drx_fsm_code f) = f.
Proof. destruct f; reflexivity. Qed.

Lemma drx_dec_enc : forall s, drx_wf s -> drx_dec (drx_enc s) = s.
Proof.
  intros s (H1 & H2 & H3 & H4 & H5 & H6 & H7 & H8 & H9 & H10 & H11 & H12 & H13).
  unfold drx_dec. cbv zeta. rewrite !N.shiftr_div_pow2.
  change 7 with (N.ones 3); change 65535 with (N.ones 16); change 31 with (N.ones 5); change 15 with (N.ones 4);
  change 4294967295 with (N.ones 32). rewrite !N.land_ones.
  change (2 ^ 3) with 8; change (2 ^ 16) with 65536; change (2 ^ 5) with 32; change (2 ^ 1) with 2;
  change (2 ^ 32) with W32; change (2 ^ 4) with 16. unfold drx_enc.
  repeat first [ rewrite (pk_div 8) by apply drx_fsm_code_lt | rewrite (pk_mod 8) by apply drx_fsm_code_lt
               | rewrite pk_div by first [assumption | apply b2n_lt2]
               | rewrite pk_mod by first [assumption | apply b2n_lt2] ].
  rewrite drx_odd_pk2, drx_fsm_of_code. destruct s; reflexivity.
Qed.

Lemma drx_crc5_lt : forall v, crc5_usb v < 32.
Proof.
  intro v. unfold crc5_usb. pose proof (bits2N_bound (crc_bits poly5 (N2bits 11 v))) as B.
  assert (L : length (crc_bits poly5 (N2bits 11 v)) = 5%nat).
  { unfold crc_bits, crc_finish. rewrite map_length, rev_length.
    change (crc_shifts bool xorb false poly5 (repeat true (length poly5)) (N2bits 11 v))
      with (crc_update poly5 (repeat true 5) (N2bits 11 v)).
    rewrite drx_crc_update_length; [reflexivity | reflexivity | discriminate]. }
  rewrite L in B. exact B.
Qed.

Lemma drx_wf_init : forall U, units_bounded U -> drx_wf (drx_init U).
Proof. intros U (A & B & _ & _). unfold drx_wf, drx_init, W32 in *. cbn. repeat split; try lia; assumption. Qed.

Lemma drx_wf_next : forall U lw hd, units_bounded U -> lw <= 16 ->
  forall s v data ctrl, data < 4294967296 -> drx_wf s -> drx_wf (fst (drx_next U lw hd s v data ctrl)).
Proof.
  intros U lw hd (Ai & Bi & Aa & Ba) Hlw s v data ctrl Hd (H1 & H2 & H3 & H4 & H5 & H6 & H7 & H8 & H9 & H10 & H11 & H12 & H13).
  pose proof (drx_crc5_lt (bits data 16 11)) as Hc5.
  assert (Hpl : bits data 16 lw < 65536).
  { pose proof (bits_lt data 16 lw). pose proof (pow2_le_mono lw 16 Hlw). change (2 ^ 16) with 65536 in *. lia. }
  pose proof (bits_lt data 0 16) as Hf16. change (2 ^ 16) with 65536 in Hf16.
  pose proof (bits_lt data 27 5) as Hf5. change (2 ^ 5) with 32 in Hf5.
  pose proof (drx_mask_lt (rem s) v) as Hm.
  assert (Hr4 : (if 4 <? rem s then rem s - 4 else rem s) < 65536) by (destruct (4 <? rem s); lia).
  assert (Hc32 : (if rem s =? 0 then c32 s else u32_adv U (c32 s) (drx_nbytes (rem s)) data) < W32)
    by (destruct (rem s =? 0); [assumption | apply Ba; assumption]).
  assert (Hg : forall old, old < W32 -> gate hd data old < W32) by (intros old Ho; unfold gate, W32 in *; destruct hd; assumption).
  unfold drx_next.
  destruct (fsm s); destruct v; cbn [fst];
    repeat match goal with |- context [if ?c then _ else _] => destruct c end;
    unfold drx_wf; cbn [plen f16 f5 xcrc5 rem pword pvalid c16 c32 hdw0 hdw1 hdw2 hdw3];
    repeat split; first [assumption | apply Aa; assumption | apply Ba; assumption | apply Hg; assumption | idtac].
Qed.

Lemma drx_wf_step : forall U lw hd, units_bounded U -> lw <= 16 ->
  forall s i, drx_wf s -> drx_wf (fst (drx_step U lw hd s i)).
Proof.
  intros U lw hd HU Hlw s i Hs. unfold drx_step, drx_stepR.
  pose proof (bits_lt i 0 32) as Hd. change (2 ^ 32) with 4294967296 in Hd.
  pose proof (drx_wf_next U lw hd HU Hlw s (N.odd (bits i 36 1)) (bits i 0 32) (bits i 32 4) Hd Hs) as H.
  destruct (drx_next U lw hd s (N.odd (bits i 36 1)) (bits i 0 32) (bits i 32 4)). exact H.
Qed.

(* ------------------------------------------------------------------------------------------------------ *)
(* 5. the control core (hd = false: header registers not tracked) is the full model with the header output
      dropped                                                                                               *)
Definition drx_core_eq (s s' : drx_state) : Prop :=
  fsm s = fsm s' /\ plen s = plen s' /\ f16 s = f16 s' /\ f5 s = f5 s' /\ xcrc5 s = xcrc5 s' /\ rem s = rem s' /\
  first s = first s' /\ pword s = pword s' /\ pvalid s = pvalid s' /\ c16 s = c16 s' /\ c32 s = c32 s'.

Lemma drx_core_next : forall U lw s s' v data ctrl, drx_core_eq s s' ->
  drx_core_eq (fst (drx_next U lw false s v data ctrl)) (fst (drx_next U lw true s' v data ctrl)) /\
  drx_pack false (snd (drx_next U lw false s v data ctrl)) = drx_pack false (snd (drx_next U lw true s' v data ctrl)).
Proof.
  intros U lw s s' v data ctrl (E1 & E2 & E3 & E4 & E5 & E6 & E7 & E8 & E9 & E10 & E11).
  destruct s as [f p f16_ f5_ x r fi pw pv a b h0 h1 h2 h3 oh].
  destruct s' as [f' p' f16_' f5_' x' r' fi' pw' pv' a' b' h0' h1' h2' h3' oh'].
  cbn [fsm plen f16 f5 xcrc5 rem first pword pvalid c16 c32] in *. subst f' p' f16_' f5_' x' r' fi' pw' pv' a' b'.
  unfold drx_next, drx_core_eq, drx_pack, drx_quiet.
  destruct f; destruct v; cbn [fsm fst snd plen f16 f5 xcrc5 rem first pword pvalid c16 c32 o_data o_valid o_first o_last o_good o_bad];
    repeat match goal with |- context [if ?c then _ else _] => destruct c end;
    cbn [fsm fst snd plen f16 f5 xcrc5 rem first pword pvalid c16 c32 o_data o_valid o_first o_last o_good o_bad];
    repeat split; reflexivity.
Qed.

Lemma drx_core_run : forall U lw ins s s', drx_core_eq s s' ->
  run (drx_step U lw false) s ins = map (drx_pack false) (drx_runR U lw true s' ins).
Proof.
  induction ins as [|i t IH]; intros s s' H; [reflexivity|].
  cbn [run drx_runR map]. unfold drx_step, drx_stepR.
  pose proof (drx_core_next U lw s s' (N.odd (bits i 36 1)) (bits i 0 32) (bits i 32 4) H) as [Hs Ho].
  destruct (drx_next U lw false s (N.odd (bits i 36 1)) (bits i 0 32) (bits i 32 4)) as [s1 o1].
  destruct (drx_next U lw true s' (N.odd (bits i 36 1)) (bits i 0 32) (bits i 32 4)) as [s1' o1'].
  cbn [fst snd map] in *. rewrite Ho. f_equal. apply IH. exact Hs.
Qed.

Lemma drx_full_run : forall U lw ins s,
  run (drx_step U lw true) s ins = map (drx_pack true) (drx_runR U lw true s ins).
Proof.
  induction ins as [|i t IH]; intros s; [reflexivity|]. cbn [run drx_runR map]. unfold drx_step.
  destruct (drx_stepR U lw true s i) as [s1 o1]. cbn [map]. rewrite IH. reflexivity.
Qed.

Lemma drx_runR_bounded : forall U lw hd ins s,
  Forall (fun o => o_data o < 4294967296 /\ o_valid o < 16) (drx_runR U lw hd s ins).
Proof.
  induction ins as [|i t IH]; intros s; [constructor|]. cbn [drx_runR].
  pose proof (drx_out_bounded U lw hd s i) as B. destruct (drx_stepR U lw hd s i) as [s1 o1]. constructor; [exact B | apply IH].
Qed.

(* events read off packed output words *)
Definition drx_events_w (w : N) : list drx_ev := drx_events (drx_unpack w).

Lemma drx_events_packed : forall U lw ins s,
  flat_map drx_events_w (map (drx_pack true) (drx_runR U lw true s ins)) = flat_map drx_events (drx_runR U lw true s ins).
Proof.
  intros. pose proof (drx_runR_bounded U lw true ins s) as B.
  induction (drx_runR U lw true s ins) as [|o l IH]; [reflexivity|]. inversion B as [|? ? [Hd Hv] Bl]; subst.
  cbn [map flat_map]. unfold drx_events_w at 1. rewrite drx_unpack_pack by assumption. rewrite IH by exact Bl. reflexivity.
Qed.

Lemma drx_events_packed_nohdr : forall U lw ins s,
  flat_map drx_events_w (map (drx_pack false) (drx_runR U lw true s ins))
  = map drx_ev_nohdr (flat_map drx_events (drx_runR U lw true s ins)).
Proof.
  intros. pose proof (drx_runR_bounded U lw true ins s) as B.
  induction (drx_runR U lw true s ins) as [|o l IH]; [reflexivity|]. inversion B as [|? ? [Hd Hv] Bl]; subst.
  cbn [map flat_map]. unfold drx_events_w at 1. rewrite drx_unpack_pack by assumption. rewrite map_app, IH by exact Bl.
  rewrite drx_events_clear. reflexivity.
Qed.

(* what the lock-step obligations are combined with: packed outputs of the machine -> specification events *)
Theorem drx_machine_events : forall U lw h16 c32f ins,
  (forall ins, flat_map drx_events (drx_runR U lw true (drx_init U) ins) = sp_run h16 c32f lw SIdle (drx_vwords ins)) ->
  flat_map drx_events_w (run (drx_step U lw true) (drx_init U) ins) = sp_run h16 c32f lw SIdle (drx_vwords ins).
Proof. intros U lw h16 c32f ins H. rewrite drx_full_run, drx_events_packed. apply H. Qed.

Theorem drx_machine_events_nohdr : forall U lw h16 c32f ins,
  (forall ins, flat_map drx_events (drx_runR U lw true (drx_init U) ins) = sp_run h16 c32f lw SIdle (drx_vwords ins)) ->
  flat_map drx_events_w (run (drx_step U lw false) (drx_init U) ins)
  = map drx_ev_nohdr (sp_run h16 c32f lw SIdle (drx_vwords ins)).
Proof.
  intros U lw h16 c32f ins H. rewrite (drx_core_run U lw ins (drx_init U) (drx_init U)).
  - rewrite drx_events_packed_nohdr, H. reflexivity.
  - unfold drx_core_eq. repeat split; reflexivity.
Qed.

(* ------------------------------------------------------------------------------------------------------ *)
(* 6. the property, per packet, on the module model (real CRCs)                                             *)
Definition drx_model_events (lw : N) (ins : list N) : list drx_ev :=
  flat_map drx_events (drx_runR drx_real_units lw true (drx_init drx_real_units) ins).

Theorem drx_packet_reported_once : forall lw ins pre d0 c0 d1 c1 d2 c2 d3 c3 pay cw rest,
  let ws := [d0; d1; d2; d3] in
  drx_vwords ins
    = pre ++ (DRX_HPSTART, 15) :: (d0, c0) :: (d1, c1) :: (d2, c2) :: (d3, c3) :: (DRX_DPPSTART, 15) :: pay ++ cw :: rest ->
  sp_state_after crc16_hdr crc32_usb lw SIdle pre = SIdle ->
  bits d0 0 5 = DRX_TYPE_DATA -> sp_hdr_ok crc16_hdr ws = true ->
  N.of_nat (length pay) = sp_nwords (sp_len lw ws) -> sp_clean lw ws 0 pay = true ->
  drx_model_events lw ins
  = sp_run crc16_hdr crc32_usb lw SIdle pre
    ++ sp_beats lw ws 0 pay
    ++ Report (sp_hdr ws) (sp_verdict crc32_usb lw ws (pay ++ [cw]))
    :: sp_run crc16_hdr crc32_usb lw SIdle rest.
Proof.
  intros lw ins pre d0 c0 d1 c1 d2 c2 d3 c3 pay cw rest ws Hv Hpre Ht Hok Hn Hc.
  unfold drx_model_events. rewrite drx_real_events, Hv, sp_run_app, Hpre. f_equal.
  apply sp_good_packet; assumption.
Qed.

Lemma sp_payload_length : forall lw ws pay, N.of_nat (length pay) = sp_nwords (sp_len lw ws) ->
  length (flat_map drx_beat_bytes (sp_beats lw ws 0 pay)) = N.to_nat (sp_len lw ws).
Proof.
  intros lw ws pay Hn. rewrite (sp_beats_bytes crc16_hdr crc32_usb), firstn_length. unfold sp_pbytes.
  change (flat_map drx_bytes4 (map fst pay)) with (drx_wbytes pay). rewrite drx_wbytes_length.
  unfold sp_nwords in Hn. destruct (sp_len lw ws =? 0) eqn:E; lia.
Qed.

Lemma drx_beats_bytes : forall lw ws pay k,
  flat_map drx_beat_bytes (sp_beats lw ws k pay) = firstn (N.to_nat (sp_len lw ws - 4 * k)) (sp_pbytes pay).
Proof. exact (sp_beats_bytes crc16_hdr crc32_usb). Qed.
Lemma drx_beats_no_report : forall lw ws pay k, existsb drx_is_report (sp_beats lw ws k pay) = false.
Proof. exact sp_beats_no_report. Qed.

(* ---- the units are bounded ---- *)
Lemma drx_lxor_lt_pow2 : forall a b n, a < 2 ^ n -> b < 2 ^ n -> N.lxor a b < 2 ^ n.
Proof.
  intros a b n Ha Hb. destruct (N.eq_dec (N.lxor a b) 0) as [E|E]; [rewrite E; apply pow2_pos|].
  apply N.log2_lt_pow2; [lia|]. pose proof (N.log2_lxor a b) as L.
  assert (Hn : 0 < n). { destruct (N.eq_dec n 0) as [->|Hn0]; [|lia]. cbn in Ha, Hb. replace a with 0 in E by lia. replace b with 0 in E by lia. contradiction. }
  assert (La : N.log2 a < n). { destruct (N.eq_dec a 0) as [->|Na]; [cbn; lia | apply N.log2_lt_pow2; lia]. }
  assert (Lb : N.log2 b < n). { destruct (N.eq_dec b 0) as [->|Nb]; [cbn; lia | apply N.log2_lt_pow2; lia]. }
  lia.
Qed.

Lemma drx_x2_lt : forall k w, drx_x2 k w < 2 ^ 32.
Proof.
  intros k w. unfold drx_x2.
  assert (B : forall (q : N) (c : bool), (if c then bits w q 2 else 0) < 2 ^ 32).
  { intros q c. destruct c; [|cbn; lia]. pose proof (bits_lt w q 2) as Hq. change (2 ^ 2) with 4 in Hq.
    change (2 ^ 32) with 4294967296. lia. }
  repeat apply drx_lxor_lt_pow2; apply B.
Qed.

Lemma drx_stub_bounded : units_bounded drx_stub_units.
Proof.
  unfold units_bounded, W32. change 4294967296 with (2 ^ 32). cbn [u16_init u32_init u16_adv u32_adv drx_stub_units].
  repeat split; try (cbn; lia); intros; apply drx_lxor_lt_pow2; try assumption; apply drx_x2_lt.
Qed.

Lemma drx_real_bounded : units_bounded drx_real_units.
Proof.
  unfold units_bounded, W32. cbn [u16_init u32_init u16_adv u32_adv drx_real_units]. repeat split; try lia.
  - intros r w _. pose proof (bits2N_bound (crc_update poly16h (N2bits 16 r) (N2bits 32 w))) as B.
    rewrite drx_crc_update_length in B; [|rewrite N2bits_length; reflexivity | destruct (N2bits 16 r) eqn:E; [pose proof (N2bits_length 16 r) as L; rewrite E in L; discriminate | discriminate]].
    rewrite N2bits_length in B. change (2 ^ N.of_nat 16) with 65536 in B. lia.
  - intros r k w _. pose proof (bits2N_bound (crc_update poly32 (N2bits 32 r) (N2bits (N.to_nat (8 * k)) w))) as B.
    rewrite drx_crc_update_length in B; [|rewrite N2bits_length; reflexivity | destruct (N2bits 32 r) eqn:E; [pose proof (N2bits_length 32 r) as L; rewrite E in L; discriminate | discriminate]].
    rewrite N2bits_length in B. change (2 ^ N.of_nat 32) with 4294967296 in B. exact B.
Qed.

Lemma drx_lw_3 : 3 <= 16. Proof. lia. Qed.
Lemma drx_lw_4 : 4 <= 16. Proof. lia. Qed.
Lemma drx_lw_11 : 11 <= 16. Proof. lia. Qed.
