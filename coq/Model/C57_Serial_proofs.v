(* C57 -- proofs about Model/C57_Serial.v *)
From Coq Require Import NArith ZArith Arith List Bool Lia ZifyBool ZifyN.
Import ListNotations.
From LunaLib Require Import Netlist Bits Machine PackN.
From LunaModel Require Import Crc Handshake Usb2DataRx_proofs Usb2DataTx TokenDet TokenDet_proofs C20_TxPath C20_TxPath_proofs C57_Pack C57_Serial.
Open Scope N_scope.
Ltac Zify.zify_post_hook ::= Z.div_mod_to_equations.

Lemma acm_run_map : forall tr, run acm_step tt tr = map (fun i => snd (acm_step tt i)) tr.
Proof. induction tr as [|i tr IH]; [reflexivity|]. cbn [run map]. unfold acm_step at 1. cbn [snd]. rewrite IH. reflexivity. Qed.

(* ---- reading of the ACMRequestHandlers model ---- *)
Definition ao_claim (o : N) : bool := N.testbit o 0.
Definition ao_ack (o : N) : bool := N.testbit o 1.
Definition ao_txvalid (o : N) : bool := N.testbit o 2.
Definition ao_txlast (o : N) : bool := N.testbit o 3.

Lemma acm_out_bits : forall a b c d : bool,
  let o := b2n a + 2 * b2n b + 4 * b2n c + 8 * b2n d in
  N.testbit o 0 = a /\ N.testbit o 1 = b /\ N.testbit o 2 = c /\ N.testbit o 3 = d.
Proof. intros [] [] [] []; cbn; auto. Qed.

(* the handler claims exactly the class request SET_LINE_CODING (0x20); it ACKs the data stage of a claimed request
   when the receiver is ready for a response, and answers its status stage with a zero-length packet (valid & last,
   no first); it drives nothing otherwise *)
Theorem acm_reading : forall i,
  let o := snd (acm_step tt i) in
  (ao_claim o = true <-> (bits i 0 2 = 1 /\ bits i 2 8 = 32)) /\
  ao_ack o = (ao_claim o && N.testbit i 10) /\
  ao_txvalid o = (ao_claim o && N.testbit i 11) /\
  ao_txlast o = ao_txvalid o.
Proof.
  intro i. cbv zeta. unfold acm_step, ao_claim, ao_ack, ao_txvalid, ao_txlast. cbn [snd].
  destruct (acm_out_bits (acm_claim i) (acm_claim i && N.testbit i 10) (acm_claim i && N.testbit i 11) (acm_claim i && N.testbit i 11))
    as (E0 & E1 & E2 & E3).
  rewrite E0, E1, E2, E3. repeat split; try reflexivity.
  - unfold acm_claim in H. apply andb_true_iff in H as [H _]. apply N.eqb_eq in H. exact H.
  - unfold acm_claim in H. apply andb_true_iff in H as [_ H]. apply N.eqb_eq in H. exact H.
  - intros [H1 H2]. unfold acm_claim. rewrite H1, H2. reflexivity.
Qed.

(* ---- reading of the request classification of the device specification ---- *)
Definition mk_req (bm br wvalue windex wlength : N) : N :=
  bm + 256 * br + 65536 * wvalue + 4294967296 * windex + 281474976710656 * wlength.

(* ---- the observer's state survives its N packing ---- *)
Definition bytes_ok (l : list N) : Prop := Forall (fun b => b < 256) l.
Definition s_wf (s : sstate) : Prop :=
  match z_rx s with Some l => bytes_ok l | None => True end /\
  match z_tx s with Some l => bytes_ok l | None => True end /\
  bytes_ok (z_outq s) /\ bytes_ok (z_inq s).

Lemma olist_dec_enc : forall o, match o with Some l => bytes_ok l | None => True end -> olist_dec (olist_enc o) = o.
Proof.
  intros [l|] H; [|reflexivity]. unfold olist_enc, olist_dec.
  pose proof (bytes_enc_pos l) as P. destruct (bytes_enc l) eqn:E; [lia|]. rewrite <- E, bytes_dec_enc by exact H. reflexivity.
Qed.

Lemma s_fields_length : forall s, length (s_fields s) = 19%nat.
Proof. intros s. unfold s_fields. destruct (z_ctl s), (z_pend s); reflexivity. Qed.

Theorem s_dec_enc : forall s, s_wf s -> s_dec (s_enc s) = s.
Proof.
  intros s (Hrx & Htx & Ho & Hi). unfold s_dec, s_enc.
  rewrite <- (s_fields_length s), ldec_lenc.
  destruct s as [rx tx addr cfg tok ctl pend wait naks otog itog outq tent inq].
  cbn [z_rx z_tx z_outq z_inq] in *. unfold s_fields.
  cbn [z_rx z_tx z_addr z_cfg z_tok z_ctl z_pend z_wait z_naks z_otog z_itog z_outq z_tent z_inq].
  destruct ctl, pend; cbn [cphase_enc pend_enc app s_of_fields cphase_dec pend_dec];
    rewrite (olist_dec_enc rx Hrx), (olist_dec_enc tx Htx), (bytes_dec_enc outq Ho), (bytes_dec_enc inq Hi); reflexivity.
Qed.

(* ---- reading of the request classification ---- *)
Definition rq_type (req : N) : N := (rq_byte req 0 / 32) mod 4.

(* vendor and reserved requests must be STALLed, whatever their direction, code or length *)
Theorem classify_vendor_reserved : forall P req, rq_type req = 2 \/ rq_type req = 3 -> classify_request P req = C_STALL.
Proof.
  intros P req H. unfold classify_request. fold (rq_type req).
  destruct H as [-> | ->]; reflexivity.
Qed.

(* class requests other than SET_LINE_CODING (0x20) must be STALLed *)
Theorem classify_class_other : forall P req, rq_type req = 1 -> rq_byte req 1 <> 32 -> classify_request P req = C_STALL.
Proof.
  intros P req H Hn. unfold classify_request. fold (rq_type req). rewrite H. cbn [N.eqb Pos.eqb].
  apply N.eqb_neq in Hn. rewrite Hn. reflexivity.
Qed.

(* SET_LINE_CODING (bmRequestType 0x21, bRequest 0x20) with a data stage must have that data stage accepted *)
Theorem classify_set_line_coding : forall P req, rq_byte req 0 = 33 -> rq_byte req 1 = 32 -> rq_word req 6 <> 0 ->
  classify_request P req = C_OUT_DATA (rq_word req 6) DATA1B.
Proof.
  intros P req H0 H1 Hl. unfold classify_request. rewrite H0, H1. cbn.
  apply N.eqb_neq in Hl. rewrite Hl. reflexivity.
Qed.

(* GET_DESCRIPTOR of an advertised descriptor must be answered with its first wLength bytes; of any other, STALLed *)
Theorem classify_get_descriptor : forall P req, rq_byte req 0 = 128 -> rq_byte req 1 = 6 -> rq_word req 6 <> 0 ->
  classify_request P req =
  match lookup (rq_word req 2) (sp_desc P) with Some _ => C_IN (rq_word req 2) 0 (rq_word req 6) DATA1B | None => C_STALL end.
Proof.
  intros P req H0 H1 Hl. unfold classify_request. rewrite H0, H1. cbn.
  apply N.eqb_neq in Hl. rewrite Hl. reflexivity.
Qed.
