(* C21 -- hand model of the frame/microframe logic of luna/gateware/usb/usb2/device.py (USBDevice.elaborate,
   "Frame/microframe state"), parametric in the width fw of the frame number and mw of the microframe
   counter (LUNA: 11 and 3), its event-level specification, and an end-to-end specification that starts
   from the UTMI receive bus (well-formed SOF packets) for correspondence runs against the complete device.

   Frame logic ports.  inputs: sof = token_detector.interface.new_frame (bit 0),
                               frame = token_detector.interface.frame (bits 1..fw);
                       outputs: frame_number (fw bits), microframe_number (mw bits), new_frame, sof_detected. *)
From Coq Require Import NArith List Bool.
Import ListNotations.
From LunaLib Require Import Netlist Machine.
From LunaModel Require Import Handshake.   (* UTMI receive packetiser: d_act, d_val, d_dat, pk_next, pk_done *)
Open Scope N_scope.

Section FrameTrack.
  Variables fw mw : N.

  Definition ft_sof (i : N) : bool := N.testbit i 0.
  Definition ft_frame (i : N) : N := bits i 1 fw.

  (* output word for registers (fn, mf) and the token detector's (sof, frame) of this cycle *)
  Definition ft_out (st : N * N) (sof : bool) (frame : N) : N :=
    fst st + 2 ^ fw * (snd st + 2 ^ mw * (b2n (sof && negb (frame =? fst st)) + 2 * b2n sof)).

  (* ---- the module: two registers ---- *)
  Definition ft_next (st : N * N) (sof : bool) (frame : N) : N * N :=
    if sof then
      (frame, if negb (frame =? fst st) (* new_frame *) then 0 else (snd st + 1) mod 2 ^ mw)
    else st.
  Definition ft_step (st : N * N) (i : N) : (N * N) * N :=
    (ft_next st (ft_sof i) (ft_frame i), ft_out st (ft_sof i) (ft_frame i)).
  Definition ft_init : N * N := (0, 0).

  (* ---- the specification, over the sequence of SOF frame numbers received so far ----
     (frame, microframe) after the SOFs `sofs` (oldest first); before the first SOF both are 0 *)
  Definition sof_update (st : N * N) (f : N) : N * N :=
    (f, if f =? fst st then (snd st + 1) mod 2 ^ mw else 0).
  Definition frames_after (sofs : list N) : N * N := fold_left sof_update sofs (0, 0).
  (* the SOF frame numbers delivered by the token detector during a history of cycles *)
  Definition sofs_of (hist : list N) : list N := map ft_frame (filter ft_sof hist).
  (* outputs in a cycle with input word i after history hist:
       frame_number / microframe_number = frames_after the SOFs of the history,
       new_frame = this cycle delivers a SOF whose number differs from frame_number, sof_detected = sof *)
  Definition ft_spec_out (hist : list N) (i : N) : N :=
    ft_out (frames_after (sofs_of hist)) (ft_sof i) (ft_frame i).

  Definition ft_enc (st : N * N) : N := fst st + 2 ^ fw * snd st.
  Definition ft_dec (m : N) : N * N := (m mod 2 ^ fw, m / 2 ^ fw).
End FrameTrack.

(* ---- end-to-end specification from the UTMI receive bus (used for correspondence only) ----------- *)
(* USB token CRC5 (USB 2.0 8.3.5): generator x^5 + x^2 + 1, register preset to ones, data bits in
   transmission order (LSB first), remainder complemented and sent MSB first *)
Fixpoint crc5_run (k : nat) (x crc : N) : N :=
  match k with
  | O => crc
  | S k' =>
      let top := xorb (N.testbit crc 4) (N.odd x) in
      let crc1 := N.land (N.shiftl crc 1) 31 in
      crc5_run k' (N.div2 x) (if top then N.lxor crc1 5 else crc1)
  end.
Definition rev5 (x : N) : N :=
  b2n (N.testbit x 4) + 2 * b2n (N.testbit x 3) + 4 * b2n (N.testbit x 2) + 8 * b2n (N.testbit x 1) + 16 * b2n (N.testbit x 0).
Definition crc5 (x : N) : N := rev5 (N.lxor (crc5_run 11 x 31) 31).

(* a well-formed SOF packet: PID byte 0xA5, then 11 bits of frame number and their CRC5 *)
Definition sof_of_packet (l : list N) : option N :=
  match l with
  | [p; b1; b2] =>
      let frame := b1 + 256 * (b2 mod 8) in
      if (p =? 165) && (b2 / 8 =? crc5 frame) then Some frame else None
  | _ => None
  end.

(* state: packet in progress; SOF presented by the token detector in this cycle (one cycle after the
   packet ended); (frame_number, microframe_number).  Input word = rx_active + 2 rx_valid + 4 rx_data. *)
Definition e2e_state : Type := option (list N) * option N * (N * N).
Definition e2e_step (s : e2e_state) (i : N) : e2e_state * N :=
  let '(p, pend, st) := s in
  let sof := match pend with Some _ => true | None => false end in
  let frame := match pend with Some f => f | None => 0 end in
  ((pk_next p i,
    match pk_done p i with Some l => sof_of_packet l | None => None end,
    ft_next 3 st sof frame),
   ft_out 11 3 st sof frame).
Definition e2e_init : e2e_state := (None, None, (0, 0)).

(* ---- the end-to-end specification as a runtime oracle (monitor with N-packed state) -----------------
   Used by the C-monitor obligation on simulator traces of the complete device: frame_number,
   microframe_number, new_frame and sof_detected may change only as e2e_step says, i.e. only at well-formed
   SOF packets.  Only the first four bytes of the packet in progress are kept: sof_of_packet accepts
   three-byte packets only, so longer prefixes are all equivalent. *)
Fixpoint e2e_bytes (n : nat) (v : N) : list N :=
  match n with O => [] | S k => v mod 256 :: e2e_bytes k (v / 256) end.
Fixpoint e2e_unbytes (l : list N) : N :=
  match l with [] => 0 | b :: t => b + 256 * e2e_unbytes t end.
Definition e2e_enc (s : e2e_state) : N :=
  let '(p, pend, st) := s in
  (match p with None => 0 | Some l => let c := firstn 4 l in 1 + N.of_nat (length c) + 8 * e2e_unbytes c end)
  + 2 ^ 35 * ((match pend with None => 0 | Some f => 1 + 2 * f end) + 2 ^ 12 * (fst st + 2 ^ 11 * snd st)).
Definition e2e_dec (m : N) : e2e_state :=
  let lo := m mod 2 ^ 35 in let hi := m / 2 ^ 35 in
  let pe := hi mod 2 ^ 12 in let st := hi / 2 ^ 12 in
  (match lo mod 8 with 0 => None | k => Some (e2e_bytes (N.to_nat (k - 1)) (lo / 8)) end,
   (if N.odd pe then Some (pe / 2) else None),
   (st mod 2 ^ 11, st / 2 ^ 11)).
Definition e2e_mon (m i o : N) : option (N * bool) :=
  let (s', o') := e2e_step (e2e_dec m) i in Some (e2e_enc s', N.eqb o o').
Definition e2e_m0 : N := e2e_enc e2e_init.
