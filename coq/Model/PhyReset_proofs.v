From Coq Require Import NArith ZArith List Bool Lia ZifyBool ZifyN.
Import ListNotations.
From LunaLib Require Import Netlist Machine.
From LunaModel Require Import PhyReset.
Open Scope N_scope.
Ltac Zify.zify_post_hook ::= Z.div_mod_to_equations.

Section Proofs.
  Variables r s w : N.
  Variable power_on : bool.
  Hypothesis Hr : 1 <= r.
  Hypothesis Hs : 1 <= s.
  Hypothesis Hw : r <= 2 ^ w /\ s <= 2 ^ w.

  (* simulation relation between the code-shaped model and the one-counter specification *)
  Definition rel (st : pr_state) (p : option N) : Prop :=
    match fsm st, p with
    | IDLE, None => cnt st = 0
    | RESETTING, Some k => cnt st = k /\ k < r
    | DEFERRING, Some k => k = r + cnt st /\ cnt st < s
    | _, _ => False
    end.

  Lemma rel_init : rel (pr_init power_on) (sp_init power_on).
  Proof. unfold rel, pr_init, sp_init. destruct power_on; simpl; lia. Qed.

  Lemma rel_out : forall st p, rel st p -> pr_out st = sp_out r p.
  Proof.
    intros [f c] p H. unfold rel, pr_out, sp_out in *. simpl in *.
    destruct f, p as [k|]; try contradiction; try reflexivity.
    - destruct H as [-> H]. destruct (k <? r) eqn:E; [reflexivity | lia].
    - destruct H as [-> H]. destruct (r + c <? r) eqn:E; [lia | reflexivity].
  Qed.

  Lemma rel_next : forall st p t, rel st p -> rel (pr_next r s w st t) (sp_next r s p t).
  Proof.
    intros [f c] p t H. unfold rel, pr_next, sp_next in *. simpl in *.
    assert (P2 : 0 < 2 ^ w) by (apply N.neq_0_lt_0, N.pow_nonzero; lia).
    destruct f, p as [k|]; try contradiction.
    - destruct t; simpl; lia.
    - destruct H as [-> H].
      destruct (k + 1 =? r) eqn:E1; simpl.
      + destruct (k + 1 =? r + s) eqn:E2; simpl; lia.
      + destruct (k + 1 =? r + s) eqn:E2; simpl; [lia|].
        rewrite N.mod_small by lia. lia.
    - destruct H as [-> H].
      destruct (c + 1 =? s) eqn:E1; simpl.
      + destruct (r + c + 1 =? r + s) eqn:E2; simpl; lia.
      + destruct (r + c + 1 =? r + s) eqn:E2; simpl; [lia|].
        rewrite N.mod_small by lia. lia.
  Qed.

  Theorem phyreset_refines : forall tr st p, rel st p ->
    run (pr_step r s w) st tr = run (sp_step r s) p tr.
  Proof.
    induction tr as [|i t IH]; intros st p H; simpl; [reflexivity|].
    rewrite (rel_out _ _ H). f_equal. apply IH. apply rel_next. exact H.
  Qed.

  Corollary phyreset_from_reset : forall tr,
    run (pr_step r s w) (pr_init power_on) tr = run (sp_step r s) (sp_init power_on) tr.
  Proof. intros. apply phyreset_refines. apply rel_init. Qed.
End Proofs.

(* packing facts *)
Definition pr_wf (w : N) (st : pr_state) : Prop := True.
Lemma pr_dec_enc : forall st, pr_dec (pr_enc st) = st.
Proof.
  intros [f c]. unfold pr_dec, pr_enc. cbn [fsm cnt].
  destruct f.
  - assert (E1 : (0 + 4 * c) mod 4 = 0) by lia. assert (E2 : (0 + 4 * c) / 4 = c) by lia.
    rewrite E1, E2. reflexivity.
  - assert (E1 : (1 + 4 * c) mod 4 = 1) by lia. assert (E2 : (1 + 4 * c) / 4 = c) by lia.
    rewrite E1, E2. reflexivity.
  - assert (E1 : (2 + 4 * c) mod 4 = 2) by lia. assert (E2 : (2 + 4 * c) / 4 = c) by lia.
    rewrite E1, E2. reflexivity.
Qed.
