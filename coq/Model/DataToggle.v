(* C14 -- Data toggles advance only on success and reset on CLEAR_FEATURE(ENDPOINT_HALT).

   Three SPECIFICATION observers, one per anchored mechanism.  Each keeps the endpoint's data-toggle ("sequence bit":
   false = DATA0) exactly as the property states it -- flipped by a success event, cleared by a ClearFeature(ENDPOINT_HALT)
   strobe naming this endpoint number and direction, unchanged otherwise -- and compares it with what the module does.

   1. c14i_mon  IN endpoints (USBStreamInEndpoint / USBInTransferManager; model: Model/InXfer.v), over the typed interface
                signals of InXfer.v.  Success = host ACK while the handshake of a completed packet is outstanding.
                Observed: tx_pid_toggle in every cycle with tx.valid.
   2. c14o_mon  OUT endpoints (USBStreamOutEndpoint), over packed words of the target of props/C14.py whose third output is
                the module's `expected_data_toggle` register.  Success = the device ACKs a data packet whose PID is the
                expected one (new data).  Observed: the register itself, plus the ACK-without-accept answer to a repeated PID.
   3. c14d_mon  the decode in StandardRequestHandler (request/standard.py): a host ACK while the most recent SETUP packet is a
                not yet completed CLEAR_FEATURE(ENDPOINT_HALT, recipient endpoint) produces the strobe (enable,
                direction = wIndex[7], number = wIndex[3:0]); no strobe otherwise. *)
From Coq Require Import NArith List Bool Arith.
Import ListNotations.
From LunaLib Require Import Netlist Machine.
From LunaModel Require Import InXfer.
Open Scope N_scope.

(* ------------------------------------------------------------------------------------------ *)
(* 1. IN endpoints                                                                             *)
Record tg_state := {
  g_seq : bool;      (* the endpoint's data toggle: PID of the packet in flight, else of the next packet *)
  g_busy : bool;     (* a data packet is on the wire *)
  g_wait : bool      (* a packet is complete, its handshake outstanding *)
}.
Definition tg_init : tg_state := {| g_seq := false; g_busy := false; g_wait := false |}.

Section InToggle.
  Variable ep : N.

  (* environment: ACK and new_token strobes never coincide; a ClearFeature(ENDPOINT_HALT) strobe for this endpoint
     arrives only between its transactions (the status stage of the control transfer -- a token for endpoint 0 --
     precedes it, so no packet of this endpoint is on the wire or awaiting its handshake) *)
  Definition c14i_env (s : tg_state) (i : ix_in) : bool :=
    negb (i_ack i && i_newtok i) && (negb (clr ep i) || (negb (g_busy s) && negb (g_wait s))).

  (* THE RULE: the toggle after this cycle *)
  Definition seq_next (s : tg_state) (i : ix_in) : bool :=
    if clr ep i then false                                  (* ClearFeature(ENDPOINT_HALT) for this IN endpoint: DATA0 *)
    else if g_wait s && i_ack i then negb (g_seq s)         (* success: exactly one advance *)
    else g_seq s.                                           (* never otherwise *)

  Definition c14i_mon (s : tg_state) (i : ix_in) (o : ix_out) : option (tg_state * bool) :=
    if negb (c14i_env s i) then None else
    let ok := negb (o_valid o) || (o_pid o =? b2n (g_seq s)) in       (* every transmission carries the toggle *)
    let wait1 := g_wait s && negb (i_ack i || i_newtok i) in           (* ACK or time-out ends the wait *)
    let '(busy', wait') :=
      if g_busy s then
        if o_valid o && i_txrdy i && o_last o then (false, true) else (true, wait1)
      else if tok ep i && negb (g_wait s) && negb (clr ep i) then
        if o_nak o then (false, wait1) else if o_valid o then (false, true) else (true, wait1)
      else (false, wait1) in
    Some ({| g_seq := seq_next s i; g_busy := busy'; g_wait := wait' |}, ok).

  Fixpoint c14i_check (s : tg_state) (ios : list (ix_in * ix_out)) : bool :=
    match ios with
    | [] => true
    | (i, o) :: t => match c14i_mon s i o with
                     | None => true
                     | Some (s', ok) => ok && c14i_check s' t
                     end
    end.

  (* packed form for the runtime oracle *)
  Definition tg_enc (s : tg_state) : N := b2n (g_seq s) + 2 * b2n (g_busy s) + 4 * b2n (g_wait s).
  Definition tg_dec (m : N) : tg_state :=
    {| g_seq := N.testbit m 0; g_busy := N.testbit m 1; g_wait := N.testbit m 2 |}.
  Definition c14i_monN (m w o : N) : option (N * bool) :=
    match c14i_mon (tg_dec m) (ix_in_of w) (ix_out_of o) with
    | None => None
    | Some (s', ok) => Some (tg_enc s', ok)
    end.
End InToggle.

(* The IN-endpoint ties of C14 compare everything but tx.payload (the data path is C11's subject): *)
Definition out_nopl (o : ix_out) : ix_out :=
  {| o_ready := o_ready o; o_valid := o_valid o; o_first := o_first o; o_last := o_last o; o_nak := o_nak o;
     o_pid := o_pid o; o_payload := 0 |}.
Definition ix_mstep_t (mps : nat) (ep : N) (st : ix_state) (w : N) : ix_state * N :=
  let i := ix_in_of w in (ix_next true true mps ep st i, ix_out_pack (out_nopl (ix_outf mps ep st i))).
Definition noplN (o : N) : N := N.land o 127.

(* ------------------------------------------------------------------------------------------ *)
(* 2. OUT endpoints.  Input word (props/C14.py): is_out 0, is_ping 1, tokenizer.ready_for_response 2,
      rx_ready_for_response 3, rx_complete 4, rx_invalid 5, rx.valid 6, rx.next 7, stream.ready 8, rx_pid_toggle 9..10,
      tokenizer.endpoint 11..14, clear_endpoint_halt_in 15..20 (enable, direction, number), rx.payload 21..28.
      Output word: handshakes_out.ack 0, handshakes_out.nak 1, expected_data_toggle 2.
      Monitor state = the toggle the specification expects the register to hold in this cycle. *)
Section OutToggle.
  Variable ep : N.

  Definition o_is_out (i : N) := N.testbit i 0.
  Definition o_is_ping (i : N) := N.testbit i 1.
  (* the data packet of an OUT transaction to this endpoint may be answered now *)
  Definition o_drr (i : N) : bool := o_is_out i && (bits i 11 4 =? ep) && N.testbit i 3.
  (* ClearFeature(ENDPOINT_HALT) naming this OUT endpoint: enable & ~direction & number = ep *)
  Definition o_clr (i : N) : bool := N.testbit i 15 && negb (N.testbit i 16) && (bits i 17 4 =? ep).

  (* environment: a token is an OUT or a PING, not both *)
  Definition c14o_env (i : N) : bool := negb (o_is_out i && o_is_ping i).

  Definition c14o_mon (m i o : N) : option (N * bool) :=
    if negb (c14o_env i) then None else
    let ack := N.testbit o 0 in let nak := N.testbit o 1 in
    let tog := bits o 2 1 in
    let pid_ok := bits i 9 2 =? tog in                  (* the data PID is the expected one *)
    let success := o_drr i && ack && pid_ok in          (* the device ACKs new data *)
    let ok := (tog =? m)                                            (* the register is the specified toggle *)
              && (negb (o_drr i && negb pid_ok) || (ack && negb nak))  (* a repeated PID is ACKed, not accepted *)
              && negb (ack && nak) in
    Some ((if o_clr i then 0 else if success then 1 - tog else tog), ok).
End OutToggle.

(* ------------------------------------------------------------------------------------------ *)
(* 3. the decode in StandardRequestHandler.  Input word (props/C14.py): setup.received 0, handshakes_in.ack 1,
      status_requested 2, data_requested 3, tx.ready 4, setup.is_in_request 5, setup.type 6..7, setup.recipient 8..12,
      setup.request 13..20, setup.value 21..36, setup.index 37..52, setup.length 53..68.
      Output word: clear_endpoint_halt (enable 0, direction 1, number 2..5), handshakes_out.stall 6, tx.valid 7.
      Monitor state: 1 = the most recent SETUP packet is a CLEAR_FEATURE(ENDPOINT_HALT) addressed to an endpoint and that
      request has not been completed yet.

      THE RULE: the strobe fires exactly on a host ACK while such a request is pending; then direction = wIndex[7] and
      number = wIndex[3:0]; it is all-zero in every other cycle.  Every new SETUP packet replaces the pending request
      (whatever state the previous one was in); any other request -- another standard request, CLEAR_FEATURE with another
      feature selector or recipient -- leaves nothing pending.  While the latched request is not a standard one
      (setup.type <> 0) the handler is inert: no strobe, nothing changes.  No environment assumption. *)
Definition d_received (i : N) := N.testbit i 0.
Definition d_ack (i : N) := N.testbit i 1.
Definition d_type (i : N) := bits i 6 2.
Definition d_recipient (i : N) := bits i 8 5.
Definition d_request (i : N) := bits i 13 8.
Definition d_value (i : N) := bits i 21 16.
Definition d_index (i : N) := bits i 37 16.

(* standard request, CLEAR_FEATURE, feature ENDPOINT_HALT, recipient endpoint *)
Definition d_clear_halt (i : N) : bool := (d_request i =? 1) && (d_value i =? 0) && (d_recipient i =? 2).

Definition c14d_mon (m i o : N) : option (N * bool) :=
  let std := d_type i =? 0 in
  let enable := N.testbit o 0 in
  let fire := std && (m =? 1) && d_ack i in      (* the host's ACK while the CLEAR_FEATURE(ENDPOINT_HALT) request is pending *)
  let ok := Bool.eqb enable fire
            && (bits o 1 5 =? (if fire then bits (d_index i) 7 1 + 2 * bits (d_index i) 0 4 else 0)) in
  Some ((if negb std then m
         else if d_received i then (if d_clear_halt i then 1 else 0)
         else if fire then 0 else m), ok).
