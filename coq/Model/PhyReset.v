(* C54 -- hand model of luna/gateware/architecture/car.py: PHYResetController, parametric in the
   reset length r, stop length s (cycles), the width w of the cycle counter and power_on_reset. *)
From Coq Require Import NArith List Bool.
Import ListNotations.
From LunaLib Require Import Netlist Machine.
Open Scope N_scope.

Inductive pr_fsm := IDLE | RESETTING | DEFERRING.
Record pr_state := { fsm : pr_fsm; cnt : N }.

Section PhyReset.
  Variables r s w : N.
  Variable power_on : bool.

  Definition pr_init : pr_state := {| fsm := if power_on then RESETTING else IDLE; cnt := 0 |}.

  (* outputs: bit 0 = phy_reset, bit 1 = phy_stop *)
  Definition pr_out (st : pr_state) : N :=
    match fsm st with IDLE => 0 | RESETTING => 3 | DEFERRING => 2 end.

  Definition pr_next (st : pr_state) (trigger : bool) : pr_state :=
    match fsm st with
    | IDLE => {| fsm := if trigger then RESETTING else IDLE; cnt := 0 |}
    | RESETTING =>
        if cnt st + 1 =? r then {| fsm := DEFERRING; cnt := 0 |}
        else {| fsm := RESETTING; cnt := (cnt st + 1) mod 2 ^ w |}
    | DEFERRING =>
        if cnt st + 1 =? s then {| fsm := IDLE; cnt := 0 |}
        else {| fsm := DEFERRING; cnt := (cnt st + 1) mod 2 ^ w |}
    end.

  Definition pr_step (st : pr_state) (i : N) : pr_state * N := (pr_next st (N.odd i), pr_out st).

  (* Specification: one phase counter; None = idle, Some k = k cycles into the reset sequence. *)
  Definition sp_init : option N := if power_on then Some 0 else None.
  Definition sp_out (p : option N) : N :=
    match p with None => 0 | Some k => if k <? r then 3 else 2 end.
  Definition sp_next (p : option N) (trigger : bool) : option N :=
    match p with
    | None => if trigger then Some 0 else None
    | Some k => if k + 1 =? r + s then None else Some (k + 1)
    end.
  Definition sp_step (p : option N) (i : N) : option N * N := (sp_next p (N.odd i), sp_out p).

  (* packing for lock-step obligations *)
  Definition pr_enc (st : pr_state) : N :=
    (match fsm st with IDLE => 0 | RESETTING => 1 | DEFERRING => 2 end) + 4 * cnt st.
  Definition pr_dec (m : N) : pr_state :=
    {| fsm := match m mod 4 with 0 => IDLE | 1 => RESETTING | _ => DEFERRING end; cnt := m / 4 |}.
End PhyReset.

(* counter width Amaranth gives Signal(range(0, n)) *)
Definition range_width (n : N) : N := N.size (n - 1).
