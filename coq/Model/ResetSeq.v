(* C19 -- hand model of luna/gateware/usb/usb2/reset.py: USBResetSequencer, parametric in the six cycle
   constants the class derives from its 60 MHz clock (_CYCLES_2P5_MICROSECONDS, _CYCLES_5_MICROSECONDS,
   _CYCLES_200_MICROSECONDS, _CYCLES_2_MILLISECONDS, _CYCLES_2P5_MILLISECONDS, _CYCLES_3_MILLISECONDS),
   and the specification of property C19 as rules over the cycle history.

   The model is code-shaped (one constructor per FSM state, "last assignment wins" written as priority
   chains, both timers wrap at the width Amaranth gives Signal(range(0, c_3ms + 1))).  It is the
   PROPERTY-SATISFYING behaviour: it differs from the code as found in /repo in three places (see
   findings/C19-*.diff):
     D1  DETECT_HS_SUSPEND honours low_speed_only/full_speed_only before starting the HS handshake;
     D2  in AWAIT_HOST_K / AWAIT_HOST_J the 2.5 ms time-out has priority over the awaited line state;
     D3  IN_HOST_J counts a K-J pair only when the J is still present in the counting cycle.
   Definitions only; proofs are in ResetSeq_proofs.v. *)
From Coq Require Import NArith List Bool.
Import ListNotations.
From LunaLib Require Import Netlist Machine PackN.
Open Scope N_scope.

(* ------------------------------------------------------------------------------------------ *)
(* Interface                                                                                  *)
Inductive line_t := L_SE0 | L_J | L_K | L_SE1.          (* UTMI line_state 00, 01 (FS/HS J), 10 (FS/HS K), 11 *)
Inductive speed_t := HIGH | FULL | LOW.                  (* USBSpeed 0, 1, 2 *)
Inductive opmode_t := NORMAL | NON_DRIVING | CHIRP.      (* UTMIOperatingMode 0, 1, 2 *)

Record rs_in := { i_ls : bool; i_fs : bool; i_busy : bool; i_vbus : bool; i_line : line_t; i_disc : bool }.
Record rs_out := { o_reset : bool; o_susp : bool; o_speed : speed_t; o_opmode : opmode_t; o_term : bool;
                   o_txvalid : bool }.          (* tx.data is constant 0 *)

Definition is_se0 l := match l with L_SE0 => true | _ => false end.
Definition is_j l := match l with L_J => true | _ => false end.
Definition is_k l := match l with L_K => true | _ => false end.
Definition line_eqb a b :=
  match a, b with L_SE0, L_SE0 | L_J, L_J | L_K, L_K | L_SE1, L_SE1 => true | _, _ => false end.

(* bus idle depends on the current speed: SE0 (squelch) at HS, J at FS, low-speed J (= code 10) at LS *)
Definition bus_idle (sp : speed_t) (l : line_t) : bool :=
  match sp with HIGH => is_se0 l | FULL => is_j l | LOW => is_k l end.

Record rs_consts := { c_2p5us : N; c_5us : N; c_200us : N; c_2ms : N; c_2p5ms : N; c_3ms : N }.

(* the constants LUNA computes for its 60 MHz clock *)
Definition K_60MHz : rs_consts :=
  {| c_2p5us := 150; c_5us := 300; c_200us := 12000; c_2ms := 120000; c_2p5ms := 150000; c_3ms := 180000 |}.

(* ------------------------------------------------------------------------------------------ *)
(* Model                                                                                      *)
Inductive rs_fsm :=
  | INITIALIZE | LS_FS_NON_RESET | HS_NON_RESET | START_HS_DETECTION | PREPARE_FOR_CHIRP_0
  | PREPARE_FOR_CHIRP_1 | DEVICE_CHIRP | AWAIT_HOST_K | IN_HOST_K | AWAIT_HOST_J | IN_HOST_J
  | IS_HIGH_SPEED | IS_LOW_OR_FULL_SPEED | DETECT_HS_SUSPEND | SUSPENDED | DISCONNECT.

Record rs_state := { fsm : rs_fsm; timer : N; lst : N; vp : N; was_hs : bool; tddis : bool;
                     speed : speed_t; opmode : opmode_t; term : bool }.

Definition rs_init : rs_state :=
  {| fsm := INITIALIZE; timer := 0; lst := 0; vp := 0; was_hs := false; tddis := false;
     speed := FULL; opmode := NORMAL; term := true |}.

Definition restricted (i : rs_in) : bool := i_ls i || i_fs i.

Section Model.
  Variable K : rs_consts.

  (* both timers are Signal(range(0, c_3ms + 1)) *)
  Definition tw : N := N.size (c_3ms K).
  (* x + 1 truncated to tw bits, for x < 2^tw (an invariant of the model, rs_wf) *)
  Definition inc (x : N) : N := if x + 1 <? 2 ^ tw then x + 1 else 0.

  Definition rs_outs (st : rs_state) (i : rs_in) : rs_out :=
    {| o_reset :=
         match fsm st with
         | LS_FS_NON_RESET => negb (i_vbus i) || (timer st =? c_5us K)
         | HS_NON_RESET => negb (i_vbus i)
         | DETECT_HS_SUSPEND => (timer st =? c_200us K) && negb (is_j (i_line i))
         | SUSPENDED => timer st =? c_2p5us K
         | _ => false
         end;
       o_susp := match fsm st with SUSPENDED => true | _ => false end;
       o_speed := speed st; o_opmode := opmode st; o_term := term st;
       o_txvalid := match fsm st with DEVICE_CHIRP => true | _ => false end |}.

  Definition rs_next (st : rs_state) (i : rs_in) : rs_state :=
    let t1 := inc (timer st) in
    let l1 := inc (lst st) in
    let nonse0 := negb (is_se0 (i_line i)) in
    let isk := is_k (i_line i) in
    let isj := is_j (i_line i) in
    let timeout := timer st =? c_2p5ms K in
    let same f t l := {| fsm := f; timer := t; lst := l; vp := vp st; was_hs := was_hs st; tddis := tddis st;
                         speed := speed st; opmode := opmode st; term := term st |} in
    match fsm st with
    | INITIALIZE =>
        {| fsm := LS_FS_NON_RESET; timer := 0; lst := 0; vp := vp st; was_hs := was_hs st; tddis := tddis st;
           speed := if i_ls i then LOW else speed st; opmode := opmode st; term := term st |}
    | LS_FS_NON_RESET =>
        let susp := lst st =? c_3ms K in
        {| fsm := if susp then SUSPENDED
                  else if (timer st =? c_5us K) && negb (restricted i) then START_HS_DETECTION
                  else if nonse0 && i_disc i then DISCONNECT else LS_FS_NON_RESET;
           timer := if nonse0 || negb (i_vbus i) then 0 else t1;
           lst := if bus_idle (speed st) (i_line i) then l1 else 0;
           vp := vp st; was_hs := if susp then false else was_hs st; tddis := tddis st;
           speed := speed st; opmode := opmode st; term := term st |}
    | HS_NON_RESET =>
        let t3 := timer st =? c_3ms K in
        {| fsm := if restricted i then IS_LOW_OR_FULL_SPEED
                  else if t3 then DETECT_HS_SUSPEND
                  else if negb (i_vbus i) then IS_LOW_OR_FULL_SPEED
                  else if nonse0 && i_disc i then DISCONNECT else HS_NON_RESET;
           timer := if t3 || nonse0 then 0 else t1;
           lst := l1; vp := vp st; was_hs := was_hs st; tddis := tddis st;
           speed := if t3 then FULL else speed st;
           opmode := if t3 then NORMAL else opmode st;
           term := if t3 then true else term st |}
    | START_HS_DETECTION =>
        {| fsm := PREPARE_FOR_CHIRP_0; timer := 0; lst := l1; vp := vp st; was_hs := was_hs st;
           tddis := tddis st; speed := HIGH; opmode := CHIRP; term := true |}
    | PREPARE_FOR_CHIRP_0 => same (if i_busy i then PREPARE_FOR_CHIRP_0 else PREPARE_FOR_CHIRP_1) t1 l1
    | PREPARE_FOR_CHIRP_1 => same (if i_busy i then PREPARE_FOR_CHIRP_1 else DEVICE_CHIRP) t1 l1
    | DEVICE_CHIRP =>
        if timer st =? c_2ms K then
          {| fsm := AWAIT_HOST_K; timer := 0; lst := l1; vp := 0; was_hs := was_hs st; tddis := tddis st;
             speed := speed st; opmode := opmode st; term := term st |}
        else same DEVICE_CHIRP t1 l1
    | AWAIT_HOST_K =>                                                             (* D2: time-out first *)
        same (if timeout then IS_LOW_OR_FULL_SPEED else if isk then IN_HOST_K else AWAIT_HOST_K)
             t1 (if isk then 0 else l1)
    | IN_HOST_K =>
        same (if timeout then IS_LOW_OR_FULL_SPEED else if negb isk then AWAIT_HOST_K
              else if lst st =? c_2p5us K then AWAIT_HOST_J else IN_HOST_K) t1 l1
    | AWAIT_HOST_J =>                                                             (* D2 *)
        same (if timeout then IS_LOW_OR_FULL_SPEED else if isj then IN_HOST_J else AWAIT_HOST_J)
             t1 (if isj then 0 else l1)
    | IN_HOST_J =>
        let done := (lst st =? c_2p5us K) && isj in                               (* D3: "&& isj" *)
        {| fsm := if timeout then IS_LOW_OR_FULL_SPEED else if negb isj then AWAIT_HOST_J
                  else if done then (if vp st =? 2 then IS_HIGH_SPEED else AWAIT_HOST_K) else IN_HOST_J;
           timer := t1; lst := l1;
           vp := if done && negb (vp st =? 2) then (vp st + 1) mod 4 else vp st;
           was_hs := was_hs st; tddis := tddis st; speed := speed st; opmode := opmode st; term := term st |}
    | IS_HIGH_SPEED =>
        {| fsm := HS_NON_RESET; timer := 0; lst := 0; vp := vp st; was_hs := was_hs st; tddis := tddis st;
           speed := HIGH; opmode := NORMAL; term := false |}
    | IS_LOW_OR_FULL_SPEED =>
        {| fsm := if nonse0 then LS_FS_NON_RESET else IS_LOW_OR_FULL_SPEED;
           timer := if nonse0 then 0 else t1; lst := if nonse0 then 0 else l1;
           vp := vp st; was_hs := was_hs st; tddis := tddis st;
           speed := if i_ls i then LOW else FULL; opmode := NORMAL; term := true |}
    | DETECT_HS_SUSPEND =>
        let hit := timer st =? c_200us K in
        {| fsm := if hit then (if isj then SUSPENDED
                               else if restricted i then IS_LOW_OR_FULL_SPEED      (* D1 *)
                               else START_HS_DETECTION)
                  else DETECT_HS_SUSPEND;
           timer := if hit then 0 else t1; lst := l1; vp := vp st;
           was_hs := if hit && isj then true else was_hs st; tddis := tddis st;
           speed := speed st; opmode := opmode st; term := term st |}
    | SUSPENDED =>
        let resume := (i_ls i && isj) || (negb (i_ls i) && isk) in               (* LS K = code 01, FS K = code 10 *)
        let rst := timer st =? c_2p5us K in
        {| fsm := if rst then (if restricted i then LS_FS_NON_RESET else START_HS_DETECTION)
                  else if resume then (if was_hs st then IS_HIGH_SPEED else LS_FS_NON_RESET)
                  else SUSPENDED;
           timer := if rst || nonse0 then 0 else t1;
           lst := if (rst && restricted i) || (resume && negb (was_hs st)) then 0 else l1;
           vp := vp st; was_hs := was_hs st; tddis := tddis st;
           speed := speed st; opmode := opmode st; term := term st |}
    | DISCONNECT =>
        let leave := negb (i_disc i) && tddis st in
        {| fsm := if leave then INITIALIZE else DISCONNECT; timer := t1; lst := l1; vp := vp st;
           was_hs := was_hs st;
           tddis := if leave then false else if timer st =? c_2p5us K then true else tddis st;
           speed := if leave then FULL else speed st;
           opmode := if leave then NORMAL else NON_DRIVING;
           term := if leave then true else term st |}
    end.

  (* ---- packed-word view (R lock-step / correspondence) ---- *)
  (* inputs, first declared port = least significant: low_speed_only, full_speed_only, bus_busy,
     vbus_connected, line_state[2], disconnect *)
  Definition decode_in (w : N) : rs_in :=
    {| i_ls := N.testbit w 0; i_fs := N.testbit w 1; i_busy := N.testbit w 2; i_vbus := N.testbit w 3;
       i_line := match bits w 4 2 with 0 => L_SE0 | 1 => L_J | 2 => L_K | _ => L_SE1 end;
       i_disc := N.testbit w 6 |}.
  Definition speed_n (s : speed_t) : N := match s with HIGH => 0 | FULL => 1 | LOW => 2 end.
  Definition opmode_n (m : opmode_t) : N := match m with NORMAL => 0 | NON_DRIVING => 1 | CHIRP => 2 end.
  (* outputs: bus_reset, suspended, current_speed[2], operating_mode[2], termination_select, tx_valid, tx_data[8] *)
  Definition pack_out (o : rs_out) : N :=
    b2n (o_reset o) + 2 * b2n (o_susp o) + 4 * speed_n (o_speed o) + 16 * opmode_n (o_opmode o)
    + 64 * b2n (o_term o) + 128 * b2n (o_txvalid o).

  Definition rs_step (st : rs_state) (w : N) : rs_state * N :=
    let i := decode_in w in (rs_next st i, pack_out (rs_outs st i)).

  Definition fsm_n (f : rs_fsm) : N :=
    match f with
    | INITIALIZE => 0 | LS_FS_NON_RESET => 1 | HS_NON_RESET => 2 | START_HS_DETECTION => 3
    | PREPARE_FOR_CHIRP_0 => 4 | PREPARE_FOR_CHIRP_1 => 5 | DEVICE_CHIRP => 6 | AWAIT_HOST_K => 7
    | IN_HOST_K => 8 | AWAIT_HOST_J => 9 | IN_HOST_J => 10 | IS_HIGH_SPEED => 11
    | IS_LOW_OR_FULL_SPEED => 12 | DETECT_HS_SUSPEND => 13 | SUSPENDED => 14 | DISCONNECT => 15
    end.
  Definition n_fsm (n : N) : rs_fsm :=
    match n with
    | 0 => INITIALIZE | 1 => LS_FS_NON_RESET | 2 => HS_NON_RESET | 3 => START_HS_DETECTION
    | 4 => PREPARE_FOR_CHIRP_0 | 5 => PREPARE_FOR_CHIRP_1 | 6 => DEVICE_CHIRP | 7 => AWAIT_HOST_K
    | 8 => IN_HOST_K | 9 => AWAIT_HOST_J | 10 => IN_HOST_J | 11 => IS_HIGH_SPEED
    | 12 => IS_LOW_OR_FULL_SPEED | 13 => DETECT_HS_SUSPEND | 14 => SUSPENDED | _ => DISCONNECT
    end.
  Definition n_speed (n : N) : speed_t := match n with 0 => HIGH | 1 => FULL | _ => LOW end.
  Definition n_opmode (n : N) : opmode_t := match n with 0 => NORMAL | 1 => NON_DRIVING | _ => CHIRP end.
  Definition n_bool (n : N) : bool := match n with 0 => false | _ => true end.

  Definition rs_enc (st : rs_state) : N :=
    pk 16 (fsm_n (fsm st)) (pk (2 ^ tw) (timer st) (pk (2 ^ tw) (lst st) (pk 4 (vp st)
      (pk 2 (b2n (was_hs st)) (pk 2 (b2n (tddis st)) (pk 4 (speed_n (speed st))
        (pk 4 (opmode_n (opmode st)) (b2n (term st))))))))).
  Definition rs_dec (n : N) : rs_state :=
    let f := n mod 16 in let n := n / 16 in
    let t := n mod 2 ^ tw in let n := n / 2 ^ tw in
    let l := n mod 2 ^ tw in let n := n / 2 ^ tw in
    let v := n mod 4 in let n := n / 4 in
    let wh := n mod 2 in let n := n / 2 in
    let td := n mod 2 in let n := n / 2 in
    let sp := n mod 4 in let n := n / 4 in
    let op := n mod 4 in let n := n / 4 in
    {| fsm := n_fsm f; timer := t; lst := l; vp := v; was_hs := n_bool wh; tddis := n_bool td;
       speed := n_speed sp; opmode := n_opmode op; term := n_bool n |}.
  Definition rs_wf (st : rs_state) : Prop := timer st < 2 ^ tw /\ lst st < 2 ^ tw /\ vp st < 4.
End Model.

(* ------------------------------------------------------------------------------------------ *)
(* Typed runs: one record per cycle, holding the inputs and the outputs of that cycle          *)
Record cyc := { c_in : rs_in; c_out : rs_out }.

Fixpoint rs_trace (K : rs_consts) (st : rs_state) (ins : list rs_in) : list cyc :=
  match ins with
  | [] => []
  | i :: t => {| c_in := i; c_out := rs_outs K st i |} :: rs_trace K (rs_next K st i) t
  end.

(* ------------------------------------------------------------------------------------------ *)
(* Specification.  Histories are lists of cycles, MOST RECENT FIRST.                           *)

(* observable classifications of one cycle *)
Definition hs_op (c : cyc) : bool :=          (* operating at high speed: HS transceiver, normal mode, HS termination *)
  match o_speed (c_out c), o_opmode (c_out c), o_term (c_out c) with HIGH, NORMAL, false => true | _, _, _ => false end.
Definition fs_ls_op (c : cyc) : bool :=       (* operating at full/low speed *)
  match o_speed (c_out c), o_opmode (c_out c), o_term (c_out c) with
  | FULL, NORMAL, true | LOW, NORMAL, true => true | _, _, _ => false end.
Definition chirpmode (c : cyc) : bool := match o_opmode (c_out c) with CHIRP => true | _ => false end.
Definition txvalid (c : cyc) : bool := o_txvalid (c_out c).
Definition chirping (c : cyc) : bool := chirpmode c && txvalid c.       (* the device drives its chirp K *)
Definition c_restricted (c : cyc) : bool := restricted (c_in c).
Definition c_line (c : cyc) : line_t := i_line (c_in c).
Definition se0 (c : cyc) : bool := is_se0 (c_line c).
Definition idle (c : cyc) : bool := bus_idle (o_speed (c_out c)) (c_line c).
Definition hs_idle (c : cyc) : bool := hs_op c && se0 c.
Definition reset_out (c : cyc) : bool := o_reset (c_out c).
Definition susp_out (c : cyc) : bool := o_susp (c_out c).

(* number of most recent consecutive cycles satisfying P *)
Fixpoint streak (P : cyc -> bool) (h : list cyc) : N :=
  match h with
  | x :: t => if P x then N.succ (streak P t) else 0
  | [] => 0
  end.

(* the history as it was n cycles ago *)
Fixpoint drop (n : N) (h : list cyc) : list cyc :=
  match h with
  | [] => []
  | _ :: t => if n =? 0 then h else drop (N.pred n) t
  end.

(* Some n: the device chirp (tx.valid) ended n cycles ago and the device has been in chirp mode since *)
Fixpoint listen (h : list cyc) : option N :=
  match h with
  | [] => None
  | x :: t => if txvalid x then Some 0
              else if chirpmode x then option_map N.succ (listen t) else None
  end.

Section Spec.
  Variable K : rs_consts.

  (* n+1 cycles ago the device was in HS operation and had then seen c_3ms cycles of HS idle (SE0) *)
  Definition hs_idle_ago (n : N) (past : list cyc) : Prop :=
    match drop n past with
    | u :: rest => hs_op u = true /\ c_3ms K <= streak hs_idle rest
    | [] => False
    end.

  (* hsk p h: h contains a bus reset r, issued while the device was not speed-restricted, after which the
     device has been in chirp mode in every cycle (from the second cycle after r), has driven its chirp K,
     and has then seen p line states K, J, K, J, ... in this order, each lasting at least c_2p5us cycles
     (possibly separated by anything else). *)
  Definition line_of (p : N) : line_t := if N.even p then L_K else L_J.
  Inductive hsk : N -> list cyc -> Prop :=
  | hsk_chirp : forall c g0 s r h0,
      c <> [] -> Forall (fun x => chirping x = true) c -> Forall (fun x => chirpmode x = true) g0 ->
      reset_out r = true -> c_restricted r = false ->
      hsk 0 (c ++ g0 ++ s :: r :: h0)
  | hsk_state : forall p s rest,
      hsk p rest -> c_2p5us K <= N.of_nat (length s) ->
      Forall (fun x => chirpmode x = true /\ c_line x = line_of p) s ->
      hsk (p + 1) (s ++ rest)
  | hsk_wait : forall p c h, hsk p h -> chirpmode c = true -> hsk p (c :: h).

  (* the suspend the device is in was entered from high speed (3 ms of HS idle, then J 200 us later) *)
  Definition hs_suspend_entry (past : list cyc) : Prop :=
    match past with
    | p :: past' => susp_out p = false /\ c_line p = L_J /\ hs_idle_ago (c_200us K) past'
    | [] => False
    end.
  Inductive sfh : list cyc -> Prop :=
  | sfh_enter : forall c past, susp_out c = true -> hs_suspend_entry past -> sfh (c :: past)
  | sfh_stay : forall c past, susp_out c = true -> sfh past -> sfh (c :: past).

  (* ---- the rules: what may happen in cycle c, given the cycles before it ---- *)

  (* (1) bus_reset only while VBUS is absent, or after >= 2.5 us of continuous SE0 (suspended), >= 5 us (active
         at FS/LS), or -- at high speed -- 3 ms of SE0 and a non-idle line 200 us after reverting to FS *)
  Definition rule_reset (past : list cyc) (c : cyc) : Prop :=
    reset_out c = true ->
    i_vbus (c_in c) = false
    \/ (susp_out c = true /\ c_2p5us K <= streak se0 past)
    \/ (susp_out c = false /\ c_5us K <= streak se0 past)
    \/ (susp_out c = false /\ c_line c <> L_J /\ hs_idle_ago (c_200us K) past).

  (* (2) suspend is entered only after 3 ms of continuous idle (at high speed: followed by J 200 us later) *)
  Definition rule_suspend (past : list cyc) (c : cyc) : Prop :=
    susp_out c = true ->
    match past with
    | p :: past' => susp_out p = true \/ c_3ms K <= streak idle past' \/ hs_suspend_entry past
    | [] => False
    end.

  (* (3) high-speed operation begins only after a complete handshake or a resume from an HS suspend *)
  Definition rule_hs_entry (past : list cyc) (c : cyc) : Prop :=
    hs_op c = true ->
    match past with
    | p :: past' => hs_op p = true \/ hsk 6 past' \/ sfh past'
    | [] => False
    end.

  (* (4) chirp mode (the handshake) is entered only two cycles after a bus reset reported while unrestricted *)
  Definition rule_start (past : list cyc) (c : cyc) : Prop :=
    chirpmode c = true ->
    match past with
    | p :: past' => chirpmode p = true \/
                    match past' with q :: _ => reset_out q = true /\ c_restricted q = false | [] => False end
    | [] => False
    end.

  (* (5) a speed restriction seen while in HS operation ends HS operation within two cycles *)
  Definition rule_leave (past : list cyc) (c : cyc) : Prop :=
    match past with
    | _ :: q :: _ => hs_op q = true -> c_restricted q = true -> hs_op c = false
    | _ => True
    end.

  (* (6) after its own chirp the device stays in chirp mode for at most c_2p5ms + 2 cycles ... *)
  Definition rule_timeout (past : list cyc) (c : cyc) : Prop :=
    match listen (c :: past) with Some n => n <= c_2p5ms K + 2 | None => True end.

  (* (7) ... and it leaves chirp mode either into HS operation (rule 3: only after three valid K-J pairs)
         or into FS/LS operation *)
  Definition rule_exit (past : list cyc) (c : cyc) : Prop :=
    match past with
    | p :: _ => chirpmode p = true -> chirpmode c = false -> hs_op c = true \/ fs_ls_op c = true
    | [] => True
    end.

  (* rules 1-5 and 7 hold for every choice of the constants with c_200us <= c_3ms; rule 6 needs c_2p5ms <= c_3ms
     (the timer must be able to reach the time-out) *)
  Definition rule_safe (past : list cyc) (c : cyc) : Prop :=
    rule_reset past c /\ rule_suspend past c /\ rule_hs_entry past c /\ rule_start past c
    /\ rule_leave past c /\ rule_exit past c.
  Definition rule_all (past : list cyc) (c : cyc) : Prop := rule_safe past c /\ rule_timeout past c.
End Spec.

(* "in every cycle of the run l that follows the history `past`, rule P holds" *)
Fixpoint always (P : list cyc -> cyc -> Prop) (past : list cyc) (l : list cyc) : Prop :=
  match l with
  | [] => True
  | c :: t => P past c /\ always P (c :: past) t
  end.

(* ------------------------------------------------------------------------------------------ *)
(* Runtime oracle: the rules above as boolean functions of (history, cycle), evaluated by the check over
   simulator traces of the real module (tie.cmon).  ResetSeq_proofs.v shows: oracle accepts => rule holds. *)
Section Oracle.
  Variable K : rs_consts.

  Definition hs_idle_ago_b (n : N) (past : list cyc) : bool :=
    match drop n past with
    | u :: rest => hs_op u && (c_3ms K <=? streak hs_idle rest)
    | [] => false
    end.
  Definition hs_suspend_entry_b (past : list cyc) : bool :=
    match past with
    | p :: past' => negb (susp_out p) && is_j (c_line p) && hs_idle_ago_b (c_200us K) past'
    | [] => false
    end.
  Fixpoint sfh_b (h : list cyc) : bool :=
    match h with
    | c :: past => susp_out c && (hs_suspend_entry_b past || sfh_b past)
    | [] => false
    end.

  (* scanning backwards: chirp-mode cycles, at least one of them chirping, then the START cycle, then the reset *)
  Fixpoint hsk0_b (seen : bool) (h : list cyc) : bool :=
    match h with
    | x :: t => if chirpmode x then hsk0_b (seen || txvalid x) t
                else seen && match t with r :: _ => reset_out r && negb (c_restricted r) | [] => false end
    | [] => false
    end.
  (* scanning backwards for p line states; n = length of the current run of the state looked for *)
  Fixpoint hsk_b (p : nat) (n : N) (h : list cyc) {struct h} : bool :=
    match p with
    | O => hsk0_b false h
    | S q =>
        match h with
        | [] => false
        | x :: t =>
            chirpmode x &&
            (if line_eqb (c_line x) (line_of (N.of_nat q))
             then (if c_2p5us K <=? n + 1 then hsk_b q 0 t else hsk_b p (n + 1) t)
             else hsk_b p 0 t)
        end
    end.

  Definition rule_reset_b (past : list cyc) (c : cyc) : bool :=
    implb (reset_out c)
      (negb (i_vbus (c_in c))
       || (susp_out c && (c_2p5us K <=? streak se0 past))
       || (negb (susp_out c) && (c_5us K <=? streak se0 past))
       || (negb (susp_out c) && negb (is_j (c_line c)) && hs_idle_ago_b (c_200us K) past)).
  Definition rule_suspend_b (past : list cyc) (c : cyc) : bool :=
    implb (susp_out c)
      match past with
      | p :: past' => susp_out p || (c_3ms K <=? streak idle past') || hs_suspend_entry_b past
      | [] => false
      end.
  Definition rule_hs_entry_b (past : list cyc) (c : cyc) : bool :=
    implb (hs_op c)
      match past with
      | p :: past' => hs_op p || hsk_b 6 0 past' || sfh_b past'
      | [] => false
      end.
  Definition rule_start_b (past : list cyc) (c : cyc) : bool :=
    implb (chirpmode c)
      match past with
      | p :: past' => chirpmode p ||
                      match past' with q :: _ => reset_out q && negb (c_restricted q) | [] => false end
      | [] => false
      end.
  Definition rule_leave_b (past : list cyc) (c : cyc) : bool :=
    match past with
    | _ :: q :: _ => implb (hs_op q && c_restricted q) (negb (hs_op c))
    | _ => true
    end.
  Definition rule_exit_b (past : list cyc) (c : cyc) : bool :=
    match past with
    | p :: _ => implb (chirpmode p && negb (chirpmode c)) (hs_op c || fs_ls_op c)
    | [] => true
    end.
  Definition rule_timeout_b (past : list cyc) (c : cyc) : bool :=
    match listen (c :: past) with Some n => n <=? c_2p5ms K + 2 | None => true end.

  Definition rule_safe_b (past : list cyc) (c : cyc) : bool :=
    rule_reset_b past c && rule_suspend_b past c && rule_hs_entry_b past c && rule_start_b past c
    && rule_leave_b past c && rule_exit_b past c.
  Definition rule_all_b (past : list cyc) (c : cyc) : bool := rule_safe_b past c && rule_timeout_b past c.

  (* ---- the oracle as a monitor over packed words: the monitor state is the whole history ---- *)
  Definition n_line (n : N) : line_t := match n with 0 => L_SE0 | 1 => L_J | 2 => L_K | _ => L_SE1 end.
  Definition decode_out (o : N) : rs_out :=
    {| o_reset := N.testbit o 0; o_susp := N.testbit o 1; o_speed := n_speed (bits o 2 2);
       o_opmode := n_opmode (bits o 4 2); o_term := N.testbit o 6; o_txvalid := N.testbit o 7 |}.
  (* outputs the typed interface cannot express (speed 3, op-mode 3, tx.data <> 0) are rejected outright *)
  Definition out_ok (o : N) : bool :=
    negb (bits o 2 2 =? 3) && negb (bits o 4 2 =? 3) && (N.shiftr o 8 =? 0).
  (* history: sentinel 1, then 15 bits per cycle (7 input bits, 8 output bits), most recent cycle lowest *)
  Fixpoint dec_hist (fuel : nat) (m : N) : list cyc :=
    match fuel with
    | O => []
    | S f => if m <=? 1 then []
             else {| c_in := decode_in (bits m 0 7); c_out := decode_out (bits m 7 8) |}
                  :: dec_hist f (N.shiftr m 15)
    end.
  Definition rs_mon (all : bool) (m i o : N) : option (N * bool) :=
    let past := dec_hist (N.to_nat (N.size m)) m in
    let c := {| c_in := decode_in i; c_out := decode_out o |} in
    Some (N.lor (N.shiftl m 15) (N.lor (bits i 0 7) (N.shiftl (bits o 0 8) 7)),
          out_ok o && (if all then rule_all_b past c else rule_safe_b past c)).
  Definition rs_mon0 : N := 1.
End Oracle.
