(* C37 / C38 -- proofs about Model/HdrRx.v:
     1. packing facts for the lock-step ties (core_dec (core_enc s) = s, well-formedness preserved)
     2. the bookkeeping model satisfies the specification monitor on every trace (simulation relation)
     3. facts about the specification itself (what acceptance by sp_mon means for histories)
     4. the raw receiver model implements the declarative header parser / CRC verdict
     5. the composed receiver *)
From Coq Require Import NArith ZArith List Bool Lia ZifyBool ZifyN.
Import ListNotations.
From LunaLib Require Import Netlist Bits Machine ListMem PackN Affine.
From LunaModel Require Import Crc Crc_proofs HdrRx.
Open Scope N_scope.
Ltac Zify.zify_post_hook ::= Z.div_mod_to_equations.
Unset Lia Cache.

(* ------------------------------------------------------------------------------------------ *)
(* 1. Packing                                                                                  *)
Lemma packb_pack : forall W l, packb W l = pack (2 ^ W) l.
Proof.
  induction l as [|x t IH]; [reflexivity|]. cbn [packb pack]. unfold pk.
  rewrite IH, N.shiftl_mul_pow2. lia.
Qed.

Lemma unpackb_unpack : forall W k m, unpackb W k m = unpack (2 ^ W) k m.
Proof.
  induction k as [|k IH]; intro m; [reflexivity|]. cbn [unpackb unpack].
  rewrite IH, N.land_ones, N.shiftr_div_pow2. reflexivity.
Qed.

Lemma unpackb_packb : forall W l, Forall (fun x => x < 2 ^ W) l -> unpackb W (length l) (packb W l) = l.
Proof. intros. rewrite unpackb_unpack, packb_pack. apply unpack_pack. assumption. Qed.

Lemma n2b_b2n : forall b, n2b (b2n b) = b.
Proof. destruct b; reflexivity. Qed.
Lemma dfsm_of_code : forall f, dfsm_of (dfsm_code f) = f.
Proof. destruct f; reflexivity. Qed.
Lemma gfsm_of_code : forall g, gfsm_of (gfsm_code g) = g.
Proof. destruct g; reflexivity. Qed.

Lemma core_dec_enc : forall W nb s, core_wf W nb s -> core_dec W nb (core_enc W s) = s.
Proof.
  intros W nb s [Hl Hf]. unfold core_dec, core_enc.
  replace (17 + nb)%nat with (length (core_nums s)) by (unfold core_nums; rewrite app_length, Hl; reflexivity).
  rewrite unpackb_packb by exact Hf.
  destruct s. unfold core_nums. cbn [HdrRx.acks HdrRx.credits HdrRx.filled HdrRx.rd HdrRx.wr HdrRx.bufs HdrRx.expd
    HdrRx.nack HdrRx.ncred HdrRx.lbad HdrRx.lrty HdrRx.keep HdrRx.lxu HdrRx.ign HdrRx.fsm HdrRx.gen HdrRx.lcmd
    HdrRx.lsub app nth skipn].
  rewrite !n2b_b2n, dfsm_of_code, gfsm_of_code. reflexivity.
Qed.

Lemma pow2_le : forall a b, a <= b -> 2 ^ a <= 2 ^ b.
Proof. intros. apply N.pow_le_mono_r; lia. Qed.
Lemma pow2_gt0 : forall w, 0 < 2 ^ w.
Proof. intros. apply N.neq_0_lt_0, N.pow_nonzero. lia. Qed.

Lemma inc_lt : forall w x, inc w x < 2 ^ w.
Proof. intros. unfold inc. apply N.mod_lt. pose proof (pow2_gt0 w). lia. Qed.
Lemma dec_lt : forall w x, dec w x < 2 ^ w.
Proof. intros. unfold dec. apply N.mod_lt. pose proof (pow2_gt0 w). lia. Qed.

Lemma updown_lt : forall w W x up dn, w <= W -> x < 2 ^ W -> updown w x up dn < 2 ^ W.
Proof.
  intros w W x up dn Hw Hx. pose proof (pow2_le w W Hw). pose proof (inc_lt w x). pose proof (dec_lt w x).
  unfold updown. destruct (up && negb dn); [lia|]. destruct (dn && negb up); lia.
Qed.

Lemma bits_lt' : forall x lo w, bits x lo w < 2 ^ w.
Proof. intros. unfold bits. rewrite N.land_ones. apply N.mod_lt. pose proof (pow2_gt0 w). lia. Qed.

Section WfStep.
  Variables n pw cw sw : N.
  Variable down : bool.
  Variables hw W : N.
  Variable nb : nat.
  Hypothesis Hpw : pw <= W.
  Hypothesis Hcw : cw <= W.
  Hypothesis Hsw : sw <= W.
  Hypothesis Hhw : hw <= W.
  Hypothesis H4 : 4 <= W.

  Lemma W16 : 16 <= 2 ^ W.
  Proof. change 16 with (2 ^ 4). apply pow2_le. exact H4. Qed.

  Lemma req_cmd_lt : forall s, fst (req_cmd down s) < 2 ^ W /\ snd (req_cmd down s) < 2 ^ W.
  Proof.
    intro s. pose proof W16. unfold req_cmd, keepalive_cmd, LGOOD, LCRD, LBAD, LRTY, LXU, LDN, LUP.
    assert (forall x, x mod 16 < 2 ^ W) by (intro x; pose proof (N.mod_lt x 16); lia).
    destruct (fsm s), down; cbn [fst snd]; split; try lia; auto.
  Qed.

  Lemma core_wf_step : forall s x, core_wf W nb s -> core_wf W nb (fst (core_mstep n pw cw sw down hw s x)).
  Proof.
    intros s x [Hl Hf]. unfold core_mstep. cbn [fst]. set (i := cin_of hw x).
    assert (Hp : i_pkt i < 2 ^ W).
    { unfold i, cin_of. cbn [i_pkt]. pose proof (bits_lt' x 11 hw). pose proof (pow2_le hw W Hhw). lia. }
    pose proof W16 as H16.
    unfold core_nums in Hf. apply Forall_app in Hf as [Hf Hb].
    repeat match goal with H : Forall _ (_ :: _) |- _ => apply Forall_cons_iff in H; destruct H as [? H] end.
    pose proof (req_cmd_lt s) as [Hc1 Hc2].
    pose proof (pow2_le cw W Hcw). pose proof (pow2_le pw W Hpw). pose proof (pow2_le sw W Hsw).
    split.
    - unfold core_step. cbn [bufs]. destruct (accept s i); [rewrite upd_length|]; exact Hl.
    - unfold core_nums. apply Forall_app. split.
      + unfold core_step. cbn [acks credits filled rd wr expd nack ncred lcmd lsub lbad lrty keep lxu ign fsm gen].
        repeat constructor.
        * destruct (restart i); [lia | apply updown_lt; assumption].
        * destruct (restart i); [pose proof (N.mod_lt n (2 ^ cw)); pose proof (pow2_gt0 cw); lia | apply updown_lt; assumption].
        * destruct (restart i); [lia | apply updown_lt; assumption].
        * pose proof (inc_lt pw (rd s)). destruct (restart i); [lia|]. destruct (consume s i); lia.
        * pose proof (inc_lt pw (wr s)). destruct (restart i); [lia|]. destruct (accept s i); lia.
        * pose proof (inc_lt sw (expd s)). destruct (i_rst i); [lia|]. destruct (accept s i); lia.
        * pose proof (inc_lt sw (nack s)).
          pose proof (dec_lt sw (if i_rst i then 0 else if accept s i then inc sw (expd s) else expd s)).
          destruct (restart i); [lia|]. destruct (in_state s SEND_ACKS && done s i); lia.
        * pose proof (inc_lt pw (ncred s)). destruct (restart i); [lia|].
          destruct (in_state s ISSUE_CREDITS && done s i); lia.
        * destruct (restart i); [lia|]. destruct (latch s i); lia.
        * destruct (restart i); [lia|]. destruct (latch s i); lia.
        * match goal with |- b2n ?b < _ => destruct b end; simpl; lia.
        * match goal with |- b2n ?b < _ => destruct b end; simpl; lia.
        * match goal with |- b2n ?b < _ => destruct b end; simpl; lia.
        * match goal with |- b2n ?b < _ => destruct b end; simpl; lia.
        * match goal with |- b2n ?b < _ => destruct b end; simpl; lia.
        * destruct (fsm_next s i); simpl; lia.
        * destruct (gen_next s i); simpl; lia.
      + unfold core_step. cbn [bufs]. destruct (accept s i); [apply upd_Forall|]; assumption.
  Qed.

  Lemma core_wf_fresh : forall e b x, e < 2 ^ W -> length b = nb -> Forall (fun v => v < 2 ^ W) b ->
    core_wf W nb (core_fresh n cw sw e b x).
  Proof.
    intros e b x He Hl Hb. pose proof W16. pose proof (pow2_le cw W Hcw). pose proof (pow2_le sw W Hsw).
    pose proof (dec_lt sw e). pose proof (N.mod_lt n (2 ^ cw)). pose proof (pow2_gt0 cw).
    split; [exact Hl|]. unfold core_nums, core_fresh. cbn [acks credits filled rd wr expd nack ncred lcmd lsub lbad lrty keep lxu ign fsm gen bufs].
    apply Forall_app. split; [|exact Hb].
    repeat constructor; try (simpl; lia). destruct x; simpl; lia.
  Qed.
End WfStep.

(* ------------------------------------------------------------------------------------------ *)
(* 2. The bookkeeping model satisfies the specification                                         *)

(* contents of a ring buffer: k entries starting at index r *)
Definition ring (n : N) (b : list N) (r : N) (k : nat) : list N :=
  map (fun j => nth (N.to_nat ((r + N.of_nat j) mod n)) b 0) (seq 0 k).

Lemma mod_distinct : forall n a d, 0 < d -> d < n -> a mod n <> (a + d) mod n.
Proof.
  intros n a d H0 Hd E.
  assert (Hn : n <> 0) by lia.
  pose proof (N.div_mod a n Hn). pose proof (N.div_mod (a + d) n Hn).
  pose proof (N.mod_lt a n Hn). pose proof (N.mod_lt (a + d) n Hn).
  rewrite <- E in *. 
  assert (n * ((a + d) / n) = n * (a / n) + d) by lia.
  assert ((a + d) / n > a / n) by nia.
  nia.
Qed.

Section Ring.
  Variable n : N.
  Hypothesis Hn0 : 0 < n.

  Lemma ring_length : forall b r k, length (ring n b r k) = k.
  Proof. intros. unfold ring. rewrite map_length, seq_length. reflexivity. Qed.

  Lemma ring_head : forall b r k,
    ring n b r (S k) = nth (N.to_nat (r mod n)) b 0 :: ring n b ((r + 1) mod n) k.
  Proof.
    intros. unfold ring. cbn [seq map]. rewrite N.add_0_r. f_equal.
    rewrite <- seq_shift, map_map. apply map_ext. intro j.
    rewrite N.add_mod_idemp_l by lia. do 3 f_equal. lia.
  Qed.

  Lemma ring_snoc : forall b r k,
    ring n b r (S k) = ring n b r k ++ [nth (N.to_nat ((r + N.of_nat k) mod n)) b 0].
  Proof. intros. unfold ring. rewrite seq_S, map_app. reflexivity. Qed.

  Lemma ring_upd_out : forall b r k v, N.of_nat k < n ->
    ring n (upd (N.to_nat ((r + N.of_nat k) mod n)) v b) r k = ring n b r k.
  Proof.
    intros b r k v Hk. unfold ring. apply map_ext_in. intros j Hj. apply in_seq in Hj.
    apply nth_upd_other. intro E. apply N2Nat.inj in E.
    replace (r + N.of_nat k) with (r + N.of_nat j + (N.of_nat k - N.of_nat j)) in E by lia.
    symmetry in E. revert E. apply mod_distinct; lia.
  Qed.

  Lemma ring_push : forall b r k v, N.of_nat k < n -> length b = N.to_nat n ->
    ring n (upd (N.to_nat ((r + N.of_nat k) mod n)) v b) r (S k) = ring n b r k ++ [v].
  Proof.
    intros b r k v Hk Hl. rewrite ring_snoc, ring_upd_out by exact Hk. f_equal. f_equal.
    apply nth_upd_same. pose proof (N.mod_lt (r + N.of_nat k) n). lia.
  Qed.
End Ring.

(* the model's step relation is related to the specification monitor by an invariant *)
Lemma inc_small : forall w x, x + 1 < 2 ^ w -> inc w x = x + 1.
Proof. intros. unfold inc. apply N.mod_small. assumption. Qed.
Lemma dec_small : forall w x, 0 < x -> x < 2 ^ w -> dec w x = x - 1.
Proof.
  intros w x H0 Hx. unfold dec. replace (x + 2 ^ w - 1) with ((x - 1) + 1 * 2 ^ w) by lia.
  rewrite N.mod_add by (pose proof (pow2_gt0 w); lia). apply N.mod_small. lia.
Qed.

(* the fields of a link command word can be read back *)
Lemma lc_data_cmd : forall cmd sub, sub < 16 -> cmd < 16 -> bits (lc_data cmd sub) 7 4 = cmd.
Proof.
  intros cmd sub Hs Hc. unfold bits, lc_data, lc_word. rewrite N.land_ones, N.shiftr_div_pow2.
  change (2 ^ 7) with 128. change (2 ^ 4) with 16.
  set (c := crc5_usb (sub + 128 * cmd)). lia.
Qed.
Lemma lc_data_sub : forall cmd sub, sub < 16 -> cmd < 16 -> bits (lc_data cmd sub) 0 4 = sub.
Proof.
  intros cmd sub Hs Hc. unfold bits, lc_data, lc_word. rewrite N.land_ones, N.shiftr_div_pow2.
  change (2 ^ 0) with 1. change (2 ^ 4) with 16.
  set (c := crc5_usb (sub + 128 * cmd)). lia.
Qed.

Lemma updown_val : forall w x up dn, x < 2 ^ w -> (up = true -> dn = false -> x + 1 < 2 ^ w) ->
  (dn = true -> up = false -> 0 < x) -> updown w x up dn = x + b2n up - b2n dn.
Proof.
  intros w x up dn Hx Hu Hd. unfold updown.
  destruct up, dn; cbn [andb negb b2n].
  - lia.
  - rewrite inc_small by auto. lia.
  - rewrite dec_small by auto. lia.
  - lia.
Qed.

Lemma restart_false : forall i, restart i = false -> i_en i = true /\ i_rst i = false.
Proof. intros i H. unfold restart in H. destruct (i_en i), (i_rst i); try discriminate H; auto. Qed.


(* ------------------------------------------------------------------------------------------ *)
(* 4. The raw receiver model implements the declarative parser and verdict                      *)
Definition crc3 (d0 d1 d2 : N) : list bool :=
  crc_update poly16h (crc_update poly16h (crc_update poly16h (reg_init 16) (N2bits 32 d0)) (N2bits 32 d1)) (N2bits 32 d2).

Lemma crc_bits_eq : forall poly msg,
  crc_bits poly msg = crc_finish bool negb (crc_update poly (repeat true (length poly)) msg).
Proof. reflexivity. Qed.

Lemma poly16h_length : length poly16h = 16%nat.
Proof. vm_compute. reflexivity. Qed.

Lemma crc16_hdr_words : forall d0 d1 d2, crc_out (crc3 d0 d1 d2) = crc16_hdr [d0; d1; d2].
Proof.
  intros. unfold crc16_hdr. rewrite crc_bits_eq, poly16h_length.
  unfold bits_of_units. cbn [flat_map]. rewrite app_nil_r, !crc_update_app.
  unfold crc_out, crc3, reg_init. reflexivity.
Qed.

Opaque crc_update crc5_usb crc16_hdr reg_init crc_out N2bits bits hdr_pack.

Definition raw_rel (r : raw) (x : rsx) : Prop :=
  x_new x = r_new r /\ x_pkt x = r_pkt r /\
  match x_p x with
  | RS_HUNT => r_fsm r = WAIT_HPSTART
  | RS_COLLECT [] => r_fsm r = RECV 0 /\ r_crc r = reg_init 16
  | RS_COLLECT [d0] => r_fsm r = RECV 1 /\ r_dw0 r = d0 /\ r_crc r = crc_update poly16h (reg_init 16) (N2bits 32 d0)
  | RS_COLLECT [d1; d0] =>
      r_fsm r = RECV 2 /\ r_dw0 r = d0 /\ r_dw1 r = d1 /\
      r_crc r = crc_update poly16h (crc_update poly16h (reg_init 16) (N2bits 32 d0)) (N2bits 32 d1)
  | RS_COLLECT [d2; d1; d0] =>
      r_fsm r = RECV 3 /\ r_dw0 r = d0 /\ r_dw1 r = d1 /\ r_dw2 r = d2 /\ r_crc r = crc3 d0 d1 d2
  | RS_COLLECT _ => False
  | RS_VERDICT d0 d1 d2 d3 =>
      r_fsm r = CHECK /\ r_dw0 r = d0 /\ r_dw1 r = d1 /\ r_dw2 r = d2 /\ r_dw3 r = d3 /\
      r_crc r = crc3 d0 d1 d2 /\ r_crc5 r = crc5_usb (bits d3 16 11)
  end.

Lemma raw_rel_init : raw_rel raw_init rsx_init.
Proof. unfold raw_rel, raw_init, rsx_init. cbn [x_new x_pkt x_p r_new r_pkt r_fsm]. repeat split. Qed.

Lemma raw_rel_bad : forall r x, raw_rel r x -> raw_bad r = rsx_bad x.
Proof.
  intros r x (_ & _ & H). unfold raw_bad, rsx_bad, raw_in_check.
  destruct (x_p x) as [|ws|d0 d1 d2 d3].
  - rewrite H. reflexivity.
  - destruct ws as [|a [|b [|c [|d ws]]]]; try contradiction; destruct H as [-> _]; reflexivity.
  - destruct H as (-> & _ & _ & _ & H3 & Hc & H5). cbn [andb].
    unfold raw_crc_bad, hdr_crc_ok. rewrite H3, Hc, H5, crc16_hdr_words.
    rewrite (N.eqb_sym (crc5_usb _)), (N.eqb_sym (crc16_hdr _)).
    destruct (dw3_crc5 d3 =? _), (dw3_crc16 d3 =? _); reflexivity.
Qed.

Lemma raw_rel_good : forall r x e, raw_rel r x -> raw_good r e = rsx_good x e /\ raw_badseq r e = rsx_badseq x e.
Proof.
  intros r x e Hrel. pose proof (raw_rel_bad r x Hrel) as Hb. destruct Hrel as (_ & _ & H).
  unfold raw_good, raw_badseq, rsx_good, rsx_badseq, raw_bad, rsx_bad, raw_in_check in *.
  destruct (x_p x) as [|ws|d0 d1 d2 d3].
  - rewrite H. split; reflexivity.
  - destruct ws as [|a [|b [|c [|d ws]]]]; try contradiction; destruct H as [-> _]; split; reflexivity.
  - destruct H as (Hf & _ & _ & _ & H3 & _). rewrite Hf in *. cbn [andb] in *. rewrite Hb, H3, negb_involutive.
    split; reflexivity.
Qed.

Lemma raw_rel_step : forall r x w e, raw_rel r x -> raw_rel (raw_step r w e) (rsx_step x w e).
Proof.
  intros r x w e Hrel. destruct (raw_rel_good r x e Hrel) as [Hg _].
  destruct Hrel as (Hn & Hp & H).
  unfold raw_rel, raw_step, rsx_step. cbn [x_new x_pkt x_p r_new r_pkt r_fsm r_dw0 r_dw1 r_dw2 r_dw3 r_crc r_crc5].
  split; [symmetry; exact Hg|]. split.
  - rewrite Hg. unfold rsx_good in *. destruct (x_p x) as [|ws|d0 d1 d2 d3].
    + exact Hp.
    + exact Hp.
    + destruct H as (_ & -> & -> & -> & -> & _). rewrite Hp. reflexivity.
  - destruct (x_p x) as [|ws|d0 d1 d2 d3]; cbn [rs_next].
    + rewrite H. destruct (is_hpstart w); [split; reflexivity | reflexivity].
    + destruct ws as [|a [|b [|c [|d ws]]]]; try contradiction.
      * destruct H as [-> ->]. destruct (w_valid w); cbn [Nat.eqb andb]; repeat split; reflexivity.
      * destruct H as (-> & <- & ->). destruct (w_valid w); cbn [Nat.eqb andb]; repeat split; reflexivity.
      * destruct H as (-> & <- & <- & ->). destruct (w_valid w); cbn [Nat.eqb andb]; repeat split; reflexivity.
      * destruct H as (-> & <- & <- & <- & ->). destruct (w_valid w); cbn [Nat.eqb andb]; repeat split; reflexivity.
    + destruct H as (-> & _). reflexivity.
Qed.

(* outputs of the raw receiver in a cycle in which `e` is the expected sequence number *)
Definition raw_outs (r : raw) (e : N) : bool * bool * bool * N := (r_new r, raw_bad r, raw_badseq r e, r_pkt r).
Definition rsx_outs (x : rsx) (e : N) : bool * bool * bool * N := (x_new x, rsx_bad x, rsx_badseq x e, x_pkt x).
Fixpoint raw_trace (r : raw) (ws : list (word * N)) : list (bool * bool * bool * N) :=
  match ws with [] => [] | (w, e) :: t => raw_outs r e :: raw_trace (raw_step r w e) t end.
Fixpoint rsx_trace (x : rsx) (ws : list (word * N)) : list (bool * bool * bool * N) :=
  match ws with [] => [] | (w, e) :: t => rsx_outs x e :: rsx_trace (rsx_step x w e) t end.

Theorem raw_refines : forall ws r x, raw_rel r x -> raw_trace r ws = rsx_trace x ws.
Proof.
  induction ws as [|[w e] t IH]; intros r x H; [reflexivity|]. cbn [raw_trace rsx_trace].
  f_equal; [|apply IH, raw_rel_step, H].
  unfold raw_outs, rsx_outs. destruct (raw_rel_good r x e H) as [_ ->]. rewrite (raw_rel_bad r x H).
  destruct H as (-> & -> & _). reflexivity.
Qed.

Corollary raw_meets_spec : forall ws, raw_trace raw_init ws = rsx_trace rsx_init ws.
Proof. intro ws. apply raw_refines, raw_rel_init. Qed.

Transparent bits.

Section Sim.
  Variables n pw cw sw : N.
  Variable down : bool.
  Hypothesis Hn : n = 2 ^ pw.
  Hypothesis Hcw : n < 2 ^ cw.
  Hypothesis Hpw4 : pw <= 4.
  Hypothesis Hsw4 : sw <= 4.

  Lemma n_pos : 0 < n. Proof. rewrite Hn. apply pow2_gt0. Qed.
  Lemma n_le16 : n <= 16. Proof. rewrite Hn. change 16 with (2 ^ 4). apply pow2_le. exact Hpw4. Qed.
  Lemma sw16 : 2 ^ sw <= 16. Proof. change 16 with (2 ^ 4). apply pow2_le. exact Hsw4. Qed.

  Notation step := (core_step n pw cw sw down).

  Definition fsm_ok (s : core) (adv : bool) : Prop :=
    match fsm s with
    | DISPATCH => gen s = G_IDLE
    | f => (gen s = G_IDLE \/ (lcmd s = fst (req_cmd down s) /\ lsub s = snd (req_cmd down s))) /\
           match f with
           | SEND_ACKS => 1 <= acks s
           | ISSUE_CREDITS => 1 <= credits s /\ adv = true
           | SEND_LBAD => lbad s = true /\ adv = true
           | _ => adv = true
           end
    end.

  Definition Inv (s : core) (g : sp_state) : Prop :=
    s_exp g = expd s /\ expd s < 2 ^ sw /\ s_ign g = ign s /\
    length (bufs s) = N.to_nat n /\ rd s < n /\ filled s <= n /\ wr s = (rd s + filled s) mod n /\
    s_q g = ring n (bufs s) (rd s) (N.to_nat (filled s)) /\
    s_ackowed g = acks s /\ acks s <= n /\ s_nextack g = nack s /\ nack s < 2 ^ sw /\
    s_credowed g = credits s /\ s_nextcred g = ncred s /\ ncred s < n /\
    s_partner g + filled s + credits s = n /\
    s_lbadowed g = lbad s /\
    (s_adv g = false -> acks s = 1 /\ filled s = 0 /\ credits s = n /\
                        (fsm s = SEND_ACKS \/ (fsm s = DISPATCH /\ lrty s = false))) /\
    fsm_ok s (s_adv g).

  (* ---- what the specification sees of the model's outputs ---- *)
  Lemma req_cmd_small : forall s, nack s < 2 ^ sw -> ncred s < n ->
    fst (req_cmd down s) < 16 /\ snd (req_cmd down s) < 16 /\
    snd (req_cmd down s) = match fsm s with SEND_ACKS => nack s | ISSUE_CREDITS => ncred s | _ => 0 end.
  Proof.
    intros s H1 H2. pose proof sw16. pose proof n_le16.
    unfold req_cmd, keepalive_cmd, LGOOD, LCRD, LBAD, LRTY, LXU, LDN, LUP.
    destruct (fsm s), down; cbn [fst snd]; repeat split; try lia;
      try (apply N.mod_lt; lia); try (apply N.mod_small; lia).
  Qed.

  Lemma completed_char : forall s g i, Inv s g ->
    completed i (core_out n s i) = if done s i then Some (req_cmd down s) else None.
  Proof.
    intros s g i HI. unfold completed, core_out, done. cbn [o_svalid o_sdata o_sctrl].
    destruct (gen s) eqn:Eg; cbn [andb]; try reflexivity.
    { destruct (i_srdy i); reflexivity. }
    destruct (i_srdy i); cbn [andb]; [|reflexivity].
    change (0 =? 0) with true. cbv iota.
    destruct HI as (_ & _ & _ & _ & _ & _ & _ & _ & _ & _ & _ & Hna & _ & _ & Hnc & _ & _ & _ & Hf).
    destruct (req_cmd_small s Hna Hnc) as (Hc1 & Hc2 & _).
    unfold fsm_ok in Hf. rewrite Eg in Hf.
    assert (Hl : lcmd s = fst (req_cmd down s) /\ lsub s = snd (req_cmd down s)).
    { destruct (fsm s); try discriminate Hf; destruct Hf as [[Hf|Hf] _]; (discriminate Hf || exact Hf). }
    destruct Hl as [-> ->]. rewrite lc_data_cmd, lc_data_sub by assumption.
    destruct (req_cmd down s); reflexivity.
  Qed.

  Ltac inv_split HI :=
    destruct HI as (He & Hel & Hig & Hlen & Hrd & Hfl & Hwr & Hq & Hak & Hakn & Hna & Hnal & Hcr & Hnc & Hncl &
                    Hpa & Hlb & Hadv & Hf).

  Lemma bidx_small : forall x, x < n -> bidx n x = N.to_nat x.
  Proof. intros. unfold bidx. f_equal. lia. Qed.

  Lemma inv_check : forall s g i, Inv s g -> sp_check down g i (core_out n s i) = true.
  Proof.
    intros s g i HI. pose proof (completed_char s g i HI) as Hc. pose proof n_pos as Hn0.
    inv_split HI. unfold sp_check. rewrite Hc. clear Hc.
    apply andb_true_iff. split; [apply andb_true_iff; split|].
    - (* the queue *)
      rewrite Hq. unfold core_out, qvalid. cbn [o_qvalid o_qhdr].
      destruct (N.to_nat (filled s)) as [|k] eqn:Ek.
      + cbn. assert (filled s = 0) by lia. rewrite H. reflexivity.
      + rewrite (ring_head n Hn0). assert (0 < filled s) by lia.
        apply N.ltb_lt in H. rewrite H. cbn [andb]. rewrite bidx_small by exact Hrd.
        rewrite N.mod_small by exact Hrd. apply N.eqb_refl.
    - unfold core_out. cbn [o_exp]. rewrite He. apply N.eqb_refl.
    - destruct (done s i) eqn:Ed; [|reflexivity].
      unfold done in Ed. destruct (gen s) eqn:Eg; try discriminate Ed.
      destruct (req_cmd_small s Hnal Hncl) as (Hc1 & Hc2 & Hc3).
      unfold fsm_ok in Hf. rewrite Eg in Hf.
      unfold sp_cmd_ok. destruct (req_cmd down s) as [cmd sub] eqn:Er. cbn [fst snd] in *.
      unfold core_out. cbn [o_sdata]. rewrite Eg.
      assert (Hl : lcmd s = cmd /\ lsub s = sub).
      { destruct (fsm s); try discriminate Hf; destruct Hf as [[Hf|Hf] _]; (discriminate Hf || exact Hf). }
      destruct Hl as [-> ->]. rewrite N.eqb_refl. cbn [andb].
      unfold req_cmd in Er.
      destruct (fsm s) eqn:Ef; try discriminate Hf;
        (assert (Ec : cmd = fst (cmd, sub)) by reflexivity); rewrite <- Er in Ec; cbn [fst] in Ec; rewrite Ec; clear Ec Er;
        destruct Hf as [_ Hf].
      + change (LGOOD =? LGOOD) with true. cbv iota. rewrite Hak, Hna, Hc3, N.eqb_refl.
        assert (0 <? acks s = true) by (apply N.ltb_lt; lia). rewrite H. reflexivity.
      + change (LCRD =? LGOOD) with false. change (LCRD =? LCRD) with true. cbv iota.
        destruct Hf as [Hf1 Hf2]. rewrite Hf2, Hcr, Hnc, Hc3, N.eqb_refl.
        assert (0 <? credits s = true) by (apply N.ltb_lt; lia). rewrite H. reflexivity.
      + change (LBAD =? LGOOD) with false. change (LBAD =? LCRD) with false. change (LBAD =? LBAD) with true.
        cbv iota. destruct Hf as [Hf1 Hf2]. rewrite Hf2, Hlb, Hf1, Hc3. reflexivity.
      + rewrite Hf, Hc3. reflexivity.
      + rewrite Hf, Hc3. unfold keepalive_cmd. destruct down; reflexivity.
      + rewrite Hf, Hc3. unfold keepalive_cmd. destruct down; reflexivity.
  Qed.
  Lemma inc_pw : forall x, inc pw x = (x + 1) mod n.
  Proof. intros. unfold inc. rewrite Hn. reflexivity. Qed.

  (* ---- link re-start: both sides are fresh ---- *)
  Lemma inv_restart : forall s g i o, Inv s g -> restart i = true -> Inv (step s i) (sp_next n sw g i o).
  Proof.
    intros s g i o HI Hr. pose proof n_pos as Hn0.
    destruct HI as (He & Hel & Hig & Hlen & _).
    unfold sp_next, core_step. rewrite Hr.
    assert (Ha : accept s i = false) by (unfold accept; rewrite Hr; destruct (i_new i), (ign s); reflexivity).
    rewrite Ha.
    set (e' := if i_rst i then 0 else s_exp g).
    assert (Ee : (if i_rst i then 0 else expd s) = e') by (unfold e'; rewrite He; reflexivity).
    assert (He' : e' < 2 ^ sw) by (unfold e'; pose proof (pow2_gt0 sw); destruct (i_rst i); lia).
    unfold Inv, sp_fresh, fsm_ok, fsm_next, gen_next. rewrite Hr.
    cbn [s_exp s_ign s_q s_ackowed s_nextack s_credowed s_nextcred s_partner s_adv s_lbadowed
         acks credits filled rd wr bufs expd nack ncred lbad lrty keep lxu ign fsm gen lcmd lsub].
    rewrite Ee. rewrite (N.mod_small n (2 ^ cw)) by exact Hcw.
    repeat split; try reflexivity; try lia; try assumption.
    - apply dec_lt.
    - right. split; reflexivity.
  Qed.

  Definition is_cmd (c : option (N * N)) (c' : N) : bool :=
    match c with Some (cmd, _) => cmd =? c' | None => false end.

  Lemma is_cmd_char : forall s g i, Inv s g ->
    let c := completed i (core_out n s i) in
    is_cmd c LGOOD = in_state s SEND_ACKS && done s i /\
    is_cmd c LCRD = in_state s ISSUE_CREDITS && done s i /\
    is_cmd c LBAD = in_state s SEND_LBAD && done s i.
  Proof.
    intros s g i HI. cbv zeta. rewrite (completed_char s g i HI).
    destruct (done s i) eqn:Ed.
    - unfold done in Ed. destruct (gen s) eqn:Eg; try discriminate Ed.
      destruct HI as (_ & _ & _ & _ & _ & _ & _ & _ & _ & _ & _ & _ & _ & _ & _ & _ & _ & _ & Hf).
      unfold fsm_ok in Hf. rewrite Eg in Hf. unfold is_cmd, req_cmd, in_state, keepalive_cmd.
      destruct (fsm s), down; try discriminate Hf; repeat split; reflexivity.
    - rewrite !andb_false_r. repeat split; reflexivity.
  Qed.
  Lemma inv_step_nr : forall s g i, Inv s g -> restart i = false -> sp_env n g i = true ->
    Inv (step s i) (sp_next n sw g i (core_out n s i)).
  Proof.
    intros s g i HI Hr Henv.
    pose proof n_pos as Hn0.
    destruct (is_cmd_char s g i HI) as (HisA & HisC & HisB).
    destruct (restart_false i Hr) as [Hen Hrst].
    destruct HI as (He & Hel & Hig & Hlen & Hrd & Hfl & Hwr & Hq & Hak & Hakn & Hna & Hnal & Hcr & Hnc & Hncl &
                    Hpa & Hlb & Hadv & Hf).
    (* the events of this cycle *)
    set (acc := accept s i). set (cons := consume s i).
    set (dA := in_state s SEND_ACKS && done s i) in *.
    set (dC := in_state s ISSUE_CREDITS && done s i) in *.
    set (dB := in_state s SEND_LBAD && done s i) in *.
    assert (Eacc : sp_accept g i = acc) by (unfold sp_accept, acc, accept; rewrite Hig; reflexivity).
    assert (Ebad : sp_badev g i = badev s i) by (unfold sp_badev, badev; rewrite Hig; reflexivity).
    assert (Econs : o_qvalid (core_out n s i) && i_qrdy i = cons) by reflexivity.
    (* what the partner's rules give *)
    assert (Hacc : acc = true -> 0 < s_partner g /\ acks s < n).
    { intro Ha. unfold sp_env in Henv. rewrite Eacc, Ha in Henv. cbn [negb orb] in Henv.
      apply andb_true_iff in Henv as [H1 H2]. apply N.ltb_lt in H1. apply N.ltb_lt in H2. rewrite Hak in H2. auto. }
    assert (Hcons : cons = true -> 0 < filled s).
    { intro Hc. unfold cons, consume, qvalid in Hc. apply andb_true_iff in Hc as [H1 _]. apply N.ltb_lt in H1. exact H1. }
    assert (HdA : dA = true -> 0 < acks s).
    { intro H. unfold dA, in_state in H. apply andb_true_iff in H as [H _]. unfold fsm_ok in Hf.
      destruct (fsm s); try discriminate H. lia. }
    assert (HdC : dC = true -> 0 < credits s).
    { intro H. unfold dC, in_state in H. apply andb_true_iff in H as [H _]. unfold fsm_ok in Hf.
      destruct (fsm s); try discriminate H. lia. }
    (* closed forms of the three counters *)
    assert (Eacks : updown cw (acks s) acc dA = acks s + b2n acc - b2n dA).
    { apply updown_val; [lia | intros Ha _; specialize (Hacc Ha); lia | intros Hd _; auto]. }
    assert (Ecred : updown cw (credits s) cons dC = credits s + b2n cons - b2n dC).
    { apply updown_val; [lia | intros Hc _; specialize (Hcons Hc); lia | intros Hd _; auto]. }
    assert (Efill : updown cw (filled s) acc cons = filled s + b2n acc - b2n cons).
    { apply updown_val; [lia | intros Ha _; specialize (Hacc Ha); lia | intros Hc _; auto]. }
    unfold sp_next. rewrite Hr. cbv zeta.
    fold (is_cmd (completed i (core_out n s i)) LGOOD). fold (is_cmd (completed i (core_out n s i)) LCRD).
    fold (is_cmd (completed i (core_out n s i)) LBAD).
    rewrite HisA, HisC, HisB, Eacc, Ebad, Econs.
    unfold core_step. rewrite Hr, Hrst. fold acc cons dA dC dB.
    rewrite Eacks, Ecred, Efill.
    unfold Inv.
    cbn [s_exp s_ign s_q s_ackowed s_nextack s_credowed s_nextcred s_partner s_adv s_lbadowed
         acks credits filled rd wr bufs expd nack ncred lbad lrty keep lxu ign fsm gen lcmd lsub].
    assert (Hwrn : wr s < n) by (rewrite Hwr; apply N.mod_lt; lia).
    repeat match goal with |- _ /\ _ => split end.
    - (* expected *) rewrite He. reflexivity.
    - pose proof (inc_lt sw (expd s)). destruct acc; lia.
    - rewrite Hig. reflexivity.
    - destruct acc; [rewrite upd_length|]; exact Hlen.
    - rewrite inc_pw. pose proof (N.mod_lt (rd s + 1) n). destruct cons; lia.
    - destruct acc eqn:Ea, cons eqn:Ec; cbn [b2n]; try specialize (Hacc eq_refl); try specialize (Hcons eq_refl); lia.
    - (* write pointer *)
      rewrite !inc_pw, Hwr.
      destruct acc eqn:Ea, cons eqn:Ec; cbn [b2n]; try specialize (Hacc eq_refl); try specialize (Hcons eq_refl).
      + rewrite !N.add_mod_idemp_l by lia. f_equal. lia.
      + rewrite !N.add_mod_idemp_l by lia. f_equal. lia.
      + rewrite !N.add_mod_idemp_l by lia. f_equal. lia.
      + f_equal. lia.
    - (* the queue *)
      rewrite Hq, inc_pw. rewrite (bidx_small (wr s) Hwrn), Hwr. symmetry.
      destruct acc eqn:Ea, cons eqn:Ec; cbn [b2n]; try specialize (Hacc eq_refl); try specialize (Hcons eq_refl).
      + destruct (N.to_nat (filled s)) as [|k] eqn:Ek; [lia|].
        replace (N.to_nat (filled s + 1 - 1)) with (S k) by lia.
        rewrite (ring_head n Hn0 (bufs s)). cbn [tl].
        rewrite (ring_snoc n). f_equal.
        * replace (filled s) with (N.of_nat k + 1) by lia.
          replace ((rd s + (N.of_nat k + 1)) mod n) with (((rd s + 1) mod n + N.of_nat k) mod n)
            by (rewrite N.add_mod_idemp_l by lia; f_equal; lia).
          apply ring_upd_out; lia.
        * f_equal. rewrite N.add_mod_idemp_l by lia.
          replace (rd s + 1 + N.of_nat k) with (rd s + filled s) by lia.
          apply nth_upd_same. pose proof (N.mod_lt (rd s + filled s) n). lia.
      + replace (N.to_nat (filled s + 1 - 0)) with (S (N.to_nat (filled s))) by lia.
        replace (filled s) with (N.of_nat (N.to_nat (filled s))) at 1 by lia.
        apply ring_push; lia.
      + destruct (N.to_nat (filled s)) as [|k] eqn:Ek; [lia|].
        replace (N.to_nat (filled s + 0 - 1)) with k by lia.
        rewrite (ring_head n Hn0). cbn [tl]. rewrite app_nil_r. reflexivity.
      + replace (filled s + 0 - 0) with (filled s) by lia. rewrite app_nil_r. reflexivity.
    - rewrite Hak. reflexivity.
    - destruct acc eqn:Ea, dA eqn:Ed; cbn [b2n]; try specialize (Hacc eq_refl); lia.
    - rewrite Hna. reflexivity.
    - pose proof (inc_lt sw (nack s)). destruct dA; lia.
    - rewrite Hcr. reflexivity.
    - rewrite Hnc, inc_pw. reflexivity.
    - rewrite inc_pw. pose proof (N.mod_lt (ncred s + 1) n). destruct dC; lia.
    - destruct acc eqn:Ea, cons eqn:Ec, dC eqn:Ed; cbn [b2n];
        try specialize (Hacc eq_refl); try specialize (Hcons eq_refl); try specialize (HdC eq_refl); lia.
    - rewrite Hlb. reflexivity.
    - (* before the advertisement *)
      intro Hadv'. apply orb_false_iff in Hadv' as [Hadv0 HdA0]. specialize (Hadv Hadv0).
      destruct Hadv as (Ha1 & Hf0 & Hc0 & Hst).
      assert (acc = false).
      { destruct acc; [|reflexivity]. specialize (Hacc eq_refl). lia. }
      assert (cons = false).
      { destruct cons; [|reflexivity]. specialize (Hcons eq_refl). lia. }
      assert (dC = false).
      { unfold dC, in_state. destruct Hst as [-> | [-> _]]; reflexivity. }
      rewrite H, H0, H1, HdA0. cbn [b2n]. repeat split; try lia.
      left. unfold fsm_next. rewrite Hr.
      destruct Hst as [Hs | [Hs Hl]]; rewrite Hs.
      * unfold dA, in_state in HdA0. rewrite Hs in HdA0. cbn in HdA0. rewrite HdA0. reflexivity.
      * rewrite Hl, Ha1. reflexivity.
    - (* dispatcher / generator consistency *)
      assert (Hadvt : s_adv g = false -> acks s = 1 /\ (fsm s = SEND_ACKS \/ fsm s = DISPATCH /\ lrty s = false))
        by (intro HH; destruct (Hadv HH) as (? & _ & _ & ?); auto).
      clear Hadv Hq Hwr Hlen Hpa.
      unfold fsm_ok, req_cmd, fsm_next, gen_next, latch, generate.
      cbn [acks credits filled rd wr bufs expd nack ncred lbad lrty keep lxu ign fsm gen lcmd lsub].
      rewrite Hr. unfold fsm_ok, req_cmd in Hf.
      subst dA dC dB. unfold in_state, done in *.
      destruct (fsm s) eqn:Ef; cbn [dfsm_eqb andb] in *.
      + (* DISPATCH *)
        rewrite Hf. cbn [b2n andb].
        destruct (lrty s) eqn:El.
        { split; [left; reflexivity|]. destruct (s_adv g); [reflexivity|].
          destruct (Hadvt eq_refl) as [_ [HH|[_ HH]]]; discriminate HH. }
        destruct (acks s =? 0) eqn:Ea0; cbn [negb].
        { apply N.eqb_eq in Ea0.
          assert (Hadv1 : s_adv g = true).
          { destruct (s_adv g); [reflexivity|]. destruct (Hadvt eq_refl) as [HH _]. lia. }
          rewrite Hadv1.
          destruct (credits s =? 0) eqn:Ec0; cbn [negb].
          - destruct (lbad s) eqn:Elb.
            + split; [left; reflexivity|]. split; [|reflexivity]. destruct (badev s i); reflexivity.
            + destruct (lxu s); [split; [left; reflexivity|reflexivity]|].
              destruct (keep s); [split; [left; reflexivity|reflexivity]|]. reflexivity.
          - apply N.eqb_neq in Ec0. split; [left; reflexivity|]. split; [lia|reflexivity]. }
        apply N.eqb_neq in Ea0. split; [left; reflexivity|]. lia.
      + (* SEND_ACKS *)
        destruct Hf as [Hg Ha1].
        destruct (gen s) eqn:Eg; cbn [b2n andb] in *.
        * split; [right; split; reflexivity|]. lia.
        * destruct Hg as [Hg|Hg]; [discriminate Hg|].
          split; [right; destruct (i_srdy i); exact Hg|]. lia.
        * destruct Hg as [Hg|Hg]; [discriminate Hg|].
          destruct (i_srdy i) eqn:Es; cbn [b2n andb].
          -- destruct (acks s =? 1) eqn:Ea1; [reflexivity|]. apply N.eqb_neq in Ea1.
             split; [left; reflexivity|]. lia.
          -- split; [right; exact Hg|]. lia.
      + (* ISSUE_CREDITS *)
        destruct Hf as [Hg [Hc1 Hadv1]]. rewrite Hadv1. cbn [orb].
        destruct (gen s) eqn:Eg; cbn [b2n andb] in *.
        * split; [right; split; reflexivity|]. split; [lia|reflexivity].
        * destruct Hg as [Hg|Hg]; [discriminate Hg|].
          split; [right; destruct (i_srdy i); exact Hg|]. split; [lia|reflexivity].
        * destruct Hg as [Hg|Hg]; [discriminate Hg|].
          destruct (i_srdy i) eqn:Es; cbn [b2n andb].
          -- destruct (credits s =? 1) eqn:Ec1; [reflexivity|]. apply N.eqb_neq in Ec1.
             split; [left; reflexivity|]. split; [lia|reflexivity].
          -- split; [right; exact Hg|]. split; [lia|reflexivity].
      + (* SEND_LBAD *)
        destruct Hf as [Hg [Hlb1 Hadv1]]. rewrite Hadv1, Hlb1. cbn [orb].
        destruct (gen s) eqn:Eg; cbn [b2n andb] in *.
        * split; [right; split; reflexivity|]. split; [destruct (badev s i); reflexivity|reflexivity].
        * destruct Hg as [Hg|Hg]; [discriminate Hg|].
          split; [right; destruct (i_srdy i); exact Hg|]. split; [destruct (badev s i); reflexivity|reflexivity].
        * destruct Hg as [Hg|Hg]; [discriminate Hg|].
          destruct (i_srdy i) eqn:Es; cbn [b2n andb]; [reflexivity|].
          split; [right; exact Hg|]. split; [destruct (badev s i); reflexivity|reflexivity].
      + (* SEND_LRTY *)
        destruct Hf as [Hg Hadv1]. rewrite Hadv1. cbn [orb].
        destruct (gen s) eqn:Eg; cbn [b2n andb] in *.
        * split; [right; split; reflexivity|reflexivity].
        * destruct Hg as [Hg|Hg]; [discriminate Hg|].
          split; [right; destruct (i_srdy i); exact Hg|reflexivity].
        * destruct Hg as [Hg|Hg]; [discriminate Hg|].
          destruct (i_srdy i) eqn:Es; cbn [b2n andb]; [reflexivity|].
          split; [right; exact Hg|reflexivity].
      + (* SEND_KEEPALIVE *)
        destruct Hf as [Hg Hadv1]. rewrite Hadv1. cbn [orb].
        destruct (gen s) eqn:Eg; cbn [b2n andb] in *.
        * split; [right; split; reflexivity|reflexivity].
        * destruct Hg as [Hg|Hg]; [discriminate Hg|].
          split; [right; destruct (i_srdy i); exact Hg|reflexivity].
        * destruct Hg as [Hg|Hg]; [discriminate Hg|].
          destruct (i_srdy i) eqn:Es; cbn [b2n andb]; [reflexivity|].
          split; [right; exact Hg|reflexivity].
      + (* SEND_LXU *)
        destruct Hf as [Hg Hadv1]. rewrite Hadv1. cbn [orb].
        destruct (gen s) eqn:Eg; cbn [b2n andb] in *.
        * split; [right; split; reflexivity|reflexivity].
        * destruct Hg as [Hg|Hg]; [discriminate Hg|].
          split; [right; destruct (i_srdy i); exact Hg|reflexivity].
        * destruct Hg as [Hg|Hg]; [discriminate Hg|].
          destruct (i_srdy i) eqn:Es; cbn [b2n andb]; [reflexivity|].
          split; [right; exact Hg|reflexivity].
  Qed.

  Lemma inv_step : forall s g i, Inv s g -> sp_env n g i = true ->
    Inv (step s i) (sp_next n sw g i (core_out n s i)).
  Proof.
    intros s g i HI He. destruct (restart i) eqn:Hr; [apply inv_restart | apply inv_step_nr]; assumption.
  Qed.

  Lemma inv_fresh : forall e b x, e < 2 ^ sw -> length b = N.to_nat n ->
    Inv (core_fresh n cw sw e b x) (sp_fresh n sw e).
  Proof.
    intros e b x He Hl. pose proof n_pos as Hn0.
    unfold Inv, core_fresh, sp_fresh, fsm_ok.
    cbn [s_exp s_ign s_q s_ackowed s_nextack s_credowed s_nextcred s_partner s_adv s_lbadowed
         acks credits filled rd wr bufs expd nack ncred lbad lrty keep lxu ign fsm gen lcmd lsub].
    rewrite (N.mod_small n (2 ^ cw)) by exact Hcw.
    repeat split; try reflexivity; try lia; try assumption.
    - apply dec_lt.
    - right. split; reflexivity.
  Qed.

  (* all input / output pairs of a run of the model *)
  Fixpoint core_ios (s : core) (ins : list cin) : list (cin * cout) :=
    match ins with
    | [] => []
    | i :: t => (i, core_out n s i) :: core_ios (step s i) t
    end.

  Theorem core_refines : forall ins s g, Inv s g -> sp_accepts n sw down g (core_ios s ins) = true.
  Proof.
    induction ins as [|i t IH]; intros s g HI; [reflexivity|].
    cbn [core_ios sp_accepts]. unfold sp_mon. destruct (sp_env n g i) eqn:He; [|reflexivity].
    rewrite (inv_check s g i HI). cbn [andb]. apply IH. apply inv_step; assumption.
  Qed.

  Corollary core_meets_spec : forall ins,
    sp_accepts n sw down (sp_fresh n sw 0) (core_ios (core_init n cw sw) ins) = true.
  Proof.
    intro ins. apply core_refines. apply inv_fresh; [apply pow2_gt0 | apply repeat_length].
  Qed.

  (* C38: whatever the state, one cycle with the link down (or in reset) leaves the bookkeeping in the fresh state *)
  Theorem restart_is_fresh : forall s i, restart i = true ->
    step s i = core_fresh n cw sw (if i_rst i then 0 else expd s) (bufs s)
                 (if in_state s SEND_LXU && done s i then false else if i_rej i then true else lxu s).
  Proof.
    intros s i Hr. unfold core_step, core_fresh, fsm_next, gen_next. rewrite Hr.
    assert (Ha : accept s i = false) by (unfold accept; rewrite Hr; destruct (i_new i), (ign s); reflexivity).
    rewrite Ha. reflexivity.
  Qed.

  (* ---- 5. the complete receiver: raw receiver + bookkeeping against parser + bookkeeping specification ---- *)
  Fixpoint hr_ios (st : hr_state) (ins : list hin) : list (hin * cout) :=
    match ins with
    | [] => []
    | i :: t => (i, snd (hr_step n pw cw sw down st i)) :: hr_ios (fst (hr_step n pw cw sw down st i)) t
    end.

  Lemma spec_cin_eq : forall r c x g i, raw_rel r x -> Inv c g -> spec_cin x (s_exp g) i = hr_cin r c i.
  Proof.
    intros r c x g i Hr HI. destruct HI as (He & _). rewrite He.
    unfold spec_cin, hr_cin, cin_of_hin. destruct (raw_rel_good r x (expd c) Hr) as [_ <-].
    rewrite <- (raw_rel_bad r x Hr). destruct Hr as (-> & -> & _). reflexivity.
  Qed.

  Theorem hr_refines : forall ins r c x g, raw_rel r x -> Inv c g ->
    hs_accepts n sw down (x, g) (hr_ios (r, c) ins) = true.
  Proof.
    induction ins as [|i t IH]; intros r c x g Hr HI; [reflexivity|].
    cbn [hr_ios hs_accepts hr_step fst snd]. unfold hs_mon.
    rewrite (spec_cin_eq r c x g i Hr HI). unfold sp_mon.
    destruct (sp_env n g (hr_cin r c i)) eqn:He; [|reflexivity].
    rewrite (inv_check c g _ HI). cbn [andb]. apply IH.
    - assert (E : s_exp g = expd c) by (destruct HI as (E & _); exact E). rewrite E. apply raw_rel_step. exact Hr.
    - apply inv_step; assumption.
  Qed.

  Corollary hr_meets_spec : forall ins,
    hs_accepts n sw down (rsx_init, sp_fresh n sw 0) (hr_ios (hr_init n cw sw) ins) = true.
  Proof.
    intro ins. apply hr_refines; [apply raw_rel_init|]. apply inv_fresh; [apply pow2_gt0 | apply repeat_length].
  Qed.
End Sim.

(* ------------------------------------------------------------------------------------------ *)
(* packed runs of the bookkeeping model = packing of its typed input / output pairs *)
Lemma core_mrun : forall n pw cw sw down hw tr s,
  run (core_mstep n pw cw sw down hw) s tr =
  map (fun io => pack_cout hw (snd io)) (core_ios n pw cw sw down s (map (cin_of hw) tr)).
Proof.
  induction tr as [|x t IH]; intro s; [reflexivity|].
  cbn [run map core_ios]. unfold core_mstep at 1. cbn [snd]. rewrite IH. reflexivity.
Qed.

Lemma core_ios_inputs : forall n pw cw sw down ins s, map fst (core_ios n pw cw sw down s ins) = ins.
Proof. induction ins as [|i t IH]; intro s; [reflexivity|]. cbn [core_ios map fst]. rewrite IH. reflexivity. Qed.

(* the well-formedness facts with their side conditions in a fixed order (used by the tie obligations) *)
Lemma core_wf_step' : forall n pw cw sw down hw W nb, pw <= W -> cw <= W -> sw <= W -> hw <= W -> 4 <= W ->
  forall s x, core_wf W nb s -> core_wf W nb (fst (core_mstep n pw cw sw down hw s x)).
Proof. intros. eapply core_wf_step; eassumption. Qed.

Lemma core_wf_init' : forall n cw sw W nb, cw <= W -> sw <= W -> 4 <= W -> nb = N.to_nat n ->
  core_wf W nb (core_init n cw sw).
Proof.
  intros n cw sw W nb H1 H2 H3 ->. unfold core_init.
  eapply core_wf_fresh; try eassumption.
  - apply pow2_gt0.
  - apply repeat_length.
  - apply Forall_forall. intros x Hx. apply repeat_spec in Hx. subst x. apply pow2_gt0.
Qed.

(* ------------------------------------------------------------------------------------------ *)
(* 3. What acceptance by the specification means for histories                                   *)
Section HistProofs.
  Variables n sw : N.
  Variable down : bool.
  (* exactly once, in order: what was handed over, followed by what is still queued, is what was queued before
     followed by what was accepted (while the link stays up) *)
  Theorem sp_fifo : forall ios g gf a d, Forall (fun io => restart (fst io) = false) ios ->
    sp_run n sw down g ios = Some (gf, a, d) -> s_q g ++ a = d ++ s_q gf.
  Proof.
    induction ios as [|[i o] t IH]; intros g gf a d Hall H.
    - cbn in H. inversion H; subst. rewrite app_nil_r. reflexivity.
    - cbn [sp_run] in H. inversion Hall as [|? ? Hr Ht]; subst. cbn [fst] in Hr.
      unfold sp_mon in H. destruct (sp_env n g i); [|discriminate H].
      destruct (sp_check down g i o) eqn:Hc; [|discriminate H].
      destruct (sp_run n sw down (sp_next n sw g i o) t) as [[[gf' a'] d']|] eqn:Hrun; [|discriminate H].
      inversion H; subst; clear H. specialize (IH _ _ _ _ Ht Hrun).
      unfold sp_next in IH. rewrite Hr in IH. cbn [s_q] in IH.
      unfold sp_check in Hc. apply andb_true_iff in Hc as [Hc _]. apply andb_true_iff in Hc as [Hq _].
      destruct (o_qvalid o && i_qrdy i) eqn:Et.
      + apply andb_true_iff in Et as [Ev _]. destruct (s_q g) as [|h r] eqn:Eq.
        * rewrite Ev in Hq. discriminate Hq.
        * apply andb_true_iff in Hq as [_ Hh]. apply N.eqb_eq in Hh. rewrite Hh. cbn [tl app] in *.
          f_equal. rewrite <- IH. rewrite <- !app_assoc. reflexivity.
      + cbn [app]. rewrite <- IH. rewrite <- !app_assoc. reflexivity.
  Qed.
End HistProofs.

Transparent crc_update crc5_usb crc16_hdr reg_init crc_out N2bits hdr_pack.
