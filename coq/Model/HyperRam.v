(* C53 -- hand model of luna/gateware/interface/psram.py: HyperRAMInterface (the interface FSM; the
   PHY wrappers are out of scope), and the HyperBus transaction specification it is proved against.

   Parameters:  L  = the value loaded into latency_clocks_remaining (HIGH_LATENCY_CLOCKS - 2 in the code),
                lw = the width of that counter.
   Fixed by the code: 32-bit address, 16-bit DQ, 2-bit RWDS (2:1 PHY, one list element = one sync cycle).

   Packed input word  (first port = least significant):
     address[32] register_space perform_write single_page start_transfer final_word write_data[16] dq_i[16] rwds_i[2]
   Packed output word:
     clk_en dq_o[16] dq_e rwds_o[2] rwds_e cs reset idle read_ready write_ready read_data[16]              *)
From Coq Require Import NArith List Bool.
Import ListNotations.
From LunaLib Require Import Netlist Machine.
Open Scope N_scope.

(* ------------------------------------------------------------------------------------------ *)
(* Inputs                                                                                      *)
Record hr_in := { i_addr : N; i_reg : bool; i_write : bool; i_single : bool; i_start : bool;
                  i_final : bool; i_wdata : N; i_dq : N; i_rwds : N }.

Definition hr_decode (i : N) : hr_in :=
  {| i_addr := bits i 0 32; i_reg := N.testbit i 32; i_write := N.testbit i 33; i_single := N.testbit i 34;
     i_start := N.testbit i 35; i_final := N.testbit i 36; i_wdata := bits i 37 16; i_dq := bits i 53 16;
     i_rwds := bits i 69 2 |}.

Definition hr_mk_in (addr : N) (reg write single start final : bool) (wdata dq rwds : N) : N :=
  addr mod 2^32 + 2^32 * b2n reg + 2^33 * b2n write + 2^34 * b2n single + 2^35 * b2n start + 2^36 * b2n final
  + 2^37 * (wdata mod 2^16) + 2^53 * (dq mod 2^16) + 2^69 * (rwds mod 4).

(* ------------------------------------------------------------------------------------------ *)
(* HyperBus command-address word (HyperBus specification, table "Command-Address bit assignments"):
     CA[47] R/W# (1 = read)   CA[46] address space (1 = register)   CA[45] burst type (1 = linear)
     CA[44:16] = address[31:3]   CA[15:3] reserved (0)   CA[2:0] = address[2:0]
   sent on the 16-bit double-data-rate bus as CA[47:32], CA[31:16], CA[15:0].                   *)
Definition hb_ca (read reg linear : bool) (addr : N) : N :=
  b2n read * 2^47 + b2n reg * 2^46 + b2n linear * 2^45 + ((addr / 8) mod 2^29) * 2^16 + addr mod 8.

Definition hb_ca_word (ca : N) (k : N) : N :=
  match k with
  | 0 => (ca / 2^32) mod 2^16
  | 1 => (ca / 2^16) mod 2^16
  | _ => ca mod 2^16
  end.

(* read framing with a 2:1 PHY: rwds_i[1] / dq_i[15:8] belong to the first half of the cycle,
   rwds_i[0] / dq_i[7:0] to the second.  A word is RWDS-framed either inside one cycle (rwds = 10) or
   across two (previous second half high, current first half low).                               *)
Definition read_word (prev_rwds0 : bool) (prev_dq_lo : N) (i : hr_in) : option N :=
  if i_rwds i =? 2 then Some (i_dq i)
  else if prev_rwds0 && negb (N.testbit (i_rwds i) 1) then Some (i_dq i / 2^8 + 2^8 * prev_dq_lo)
  else None.

(* ------------------------------------------------------------------------------------------ *)
(* The model: registers of HyperRAMInterface.elaborate                                         *)
Inductive hr_fsm := H_IDLE | H_LATCH_RWDS | H_SHIFT0 | H_SHIFT1 | H_SHIFT2 | H_LATENCY | H_READ | H_WRITE | H_RECOVERY.

Record hr_state := {
  fsm : hr_fsm;
  is_read : bool; is_reg : bool; is_multi : bool; cur_addr : N;     (* latched request *)
  extra_lat : bool; lat : N;                                        (* extra_latency, latency_clocks_remaining *)
  lh_rwds : bool; lh_dq : N;                                        (* last_half_rwds, last_half_dq *)
  r_clk_en : bool; r_cs : bool; r_rwds_e : bool; r_dq_e : bool; r_dq_o : N   (* registered PHY outputs *)
}.

Definition hr_init : hr_state :=
  {| fsm := H_IDLE; is_read := false; is_reg := false; is_multi := false; cur_addr := 0;
     extra_lat := false; lat := 0; lh_rwds := false; lh_dq := 0;
     r_clk_en := false; r_cs := false; r_rwds_e := false; r_dq_e := false; r_dq_o := 0 |}.

Definition hr_ca (st : hr_state) : N := hb_ca (is_read st) (is_reg st) (is_multi st) (cur_addr st).

Section HyperRam.
  Variables L lw : N.

  Definition hr_next (st : hr_state) (i : hr_in) : hr_state :=
    match fsm st with
    | H_IDLE =>
        if i_start i then
          {| fsm := H_LATCH_RWDS;
             is_read := negb (i_write i); is_reg := i_reg i; is_multi := negb (i_single i); cur_addr := i_addr i;
             extra_lat := extra_lat st; lat := lat st; lh_rwds := lh_rwds st; lh_dq := lh_dq st;
             r_clk_en := false; r_cs := true; r_rwds_e := false; r_dq_e := false; r_dq_o := 0 |}
        else
          {| fsm := H_IDLE;
             is_read := is_read st; is_reg := is_reg st; is_multi := is_multi st; cur_addr := cur_addr st;
             extra_lat := extra_lat st; lat := lat st; lh_rwds := lh_rwds st; lh_dq := lh_dq st;
             r_clk_en := false; r_cs := false; r_rwds_e := false; r_dq_e := false; r_dq_o := r_dq_o st |}
    | H_LATCH_RWDS =>
        {| fsm := H_SHIFT0;
           is_read := is_read st; is_reg := is_reg st; is_multi := is_multi st; cur_addr := cur_addr st;
           extra_lat := N.testbit (i_rwds i) 0; lat := lat st; lh_rwds := lh_rwds st; lh_dq := lh_dq st;
           r_clk_en := false; r_cs := true; r_rwds_e := false; r_dq_e := false; r_dq_o := r_dq_o st |}
    | H_SHIFT0 =>
        {| fsm := H_SHIFT1;
           is_read := is_read st; is_reg := is_reg st; is_multi := is_multi st; cur_addr := cur_addr st;
           extra_lat := extra_lat st; lat := lat st; lh_rwds := lh_rwds st; lh_dq := lh_dq st;
           r_clk_en := true; r_cs := true; r_rwds_e := false; r_dq_e := true; r_dq_o := hb_ca_word (hr_ca st) 0 |}
    | H_SHIFT1 =>
        {| fsm := H_SHIFT2;
           is_read := is_read st; is_reg := is_reg st; is_multi := is_multi st; cur_addr := cur_addr st;
           extra_lat := extra_lat st; lat := lat st; lh_rwds := lh_rwds st; lh_dq := lh_dq st;
           r_clk_en := true; r_cs := true; r_rwds_e := false; r_dq_e := true; r_dq_o := hb_ca_word (hr_ca st) 1 |}
    | H_SHIFT2 =>
        let regwrite := is_reg st && negb (is_read st) in
        {| fsm := if regwrite then H_WRITE else H_LATENCY;
           is_read := is_read st; is_reg := is_reg st; is_multi := is_multi st; cur_addr := cur_addr st;
           extra_lat := extra_lat st; lat := if regwrite then lat st else L;   (* `extra_latency | 1`: always the long latency *)
           lh_rwds := lh_rwds st; lh_dq := lh_dq st;
           r_clk_en := true; r_cs := true; r_rwds_e := false; r_dq_e := true; r_dq_o := hb_ca_word (hr_ca st) 2 |}
    | H_LATENCY =>
        {| fsm := if lat st =? 0 then (if is_read st then H_READ else H_WRITE) else H_LATENCY;
           is_read := is_read st; is_reg := is_reg st; is_multi := is_multi st; cur_addr := cur_addr st;
           extra_lat := extra_lat st; lat := (lat st + 2^lw - 1) mod 2^lw;      (* wraps like the register *)
           lh_rwds := lh_rwds st; lh_dq := lh_dq st;
           r_clk_en := true; r_cs := true; r_rwds_e := false; r_dq_e := false; r_dq_o := r_dq_o st |}
    | H_READ =>
        let done := match read_word (lh_rwds st) (lh_dq st) i with Some _ => i_final i | None => false end in
        {| fsm := if done then H_RECOVERY else H_READ;
           is_read := is_read st; is_reg := is_reg st; is_multi := is_multi st; cur_addr := cur_addr st;
           extra_lat := extra_lat st; lat := lat st;
           lh_rwds := N.testbit (i_rwds i) 0; lh_dq := i_dq i mod 2^8;
           r_clk_en := true; r_cs := true; r_rwds_e := false; r_dq_e := false; r_dq_o := r_dq_o st |}
    | H_WRITE =>
        {| fsm := if is_reg st then H_IDLE else if i_final i then H_RECOVERY else H_WRITE;
           is_read := is_read st; is_reg := is_reg st; is_multi := is_multi st; cur_addr := cur_addr st;
           extra_lat := extra_lat st; lat := lat st; lh_rwds := lh_rwds st; lh_dq := lh_dq st;
           r_clk_en := true; r_cs := true; r_rwds_e := negb (is_reg st); r_dq_e := true; r_dq_o := i_wdata i |}
    | H_RECOVERY =>
        {| fsm := H_IDLE;
           is_read := is_read st; is_reg := is_reg st; is_multi := is_multi st; cur_addr := cur_addr st;
           extra_lat := extra_lat st; lat := lat st; lh_rwds := false; lh_dq := 0;
           r_clk_en := false; r_cs := false; r_rwds_e := false; r_dq_e := false; r_dq_o := r_dq_o st |}
    end.

  (* packed outputs: the registered PHY signals plus the combinational status signals *)
  Definition pack_phy (clk_en : bool) (dq_o : N) (dq_e rwds_e cs : bool) : N :=
    b2n clk_en + 2 * dq_o + 2^17 * b2n dq_e + 2^20 * b2n rwds_e + 2^21 * b2n cs.
  Definition pack_status (idle : bool) (rd : option N) (write_ready : bool) : N :=
    2^23 * b2n idle + 2^25 * b2n write_ready
    + match rd with Some w => 2^24 + 2^26 * w | None => 0 end.

  Definition hr_out (st : hr_state) (i : hr_in) : N :=
    pack_phy (r_clk_en st) (r_dq_o st) (r_dq_e st) (r_rwds_e st) (r_cs st)
    + pack_status (match fsm st with H_IDLE => true | _ => false end)
                  (match fsm st with H_READ => read_word (lh_rwds st) (lh_dq st) i | _ => None end)
                  (match fsm st with H_WRITE => true | _ => false end).

  Definition hr_step (st : hr_state) (i : N) : hr_state * N :=
    let d := hr_decode i in (hr_next st d, hr_out st d).
End HyperRam.

(* ------------------------------------------------------------------------------------------ *)
(* Specification: what a HyperBus controller puts on the bus, cycle by cycle.                  *)
Inductive bus_cycle :=
  | Deselect                 (* CS# high, clock stopped, DQ and RWDS released *)
  | Setup                    (* CS# low, clock not yet running, DQ and RWDS released (memory drives RWDS = latency) *)
  | Listen                   (* CS# low, clock running, DQ and RWDS released (latency / read data: memory drives) *)
  | Drive (w : N)            (* CS# low, clock running, controller drives DQ = w, RWDS released (CA words, register data) *)
  | DriveMasked (w : N).     (* CS# low, clock running, controller drives DQ = w and RWDS = 00 (memory write data, no byte masked) *)

Definition render (b : bus_cycle) : N :=
  match b with
  | Deselect => pack_phy false 0 false false false
  | Setup => pack_phy false 0 false false true
  | Listen => pack_phy true 0 false false true
  | Drive w => pack_phy true w true false true
  | DriveMasked w => pack_phy true w true true true
  end.

Definition drives_dq (b : bus_cycle) : bool := match b with Drive _ | DriveMasked _ => true | _ => false end.
Definition drives_rwds (b : bus_cycle) : bool := match b with DriveMasked _ => true | _ => false end.
Definition selected (b : bus_cycle) : bool := match b with Deselect => false | _ => true end.

(* where the controller is in the transaction *)
Inductive hb_phase :=
  | PIdle                    (* no transaction; a request is accepted in this cycle (idle = 1) *)
  | PCommand (k : N)         (* k = 0: chip selected, memory's RWDS latched; k = 1,2,3: CA word k-1 is handed to the bus *)
  | PLatency (n : N)         (* n further cycles of latency after this one *)
  | PRead                    (* memory drives DQ/RWDS; RWDS-framed words are reported *)
  | PWrite                   (* write_data is accepted (write_ready = 1) and handed to the bus *)
  | PRecover.                (* end of a memory-space or read transaction: deselect *)

Record hb_state := {
  ph : hb_phase;
  c_read : bool; c_reg : bool; c_linear : bool; c_addr : N;    (* the request being executed *)
  bus : bus_cycle;                                             (* what is on the bus in this cycle *)
  p_rwds0 : bool; p_dq_lo : N                                  (* second half of the previous read cycle *)
}.

Definition hb_init : hb_state :=
  {| ph := PIdle; c_read := false; c_reg := false; c_linear := false; c_addr := 0; bus := Deselect;
     p_rwds0 := false; p_dq_lo := 0 |}.

Definition hb_cmd_ca (s : hb_state) : N := hb_ca (c_read s) (c_reg s) (c_linear s) (c_addr s).

Section Spec.
  Variable L : N.     (* latency: L + 1 Listen cycles between the last CA word and the first data word *)

  Definition with_phase (s : hb_state) (p : hb_phase) (b : bus_cycle) : hb_state :=
    {| ph := p; c_read := c_read s; c_reg := c_reg s; c_linear := c_linear s; c_addr := c_addr s; bus := b;
       p_rwds0 := p_rwds0 s; p_dq_lo := p_dq_lo s |}.

  Definition hb_next (s : hb_state) (i : hr_in) : hb_state :=
    match ph s with
    | PIdle =>
        if i_start i then
          {| ph := PCommand 0; c_read := negb (i_write i); c_reg := i_reg i; c_linear := negb (i_single i);
             c_addr := i_addr i; bus := Setup; p_rwds0 := p_rwds0 s; p_dq_lo := p_dq_lo s |}
        else with_phase s PIdle Deselect
    | PCommand 0 => with_phase s (PCommand 1) Setup
    | PCommand k =>
        with_phase s (if k <? 3 then PCommand (k + 1)
                      else if c_reg s && negb (c_read s) then PWrite      (* register write: zero latency *)
                      else PLatency L)
                   (Drive (hb_ca_word (hb_cmd_ca s) (k - 1)))
    | PLatency n =>
        with_phase s (if n =? 0 then (if c_read s then PRead else PWrite) else PLatency (n - 1)) Listen
    | PRead =>
        let done := match read_word (p_rwds0 s) (p_dq_lo s) i with Some _ => i_final i | None => false end in
        {| ph := if done then PRecover else PRead;
           c_read := c_read s; c_reg := c_reg s; c_linear := c_linear s; c_addr := c_addr s; bus := Listen;
           p_rwds0 := N.testbit (i_rwds i) 0; p_dq_lo := i_dq i mod 2^8 |}
    | PWrite =>
        if c_reg s then with_phase s PIdle (Drive (i_wdata i))
        else with_phase s (if i_final i then PRecover else PWrite) (DriveMasked (i_wdata i))
    | PRecover =>
        {| ph := PIdle; c_read := c_read s; c_reg := c_reg s; c_linear := c_linear s; c_addr := c_addr s;
           bus := Deselect; p_rwds0 := false; p_dq_lo := 0 |}
    end.

  Definition hb_out (s : hb_state) (i : hr_in) : N :=
    render (bus s)
    + pack_status (match ph s with PIdle => true | _ => false end)
                  (match ph s with PRead => read_word (p_rwds0 s) (p_dq_lo s) i | _ => None end)
                  (match ph s with PWrite => true | _ => false end).

  Definition hb_step (s : hb_state) (i : N) : hb_state * N :=
    let d := hr_decode i in (hb_next s d, hb_out s d).
End Spec.

(* The model's DQ output register keeps its old value while DQ is not driven (dq_e = 0); the
   specification does not care.  hr_norm clears dq_o (bits 1..16) when dq_e (bit 17) is 0.     *)
Definition hr_norm (o : N) : N :=
  if (o / 2^17) mod 2 =? 1 then o else o - 2 * ((o / 2) mod 2^16).

(* ------------------------------------------------------------------------------------------ *)
(* Packing of the model state for lock-step obligations (lat on top: its width is a parameter) *)
Definition hr_fsm_code (f : hr_fsm) : N :=
  match f with H_IDLE => 0 | H_LATCH_RWDS => 1 | H_SHIFT0 => 2 | H_SHIFT1 => 3 | H_SHIFT2 => 4
             | H_LATENCY => 5 | H_READ => 6 | H_WRITE => 7 | H_RECOVERY => 8 end.
Definition hr_fsm_of (n : N) : hr_fsm :=
  match n with 0 => H_IDLE | 1 => H_LATCH_RWDS | 2 => H_SHIFT0 | 3 => H_SHIFT1 | 4 => H_SHIFT2
             | 5 => H_LATENCY | 6 => H_READ | 7 => H_WRITE | _ => H_RECOVERY end.

Definition pk (w a r : N) : N := a + N.shiftl r w.

Definition hr_enc (st : hr_state) : N :=
  pk 4 (hr_fsm_code (fsm st)) (pk 1 (b2n (is_read st)) (pk 1 (b2n (is_reg st)) (pk 1 (b2n (is_multi st))
  (pk 32 (cur_addr st) (pk 1 (b2n (extra_lat st)) (pk 1 (b2n (lh_rwds st)) (pk 8 (lh_dq st)
  (pk 1 (b2n (r_clk_en st)) (pk 1 (b2n (r_cs st)) (pk 1 (b2n (r_rwds_e st)) (pk 1 (b2n (r_dq_e st))
  (pk 16 (r_dq_o st) (lat st))))))))))))).

(* shifts and masks rather than div/mod: this runs once per explored (state, input) pair *)
Definition hr_dec (m : N) : hr_state :=
  let f := N.land m (N.ones 4) in let m := N.shiftr m 4 in
  let rd := N.odd m in let m := N.div2 m in
  let rg := N.odd m in let m := N.div2 m in
  let mu := N.odd m in let m := N.div2 m in
  let ad := N.land m (N.ones 32) in let m := N.shiftr m 32 in
  let el := N.odd m in let m := N.div2 m in
  let lr := N.odd m in let m := N.div2 m in
  let ld := N.land m (N.ones 8) in let m := N.shiftr m 8 in
  let ce := N.odd m in let m := N.div2 m in
  let cs := N.odd m in let m := N.div2 m in
  let re := N.odd m in let m := N.div2 m in
  let de := N.odd m in let m := N.div2 m in
  let dq := N.land m (N.ones 16) in let m := N.shiftr m 16 in
  {| fsm := hr_fsm_of f; is_read := rd; is_reg := rg; is_multi := mu; cur_addr := ad; extra_lat := el; lat := m;
     lh_rwds := lr; lh_dq := ld; r_clk_en := ce; r_cs := cs; r_rwds_e := re; r_dq_e := de; r_dq_o := dq |}.

Definition hr_wf (st : hr_state) : Prop := cur_addr st < 2^32 /\ lh_dq st < 2^8 /\ r_dq_o st < 2^16.

(* ------------------------------------------------------------------------------------------ *)
(* Input alphabets for the reachability obligations: every combination of the listed field values *)
Definition hr_alphabet (addrs : list N) (regs writes singles starts finals : list bool)
                       (wdatas dqs rwdss : list N) : list N :=
  flat_map (fun a => flat_map (fun rg => flat_map (fun wr => flat_map (fun sg => flat_map (fun st =>
  flat_map (fun fi => flat_map (fun wd => flat_map (fun dq => map (fun rw =>
    hr_mk_in a rg wr sg st fi wd dq rw) rwdss) dqs) wdatas) finals) starts) singles) writes) regs) addrs.

Definition both : list bool := [false; true].
Definition one_hot32 : list N := map (fun k => 2 ^ N.of_nat k) (seq 0 32).
