(* C46 -- the SuperSpeed stream IN endpoint (Model/SsIn.v) wired to the transaction packet generator
   (Model/TpGen.v, property C45) exactly as a device wires them: handshakes_out of the endpoint is the
   generator's interface.  Used for correspondence with the real composition and to check the generator
   contract that the referee of SsIn.v assumes (ready exactly while idle, done while busy) against the real
   TransactionPacketGenerator.

   Input word (65 bits): bits 0..56 as in SsIn.v (stream, tx.ready, handshakes_in);
                         [57] header_source.ready   [58..64] device address
   Output word (137 bits): bits 0..69 as in SsIn.v (endpoint outputs);
                         [70] generator ready  [71] generator done  [72] header_source.valid
                         [73..104] header dw0  [105..136] header dw1                                *)
From Coq Require Import NArith List Bool.
Import ListNotations.
From LunaLib Require Import Netlist Machine.
From LunaModel Require Import TpGen SsIn.
Open Scope N_scope.

Definition x_hqready (i : N) : bool := N.testbit i 57.
Definition x_addr (i : N) : N := bits i 58 7.

(* the endpoint's input word: the low 57 bits, plus the generator's ready / done *)
Definition ep_in (i : N) (gready gdone : bool) : N :=
  bits i 0 57 + 2 ^ 57 * b2n gready + 2 ^ 58 * b2n gdone.

(* the generator's input word (TpGen.v layout) from the endpoint's outputs *)
Definition gen_in (i : N) (eo : ss_out) : N :=
  TpGen.mk_in (o_hoep eo) false 0 (4 * b2n (o_nrdy eo) + 8 * b2n (o_erdy eo)) (x_addr i) (x_hqready i).

Section Composition.
  Variables (mps ep sb : N).

  Definition xs_step (st : ss_state * tp_state) (i : N) : (ss_state * tp_state) * N :=
    let (s, g) := st in
    (* the generator's outputs depend on its state and header_source.ready only *)
    let go := tp_out g (TpGen.mk_in 0 false 0 0 0 (x_hqready i)) in
    let ei := ep_in i (TpGen.o_ready go) (TpGen.o_done go) in
    let eo := ss_outputs mps ep sb s ei in
    let gi := gen_in i eo in
    let hdr := TpGen.o_header go in
    ((ss_next mps ep sb s ei, tp_next g gi),
     SsIn.pack_out eo + 2 ^ 70 * b2n (TpGen.o_ready go) + 2 ^ 71 * b2n (TpGen.o_done go) +
     2 ^ 72 * b2n (TpGen.o_valid go) + 2 ^ 73 * bits hdr 0 32 + 2 ^ 105 * bits hdr 32 32).

  Definition xs_init : ss_state * tp_state := (ss_init, tp_init).

  (* ---- the referee over the composition: the generator is now part of the system, so what SsIn.env_phase
     ASSUMES about it is CHECKED here (first component of the verdict), and every header the generator
     hands to the link layer must be an NRDY or ERDY transaction packet of this endpoint, direction IN ---- *)
  Definition x_gready (o : N) : bool := N.testbit o 70.
  Definition x_gdone (o : N) : bool := N.testbit o 71.
  Definition x_hvalid (o : N) : bool := N.testbit o 72.
  Definition x_dw0 (o : N) : N := bits o 73 32.
  Definition x_dw1 (o : N) : N := bits o 105 32.

  Definition gen_contract_ok (r : ref_state) (o : N) : bool :=
    Bool.eqb (x_gready o) (negb (r_gen r)) && negb (x_gdone o && negb (r_gen r)).
  Definition header_ok (i o : N) : bool :=
    if x_hvalid o then
      (bits (x_dw0 o) 0 5 =? TP_TYPE) &&
      ((bits (x_dw1 o) 0 4 =? 2) || (bits (x_dw1 o) 0 4 =? 3)) &&      (* NRDY | ERDY *)
      N.testbit (x_dw1 o) 7 &&                                        (* direction IN *)
      (bits (x_dw1 o) 8 4 =? ep mod 16)
    else true.

  Definition xs_monN (m i o : N) : option (N * bool) :=
    let r := ref_dec m in
    if negb (gen_contract_ok r o) then Some (m, false)
    else if negb (header_ok i o) then Some (m, false)
    else ref_monN mps ep sb m (ep_in i (x_gready o) (x_gdone o)) (bits o 0 70).
End Composition.
