(* C27 -- hand model and specification of luna/gateware/stream/generator.py: ConstantStreamGenerator.

   Configuration (what the Python constructor / _get_initializer_value derive from its arguments):
     c_words  ROM contents, one entry per stream word (for bytes data: the bytes grouped bpw at a time)
     c_bpw    bytes per word = ceil(data_width / 8)
     c_vw     width of stream.valid (1 for byte streams; = c_bpw for wide streams with per-byte valid)
     c_lwb    number of valid bits that accompany the last ROM word (bytes in a partial last word)
     c_dlen   self._data_length = len(constant_data)
     c_hasml  max_length_width was given (max_length / output_length ports, byte counter present)
     c_mlw    max_length_width;  c_posw  width of position_in_stream;  c_spw  width of start_position
     c_dw     payload width

   One cycle's packed input word :  start | start_position | max_length (if c_hasml) | stream.ready
   One cycle's packed output word:  valid | first | last | payload | done | output_length (if c_hasml) *)
From Coq Require Import NArith List Bool.
Import ListNotations.
From LunaLib Require Import Netlist Bits Machine.
Open Scope N_scope.

Record cg_cfg := { c_words : list N; c_bpw : N; c_vw : N; c_lwb : N; c_dlen : N;
                   c_hasml : bool; c_mlw : N; c_posw : N; c_spw : N; c_dw : N }.

(* one word on the stream: payload, flags, and the number of bytes of the payload that are meant
   (the per-byte valid mask sets that many low bits; a 1-bit valid is simply 1) *)
Record beat := { b_payload : N; b_first : bool; b_last : bool; b_bytes : N }.

(* =====================  SPECIFICATION: the answer to a request  =====================
   A request (start position in words, byte limit ml) is answered with the words of the data from the
   start position onward, for as long as neither the data nor the byte budget is exhausted:

     beats bpw lwb ml ws sent first
         bpw   = bytes per word, lwb = bytes present in the very last word of the data
         ws    = the words not yet sent (skipn position data)
         sent  = bytes already sent for this request
         first = this is the first word of the answer

   The final word is the one that exhausts the data (no word after it) or the budget
   (sent + bpw >= ml).  Every word carries bpw bytes except the final one, which carries
   min(bytes present in that word, bytes left in the budget). *)
Fixpoint beats (bpw lwb ml : N) (ws : list N) (sent : N) (first : bool) : list beat :=
  match ws with
  | [] => []
  | w :: rest =>
      let data_ends := match rest with [] => true | _ => false end in
      let final := data_ends || (ml <=? sent + bpw) in
      {| b_payload := w; b_first := first; b_last := final;
         b_bytes := if final then N.min (if data_ends then lwb else bpw) (ml - sent) else bpw |}
      :: (if final then [] else beats bpw lwb ml rest (sent + bpw) false)
  end.

Inductive cg_fsm := IDLE | STREAMING | DONE.
Record cg_state := { g_fsm : cg_fsm; g_pos : N; g_sent : N; g_ml : N; g_rd : N }.

Section ConstGen.
  Variable c : cg_cfg.

  Definition nwords : N := N.of_nat (length (c_words c)).

  (* ---- reading one cycle's input word ---- *)
  Definition i_start (i : N) : bool := N.testbit i 0.
  Definition i_sp (i : N) : N := bits i 1 (c_spw c).
  Definition i_ml (i : N) : N := if c_hasml c then bits i (1 + c_spw c) (c_mlw c) else c_dlen c.
  Definition i_ready (i : N) : bool := N.testbit i (1 + c_spw c + (if c_hasml c then c_mlw c else 0)).

  (* ---- packing one cycle's outputs ---- *)
  Definition olen_of (ml : N) : N :=
    if c_hasml c then trunc (c_mlw c) (if ml <? c_dlen c then ml else c_dlen c) else 0.
  Definition pack_beat (valid : N) (first last : bool) (payload : N) (done : bool) (ml : N) : N :=
    valid + N.shiftl (b2n first) (c_vw c) + N.shiftl (b2n last) (c_vw c + 1)
    + N.shiftl payload (c_vw c + 2) + N.shiftl (b2n done) (c_vw c + 2 + c_dw c)
    + N.shiftl (olen_of ml) (c_vw c + 3 + c_dw c).
  Definition pack_quiet (done : bool) (ml : N) : N := pack_beat 0 false false 0 done ml.

  (* =====================  SPECIFICATION  ===================== *)
  Definition vmask (nbytes : N) : N := if c_vw c =? 1 then 1 else N.ones nbytes.

  Definition answer (sp ml : N) : list beat :=
    beats (c_bpw c) (c_lwb c) ml (skipn (N.to_nat sp) (c_words c)) 0 true.

  (* The specification machine: idle until a start with a non-zero limit; then present the answer word by
     word, each word held until stream.ready; then pulse done for one cycle; then idle again.
     `ml` is the limit most recently seen while idle (output_length reports min(ml, data length));
     `sp` is remembered only to state the environment assumption (start_position held during a request). *)
  Inductive sp_state := SpIdle (ml : N) | SpSend (bs : list beat) (ml sp : N) | SpDone (ml : N).

  Definition sp_out (s : sp_state) : N :=
    match s with
    | SpIdle ml => pack_quiet false ml
    | SpSend (b :: _) ml _ => pack_beat (vmask (b_bytes b)) (b_first b) (b_last b) (b_payload b) false ml
    | SpSend [] ml _ => pack_quiet false ml
    | SpDone ml => pack_quiet true ml
    end.

  Definition sp_next (s : sp_state) (i : N) : sp_state :=
    match s with
    | SpIdle _ => if i_start i && (0 <? i_ml i) then SpSend (answer (i_sp i) (i_ml i)) (i_ml i) (i_sp i)
                  else SpIdle (i_ml i)
    | SpSend (_ :: rest) ml sp =>
        if i_ready i then match rest with [] => SpDone ml | _ => SpSend rest ml sp end else s
    | SpSend [] ml _ => SpDone ml
    | SpDone ml => SpIdle ml
    end.

  Definition sp_step (s : sp_state) (i : N) : sp_state * N := (sp_next s i, sp_out s).
  Definition sp_init : sp_state := SpIdle 0.

  (* Environment: a request starts within the data, and start_position is held while it is answered. *)
  Definition sp_env (s : sp_state) (i : N) : bool :=
    match s with
    | SpIdle _ => if i_start i && (0 <? i_ml i) then i_sp i <? nwords else true
    | SpSend _ _ sp => i_sp i =? sp
    | SpDone _ => true
    end.

  (* =====================  MODEL (code-shaped)  ===================== *)
  Definition rom (a : N) : N := nth (N.to_nat a) (c_words c) 0.

  (* "with m.If(self.start_position >= self._data_length): start_position = data_length - 1" *)
  Definition sp_eff (i : N) : N :=
    if c_dlen c <=? i_sp i then nwords - 1 else trunc (c_posw c) (i_sp i).

  Definition bps : N := if c_hasml c then c_bpw c else 0.          (* bytes_per_word of the byte counter *)
  Definition mlv (st : cg_state) : N := if c_hasml c then g_ml st else c_dlen c.
  Definition e_data (st : cg_state) : bool := g_pos st =? nwords - 1.
  Definition e_max (st : cg_state) : bool := mlv st <=? g_sent st + bps.
  Definition on_last (st : cg_state) : bool := e_data st || e_max st.
  Definition on_first (st : cg_state) (i : N) : bool := g_pos st =? i_sp i.

  Definition v_data : N := N.ones (c_lwb c).
  Definition v_max (st : cg_state) : N :=
    let left := trunc (N.size (c_bpw c)) (g_ml st - g_sent st) in      (* Signal(range(bytes_per_word + 1)) *)
    if (1 <=? left) && (left <=? c_bpw c) then trunc (c_vw c) (N.ones left) else 0.

  Definition g_valid (st : cg_state) : N :=
    if c_vw c =? 1 then 1
    else if on_last st then
      if c_hasml c then
        if e_data st && e_max st then N.land v_data (v_max st)
        else if e_data st then v_data else v_max st
      else v_data
    else N.ones (c_vw c).

  Definition cg_out (st : cg_state) (i : N) : N :=
    match g_fsm st with
    | IDLE => pack_quiet false (g_ml st)
    | STREAMING => pack_beat (g_valid st) (on_first st i) (on_last st) (g_rd st) false (g_ml st)
    | DONE => pack_quiet true (g_ml st)
    end.

  Definition cg_next (st : cg_state) (i : N) : cg_state :=
    match g_fsm st with
    | IDLE =>
        {| g_fsm := if i_start i && (0 <? i_ml i) then STREAMING else IDLE;
           g_pos := sp_eff i; g_sent := 0;
           g_ml := if c_hasml c then i_ml i else 0;
           g_rd := rom (sp_eff i) |}
    | STREAMING =>
        if i_ready i then
          if on_last st then
            {| g_fsm := DONE; g_pos := g_pos st; g_sent := g_sent st; g_ml := g_ml st; g_rd := rom (g_pos st) |}
          else
            let p := trunc (c_posw c) (g_pos st + 1) in
            {| g_fsm := STREAMING; g_pos := p;
               g_sent := if c_hasml c then trunc (c_mlw c) (g_sent st + c_bpw c) else 0;
               g_ml := g_ml st; g_rd := rom p |}
        else {| g_fsm := STREAMING; g_pos := g_pos st; g_sent := g_sent st; g_ml := g_ml st; g_rd := rom (g_pos st) |}
    | DONE => {| g_fsm := IDLE; g_pos := g_pos st; g_sent := g_sent st; g_ml := g_ml st; g_rd := rom 0 |}
    end.

  Definition cg_step (st : cg_state) (i : N) : cg_state * N := (cg_next st i, cg_out st i).
  Definition cg_init : cg_state := {| g_fsm := IDLE; g_pos := 0; g_sent := 0; g_ml := 0; g_rd := rom 0 |}.

  (* ---- packing of the model state for lock-step obligations ---- *)
  Definition pair (w a b : N) : N := a + N.shiftl b w.
  Definition cg_enc (st : cg_state) : N :=
    pair 2 (match g_fsm st with IDLE => 0 | STREAMING => 1 | DONE => 2 end)
      (pair (c_posw c) (g_pos st) (pair (c_mlw c) (g_sent st) (pair (c_mlw c) (g_ml st) (g_rd st)))).
  Definition cg_dec (m : N) : cg_state :=
    let r1 := N.shiftr m 2 in
    let r2 := N.shiftr r1 (c_posw c) in
    let r3 := N.shiftr r2 (c_mlw c) in
    {| g_fsm := match trunc 2 m with 0 => IDLE | 1 => STREAMING | _ => DONE end;
       g_pos := trunc (c_posw c) r1; g_sent := trunc (c_mlw c) r2; g_ml := trunc (c_mlw c) r3;
       g_rd := N.shiftr r3 (c_mlw c) |}.
  Definition cg_wf (st : cg_state) : Prop :=
    g_pos st < 2 ^ c_posw c /\ g_sent st < 2 ^ c_mlw c /\ g_ml st < 2 ^ c_mlw c.
End ConstGen.

(* well-formed configurations (what the constructor produces for bytes data, or byte-wide data) *)
Definition cfg_okb (c : cg_cfg) : bool :=
  let L := N.of_nat (length (c_words c)) in
  (1 <=? L) && (L <=? 2 ^ c_posw c) && (1 <=? c_bpw c) && (1 <=? c_lwb c) && (c_lwb c <=? c_bpw c)
  && ((c_vw c =? 1) || (c_vw c =? c_bpw c)) && (c_dlen c =? (L - 1) * c_bpw c + c_lwb c)
  && (c_dlen c <=? 2 ^ c_spw c) && (negb (c_hasml c) || (c_bpw c <? 2 ^ c_mlw c)).

(* ---- how the Python constructor derives the configuration from its arguments (bytes data) ---- *)
Fixpoint word_le (bs : list N) : N := match bs with [] => 0 | b :: t => b + 256 * word_le t end.
Fixpoint chunks (fuel : nat) (k : nat) (bs : list N) : list (list N) :=
  match fuel, bs with
  | O, _ => [] | _, [] => []
  | S f, _ => firstn k bs :: chunks f k (skipn k bs)
  end.
Definition width_of_range (n : N) : N := N.size (n - 1).      (* Signal(range(n)) *)

(* little-endian: chunk bytes b0 b1 .. -> b0 + 256 b1 + ..;  big-endian: int.from_bytes(chunk, "big") *)
Definition cfg_of_bytes (data : list N) (bpw : nat) (big_endian : bool) (mlw : option N) : cg_cfg :=
  let cs := chunks (length data) bpw data in
  let ws := map (fun ch => word_le (if big_endian then rev ch else ch)) cs in
  let r := Nat.modulo (length data) bpw in
  {| c_words := ws; c_bpw := N.of_nat bpw; c_vw := N.of_nat bpw;
     c_lwb := N.of_nat (if Nat.eqb r 0 then bpw else r);
     c_dlen := N.of_nat (length data);
     c_hasml := match mlw with Some _ => true | None => false end;
     c_mlw := match mlw with Some w => w | None => 0 end;
     c_posw := width_of_range (N.of_nat (length ws));
     c_spw := width_of_range (N.of_nat (length data));
     c_dw := 8 * N.of_nat bpw |}.
