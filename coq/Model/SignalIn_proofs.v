From Coq Require Import NArith ZArith List Bool Lia ZifyBool ZifyN Arith.
Import ListNotations.
From LunaLib Require Import Netlist Machine.
From LunaModel Require Import SignalIn.
Open Scope N_scope.
Ltac Zify.zify_post_hook ::= Z.div_mod_to_equations.

(* ---- serialisation facts ---------------------------------------------------------------------- *)
Lemma length_bytes_le : forall n v, length (bytes_le n v) = n.
Proof. induction n; intros; simpl; [reflexivity | rewrite IHn; reflexivity]. Qed.

Lemma length_to_bytes : forall big n v, length (to_bytes big n v) = n.
Proof. intros [] n v; unfold to_bytes; [rewrite rev_length|]; apply length_bytes_le. Qed.

Lemma to_bytes_big_rev : forall n v, to_bytes true n v = rev (to_bytes false n v).
Proof. reflexivity. Qed.

(* the little-endian byte string denotes the value: serialisation loses nothing *)
Lemma from_le_bytes_le : forall n v, v < 256 ^ N.of_nat n -> from_le (bytes_le n v) = v.
Proof.
  induction n as [|n IH]; intros v Hv.
  - simpl in *. lia.
  - rewrite Nat2N.inj_succ, N.pow_succ_r' in Hv. cbn [bytes_le from_le].
    rewrite IH by (apply N.div_lt_upper_bound; lia). pose proof (N.div_mod v 256). lia.
Qed.

Lemma bits_byte : forall v, bits v 0 8 = v mod 256.
Proof. intro v. unfold bits. rewrite N.shiftr_0_r, N.land_ones. reflexivity. Qed.

Lemma nth_bytes_le : forall n v k, (k < n)%nat -> nth k (bytes_le n v) 0 = bits v (8 * N.of_nat k) 8.
Proof.
  induction n as [|n IH]; intros v k Hk; [lia|].
  destruct k as [|k]; cbn [bytes_le nth].
  - rewrite N.mul_0_r. symmetry. apply bits_byte.
  - rewrite IH by lia. unfold bits. f_equal.
    rewrite Nat2N.inj_succ. change 256 with (2 ^ 8). rewrite <- N.shiftr_div_pow2, N.shiftr_shiftr.
    f_equal. lia.
Qed.

Lemma nth_to_bytes : forall big n v k, (k < n)%nat ->
  nth k (to_bytes big n v) 0 = bits v (8 * N.of_nat (if big then n - 1 - k else k)) 8.
Proof.
  intros [] n v k Hk; unfold to_bytes.
  - rewrite rev_nth by (rewrite length_bytes_le; exact Hk). rewrite length_bytes_le.
    rewrite nth_bytes_le by lia. do 3 f_equal. lia.
  - apply nth_bytes_le. exact Hk.
Qed.

Lemma hd_skipn : forall (l : list N) k, hd 0 (skipn k l) = nth k l 0.
Proof. induction l as [|a l IH]; intros [|k]; simpl; auto. Qed.
Lemma tl_skipn : forall (l : list N) k, tl (skipn k l) = skipn (S k) l.
Proof.
  intros l k. revert l. induction k as [|k IH]; intros [|a l]; try reflexivity.
  change (tl (skipn k l) = skipn (S k) l). apply IH.
Qed.

Lemma bits_zero : forall lo w, bits 0 lo w = 0.
Proof. intros. unfold bits. rewrite N.shiftr_0_l. reflexivity. Qed.

(* ---- the refinement ------------------------------------------------------------------------------ *)
Section Proofs.
  Variable W : N.
  Variable big : bool.
  Variable ep : N.
  Hypothesis HW : 1 <= W.

  Notation nb := (nb W).
  Notation nbn := (nbn W).
  Notation bw := (bw W).

  Lemma nb_pos : 1 <= nb.
  Proof. unfold SignalIn.nb. lia. Qed.
  Lemma nb_lt_pow : nb < 2 ^ bw.
  Proof. unfold SignalIn.bw. apply N.size_gt. Qed.
  Lemma nbn_nb : N.of_nat nbn = nb.
  Proof. unfold SignalIn.nbn. apply N2Nat.id. Qed.

  Definition si_rel (s : si_state) (sp : ssp_state) : Prop :=
    s_tog s = snd sp /\
    match fst sp with
    | P_IDLE => s_fsm s = S_IDLE /\ si_payload W big s = 0
    | P_SEND v rest => s_fsm s = S_TX /\ s_lat s = v /\ s_bt s < nb /\
                       rest = skipn (N.to_nat (s_bt s)) (to_bytes big nbn v)
    | P_WAIT v => s_fsm s = S_WAIT /\ s_lat s = v /\ s_bt s = nb
    | P_RETRY v => s_fsm s = S_RETX /\ s_lat s = v /\ s_bt s = nb
    end.

  Lemma si_rel_init : si_rel si_init ssp_init.
  Proof.
    split; [reflexivity|]. cbn [fst ssp_init]. split; [reflexivity|].
    unfold si_payload, si_init. cbn [s_bt s_lat]. destruct (0 <? nb); [apply bits_zero | reflexivity].
  Qed.

  Lemma payload_done : forall s, s_bt s = nb -> si_payload W big s = 0.
  Proof. intros s H. unfold si_payload. rewrite H, N.ltb_irrefl. reflexivity. Qed.

  Lemma payload_send : forall s v, s_lat s = v -> s_bt s < nb ->
    si_payload W big s = nth (N.to_nat (s_bt s)) (to_bytes big nbn v) 0.
  Proof.
    intros s v Hl Hb. unfold si_payload. destruct (s_bt s <? nb) eqn:E; [|lia].
    assert (Hk : (N.to_nat (s_bt s) < nbn)%nat) by (pose proof nbn_nb; lia).
    rewrite nth_to_bytes by exact Hk. rewrite Hl. do 2 f_equal.
    pose proof nbn_nb. destruct big; lia.
  Qed.

  Lemma si_rel_step : forall s sp i, si_rel s sp -> si_env W i = true ->
    si_rel (fst (si_step W big ep s i)) (fst (ssp_step W big ep sp i)) /\
    snd (si_step W big ep s i) = snd (ssp_step W big ep sp i).
  Proof.
    intros [f bt lat tog] [ph tg] i [Ht Hp] He. cbn [snd fst s_tog] in Ht. subst tg.
    cbn [fst] in Hp. unfold si_step, ssp_step, si_next, si_out, in_tx. cbn [fst snd].
    pose proof nb_pos as Hnb. pose proof nb_lt_pow as Hpw. pose proof nbn_nb as Hnn.
    destruct ph as [|v rest|v|v]; cbn [s_fsm s_bt s_lat s_tog] in Hp.
    - (* idle *)
      destruct Hp as [-> Hpay]. cbn [s_fsm s_bt s_lat s_tog andb]. rewrite Hpay.
      split; [|reflexivity].
      destruct (si_req W ep i); (split; [reflexivity|]); cbn [fst s_fsm s_bt s_lat s_tog].
      + split; [reflexivity|]. split; [reflexivity|]. split; [lia | reflexivity].
      + split; [reflexivity | exact Hpay].
    - (* sending *)
      destruct Hp as (-> & Hl & Hb & Hr). cbn [s_fsm s_bt s_lat s_tog andb].
      set (k := N.to_nat bt) in *.
      assert (Hlen : length rest = (nbn - k)%nat)
        by (rewrite Hr, skipn_length, length_to_bytes; reflexivity).
      assert (Hk : (k < nbn)%nat) by (unfold k; lia).
      split.
      + destruct (si_ready W i); (split; [reflexivity|]); cbn [fst s_fsm s_bt s_lat s_tog].
        * rewrite Hr, tl_skipn.
          assert (Hmod : (bt + 1) mod 2 ^ bw = bt + 1) by (apply N.mod_small; lia).
          destruct (bt + 1 =? nb) eqn:E.
          -- rewrite skipn_all2 by (rewrite length_to_bytes; unfold k; lia).
             split; [reflexivity|]. split; [exact Hl | lia].
          -- destruct (skipn (S k) (to_bytes big nbn v)) as [|r0 r] eqn:Es.
             ++ exfalso. apply (f_equal (@length N)) in Es.
                rewrite skipn_length, length_to_bytes in Es. simpl in Es. unfold k in *. lia.
             ++ split; [reflexivity|]. split; [exact Hl|]. split; [lia|].
                rewrite <- Es. f_equal. unfold k. lia.
        * split; [reflexivity|]. split; [exact Hl|]. split; [exact Hb | exact Hr].
      + assert (E1 : (bt =? 0) = Nat.eqb (length rest) nbn) by (rewrite Hlen; unfold k in *; lia).
        assert (E2 : (bt + 1 =? nb) = Nat.eqb (length rest) 1) by (rewrite Hlen; unfold k in *; lia).
        assert (E3 : si_payload W big {| s_fsm := S_TX; s_bt := bt; s_lat := lat; s_tog := tog |} = hd 0 rest).
        { rewrite Hr, hd_skipn. apply payload_send; assumption. }
        rewrite E1, E2, E3. reflexivity.
    - (* waiting for the host's verdict *)
      destruct Hp as (-> & Hl & Hb). cbn [s_fsm s_bt s_lat s_tog andb].
      rewrite (payload_done {| s_fsm := S_WAIT; s_bt := bt; s_lat := lat; s_tog := tog |}) by exact Hb.
      split; [|reflexivity].
      unfold si_env in He. split; [reflexivity|]. cbn [fst s_fsm s_bt s_lat s_tog].
      destruct (si_ack W i), (si_newtok W i); try discriminate He.
      * split; [reflexivity|]. apply (payload_done {| s_fsm := S_IDLE; s_bt := bt; s_lat := lat; s_tog := xorb tog true |}). exact Hb.
      * split; [reflexivity|]. split; assumption.
      * split; [reflexivity|]. split; assumption.
    - (* waiting for the poll that re-sends *)
      destruct Hp as (-> & Hl & Hb). cbn [s_fsm s_bt s_lat s_tog andb].
      rewrite (payload_done {| s_fsm := S_RETX; s_bt := bt; s_lat := lat; s_tog := tog |}) by exact Hb.
      split; [|reflexivity].
      destruct (si_req W ep i); (split; [reflexivity|]); cbn [fst s_fsm s_bt s_lat s_tog].
      + split; [reflexivity|]. split; [exact Hl|]. split; [lia | reflexivity].
      + split; [reflexivity|]. split; assumption.
  Qed.

  Fixpoint env_all (tr : list N) : bool :=
    match tr with [] => true | i :: t => si_env W i && env_all t end.

  Theorem sigin_refines : forall tr s sp, si_rel s sp -> env_all tr = true ->
    run (si_step W big ep) s tr = run (ssp_step W big ep) sp tr.
  Proof.
    induction tr as [|i tr IH]; intros s sp H He; [reflexivity|].
    cbn [env_all] in He. apply andb_true_iff in He as [He1 He2].
    destruct (si_rel_step s sp i H He1) as [Hn Ho].
    cbn [run]. destruct (si_step W big ep s i) as [s' o]. destruct (ssp_step W big ep sp i) as [sp' o'].
    cbn [fst snd] in *. subst o'. f_equal. apply IH; assumption.
  Qed.

  Corollary sigin_from_reset : forall tr, env_all tr = true ->
    run (si_step W big ep) si_init tr = run (ssp_step W big ep) ssp_init tr.
  Proof. intros tr He. apply sigin_refines; [apply si_rel_init | exact He]. Qed.
End Proofs.

(* ---- reading the specification ------------------------------------------------------------------- *)
Section SpecFacts.
  Variable W : N.
  Variable big : bool.
  Variable ep : N.

  (* the DATA toggle advances exactly on an ACK received while waiting for the host's verdict *)
  Lemma ssp_toggle : forall ph tog i,
    snd (fst (ssp_step W big ep (ph, tog) i))
    = xorb tog (match ph with P_WAIT _ => si_ack W i | _ => false end).
  Proof. intros [|v rest|v|v] tog i; cbn [ssp_step fst snd]; try reflexivity; destruct tog; reflexivity. Qed.

  (* the value being answered changes only when an idle endpoint accepts a poll *)
  Definition phase_value (ph : sp_phase) : option N :=
    match ph with P_IDLE => None | P_SEND v _ => Some v | P_WAIT v => Some v | P_RETRY v => Some v end.
  Lemma ssp_value_stable : forall ph tog i v,
    phase_value ph = Some v ->
    phase_value (fst (fst (ssp_step W big ep (ph, tog) i))) = Some v \/
    (fst (fst (ssp_step W big ep (ph, tog) i)) = P_IDLE /\ exists w, ph = P_WAIT w /\ si_ack W i = true).
  Proof.
    intros [|w rest|w|w] tog i v H; cbn [phase_value] in H; try discriminate; inversion H; subst w;
      cbn [ssp_step fst snd].
    - left. destruct (si_ready W i); [destruct (tl rest)|]; reflexivity.
    - destruct (si_ack W i); [right; split; [reflexivity | exists v; split; reflexivity]|].
      left. destruct (si_newtok W i); reflexivity.
    - left. destruct (si_req W ep i); reflexivity.
  Qed.

  (* while sending, each tx.ready cycle hands over exactly the head of the remaining byte list *)
  Fixpoint count_ready (seg : list N) : nat :=
    match seg with [] => O | i :: t => ((if si_ready W i then 1 else 0) + count_ready t)%nat end.

  Lemma ssp_send_progress : forall seg v rest tog, (count_ready seg < length rest)%nat ->
    run_state (ssp_step W big ep) (P_SEND v rest, tog) seg = (P_SEND v (skipn (count_ready seg) rest), tog).
  Proof.
    induction seg as [|i seg IH]; intros v rest tog H; [reflexivity|].
    cbn [count_ready] in *. cbn [run_state ssp_step fst].
    destruct (si_ready W i).
    - destruct rest as [|a [|b r]]; cbn [length] in H; try lia.
      cbn [tl]. rewrite IH by (cbn [length]; lia). reflexivity.
    - apply IH. exact H.
  Qed.

  Lemma ssp_send_finish : forall v b tog i, si_ready W i = true ->
    fst (ssp_step W big ep (P_SEND v [b], tog) i) = (P_WAIT v, tog).
  Proof. intros v b tog i H. cbn [ssp_step fst tl]. rewrite H. reflexivity. Qed.
End SpecFacts.

(* ---- packing for the lock-step obligations --------------------------------------------------------- *)
Section Packing.
  Variable W : N.
  Variable big : bool.
  Variable ep : N.

  Definition si_wf (s : si_state) : Prop := s_bt s < 2 ^ bw W.

  Lemma si_dec_enc : forall s, si_wf s -> si_dec W (si_enc W s) = s.
  Proof.
    intros [f bt lat tog] H. unfold si_wf, si_dec, si_enc in *. cbn [s_fsm s_bt s_lat s_tog] in *.
    set (P := 2 ^ bw W) in *. set (Y := bt + P * lat). set (X := b2n tog + 2 * Y).
    assert (HP : P <> 0) by (apply N.pow_nonzero; discriminate).
    assert (E1 : (si_fsm_code f + 4 * X) mod 4 = si_fsm_code f) by (destruct f; cbn [si_fsm_code]; lia).
    assert (E2 : (si_fsm_code f + 4 * X) / 4 = X) by (destruct f; cbn [si_fsm_code]; lia).
    assert (E3 : (si_fsm_code f + 4 * X) / 8 = Y) by (unfold X; destruct f, tog; cbn [si_fsm_code b2n]; lia).
    assert (E4 : N.odd X = tog) by (unfold X; rewrite N.odd_add_mul_2; destruct tog; reflexivity).
    assert (E5 : Y mod P = bt) by (unfold Y; rewrite (N.mul_comm P lat), N.mod_add by exact HP; apply N.mod_small; exact H).
    assert (E6 : Y / P = lat) by (unfold Y; rewrite (N.mul_comm P lat), N.div_add by exact HP; rewrite N.div_small by exact H; reflexivity).
    rewrite E1, E2, E3, E4, E5, E6. destruct f; reflexivity.
  Qed.

  Lemma si_wf_step : forall s i, si_wf s -> si_wf (fst (si_step W big ep s i)).
  Proof.
    intros [f bt lat tog] i H. unfold si_wf, si_step, si_next in *. cbn [fst s_fsm s_bt s_lat s_tog] in *.
    assert (HP : 0 < 2 ^ bw W) by (apply N.neq_0_lt_0, N.pow_nonzero; discriminate).
    destruct f; repeat match goal with |- context [if ?c then _ else _] => destruct c end;
      cbn [s_bt]; try exact H; try exact HP; apply N.mod_lt; lia.
  Qed.

  Lemma si_wf_init : si_wf si_init.
  Proof. unfold si_wf, si_init. cbn [s_bt]. apply N.neq_0_lt_0, N.pow_nonzero. discriminate. Qed.

  (* the environment predicate in the two forms used by the proofs and by Machine.env_ok *)
  Lemma env_all_env_ok : forall tr s, env_all W tr = true ->
    env_ok si_state (si_step W big ep) (fun _ i => si_env W i) s tr = true.
  Proof.
    induction tr as [|i tr IH]; intros s H; [reflexivity|].
    cbn [env_all] in H. apply andb_true_iff in H as [H1 H2]. cbn [env_ok]. rewrite H1. apply IH. exact H2.
  Qed.
End Packing.
