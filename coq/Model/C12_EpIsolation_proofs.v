(* C12 -- proofs about Model/C12_EpIsolation.v *)
From Coq Require Import NArith ZArith List Bool Lia ZifyBool ZifyN.
Import ListNotations.
From LunaLib Require Import Netlist Machine.
From LunaModel Require Import SignalIn SignalIn_proofs C12_EpIsolation.
Open Scope N_scope.
Ltac Zify.zify_post_hook ::= Z.div_mod_to_equations.

(* ---------------------------------------------------------------------------------------------- *)
(* Part 1: the generic non-interference theorem                                                    *)
Section Generic.
  Context {S I O : Type}.
  Variable step : S -> I -> S * O.
  Variable mine : I -> bool.
  Variable quiet : I -> I.
  Variable legal : S -> I -> I -> bool.
  Variable rel : I -> S -> S -> Prop.      (* previous input, state of the mixed run, state of the projected run *)

  Hypothesis rel_step : forall prev s s' i, rel prev s s' -> legal s prev i = true ->
    snd (step s i) = snd (step s' (proj mine quiet i)) /\
    rel i (fst (step s i)) (fst (step s' (proj mine quiet i))).

  Theorem noninterference_from : forall tr prev s s', rel prev s s' -> legal_run step legal s prev tr = true ->
    grun step s tr = grun step s' (map (proj mine quiet) tr).
  Proof.
    induction tr as [|i t IH]; intros prev s s' HR HL; simpl; [reflexivity|].
    simpl in HL. apply andb_true_iff in HL as [H1 H2].
    destruct (rel_step prev s s' i HR H1) as [Ho Hr].
    destruct (step s i) as [s1 o1]. destruct (step s' (proj mine quiet i)) as [s2 o2]. simpl in *.
    subst o2. f_equal. apply (IH i); assumption.
  Qed.
End Generic.

(* ---------------------------------------------------------------------------------------------- *)
(* Part 2: the status IN endpoint                                                                  *)
Section StatusEndpoint.
  Variable W : N.
  Variable big : bool.
  Variable ep : N.

  (* the view-reading machine is SignalIn's machine *)
  Lemma sv_step_view : forall s i, si_step W big ep s i = sv_step W big s (si_view W ep i).
  Proof. intros [[] bt lat tog] i; reflexivity. Qed.

  Lemma grun_view : forall tr s, run (si_step W big ep) s tr = grun (sv_step W big) s (map (si_view W ep) tr).
  Proof.
    induction tr as [|i t IH]; intros s; cbn [run map grun]; [reflexivity|].
    rewrite sv_step_view. unfold sv_step. f_equal. apply IH.
  Qed.

  Lemma st_eq : forall f bt lat tog s, s_fsm s = f -> s_bt s = bt -> s_lat s = lat -> s_tog s = tog ->
    s = {| s_fsm := f; s_bt := bt; s_lat := lat; s_tog := tog |}.
  Proof. intros f bt lat tog [f' bt' lat' tog']; simpl; intros; subst; reflexivity. Qed.

  Lemma c_rel_step : forall prev s s' c, c_rel prev s s' -> c_legal s prev c = true ->
    snd (c_step W big s c) = snd (c_step W big s' (proj c_mine c_quiet c)) /\
    c_rel c (fst (c_step W big s c)) (fst (c_step W big s' (proj c_mine c_quiet c))).
  Proof.
    intros prev s s' [m [sg rq rd tk ak]] HR HL.
    unfold c_legal in HL. cbn [c_mine fst snd v_req v_tok v_ack] in HL.
    apply andb_true_iff in HL as [HL L4]. apply andb_true_iff in HL as [HL L3].
    apply andb_true_iff in HL as [HL L2]. apply andb_true_iff in HL as [L0 L1].
    unfold proj, c_step, sv_step, c_quiet, quietv. cbn [c_mine fst snd v_sig v_rdy].
    destruct HR as [[-> Hinv]|(Hpm & Hf & Hf' & Hbt & Hlat & Htog)].
    - (* equal states *)
      destruct m.
      + (* own cycle: same input *)
        split; [reflexivity|]. left. split; [reflexivity|]. cbn [c_mine fst]. discriminate.
      + (* foreign cycle *)
        cbn [orb negb] in L0. apply negb_true_iff in L0. subst rq.
        destruct s' as [f bt lat tog]. destruct f.
        * (* IDLE *) cbn. split; [reflexivity|]. left. split; [reflexivity|]. intros _. split; discriminate.
        * (* TX: excluded *)
          exfalso. destruct (c_mine prev) eqn:Ep.
          -- cbn in L1. subst tk. cbn in L3. discriminate.
          -- destruct (Hinv eq_refl) as [H _]. apply H. reflexivity.
        * (* WAIT: the foreign transaction starts here *)
          destruct (c_mine prev) eqn:Ep.
          -- cbn in L1. subst tk. cbn in L2. apply negb_true_iff in L2. subst ak.
             cbn. rewrite ?xorb_false_r. split; [reflexivity|]. right. cbn. repeat split; reflexivity.
          -- exfalso. destruct (Hinv eq_refl) as [_ H]. apply H. reflexivity.
        * (* RETX *) cbn. split; [reflexivity|]. left. split; [reflexivity|]. intros _. split; discriminate.
    - (* mixed run already in RETRANSMIT, projected run still waiting *)
      destruct s as [f bt lat tog]. destruct s' as [f' bt' lat' tog']. cbn in Hf, Hf', Hbt, Hlat, Htog. subst f f' bt' lat' tog'.
      destruct m.
      + (* this endpoint's next token *)
        rewrite Hpm in L1. cbn in L1. subst tk. cbn in L2, L4.
        apply negb_true_iff in L2, L4. subst ak rq.
        cbn. rewrite ?xorb_false_r. split; [reflexivity|]. left. split; [reflexivity|]. cbn. discriminate.
      + cbn [orb negb] in L0. apply negb_true_iff in L0. subst rq.
        cbn. rewrite ?xorb_false_r. split; [reflexivity|]. right. cbn. repeat split; reflexivity.
  Qed.

  (* Non-interference, view level: on every legal mixed history the endpoint produces, in every cycle, the outputs it
     produces on the projection of that history. *)
  Theorem status_noninterference : forall tr prev s,
    (c_mine prev = false -> s_fsm s <> S_TX /\ s_fsm s <> S_WAIT) ->
    legal_run (c_step W big) c_legal s prev tr = true ->
    grun (c_step W big) s tr = grun (c_step W big) s (map (proj c_mine c_quiet) tr).
  Proof.
    intros tr prev s Hinv HL.
    apply (noninterference_from (c_step W big) c_mine c_quiet c_legal c_rel c_rel_step tr prev s s); [|exact HL].
    left. split; [reflexivity | exact Hinv].
  Qed.

  Corollary status_noninterference_reset : forall tr prev,
    legal_run (c_step W big) c_legal si_init prev tr = true ->
    grun (c_step W big) si_init tr = grun (c_step W big) si_init (map (proj c_mine c_quiet) tr).
  Proof. intros tr prev H. apply (status_noninterference tr prev); [|exact H]. intros _. split; discriminate. Qed.

  (* the projection really is a history of this endpoint alone: every cycle is its own, and the cycles that replaced
     foreign ones carry no request, token or handshake *)
  Lemma proj_is_alone : forall tr : list cyc, Forall (fun c => c_mine c = true) (map (proj c_mine c_quiet) tr).
  Proof.
    induction tr as [|[m v] t IH]; simpl; constructor; [|exact IH].
    unfold proj. destruct m; reflexivity.
  Qed.

  (* ---- Part 3: the packed "alone on the projection" machine ---- *)
  (* word level: on a legal mixed history of packed input words the endpoint model (SignalIn.si_step) produces the outputs of
     the alone-on-projection machine *)
  Lemma al_env_legal : forall s pe prev i, c_mine prev = (pe =? ep) ->
    al_env W (s, pe) i = true -> c_legal s prev (cyc_of W ep i) = true.
  Proof.
    intros s pe prev i Hp H. unfold al_env in H. cbn [fst snd] in H.
    apply andb_true_iff in H as [H L4]. apply andb_true_iff in H as [H L3]. apply andb_true_iff in H as [L1 L2].
    unfold c_legal, cyc_of, si_view. cbn [c_mine fst snd v_req v_tok v_ack].
    rewrite L2, L3. rewrite !andb_true_r.
    apply andb_true_iff. split; [apply andb_true_iff; split|].
    - unfold si_req. destruct (si_ep W i =? ep); reflexivity.
    - rewrite Hp. apply orb_true_iff in L1 as [L1|L1]; [|rewrite L1; apply orb_true_r].
      apply N.eqb_eq in L1. rewrite L1. rewrite Bool.eqb_reflx. reflexivity.
    - unfold si_req. apply negb_true_iff. apply negb_true_iff in L4.
      destruct (si_newtok W i); [|reflexivity]. cbn in *. rewrite L4. rewrite andb_false_r. reflexivity.
  Qed.

  Theorem alone_machine_noninterference : forall tr s s' pe prev,
    c_rel prev s s' -> c_mine prev = (pe =? ep) ->
    env_ok _ (al_step W big ep) (al_env W) (s', pe) tr = true ->
    (* the alone machine's own state is used for L3; it agrees with the mixed run on "transmitting" *)
    run (si_step W big ep) s tr = run (al_step W big ep) (s', pe) tr.
  Proof.
    induction tr as [|i t IH]; intros s s' pe prev HR Hp HE; [reflexivity|].
    cbn [env_ok] in HE. apply andb_true_iff in HE as [He Ht].
    assert (Htx : in_tx s = in_tx s').
    { destruct HR as [[-> _]|(_ & Hf & Hf' & _)]; [reflexivity|]. unfold in_tx. rewrite Hf, Hf'. reflexivity. }
    assert (HL : c_legal s prev (cyc_of W ep i) = true).
    { apply (al_env_legal s pe); [exact Hp|]. unfold al_env in *. cbn [fst snd] in *. rewrite Htx. exact He. }
    destruct (c_rel_step prev s s' (cyc_of W ep i) HR HL) as [Ho Hr].
    cbn [run]. rewrite sv_step_view. unfold al_step at 1. cbn [fst snd].
    unfold c_step in Ho, Hr. cbn [sv_step fst snd] in Ho, Hr.
    change (snd (cyc_of W ep i)) with (si_view W ep i) in Ho, Hr.
    unfold sv_step. rewrite Ho. f_equal.
    cbn [fst] in Ht. unfold al_step in Ht at 1. cbn [fst snd] in Ht.
    apply (IH _ _ _ (cyc_of W ep i)); [exact Hr | reflexivity | exact Ht].
  Qed.

  Corollary alone_machine_noninterference_reset : forall tr,
    env_ok _ (al_step W big ep) (al_env W) (al_init) tr = true ->
    run (si_step W big ep) si_init tr = run (al_step W big ep) al_init tr.
  Proof.
    intros tr H. apply (alone_machine_noninterference tr si_init si_init 0 (0 =? ep, mkV 0 false false false false)); [| reflexivity | exact H].
    left. split; [reflexivity|]. intros _. split; discriminate.
  Qed.

  (* packing *)
  Lemma al_dec_enc : forall st, al_wf W st -> al_dec W (al_enc W st) = st.
  Proof.
    intros [s pe] [Hs Hp]. unfold al_dec, al_enc. cbn [fst snd] in *.
    replace ((pe + 16 * si_enc W s) / 16) with (si_enc W s) by lia.
    replace ((pe + 16 * si_enc W s) mod 16) with pe by lia.
    rewrite (si_dec_enc W s Hs). reflexivity.
  Qed.

  Lemma bits_lt4 : forall x lo, bits x lo 4 < 16.
  Proof. intros. unfold bits. rewrite N.land_ones. apply N.mod_lt. discriminate. Qed.

  Lemma al_wf_step : forall st i, al_wf W st -> al_wf W (fst (al_step W big ep st i)).
  Proof.
    intros [s pe] i [Hs Hp]. unfold al_wf, al_step. cbn [fst snd] in *. split; [|apply bits_lt4].
    assert (HP : 0 < 2 ^ bw W) by (apply N.neq_0_lt_0, N.pow_nonzero; discriminate).
    destruct s as [f bt lat tog]. unfold sv_next. cbn [s_fsm s_bt s_lat s_tog] in *.
    destruct f; repeat match goal with |- context [if ?c then _ else _] => destruct c end;
      cbn [s_bt]; try exact Hs; try exact HP; apply N.mod_lt; lia.
  Qed.

  Lemma al_wf_init : al_wf W (al_init).
  Proof. unfold al_wf, al_init, si_init. cbn [fst snd s_bt]. split; [apply N.neq_0_lt_0, N.pow_nonzero; discriminate | lia]. Qed.
End StatusEndpoint.

(* ---------------------------------------------------------------------------------------------- *)
(* Part 4: what an accepted self-composition monitor means                                         *)
Section SelfComposition.
  Variable step : N -> N -> N * N.
  Variable projw normw : N -> N.
  Variable legalw : N -> N -> N -> bool.
  Variable auxnext : N -> N -> N.

  Theorem sc_sound : forall tr s aux s2, aux < AUXR ->
    check_trace step (sc_mon step projw normw legalw auxnext) s (aux + AUXR * s2) tr = true ->
    sc_legal_run step legalw auxnext s aux tr = true ->
    map normw (run step s tr) = map normw (run step s2 (map projw tr)).
  Proof.
    induction tr as [|i t IH]; intros s aux s2 Ha HC HL; [reflexivity|].
    cbn [check_trace sc_legal_run run map] in *.
    destruct (step s i) as [s' o] eqn:Es.
    unfold sc_mon in HC.
    assert (E1 : (aux + AUXR * s2) mod AUXR = aux) by (unfold AUXR in *; lia).
    assert (E2 : (aux + AUXR * s2) / AUXR = s2) by (unfold AUXR in *; lia).
    rewrite E1, E2 in HC.
    apply andb_true_iff in HL as [Hl Ht]. rewrite Hl in HC.
    destruct (step s2 (projw i)) as [s2' o2] eqn:Es2.
    apply andb_true_iff in HC as [Ho Hc]. apply N.eqb_eq in Ho.
    cbn [map]. rewrite Ho. f_equal.
    apply (IH s' (auxnext aux i mod AUXR) s2'); [apply N.mod_lt; discriminate | exact Hc | exact Ht].
  Qed.
End SelfComposition.
