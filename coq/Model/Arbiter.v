(* C26 -- hand model and specification of luna/gateware/stream/arbiter.py: StreamArbiter (and its
   subclasses HeaderQueueArbiter / SuperSpeedStreamArbiter, which only fix the stream type and domain).

   Parameters:  n  = number of input streams (add_stream calls), n >= 1
                bw = number of bits one input stream sends forward.  Bit 0 of such a "block" is the
                     stream's `valid`; the remaining bits are first/last/payload/extra fields (or the
                     header of a HeaderQueue).  The arbiter never looks at them, it only copies them.

   One cycle's packed input word:   block of stream 0 | block of stream 1 | ... | source.ready
   (stream k at bits [k*bw, (k+1)*bw), the consumer's ready at bit n*bw).
   One cycle's packed output word:  forwarded block | ready_0 ... ready_(n-1) | idle. *)
From Coq Require Import NArith List Bool.
Import ListNotations.
From LunaLib Require Import Netlist Bits Machine.
Open Scope N_scope.

(* structured view of the outputs of one cycle *)
Record arb_out := { o_src : N;             (* block presented on `source` (valid = bit 0) *)
                    o_ready : list bool;   (* ready passed back to input stream k, k = 0..n-1 *)
                    o_idle : bool }.

Section Arbiter.
  Variable n : nat.
  Variable bw : N.

  (* ---- reading one cycle's input word ---- *)
  Definition sink (i : N) (k : nat) : N := bits i (N.of_nat k * bw) bw.
  Definition svalid (i : N) (k : nat) : bool := N.odd (sink i k).
  Definition src_ready (i : N) : bool := N.testbit i (N.of_nat n * bw).

  Definition pack_out (o : arb_out) : N :=
    N.lor (o_src o)
          (N.lor (N.shiftl (bits2N (o_ready o)) bw) (N.shiftl (b2n (o_idle o)) (bw + N.of_nat n))).

  (* ---- observers on a packed output word ---- *)
  Definition out_src (o : N) : N := bits o 0 bw.
  Definition out_valid (o : N) : bool := N.testbit o 0.
  Definition out_ready (o : N) (k : nat) : bool := N.testbit o (bw + N.of_nat k).
  Definition out_idle (o : N) : bool := N.testbit o (bw + N.of_nat n).

  (* =====================  SPECIFICATION  =====================
     State: the owner = the input stream currently connected to the output (initially stream 0).
       * the output carries the owner's block; only the owner sees the consumer's ready;
       * the owner keeps the output for as long as it holds valid;
       * in a cycle in which the owner is not valid, the lowest-numbered valid stream (if any)
         becomes the owner from the next cycle on;
       * idle <=> no stream is valid. *)
  Definition first_valid (i : N) : option nat := find (svalid i) (seq 0 n).

  Definition sp_next (own : nat) (i : N) : nat :=
    if svalid i own then own
    else match first_valid i with Some k => k | None => own end.

  Definition sp_view (own : nat) (i : N) : arb_out :=
    {| o_src := sink i own;
       o_ready := map (fun k => Nat.eqb k own && src_ready i) (seq 0 n);
       o_idle := negb (existsb (svalid i) (seq 0 n)) |}.

  Definition sp_step (own : nat) (i : N) : nat * N := (sp_next own i, pack_out (sp_view own i)).

  (* structured run of the specification: (owner, input word, outputs) of every cycle *)
  Fixpoint sp_cycles (own : nat) (tr : list N) : list (nat * N * arb_out) :=
    match tr with
    | [] => []
    | i :: t => (own, i, sp_view own i) :: sp_cycles (sp_next own i) t
    end.

  (* Words handed over at the interfaces in one cycle, tagged with the input stream number.
     accepted: what the producers see (their valid and the ready they get back);
     delivered: what the consumer sees (source.valid and its own ready). *)
  Definition accepted (c : nat * N * arb_out) : list (nat * N) :=
    let '(_, i, v) := c in
    flat_map (fun k => if svalid i k && nth k (o_ready v) false then [(k, sink i k)] else []) (seq 0 n).
  Definition delivered (c : nat * N * arb_out) : list (nat * N) :=
    let '(own, i, v) := c in
    if N.odd (o_src v) && src_ready i then [(own, o_src v)] else [].

  (* =====================  MODEL (code-shaped)  =====================
     State: the register active_stream_index (an N; its width is whatever Signal(range(n)) gives). *)

  (* the m.Switch: one Case per stream; if no Case matches nothing is driven (all zero) *)
  Definition arb_src (idx i : N) : N :=
    if idx <? N.of_nat n then sink i (N.to_nat idx) else 0.

  (* "with m.If(~source.valid): for k in reversed(range(n)): with m.If(sinks[k].valid): index <= k"
     -- later assignments win, so the loop is a left fold over the reversed range *)
  Definition arb_next (idx i : N) : N :=
    if N.odd (arb_src idx i) then idx
    else fold_left (fun acc k => if svalid i k then N.of_nat k else acc) (rev (seq 0 n)) idx.

  Definition arb_idle (idx i : N) : bool :=
    if N.odd (arb_src idx i) then false
    else fold_left (fun acc k => if svalid i k then false else acc) (rev (seq 0 n)) true.

  Definition arb_view (idx i : N) : arb_out :=
    {| o_src := arb_src idx i;
       o_ready := map (fun k => N.eqb (N.of_nat k) idx && src_ready i) (seq 0 n);
       o_idle := arb_idle idx i |}.

  Definition arb_step (idx i : N) : N * N := (arb_next idx i, pack_out (arb_view idx i)).
End Arbiter.
