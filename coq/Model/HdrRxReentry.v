(* C38 -- link re-entry always re-advertises sequence number and credits.
   Model and specification are those of Model/HdrRx.v (HeaderPacketReceiver); this file adds what is specific to
   re-entry: the "crash points" (every state the bookkeeping can be in when the link goes down) and the quiet
   re-entry run used to show that the advertisement really is sent. *)
From Coq Require Import NArith List Bool.
Import ListNotations.
From LunaLib Require Import Netlist Machine.
From LunaModel Require Import Crc HdrRx.
Open Scope N_scope.

(* an input cycle with the link up, the physical layer ready and nothing else happening *)
Definition quiet : cin :=
  {| i_en := true; i_rst := false; i_qrdy := false; i_retry_rx := false; i_retry_req := false; i_keep := false;
     i_rej := false; i_srdy := true; i_new := false; i_bad := false; i_badseq := false; i_pkt := 0 |}.
(* the link goes down (enable low) / a USB reset arrives, with arbitrary other inputs *)
Definition link_down (i : cin) : cin :=
  {| i_en := false; i_rst := i_rst i; i_qrdy := i_qrdy i; i_retry_rx := i_retry_rx i; i_retry_req := i_retry_req i;
     i_keep := i_keep i; i_rej := i_rej i; i_srdy := i_srdy i; i_new := i_new i; i_bad := i_bad i;
     i_badseq := i_badseq i; i_pkt := i_pkt i |}.

(* link commands completed during a run *)
Definition commands (ios : list (cin * cout)) : list (N * N) :=
  flat_map (fun io => match completed (fst io) (snd io) with Some c => [c] | None => [] end) ios.

(* what re-entry must produce on the source when nothing else happens: LGOOD (e - 1), then LCRD 0 .. n-1 *)
Definition advertisement (n sw e : N) : list (N * N) :=
  (LGOOD, dec sw e) :: map (fun k => (LCRD, N.of_nat k)) (seq 0 (N.to_nat n)).

(* every dispatcher / generator state, with arbitrary counters: the crash points *)
Definition all_dfsm : list dfsm := [DISPATCH; SEND_ACKS; ISSUE_CREDITS; SEND_LBAD; SEND_LRTY; SEND_KEEPALIVE; SEND_LXU].
Definition all_gfsm : list gfsm := [G_IDLE; G_HDR; G_CMD].

Fixpoint list_eqb_pairs (a b : list (N * N)) : bool :=
  match a, b with
  | [], [] => true
  | (x1, y1) :: a', (x2, y2) :: b' => (x1 =? x2) && (y1 =? y2) && list_eqb_pairs a' b'
  | _, _ => false
  end.

(* ------------------------------------------------------------------------------------------ *)
(* Resilient runtime oracles.  sp_mon / hs_mon stop judging (None) once the partner breaks its credit rules.
   Over long random simulator traces that would leave every later re-entry unchecked, so the runtime oracles
   (tie.cmon only; the R obligations use the strict monitors) SUSPEND instead and re-synchronise at the next cycle
   with the link down: from there the strict monitor runs again from sp_fresh with the expected sequence number the
   implementation shows in that cycle (0 after a USB reset).  Monitor state = 2 * packed state + suspended flag. *)
Definition sp_monR (n sw : N) (down : bool) (W hw : N) (m i o : N) : option (N * bool) :=
  let ci := cin_of hw i in let co := unpack_cout hw o in
  let resync := Some (2 * sp_enc W (sp_fresh n sw (if i_rst ci then 0 else o_exp co)), true) in
  if N.odd m then (if restart ci then resync else Some (m, true))
  else match sp_monN n sw down W (cin_of hw) (unpack_cout hw) (N.div2 m) i o with
       | Some (m', ok) => Some (2 * m', ok)
       | None => if restart ci then resync else Some (1, true)
       end.

Definition hs_monR (n sw : N) (down : bool) (W : N) (m i o : N) : option (N * bool) :=
  let hi := hin_of i in let co := unpack_cout 128 o in
  let st := hs_dec W (N.div2 m) in
  let x' := rsx_step (fst st) (h_sink hi) (o_exp co) in
  let rs := negb (h_en hi) || h_rst hi in
  let resync := Some (2 * hs_enc W (x', sp_fresh n sw (if h_rst hi then 0 else o_exp co)), true) in
  if N.odd m then (if rs then resync else Some (2 * hs_enc W (x', snd st) + 1, true))
  else match hs_monN n sw down W (N.div2 m) i o with
       | Some (m', ok) => Some (2 * m', ok)
       | None => if rs then resync else Some (2 * hs_enc W (x', snd st) + 1, true)
       end.
