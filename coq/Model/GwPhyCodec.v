(* C25 -- specification of the USB full-speed line code used by the gateware PHY
   (luna/gateware/interface/gateware_phy): bytes LSB first, bit stuffing (a 0 after six consecutive 1s,
   the 1 that ends SYNC counting as the first one -- USB 2.0 section 7.1.9), NRZI (0 = transition,
   1 = no transition), SYNC = KJKJKJKK, EOP = SE0 SE0 J.  Definitions only; no LUNA state appears here. *)
From Coq Require Import NArith List Bool.
Import ListNotations.
Open Scope N_scope.

(* line symbols: J, K, SE0, SE1 (full speed: J = D+ high / D- low) *)
Inductive sym := SJ | SK | S0 | S1.

Definition sym_eqb (a b : sym) : bool :=
  match a, b with SJ, SJ | SK, SK | S0, S0 | S1, S1 => true | _, _ => false end.

(* ---- bytes <-> bits (LSB first) ---- *)
Definition byte_bits (b : N) : list bool :=
  [N.testbit b 0; N.testbit b 1; N.testbit b 2; N.testbit b 3;
   N.testbit b 4; N.testbit b 5; N.testbit b 6; N.testbit b 7].

Definition bits_of_bytes (bs : list N) : list bool := flat_map byte_bits bs.

Definition b2N (b : bool) : N := if b then 1 else 0.

Definition byte_of_bits (b0 b1 b2 b3 b4 b5 b6 b7 : bool) : N :=
  b2N b0 + 2 * (b2N b1 + 2 * (b2N b2 + 2 * (b2N b3 + 2 * (b2N b4 + 2 * (b2N b5 + 2 * (b2N b6 + 2 * b2N b7)))))).

(* whole bytes only: None if the number of bits is not a multiple of 8 *)
Fixpoint bytes_of_bits (l : list bool) : option (list N) :=
  match l with
  | [] => Some []
  | b0 :: b1 :: b2 :: b3 :: b4 :: b5 :: b6 :: b7 :: t =>
      option_map (cons (byte_of_bits b0 b1 b2 b3 b4 b5 b6 b7)) (bytes_of_bits t)
  | _ => None
  end.

(* ---- bit stuffing.  n = number of consecutive ones already on the line (0..5) ---- *)
Fixpoint stuff (n : nat) (l : list bool) : list bool :=
  match l with
  | [] => []
  | true :: t => if Nat.eqb n 5 then true :: false :: stuff 0 t else true :: stuff (S n) t
  | false :: t => false :: stuff 0 t
  end.

(* removal.  n = ones seen (0..6); in state 6 the next bit must be the stuffed 0 and is dropped;
   a 1 there is a bit-stuffing violation (None) *)
Fixpoint unstuff (n : nat) (l : list bool) : option (list bool) :=
  match l with
  | [] => Some []
  | b :: t =>
      if Nat.eqb n 6 then (if b then None else unstuff 0 t)
      else option_map (cons b) (unstuff (if b then S n else 0) t)
  end.

(* maximal number of consecutive ones in a bit list that is preceded by n ones *)
Fixpoint max_ones (n : nat) (l : list bool) : nat :=
  match l with
  | [] => n
  | true :: t => max_ones (S n) t
  | false :: t => Nat.max n (max_ones 0 t)
  end.

(* ---- NRZI over J/K ---- *)
Definition flip (s : sym) : sym := match s with SJ => SK | SK => SJ | x => x end.

Fixpoint nrzi (prev : sym) (l : list bool) : list sym :=
  match l with
  | [] => []
  | b :: t => let s := if b then prev else flip prev in s :: nrzi s t
  end.

Fixpoint nrzi_dec (prev : sym) (l : list sym) : list bool :=
  match l with
  | [] => []
  | s :: t => sym_eqb s prev :: nrzi_dec s t
  end.

(* ---- framing ---- *)
Definition sync_bits : list bool := [false; false; false; false; false; false; false; true].
Definition eop : list sym := [S0; S0; SJ].

(* the bits between idle and EOP, and the complete packet as line symbols (one symbol per bit time) *)
Definition frame_bits (bs : list N) : list bool := sync_bits ++ stuff 1 (bits_of_bytes bs).
Definition frame (bs : list N) : list sym := nrzi SJ (frame_bits bs) ++ eop.

(* what LUNA's transmitter emits: its stuffer starts counting at the first payload bit.  Equal to
   `frame` whenever the first byte does not start with five 1s (every USB PID qualifies). *)
Definition frame_bits0 (bs : list N) : list bool := sync_bits ++ stuff 0 (bits_of_bytes bs).
Definition frame0 (bs : list N) : list sym := nrzi SJ (frame_bits0 bs) ++ eop.
Definition first_ok (bs : list N) : Prop :=
  match bs with [] => True | b :: _ => N.land b 31 <> 31 end.

(* declarative decoder of one complete packet: J/K symbols up to the first non-J/K symbol, which must start
   the EOP; NRZI-decode against the idle J; require SYNC; unstuff (SYNC's 1 counted); regroup into bytes *)
Fixpoint jk_prefix (l : list sym) : list sym * list sym :=
  match l with
  | SJ :: t => let (a, r) := jk_prefix t in (SJ :: a, r)
  | SK :: t => let (a, r) := jk_prefix t in (SK :: a, r)
  | _ => ([], l)
  end.

Fixpoint bits_eqb (a b : list bool) : bool :=
  match a, b with
  | [], [] => true
  | x :: a', y :: b' => Bool.eqb x y && bits_eqb a' b'
  | _, _ => false
  end.

Inductive rx_result := RxBytes (bs : list N) | RxStuffError | RxMalformed.

Definition unframe (l : list sym) : rx_result :=
  let (body, rest) := jk_prefix l in
  match rest with
  | S0 :: S0 :: SJ :: [] =>
      let bits := nrzi_dec SJ body in
      if bits_eqb (firstn 8 bits) sync_bits then
        match unstuff 1 (skipn 8 bits) with
        | Some d => match bytes_of_bits d with Some bs => RxBytes bs | None => RxMalformed end
        | None => RxStuffError
        end
      else RxMalformed
  | _ => RxMalformed
  end.
