(* C25 -- proofs about the pure line-code specification in GwPhyCodec.v: the byte/bit, stuffing, NRZI and
   framing layers each round-trip, the stuffer never emits seven ones, the unstuffer rejects exactly the
   streams that contain seven ones, and LUNA's "start counting at the payload" stuffer agrees with the
   USB one whenever the first byte does not begin with five ones. *)
From Coq Require Import NArith List Bool Lia Arith.
Import ListNotations.
From LunaLib Require Import Machine.
From LunaModel Require Import GwPhyCodec.
Open Scope N_scope.

(* ------------------------------------------------------------------------------------------ *)
(* bytes <-> bits                                                                              *)

Lemma byte_of_bits_byte_bits : forall b, b < 256 ->
  byte_of_bits (N.testbit b 0) (N.testbit b 1) (N.testbit b 2) (N.testbit b 3)
               (N.testbit b 4) (N.testbit b 5) (N.testbit b 6) (N.testbit b 7) = b.
Proof.
  intros b Hb.
  assert (Hall : forall_bits 8 (fun b =>
            byte_of_bits (N.testbit b 0) (N.testbit b 1) (N.testbit b 2) (N.testbit b 3)
                         (N.testbit b 4) (N.testbit b 5) (N.testbit b 6) (N.testbit b 7) =? b) = true)
    by (vm_compute; reflexivity).
  apply N.eqb_eq.
  apply (forall_bits_sound 8 _ Hall b).
  change (2 ^ N.of_nat 8) with 256. exact Hb.
Qed.

Lemma bits_of_bytes_cons : forall b bs, bits_of_bytes (b :: bs) = byte_bits b ++ bits_of_bytes bs.
Proof. reflexivity. Qed.

Theorem bytes_of_bits_of_bytes : forall bs, Forall (fun b => b < 256) bs ->
  bytes_of_bits (bits_of_bytes bs) = Some bs.
Proof.
  induction 1 as [|b bs Hb _ IH].
  - reflexivity.
  - rewrite bits_of_bytes_cons. unfold byte_bits.
    cbn [app bytes_of_bits]. rewrite IH. cbn [option_map].
    rewrite (byte_of_bits_byte_bits b Hb). reflexivity.
Qed.

(* ------------------------------------------------------------------------------------------ *)
(* bit stuffing                                                                                *)

Theorem unstuff_stuff : forall l n, (n <= 5)%nat -> unstuff n (stuff n l) = Some l.
Proof.
  induction l as [|b t IH]; intros n Hn.
  - reflexivity.
  - destruct b.
    + cbn [stuff]. destruct (Nat.eqb n 5) eqn:E.
      * apply Nat.eqb_eq in E. subst n.
        cbn [unstuff Nat.eqb]. rewrite (IH 0%nat) by lia. reflexivity.
      * apply Nat.eqb_neq in E.
        cbn [unstuff]. destruct (Nat.eqb n 6) eqn:E6.
        { apply Nat.eqb_eq in E6. lia. }
        rewrite (IH (S n)) by lia. reflexivity.
    + cbn [stuff unstuff]. destruct (Nat.eqb n 6) eqn:E6.
      { apply Nat.eqb_eq in E6. lia. }
      rewrite (IH 0%nat) by lia. reflexivity.
Qed.

Theorem stuff_max_ones : forall l n, (n <= 5)%nat -> (max_ones n (stuff n l) <= 6)%nat.
Proof.
  induction l as [|b t IH]; intros n Hn.
  - cbn [stuff max_ones]. lia.
  - destruct b.
    + cbn [stuff]. destruct (Nat.eqb n 5) eqn:E.
      * apply Nat.eqb_eq in E. subst n. cbn [max_ones].
        specialize (IH 0%nat). lia.
      * apply Nat.eqb_neq in E. cbn [max_ones]. apply IH. lia.
    + cbn [stuff max_ones]. specialize (IH 0%nat). lia.
Qed.

Lemma max_ones_ge : forall l n, (n <= max_ones n l)%nat.
Proof.
  induction l as [|b t IH]; intros n; cbn [max_ones].
  - lia.
  - destruct b.
    + specialize (IH (S n)). lia.
    + lia.
Qed.

Lemma option_map_none : forall (A B : Type) (f : A -> B) o, option_map f o = None <-> o = None.
Proof. intros A B f [x|]; cbn; split; intro H; try discriminate; reflexivity. Qed.

Theorem unstuff_none_iff : forall l n, (n <= 6)%nat ->
  (unstuff n l = None <-> (7 <= max_ones n l)%nat).
Proof.
  induction l as [|b t IH]; intros n Hn.
  - cbn [unstuff max_ones]. split; [discriminate | lia].
  - cbn [unstuff]. destruct (Nat.eqb n 6) eqn:E6.
    + apply Nat.eqb_eq in E6. subst n. destruct b; cbn [max_ones].
      * split; [intros _ | reflexivity].
        pose proof (max_ones_ge t 7). lia.
      * rewrite (IH 0%nat) by lia. lia.
    + apply Nat.eqb_neq in E6. rewrite option_map_none.
      destruct b; cbn [max_ones].
      * apply IH. lia.
      * rewrite (IH 0%nat) by lia. lia.
Qed.

Lemma stuff_length_ge : forall l n, (length l <= length (stuff n l))%nat.
Proof.
  induction l as [|b t IH]; intros n.
  - cbn. lia.
  - destruct b; cbn [stuff].
    + destruct (Nat.eqb n 5); cbn [length].
      * specialize (IH 0%nat). lia.
      * specialize (IH (S n)). lia.
    + cbn [length]. specialize (IH 0%nat). lia.
Qed.

(* ------------------------------------------------------------------------------------------ *)
(* NRZI                                                                                        *)

Lemma nrzi_length : forall l p, length (nrzi p l) = length l.
Proof.
  induction l as [|b t IH]; intros p; cbn [nrzi length].
  - reflexivity.
  - rewrite IH. reflexivity.
Qed.

Lemma nrzi_dec_nrzi : forall l p, p = SJ \/ p = SK -> nrzi_dec p (nrzi p l) = l.
Proof.
  induction l as [|b t IH]; intros p Hp.
  - reflexivity.
  - cbn [nrzi nrzi_dec].
    destruct Hp; subst p; destruct b; cbn [flip sym_eqb]; rewrite IH; auto.
Qed.

Lemma jk_prefix_nrzi : forall l p r, p = SJ \/ p = SK ->
  jk_prefix (nrzi p l ++ S0 :: r) = (nrzi p l, S0 :: r).
Proof.
  induction l as [|b t IH]; intros p r Hp.
  - reflexivity.
  - cbn [nrzi app].
    destruct Hp; subst p; destruct b; cbn [flip jk_prefix]; rewrite IH; auto.
Qed.

(* ------------------------------------------------------------------------------------------ *)
(* framing                                                                                     *)

(* unframe on anything of the shape  NRZI(SYNC ++ payload bits) ++ EOP  *)
Lemma unframe_shape : forall l,
  unframe (nrzi SJ (sync_bits ++ l) ++ eop) =
  match unstuff 1 l with
  | Some d => match bytes_of_bits d with Some bs => RxBytes bs | None => RxMalformed end
  | None => RxStuffError
  end.
Proof.
  intros l. unfold unframe, eop.
  rewrite jk_prefix_nrzi by auto.
  rewrite nrzi_dec_nrzi by auto.
  reflexivity.
Qed.

Theorem unframe_frame : forall bs, Forall (fun b => b < 256) bs -> unframe (frame bs) = RxBytes bs.
Proof.
  intros bs H. unfold frame, frame_bits.
  rewrite unframe_shape.
  rewrite unstuff_stuff by lia.
  rewrite bytes_of_bits_of_bytes by exact H.
  reflexivity.
Qed.

Theorem unframe_violation : forall l, (7 <= max_ones 1 l)%nat ->
  unframe (nrzi SJ (sync_bits ++ l) ++ eop) = RxStuffError.
Proof.
  intros l H. rewrite unframe_shape.
  apply unstuff_none_iff in H; [|lia].
  rewrite H. reflexivity.
Qed.

Lemma frame_length : forall bs,
  length (frame bs) = (8 + length (stuff 1 (bits_of_bytes bs)) + 3)%nat.
Proof.
  intros bs. unfold frame, frame_bits.
  rewrite app_length, nrzi_length, app_length. reflexivity.
Qed.

(* ------------------------------------------------------------------------------------------ *)
(* LUNA's stuffer start state                                                                  *)

Lemma land31_all_ones : forall b,
  N.testbit b 0 = true -> N.testbit b 1 = true -> N.testbit b 2 = true ->
  N.testbit b 3 = true -> N.testbit b 4 = true -> N.land b 31 = 31.
Proof.
  intros b H0 H1 H2 H3 H4.
  change 31 with (N.ones 5) at 1. rewrite N.land_ones. change (2 ^ 5) with 32.
  assert (Hc : b mod 32 < 32) by (apply N.mod_lt; lia).
  assert (L : forall i, i < 5 -> N.testbit (b mod 32) i = N.testbit b i)
    by (intros i Hi; change 32 with (2 ^ 5); apply N.mod_pow2_bits_low; exact Hi).
  rewrite <- (L 0) in H0 by lia. rewrite <- (L 1) in H1 by lia. rewrite <- (L 2) in H2 by lia.
  rewrite <- (L 3) in H3 by lia. rewrite <- (L 4) in H4 by lia.
  clear L. set (c := b mod 32) in *. clearbody c.
  assert (Hall : forall_bits 5 (fun c =>
            negb (N.testbit c 0 && N.testbit c 1 && N.testbit c 2 && N.testbit c 3 && N.testbit c 4)
            || (c =? 31)) = true) by (vm_compute; reflexivity).
  pose proof (forall_bits_sound 5 _ Hall c) as P. cbv beta in P.
  rewrite H0, H1, H2, H3, H4 in P. cbn [andb negb orb] in P.
  apply N.eqb_eq. apply P. change (2 ^ N.of_nat 5) with 32. exact Hc.
Qed.

Theorem stuff_first_ok : forall bs, first_ok bs ->
  stuff 0 (bits_of_bytes bs) = stuff 1 (bits_of_bytes bs).
Proof.
  intros [|b bs] H.
  - reflexivity.
  - cbn [first_ok] in H. rewrite bits_of_bytes_cons. unfold byte_bits. cbn [app].
    pose proof (land31_all_ones b) as P.
    destruct (N.testbit b 0); [|reflexivity].
    destruct (N.testbit b 1); [|reflexivity].
    destruct (N.testbit b 2); [|reflexivity].
    destruct (N.testbit b 3); [|reflexivity].
    destruct (N.testbit b 4); [|reflexivity].
    exfalso. apply H. apply P; reflexivity.
Qed.

Corollary frame0_frame : forall bs, first_ok bs -> frame0 bs = frame bs.
Proof.
  intros bs H. unfold frame0, frame, frame_bits0, frame_bits.
  rewrite (stuff_first_ok bs H). reflexivity.
Qed.

(* ------------------------------------------------------------------------------------------ *)
(* non-vacuity                                                                                 *)

Example unframe_ex : unframe (frame [195; 0; 255; 255; 18]) = RxBytes [195; 0; 255; 255; 18].
Proof. vm_compute. reflexivity. Qed.

Example frame0_differs : frame0 [255] <> frame [255].
Proof. vm_compute. intro H. discriminate H. Qed.

(* 0xC3 = 1,1,0,0,0,0,1,1 LSB first; with SYNC's 1 the run is 3 long.  Then 0xFF: with the two trailing
   ones of 0xC3 the sixth one is the fourth bit of 0xFF, after which a 0 (a transition) is inserted. *)
Example frame_ex : frame [195; 255] =
  [SK; SJ; SK; SJ; SK; SJ; SK; SK;
   SK; SK; SJ; SK; SJ; SK; SK; SK;
   SK; SK; SK; SK; SJ; SJ; SJ; SJ; SJ;
   S0; S0; SJ].
Proof. vm_compute. reflexivity. Qed.
