From Coq Require Import NArith ZArith List Bool Lia ZifyBool ZifyN.
Import ListNotations.
From LunaLib Require Import Netlist Machine.
From LunaModel Require Import FrameTrack.
Open Scope N_scope.
Ltac Zify.zify_post_hook ::= Z.div_mod_to_equations.

Lemma ft_run_nth : forall (S : Type) (step : S -> N -> S * N) tr s t d, (t < length tr)%nat ->
  nth t (run step s tr) d = snd (step (run_state step s (firstn t tr)) (nth t tr 0)).
Proof.
  induction tr as [|i tr IH]; intros s t d Ht; simpl in Ht; [lia|].
  destruct t as [|t]; simpl.
  - destruct (step s i); reflexivity.
  - destruct (step s i) as [s' o] eqn:E. simpl. rewrite IH by lia. reflexivity.
Qed.

Section Proofs.
  Variables fw mw : N.

  (* a cycle without SOF leaves the registers alone; a cycle with SOF applies sof_update *)
  Lemma ft_next_update : forall st i,
    ft_next mw st (ft_sof i) (ft_frame fw i)
    = if ft_sof i then sof_update mw st (ft_frame fw i) else st.
  Proof.
    intros st i. unfold ft_next, sof_update. destruct (ft_sof i); [|reflexivity].
    destruct (ft_frame fw i =? fst st); reflexivity.
  Qed.

  (* the registers after any history are the specification's fold over the SOFs of that history *)
  Lemma ft_state_spec : forall h,
    run_state (ft_step fw mw) ft_init h = frames_after mw (sofs_of fw h).
  Proof.
    induction h as [|i h IH] using rev_ind; [reflexivity|].
    rewrite run_state_app. cbn [run_state ft_step fst]. rewrite IH, ft_next_update.
    unfold sofs_of, frames_after. rewrite filter_app. cbn [filter].
    destruct (ft_sof i).
    - rewrite map_app, fold_left_app. reflexivity.
    - rewrite app_nil_r. reflexivity.
  Qed.

  Theorem frametrack_exact : forall tr t, (t < length tr)%nat ->
    nth t (run (ft_step fw mw) ft_init tr) 0 = ft_spec_out fw mw (firstn t tr) (nth t tr 0).
  Proof.
    intros tr t Ht. rewrite ft_run_nth by exact Ht. rewrite ft_state_spec. reflexivity.
  Qed.

  (* reading the specification *)
  Lemma frames_after_snoc : forall sofs f,
    frames_after mw (sofs ++ [f]) = sof_update mw (frames_after mw sofs) f.
  Proof. intros. unfold frames_after. rewrite fold_left_app. reflexivity. Qed.

  (* after each SOF the reported frame number is that SOF's number *)
  Lemma frame_is_last_sof : forall sofs, fst (frames_after mw sofs) = last sofs 0.
  Proof.
    induction sofs as [|f sofs IH] using rev_ind; [reflexivity|].
    rewrite frames_after_snoc, last_last. reflexivity.
  Qed.

  (* the microframe number restarts on a change of frame number and counts repeats modulo 2^mw *)
  Lemma microframe_recurrence : forall sofs f,
    snd (frames_after mw (sofs ++ [f]))
    = if f =? fst (frames_after mw sofs) then (snd (frames_after mw sofs) + 1) mod 2 ^ mw else 0.
  Proof. intros. rewrite frames_after_snoc. reflexivity. Qed.

  Lemma microframe_bound : forall sofs, snd (frames_after mw sofs) < 2 ^ mw.
  Proof.
    assert (P : 0 < 2 ^ mw) by (apply N.neq_0_lt_0, N.pow_nonzero; discriminate).
    induction sofs as [|f sofs IH] using rev_ind; [exact P|].
    rewrite microframe_recurrence. destruct (f =? fst (frames_after mw sofs)); [|exact P].
    apply N.mod_lt. lia.
  Qed.

  (* packing *)
  Definition ft_wf (st : N * N) : Prop := fst st < 2 ^ fw.
  Lemma ft_dec_enc : forall st, ft_wf st -> ft_dec fw (ft_enc fw st) = st.
  Proof.
    intros [fn mf] H. unfold ft_wf, ft_dec, ft_enc in *. cbn [fst snd] in *.
    assert (P : 2 ^ fw <> 0) by (apply N.pow_nonzero; discriminate).
    rewrite (N.mul_comm (2 ^ fw) mf), N.mod_add, N.div_add by exact P.
    rewrite N.mod_small, N.div_small by exact H. reflexivity.
  Qed.
  Lemma ft_frame_lt : forall i, ft_frame fw i < 2 ^ fw.
  Proof. intro i. unfold ft_frame, bits. rewrite N.land_ones. apply N.mod_lt. apply N.pow_nonzero. discriminate. Qed.
  Lemma ft_wf_step : forall st i, ft_wf st -> ft_wf (fst (ft_step fw mw st i)).
  Proof.
    intros st i H. unfold ft_wf, ft_step, ft_next in *. cbn [fst].
    destruct (ft_sof i); cbn [fst]; [apply ft_frame_lt | exact H].
  Qed.
  Lemma ft_wf_init : ft_wf ft_init.
  Proof. unfold ft_wf, ft_init. cbn [fst]. apply N.neq_0_lt_0, N.pow_nonzero. discriminate. Qed.
End Proofs.
