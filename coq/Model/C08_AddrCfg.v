(* C08 -- address / configuration registers change only when SET_ADDRESS / SET_CONFIGURATION completes.

   Interface-event level (DESIGN.md section 3, "Composite properties").  One list element = one cycle of
   the usb domain; an event `ev` carries the strobes and fields that cross LUNA's own interfaces in that cycle:

     e_recv, e_type, e_req, e_value   SetupPacket.received / .type / .request / .value   (USBSetupDecoder)
     e_tok                            TokenDetectorInterface.new_token (a token addressed to this device,
                                      for ANY endpoint, has just been received)
     e_status                         RequestHandlerInterface.status_requested (the control endpoint asks the
                                      request handler to answer the status stage NOW)
     e_ack                            HandshakeExchangeInterface.ack of handshakes_in (the handshake detector
                                      saw an ACK on the bus; it is broadcast to every endpoint)
     e_reset                          USBResetSequencer.bus_reset

   Code modelled (behaviour that satisfies the property; see findings/C08-ack-any-endpoint.diff):
     luna/gateware/usb/request/control.py   ControlRequestHandler.handle_register_write_request
     luna/gateware/usb/request/standard.py  StandardRequestHandler FSM (dispatch on every setup.received,
                                            states other than SET_ADDRESS / SET_CONFIGURATION merged)
     luna/gateware/usb/usb2/request.py      USBRequestHandlerMultiplexer (claim = standard type)
     luna/gateware/usb/usb2/endpoint.py     USBEndpointMultiplexer (address_changed / config_changed priority mux)
     luna/gateware/usb/usb2/device.py       address / configuration registers, bus-reset clear

   Definitions only (proofs: C08_AddrCfg_proofs.v). *)
From Coq Require Import NArith List Bool.
Import ListNotations.
From LunaLib Require Import Netlist Machine.
Open Scope N_scope.

Record ev := mkEv {
  e_recv : bool; e_type : N; e_req : N; e_value : N;
  e_tok : bool; e_status : bool; e_ack : bool; e_reset : bool }.

Definition REQ_SET_ADDRESS : N := 5.
Definition REQ_SET_CONFIGURATION : N := 9.
Definition TYPE_STANDARD : N := 0.

(* ------------------------------------------------------------------------------------------------ *)
(* Specification: a four-field reference machine.                                                    *)
(*   sp_pend   the SET_ADDRESS (true) / SET_CONFIGURATION (false) request received by the most recent
               setup packet, with the wValue it carried, if that request has not completed yet;
     sp_armed  its status stage has been answered and no token has arrived since: the next ACK on the
               bus is the host's handshake for that status stage;
     sp_addr, sp_cfg  the registers.                                                                  *)
Record spec_state := mkSpec { sp_pend : option (bool * N); sp_armed : bool; sp_addr : N; sp_cfg : N }.

Definition sp_init : spec_state := mkSpec None false 0 0.

Definition classify (e : ev) : option (bool * N) :=
  if e_type e =? TYPE_STANDARD then
    if e_req e =? REQ_SET_ADDRESS then Some (true, e_value e)
    else if e_req e =? REQ_SET_CONFIGURATION then Some (false, e_value e)
    else None
  else None.

(* the ACK of this cycle completes the pending request *)
Definition sp_commit (s : spec_state) (e : ev) : option (bool * N) :=
  if e_ack e && sp_armed s && negb (e_recv e) then sp_pend s else None.

Definition sp_next (s : spec_state) (e : ev) : spec_state :=
  let c := sp_commit s e in
  let pend := if e_recv e then classify e else match c with Some _ => None | None => sp_pend s end in
  let armed :=
    if e_recv e then false
    else match c with
         | Some _ => false
         | None => match sp_pend s with
                   | None => false
                   | Some _ => if e_status e then true else if e_tok e then false else sp_armed s
                   end
         end in
  let addr := if e_reset e then 0
              else match c with Some (true, v) => v mod 128 | _ => sp_addr s end in
  let cfg := if e_reset e then 0
             else match c with Some (false, v) => v mod 256 | _ => sp_cfg s end in
  mkSpec pend armed addr cfg.

(* observable: the two registers (as seen by the token detector / the endpoints during this cycle) *)
Definition regs_out (addr cfg : N) : N := addr + 128 * cfg.
Definition sp_out (s : spec_state) : N := regs_out (sp_addr s) (sp_cfg s).
Definition sp_step (s : spec_state) (e : ev) : spec_state * N := (sp_next s e, sp_out s).

Fixpoint sp_run_state (s : spec_state) (tr : list ev) : spec_state :=
  match tr with [] => s | e :: t => sp_run_state (sp_next s e) t end.

(* ------------------------------------------------------------------------------------------------ *)
(* Code-shaped model, part 1: the request handler (standard.py + control.py).                        *)
Inductive hfsm := H_OTHER | H_SET_ADDRESS | H_SET_CONFIGURATION.
(* one `expecting_ack` register per call of handle_register_write_request *)
Record hstate := mkH { h_fsm : hfsm; h_ea_addr : bool; h_ea_cfg : bool }.
Definition h_init : hstate := mkH H_OTHER false false.

Definition dispatch (req : N) : hfsm :=
  if req =? REQ_SET_ADDRESS then H_SET_ADDRESS
  else if req =? REQ_SET_CONFIGURATION then H_SET_CONFIGURATION else H_OTHER.

(* outputs of the handler: (write strobe for the address, for the configuration); the new value is
   setup.value, truncated by the width of the receiving signal *)
Definition regwrite (ea : bool) (e : ev) : bool := e_ack e && ea && negb (e_recv e).

(* the expecting_ack register of one register-write state, while the FSM is in that state:
   statements in program order, later ones win *)
Definition ea_next (ea : bool) (e : ev) : bool :=
  let a1 := if e_tok e then false else ea in
  let a2 := if e_status e then true else a1 in
  let a3 := if regwrite ea e then false else a2 in
  if e_recv e then false else a3.

Definition h_next (h : hstate) (e : ev) : hstate :=
  (* the whole FSM sits under `with m.If(setup.type == USBRequestType.STANDARD)` *)
  if e_type e =? TYPE_STANDARD then
    match h_fsm h with
    | H_OTHER => mkH (if e_recv e then dispatch (e_req e) else H_OTHER) (h_ea_addr h) (h_ea_cfg h)
    | H_SET_ADDRESS =>
        mkH (if e_recv e then dispatch (e_req e) else if regwrite (h_ea_addr h) e then H_OTHER else H_SET_ADDRESS)
            (ea_next (h_ea_addr h) e) (h_ea_cfg h)
    | H_SET_CONFIGURATION =>
        mkH (if e_recv e then dispatch (e_req e) else if regwrite (h_ea_cfg h) e then H_OTHER else H_SET_CONFIGURATION)
            (h_ea_addr h) (ea_next (h_ea_cfg h) e)
    end
  else h.

Definition h_addr_changed (h : hstate) (e : ev) : bool :=
  (e_type e =? TYPE_STANDARD) && match h_fsm h with H_SET_ADDRESS => regwrite (h_ea_addr h) e | _ => false end.
Definition h_cfg_changed (h : hstate) (e : ev) : bool :=
  (e_type e =? TYPE_STANDARD) && match h_fsm h with H_SET_CONFIGURATION => regwrite (h_ea_cfg h) e | _ => false end.
Definition h_new_addr (h : hstate) (e : ev) : N := if h_addr_changed h e then e_value e mod 128 else 0.
Definition h_new_cfg (h : hstate) (e : ev) : N := if h_cfg_changed h e then e_value e mod 256 else 0.

(* part 2: the device registers (device.py): the bus-reset block comes last and wins *)
Definition reg_next (r : N) (changed : bool) (nv : N) (reset : bool) : N :=
  if reset then 0 else if changed then nv else r.

(* composite *)
Record mstate := mkM { m_h : hstate; m_addr : N; m_cfg : N }.
Definition m_init : mstate := mkM h_init 0 0.
Definition m_next (m : mstate) (e : ev) : mstate :=
  mkM (h_next (m_h m) e)
      (reg_next (m_addr m) (h_addr_changed (m_h m) e) (h_new_addr (m_h m) e) (e_reset e))
      (reg_next (m_cfg m) (h_cfg_changed (m_h m) e) (h_new_cfg (m_h m) e) (e_reset e)).
Definition m_out (m : mstate) : N := regs_out (m_addr m) (m_cfg m).
Definition m_step (m : mstate) (e : ev) : mstate * N := (m_next m e, m_out m).

Fixpoint m_run_state (m : mstate) (tr : list ev) : mstate :=
  match tr with [] => m | e :: t => m_run_state (m_next m e) t end.

Fixpoint ev_run {S : Type} (step : S -> ev -> S * N) (s : S) (tr : list ev) : list N :=
  match tr with [] => [] | e :: t => let (s', o) := step s e in o :: ev_run step s' t end.

(* Environment guarantee of the setup decoder (request.py: the packet fields are assigned in the same
   statement block as `received`): between two `received` strobes the fields do not change. *)
Definition same_fields (a b : ev) : bool :=
  (e_type a =? e_type b) && (e_req a =? e_req b) && (e_value a =? e_value b).
Fixpoint setup_stable (prev : ev) (tr : list ev) : bool :=
  match tr with
  | [] => true
  | e :: t => (e_recv e || same_fields prev e) && setup_stable e t
  end.
(* power-on contents of the decoder's registers *)
Definition ev0 : ev := mkEv false 0 0 0 false false false false.

(* ------------------------------------------------------------------------------------------------ *)
(* Packed interfaces for the tie obligations.                                                        *)

(* handler target (StandardRequestHandler): input word
     s_recv[0] s_type[1..2] s_req[3..10] s_value[11..26] new_token[27] status_req[28] ack[29]
     (higher bits: inputs the handler's other states read -- data_requested, setup.length, setup.recipient,
      tx.ready -- which must not influence the outputs) *)
Definition nb (x : N) : bool := negb (x =? 0).
Definition ev_of_hin (i : N) : ev :=
  mkEv (nb (bits i 0 1)) (bits i 1 2) (bits i 3 8) (bits i 11 16)
       (nb (bits i 27 1)) (nb (bits i 28 1)) (nb (bits i 29 1)) false.
(* output word: address_changed[0] new_address[1..7] config_changed[8] new_config[9..16] *)
Definition h_outw (h : hstate) (e : ev) : N :=
  b2n (h_addr_changed h e) + 2 * h_new_addr h e + 256 * b2n (h_cfg_changed h e) + 512 * h_new_cfg h e.
Definition hd_step (h : hstate) (i : N) : hstate * N := let e := ev_of_hin i in (h_next h e, h_outw h e).

Definition h_enc (h : hstate) : N :=
  (match h_fsm h with H_OTHER => 0 | H_SET_ADDRESS => 1 | H_SET_CONFIGURATION => 2 end)
  + 4 * b2n (h_ea_addr h) + 8 * b2n (h_ea_cfg h).
Definition h_dec (n : N) : hstate :=
  mkH (match n mod 4 with 0 => H_OTHER | 1 => H_SET_ADDRESS | _ => H_SET_CONFIGURATION end)
      (nb (bits n 2 1)) (nb (bits n 3 1)).

(* register target (USBDevice with two stub endpoints A, B in this order and a stub reset sequencer): input word
     a_address_changed[0] a_new_address[1..7] a_config_changed[8] a_new_config[9..16]
     b_address_changed[17] b_new_address[18..24] b_config_changed[25] b_new_config[26..33] bus_reset[34]
   the endpoint multiplexer gives priority to the endpoint added first *)
Definition rg_step (r : N * N) (i : N) : (N * N) * N :=
  let a_ac := nb (bits i 0 1) in let a_na := bits i 1 7 in let a_cc := nb (bits i 8 1) in let a_nc := bits i 9 8 in
  let b_ac := nb (bits i 17 1) in let b_na := bits i 18 7 in let b_cc := nb (bits i 25 1) in let b_nc := bits i 26 8 in
  let rst := nb (bits i 34 1) in
  let ac := a_ac || b_ac in let na := if a_ac then a_na else if b_ac then b_na else 0 in
  let cc := a_cc || b_cc in let nc := if a_cc then a_nc else if b_cc then b_nc else 0 in
  ((reg_next (fst r) ac na rst, reg_next (snd r) cc nc rst), regs_out (fst r) (snd r)).
Definition rg_enc (r : N * N) : N := fst r + 128 * snd r.
Definition rg_dec (n : N) : N * N := (n mod 128, n / 128).
Definition rg_wf (r : N * N) : Prop := fst r < 128 /\ snd r < 256.

(* complete device, observed through exported interface signals: the monitor reads the events of a cycle
   from the implementation's OUTPUT word
     active_address[0..6] active_config[7..14] s_recv[15] s_type[16..17] s_req[18..25] s_value[26..41]
     new_token[42] status_req[43] ack[44] bus_reset[45] tx_valid[46] tx_data[47..54] tokenizer.endpoint[55..58]
   and compares the registers with the prediction of the model (dev_mon) / of the specification (dev_spec_mon). *)
(* `the status stage has been answered` = status_requested while the token being answered is addressed to the control endpoint
   (tokenizer.endpoint[55..58] = 0): the status stage is a transaction on endpoint 0; a status_requested strobe raised for another
   endpoint's token is not one (and a commit that follows it is a violation) *)
Definition ev_of_dout (o : N) : ev :=
  mkEv (nb (bits o 15 1)) (bits o 16 2) (bits o 18 8) (bits o 26 16)
       (nb (bits o 42 1)) (nb (bits o 43 1) && (bits o 55 4 =? 0)) (nb (bits o 44 1)) (nb (bits o 45 1)).
Definition m_enc (m : mstate) : N := h_enc (m_h m) + 16 * (m_addr m + 128 * m_cfg m).
Definition m_dec (n : N) : mstate := mkM (h_dec (n mod 16)) ((n / 16) mod 128) (n / 2048).
Definition dev_mon (ms : N) (i o : N) : option (N * bool) :=
  let m := m_dec ms in
  Some (m_enc (m_next m (ev_of_dout o)), bits o 0 15 =? m_out m).

(* the specification as a runtime monitor: state = (previous event's setup fields, spec state) packed;
   None (environment assumption broken) if the setup fields change without `received` *)
Definition sp_enc (s : spec_state) : N :=
  (match sp_pend s with None => 0 | Some (true, v) => 1 + 4 * v | Some (false, v) => 2 + 4 * v end)
  + 262144 * (b2n (sp_armed s) + 2 * (sp_addr s + 128 * sp_cfg s)).
Definition sp_dec (n : N) : spec_state :=
  let p := n mod 262144 in let r := n / 262144 in
  mkSpec (match p mod 4 with 0 => None | 1 => Some (true, p / 4) | _ => Some (false, p / 4) end)
         (nb (r mod 2)) ((r / 2) mod 128) (r / 256).
Definition fields_w (e : ev) : N := e_type e + 4 * e_req e + 1024 * e_value e.   (* 26 bits *)
Definition dev_spec_mon (ms : N) (i o : N) : option (N * bool) :=
  let e := ev_of_dout o in
  let prevf := ms mod 67108864 in
  let s := sp_dec (ms / 67108864) in
  if e_recv e || (fields_w e =? prevf) then
    Some (fields_w e + 67108864 * sp_enc (sp_next s e), bits o 0 15 =? sp_out s)
  else None.
Definition dev_spec_m0 : N := 67108864 * sp_enc sp_init.

(* the specification as a monitor of the handler target alone (R-monitor obligation): the registers are
   those of the specification; the handler's write strobes must be exactly the specification's commits.
   Monitor state: (previous fields, spec state) as above; input word as ev_of_hin. *)
Definition hd_spec_mon (ms : N) (i o : N) : option (N * bool) :=
  let e := ev_of_hin i in
  let prevf := ms mod 67108864 in
  let s := sp_dec (ms / 67108864) in
  if e_recv e || (fields_w e =? prevf) then
    let expect := match sp_commit s e with
                  | Some (true, v) => 1 + 2 * (v mod 128)
                  | Some (false, v) => 256 + 512 * (v mod 256)
                  | None => 0
                  end in
    Some (fields_w e + 67108864 * sp_enc (sp_next s e), o =? expect)
  else None.

(* the specification as a monitor of USBControlEndpoint + StandardRequestHandler (setup decoder stubbed: its SetupPacket is an
   input): tokens and handshakes are read where the DEVICE hands them to the control endpoint (EndpointInterface), so the control
   endpoint's forwarding to its request handlers is inside the checked netlist.  Input word
     s_recv[0] s_type[1..2] s_req[3..10] s_value[11..26] tokenizer.new_token[27] handshakes_in.ack[28]   (+ higher bits: the other
     tokenizer fields, setup.length / is_in_request, rx_ready_for_response, ...: read by the control FSM only)
   output word  address_changed[0] new_address[1..7] config_changed[8] new_config[9..16] status_requested[17]
   (status_requested is the control endpoint's own strobe; it counts as the answer to the status stage only while
   tokenizer.endpoint[34..37 of the input word] is the control endpoint's number 0, as in dev_spec_mon). *)
Definition ev_of_cio (i o : N) : ev :=
  mkEv (nb (bits i 0 1)) (bits i 1 2) (bits i 3 8) (bits i 11 16)
       (nb (bits i 27 1)) (nb (bits o 17 1) && (bits i 34 4 =? 0)) (nb (bits i 28 1)) false.
Definition ctl_spec_mon (ms : N) (i o : N) : option (N * bool) :=
  let e := ev_of_cio i o in
  let prevf := ms mod 67108864 in
  let s := sp_dec (ms / 67108864) in
  if e_recv e || (fields_w e =? prevf) then
    let expect := match sp_commit s e with
                  | Some (true, v) => 1 + 2 * (v mod 128)
                  | Some (false, v) => 256 + 512 * (v mod 256)
                  | None => 0
                  end in
    Some (fields_w e + 67108864 * sp_enc (sp_next s e), bits o 0 17 =? expect)
  else None.
